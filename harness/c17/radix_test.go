package c17

import (
	"math/cmplx"
	"strconv"
	"testing"

	"gonum.org/v1/gonum/dsp/fourier"
	"pgregory.net/rapid"
	"verifharness/vk"
)

func itoa(n int) string { return strconv.Itoa(n) }

// ---- radix-2 / radix-4 fast paths -------------------------------------------

type radixCase struct {
	N    int
	Kind string
	P    int
	Seed uint64
	Idx  []int
}

// radixTol: the radix-2/4 routines generate each twiddle by successive
// multiplication (documented: "numerical accuracies can accumulate for large
// inputs"): the j-th twiddle of a pass of half-length m carries up to 3*j*eps,
// j < m <= n/2, and the passes add up to at most 3*n*eps. The bound is
// C*log2(n) (butterflies) + 4*n (twiddle recurrences), in eps*||x||_1.
func radixTol(n int, n1 float64) float64 {
	return (cTol*log2f(n) + 4*float64(n)) * vk.Eps * n1
}

func checkRadix(c radixCase) *vk.Failure {
	n := c.N
	vk.Sample("radix", c)
	z := genCmplx(n, c.Kind, c.P, c.Seed)
	nz := nonzeroC(z)
	z1 := norm1(cparts(z))
	d := dsCtx{c: dsCase{N: n, Kind: c.Kind, P: c.P, Seed: c.Seed, Idx: c.Idx}, strict: true}
	type rx struct {
		name     string
		fwd, inv func([]complex128) []complex128
		ok       bool
	}
	for _, r := range []rx{
		{"Radix2", fourier.CoefficientsRadix2, fourier.SequenceRadix2, isPow2(n)},
		{"Radix4", fourier.CoefficientsRadix4, fourier.SequenceRadix4, isPow4(n)},
	} {
		r := r
		if !r.ok {
			// "If the length of seq is not an integer power of 2 [4], ... will panic."
			vk.Class("radix " + r.name + " invalid length")
			buf := append([]complex128(nil), z...)
			if f := vk.MustPanic("Coefficients"+r.name+"-bad-length", func() { r.fwd(buf) }); f != nil {
				f.Msg += " n=" + itoa(n)
				return f
			}
			buf = append([]complex128(nil), z...)
			if f := vk.MustPanic("Sequence"+r.name+"-bad-length", func() { r.inv(buf) }); f != nil {
				f.Msg += " n=" + itoa(n)
				return f
			}
			continue
		}
		vk.Class("radix " + r.name + " valid length")
		if nontrivialLen(n) && !singleImpulseAt0(c.Kind, c.P, n) {
			vk.NonTrivial("radix", r.name, n, c.Kind)
		}
		tn := table(n)
		tol := radixTol(n, z1)
		ct := fourier.NewCmplxFFT(n)
		for dir, fn := range []func([]complex128) []complex128{r.fwd, r.inv} {
			name := []string{"Coefficients", "Sequence"}[dir] + r.name
			sign := []float64{-1, 1}[dir]
			buf := append([]complex128(nil), z...)
			out := fn(buf)
			if len(out) != n || (n > 0 && &out[0] != &buf[0]) {
				return vk.Failf(name+"/in-place", "n=%d: result is not the input slice (len %d)", n, len(out))
			}
			if f := d.cmpC(name, "defining-sum", out, func(k int) complex128 { return refDFT(z, nz, k, sign, tn) }, tol); f != nil {
				return f
			}
			// equals the general path
			var gen []complex128
			if dir == 0 {
				gen = ct.Coefficients(nil, z)
			} else {
				gen = ct.Sequence(nil, z)
			}
			gtol := tol + d.tol(n, 1, z1)
			for k := range out {
				if e := cmplx.Abs(out[k] - gen[k]); !(e <= gtol) {
					return d.fail(name, "equals-CmplxFFT", k, out[k], gen[k], e, gtol)
				}
			}
		}
		// inverse pair: n*x
		buf := append([]complex128(nil), z...)
		mid := r.fwd(buf)
		m1 := norm1(cparts(mid))
		back := r.inv(mid)
		rtTol := radixTol(n, m1) + float64(n)*tol
		for j := range back {
			want := complex(float64(n), 0) * z[j]
			if e := cmplx.Abs(back[j] - want); !(e <= rtTol) {
				return d.fail(r.name, "roundtrip-scale-n", j, back[j], want, e, rtTol)
			}
		}
	}
	return nil
}

func TestRadix(t *testing.T) {
	// all lengths 1..maxN (valid and invalid), every impulse for the powers
	maxN := vk.Pick(130, 1030)
	base := vk.Seed() * 0x9e3779b97f4a7c15
	var cs []radixCase
	for n := 1; n <= maxN; n++ {
		if isPow2(n) {
			for p := 0; p < n; p++ {
				cs = append(cs, radixCase{N: n, Kind: kImp, P: p, Seed: uint64(p)})
			}
			for _, p := range []int{1, n / 2, n - 1, n / 3} {
				cs = append(cs, radixCase{N: n, Kind: kTone, P: p})
			}
			for i, k := range denseKinds {
				cs = append(cs, radixCase{N: n, Kind: k, Seed: base + uint64(8*n+i)})
			}
		} else {
			cs = append(cs, radixCase{N: n, Kind: kInt, Seed: base + uint64(n)})
		}
	}
	vk.Enumerate(t, "radix", len(cs), func(i int) radixCase { return cs[i] }, checkRadix)
	vk.Run(t, "radix-sampled", vk.Opts{Quick: 300, Thorough: 4000}, func(t *rapid.T) radixCase {
		var n int
		if rapid.IntRange(0, 4).Draw(t, "valid") > 0 {
			n = 1 << rapid.IntRange(0, 14).Draw(t, "log2n")
		} else {
			n = vk.Dim(t, "n", 3, 20000, 1024, 4096, 16384)
		}
		kind, p, seed := drawInput(t, n)
		c := radixCase{N: n, Kind: kind, P: p, Seed: seed}
		if n > 256 && kind != kImp {
			c.Idx = rapid.SliceOfN(rapid.IntRange(0, n-1), 12, 12).Draw(t, "idx")
		}
		return c
	}, checkRadix)
}

// ---- PadRadix2/4, TrimRadix2/4 ----------------------------------------------

type padCase struct{ L int }

func checkPad(c padCase) *vk.Failure {
	l := c.L
	vk.Sample("pad-trim", c)
	if l >= 3 {
		vk.NonTrivial("pad-trim", l)
	}
	x := make([]complex128, l, l+3)
	for i := range x {
		x[i] = complex(float64(i+1), -float64(2*i+1))
	}
	orig := append([]complex128(nil), x...)
	same := func(a, b []complex128) bool {
		if len(a) != len(b) {
			return false
		}
		for i := range a {
			if a[i] != b[i] {
				return false
			}
		}
		return true
	}
	type pad struct {
		name  string
		f     func([]complex128) []complex128
		valid func(int) bool
	}
	for _, p := range []pad{{"PadRadix2", fourier.PadRadix2, isPow2}, {"PadRadix4", fourier.PadRadix4, isPow4}} {
		out := p.f(x)
		if !same(x, orig) {
			return vk.Failf(p.name+"/modifies-input", "len=%d", l)
		}
		if l == 0 {
			if len(out) != 0 {
				return vk.Failf(p.name+"/empty", "len(out)=%d", len(out))
			}
			continue
		}
		if !p.valid(len(out)) || len(out) < l {
			return vk.Failf(p.name+"/length", "len=%d len(out)=%d is not a power >= len", l, len(out))
		}
		// minimal: no smaller valid length >= l
		for m := l; m < len(out); m++ {
			if p.valid(m) {
				return vk.Failf(p.name+"/minimal", "len=%d len(out)=%d but %d suffices", l, len(out), m)
			}
		}
		if !same(out[:l], orig) {
			return vk.Failf(p.name+"/prefix", "len=%d: values not preserved", l)
		}
		for i := l; i < len(out); i++ {
			if out[i] != 0 {
				return vk.Failf(p.name+"/zero-fill", "len=%d out[%d]=%v", l, i, out[i])
			}
		}
		// "If x already has an integer power of 2 [4] length it is returned unaltered."
		if p.valid(l) && (len(out) != l || &out[0] != &x[0]) {
			return vk.Failf(p.name+"/unaltered", "len=%d: a new slice was returned", l)
		}
		vk.Class(p.name + map[bool]string{true: " already a power", false: " padded"}[p.valid(l)])
	}
	type trim struct {
		name  string
		f     func([]complex128) (even, remains []complex128)
		valid func(int) bool
	}
	for _, p := range []trim{{"TrimRadix2", fourier.TrimRadix2, isPow2}, {"TrimRadix4", fourier.TrimRadix4, isPow4}} {
		ev, rem := p.f(x)
		if !same(x, orig) {
			return vk.Failf(p.name+"/modifies-input", "len=%d", l)
		}
		if len(ev)+len(rem) != l {
			return vk.Failf(p.name+"/partition", "len=%d len(even)=%d len(remains)=%d", l, len(ev), len(rem))
		}
		if l == 0 {
			continue
		}
		if !p.valid(len(ev)) {
			return vk.Failf(p.name+"/length", "len=%d len(even)=%d is not a power", l, len(ev))
		}
		for m := len(ev) + 1; m <= l; m++ {
			if p.valid(m) {
				return vk.Failf(p.name+"/largest", "len=%d len(even)=%d but %d fits", l, len(ev), m)
			}
		}
		if !same(ev, orig[:len(ev)]) || !same(rem, orig[len(ev):]) {
			return vk.Failf(p.name+"/values", "len=%d: even+remains is not x", l)
		}
		if &ev[0] != &x[0] || (len(rem) > 0 && &rem[0] != &x[len(ev)]) {
			return vk.Failf(p.name+"/slices-of-x", "len=%d: results are not slices of x", l)
		}
		// the padded/trimmed lengths are accepted by the transforms
		buf := append([]complex128(nil), ev...)
		if f := vk.MustReturn(p.name+"/accepted-by-transform", func() {
			if p.name == "TrimRadix2" {
				fourier.CoefficientsRadix2(buf)
			} else {
				fourier.CoefficientsRadix4(buf)
			}
		}); f != nil {
			return f
		}
	}
	return nil
}

func TestPadTrim(t *testing.T) {
	maxL := vk.Pick(300, 1100)
	ls := make([]int, 0, maxL+16)
	for l := 0; l <= maxL; l++ {
		ls = append(ls, l)
	}
	for _, b := range []int{4096, 16384, 65536} {
		ls = append(ls, b-1, b, b+1)
	}
	vk.Enumerate(t, "pad-trim", len(ls), func(i int) padCase { return padCase{ls[i]} }, checkPad)
}

// ---- a call rejected for its length leaves its argument untouched ----------------
//
// The radix routines work in place and document a panic for lengths that are
// not a power of 2 (4). A rejected call must not have written to its argument
// (CoefficientsRadix2/4 validate first; SequenceRadix2/4 reversed coeff[1:]
// before the validation).

type rejectCase struct {
	Fn string
	L  int
}

func checkRadixReject(c rejectCase) *vk.Failure {
	vk.Sample("radix-reject-untouched", c)
	fns := map[string]struct {
		f     func([]complex128) []complex128
		valid func(int) bool
	}{
		"CoefficientsRadix2": {fourier.CoefficientsRadix2, isPow2},
		"SequenceRadix2":     {fourier.SequenceRadix2, isPow2},
		"CoefficientsRadix4": {fourier.CoefficientsRadix4, isPow4},
		"SequenceRadix4":     {fourier.SequenceRadix4, isPow4},
	}
	e := fns[c.Fn]
	if e.valid(c.L) || c.L < 1 {
		return nil
	}
	vk.NonTrivial("radix-reject", c.Fn, c.L)
	vk.Class("radix-reject " + c.Fn)
	x := make([]complex128, c.L)
	for i := range x {
		x[i] = complex(float64(i), -float64(i+1))
	}
	if f := vk.MustPanic(c.Fn+"/bad-length-panics", func() { e.f(x) }); f != nil {
		f.Msg += " len=" + itoa(c.L)
		return f
	}
	for i := range x {
		if x[i] != complex(float64(i), -float64(i+1)) {
			return vk.Failf(c.Fn+"/input-modified-before-length-panic", "%s on a slice of length %d panicked as documented but left element %d = %v (was %v)", c.Fn, c.L, i, x[i], complex(float64(i), -float64(i+1)))
		}
	}
	return nil
}

func TestRadixRejectUntouched(t *testing.T) {
	var cs []rejectCase
	for _, fn := range []string{"CoefficientsRadix2", "SequenceRadix2", "CoefficientsRadix4", "SequenceRadix4"} {
		for l := 2; l <= vk.Pick(70, 300); l++ {
			cs = append(cs, rejectCase{fn, l})
		}
	}
	vk.Enumerate(t, "radix-reject-untouched", len(cs), func(i int) rejectCase { return cs[i] }, checkRadixReject)
}
