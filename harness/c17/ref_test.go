package c17

import (
	"math"
	"math/bits"

	"verifharness/vk"
)

// ---- exact-argument trigonometric tables -----------------------------------

// unitCS returns cos(2*pi*m/p) and sin(2*pi*m/p) for 0 <= m < p. The angle is
// reduced with integer arithmetic to [0, pi/4] before the single call of
// math.Sincos, so the absolute error of each value is below 3*2^-53.
func unitCS(m, p int) (c, s float64) {
	a, b := 2*m, p // theta = pi*a/b, 0 <= a < 2b
	sc, ss := 1.0, 1.0
	if a > b {
		a = 2*b - a
		ss = -1
	}
	if 2*a > b {
		a = b - a
		sc = -1
	}
	swap := false
	if 4*a > b {
		a, b = b-2*a, 2*b
		swap = true
	}
	sn, cs := 0.0, 1.0
	if a != 0 {
		sn, cs = math.Sincos(math.Pi * float64(a) / float64(b))
	}
	if swap {
		sn, cs = cs, sn
	}
	return sc * cs, ss * sn
}

type trig struct {
	p    int
	c, s []float64
}

var (
	trigCache = map[int]*trig{}
	trigOrder []int
)

// table returns cos/sin(2*pi*m/p) for all m in [0,p). A small cache avoids
// rebuilding the table for consecutive cases of the same length; the values
// are a pure function of p.
func table(p int) *trig {
	if t, ok := trigCache[p]; ok {
		return t
	}
	t := &trig{p: p, c: make([]float64, p), s: make([]float64, p)}
	for m := 0; m < p; m++ {
		t.c[m], t.s[m] = unitCS(m, p)
	}
	if len(trigOrder) >= 12 {
		delete(trigCache, trigOrder[0])
		trigOrder = trigOrder[1:]
	}
	trigCache[p] = t
	trigOrder = append(trigOrder, p)
	return t
}

// ---- defining sums ---------------------------------------------------------
//
// Every reference takes the list nz of the indices of the non-zero inputs, so
// that unit impulses cost O(1) per output, and reduces the integer product of
// the two indices modulo the period before the table lookup.

func nonzeroC(x []complex128) []int {
	nz := make([]int, 0, len(x))
	for j, v := range x {
		if v != 0 {
			nz = append(nz, j)
		}
	}
	return nz
}

func nonzeroR(x []float64) []int {
	nz := make([]int, 0, len(x))
	for j, v := range x {
		if v != 0 {
			nz = append(nz, j)
		}
	}
	return nz
}

// refDFT returns sum_j x[j]*exp(sign*2*pi*i*j*k/n) accumulated in double-double;
// t must be table(n).
func refDFT(x []complex128, nz []int, k int, sign float64, t *trig) complex128 {
	n := len(x)
	var re, im vk.DD
	for _, j := range nz {
		m := (j * k) % n
		c, s := t.c[m], sign*t.s[m]
		a, b := real(x[j]), imag(x[j])
		// (a+ib)(c+is) = (ac-bs) + i(as+bc)
		re.AddProd(a, c)
		im.AddProd(a, s)
		if b != 0 {
			re.AddProd(-b, s)
			im.AddProd(b, c)
		}
	}
	return complex(re.Float(), im.Float())
}

// refRealDFT is refDFT for real input.
func refRealDFT(x []float64, nz []int, k int, sign float64, t *trig) complex128 {
	n := len(x)
	var re, im vk.DD
	for _, j := range nz {
		m := (j * k) % n
		re.AddProd(x[j], t.c[m])
		im.AddProd(x[j], sign*t.s[m])
	}
	return complex(re.Float(), im.Float())
}

// refRealSeq is the defining sum of FFT.Sequence (FFTPACK rfftb): the
// unnormalised inverse of the half-complex spectrum of a real sequence of
// length n; the imaginary parts of coeff[0] and of the Nyquist coefficient
// (even n) do not enter. t must be table(n); nz lists the non-zero coeff.
func refRealSeq(coeff []complex128, nz []int, n, j int, t *trig) float64 {
	var acc vk.DD
	for _, k := range nz {
		switch {
		case k == 0:
			acc.Add(real(coeff[0]))
		case 2*k == n:
			v := real(coeff[k])
			if j%2 == 1 {
				v = -v
			}
			acc.Add(v)
		default:
			m := (j * k) % n
			acc.AddProd(2*real(coeff[k]), t.c[m])
			acc.AddProd(-2*imag(coeff[k]), t.s[m])
		}
	}
	return acc.Float()
}

// refDCT: FFTPACK cost. y[i] = x[0] + (-1)^i x[n-1] + sum_{k=1}^{n-2} 2 x[k] cos(pi*k*i/(n-1)).
// t must be table(2*(n-1)); n >= 2.
func refDCT(x []float64, nz []int, i int, t *trig) float64 {
	n := len(x)
	p := 2 * (n - 1)
	var acc vk.DD
	for _, k := range nz {
		switch k {
		case 0:
			acc.Add(x[0])
		case n - 1:
			if i%2 == 0 {
				acc.Add(x[n-1])
			} else {
				acc.Add(-x[n-1])
			}
		default:
			acc.AddProd(2*x[k], t.c[(k*i)%p])
		}
	}
	return acc.Float()
}

// refDST: FFTPACK sint. y[i] = sum_k 2 x[k] sin(pi*(k+1)*(i+1)/(n+1)).
// t must be table(2*(n+1)).
func refDST(x []float64, nz []int, i int, t *trig) float64 {
	p := 2 * (len(x) + 1)
	var acc vk.DD
	for _, k := range nz {
		acc.AddProd(2*x[k], t.s[((k+1)*(i+1))%p])
	}
	return acc.Float()
}

// Quarter-wave transforms (FFTPACK cosqf, cosqb, sinqf, sinqb; 0-based form of
// the definitions in the FFTPACK documentation); t must be table(4*n): the
// angle a*pi/(2n) equals 2*pi*(a mod 4n)/(4n).
//
//	cosqf: y[i] = x[0] + sum_{k=1}^{n-1} 2 x[k] cos((2i+1) k pi/(2n))
//	cosqb: y[i] = sum_{k=0}^{n-1} 4 x[k] cos((2k+1) i pi/(2n))
//	sinqf: y[i] = (-1)^i x[n-1] + sum_{k=0}^{n-2} 2 x[k] sin((2i+1)(k+1) pi/(2n))
//	sinqb: y[i] = sum_{k=0}^{n-1} 4 x[k] sin((2k+1)(i+1) pi/(2n))
func refCosqf(x []float64, nz []int, i int, t *trig) float64 {
	p := 4 * len(x)
	var acc vk.DD
	for _, k := range nz {
		if k == 0 {
			acc.Add(x[0])
			continue
		}
		acc.AddProd(2*x[k], t.c[((2*i+1)*k)%p])
	}
	return acc.Float()
}

func refCosqb(x []float64, nz []int, i int, t *trig) float64 {
	p := 4 * len(x)
	var acc vk.DD
	for _, k := range nz {
		acc.AddProd(4*x[k], t.c[((2*k+1)*i)%p])
	}
	return acc.Float()
}

func refSinqf(x []float64, nz []int, i int, t *trig) float64 {
	n := len(x)
	p := 4 * n
	var acc vk.DD
	for _, k := range nz {
		if k == n-1 {
			if i%2 == 0 {
				acc.Add(x[n-1])
			} else {
				acc.Add(-x[n-1])
			}
			continue
		}
		acc.AddProd(2*x[k], t.s[((2*i+1)*(k+1))%p])
	}
	return acc.Float()
}

func refSinqb(x []float64, nz []int, i int, t *trig) float64 {
	p := 4 * len(x)
	var acc vk.DD
	for _, k := range nz {
		acc.AddProd(4*x[k], t.s[((2*k+1)*(i+1))%p])
	}
	return acc.Float()
}

// ---- norms, tolerance ------------------------------------------------------

func norm1(x []float64) float64 {
	s := 0.0
	for _, v := range x {
		s += math.Abs(v)
	}
	return s
}

func norm2(x []float64) float64 {
	s := 0.0
	for _, v := range x {
		s += v * v
	}
	return math.Sqrt(s)
}

func cparts(x []complex128) []float64 {
	out := make([]float64, 0, 2*len(x))
	for _, v := range x {
		out = append(out, real(v), imag(v))
	}
	return out
}

func log2f(n int) float64 {
	if n < 2 {
		return 1
	}
	return math.Log2(float64(n))
}

// factorize returns the prime factors of n in increasing order.
func factorize(n int) []int {
	var f []int
	for p := 2; p*p <= n; p++ {
		for n%p == 0 {
			f = append(f, p)
			n /= p
		}
	}
	if n > 1 {
		f = append(f, n)
	}
	return f
}

func isPow2(n int) bool { return n > 0 && bits.OnesCount(uint(n)) == 1 }
func isPow4(n int) bool { return isPow2(n) && bits.TrailingZeros(uint(n))%2 == 0 }

// nontrivialLen implements the non-triviality rule on the length: at least one
// odd prime factor, or n >= 8.
func nontrivialLen(n int) bool {
	if n >= 8 {
		return true
	}
	for _, p := range factorize(n) {
		if p > 2 {
			return true
		}
	}
	return false
}

// lenClass labels n by the factor pattern that selects the butterfly passes.
func lenClass(n int) string {
	if n == 1 {
		return "len=1"
	}
	f := factorize(n)
	big := f[len(f)-1]
	switch {
	case isPow2(n):
		return "len=2^a"
	case big <= 5:
		return "len=smooth{2,3,5}"
	case len(f) == 1:
		return "len=prime>5"
	case len(f) == 2 && f[0] == f[1]:
		return "len=prime^2"
	}
	return "len=mixed-with-general-radix"
}

// cTol is the slack constant C of the acceptance bound.
const cTol = 50.0

// tolUnits returns the acceptance bound, in units of eps*(largest weight)*||x||_1,
// for one output of a transform whose internal FFT has length m.
//
// Every output is a sum of the inputs times weights of modulus <= 1 that the
// factored algorithm forms as products of one twiddle per pass, so the
// componentwise rounding bound is (sum over passes of the per-pass error)*||x||_1.
// A pass of radix 2, 3, 4 or 5 contributes a few eps (C absorbs the constants,
// including the 15-digit literal constants of radf3/radf5/sint1 and the
// argument error of the twiddle tables); a general-radix pass of prime radix
// p > 5 sums p terms (p*eps). In loose mode (strict == false) the bound also
// admits the error of the rotation recurrences by which FFTPACK's
// radfg/radbg (real FFT) generate the radix-p twiddles: a rotation recurrence of
// up to p/2 steps whose rotation is itself the result of a recurrence of up
// to p/2 steps, (p^2+1.5p)*eps, taken with a factor two.
func tolUnits(m int, strict bool) float64 {
	sp, sp2 := 0.0, 0.0
	for _, p := range factorize(m) {
		if p > 5 {
			sp += float64(p)
			sp2 += float64(p) * float64(p)
		}
	}
	u := cTol * (log2f(m) + sp)
	if !strict {
		u += 2 * sp2
	}
	return u
}
