package c17

import (
	"math"
	"testing"

	"gonum.org/v1/gonum/dsp/fourier"
	"verifharness/vk"
)

// ---- Freq / ShiftIdx / UnshiftIdx: exhaustive over all indices of every length

type freqCase struct{ N int }

func checkFreq(c freqCase) *vk.Failure {
	n := c.N
	vk.Class("freq " + map[bool]string{true: "n even", false: "n odd"}[n%2 == 0])
	if nontrivialLen(n) {
		vk.NonTrivial("freq", n)
	}
	vk.Sample("freq", c)
	ft := fourier.NewFFT(n)
	ct := fourier.NewCmplxFFT(n)
	fn := float64(n)
	prev := math.Inf(-1)
	for i := 0; i < n; i++ {
		// FFT.Freq(i) = i/n ("relative frequency center for coefficient i")
		if got, want := ft.Freq(i), float64(i)/fn; math.Abs(got-want) > 4*vk.Eps*math.Abs(want) {
			return vk.Failf("FFT.Freq", "n=%d Freq(%d)=%v want %v", n, i, got, want)
		}
		s := ct.ShiftIdx(i)
		u := ct.UnshiftIdx(i)
		if s < 0 || s >= n || u < 0 || u >= n {
			return vk.Failf("shift-range", "n=%d ShiftIdx(%d)=%d UnshiftIdx(%d)=%d", n, i, s, i, u)
		}
		if r := ct.UnshiftIdx(s); r != i {
			return vk.Failf("unshift-shift", "n=%d UnshiftIdx(ShiftIdx(%d)=%d)=%d", n, i, s, r)
		}
		if r := ct.ShiftIdx(u); r != i {
			return vk.Failf("shift-unshift", "n=%d ShiftIdx(UnshiftIdx(%d)=%d)=%d", n, i, u, r)
		}
		// Freq(ShiftIdx(i)) is strictly increasing with the zero frequency at
		// the centre n/2, so coefficient s has frequency (i - n/2)/n.
		f := ct.Freq(s)
		if !(f > prev) {
			return vk.Failf("shifted-freq-increasing", "n=%d i=%d Freq(ShiftIdx(i)=%d)=%v after %v", n, i, s, f, prev)
		}
		prev = f
		want := float64(i-n/2) / fn
		if math.Abs(f-want) > 4*vk.Eps*math.Abs(want) {
			return vk.Failf("shifted-freq-value", "n=%d i=%d Freq(ShiftIdx(i)=%d)=%v want %v", n, i, s, f, want)
		}
		if i == n/2 && f != 0 {
			return vk.Failf("shifted-freq-centre", "n=%d Freq(ShiftIdx(n/2)=%d)=%v want 0", n, s, f)
		}
		// CmplxFFT.Freq(k): k/n on the non-negative half, (k-n)/n above it.
		fk := ct.Freq(i)
		wk := float64(i) / fn
		if 2*i >= n && i > 0 {
			wk = float64(i-n) / fn
		}
		if math.Abs(fk-wk) > 4*vk.Eps*math.Abs(wk) {
			return vk.Failf("CmplxFFT.Freq", "n=%d Freq(%d)=%v want %v", n, i, fk, wk)
		}
	}
	// "will panic if i is negative or greater than or equal to t.Len()"
	for _, bad := range []int{-1, n, n + 1, -n - 1, 2*n + 3} {
		bad := bad
		if f := vk.MustPanic("FFT.Freq-out-of-range", func() { ft.Freq(bad) }); f != nil {
			f.Msg += " n=" + itoa(n) + " i=" + itoa(bad)
			return f
		}
		if f := vk.MustPanic("CmplxFFT.Freq-out-of-range", func() { ct.Freq(bad) }); f != nil {
			f.Msg += " n=" + itoa(n) + " i=" + itoa(bad)
			return f
		}
		if f := vk.MustPanic("ShiftIdx-out-of-range", func() { ct.ShiftIdx(bad) }); f != nil {
			f.Msg += " n=" + itoa(n) + " i=" + itoa(bad)
			return f
		}
		if f := vk.MustPanic("UnshiftIdx-out-of-range", func() { ct.UnshiftIdx(bad) }); f != nil {
			f.Msg += " n=" + itoa(n) + " i=" + itoa(bad)
			return f
		}
	}
	return nil
}

func TestFreqShift(t *testing.T) {
	maxN := vk.Pick(256, 1024)
	ns := make([]int, 0, maxN+8)
	for n := 1; n <= maxN; n++ {
		ns = append(ns, n)
	}
	ns = append(ns, 4095, 4096, 4097, 9973, 10000)
	vk.Enumerate(t, "freq-shift", len(ns), func(i int) freqCase { return freqCase{ns[i]} }, checkFreq)
}
