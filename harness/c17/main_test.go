// Package c17 checks property C17: Fourier-family transforms equal their
// defining sums for every length (dsp/fourier, dsp/transform, dsp/window).
package c17

import (
	"testing"

	"verifharness/vk"
)

func TestMain(m *testing.M) { vk.Main(m, "C17") }
