package c17

import (
	"math/cmplx"
	"testing"

	"gonum.org/v1/gonum/dsp/fourier"
	"pgregory.net/rapid"
	"verifharness/vk"
)

// ---- accuracy of the general-radix passes ---------------------------------------
//
// checkDefsum accepts, for the transforms built on the real FFT (FFT, DCT, DST,
// QuarterWaveFFT) at lengths with a prime factor p > 5, the error of the
// rotation recurrences by which FFTPACK's radfg/radbg generate the radix-p
// twiddle factors (about p^2*eps, see tolUnits). This sub-check asserts the
// bound without that allowance on the real FFT (and on the complex FFT, whose
// general-radix pass reads tabulated twiddles and meets it):
// C*(log2(n) + sum of the prime factors > 5) in units of eps*||x||_1, which is
// what a radix-p butterfly evaluated as p-term sums with accurate twiddles
// satisfies with the same slack C = 50 as the other radices.

func checkAccuracy(c dsCase) *vk.Failure {
	n := c.N
	vk.Class("accuracy " + lenClass(n))
	vk.Sample("accuracy-general-radix", c)
	vk.NonTrivial("accuracy", n, c.Kind)
	tn := table(n)
	x := genReal(n, c.Kind, c.P, c.Seed)
	z := genCmplx(n, c.Kind, c.P, c.Seed+2)
	nzx, nzz := nonzeroR(x), nonzeroC(z)
	x1, z1 := norm1(x), norm1(cparts(z))
	rc := fourier.NewFFT(n).Coefficients(nil, x)
	ct := fourier.NewCmplxFFT(n)
	cf := ct.Coefficients(nil, z)
	cb := ct.Sequence(nil, z)
	for _, strict := range []bool{false, true} {
		d := dsCtx{c: c, strict: strict}
		what := "defining-sum"
		if strict {
			what = "rounding-bound-without-twiddle-recurrence-allowance"
		}
		var fail *vk.Failure
		for _, k := range c.indices(n) {
			if k <= n/2 {
				want := refRealDFT(x, nzx, k, -1, tn)
				if e, tol := cmplx.Abs(rc[k]-want), d.tol(n, 1, x1); !(e <= tol) {
					fail = d.fail("FFT.Coefficients", what, k, rc[k], want, e, tol)
					break
				}
			}
			if strict {
				continue // the complex FFT was held to the strict bound in the first round
			}
			dz := dsCtx{c: c, strict: true}
			want := refDFT(z, nzz, k, -1, tn)
			if e, tol := cmplx.Abs(cf[k]-want), dz.tol(n, 1, z1); !(e <= tol) {
				fail = d.fail("CmplxFFT.Coefficients", what, k, cf[k], want, e, tol)
				break
			}
			want = refDFT(z, nzz, k, +1, tn)
			if e, tol := cmplx.Abs(cb[k]-want), dz.tol(n, 1, z1); !(e <= tol) {
				fail = d.fail("CmplxFFT.Sequence", what, k, cb[k], want, e, tol)
				break
			}
		}
		if fail != nil {
			if strict {
				fail.Key = what // one key for the known finding
			}
			return fail
		}
	}
	return nil
}

func TestAccuracyGeneralRadix(t *testing.T) {
	vk.Run(t, "accuracy-general-radix", vk.Opts{Quick: 96, Thorough: 2000}, func(t *rapid.T) dsCase {
		hi := rapid.SampledFrom([]int{100, 1000, 1000, 4000, 4000, 10000}).Draw(t, "hi")
		p := primeBelow(t, hi, "p")
		if p < 7 {
			p = 7
		}
		n := p * rapid.SampledFrom([]int{1, 1, 2, 3, 4}).Draw(t, "mult")
		if n > 10000 {
			n = p
		}
		kind := rapid.SampledFrom([]string{kImp, kImp, kGauss}).Draw(t, "kind")
		c := dsCase{N: n, Kind: kind}
		if kind == kImp {
			c.P = vk.Dim(t, "pos", 0, n-1, n/2)
		} else {
			c.Seed = rapid.Uint64().Draw(t, "seed")
		}
		if n > 200 {
			c.Idx = rapid.SliceOfN(rapid.IntRange(0, n-1), 12, 12).Draw(t, "idx")
		}
		return c
	}, checkAccuracy)
}
