package c64

// Property C08, in-repo part for gonum.org/v1/gonum/internal/asm/c64: every
// exported kernel against the scalar loop of its doc comment. This file is
// injected into the package with go test -overlay; the machinery is in
// verifharness/inrepo/ik.

import (
	"testing"

	"verifharness/inrepo/ik"
	"verifharness/vk"
)

func TestMain(m *testing.M) { vk.Main(m, "C08") }

type (
	vkArgs = ik.Args[complex64]
	vkOp   = ik.Op[complex64]
)

var (
	vkAll = []int{ik.ClsFinite, ik.ClsExtreme, ik.ClsSpecial}
	vkRed = []int{ik.ClsFinite, ik.ClsExtreme, ik.ClsSpecial, ik.ClsInf}
)

func vkRet(v complex64) complex128 { return complex128(v) }

// The four Axpy kernels are compared with a rounding bound (Approx), not bit
// for bit: see ik.checkApproxAxpy for the reason (float64 intermediates of Go's
// complex64 product versus single-precision products in the assembly).
var vkOps = []*vkOp{
	{Name: "AxpyUnitary", Family: "Axpy", Classes: vkAll, Approx: true, Ref: ik.RefAxpyUnitary[complex64],
		Shape: ik.Shape{HasX: true, HasY: true, WritesY: true, Alpha: true},
		Call:  func(a *vkArgs) { AxpyUnitary(a.Alpha, a.X, a.Y) }},
	{Name: "AxpyUnitaryTo", Family: "Axpy", Classes: vkAll, Approx: true, GuardN1: true, Ref: ik.RefAxpyUnitaryTo[complex64],
		Shape: ik.Shape{HasX: true, HasY: true, HasDst: true, Alpha: true, AliasX: true, AliasY: true},
		Call:  func(a *vkArgs) { AxpyUnitaryTo(a.Dst, a.Alpha, a.X, a.Y) }},
	{Name: "AxpyInc", Family: "Axpy", Classes: vkAll, Approx: true, Ref: ik.RefAxpyInc[complex64],
		Shape: ik.Shape{HasX: true, HasY: true, Inc: true, Idx: true, WritesY: true, Alpha: true, NegInc: true},
		Call:  func(a *vkArgs) { AxpyInc(a.Alpha, a.X, a.Y, a.N, a.IncX, a.IncY, a.IX, a.IY) }},
	{Name: "AxpyIncTo", Family: "Axpy", Classes: vkAll, Approx: true, Ref: ik.RefAxpyIncTo[complex64],
		Shape: ik.Shape{HasX: true, HasY: true, HasDst: true, Inc: true, Idx: true, Alpha: true, AliasX: true, AliasY: true, NegInc: true},
		Call: func(a *vkArgs) {
			AxpyIncTo(a.Dst, a.IncD, a.ID, a.Alpha, a.X, a.Y, a.N, a.IncX, a.IncY, a.IX, a.IY)
		}},
	{Name: "DotuUnitary", Family: "Dot", Classes: vkRed, Red: ik.RedDot,
		Shape: ik.Shape{HasX: true, HasY: true},
		Call:  func(a *vkArgs) { a.Ret = vkRet(DotuUnitary(a.X, a.Y)) }},
	{Name: "DotcUnitary", Family: "Dot", Classes: vkRed, Red: ik.RedDotc,
		Shape: ik.Shape{HasX: true, HasY: true},
		Call:  func(a *vkArgs) { a.Ret = vkRet(DotcUnitary(a.X, a.Y)) }},
	{Name: "DotuInc", Family: "Dot", Classes: vkRed, Red: ik.RedDot,
		Shape: ik.Shape{HasX: true, HasY: true, Inc: true, Idx: true, NegInc: true},
		Call:  func(a *vkArgs) { a.Ret = vkRet(DotuInc(a.X, a.Y, a.N, a.IncX, a.IncY, a.IX, a.IY)) }},
	{Name: "DotcInc", Family: "Dot", Classes: vkRed, Red: ik.RedDotc,
		Shape: ik.Shape{HasX: true, HasY: true, Inc: true, Idx: true, NegInc: true},
		Call:  func(a *vkArgs) { a.Ret = vkRet(DotcInc(a.X, a.Y, a.N, a.IncX, a.IncY, a.IX, a.IY)) }},
	// DotUnitary is sum conj(x[i]) * y[i], the same value as DotcUnitary.
	{Name: "DotUnitary", Family: "Dot", Classes: vkRed, Red: ik.RedDotc,
		Shape: ik.Shape{HasX: true, HasY: true},
		Call:  func(a *vkArgs) { a.Ret = vkRet(DotUnitary(a.X, a.Y)) }},
	{Name: "ScalUnitary", Family: "Scal", Classes: vkAll, Ref: ik.RefScalUnitary[complex64],
		Shape: ik.Shape{HasX: true, WritesX: true, Alpha: true},
		Call:  func(a *vkArgs) { ScalUnitary(a.Alpha, a.X) }},
	{Name: "ScalUnitaryTo", Family: "Scal", Classes: vkAll, Ref: ik.RefScalUnitaryTo[complex64],
		Shape: ik.Shape{HasX: true, HasDst: true, Alpha: true, AliasX: true},
		Call:  func(a *vkArgs) { ScalUnitaryTo(a.Dst, a.Alpha, a.X) }},
	{Name: "ScalInc", Family: "Scal", Classes: vkAll, Ref: ik.RefScalInc[complex64],
		Shape: ik.Shape{HasX: true, Inc: true, WritesX: true, Alpha: true},
		Call:  func(a *vkArgs) { ScalInc(a.Alpha, a.X, a.N, a.IncX) }},
	{Name: "ScalIncTo", Family: "Scal", Classes: vkAll, Ref: ik.RefScalIncTo[complex64],
		Shape: ik.Shape{HasX: true, HasDst: true, Inc: true, Alpha: true, AliasX: true},
		Call:  func(a *vkArgs) { ScalIncTo(a.Dst, a.IncD, a.Alpha, a.X, a.N, a.IncX) }},
	{Name: "SscalUnitary", Family: "Scal", Classes: vkAll, Ref: ik.RefRealScalUnitary[complex64],
		Shape: ik.Shape{HasX: true, WritesX: true, RealAlpha: true},
		Call:  func(a *vkArgs) { SscalUnitary(float32(a.RAlpha), a.X) }},
	{Name: "SscalInc", Family: "Scal", Classes: vkAll, Ref: ik.RefRealScalInc[complex64],
		Shape: ik.Shape{HasX: true, Inc: true, WritesX: true, RealAlpha: true},
		Call:  func(a *vkArgs) { SscalInc(float32(a.RAlpha), a.X, a.N, a.IncX) }},
	{Name: "Add", Family: "Elem", Classes: vkAll, Ref: ik.RefAdd[complex64],
		Shape: ik.Shape{HasX: true, HasY: true, WritesY: true},
		Call:  func(a *vkArgs) { Add(a.Y, a.X) }},
	{Name: "AddConst", Family: "Elem", Classes: vkAll, Ref: ik.RefAddConst[complex64],
		Shape: ik.Shape{HasX: true, WritesX: true, Alpha: true},
		Call:  func(a *vkArgs) { AddConst(a.Alpha, a.X) }},
	{Name: "CumSum", Family: "Elem", Classes: vkAll, Ref: ik.RefCumSum[complex64], Prefix: "sum",
		Shape: ik.Shape{HasX: true, HasDst: true, RetDst: true, AliasX: true},
		Call:  func(a *vkArgs) { a.RetS = CumSum(a.Dst, a.X) }},
	{Name: "CumProd", Family: "Elem", Classes: vkAll, Ref: ik.RefCumProd[complex64], Prefix: "prod",
		Shape: ik.Shape{HasX: true, HasDst: true, RetDst: true, AliasX: true},
		Call:  func(a *vkArgs) { a.RetS = CumProd(a.Dst, a.X) }},
	{Name: "Div", Family: "Elem", Classes: vkAll, Ref: ik.RefDiv[complex64],
		Shape: ik.Shape{HasX: true, HasY: true, WritesY: true},
		Call:  func(a *vkArgs) { Div(a.Y, a.X) }},
	{Name: "DivTo", Family: "Elem", Classes: vkAll, Ref: ik.RefDivTo[complex64],
		Shape: ik.Shape{HasX: true, HasY: true, HasDst: true, RetDst: true, AliasX: true, AliasY: true},
		Call:  func(a *vkArgs) { a.RetS = DivTo(a.Dst, a.X, a.Y) }},
	{Name: "Sum", Family: "Norm", Classes: vkRed, Red: ik.RedSum,
		Shape: ik.Shape{HasX: true},
		Call:  func(a *vkArgs) { a.Ret = vkRet(Sum(a.X)) }},
	{Name: "L2NormUnitary", Family: "Norm", Classes: vkAll, Red: ik.RedL2,
		Shape: ik.Shape{HasX: true},
		Call:  func(a *vkArgs) { a.Ret = complex(float64(L2NormUnitary(a.X)), 0) }},
	{Name: "L2DistanceUnitary", Family: "Norm", Classes: vkAll, Red: ik.RedL2Dist,
		Shape: ik.Shape{HasX: true, HasY: true},
		Call:  func(a *vkArgs) { a.Ret = complex(float64(L2DistanceUnitary(a.X, a.Y)), 0) }},
}

func TestVKAxpy(t *testing.T) { ik.RunFamily(t, "c64", vkOps, "Axpy") }
func TestVKDot(t *testing.T)  { ik.RunFamily(t, "c64", vkOps, "Dot") }
func TestVKScal(t *testing.T) { ik.RunFamily(t, "c64", vkOps, "Scal") }
func TestVKElem(t *testing.T) { ik.RunFamily(t, "c64", vkOps, "Elem") }
func TestVKNorm(t *testing.T) { ik.RunFamily(t, "c64", vkOps, "Norm") }
