package f32

// Property C08, in-repo part for gonum.org/v1/gonum/internal/asm/f32: every
// exported kernel against the scalar loop of its doc comment. This file is
// injected into the package with go test -overlay; the machinery is in
// verifharness/inrepo/ik.

import (
	"testing"

	"verifharness/inrepo/ik"
	"verifharness/vk"
)

func TestMain(m *testing.M) { vk.Main(m, "C08") }

type (
	vkArgs = ik.Args[float32]
	vkOp   = ik.Op[float32]
)

var (
	vkAll = []int{ik.ClsFinite, ik.ClsExtreme, ik.ClsSpecial}
	vkRed = []int{ik.ClsFinite, ik.ClsExtreme, ik.ClsSpecial, ik.ClsInf}
)

func vkRet(v float32) complex128 { return complex(float64(v), 0) }

var vkOps = []*vkOp{
	{Name: "AxpyUnitary", Family: "Axpy", Classes: vkAll, Ref: ik.RefAxpyUnitary[float32],
		Shape: ik.Shape{HasX: true, HasY: true, WritesY: true, Alpha: true},
		Call:  func(a *vkArgs) { AxpyUnitary(a.Alpha, a.X, a.Y) }},
	{Name: "AxpyUnitaryTo", Family: "Axpy", Classes: vkAll, Ref: ik.RefAxpyUnitaryTo[float32],
		Shape: ik.Shape{HasX: true, HasY: true, HasDst: true, Alpha: true, AliasX: true, AliasY: true},
		Call:  func(a *vkArgs) { AxpyUnitaryTo(a.Dst, a.Alpha, a.X, a.Y) }},
	{Name: "AxpyInc", Family: "Axpy", Classes: vkAll, Ref: ik.RefAxpyInc[float32],
		Shape: ik.Shape{HasX: true, HasY: true, Inc: true, Idx: true, WritesY: true, Alpha: true, NegInc: true},
		Call:  func(a *vkArgs) { AxpyInc(a.Alpha, a.X, a.Y, a.N, a.IncX, a.IncY, a.IX, a.IY) }},
	{Name: "AxpyIncTo", Family: "Axpy", Classes: vkAll, Ref: ik.RefAxpyIncTo[float32],
		Shape: ik.Shape{HasX: true, HasY: true, HasDst: true, Inc: true, Idx: true, Alpha: true, AliasX: true, AliasY: true, NegInc: true},
		Call: func(a *vkArgs) {
			AxpyIncTo(a.Dst, a.IncD, a.ID, a.Alpha, a.X, a.Y, a.N, a.IncX, a.IncY, a.IX, a.IY)
		}},
	{Name: "DotUnitary", Family: "Dot", Classes: vkRed, Red: ik.RedDot,
		Shape: ik.Shape{HasX: true, HasY: true},
		Call:  func(a *vkArgs) { a.Ret = vkRet(DotUnitary(a.X, a.Y)) }},
	{Name: "DotInc", Family: "Dot", Classes: vkRed, Red: ik.RedDot,
		Shape: ik.Shape{HasX: true, HasY: true, Inc: true, Idx: true, NegInc: true},
		Call:  func(a *vkArgs) { a.Ret = vkRet(DotInc(a.X, a.Y, a.N, a.IncX, a.IncY, a.IX, a.IY)) }},
	{Name: "DdotUnitary", Family: "Dot", Classes: vkRed, Red: ik.RedDot, Acc64: true,
		Shape: ik.Shape{HasX: true, HasY: true},
		Call:  func(a *vkArgs) { a.Ret = complex(DdotUnitary(a.X, a.Y), 0) }},
	{Name: "DdotInc", Family: "Dot", Classes: vkRed, Red: ik.RedDot, Acc64: true,
		Shape: ik.Shape{HasX: true, HasY: true, Inc: true, Idx: true, NegInc: true},
		Call:  func(a *vkArgs) { a.Ret = complex(DdotInc(a.X, a.Y, a.N, a.IncX, a.IncY, a.IX, a.IY), 0) }},
	{Name: "ScalUnitary", Family: "Scal", Classes: vkAll, Ref: ik.RefScalUnitary[float32],
		Shape: ik.Shape{HasX: true, WritesX: true, Alpha: true},
		Call:  func(a *vkArgs) { ScalUnitary(a.Alpha, a.X) }},
	{Name: "ScalUnitaryTo", Family: "Scal", Classes: vkAll, Ref: ik.RefScalUnitaryTo[float32],
		Shape: ik.Shape{HasX: true, HasDst: true, Alpha: true, AliasX: true},
		Call:  func(a *vkArgs) { ScalUnitaryTo(a.Dst, a.Alpha, a.X) }},
	{Name: "ScalInc", Family: "Scal", Classes: vkAll, Ref: ik.RefScalInc[float32],
		Shape: ik.Shape{HasX: true, Inc: true, WritesX: true, Alpha: true},
		Call:  func(a *vkArgs) { ScalInc(a.Alpha, a.X, a.N, a.IncX) }},
	{Name: "ScalIncTo", Family: "Scal", Classes: vkAll, Ref: ik.RefScalIncTo[float32],
		Shape: ik.Shape{HasX: true, HasDst: true, Inc: true, Alpha: true, AliasX: true},
		Call:  func(a *vkArgs) { ScalIncTo(a.Dst, a.IncD, a.Alpha, a.X, a.N, a.IncX) }},
	{Name: "Sum", Family: "Norm", Classes: vkRed, Red: ik.RedSum,
		Shape: ik.Shape{HasX: true},
		Call:  func(a *vkArgs) { a.Ret = vkRet(Sum(a.X)) }},
	{Name: "L2NormUnitary", Family: "Norm", Classes: vkAll, Red: ik.RedL2,
		Shape: ik.Shape{HasX: true},
		Call:  func(a *vkArgs) { a.Ret = vkRet(L2NormUnitary(a.X)) }},
	{Name: "L2NormInc", Family: "Norm", Classes: vkAll, Red: ik.RedL2,
		Shape: ik.Shape{HasX: true, Inc: true},
		Call:  func(a *vkArgs) { a.Ret = vkRet(L2NormInc(a.X, a.N, a.IncX)) }},
	{Name: "L2DistanceUnitary", Family: "Norm", Classes: vkAll, Red: ik.RedL2Dist,
		Shape: ik.Shape{HasX: true, HasY: true},
		Call:  func(a *vkArgs) { a.Ret = vkRet(L2DistanceUnitary(a.X, a.Y)) }},
}

func TestVKAxpy(t *testing.T) { ik.RunFamily(t, "f32", vkOps, "Axpy") }
func TestVKDot(t *testing.T)  { ik.RunFamily(t, "f32", vkOps, "Dot") }
func TestVKScal(t *testing.T) { ik.RunFamily(t, "f32", vkOps, "Scal") }
func TestVKNorm(t *testing.T) { ik.RunFamily(t, "f32", vkOps, "Norm") }
func TestVKGe(t *testing.T) {
	ik.RunGe(t, "f32", ik.GeFns[float32]{Ger: Ger, GemvN: GemvN, GemvT: GemvT})
}
