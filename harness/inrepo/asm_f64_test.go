package f64

// Property C08, in-repo part for gonum.org/v1/gonum/internal/asm/f64: every
// exported kernel against the scalar loop of its doc comment. This file is
// injected into the package with go test -overlay; the machinery is in
// verifharness/inrepo/ik.

import (
	"testing"

	"verifharness/inrepo/ik"
	"verifharness/vk"
)

func TestMain(m *testing.M) { vk.Main(m, "C08") }

type (
	vkArgs = ik.Args[float64]
	vkOp   = ik.Op[float64]
)

var (
	vkAll    = []int{ik.ClsFinite, ik.ClsExtreme, ik.ClsSpecial}
	vkRed    = []int{ik.ClsFinite, ik.ClsExtreme, ik.ClsSpecial, ik.ClsInf}
	vkPrefix = []int{ik.ClsFinite, ik.ClsExtreme, ik.ClsSpecial, ik.ClsHuge}
)

func vkRet(v float64) complex128 { return complex(v, 0) }

var vkOps = []*vkOp{
	{Name: "AxpyUnitary", Family: "Axpy", Classes: vkAll, Ref: ik.RefAxpyUnitary[float64],
		Shape: ik.Shape{HasX: true, HasY: true, WritesY: true, Alpha: true},
		Call:  func(a *vkArgs) { AxpyUnitary(a.Alpha, a.X, a.Y) }},
	{Name: "AxpyUnitaryTo", Family: "Axpy", Classes: vkAll, Ref: ik.RefAxpyUnitaryTo[float64],
		Shape: ik.Shape{HasX: true, HasY: true, HasDst: true, Alpha: true, AliasX: true, AliasY: true},
		Call:  func(a *vkArgs) { AxpyUnitaryTo(a.Dst, a.Alpha, a.X, a.Y) }},
	{Name: "AxpyInc", Family: "Axpy", Classes: vkAll, Ref: ik.RefAxpyInc[float64],
		Shape: ik.Shape{HasX: true, HasY: true, Inc: true, Idx: true, WritesY: true, Alpha: true, NegInc: true},
		Call:  func(a *vkArgs) { AxpyInc(a.Alpha, a.X, a.Y, a.N, a.IncX, a.IncY, a.IX, a.IY) }},
	{Name: "AxpyIncTo", Family: "Axpy", Classes: vkAll, Ref: ik.RefAxpyIncTo[float64],
		Shape: ik.Shape{HasX: true, HasY: true, HasDst: true, Inc: true, Idx: true, Alpha: true, AliasX: true, AliasY: true, NegInc: true},
		Call: func(a *vkArgs) {
			AxpyIncTo(a.Dst, a.IncD, a.ID, a.Alpha, a.X, a.Y, a.N, a.IncX, a.IncY, a.IX, a.IY)
		}},

	{Name: "DotUnitary", Family: "Dot", Classes: vkRed, Red: ik.RedDot,
		Shape: ik.Shape{HasX: true, HasY: true},
		Call:  func(a *vkArgs) { a.Ret = vkRet(DotUnitary(a.X, a.Y)) }},
	{Name: "DotInc", Family: "Dot", Classes: vkRed, Red: ik.RedDot,
		Shape: ik.Shape{HasX: true, HasY: true, Inc: true, Idx: true, NegInc: true},
		Call:  func(a *vkArgs) { a.Ret = vkRet(DotInc(a.X, a.Y, a.N, a.IncX, a.IncY, a.IX, a.IY)) }},

	{Name: "ScalUnitary", Family: "Scal", Classes: vkAll, Ref: ik.RefScalUnitary[float64],
		Shape: ik.Shape{HasX: true, WritesX: true, Alpha: true},
		Call:  func(a *vkArgs) { ScalUnitary(a.Alpha, a.X) }},
	{Name: "ScalUnitaryTo", Family: "Scal", Classes: vkAll, Ref: ik.RefScalUnitaryTo[float64],
		Shape: ik.Shape{HasX: true, HasDst: true, Alpha: true, AliasX: true},
		Call:  func(a *vkArgs) { ScalUnitaryTo(a.Dst, a.Alpha, a.X) }},
	{Name: "ScalInc", Family: "Scal", Classes: vkAll, Ref: ik.RefScalInc[float64],
		Shape: ik.Shape{HasX: true, Inc: true, WritesX: true, Alpha: true},
		Call:  func(a *vkArgs) { ScalInc(a.Alpha, a.X, a.N, a.IncX) }},
	{Name: "ScalIncTo", Family: "Scal", Classes: vkAll, Ref: ik.RefScalIncTo[float64],
		Shape: ik.Shape{HasX: true, HasDst: true, Inc: true, Alpha: true, AliasX: true},
		Call:  func(a *vkArgs) { ScalIncTo(a.Dst, a.IncD, a.Alpha, a.X, a.N, a.IncX) }},

	{Name: "Add", Family: "Elem", Classes: vkAll, Ref: ik.RefAdd[float64],
		Shape: ik.Shape{HasX: true, HasY: true, WritesY: true},
		Call:  func(a *vkArgs) { Add(a.Y, a.X) }},
	{Name: "AddConst", Family: "Elem", Classes: vkAll, Ref: ik.RefAddConst[float64],
		Shape: ik.Shape{HasX: true, WritesX: true, Alpha: true},
		Call:  func(a *vkArgs) { AddConst(a.Alpha, a.X) }},
	{Name: "CumSum", Family: "Elem", Classes: vkPrefix, Ref: ik.RefCumSum[float64], Prefix: "sum",
		Shape: ik.Shape{HasX: true, HasDst: true, RetDst: true, AliasX: true},
		Call:  func(a *vkArgs) { a.RetS = CumSum(a.Dst, a.X) }},
	{Name: "CumProd", Family: "Elem", Classes: vkPrefix, Ref: ik.RefCumProd[float64], Prefix: "prod",
		Shape: ik.Shape{HasX: true, HasDst: true, RetDst: true, AliasX: true},
		Call:  func(a *vkArgs) { a.RetS = CumProd(a.Dst, a.X) }},
	{Name: "Div", Family: "Elem", Classes: vkAll, Ref: ik.RefDiv[float64],
		Shape: ik.Shape{HasX: true, HasY: true, WritesY: true},
		Call:  func(a *vkArgs) { Div(a.Y, a.X) }},
	{Name: "DivTo", Family: "Elem", Classes: vkAll, Ref: ik.RefDivTo[float64],
		Shape: ik.Shape{HasX: true, HasY: true, HasDst: true, RetDst: true, AliasX: true, AliasY: true},
		Call:  func(a *vkArgs) { a.RetS = DivTo(a.Dst, a.X, a.Y) }},

	{Name: "Sum", Family: "Norm", Classes: vkRed, Red: ik.RedSum,
		Shape: ik.Shape{HasX: true},
		Call:  func(a *vkArgs) { a.Ret = vkRet(Sum(a.X)) }},
	{Name: "L1Norm", Family: "Norm", Classes: vkRed, Red: ik.RedL1,
		Shape: ik.Shape{HasX: true},
		Call:  func(a *vkArgs) { a.Ret = vkRet(L1Norm(a.X)) }},
	{Name: "L1NormInc", Family: "Norm", Classes: vkRed, Red: ik.RedL1,
		Shape: ik.Shape{HasX: true, Inc: true, IntInc: true},
		Call:  func(a *vkArgs) { a.Ret = vkRet(L1NormInc(a.X, int(a.N), int(a.IncX))) }},
	{Name: "L1Dist", Family: "Norm", Classes: vkRed, Red: ik.RedL1Dist,
		Shape: ik.Shape{HasX: true, HasY: true},
		Call:  func(a *vkArgs) { a.Ret = vkRet(L1Dist(a.X, a.Y)) }},
	{Name: "LinfDist", Family: "Norm", Classes: vkAll, Red: ik.RedLinfDist,
		Shape: ik.Shape{HasX: true, HasY: true},
		Call:  func(a *vkArgs) { a.Ret = vkRet(LinfDist(a.X, a.Y)) }},
	{Name: "L2NormUnitary", Family: "Norm", Classes: vkAll, Red: ik.RedL2,
		Shape: ik.Shape{HasX: true},
		Call:  func(a *vkArgs) { a.Ret = vkRet(L2NormUnitary(a.X)) }},
	{Name: "L2NormInc", Family: "Norm", Classes: vkAll, Red: ik.RedL2,
		Shape: ik.Shape{HasX: true, Inc: true},
		Call:  func(a *vkArgs) { a.Ret = vkRet(L2NormInc(a.X, a.N, a.IncX)) }},
	{Name: "L2DistanceUnitary", Family: "Norm", Classes: vkAll, Red: ik.RedL2Dist,
		Shape: ik.Shape{HasX: true, HasY: true},
		Call:  func(a *vkArgs) { a.Ret = vkRet(L2DistanceUnitary(a.X, a.Y)) }},
}

func TestVKAxpy(t *testing.T) { ik.RunFamily(t, "f64", vkOps, "Axpy") }
func TestVKDot(t *testing.T)  { ik.RunFamily(t, "f64", vkOps, "Dot") }
func TestVKScal(t *testing.T) { ik.RunFamily(t, "f64", vkOps, "Scal") }
func TestVKElem(t *testing.T) { ik.RunFamily(t, "f64", vkOps, "Elem") }
func TestVKNorm(t *testing.T) { ik.RunFamily(t, "f64", vkOps, "Norm") }
func TestVKGe(t *testing.T) {
	ik.RunGe(t, "f64", ik.GeFns[float64]{Ger: Ger, GemvN: GemvN, GemvT: GemvT})
}
