package f64

import (
	"testing"

	"pgregory.net/rapid"
	"verifharness/vk"
)

func TestMain(m *testing.M) { vk.Main(m, "C08") }

type probeCase struct{ N int }

func TestVKProbe(t *testing.T) {
	vk.Run(t, "probe", vk.Opts{Quick: 100, Thorough: 100, NoCrumb: true}, func(t *rapid.T) probeCase {
		return probeCase{rapid.IntRange(0, 20).Draw(t, "n")}
	}, func(c probeCase) *vk.Failure {
		x := make([]float64, c.N)
		y := make([]float64, c.N)
		for i := range x {
			x[i], y[i] = float64(i), 2
		}
		want := 0.0
		for i := range x {
			want += x[i] * y[i]
		}
		vk.NonTrivial("probe", c.N)
		vk.Sample("probe", c)
		if got := DotUnitary(x, y); got != want {
			return vk.Failf("dot", "n=%d got %v want %v", c.N, got, want)
		}
		return nil
	})
}
