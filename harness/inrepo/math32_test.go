package math32

// Property C08, in-repo part for gonum.org/v1/gonum/internal/math32: every
// exported function against the float64 math package definition rounded to
// float32. Injected with go test -overlay.

import (
	"fmt"
	"math"
	"testing"

	"pgregory.net/rapid"
	"verifharness/vk"
)

func TestMain(m *testing.M) { vk.Main(m, "C08") }

func vkOrd32(x float32) int64 {
	b := math.Float32bits(x)
	if b&0x80000000 != 0 {
		return -int64(b & 0x7fffffff)
	}
	return int64(b)
}

// vkUlps32 is the distance of a and b in units in the last place of float32
// (ordinal distance; +Inf is the successor of MaxFloat32). Large when either is NaN.
func vkUlps32(a, b float32) int64 {
	if a != a || b != b {
		if a != a && b != b {
			return 0
		}
		return math.MaxInt64
	}
	d := vkOrd32(a) - vkOrd32(b)
	if d < 0 {
		d = -d
	}
	return d
}

// hypotUlps is the acceptance bound of Hypot: the computed p*Sqrt(1+(q/p)^2)
// carries five roundings; to first order the relative error is at most
// t*3u/(1+t)/2 + u/2 + u + u <= 3.25u (t = (q/p)^2 <= 1), which is at most
// 3.25 ulp, plus half an ulp for rounding the reference: 4 ulp.
const vkHypotUlps = 4

// ---- unary functions: exhaustive over blocks of 2^16 consecutive bit patterns ---

type vkBlock struct{ Hi uint32 }

func vkCheckBlock(c vkBlock) *vk.Failure {
	vk.NonTrivial("math32-unary", c.Hi)
	vk.Class("math32 unary block (65536 consecutive float32 bit patterns: Abs, Sqrt, Signbit, IsNaN, IsInf, Copysign)")
	vk.Sample("math32-unary", c)
	for lo := uint32(0); lo < 1<<16; lo++ {
		b := (c.Hi&0xffff)<<16 | lo
		x := math.Float32frombits(b)
		x64 := float64(x)
		if got, want := Abs(x), float32(math.Abs(x64)); !vk.SameBits32(got, want) {
			return vk.Failf("Abs", "Abs(%v [%#x]) = %v [%#x], want %v", x, b, got, math.Float32bits(got), want)
		}
		// Sqrt: correctly rounded (rounding the float64 square root of a float32
		// to float32 is innocuous double rounding: 53 >= 2*24+2)
		if got, want := Sqrt(x), float32(math.Sqrt(x64)); !vk.SameBits32(got, want) {
			return vk.Failf("Sqrt", "Sqrt(%v [%#x]) = %v [%#x], want %v [%#x]", x, b, got, math.Float32bits(got), want, math.Float32bits(want))
		}
		if got, want := Signbit(x), b>>31 != 0; got != want {
			return vk.Failf("Signbit", "Signbit(%v [%#x]) = %v", x, b, got)
		}
		if got, want := IsNaN(x), math.IsNaN(x64); got != want {
			return vk.Failf("IsNaN", "IsNaN(%v [%#x]) = %v", x, b, got)
		}
		for _, s := range [3]int{-1, 0, 1} {
			if got, want := IsInf(x, s), math.IsInf(x64, s); got != want {
				return vk.Failf("IsInf", "IsInf(%v [%#x], %d) = %v", x, b, s, got)
			}
		}
		// Copysign: magnitude of the first, sign of the second argument, bit-wise
		if got, want := Copysign(x, -1), math.Float32frombits(b|0x80000000); math.Float32bits(got) != math.Float32bits(want) {
			return vk.Failf("Copysign", "Copysign(%v [%#x], -1) = %#x", x, b, math.Float32bits(got))
		}
		want25 := float32(2.5)
		if b>>31 != 0 {
			want25 = -2.5
		}
		if got := Copysign(2.5, x); got != want25 {
			return vk.Failf("Copysign", "Copysign(2.5, %v [%#x]) = %v", x, b, got)
		}
	}
	return nil
}

func TestVKUnary(t *testing.T) {
	// thorough: every float32 bit pattern; quick: every 32nd block (rotating with
	// the seed) plus the blocks around the special exponents
	var his []uint32
	if vk.Quick() {
		off := uint32(vk.Seed() % 32)
		for h := uint32(0); h < 1<<16; h++ {
			e := (h >> 7) & 0xff
			if h%32 == off || e == 0 || e == 0xff || e == 0xfe || e == 1 || e == 127 {
				his = append(his, h)
			}
		}
	} else {
		for h := uint32(0); h < 1<<16; h++ {
			his = append(his, h)
		}
	}
	vk.Enumerate(t, "math32-unary", len(his), func(i int) vkBlock { return vkBlock{his[i]} }, vkCheckBlock)
	vk.Enumerate(t, "math32-consts", 1, func(i int) vkBlock { return vkBlock{} }, func(vkBlock) *vk.Failure {
		vk.Class("math32 Inf, NaN")
		for _, s := range []int{math.MinInt, -5, -1, 0, 1, 7, math.MaxInt} {
			if got, want := Inf(s), float32(math.Inf(s)); got != want {
				return vk.Failf("Inf", "Inf(%d) = %v, want %v", s, got, want)
			}
		}
		if n := NaN(); n == n || !IsNaN(n) || !math.IsNaN(float64(n)) {
			return vk.Failf("NaN", "NaN() = %v is not a NaN", n)
		}
		return nil
	})
}

// ---- binary functions -----------------------------------------------------------

var vkSpecial32 = func() []float32 {
	bits := []uint32{
		0x00000000, 0x00000001, 0x00000002, 0x007fffff, 0x00800000, 0x00800001, 0x00ffffff, 0x01000000,
		0x1e3ce508, 0x2edbe6ff, 0x33800000, 0x34000000, 0x3f000000, 0x3f7fffff, 0x3f800000, 0x3f800001, 0x3fb504f3, 0x3fc00000,
		0x40000000, 0x40400000, 0x40800000, 0x40a00000, 0x4b800000, 0x5f000000, 0x5f3504f3, 0x5f800000, 0x60ad78ec, 0x7e800000,
		0x7f000000, 0x7f3504f3, 0x7f3504f4, 0x7f7ffffe, 0x7f7fffff, 0x7f800000, 0x7fc00000, 0x7f800001, 0x7fffffff,
	}
	var out []float32
	for _, b := range bits {
		out = append(out, math.Float32frombits(b), math.Float32frombits(b|0x80000000))
	}
	return out
}()

func vkCheckPair(x, y float32) *vk.Failure {
	x64, y64 := float64(x), float64(y)
	desc := func() string {
		return fmt.Sprintf("x=%v [%#x] y=%v [%#x]", x, math.Float32bits(x), y, math.Float32bits(y))
	}
	if got, want := Max(x, y), float32(math.Max(x64, y64)); !vk.SameBits32(got, want) {
		return vk.Failf("Max", "Max = %v, want %v (%s)", got, want, desc())
	}
	if got, want := Min(x, y), float32(math.Min(x64, y64)); !vk.SameBits32(got, want) {
		return vk.Failf("Min", "Min = %v, want %v (%s)", got, want, desc())
	}
	wantC := math.Float32frombits(math.Float32bits(x)&0x7fffffff | math.Float32bits(y)&0x80000000)
	if got := Copysign(x, y); math.Float32bits(got) != math.Float32bits(wantC) {
		return vk.Failf("Copysign", "Copysign = %v [%#x], want %v (%s)", got, math.Float32bits(got), wantC, desc())
	}
	if x == x && y == y {
		if got, want := Copysign(x, y), float32(math.Copysign(x64, y64)); got != want || Signbit(got) != math.Signbit(float64(want)) {
			return vk.Failf("Copysign", "Copysign = %v, want %v (%s)", got, want, desc())
		}
	}
	// Hypot: documented special cases exactly, otherwise within vkHypotUlps of the
	// float64 value rounded to float32; in particular no spurious overflow to
	// +Inf and no spurious underflow to 0.
	got := Hypot(x, y)
	ref := math.Hypot(x64, y64)
	want := float32(ref)
	switch {
	case math.IsInf(x64, 0) || math.IsInf(y64, 0):
		if !IsInf(got, 1) {
			return vk.Failf("Hypot-special", "Hypot = %v, want +Inf (%s)", got, desc())
		}
	case x != x || y != y:
		if got == got {
			return vk.Failf("Hypot-special", "Hypot = %v, want NaN (%s)", got, desc())
		}
	default:
		if d := vkUlps32(got, want); d > vkHypotUlps || Signbit(got) {
			return vk.Failf("Hypot", "Hypot = %v [%#x], float64 value %v rounds to %v [%#x]: %d ulp apart (bound %d) (%s)",
				got, math.Float32bits(got), ref, want, math.Float32bits(want), d, vkHypotUlps, desc())
		}
		if got == 0 && ref != 0 && ref >= math.SmallestNonzeroFloat32 {
			return vk.Failf("Hypot", "Hypot underflows to 0, value %v (%s)", ref, desc())
		}
	}
	return nil
}

type vkPairs struct {
	Mode int // 0: all pairs of the special values with index >= From; 1: random pairs
	From int
	Seed uint64
}

func vkCheckPairs(c vkPairs) *vk.Failure {
	vk.Sample("math32-binary", c)
	if c.Mode == 0 {
		vk.Class("math32 binary: special value x all special values")
		vk.NonTrivial("math32-special", c.From)
		x := vkSpecial32[c.From%len(vkSpecial32)]
		for _, y := range vkSpecial32 {
			if f := vkCheckPair(x, y); f != nil {
				return f
			}
		}
		return nil
	}
	vk.Class("math32 binary: 512 random pairs (uniform bits / nearby exponents / special partner)")
	vk.NonTrivial("math32-random", c.Seed)
	r := vk.NewSplitMix(c.Seed)
	for i := 0; i < 512; i++ {
		x := math.Float32frombits(uint32(r.Uint64()))
		var y float32
		switch r.Intn(4) {
		case 0:
			y = math.Float32frombits(uint32(r.Uint64()))
		case 1:
			y = vkSpecial32[r.Intn(len(vkSpecial32))]
		default:
			// comparable magnitude: x scaled by 2^k(1+r), k in -13..13
			y = float32(float64(x) * math.Ldexp(1+r.Float(), r.Intn(27)-13))
			if r.Intn(2) == 0 {
				y = -y
			}
		}
		if r.Intn(2) == 0 {
			x, y = y, x
		}
		if f := vkCheckPair(x, y); f != nil {
			return f
		}
	}
	return nil
}

func TestVKBinary(t *testing.T) {
	vk.Enumerate(t, "math32-binary-special", len(vkSpecial32), func(i int) vkPairs { return vkPairs{Mode: 0, From: i} }, vkCheckPairs)
	vk.Run(t, "math32-binary", vk.Opts{Quick: 6000, Thorough: 400000, NoCrumb: true}, func(t *rapid.T) vkPairs {
		return vkPairs{Mode: 1, Seed: rapid.Uint64().Draw(t, "seed")}
	}, vkCheckPairs)
}
