package ik

import (
	"fmt"
	"math"
	"testing"

	"pgregory.net/rapid"
	"verifharness/vk"
)

// GeFns are the level-2 kernels of a real package.
type GeFns[T Real] struct {
	Ger   func(m, n uintptr, alpha T, x []T, incX uintptr, y []T, incY uintptr, a []T, lda uintptr)
	GemvN func(m, n uintptr, alpha T, a []T, lda uintptr, x []T, incX uintptr, beta T, y []T, incY uintptr)
	GemvT func(m, n uintptr, alpha T, a []T, lda uintptr, x []T, incX uintptr, beta T, y []T, incY uintptr)
}

// GeCase is one call of Ger, GemvN or GemvT.
type GeCase struct {
	Fn               string
	M, N             int
	LdaPad           int
	OffA, OffX, OffY int
	IncX, IncY       int // signed for GemvN/GemvT (Dgemv passes negative increments through), positive for Ger
	Alpha, Beta      vk.F
	Guard            int
	Trim             bool
	Seed             uint64
	Tail             int // unused elements at the end of a, x and y (callers pass whole vectors)
}

// blasGeom addresses the n logical elements of a BLAS vector with increment
// inc: element i is at i*inc for inc > 0 and at (n-1-i)*|inc| for inc < 0.
func blasGeom(n, inc int) geom {
	return incGeom(n, inc, 0, 0)
}

// CheckGe returns the check function of the level-2 kernels.
//
// Domain: m, n >= 1 (Dger/Dgemv return before calling the kernels when a
// dimension is zero), lda >= n, len(a) >= lda*(m-1)+n, vectors of the
// addressed length plus 0..3 unused elements (callers pass whole slices), finite
// data. Ger: positive increments only (blas/gonum
// routes negative increments around the kernel). GemvN/GemvT: any non-zero
// increments, passed as uintptr(int) exactly as Dgemv does.
//
// Oracle: the defining sums evaluated in double-double; every addressed output
// within 2(k+4)u*S (k terms incl. the beta*y resp. a[i][j] term, S the sum of
// the absolute values of the terms); beta == 0 overwrites y (prefilled with NaN);
// everything not addressed for writing and every read-only operand bit-identical.
func CheckGe[T Real](pkg string, fns GeFns[T]) func(GeCase) *vk.Failure {
	k := KindOf[T]()
	u, eta := k.U(), k.Eta()
	return func(c GeCase) *vk.Failure {
		m, n := c.M, c.N
		if m < 1 {
			m = 1
		}
		if n < 1 {
			n = 1
		}
		incX, incY := c.IncX, c.IncY
		if incX == 0 {
			incX = 1
		}
		if incY == 0 {
			incY = 1
		}
		if c.Fn == "Ger" {
			incX, incY = absInt(incX), absInt(incY)
		}
		lda := n + c.LdaPad
		if lda < n {
			lda = n
		}
		lenX, lenY := n, m // GemvN
		switch c.Fn {
		case "Ger":
			lenX, lenY = m, n
		case "GemvT":
			lenX, lenY = m, n
		}
		tail := c.Tail
		if tail < 0 || tail > 8 {
			tail = 0
		}
		gx, gy := incGeom(lenX, incX, 0, tail), incGeom(lenY, incY, 0, tail)
		alpha, beta := T(c.Alpha), T(c.Beta)
		guard := c.Guard
		if guard < 0 || guard >= len(guardModes) {
			guard = 0
		}
		gdX, gdY, gdA := guardOf(guard) // third placement: the matrix
		offA, offX, offY := c.OffA&15, c.OffX&15, c.OffY&15

		vk.Class(fmt.Sprintf("%s.%s", pkg, c.Fn))
		if guard != 0 {
			vk.Class(pkg + " guard-page placement")
		}
		if c.Fn != "Ger" && beta == 0 {
			vk.Class(pkg + " gemv beta == 0 (y prefilled with NaN)")
		}
		if incX < 0 || incY < 0 {
			vk.Class(pkg + " gemv negative increment")
		}
		if m >= 2 || n >= 2 {
			vk.NonTrivial(pkg, c.Fn, m%16, n%16, sizeClass(m), sizeClass(n), offA, offX, offY, incX, incY, c.LdaPad, beta == 0)
		}
		vk.Sample("asm-"+pkg+"-"+c.Fn, c)

		rng := vk.NewSplitMix(c.Seed)
		gen := &Gen{R: rng, W32: k.W32, Cls: ClsFinite}
		va := NewVec[T](lda*(m-1)+n+tail, offA, gdA, 4, c.Trim)
		vx := NewVec[T](gx.Len, offX, gdX, 1, c.Trim)
		vy := NewVec[T](gy.Len, offY, gdY, 2, c.Trim)
		defer func() { va.Free(); vx.Free(); vy.Free() }()
		for i := 0; i < m; i++ {
			for j := 0; j < n; j++ {
				va.S[i*lda+j] = T(gen.Lane())
			}
		}
		fillData(vx, gx, gen)
		fillData(vy, gy, gen)
		if c.Fn != "Ger" && beta == 0 {
			for i := 0; i < lenY; i++ {
				vy.S[gy.idx(i)] = T(math.NaN())
			}
		}
		a0, _ := va.clone()
		x0, _ := vx.clone()
		y0, _ := vy.clone()
		A := func(i, j int) float64 { return float64(a0[va.Lo+i*lda+j]) }
		X := func(i int) float64 { return float64(x0[vx.Lo+gx.idx(i)]) }
		Y := func(i int) float64 { return float64(y0[vy.Lo+gy.idx(i)]) }
		desc := func() string {
			return fmt.Sprintf("m=%d n=%d lda=%d incX=%d incY=%d alpha=%v beta=%v offsets(a,x,y)=(%d,%d,%d) guard=%d seed=%d", m, n, lda, incX, incY, alpha, beta, offA, offX, offY, guard, c.Seed)
		}

		res := vk.Call(func() {
			switch c.Fn {
			case "Ger":
				fns.Ger(uintptr(m), uintptr(n), alpha, vx.S, uintptr(incX), vy.S, uintptr(incY), va.S, uintptr(lda))
			case "GemvN":
				fns.GemvN(uintptr(m), uintptr(n), alpha, va.S, uintptr(lda), vx.S, uintptr(incX), beta, vy.S, uintptr(incY))
			case "GemvT":
				fns.GemvT(uintptr(m), uintptr(n), alpha, va.S, uintptr(lda), vx.S, uintptr(incX), beta, vy.S, uintptr(incY))
			default:
				panic("harness: unknown function " + c.Fn)
			}
		})
		if res.Outcome != vk.Returned {
			key := "/panic"
			if res.Outcome == vk.RuntimeFault {
				key = "/runtime-fault"
			}
			return vk.Failf(c.Fn+key, "%s.%s ended in %v: %s [%s]", pkg, c.Fn, res.Outcome, res.Text, desc())
		}
		wrap := func(f *vk.Failure) *vk.Failure {
			if f != nil {
				f.Msg = pkg + "." + f.Msg + " [" + desc() + "]"
			}
			return f
		}
		// expected values of the written operand, by element index in its slice
		want := map[int][2]float64{} // index -> (value, tolerance)
		al, be := float64(alpha), float64(beta)
		switch c.Fn {
		case "Ger":
			for i := 0; i < m; i++ {
				t := al * X(i)
				for j := 0; j < n; j++ {
					var d vk.DD
					d.AddProd(t, Y(j))
					d.Add(A(i, j))
					S := math.Abs(t*Y(j)) + math.Abs(A(i, j))
					want[i*lda+j] = [2]float64{d.Float(), vk.SumBound(2, u, S) + 8*eta}
				}
			}
		case "GemvN", "GemvT":
			terms := n
			if c.Fn == "GemvT" {
				terms = m
			}
			for i := 0; i < lenY; i++ {
				var d, s vk.DD
				for j := 0; j < terms; j++ {
					var aij float64
					if c.Fn == "GemvT" {
						aij = A(j, i)
					} else {
						aij = A(i, j)
					}
					d.AddProd(aij, X(j))
					s.AddProd(math.Abs(aij), math.Abs(X(j)))
				}
				var w vk.DD
				w.AddProd(al, d.Hi)
				w.AddProd(al, d.Lo)
				S := math.Abs(al) * s.Float()
				if beta != 0 {
					w.AddProd(be, Y(i))
					S += math.Abs(be * Y(i))
				}
				want[gy.idx(i)] = [2]float64{w.Float(), vk.SumBound(terms+2, u, S) + float64(2*terms+8)*eta}
			}
		}
		wv, w0 := vy, y0
		wname := "y"
		if c.Fn == "Ger" {
			wv, w0, wname = va, a0, "a"
			if f := compareImages(c.Fn, "y", vy, y0, false); f != nil {
				return wrap(f)
			}
		} else if f := compareImages(c.Fn, "a", va, a0, false); f != nil {
			return wrap(f)
		}
		if f := compareImages(c.Fn, "x", vx, x0, false); f != nil {
			return wrap(f)
		}
		e, g := image(w0), image(wv.All)
		for i := range e {
			el := i - wv.Lo
			if wt, ok := want[el]; ok && el >= 0 {
				got := laneValue(k, g[i])
				if isSent(k, g[i]) || math.IsNaN(got) || math.Abs(got-wt[0]) > wt[1] {
					return wrap(vk.Failf(c.Fn+"/rounding-bound", "%s: %s[%d] = %s, exact %v, |diff| %.3g > bound %.3g",
						c.Fn, wname, el, fmtLane(k, g[i]), wt[0], math.Abs(got-wt[0]), wt[1]))
				}
				continue
			}
			if e[i] != g[i] {
				return wrap(vk.Failf(c.Fn+"/outside-write", "%s: %s element %d (slice length %d) is not addressed but changed from %s to %s",
					c.Fn, wname, el, len(wv.S), fmtLane(k, e[i]), fmtLane(k, g[i])))
			}
		}
		return nil
	}
}

var geIncs = [][2]int{{1, 1}, {2, 1}, {1, 2}, {3, 2}, {2, 5}, {-1, 1}, {1, -1}, {-2, -3}, {-1, -1}}

// RunGe runs the exhaustive and sampled sub-checks of the level-2 kernels.
func RunGe[T Real](t *testing.T, pkg string, fns GeFns[T]) {
	check := CheckGe(pkg, fns)
	k := KindOf[T]()
	for _, fn := range []string{"Ger", "GemvN", "GemvT"} {
		fn := fn
		t.Run(fn, func(t *testing.T) {
			maxD := vk.Pick(12, 25)
			var cases []GeCase
			cnt := uint64(0)
			for m := 1; m <= maxD; m++ {
				for n := 1; n <= maxD; n++ {
					for ti, tp := range geIncs {
						for bz := 0; bz < 2; bz++ {
							cnt++
							r := vk.NewSplitMix(cnt * 0x9e3779b97f4a7c15)
							c := GeCase{Fn: fn, M: m, N: n, LdaPad: []int{0, 1, 3}[int(cnt)%3], OffA: int(cnt) % 8, OffX: (m + ti) % 8, OffY: (n + 3*ti) % 8,
								IncX: tp[0], IncY: tp[1], Tail: int(cnt/3) % 3, Trim: cnt%2 == 0, Seed: cnt * 0x2545F4914F6CDD1D}
							if g := int(r.Uint64() % 20); g < len(guardModes) {
								c.Guard = g
							}
							c.Alpha = vk.F(float32(ScalarOf(r, k.W32, ClsFinite)))
							if bz == 1 {
								c.Beta = vk.F(float32(ScalarOf(r, k.W32, ClsFinite)))
							}
							cases = append(cases, c)
						}
					}
				}
			}
			vk.Enumerate(t, "asm-"+pkg+"-"+fn+"-grid", len(cases), func(i int) GeCase { return cases[i] }, check)
			vk.Run(t, "asm-"+pkg+"-"+fn+"-rand", vk.Opts{Quick: RandQuick, Thorough: RandThorough, NoCrumb: true}, func(t *rapid.T) GeCase {
				c := GeCase{Fn: fn}
				c.M = vk.Dim(t, "m", 1, 150, 4, 8, 16, 32, 64)
				c.N = vk.Dim(t, "n", 1, 150, 4, 8, 16, 32, 64)
				c.LdaPad = vk.Pad(t, "ldapad")
				c.OffA = rapid.IntRange(0, 15).Draw(t, "offa")
				c.OffX = rapid.IntRange(0, 15).Draw(t, "offx")
				c.OffY = rapid.IntRange(0, 15).Draw(t, "offy")
				c.IncX = vk.Inc(t, "incx")
				c.IncY = vk.Inc(t, "incy")
				c.Alpha = vk.F(vk.Scalar(t, "alpha"))
				c.Beta = vk.F(vk.Scalar(t, "beta"))
				if rapid.IntRange(0, 2).Draw(t, "guarded") == 0 {
					c.Guard = rapid.IntRange(1, len(guardModes)-1).Draw(t, "guard")
				}
				c.Trim = rapid.Bool().Draw(t, "trim")
				c.Tail = rapid.IntRange(0, 3).Draw(t, "tail")
				c.Seed = rapid.Uint64().Draw(t, "seed")
				return c
			}, check)
		})
	}
}
