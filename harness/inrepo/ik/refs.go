package ik

import (
	"fmt"
	"math"
	"math/big"

	"verifharness/vk"
)

// ---- scalar definitions of the element-wise kernels --------------------------
//
// Each function is the loop of the kernel's doc comment (stubs_amd64.go /
// stubs_noasm.go / stubs.go / scal.go), written once for all element types.
// Products are rounded before they are added (T(a*b)+c): the kernels use
// separate multiply and add instructions, and the explicit conversion forbids
// the compiler to fuse.

// RefAxpyUnitary: y[i] += alpha * v.
func RefAxpyUnitary[T Elem](a *Args[T]) {
	for i, v := range a.X {
		a.Y[i] = a.Y[i] + T(a.Alpha*v)
	}
}

// RefAxpyUnitaryTo: dst[i] = alpha*v + y[i].
func RefAxpyUnitaryTo[T Elem](a *Args[T]) {
	for i, v := range a.X {
		a.Dst[i] = T(a.Alpha*v) + a.Y[i]
	}
}

// RefAxpyInc: y[iy] += alpha * x[ix].
func RefAxpyInc[T Elem](a *Args[T]) {
	ix, iy := a.IX, a.IY
	for i := 0; i < int(a.N); i++ {
		a.Y[iy] = a.Y[iy] + T(a.Alpha*a.X[ix])
		ix += a.IncX
		iy += a.IncY
	}
}

// RefAxpyIncTo: dst[idst] = alpha*x[ix] + y[iy].
func RefAxpyIncTo[T Elem](a *Args[T]) {
	ix, iy, id := a.IX, a.IY, a.ID
	for i := 0; i < int(a.N); i++ {
		a.Dst[id] = T(a.Alpha*a.X[ix]) + a.Y[iy]
		ix += a.IncX
		iy += a.IncY
		id += a.IncD
	}
}

// RefScalUnitary: x[i] *= alpha.
func RefScalUnitary[T Elem](a *Args[T]) {
	for i := range a.X {
		a.X[i] *= a.Alpha
	}
}

// RefScalUnitaryTo: dst[i] = alpha * v.
func RefScalUnitaryTo[T Elem](a *Args[T]) {
	for i, v := range a.X {
		a.Dst[i] = a.Alpha * v
	}
}

// RefScalInc: x[ix] *= alpha, ix from 0.
func RefScalInc[T Elem](a *Args[T]) {
	var ix uintptr
	for i := 0; i < int(a.N); i++ {
		a.X[ix] *= a.Alpha
		ix += a.IncX
	}
}

// RefScalIncTo: dst[idst] = alpha * x[ix], both from 0.
func RefScalIncTo[T Elem](a *Args[T]) {
	var ix, id uintptr
	for i := 0; i < int(a.N); i++ {
		a.Dst[id] = a.Alpha * a.X[ix]
		ix += a.IncX
		id += a.IncD
	}
}

// RefRealScalUnitary: x[i] = complex(real(v)*alpha, imag(v)*alpha).
func RefRealScalUnitary[T Elem](a *Args[T]) {
	k := KindOf[T]()
	if k.W32 {
		al := float32(a.RAlpha)
		l := l32(a.X)
		for i := range l {
			l[i] *= al
		}
		return
	}
	l := l64(a.X)
	for i := range l {
		l[i] *= a.RAlpha
	}
}

// RefRealScalInc: x[ix] = complex(real(x[ix])*alpha, imag(x[ix])*alpha), ix from 0.
func RefRealScalInc[T Elem](a *Args[T]) {
	k := KindOf[T]()
	var ix uintptr
	for i := 0; i < int(a.N); i++ {
		if k.W32 {
			l := l32(a.X[ix : ix+1])
			for j := range l {
				l[j] *= float32(a.RAlpha)
			}
		} else {
			l := l64(a.X[ix : ix+1])
			for j := range l {
				l[j] *= a.RAlpha
			}
		}
		ix += a.IncX
	}
}

// RefAdd: dst[i] += v (dst is Y, s is X).
func RefAdd[T Elem](a *Args[T]) {
	for i, v := range a.X {
		a.Y[i] += v
	}
}

// RefAddConst: x[i] += alpha.
func RefAddConst[T Elem](a *Args[T]) {
	for i := range a.X {
		a.X[i] += a.Alpha
	}
}

// RefDiv: dst[i] /= v (dst is Y, s is X).
func RefDiv[T Elem](a *Args[T]) {
	for i, v := range a.X {
		a.Y[i] /= v
	}
}

// RefDivTo: dst[i] = s[i] / t[i] (s is X, t is Y).
func RefDivTo[T Elem](a *Args[T]) {
	for i, v := range a.X {
		a.Dst[i] = v / a.Y[i]
	}
}

// RefCumSum: dst[0] = s[0]; dst[i+1] = dst[i] + s[i+1].
func RefCumSum[T Elem](a *Args[T]) {
	if len(a.X) == 0 {
		return
	}
	a.Dst[0] = a.X[0]
	for i, v := range a.X[1:] {
		a.Dst[i+1] = a.Dst[i] + v
	}
}

// RefCumProd: dst[0] = s[0]; dst[i+1] = dst[i] * s[i+1].
func RefCumProd[T Elem](a *Args[T]) {
	if len(a.X) == 0 {
		return
	}
	a.Dst[0] = a.X[0]
	for i, v := range a.X[1:] {
		a.Dst[i+1] = a.Dst[i] * v
	}
}

// ---- reductions --------------------------------------------------------------

// exactNorm2 returns the Euclidean norm of the finite values v as r*2^e with
// r computed in double-double (relative error far below 2^-53).
func exactNorm2(v []float64) (r float64, e int) {
	m := 0.0
	for _, x := range v {
		if a := math.Abs(x); a > m {
			m = a
		}
	}
	if m == 0 {
		return 0, 0
	}
	_, e = math.Frexp(m) // m = f*2^e, f in [0.5,1)
	var d vk.DD
	for _, x := range v {
		w := math.Ldexp(x, -e)
		d.AddProd(w, w)
	}
	s := d.Hi + d.Lo
	r = math.Sqrt(s)
	// one Newton correction with the residual evaluated exactly
	res := math.FMA(-r, r, d.Hi) + d.Lo
	r += res / (2 * r)
	return r, e
}

func checkReduction[T Elem](k Kind, op *Op[T], got complex128, xs, ys []float64, cls int) *vk.Failure {
	fn := op.Name
	u := k.U()
	if op.Acc64 {
		u = vk.Eps
	}
	n := len(xs) / k.Lanes
	eta := k.Eta()
	maxv := k.MaxVal()
	if op.Acc64 {
		eta, maxv = math.SmallestNonzeroFloat64, math.MaxFloat64
	}
	rnd := func(v float64) float64 {
		if k.W32 {
			return float64(float32(v))
		}
		return v
	}
	// sumCheck compares got with the exact sum of terms (given as products
	// p[i]*q[i]) using the bound 2(k+4)u*sum|terms| plus the underflow allowance.
	//
	// Special values, asserted only where every summation order agrees: a NaN
	// term (a NaN factor or Inf*0), or infinite terms of both signs, give NaN;
	// infinite terms of one sign (and finite terms that cannot overflow) give
	// that infinity, in particular never NaN (key <fn>/inf-gives-nan). With
	// nonneg (sums of absolute values) a result can never be NaN unless a term is.
	sumCheck := func(part string, g float64, p, q []float64, kterms int, nonneg bool) *vk.Failure {
		var d, s vk.DD
		anyNaN, pos, neg := false, false, false
		for i := range p {
			t := p[i] * q[i]
			switch {
			case math.IsNaN(t):
				anyNaN = true
			case math.IsInf(t, 1) && !math.IsInf(p[i], 0) && !math.IsInf(q[i], 0):
				s.Add(math.MaxFloat64) // finite factors whose product overflows float64: beyond the threshold
			case math.IsInf(t, 1):
				pos = true
			case math.IsInf(t, -1) && !math.IsInf(p[i], 0) && !math.IsInf(q[i], 0):
				s.Add(math.MaxFloat64)
			case math.IsInf(t, -1):
				neg = true
			default:
				d.AddProd(p[i], q[i])
				s.AddProd(math.Abs(p[i]), math.Abs(q[i]))
			}
		}
		S := s.Float()
		safe := !(math.IsInf(S, 0) || math.IsNaN(S) || S > maxv/4)
		switch {
		case anyNaN || (pos && neg):
			if !math.IsNaN(g) {
				return vk.Failf(fn+"/special-values", "%s%s: got %v, but a term is NaN or terms are infinite with both signs: every summation order gives NaN", fn, part, g)
			}
			return nil
		case pos || neg:
			if !safe && !nonneg {
				vk.Class("reduction skipped: sum of |terms| beyond the overflow threshold")
				return nil
			}
			want := math.Inf(1)
			if neg {
				want = math.Inf(-1)
			}
			if math.IsNaN(g) {
				return vk.Failf(fn+"/inf-gives-nan", "%s%s: got NaN; the terms contain %v (one sign only) and no NaN: the documented loop and every summation order give %v", fn, part, want, want)
			}
			if g != want {
				return vk.Failf(fn+"/special-values", "%s%s: got %v, want %v (infinite terms of one sign, no NaN)", fn, part, g, want)
			}
			return nil
		case !safe:
			if nonneg && (math.IsNaN(g) || g < 0) {
				return vk.Failf(fn+"/special-values", "%s%s: got %v for a sum of finite absolute values", fn, part, g)
			}
			vk.Class("reduction skipped: sum of |terms| beyond the overflow threshold")
			return nil
		}
		want := d.Float()
		tol := vk.SumBound(kterms, u, S)*(1+op.Extra) + float64(2*kterms+4)*eta
		if math.IsNaN(g) || math.Abs(g-want) > tol {
			return vk.Failf(fn+"/rounding-bound", "%s%s: got %v, exact %v, |diff| %.3g > bound %.3g (terms %d, sum|terms| %.6g)",
				fn, part, g, want, math.Abs(g-want), tol, kterms, S)
		}
		return nil
	}
	ones := func(m int) []float64 {
		o := make([]float64, m)
		for i := range o {
			o[i] = 1
		}
		return o
	}
	switch op.Red {
	case RedSum:
		if !k.Cplx {
			return sumCheck("", real(got), xs, ones(len(xs)), n, false)
		}
		re, im := make([]float64, n), make([]float64, n)
		for i := 0; i < n; i++ {
			re[i], im[i] = xs[2*i], xs[2*i+1]
		}
		if f := sumCheck(" (real part)", real(got), re, ones(n), n, false); f != nil {
			return f
		}
		return sumCheck(" (imaginary part)", imag(got), im, ones(n), n, false)
	case RedL1:
		a := make([]float64, len(xs))
		for i, v := range xs {
			a[i] = math.Abs(v)
		}
		return sumCheck("", real(got), a, ones(len(a)), n, true)
	case RedL1Dist:
		a := make([]float64, len(xs))
		for i := range xs {
			a[i] = math.Abs(rnd(ys[i] - xs[i]))
		}
		return sumCheck("", real(got), a, ones(len(a)), n, true)
	case RedLinfDist:
		// the documented loop, including its treatment of NaN
		var norm float64
		if len(xs) > 0 {
			norm = math.Abs(ys[0] - xs[0])
			for i := 1; i < len(xs); i++ {
				ad := math.Abs(ys[i] - xs[i])
				if ad > norm || math.IsNaN(norm) {
					norm = ad
				}
			}
		}
		// the value must be exactly the documented one; the sign of a zero
		// result is not asserted (max(t-s, s-t) of the assembly gives -0 for s=-0, t=+0)
		if !vk.SameBits(real(got), norm) && !(real(got) == 0 && norm == 0) {
			key := "/mismatch"
			for i := range xs {
				if math.IsNaN(ys[i] - xs[i]) {
					key = "/nan-handling" // separate key: the treatment of NaN differences
					break
				}
			}
			return vk.Failf(fn+key, "%s: got %v, documented loop gives %v (s=%v t=%v)", fn, real(got), norm, clip(xs), clip(ys))
		}
		return nil
	case RedDot, RedDotc:
		if !k.Cplx {
			return sumCheck("", real(got), ys, xs, n, false)
		}
		// y*x = (yr*xr - yi*xi) + i(yr*xi + yi*xr); y*conj(x) = (yr*xr + yi*xi) + i(yi*xr - yr*xi)
		sg := 1.0
		if op.Red == RedDotc {
			sg = -1
		}
		pr, qr := make([]float64, 0, 2*n), make([]float64, 0, 2*n)
		pi, qi := make([]float64, 0, 2*n), make([]float64, 0, 2*n)
		for i := 0; i < n; i++ {
			xr, xi, yr, yi := xs[2*i], sg*xs[2*i+1], ys[2*i], ys[2*i+1]
			pr, qr = append(pr, yr, -yi), append(qr, xr, xi)
			pi, qi = append(pi, yr, yi), append(qi, xi, xr)
		}
		if f := sumCheck(" (real part)", real(got), pr, qr, 2*n, false); f != nil {
			return f
		}
		return sumCheck(" (imaginary part)", imag(got), pi, qi, 2*n, false)
	case RedL2, RedL2Dist:
		v := xs
		if op.Red == RedL2Dist {
			v = make([]float64, len(xs))
			for i := range xs {
				v[i] = rnd(xs[i] - ys[i])
			}
		}
		g := real(got)
		// special values, as the documented loop treats them: an element whose
		// modulus is NaN (a NaN lane and, for complex elements, no infinite lane:
		// Hypot(Inf, NaN) = Inf) gives NaN; otherwise any infinite lane gives +Inf.
		anyNaN, anyInf := false, false
		for i := 0; i < len(v); i += k.Lanes {
			en, ei := false, false
			for c := 0; c < k.Lanes; c++ {
				en = en || math.IsNaN(v[i+c])
				ei = ei || math.IsInf(v[i+c], 0)
			}
			anyNaN = anyNaN || (en && !ei)
			anyInf = anyInf || ei
		}
		switch {
		case anyNaN:
			if !math.IsNaN(g) {
				return vk.Failf(fn+"/nan", "%s: an element is NaN but the result is %v", fn, g)
			}
			return nil
		case anyInf:
			if !math.IsInf(g, 1) {
				return vk.Failf(fn+"/inf", "%s: an element is infinite (none NaN) but the result is %v", fn, g)
			}
			return nil
		}
		r, e := exactNorm2(v)
		if r == 0 {
			if g != 0 || math.Signbit(g) {
				return vk.Failf(fn+"/zero", "%s: all elements are zero but the result is %v", fn, g)
			}
			return nil
		}
		// relative bound: the scaled sum of squares carries at most ~4 roundings
		// per element (quotient, square, add, rescale) and the square root halves
		// the relative error: (2n+4)u; complex moduli (Hypot) add 4u per element
		// before squaring. 3(n+4)u + Extra*u covers both with slack.
		rel := (3*float64(n+4) + op.Extra) * u
		if k.Cplx {
			rel += 8 * float64(1) * u
		}
		abs := 2 * eta
		if math.IsNaN(g) {
			return vk.Failf(fn+"/nan", "%s: finite data but the result is NaN (exact norm %v*2^%d)", fn, r, e)
		}
		hi := math.Ldexp(r*(1+rel), e)
		if math.IsInf(g, 1) {
			if hi > maxv {
				return nil // exact norm at the overflow threshold
			}
			return vk.Failf(fn+"/spurious-overflow", "%s: result +Inf but the exact norm %v*2^%d = %.6g is representable", fn, r, e, math.Ldexp(r, e))
		}
		want := math.Ldexp(r, e)
		if g == 0 && want >= eta {
			return vk.Failf(fn+"/spurious-underflow", "%s: result 0 but the exact norm is %.6g", fn, want)
		}
		// compare in the scaled domain (exact scaling by a power of two)
		gs := math.Ldexp(g, -e)
		if d := math.Abs(gs - r); d > rel*r+math.Ldexp(abs, -e) {
			return vk.Failf(fn+"/rounding-bound", "%s: got %v, exact %.17g, relative error %.3g > bound %.3g (n=%d)", fn, g, want, d/r, rel, n)
		}
		return nil
	}
	return vk.Failf("harness", "unknown reduction %q", op.Red)
}

var _ = fmt.Sprint

// ---- running reductions (CumSum, CumProd) -------------------------------------

// checkPrefix checks dst of a running sum or product. A cumulative sum or
// product is a prefix reduction: the amd64 kernels re-associate inside their
// unrolled body (dst[i+1] = p + (s[i]+s[i+1]), starting from p = +0), so the
// result is not bit-identical to the sequential loop of the doc comment, and
// the property promises reductions only within the rounding bound. Oracle:
// padding bit-identical (<fn>/outside-write); every prefix of finite data
// within 2(i+4)u*sum_{j<=i}|s[j]| of the double-double prefix sum (products:
// relative 2(i+4)u, finite-class data only and while the exact prefix product
// stays away from the over/underflow thresholds); the sign of a zero result is not asserted; of the
// special values only the one behaviour common to every association order is
// asserted: once a NaN has entered the prefix every later element is NaN
// (<fn>/nan). Prefixes whose sum of absolute values reaches the overflow
// threshold are not compared. Data of the other classes: checkPrefixExtreme.
func checkPrefix[T Elem](k Kind, op *Op[T], vd *Vec[T], exp []T, xs []float64, cls int) *vk.Failure {
	fn := op.Name
	e, g := image(exp), image(vd.All)
	for i := range e {
		if e[i] != g[i] && isSent(k, e[i]) {
			return vk.Failf(fn+"/outside-write", "%s: dst lane %d (element %d of the slice, len %d) is padding but changed from %s to %s",
				fn, i%k.Lanes, i/k.Lanes-vd.Lo, len(vd.S), fmtLane(k, e[i]), fmtLane(k, g[i]))
		}
	}
	if k.Cplx {
		// complex running reductions are pure Go in every build: the sequential loop itself
		return compareImages(fn, "dst", vd, exp, true)
	}
	if cls != ClsFinite {
		return checkPrefixExtreme(k, op, vd, exp, xs)
	}
	got := Lanes(vd.S)
	u, eta, maxv := k.U(), k.Eta(), k.MaxVal()
	var sum, abs vk.DD
	ph, pl := 1.0, 0.0 // running product in double-double
	seenNaN, live := false, true
	for i, x := range xs {
		if math.IsNaN(x) {
			seenNaN = true
		}
		if seenNaN {
			if !math.IsNaN(got[i]) {
				return vk.Failf(fn+"/nan", "%s: s[j] is NaN for some j <= %d but dst[%d] = %v", fn, i, i, got[i])
			}
			continue
		}
		if !live || math.IsInf(x, 0) {
			live = false // beyond an infinity or a threshold the association order decides
			continue
		}
		var want, tol float64
		if op.Prefix == "sum" {
			sum.Add(x)
			abs.Add(math.Abs(x))
			if !(abs.Float() < maxv/4) {
				live = false
				continue
			}
			want, tol = sum.Float(), vk.SumBound(i+1, u, abs.Float())+float64(2*i+4)*eta
		} else {
			if cls != ClsFinite {
				// products of extreme values: a partial product formed by another
				// association may under/overflow although the prefix does not
				live = false
				continue
			}
			h := ph * x
			l := math.FMA(ph, x, -h) + pl*x
			ph, pl = h+l, l-((h+l)-h)
			lo, hi := 1e-250, 1e250
			if k.W32 {
				lo, hi = 1e-30, 1e30
			}
			if a := math.Abs(ph); !(a > lo && a < hi) || math.Abs(x) < lo || math.Abs(x) > hi {
				live = false // under/overflow of a partial product decides from here on
				continue
			}
			want, tol = ph, vk.SumBound(i+1, u, math.Abs(ph))
		}
		if math.IsNaN(got[i]) || math.Abs(got[i]-want) > tol {
			return vk.Failf(fn+"/rounding-bound", "%s: dst[%d] = %v, exact prefix value %v, |diff| %.3g > bound %.3g", fn, i, got[i], want, math.Abs(got[i]-want), tol)
		}
	}
	return nil
}

// checkPrefixExtreme is the oracle of the running reductions for data with
// extreme magnitudes (and for the finite head of data with special values).
// Reference: the exact prefix value (math/big, 200 bits). As long as the
// documented sequential loop itself is accurate for a prefix (its result is
// within the rounding bound of the exact value; once it is not, because the
// true prefix over/underflows, nothing further is compared), the kernel must
// be within the same bound. A kernel result outside the bound is classified:
// when an adjacent pair s[j] op s[j+1], j < i, overflows (or, for products,
// leaves the normal range) the deviation is the known effect of combining
// pairs before the carried prefix, key <fn>/spurious-overflow-or-underflow;
// anything else is <fn>/rounding-bound. NaN in the prefix: every later element NaN.
func checkPrefixExtreme[T Elem](k Kind, op *Op[T], vd *Vec[T], exp []T, xs []float64) *vk.Failure {
	fn := op.Name
	got := Lanes(vd.S)
	seq := Lanes(exp[vd.Lo : vd.Lo+len(vd.S)])
	u, eta, maxv := k.U(), k.Eta(), k.MaxVal()
	minNormal := 0x1p-1022
	if k.W32 {
		minNormal = 0x1p-126
	}
	rnd := func(v float64) float64 {
		if k.W32 {
			return float64(float32(v))
		}
		return v
	}
	exact := new(big.Float).SetPrec(200)
	if op.Prefix == "prod" {
		exact.SetInt64(1)
	}
	abs := 0.0
	seenNaN := false
	pairBad := false // some adjacent pair s[j] op s[j+1], j+1 <= current index, leaves the safe range
	for i, x := range xs {
		if math.IsNaN(x) {
			seenNaN = true
		}
		if seenNaN {
			if !math.IsNaN(got[i]) {
				return vk.Failf(fn+"/nan", "%s: s[j] is NaN for some j <= %d but dst[%d] = %v", fn, i, i, got[i])
			}
			continue
		}
		if math.IsInf(x, 0) {
			return nil // beyond an infinity the association order decides
		}
		bx := new(big.Float).SetPrec(200).SetFloat64(x)
		var tol float64
		if op.Prefix == "sum" {
			exact.Add(exact, bx)
			abs += math.Abs(x) / 1024 // scaled: the sum of absolute values may exceed MaxFloat although every prefix is representable
			if math.IsInf(abs, 0) {
				return nil
			}
			tol = vk.SumBound(i+1, u, abs)*1024 + float64(2*i+4)*eta
			if i > 0 && math.IsInf(rnd(xs[i-1]+x), 0) {
				pairBad = true
			}
		} else {
			exact.Mul(exact, bx)
			if i > 0 {
				if pr := rnd(xs[i-1] * x); math.IsInf(pr, 0) || (math.Abs(pr) < minNormal && xs[i-1] != 0 && x != 0) {
					pairBad = true
				}
			}
		}
		want, _ := exact.Float64()
		if op.Prefix == "prod" {
			if math.IsInf(want, 0) || math.Abs(want) > maxv || math.Abs(want) < minNormal {
				return nil // the true prefix leaves the normal range (zero included): nothing further is defined
			}
			tol = vk.SumBound(i+1, u, math.Abs(want))
		}
		within := func(v float64) bool {
			return !math.IsNaN(v) && !math.IsInf(v, 0) && math.Abs(v-want) <= tol
		}
		if !within(seq[i]) {
			return nil // the documented loop itself is no longer accurate here
		}
		if within(got[i]) {
			continue
		}
		if pairBad {
			return vk.Failf(fn+"/spurious-overflow-or-underflow", "%s: dst[%d] = %v, but the exact prefix value is %v and the documented sequential loop gives %v: an adjacent pair of elements over/underflows when combined before the carried prefix (s[:%d] = %s)",
				fn, i, got[i], want, seq[i], i+1, clip(xs[:i+1]))
		}
		return vk.Failf(fn+"/rounding-bound", "%s: dst[%d] = %v, exact prefix value %v (documented loop: %v), |diff| %.3g > bound %.3g", fn, i, got[i], want, seq[i], math.Abs(got[i]-want), tol)
	}
	return nil
}

// ---- complex64 axpy kernels: rounding bound ------------------------------------

// checkApproxAxpy checks result = alpha*x + y lane by lane against the value
// computed in float64, for the complex64 Axpy kernels. The Go compiler
// evaluates a complex64 product with float64 intermediates and rounds once,
// the amd64 kernels round every single-precision product, so the two builds
// legitimately differ in the last bits and bit-for-bit comparison with the
// scalar loop is not available. Bound: each of the two products carries one
// rounding, their sum one, the addition of y one: |error| <= 3u*S(1+u) with
// S = |p1|+|p2|+|y|; accepted: 4u*S + 4*eta ("two ulps of the terms"). Lanes
// whose operands are not finite or whose S reaches the overflow threshold are
// only checked for memory discipline. Padding must be bit-identical.
func checkApproxAxpy[T Elem](k Kind, op *Op[T], wv *Vec[T], exp []T, wg geom, ar, ai float64, xs, ys []float64) *vk.Failure {
	fn := op.Name
	e, g := image(exp), image(wv.All)
	for i := range e {
		if e[i] != g[i] && isSent(k, e[i]) {
			return vk.Failf(fn+"/outside-write", "%s: result lane %d (element %d of the slice, len %d) is padding but changed from %s to %s",
				fn, i%k.Lanes, i/k.Lanes-wv.Lo, len(wv.S), fmtLane(k, e[i]), fmtLane(k, g[i]))
		}
	}
	if k.W32 {
		ar, ai = float64(float32(ar)), float64(float32(ai))
	}
	if !k.Cplx {
		ai = 0
	}
	got := gather(wv.S, wg)
	u, eta, maxv := k.U(), k.Eta(), k.MaxVal()
	fin := func(v ...float64) bool {
		for _, x := range v {
			if math.IsNaN(x) || math.IsInf(x, 0) {
				return false
			}
		}
		return true
	}
	for i := 0; i < wg.N; i++ {
		var xr, xi, yr, yi float64
		if k.Cplx {
			xr, xi, yr, yi = xs[2*i], xs[2*i+1], ys[2*i], ys[2*i+1]
		} else {
			xr, yr = xs[i], ys[i]
		}
		lanes := [][5]float64{{ar, xr, -ai, xi, yr}, {ar, xi, ai, xr, yi}}
		for c := 0; c < k.Lanes; c++ {
			l := lanes[c]
			if !fin(l[0], l[1], l[2], l[3], l[4]) {
				continue
			}
			var d vk.DD
			d.AddProd(l[0], l[1])
			d.AddProd(l[2], l[3])
			d.Add(l[4])
			S := math.Abs(l[0]*l[1]) + math.Abs(l[2]*l[3]) + math.Abs(l[4])
			if !(S < maxv/4) {
				continue
			}
			gv := got[i*k.Lanes+c]
			tol := 4*u*S + 4*eta
			if math.IsNaN(gv) || math.Abs(gv-d.Float()) > tol {
				return vk.Failf(fn+"/rounding-bound", "%s: result element %d lane %d = %v, exact %v, |diff| %.3g > bound %.3g", fn, i, c, gv, d.Float(), math.Abs(gv-d.Float()), tol)
			}
		}
	}
	return nil
}

func clip(v []float64) string {
	if len(v) > 12 {
		return fmt.Sprintf("%v...", v[:12])
	}
	return fmt.Sprint(v)
}
