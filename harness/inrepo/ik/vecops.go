package ik

import (
	"fmt"
	"math"
	"testing"
	"unsafe"

	"pgregory.net/rapid"
	"verifharness/vk"
)

// Args are the arguments of one kernel call (and of the scalar reference).
type Args[T Elem] struct {
	N                uintptr
	Alpha            T
	RAlpha           float64 // real scalar of the Dscal/Sscal kernels
	Dst, X, Y        []T
	IncD, IncX, IncY uintptr
	ID, IX, IY       uintptr
	// results
	RetS []T        // returned slice (CumSum, CumProd, DivTo)
	Ret  complex128 // returned reduction value, widened
}

// Shape says which operands a kernel takes and what it does with them.
type Shape struct {
	HasX, HasY, HasDst bool
	Inc                bool // increment kernel (else unitary)
	Idx                bool // takes start indices ix, iy (and idst)
	WritesX, WritesY   bool // in-place update of X resp. Y
	Alpha              bool // takes a scalar of type T
	RealAlpha          bool // takes a real scalar (Dscal, Sscal)
	RetDst             bool // returns dst
	AliasX, AliasY     bool // dst may be identical to x resp. y
	NegInc             bool // wrapped negative increments belong to the domain (callers rely on them)
	IntInc             bool // increments are passed as int (L1NormInc)
}

// Reduction kinds.
const (
	RedNone     = ""
	RedSum      = "sum"
	RedL1       = "l1"
	RedL1Dist   = "l1dist"
	RedLinfDist = "linfdist"
	RedL2       = "l2"
	RedL2Dist   = "l2dist"
	RedDot      = "dot"  // sum y*x
	RedDotc     = "dotc" // sum y*conj(x)
)

// Op binds one kernel to its shape and scalar definition.
type Op[T Elem] struct {
	Name   string
	Family string
	Shape  Shape
	Call   func(a *Args[T])
	Ref    func(a *Args[T]) // element-wise kernels: the documented scalar loop
	Red    string           // reductions: which exact value is approximated
	Prefix string           // "sum" or "prod": running reduction (CumSum, CumProd), see checkPrefix
	Approx bool             // axpy-shaped kernel compared with a rounding bound instead of bit-for-bit, see checkApproxAxpy
	// GuardN1 places x of every n == 1 call against a guard page. Set
	// for a kernel with a known runaway loop at n == 1 (c64.AxpyUnitaryTo): the
	// first out-of-bounds read then faults before anything is overwritten, the
	// fault is reported as <fn>/runtime-fault and the process stays usable.
	GuardN1 bool
	Acc64   bool    // reduction accumulates float32 data in float64 (Ddot)
	Extra   float64 // additional relative tolerance in units of u (documented where used)
	// Classes lists the data classes of the kernel's domain.
	Classes []int
}

// Case is one generated call.
type Case struct {
	Fn               string
	N                int
	OffX, OffY, OffD int // start offsets (elements) from a 64-byte aligned address
	IncX, IncY, IncD int // signed; negative = wrapped uintptr increment with start index at the far end
	PadX, PadY, PadD int // distance of the lowest addressed element from the slice start (index kernels)
	Tail             int // unused elements after the highest addressed one
	Alpha, AlphaIm   vk.F
	Class            int
	Alias            int // 0 none, 1 dst is x, 2 dst is y
	Guard            int // guard-page placement, see guardOf
	Trim             bool
	Seed             uint64
	// X, Y optionally give the lanes of the addressed elements of x and y
	// explicitly (witness files); otherwise they are expanded from Seed.
	X, Y []vk.F `json:",omitempty"`
}

func absInt(a int) int {
	if a < 0 {
		return -a
	}
	return a
}

// CheckVec returns the check function for the kernels in ops.
func CheckVec[T Elem](pkg string, ops map[string]*Op[T]) func(Case) *vk.Failure {
	k := KindOf[T]()
	return func(c Case) *vk.Failure {
		op := ops[c.Fn]
		if op == nil {
			return vk.Failf("harness", "unknown function %q", c.Fn)
		}
		sh := op.Shape
		n := c.N
		if n < 0 {
			n = 0
		}
		incX, incY, incD := c.IncX, c.IncY, c.IncD
		if incX == 0 {
			incX = 1
		}
		if incY == 0 {
			incY = 1
		}
		if incD == 0 {
			incD = 1
		}
		if !sh.NegInc {
			incX, incY, incD = absInt(incX), absInt(incY), absInt(incD)
		}
		padX, padY, padD, tail := c.PadX, c.PadY, c.PadD, c.Tail
		if !sh.Idx {
			padX, padY, padD = 0, 0, 0
		}
		alias := c.Alias
		if alias == 1 && !(sh.AliasX && sh.HasDst) || alias == 2 && !(sh.AliasY && sh.HasDst) {
			alias = 0
		}
		var gx, gy, gd geom
		if sh.Inc {
			gx, gy, gd = incGeom(n, incX, padX, tail), incGeom(n, incY, padY, tail), incGeom(n, absInt(incD), padD, tail)
			if !sh.Idx && incX < 0 {
				gx = incGeom(n, -incX, 0, tail)
			}
		} else {
			gx, gy, gd = unitGeom(n), unitGeom(n), unitGeom(n)
		}
		offX, offY, offD := c.OffX&15, c.OffY&15, c.OffD&15
		switch alias {
		case 1:
			gd, offD = gx, offX
		case 2:
			gd, offD = gy, offY
		}
		guard := c.Guard
		if guard < 0 || guard >= len(guardModes) {
			guard = 0
		}
		if op.GuardN1 && n == 1 && guardModes[guard][0] != GuardEnd {
			guard = 3 // x ends at a guard page: the first out-of-bounds access of the runaway loop is a read of x[1]
		}
		gdX, gdY, gdD := guardOf(guard)

		vk.Class(fmt.Sprintf("%s.%s class=%s", pkg, op.Name, ClassName(c.Class)))
		if guard != 0 {
			vk.Class(pkg + " guard-page placement")
		}
		if alias != 0 {
			vk.Class(pkg + " dst aliases an input")
		}
		if sh.Inc && (incX < 0 || incY < 0) {
			vk.Class(pkg + " wrapped negative increment")
		}
		if n >= 2 && (n%8 != 0 || offX != 0 || offY != 0 || incX != 1 || incY != 1 || incD != 1 || c.Class != ClsFinite) {
			vk.NonTrivial(pkg, op.Name, n%16, sizeClass(n), offX, offY, offD, incX, incY, incD, c.Class, alias)
		}
		vk.Sample("asm-"+pkg+"-"+op.Name, c)

		rng := vk.NewSplitMix(c.Seed)
		gen := &Gen{R: rng, W32: k.W32, Cls: c.Class}

		// operands
		var vx, vy, vd *Vec[T]
		var vecs []*Vec[T]
		defer func() {
			for _, v := range vecs {
				v.Free()
			}
		}()
		if sh.HasX {
			vx = NewVec[T](gx.Len, offX, gdX, 1, c.Trim)
			vecs = append(vecs, vx)
			fillData(vx, gx, gen)
			overrideData(vx, gx, c.X)
		}
		if sh.HasY {
			vy = NewVec[T](gy.Len, offY, gdY, 2, c.Trim)
			vecs = append(vecs, vy)
			fillData(vy, gy, gen)
			overrideData(vy, gy, c.Y)
		}
		if sh.HasDst {
			switch alias {
			case 1:
				vd = vx
			case 2:
				vd = vy
			default:
				vd = NewVec[T](gd.Len, offD, gdD, 3, c.Trim)
				vecs = append(vecs, vd)
			}
		}
		// arguments for the kernel and for the reference (on copies)
		var real, ref Args[T]
		real.N = uintptr(n)
		real.Alpha = Mk[T](float64(c.Alpha), float64(c.AlphaIm))
		real.RAlpha = float64(c.Alpha)
		if k.W32 {
			real.RAlpha = float64(float32(real.RAlpha))
		}
		real.IncX, real.IncY, real.IncD = uintptr(gx.Inc), uintptr(gy.Inc), uintptr(gd.Inc)
		real.IX, real.IY, real.ID = uintptr(gx.Start), uintptr(gy.Start), uintptr(gd.Start)
		ref = real
		var ex, ey, ed []T
		if vx != nil {
			real.X = vx.S
			ex, ref.X = vx.clone()
		}
		if vy != nil {
			real.Y = vy.S
			ey, ref.Y = vy.clone()
		}
		if vd != nil {
			real.Dst = vd.S
			switch alias {
			case 1:
				ed, ref.Dst = ex, ref.X
			case 2:
				ed, ref.Dst = ey, ref.Y
			default:
				ed, ref.Dst = vd.clone()
			}
		}
		desc := func() string {
			return fmt.Sprintf("n=%d offsets(x,y,dst)=(%d,%d,%d) inc(x,y,dst)=(%d,%d,%d) start(ix,iy,idst)=(%d,%d,%d) len(x,y,dst)=(%d,%d,%d) alpha=%v class=%s alias=%d guard=%d seed=%d",
				n, offX, offY, offD, gx.Inc, gy.Inc, gd.Inc, gx.Start, gy.Start, gd.Start, len(real.X), len(real.Y), len(real.Dst), real.Alpha, ClassName(c.Class), alias, guard, c.Seed)
		}

		var xs, ys []float64
		if op.Red != RedNone || op.Prefix != "" || op.Approx {
			if vx != nil {
				xs = gather(vx.S, gx)
			}
			if vy != nil {
				ys = gather(vy.S, gy)
			}
		}

		res := vk.Call(func() { op.Call(&real) })
		if res.Outcome != vk.Returned {
			key := "/panic"
			if res.Outcome == vk.RuntimeFault {
				key = "/runtime-fault"
			}
			return vk.Failf(op.Name+key, "%s.%s ended in %v: %s [%s]", pkg, op.Name, res.Outcome, res.Text, desc())
		}
		if op.Ref != nil {
			op.Ref(&ref)
		}
		wrap := func(f *vk.Failure) *vk.Failure {
			if f != nil {
				f.Msg = pkg + "." + f.Msg + " [" + desc() + "]"
			}
			return f
		}
		if op.Approx {
			// result operand: dst if present, else y (in place)
			wv, we, wg := vy, ey, gy
			if vd != nil {
				wv, we, wg = vd, ed, gd
			}
			if vx != nil && wv != vx {
				if f := compareImages(op.Name, "x", vx, ex, false); f != nil {
					return wrap(f)
				}
			}
			if vy != nil && wv != vy {
				if f := compareImages(op.Name, "y", vy, ey, false); f != nil {
					return wrap(f)
				}
			}
			return wrap(checkApproxAxpy(k, op, wv, we, wg, float64(c.Alpha), float64(c.AlphaIm), xs, ys))
		}
		if op.Prefix != "" {
			// dst (which may be x itself) is the only written operand
			if vx != nil && alias == 0 {
				if f := compareImages(op.Name, "x", vx, ex, false); f != nil {
					return wrap(f)
				}
			}
			if sh.RetDst && (len(real.RetS) != len(real.Dst) || (len(real.Dst) > 0 && unsafe.SliceData(real.RetS) != unsafe.SliceData(real.Dst))) {
				return wrap(vk.Failf(op.Name+"/return-value", "%s: returned slice is not dst (len %d, want %d)", op.Name, len(real.RetS), len(real.Dst)))
			}
			return wrap(checkPrefix(k, op, vd, ed, xs, c.Class))
		}
		if vx != nil {
			if f := compareImages(op.Name, "x", vx, ex, sh.WritesX || alias == 1); f != nil {
				return wrap(f)
			}
		}
		if vy != nil {
			if f := compareImages(op.Name, "y", vy, ey, sh.WritesY || alias == 2); f != nil {
				return wrap(f)
			}
		}
		if vd != nil && alias == 0 {
			if f := compareImages(op.Name, "dst", vd, ed, true); f != nil {
				return wrap(f)
			}
		}
		if sh.RetDst {
			if len(real.RetS) != len(real.Dst) || (len(real.Dst) > 0 && unsafe.SliceData(real.RetS) != unsafe.SliceData(real.Dst)) {
				return wrap(vk.Failf(op.Name+"/return-value", "%s: returned slice is not dst (len %d, want %d)", op.Name, len(real.RetS), len(real.Dst)))
			}
		}
		if op.Red != RedNone {
			f := checkReduction(k, op, real.Ret, xs, ys, c.Class)
			if f != nil {
				f.Msg += fmt.Sprintf(" (x lanes %s, y lanes %s)", clip(xs), clip(ys))
			}
			return wrap(f)
		}
		return nil
	}
}

// ---- generation -------------------------------------------------------------

var incTuples2 = [][2]int{{1, 1}, {1, 2}, {2, 1}, {2, 2}, {1, 3}, {3, 1}, {3, 2}, {2, 3}, {3, 3}, {1, 5}, {5, 1}, {5, 5}, {4, 1}, {1, 4}, {4, 3}, {5, 2}}
var negTuples2 = [][2]int{{-1, 1}, {1, -1}, {-1, -1}, {-2, 3}, {2, -3}, {-3, -2}, {-1, 2}, {5, -1}}

// enumCases lists the exhaustive grid of an op: every length up to maxN, start
// offsets, increment tuples, data classes and alias patterns.
func enumCases[T Elem](op *Op[T], maxN int) []Case {
	k := KindOf[T]()
	sh := op.Shape
	var out []Case
	offs := 8
	if k.W32 && !sh.Inc && !(sh.HasX && sh.HasY) {
		offs = 16 // float32/complex64 single-operand kernels: every 4-byte position in a 64-byte line
	}
	aliases := []int{0}
	if sh.HasDst && sh.AliasX {
		aliases = append(aliases, 1)
	}
	if sh.HasDst && sh.AliasY {
		aliases = append(aliases, 2)
	}
	two := sh.HasX && sh.HasY
	cnt := uint64(0)
	add := func(c Case) {
		cnt++
		c.Fn = op.Name
		c.Seed = cnt*0x9e3779b97f4a7c15 + uint64(c.N)
		r := vk.NewSplitMix(c.Seed ^ 0xabcdef)
		c.Alpha = vk.F(ScalarOf(r, k.W32, c.Class))
		if k.W32 {
			c.Alpha = vk.F(float32(c.Alpha))
		}
		if k.Cplx && !sh.RealAlpha {
			c.AlphaIm = vk.F(ScalarOf(r, k.W32, c.Class))
			if k.W32 {
				c.AlphaIm = vk.F(float32(c.AlphaIm))
			}
		}
		// about 40% of the grid uses guard pages; the choice is decorrelated
		// from the offset loops so that every (n, alignment) meets every placement
		if g := int(r.Uint64() % 20); g < len(guardModes) {
			c.Guard = g
		}
		c.Trim = cnt%2 == 0
		out = append(out, c)
	}
	for _, cls := range op.Classes {
		for n := 0; n <= maxN; n++ {
			if !sh.Inc {
				for ox := 0; ox < offs; ox++ {
					if !two {
						for _, al := range aliases {
							add(Case{N: n, OffX: ox, OffD: (ox*5 + 3) % 8, Class: cls, Alias: al})
						}
						continue
					}
					for oy := 0; oy < 8; oy++ {
						for _, al := range aliases {
							add(Case{N: n, OffX: ox, OffY: oy, OffD: (ox + 3*oy + 1) % 8, Class: cls, Alias: al})
						}
					}
				}
				continue
			}
			// increment kernels
			var tuples [][2]int
			if two {
				tuples = append(tuples, incTuples2...)
				if sh.NegInc {
					tuples = append(tuples, negTuples2...)
				}
			} else {
				for i := 1; i <= 5; i++ {
					tuples = append(tuples, [2]int{i, i})
				}
			}
			for ti, tp := range tuples {
				// two start offsets per (n, increment tuple), rotating through 0..7
				for _, ox := range [2]int{(ti + n) % 8, (ti + n + 3) % 8} {
					for _, al := range aliases {
						c := Case{N: n, OffX: ox, OffY: (ox*3 + 1 + ti) % 8, OffD: (ox*5 + 2 + ti) % 8,
							IncX: tp[0], IncY: tp[1], IncD: 1 + (ti+ox)%5, Class: cls, Alias: al,
							PadX: (n + ox) % 3, PadY: (n + ox + ti) % 4, PadD: (ox + ti) % 3, Tail: (n + ti) % 2}
						if !two && sh.HasDst {
							c.IncD = 1 + (ti*2+ox)%5
						}
						add(c)
					}
				}
			}
		}
	}
	return out
}

// drawCase draws a random case of op with lengths up to 10^4.
func drawCase[T Elem](op *Op[T]) func(t *rapid.T) Case {
	k := KindOf[T]()
	sh := op.Shape
	return func(t *rapid.T) Case {
		c := Case{Fn: op.Name}
		c.N = drawLen(t)
		c.Class = rapid.SampledFrom(op.Classes).Draw(t, "class")
		c.OffX = rapid.IntRange(0, 15).Draw(t, "offx")
		if sh.HasY {
			c.OffY = rapid.IntRange(0, 15).Draw(t, "offy")
		}
		if sh.HasDst {
			c.OffD = rapid.IntRange(0, 15).Draw(t, "offd")
			var al []int
			al = append(al, 0, 0)
			if sh.AliasX {
				al = append(al, 1)
			}
			if sh.AliasY {
				al = append(al, 2)
			}
			c.Alias = rapid.SampledFrom(al).Draw(t, "alias")
		}
		if sh.Inc {
			c.IncX = vk.PosInc(t, "incx")
			if sh.HasY {
				c.IncY = vk.PosInc(t, "incy")
			}
			if sh.HasDst {
				c.IncD = vk.PosInc(t, "incd")
			}
			if sh.NegInc {
				switch rapid.IntRange(0, 7).Draw(t, "neg") {
				case 0:
					c.IncX = -c.IncX
				case 1:
					c.IncY = -c.IncY
				case 2:
					c.IncX, c.IncY = -c.IncX, -c.IncY
				}
			}
			if sh.Idx {
				c.PadX = rapid.IntRange(0, 3).Draw(t, "padx")
				c.PadY = rapid.IntRange(0, 3).Draw(t, "pady")
				c.PadD = rapid.IntRange(0, 3).Draw(t, "padd")
			}
			c.Tail = rapid.IntRange(0, 2).Draw(t, "tail")
		}
		if sh.Alpha || sh.RealAlpha {
			c.Alpha = vk.F(drawScalar(t, "alpha", k.W32, c.Class))
			if k.Cplx && !sh.RealAlpha {
				c.AlphaIm = vk.F(drawScalar(t, "alphaim", k.W32, c.Class))
			}
		}
		if rapid.IntRange(0, 2).Draw(t, "guarded") == 0 {
			c.Guard = rapid.IntRange(1, len(guardModes)-1).Draw(t, "guard")
		}
		c.Trim = rapid.Bool().Draw(t, "trim")
		c.Seed = rapid.Uint64().Draw(t, "seed")
		return c
	}
}

// guardModes lists the guard-page placements of the operands (x, y, dst).
// Guarding one operand at a time matters: when all operands end at a page
// boundary their alignments are correlated (all are -n*size mod 16) and an
// alignment peel driven by one operand hides the tail loop from the others.
var guardModes = [][3]int{
	{GuardNone, GuardNone, GuardNone},
	{GuardEnd, GuardEnd, GuardEnd},
	{GuardStart, GuardStart, GuardStart},
	{GuardEnd, GuardNone, GuardNone},
	{GuardNone, GuardEnd, GuardNone},
	{GuardNone, GuardNone, GuardEnd},
	{GuardStart, GuardNone, GuardNone},
	{GuardNone, GuardStart, GuardNone},
	{GuardEnd, GuardStart, GuardNone},
}

func guardOf(mode int) (x, y, d int) {
	m := guardModes[mode]
	return m[0], m[1], m[2]
}

// drawLen draws a length up to 10^4: tiny values, the neighbours of the unroll
// and block boundaries, the range up to 300, and (one in ten) the full range.
func drawLen(t *rapid.T) int {
	switch k := rapid.IntRange(0, 19).Draw(t, "n_mix"); {
	case k < 4:
		return rapid.IntRange(0, 3).Draw(t, "n_tiny")
	case k < 11:
		b := rapid.SampledFrom([]int{2, 4, 8, 16, 32, 64, 128, 256, 1024, 4096}).Draw(t, "n_bnd")
		return b + rapid.IntRange(-1, 1).Draw(t, "n_off")
	case k < 18:
		return rapid.IntRange(0, 300).Draw(t, "n")
	}
	return rapid.IntRange(0, 10000).Draw(t, "n_big")
}

func drawScalar(t *rapid.T, label string, w32 bool, cls int) float64 {
	v := vk.Scalar(t, label)
	if cls != ClsFinite && rapid.IntRange(0, 3).Draw(t, label+"_x") == 0 {
		pool := ext64
		if w32 {
			pool = ext32
		}
		if cls == ClsSpecial {
			pool = append(append([]float64(nil), pool...), specials...)
			pool = append(pool, specials...)
		}
		v = rapid.SampledFrom(pool).Draw(t, label+"_ext")
	}
	if w32 {
		v = float64(float32(v))
	}
	return v
}

// Budget of the sampled part per kernel (totals over the shards of one build configuration).
var (
	RandQuick    = 3000
	RandThorough = 30000
)

// RunFamily runs the exhaustive and the sampled sub-checks of every op whose
// Family equals family, each kernel in its own sub-test.
func RunFamily[T Elem](t *testing.T, pkg string, ops []*Op[T], family string) {
	m := map[string]*Op[T]{}
	for _, op := range ops {
		m[op.Name] = op
	}
	check := CheckVec(pkg, m)
	for _, op := range ops {
		if op.Family != family {
			continue
		}
		op := op
		t.Run(op.Name, func(t *testing.T) {
			cases := enumCases(op, vk.Pick(33, 70))
			vk.Enumerate(t, "asm-"+pkg+"-"+op.Name+"-grid", len(cases), func(i int) Case { return cases[i] }, check)
			vk.Run(t, "asm-"+pkg+"-"+op.Name+"-rand", vk.Opts{Quick: RandQuick, Thorough: RandThorough, NoCrumb: true}, drawCase(op), check)
		})
	}
}

var _ = math.Abs
