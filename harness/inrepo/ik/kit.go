// Package ik is the shared kit of the in-repo part of property C08: the files
// ../asm_*_test.go are injected (go test -overlay) into gonum's internal/asm
// packages and bind each exported kernel to a scalar reference loop and an
// argument shape defined here. ik imports neither gonum nor anything that does,
// so it can be linked into in-package tests of gonum's internal packages.
//
// Everything is generic over the four element types. Memory is inspected
// lane-wise (a complex element is two real lanes), so sentinel padding, guard
// pages and the bit-for-bit comparison are written once.
package ik

import (
	"fmt"
	"math"
	"unsafe"

	"verifharness/vk"
)

// Elem is the set of element types of the kernels.
type Elem interface {
	float32 | float64 | complex64 | complex128
}

// Real is the set of real element types.
type Real interface{ float32 | float64 }

// Kind describes an element type.
type Kind struct {
	W32   bool // 32-bit lanes
	Cplx  bool
	Size  int // bytes per element
	Lanes int // real lanes per element
}

// KindOf returns the description of T.
func KindOf[T Elem]() Kind {
	var z T
	switch any(z).(type) {
	case float32:
		return Kind{true, false, 4, 1}
	case float64:
		return Kind{false, false, 8, 1}
	case complex64:
		return Kind{true, true, 8, 2}
	}
	return Kind{false, true, 16, 2}
}

// U returns the unit roundoff of the lanes of k.
func (k Kind) U() float64 {
	if k.W32 {
		return vk.Eps32
	}
	return vk.Eps
}

// Eta returns the smallest positive subnormal of the lanes of k.
func (k Kind) Eta() float64 {
	if k.W32 {
		return float64(math.SmallestNonzeroFloat32)
	}
	return math.SmallestNonzeroFloat64
}

// MaxVal returns the largest finite lane value.
func (k Kind) MaxVal() float64 {
	if k.W32 {
		return math.MaxFloat32
	}
	return math.MaxFloat64
}

// Mk builds a T from real and imaginary parts (im ignored for real T).
func Mk[T Elem](re, im float64) T {
	var z T
	switch p := any(&z).(type) {
	case *float32:
		*p = float32(re)
	case *float64:
		*p = re
	case *complex64:
		*p = complex(float32(re), float32(im))
	case *complex128:
		*p = complex(re, im)
	}
	return z
}

func l32[T Elem](x []T) []float32 {
	if len(x) == 0 {
		return nil
	}
	return unsafe.Slice((*float32)(unsafe.Pointer(unsafe.SliceData(x))), len(x)*int(unsafe.Sizeof(x[0]))/4)
}

func l64[T Elem](x []T) []float64 {
	if len(x) == 0 {
		return nil
	}
	return unsafe.Slice((*float64)(unsafe.Pointer(unsafe.SliceData(x))), len(x)*int(unsafe.Sizeof(x[0]))/8)
}

// Lanes returns the lanes of x as float64 values (exact widening).
func Lanes[T Elem](x []T) []float64 {
	k := KindOf[T]()
	if k.W32 {
		s := l32(x)
		out := make([]float64, len(s))
		for i, v := range s {
			out[i] = float64(v)
		}
		return out
	}
	return append([]float64(nil), l64(x)...)
}

// image returns the bit patterns of all lanes of x, widened to 64 bits.
func image[T Elem](x []T) []uint64 {
	k := KindOf[T]()
	if k.W32 {
		s := l32(x)
		out := make([]uint64, len(s))
		for i, v := range s {
			out[i] = uint64(math.Float32bits(v))
		}
		return out
	}
	s := l64(x)
	out := make([]uint64, len(s))
	for i, v := range s {
		out[i] = math.Float64bits(v)
	}
	return out
}

// Sentinels are quiet NaNs with a marker bit in the payload (bit 21 resp. 50)
// and the lane position below it; data NaNs never carry the marker.
const (
	sentMark32 = 0x7FE00000
	sentMark64 = 0x7FFC000000000000
)

func isSent(k Kind, b uint64) bool {
	if k.W32 {
		return b&sentMark32 == sentMark32
	}
	return b&sentMark64 == sentMark64
}

func isNaNBits(k Kind, b uint64) bool {
	if k.W32 {
		return b&0x7F800000 == 0x7F800000 && b&0x007FFFFF != 0
	}
	return b&0x7FF0000000000000 == 0x7FF0000000000000 && b&0x000FFFFFFFFFFFFF != 0
}

func laneValue(k Kind, b uint64) float64 {
	if k.W32 {
		return float64(math.Float32frombits(uint32(b)))
	}
	return math.Float64frombits(b)
}

func fmtLane(k Kind, b uint64) string {
	if isSent(k, b) {
		return fmt.Sprintf("sentinel(%#x)", b)
	}
	return fmt.Sprintf("%v(%#x)", laneValue(k, b), b)
}

func fillSentinels[T Elem](x []T, tag int) {
	k := KindOf[T]()
	if k.W32 {
		s := l32(x)
		for i := range s {
			s[i] = math.Float32frombits(sentMark32 | uint32(tag&0xF)<<16 | uint32(i&0xFFFF))
		}
		return
	}
	s := l64(x)
	for i := range s {
		s[i] = math.Float64frombits(sentMark64 | uint64(tag&0xF)<<40 | uint64(i)&0xFFFFFFFFFF)
	}
}

// setLanes stores the lane values v (v[0] real, v[1] imaginary) into x[i].
func setElem[T Elem](k Kind, x []T, i int, re, im float64) {
	if k.W32 {
		s := l32(x)
		s[i*k.Lanes] = float32(re)
		if k.Cplx {
			s[i*k.Lanes+1] = float32(im)
		}
		return
	}
	s := l64(x)
	s[i*k.Lanes] = re
	if k.Cplx {
		s[i*k.Lanes+1] = im
	}
}

// Vec is one operand: a slice S handed to the kernel, embedded in storage All
// whose remaining elements are sentinels.
type Vec[T Elem] struct {
	All  []T
	Lo   int // index of S[0] in All
	S    []T
	Tag  int
	free func()
}

const padElems = 8

// Guard placement of an operand.
const (
	GuardNone  = 0
	GuardEnd   = 1 // slice ends exactly at an inaccessible page
	GuardStart = 2 // slice starts exactly after an inaccessible page
)

// NewVec returns a sentinel-filled operand of n elements. Without guard the
// first element of S sits off elements after a 64-byte aligned address and is
// surrounded by padElems sentinels on each side; trim limits cap(S) to n. With
// a guard the storage is mmap'ed so that S touches an inaccessible page.
func NewVec[T Elem](n, off, guard, tag int, trim bool) *Vec[T] {
	k := KindOf[T]()
	v := &Vec[T]{Tag: tag, free: func() {}}
	switch guard {
	case GuardEnd:
		b, free := vk.GuardedBytes((padElems+n)*k.Size, true)
		v.All = unsafe.Slice((*T)(unsafe.Pointer(unsafe.SliceData(b))), padElems+n)
		v.Lo, v.free = padElems, free
		v.S = v.All[v.Lo : v.Lo+n : v.Lo+n]
	case GuardStart:
		b, free := vk.GuardedBytes((padElems+n)*k.Size, false)
		v.All = unsafe.Slice((*T)(unsafe.Pointer(unsafe.SliceData(b))), padElems+n)
		v.Lo, v.free = 0, free
		v.S = v.All[0:n:n]
	default:
		slack := 64/k.Size + 1
		raw := make([]T, padElems+slack+off+n+padElems)
		base := padElems
		a0 := uintptr(unsafe.Pointer(unsafe.SliceData(raw)))
		for j := 0; j < slack; j++ {
			if (a0+uintptr((padElems+j)*k.Size))%64 == 0 {
				base = padElems + j
				break
			}
		}
		v.All = raw[base-padElems : base+off+n+padElems]
		v.Lo = padElems + off
		if trim {
			v.S = v.All[v.Lo : v.Lo+n : v.Lo+n]
		} else {
			v.S = v.All[v.Lo : v.Lo+n]
		}
	}
	fillSentinels(v.All, tag)
	return v
}

// Free releases guard memory.
func (v *Vec[T]) Free() { v.free(); v.free = func() {} }

// clone returns an ordinary copy of the storage and the corresponding slice.
func (v *Vec[T]) clone() (all, s []T) {
	all = append([]T(nil), v.All...)
	return all, all[v.Lo : v.Lo+len(v.S) : v.Lo+len(v.S)]
}

// Data classes.
const (
	ClsFinite  = 0
	ClsExtreme = 1
	ClsSpecial = 2
	ClsInf     = 3 // finite values with a few infinities (mostly +Inf) and no NaN: reductions only
	ClsHuge    = 4 // magnitudes near the overflow/underflow thresholds with both signs: running reductions only
)

// ClassName names a data class.
func ClassName(c int) string {
	switch c {
	case ClsFinite:
		return "finite"
	case ClsExtreme:
		return "extreme"
	case ClsInf:
		return "inf"
	case ClsHuge:
		return "huge"
	}
	return "special"
}

var ext64 = []float64{0, math.Copysign(0, -1), 5e-324, -5e-324, 1.5e-323, 2.2250738585072014e-308, -2.2250738585072014e-308,
	1e-300, -1e-300, 1e-160, 1e-150, -1e-150, 1e150, -1e150, 1e160, 1e300, -1e300, 1.5e308, math.MaxFloat64, -math.MaxFloat64}

var ext32 = []float64{0, math.Copysign(0, -1), 1e-45, -1e-45, 4e-45, 1.17549435e-38, -1.17549435e-38,
	1e-30, -1e-30, 1e-20, -1e-20, 3e-20, 1e19, 1e20, -1e20, 1e30, -1e30, 3e38, math.MaxFloat32, -math.MaxFloat32}

// huge64/huge32: sums of two can overflow while the running sum stays small,
// products of two can leave the range while the running product stays near 1.
var huge64 = []float64{1e308, -1e308, 1.5e308, -1.5e308, 5e307, -5e307, math.MaxFloat64, -math.MaxFloat64, 0, 1, -1, 2, 0.5,
	1e300, 1e-300, 1e200, 1e-200, 1e160, 1e-160, -1e300, -1e-300, 1e100, 1e-100}

var huge32 = []float64{3e38, -3e38, 2e38, -2e38, math.MaxFloat32, -math.MaxFloat32, 0, 1, -1, 2, 0.5, 1e30, 1e-30, 1e25, 1e-25, -1e30, -1e-30, 1e15, 1e-15}

var specials = []float64{math.NaN(), math.Inf(1), math.Inf(-1)}

// Gen expands a seed into lane values of a data class.
type Gen struct {
	R   *vk.SplitMix
	W32 bool
	Cls int
}

// Lane returns the next lane value.
func (g *Gen) Lane() float64 {
	r := g.R
	switch g.Cls {
	case ClsExtreme:
		if r.Intn(10) < 6 {
			return g.extreme()
		}
	case ClsHuge:
		if g.W32 {
			return huge32[r.Intn(len(huge32))]
		}
		return huge64[r.Intn(len(huge64))]
	case ClsInf:
		switch k := r.Intn(40); {
		case k < 4:
			return math.Inf(1)
		case k == 4:
			return math.Inf(-1)
		}
	case ClsSpecial:
		switch k := r.Intn(20); {
		case k < 4:
			return specials[r.Intn(len(specials))]
		case k < 7:
			return g.extreme()
		}
	}
	return r.Finite()
}

func (g *Gen) extreme() float64 {
	if g.W32 {
		return ext32[g.R.Intn(len(ext32))]
	}
	return ext64[g.R.Intn(len(ext64))]
}

// Scalar returns an alpha/beta lane value of class cls: 0, ±1 and dyadic
// values, in the extreme and special classes sometimes such a value.
func ScalarOf(r *vk.SplitMix, w32 bool, cls int) float64 {
	g := Gen{R: r, W32: w32, Cls: cls}
	switch k := r.Intn(12); {
	case k < 2:
		return 0
	case k < 4:
		return 1
	case k == 4:
		return -1
	case k == 5 && cls != ClsFinite:
		return g.Lane()
	case k == 6:
		return math.Copysign(0, -1)
	case k < 9:
		return r.Norm()
	}
	return float64(r.Intn(49)-24) / 8
}

// geom is the set of elements of an operand addressed by a kernel: Start+i*Inc
// for i in [0,N), inside a slice of Len elements.
type geom struct {
	N, Start, Inc, Len int
}

func (g geom) idx(i int) int { return g.Start + i*g.Inc }

// unitGeom addresses a whole slice of n elements.
func unitGeom(n int) geom { return geom{n, 0, 1, n} }

// incGeom addresses n elements with (signed) increment inc; pad is the extra
// distance of the lowest addressed element from the start of the slice, tail
// the number of unused elements after the highest one.
func incGeom(n, inc, pad, tail int) geom {
	a := inc
	if a < 0 {
		a = -a
	}
	span := 0
	if n > 0 {
		span = (n-1)*a + 1
	}
	g := geom{N: n, Inc: inc, Len: pad + span + tail, Start: pad}
	if inc < 0 && n > 0 {
		g.Start = pad + (n-1)*a
	}
	return g
}

// fillData stores class data in the addressed elements of v.
func fillData[T Elem](v *Vec[T], g geom, gen *Gen) {
	k := KindOf[T]()
	for i := 0; i < g.N; i++ {
		re := gen.Lane()
		im := 0.0
		if k.Cplx {
			im = gen.Lane()
		}
		setElem(k, v.S, g.idx(i), re, im)
	}
}

// overrideData stores explicitly given lanes (if there are exactly as many as
// addressed lanes) in the addressed elements of v.
func overrideData[T Elem](v *Vec[T], g geom, lanes []vk.F) {
	k := KindOf[T]()
	if len(lanes) == 0 || len(lanes) != g.N*k.Lanes {
		return
	}
	for i := 0; i < g.N; i++ {
		re, im := float64(lanes[i*k.Lanes]), 0.0
		if k.Cplx {
			im = float64(lanes[i*k.Lanes+1])
		}
		setElem(k, v.S, g.idx(i), re, im)
	}
}

// gather returns the lanes of the addressed elements, in kernel order.
func gather[T Elem](s []T, g geom) []float64 {
	k := KindOf[T]()
	out := make([]float64, 0, g.N*k.Lanes)
	if k.W32 {
		l := l32(s)
		for i := 0; i < g.N; i++ {
			j := g.idx(i) * k.Lanes
			for c := 0; c < k.Lanes; c++ {
				out = append(out, float64(l[j+c]))
			}
		}
		return out
	}
	l := l64(s)
	for i := 0; i < g.N; i++ {
		j := g.idx(i) * k.Lanes
		out = append(out, l[j:j+k.Lanes]...)
	}
	return out
}

// compareImages checks the storage of v (after the kernel ran) against exp,
// the storage after the scalar reference ran on a copy. Sentinel lanes and
// lanes of operands that are not written must be bit-identical; result lanes
// must be bit-identical or both NaN.
func compareImages[T Elem](fn, name string, v *Vec[T], exp []T, written bool) *vk.Failure {
	k := KindOf[T]()
	e, g := image(exp), image(v.All)
	for i := range e {
		if e[i] == g[i] {
			continue
		}
		el := i/k.Lanes - v.Lo
		switch {
		case isSent(k, e[i]):
			return vk.Failf(fn+"/outside-write", "%s: %s lane %d (element %d of the slice, len %d) is padding / not addressed but changed from %s to %s",
				fn, name, i%k.Lanes, el, len(v.S), fmtLane(k, e[i]), fmtLane(k, g[i]))
		case !written:
			return vk.Failf(fn+"/readonly-changed", "%s: read-only operand %s element %d lane %d changed from %s to %s",
				fn, name, el, i%k.Lanes, fmtLane(k, e[i]), fmtLane(k, g[i]))
		case isNaNBits(k, e[i]) && isNaNBits(k, g[i]) && !isSent(k, g[i]):
			continue
		}
		return vk.Failf(fn+"/mismatch", "%s: %s element %d lane %d: kernel %s, scalar loop %s",
			fn, name, el, i%k.Lanes, fmtLane(k, g[i]), fmtLane(k, e[i]))
	}
	return nil
}

// sizeClass buckets a length for the evidence hash.
func sizeClass(n int) int {
	switch {
	case n < 8:
		return 0
	case n < 32:
		return 1
	case n < 128:
		return 2
	case n < 1024:
		return 3
	}
	return 4
}
