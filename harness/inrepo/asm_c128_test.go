package c128

// Property C08, in-repo part for gonum.org/v1/gonum/internal/asm/c128: every
// exported kernel against the scalar loop of its doc comment. This file is
// injected into the package with go test -overlay; the machinery is in
// verifharness/inrepo/ik.

import (
	"testing"

	"verifharness/inrepo/ik"
	"verifharness/vk"
)

func TestMain(m *testing.M) { vk.Main(m, "C08") }

type (
	vkArgs = ik.Args[complex128]
	vkOp   = ik.Op[complex128]
)

var (
	vkAll = []int{ik.ClsFinite, ik.ClsExtreme, ik.ClsSpecial}
	vkRed = []int{ik.ClsFinite, ik.ClsExtreme, ik.ClsSpecial, ik.ClsInf}
)

func vkRet(v complex128) complex128 { return v }

var vkOps = []*vkOp{
	{Name: "AxpyUnitary", Family: "Axpy", Classes: vkAll, Ref: ik.RefAxpyUnitary[complex128],
		Shape: ik.Shape{HasX: true, HasY: true, WritesY: true, Alpha: true},
		Call:  func(a *vkArgs) { AxpyUnitary(a.Alpha, a.X, a.Y) }},
	{Name: "AxpyUnitaryTo", Family: "Axpy", Classes: vkAll, Ref: ik.RefAxpyUnitaryTo[complex128],
		Shape: ik.Shape{HasX: true, HasY: true, HasDst: true, Alpha: true, AliasX: true, AliasY: true},
		Call:  func(a *vkArgs) { AxpyUnitaryTo(a.Dst, a.Alpha, a.X, a.Y) }},
	{Name: "AxpyInc", Family: "Axpy", Classes: vkAll, Ref: ik.RefAxpyInc[complex128],
		Shape: ik.Shape{HasX: true, HasY: true, Inc: true, Idx: true, WritesY: true, Alpha: true, NegInc: true},
		Call:  func(a *vkArgs) { AxpyInc(a.Alpha, a.X, a.Y, a.N, a.IncX, a.IncY, a.IX, a.IY) }},
	{Name: "AxpyIncTo", Family: "Axpy", Classes: vkAll, Ref: ik.RefAxpyIncTo[complex128],
		Shape: ik.Shape{HasX: true, HasY: true, HasDst: true, Inc: true, Idx: true, Alpha: true, AliasX: true, AliasY: true, NegInc: true},
		Call: func(a *vkArgs) {
			AxpyIncTo(a.Dst, a.IncD, a.ID, a.Alpha, a.X, a.Y, a.N, a.IncX, a.IncY, a.IX, a.IY)
		}},
	{Name: "DotuUnitary", Family: "Dot", Classes: vkRed, Red: ik.RedDot,
		Shape: ik.Shape{HasX: true, HasY: true},
		Call:  func(a *vkArgs) { a.Ret = vkRet(DotuUnitary(a.X, a.Y)) }},
	{Name: "DotcUnitary", Family: "Dot", Classes: vkRed, Red: ik.RedDotc,
		Shape: ik.Shape{HasX: true, HasY: true},
		Call:  func(a *vkArgs) { a.Ret = vkRet(DotcUnitary(a.X, a.Y)) }},
	{Name: "DotuInc", Family: "Dot", Classes: vkRed, Red: ik.RedDot,
		Shape: ik.Shape{HasX: true, HasY: true, Inc: true, Idx: true, NegInc: true},
		Call:  func(a *vkArgs) { a.Ret = vkRet(DotuInc(a.X, a.Y, a.N, a.IncX, a.IncY, a.IX, a.IY)) }},
	{Name: "DotcInc", Family: "Dot", Classes: vkRed, Red: ik.RedDotc,
		Shape: ik.Shape{HasX: true, HasY: true, Inc: true, Idx: true, NegInc: true},
		Call:  func(a *vkArgs) { a.Ret = vkRet(DotcInc(a.X, a.Y, a.N, a.IncX, a.IncY, a.IX, a.IY)) }},
	// DotUnitary is sum conj(x[i]) * y[i], the same value as DotcUnitary.
	{Name: "DotUnitary", Family: "Dot", Classes: vkRed, Red: ik.RedDotc,
		Shape: ik.Shape{HasX: true, HasY: true},
		Call:  func(a *vkArgs) { a.Ret = vkRet(DotUnitary(a.X, a.Y)) }},
	{Name: "ScalUnitary", Family: "Scal", Classes: vkAll, Ref: ik.RefScalUnitary[complex128],
		Shape: ik.Shape{HasX: true, WritesX: true, Alpha: true},
		Call:  func(a *vkArgs) { ScalUnitary(a.Alpha, a.X) }},
	{Name: "ScalUnitaryTo", Family: "Scal", Classes: vkAll, Ref: ik.RefScalUnitaryTo[complex128],
		Shape: ik.Shape{HasX: true, HasDst: true, Alpha: true, AliasX: true},
		Call:  func(a *vkArgs) { ScalUnitaryTo(a.Dst, a.Alpha, a.X) }},
	{Name: "ScalInc", Family: "Scal", Classes: vkAll, Ref: ik.RefScalInc[complex128],
		Shape: ik.Shape{HasX: true, Inc: true, WritesX: true, Alpha: true},
		Call:  func(a *vkArgs) { ScalInc(a.Alpha, a.X, a.N, a.IncX) }},
	{Name: "ScalIncTo", Family: "Scal", Classes: vkAll, Ref: ik.RefScalIncTo[complex128],
		Shape: ik.Shape{HasX: true, HasDst: true, Inc: true, Alpha: true, AliasX: true},
		Call:  func(a *vkArgs) { ScalIncTo(a.Dst, a.IncD, a.Alpha, a.X, a.N, a.IncX) }},
	{Name: "DscalUnitary", Family: "Scal", Classes: vkAll, Ref: ik.RefRealScalUnitary[complex128],
		Shape: ik.Shape{HasX: true, WritesX: true, RealAlpha: true},
		Call:  func(a *vkArgs) { DscalUnitary(float64(a.RAlpha), a.X) }},
	{Name: "DscalInc", Family: "Scal", Classes: vkAll, Ref: ik.RefRealScalInc[complex128],
		Shape: ik.Shape{HasX: true, Inc: true, WritesX: true, RealAlpha: true},
		Call:  func(a *vkArgs) { DscalInc(float64(a.RAlpha), a.X, a.N, a.IncX) }},
	{Name: "Add", Family: "Elem", Classes: vkAll, Ref: ik.RefAdd[complex128],
		Shape: ik.Shape{HasX: true, HasY: true, WritesY: true},
		Call:  func(a *vkArgs) { Add(a.Y, a.X) }},
	{Name: "AddConst", Family: "Elem", Classes: vkAll, Ref: ik.RefAddConst[complex128],
		Shape: ik.Shape{HasX: true, WritesX: true, Alpha: true},
		Call:  func(a *vkArgs) { AddConst(a.Alpha, a.X) }},
	{Name: "CumSum", Family: "Elem", Classes: vkAll, Ref: ik.RefCumSum[complex128], Prefix: "sum",
		Shape: ik.Shape{HasX: true, HasDst: true, RetDst: true, AliasX: true},
		Call:  func(a *vkArgs) { a.RetS = CumSum(a.Dst, a.X) }},
	{Name: "CumProd", Family: "Elem", Classes: vkAll, Ref: ik.RefCumProd[complex128], Prefix: "prod",
		Shape: ik.Shape{HasX: true, HasDst: true, RetDst: true, AliasX: true},
		Call:  func(a *vkArgs) { a.RetS = CumProd(a.Dst, a.X) }},
	{Name: "Div", Family: "Elem", Classes: vkAll, Ref: ik.RefDiv[complex128],
		Shape: ik.Shape{HasX: true, HasY: true, WritesY: true},
		Call:  func(a *vkArgs) { Div(a.Y, a.X) }},
	{Name: "DivTo", Family: "Elem", Classes: vkAll, Ref: ik.RefDivTo[complex128],
		Shape: ik.Shape{HasX: true, HasY: true, HasDst: true, RetDst: true, AliasX: true, AliasY: true},
		Call:  func(a *vkArgs) { a.RetS = DivTo(a.Dst, a.X, a.Y) }},
	{Name: "Sum", Family: "Norm", Classes: vkRed, Red: ik.RedSum,
		Shape: ik.Shape{HasX: true},
		Call:  func(a *vkArgs) { a.Ret = vkRet(Sum(a.X)) }},
	{Name: "L2NormUnitary", Family: "Norm", Classes: vkAll, Red: ik.RedL2,
		Shape: ik.Shape{HasX: true},
		Call:  func(a *vkArgs) { a.Ret = complex(float64(L2NormUnitary(a.X)), 0) }},
	{Name: "L2DistanceUnitary", Family: "Norm", Classes: vkAll, Red: ik.RedL2Dist,
		Shape: ik.Shape{HasX: true, HasY: true},
		Call:  func(a *vkArgs) { a.Ret = complex(float64(L2DistanceUnitary(a.X, a.Y)), 0) }},
}

func TestVKAxpy(t *testing.T) { ik.RunFamily(t, "c128", vkOps, "Axpy") }
func TestVKDot(t *testing.T)  { ik.RunFamily(t, "c128", vkOps, "Dot") }
func TestVKScal(t *testing.T) { ik.RunFamily(t, "c128", vkOps, "Scal") }
func TestVKElem(t *testing.T) { ik.RunFamily(t, "c128", vkOps, "Elem") }
func TestVKNorm(t *testing.T) { ik.RunFamily(t, "c128", vkOps, "Norm") }
