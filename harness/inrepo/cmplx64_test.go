package cmplx64

// Property C08, in-repo part for gonum.org/v1/gonum/internal/cmplx64: every
// exported function against the math/cmplx definition on complex128, rounded
// to complex64. Injected with go test -overlay.

import (
	"fmt"
	stdmath "math"
	"math/cmplx"
	"testing"

	"pgregory.net/rapid"
	"verifharness/vk"
)

func TestMain(m *testing.M) { vk.Main(m, "C08") }

func vkOrd32(x float32) int64 {
	b := stdmath.Float32bits(x)
	if b&0x80000000 != 0 {
		return -int64(b & 0x7fffffff)
	}
	return int64(b)
}

func vkUlps32(a, b float32) int64 {
	if a != a || b != b {
		if a != a && b != b {
			return 0
		}
		return stdmath.MaxInt64
	}
	d := vkOrd32(a) - vkOrd32(b)
	if d < 0 {
		d = -d
	}
	return d
}

const (
	// Abs is math32.Hypot: five roundings, at most 3.25 ulp plus half an ulp of
	// the rounded reference (see math32_test.go).
	vkAbsUlps = 4
	// Sqrt: Hypot (3.25u), the sum r±a of equal signs (u), the square root
	// (halves, +u) and the quotient (0.5*b)/t (+u) give at most 4.5u per
	// component to first order (powers of two scale exactly); accepted: 8u of
	// the component plus four float32 subnormal steps (a subnormal imag(x) is
	// scaled by 0.25 and 0.5 inexactly: 2(0.625/t+0.5) <= 2.25 steps, t >= 1).
	vkSqrtU = 8
)

var vkSpecial32 = func() []float32 {
	bits := []uint32{
		0x00000000, 0x00000001, 0x007fffff, 0x00800000, 0x00800001, 0x01000000,
		0x1e3ce508, 0x2edbe6ff, 0x33800000, 0x3f000000, 0x3f7fffff, 0x3f800000, 0x3f800001, 0x3fb504f3, 0x3fc00000,
		0x40000000, 0x40400000, 0x407fffff, 0x40800000, 0x40800001, 0x40a00000, 0x4b800000, 0x5f000000, 0x5f3504f3, 0x5f800000, 0x60ad78ec, 0x7e800000,
		0x7f000000, 0x7f3504f3, 0x7f3504f4, 0x7f7ffffe, 0x7f7fffff, 0x7f800000, 0x7fc00000, 0x7f800001,
	}
	var out []float32
	for _, b := range bits {
		out = append(out, stdmath.Float32frombits(b), stdmath.Float32frombits(b|0x80000000))
	}
	return out
}()

func vkFinite(x float32) bool { return x == x && x-x == 0 }

// vkCheckOne returns the first violated oracle for x. The signed-zero finding
// of Sqrt is returned separately (soft) so that the remaining values of a
// batch are still checked behind it.
func vkCheckOne(x complex64) (hard, soft *vk.Failure) {
	if s := vkCheckSign(x); s != nil {
		return vkCheckHard(x), s
	}
	return vkCheckHard(x), vkCheckSignedZero(x)
}

// vkCheckSign: "imag(r) has the same sign as imag(x)" for imag(x) != 0.
func vkCheckSign(x complex64) *vk.Failure {
	re, im := real(x), imag(x)
	if im == 0 || !vkFinite(re) || !vkFinite(im) {
		return nil
	}
	if g := Sqrt(x); imag(g) != 0 && (imag(g) < 0) != (im < 0) {
		return vk.Failf("Sqrt-sign", "Sqrt(%v) = %v: imag(x) = %v [%#x] but the imaginary part of the result has the opposite sign (math/cmplx on complex128: %v)",
			x, g, im, stdmath.Float32bits(im), cmplx.Sqrt(complex128(x)))
	}
	return nil
}

// vkCheckSignedZero: on the branch cut. For x = (-a, -0), a > 0, math/cmplx
// (whose complex64 version this package declares to be) returns (0, -sqrt(a)):
// "imag(r) has the same sign as imag(x)". The sign of a zero result is not
// asserted, only this case where the results differ by 2*sqrt(a).
func vkCheckSignedZero(x complex64) *vk.Failure {
	re, im := real(x), imag(x)
	if im != 0 || !vkFinite(re) || !(re < 0) || !stdmath.Signbit(float64(im)) {
		return nil
	}
	g, w := Sqrt(x), cmplx.Sqrt(complex128(x))
	if (imag(g) < 0) != (imag(w) < 0) {
		return vk.Failf("Sqrt-branch-cut-negative-zero", "Sqrt(%v) = %v but imag(x) = %v is negative zero and math/cmplx.Sqrt gives %v: imag(r) does not have the sign of imag(x)", x, g, im, w)
	}
	return nil
}

func vkCheckHard(x complex64) *vk.Failure {
	re, im := real(x), imag(x)
	x128 := complex128(x)
	desc := func() string {
		return fmt.Sprintf("x=(%v [%#x], %v [%#x])", re, stdmath.Float32bits(re), im, stdmath.Float32bits(im))
	}
	// Conj: exact
	if got, want := Conj(x), complex64(cmplx.Conj(x128)); !vk.SameBits32(real(got), real(want)) || !vk.SameBits32(imag(got), imag(want)) ||
		(im == im && stdmath.Float32bits(imag(got)) != stdmath.Float32bits(im)^0x80000000) {
		return vk.Failf("Conj", "Conj = %v, want %v (%s)", got, want, desc())
	}
	if got, want := IsInf(x), cmplx.IsInf(x128); got != want {
		return vk.Failf("IsInf", "IsInf = %v (%s)", got, desc())
	}
	if got, want := IsNaN(x), cmplx.IsNaN(x128); got != want {
		return vk.Failf("IsNaN", "IsNaN = %v (%s)", got, desc())
	}
	// Abs
	got := Abs(x)
	ref := cmplx.Abs(x128)
	switch {
	case stdmath.IsInf(ref, 1):
		if !(got > stdmath.MaxFloat32) {
			return vk.Failf("Abs-special", "Abs = %v, want +Inf (%s)", got, desc())
		}
	case ref != ref:
		if got == got {
			return vk.Failf("Abs-special", "Abs = %v, want NaN (%s)", got, desc())
		}
	default:
		want := float32(ref)
		if d := vkUlps32(got, want); d > vkAbsUlps || stdmath.Signbit(float64(got)) {
			return vk.Failf("Abs", "Abs = %v [%#x], float64 value %v rounds to %v: %d ulp apart (bound %d) (%s)", got, stdmath.Float32bits(got), ref, want, d, vkAbsUlps, desc())
		}
		if got == 0 && ref >= stdmath.SmallestNonzeroFloat32 {
			return vk.Failf("Abs", "Abs underflows to 0, value %v (%s)", ref, desc())
		}
	}
	// Sqrt: finite arguments only (no special values are documented)
	if !vkFinite(re) || !vkFinite(im) {
		return nil
	}
	if re == 0 && im != 0 && stdmath.Abs(float64(im)) < 0x1p-126 {
		// purely imaginary subnormal argument: the algorithm (the same as in
		// math/cmplx) halves imag(x) before the square root, which is inexact for
		// a subnormal; no accuracy is documented there, so it is outside the domain
		vk.Class("cmplx64 Sqrt skipped: purely imaginary subnormal argument")
		return nil
	}
	g := Sqrt(x)
	w := cmplx.Sqrt(x128)
	if g != g {
		return vk.Failf("Sqrt", "Sqrt = %v for a finite argument (%s)", g, desc())
	}
	// "The result r is chosen so that real(r) >= 0 and imag(r) has the same sign as imag(x)."
	if real(g) < 0 || stdmath.Signbit(float64(real(g))) {
		return vk.Failf("Sqrt-branch", "Sqrt = %v has a negative real part (%s)", g, desc())
	}
	if im != 0 && imag(g) != 0 && (imag(g) < 0) != (im < 0) {
		return nil // reported by vkCheckSign (soft, so that the rest of the batch is still checked)
	}
	const u = vk.Eps32
	eta := float64(stdmath.SmallestNonzeroFloat32)
	for c, p := range [2][2]float64{{float64(real(g)), real(w)}, {float64(imag(g)), imag(w)}} {
		want := p[1]
		if im == 0 && c == 1 {
			want = stdmath.Abs(want) // imag(x) is a signed zero: see vkCheckSignedZero
			p[0] = stdmath.Abs(p[0])
		}
		if d := stdmath.Abs(p[0] - want); d > vkSqrtU*u*stdmath.Abs(want)+4*eta {
			return vk.Failf("Sqrt", "Sqrt = %v, math/cmplx gives %v: component %d differs by %.3g > %d u (%s)", g, w, c, d, vkSqrtU, desc())
		}
	}
	return nil
}

type vkBatch struct {
	Mode   int // 0: special real part with index From x all special imaginary parts; 1: 512 random values; 2: the single value (Re, Im)
	From   int
	Seed   uint64
	Re, Im vk.F
}

func vkCheckBatch(c vkBatch) *vk.Failure {
	vk.Sample("cmplx64", c)
	if c.Mode == 2 {
		h, s := vkCheckOne(complex(float32(c.Re), float32(c.Im)))
		if h != nil {
			return h
		}
		return s
	}
	if c.Mode == 0 {
		vk.Class("cmplx64: special real part x all special imaginary parts")
		vk.NonTrivial("cmplx64-special", c.From)
		re := vkSpecial32[c.From%len(vkSpecial32)]
		var soft *vk.Failure
		for _, im := range vkSpecial32 {
			h, s := vkCheckOne(complex(re, im))
			if h != nil {
				return h
			}
			if soft == nil {
				soft = s
			}
		}
		return soft
	}
	vk.Class("cmplx64: 512 random values (uniform bits / nearby exponents / special component)")
	vk.NonTrivial("cmplx64-random", c.Seed)
	r := vk.NewSplitMix(c.Seed)
	var soft *vk.Failure
	for i := 0; i < 512; i++ {
		re := stdmath.Float32frombits(uint32(r.Uint64()))
		var im float32
		switch r.Intn(4) {
		case 0:
			im = stdmath.Float32frombits(uint32(r.Uint64()))
		case 1:
			im = vkSpecial32[r.Intn(len(vkSpecial32))]
		default:
			im = float32(float64(re) * stdmath.Ldexp(1+r.Float(), r.Intn(41)-20))
			if r.Intn(2) == 0 {
				im = -im
			}
		}
		if r.Intn(2) == 0 {
			re, im = im, re
		}
		h, s := vkCheckOne(complex(re, im))
		if h != nil {
			return h
		}
		if soft == nil {
			soft = s
		}
	}
	return soft
}

func TestVKCmplx64(t *testing.T) {
	vk.Enumerate(t, "cmplx64-special", len(vkSpecial32), func(i int) vkBatch { return vkBatch{Mode: 0, From: i} }, vkCheckBatch)
	vk.Run(t, "cmplx64-random", vk.Opts{Quick: 6000, Thorough: 400000, NoCrumb: true}, func(t *rapid.T) vkBatch {
		return vkBatch{Mode: 1, Seed: rapid.Uint64().Draw(t, "seed")}
	}, vkCheckBatch)
	vk.Enumerate(t, "cmplx64-consts", 1, func(i int) vkBatch { return vkBatch{} }, func(vkBatch) *vk.Failure {
		vk.Class("cmplx64 Inf, NaN")
		if v := Inf(); !(real(v) > stdmath.MaxFloat32 && imag(v) > stdmath.MaxFloat32) || !IsInf(v) {
			return vk.Failf("Inf", "Inf() = %v, want (+Inf+Infi)", v)
		}
		if v := NaN(); real(v) == real(v) || imag(v) == imag(v) || !IsNaN(v) {
			return vk.Failf("NaN", "NaN() = %v, want (NaN+NaNi)", v)
		}
		return nil
	})
}
