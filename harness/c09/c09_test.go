// Package c09 checks property C09: results do not depend on goroutine
// scheduling; concurrent use is race-free. It perturbs schedules (GOMAXPROCS
// values, drawn yield plans inside user callbacks, repetitions), checks
// schedule-independent observables exactly, and is also built with the race
// detector and pure-Go kernels (configuration "race").
package c09

import (
	"errors"
	"fmt"
	"hash/fnv"
	"math"
	"math/rand/v2"
	"runtime"
	"sort"
	"sync"
	"sync/atomic"
	"testing"
	"time"

	"gonum.org/v1/gonum/blas"
	bg "gonum.org/v1/gonum/blas/gonum"
	"gonum.org/v1/gonum/diff/fd"
	"gonum.org/v1/gonum/integrate/quad"
	"gonum.org/v1/gonum/mat"
	"gonum.org/v1/gonum/optimize"
	"gonum.org/v1/gonum/stat"
	"gonum.org/v1/gonum/stat/distmv"
	"pgregory.net/rapid"
	"verifharness/vk"
)

func TestMain(m *testing.M) { vk.Main(m, "C09") }

// goroutinesSettle waits (bounded) for the goroutine count to return to base.
// It only fails when goroutines stay behind for two seconds.
func goroutinesSettle(base int) (int, bool) {
	var n int
	for i := 0; i < 400; i++ {
		n = runtime.NumGoroutine()
		if n <= base {
			return n, true
		}
		runtime.Gosched()
		time.Sleep(5 * time.Millisecond)
	}
	return n, false
}

// yielder turns a drawn bit plan into scheduling perturbation inside callbacks.
type yielder struct {
	plan uint64
	n    atomic.Uint64
}

func (y *yielder) yield() {
	k := y.n.Add(1)
	switch (y.plan >> ((k * 2) % 62)) & 3 {
	case 1:
		runtime.Gosched()
	case 2:
		for i := 0; i < 3; i++ {
			runtime.Gosched()
		}
	case 3:
		x := 0.0
		for i := 0; i < 200; i++ {
			x += math.Sqrt(float64(i))
		}
		_ = x
	}
}

var procsList = []int{1, 2, 4, 16}

// ---- gemm determinism ------------------------------------------------------------

type gemmCase struct {
	Single  bool
	TA, TB  bool
	M, N, K int
	Alpha   vk.F
	Beta    vk.F
	Pad     int
	Seed    uint64
}

func bits64(x []float64) uint64 {
	h := fnv.New64a()
	var b [8]byte
	for _, v := range x {
		u := math.Float64bits(v)
		for i := range b {
			b[i] = byte(u >> (8 * i))
		}
		h.Write(b[:])
	}
	return h.Sum64()
}

func bits32(x []float32) uint64 {
	h := fnv.New64a()
	var b [4]byte
	for _, v := range x {
		u := math.Float32bits(v)
		for i := range b {
			b[i] = byte(u >> (8 * i))
		}
		h.Write(b[:])
	}
	return h.Sum64()
}

func checkGemm(c gemmCase) *vk.Failure {
	var impl bg.Implementation
	vk.Sample("gemm-determinism", c)
	blocks := ((c.M + 63) / 64) * ((c.N + 63) / 64)
	if blocks >= 4 {
		vk.NonTrivial("gemm", c.Single, c.TA, c.TB, c.M, c.N, c.K, float64(c.Alpha), float64(c.Beta), c.Pad)
	}
	vk.Class(fmt.Sprintf("gemm-blocks>=4=%v", blocks >= 4))
	g := vk.NewSplitMix(c.Seed)
	ar, ac := c.M, c.K
	if c.TA {
		ar, ac = c.K, c.M
	}
	br, bc := c.K, c.N
	if c.TB {
		br, bc = c.N, c.K
	}
	lda, ldb, ldc := ac+c.Pad, bc+c.Pad, c.N+c.Pad
	a := make([]float64, ar*lda)
	b := make([]float64, br*ldb)
	c0 := make([]float64, c.M*ldc)
	g.FillFinite(a)
	g.FillFinite(b)
	g.FillFinite(c0)
	ta, tb := blas.NoTrans, blas.NoTrans
	if c.TA {
		ta = blas.Trans
	}
	if c.TB {
		tb = blas.Trans
	}
	base := runtime.NumGoroutine()
	old := runtime.GOMAXPROCS(0)
	defer runtime.GOMAXPROCS(old)
	var ref uint64
	first := true
	a32, b32, c32 := make([]float32, len(a)), make([]float32, len(b)), make([]float32, len(c0))
	for i, v := range a {
		a32[i] = float32(v)
	}
	for i, v := range b {
		b32[i] = float32(v)
	}
	for i, v := range c0 {
		c32[i] = float32(v)
	}
	for _, p := range procsList {
		runtime.GOMAXPROCS(p)
		for rep := 0; rep < 3; rep++ {
			var h uint64
			if c.Single {
				out := append([]float32(nil), c32...)
				impl.Sgemm(ta, tb, c.M, c.N, c.K, float32(c.Alpha), a32, lda, b32, ldb, float32(c.Beta), out, ldc)
				h = bits32(out)
			} else {
				out := append([]float64(nil), c0...)
				impl.Dgemm(ta, tb, c.M, c.N, c.K, float64(c.Alpha), a, lda, b, ldb, float64(c.Beta), out, ldc)
				h = bits64(out)
			}
			if first {
				ref, first = h, false
			} else if h != ref {
				return vk.Failf("gemm-schedule-dependent", "GOMAXPROCS=%d repetition %d: result differs bitwise from the GOMAXPROCS=1 result", p, rep)
			}
		}
	}
	if n, ok := goroutinesSettle(base); !ok {
		return vk.Failf("gemm-goroutine-leak", "%d goroutines before, %d after", base, n)
	}
	vk.Extra("schedules_visited", int64(len(procsList)*3))
	return nil
}

func TestGemmDeterminism(t *testing.T) {
	vk.Run(t, "gemm-determinism", vk.Opts{Quick: 400, Thorough: 6000}, func(t *rapid.T) gemmCase {
		dim := func(l string) int {
			return rapid.SampledFrom([]int{65, 100, 127, 128, 129, 150, 192, 193, 257, 300}).Draw(t, l)
		}
		c := gemmCase{
			Single: rapid.Bool().Draw(t, "single"),
			TA:     rapid.Bool().Draw(t, "ta"), TB: rapid.Bool().Draw(t, "tb"),
			M: dim("m"), N: dim("n"), K: rapid.IntRange(1, 200).Draw(t, "k"),
			Alpha: vk.F(vk.Scalar(t, "alpha")), Beta: vk.F(vk.Scalar(t, "beta")),
			Pad:  rapid.IntRange(0, 3).Draw(t, "pad"),
			Seed: rapid.Uint64().Draw(t, "seed"),
		}
		if rapid.IntRange(0, 5).Draw(t, "small") == 0 {
			c.M = rapid.IntRange(1, 70).Draw(t, "sm") // below the parallel threshold too
		}
		return c
	}, checkGemm)
}

// ---- quad.Fixed --------------------------------------------------------------------

type quadCase struct {
	N          int
	Concurrent int
	Rule       int // 0 nil, 1 Legendre, 2 Hermite (infinite range)
	Min, Max   vk.F
	Coef       []int
	Plan       uint64
	Procs      int
}

func checkQuad(c quadCase) *vk.Failure {
	vk.Sample("quad-concurrent", c)
	if c.Concurrent >= 2 && c.N >= 2 {
		vk.NonTrivial("quad", c.N, c.Concurrent, c.Rule, float64(c.Min), float64(c.Max), c.Coef, c.Plan, c.Procs)
	}
	var rule quad.FixedLocationer
	lo, hi := float64(c.Min), float64(c.Max)
	switch c.Rule {
	case 1:
		rule = quad.Legendre{}
	case 2:
		rule = quad.Hermite{}
		lo, hi = math.Inf(-1), math.Inf(1)
	}
	poly := func(x float64) float64 {
		v := 0.0
		for i := len(c.Coef) - 1; i >= 0; i-- {
			v = v*x + float64(c.Coef[i])
		}
		return v
	}
	run := func(conc int, y *yielder) (float64, []float64, int64, error) {
		var mu sync.Mutex
		var xs []float64
		var inflight, high atomic.Int64
		f := func(x float64) float64 {
			n := inflight.Add(1)
			for {
				h := high.Load()
				if n <= h || high.CompareAndSwap(h, n) {
					break
				}
			}
			if y != nil {
				y.yield()
			}
			mu.Lock()
			xs = append(xs, x)
			mu.Unlock()
			v := poly(x)
			inflight.Add(-1)
			return v
		}
		r := vk.Call(func() {})
		var res float64
		r = vk.Call(func() { res = quad.Fixed(f, lo, hi, c.N, rule, conc) })
		if r.Outcome != vk.Returned {
			return 0, nil, 0, errors.New(r.Text)
		}
		sort.Float64s(xs)
		return res, xs, high.Load(), nil
	}
	old := runtime.GOMAXPROCS(c.Procs)
	defer runtime.GOMAXPROCS(old)
	base := runtime.NumGoroutine()
	sres, sxs, _, err := run(0, nil)
	if err != nil {
		return vk.Failf("quad-serial-panic", "%v", err)
	}
	if lo == hi {
		// empty interval: Fixed returns 0 without evaluating f
		if sres != 0 {
			return vk.Failf("quad-empty-interval", "integral over [%v,%v] = %v", lo, hi, sres)
		}
		return nil
	}
	if len(sxs) != c.N {
		return vk.Failf("quad-serial-count", "f evaluated %d times, want n=%d", len(sxs), c.N)
	}
	cres, cxs, high, err := run(c.Concurrent, &yielder{plan: c.Plan})
	if err != nil {
		return vk.Failf("quad-concurrent-panic", "concurrent=%d: %v", c.Concurrent, err)
	}
	if len(cxs) != c.N {
		return vk.Failf("quad-concurrent-count", "concurrent=%d: f evaluated %d times, want n=%d", c.Concurrent, len(cxs), c.N)
	}
	for i := range sxs {
		if sxs[i] != cxs[i] {
			return vk.Failf("quad-concurrent-abscissae", "concurrent=%d: abscissae differ from the serial run at sorted position %d: %v vs %v", c.Concurrent, i, cxs[i], sxs[i])
		}
	}
	if c.Concurrent > 0 && high > int64(c.Concurrent) {
		return vk.Failf("quad-too-many-simultaneous", "concurrent=%d but %d evaluations were in flight at once", c.Concurrent, high)
	}
	// |sum_i w_i f_i| terms: weights are positive and sum to the measure W
	var fmax float64
	for _, x := range sxs {
		fmax = math.Max(fmax, math.Abs(poly(x)))
	}
	W := hi - lo
	if c.Rule == 2 {
		W = math.Sqrt(math.Pi)
	}
	tol := 4 * float64(c.N+4) * vk.Eps * fmax * W
	if math.IsNaN(cres) || math.Abs(cres-sres) > tol {
		return vk.Failf("quad-concurrent-result", "concurrent=%d n=%d: %v, serial %v (tol %g)", c.Concurrent, c.N, cres, sres, tol)
	}
	if n, ok := goroutinesSettle(base); !ok {
		return vk.Failf("quad-goroutine-leak", "%d goroutines before, %d after", base, n)
	}
	vk.Extra("schedules_visited", 1)
	return nil
}

func TestQuadConcurrent(t *testing.T) {
	vk.Run(t, "quad-concurrent", vk.Opts{Quick: 4000, Thorough: 80000}, func(t *rapid.T) quadCase {
		n := vk.Dim(t, "n", 1, 200, 2, 5, 100, 101)
		c := quadCase{
			N:     n,
			Rule:  rapid.IntRange(0, 2).Draw(t, "rule"),
			Min:   vk.F(float64(rapid.IntRange(-8, 8).Draw(t, "min")) / 2),
			Coef:  rapid.SliceOfN(rapid.IntRange(-3, 3), 1, 5).Draw(t, "coef"),
			Plan:  rapid.Uint64().Draw(t, "plan"),
			Procs: rapid.SampledFrom(procsList).Draw(t, "procs"),
		}
		c.Max = c.Min + vk.F(float64(rapid.IntRange(0, 16).Draw(t, "len"))/2)
		c.Concurrent = rapid.SampledFrom([]int{1, 2, 3, 4, 8, n, n + 3, rapid.IntRange(1, n).Draw(t, "conc")}).Draw(t, "concsel")
		return c
	}, checkQuad)
}

// ---- diff/fd -------------------------------------------------------------------------

type fdCase struct {
	Kind    int // 0 Gradient 1 Jacobian 2 Hessian 3 Laplacian 4 CrossLaplacian 5 Derivative
	Formula int
	Dim     int
	X       []int // x = X/4
	Q       []int // symmetric quadratic form coefficients (dim*dim, small ints)
	L       []int // linear coefficients
	Step    int   // step = 2^-Step
	Origin  bool
	Plan    uint64
	Procs   int
	// Dirty: the destination handed to Gradient/Jacobian/Hessian is a reused
	// one holding stale non-zero values (the concurrent paths accumulate
	// into it, the serial ones assign).
	Dirty bool
}

func fdFormula(i int) fd.Formula {
	return []fd.Formula{fd.Forward, fd.Backward, fd.Central, fd.Forward2nd, fd.Backward2nd, fd.Central2nd}[i]
}

func checkFD(c fdCase) *vk.Failure {
	vk.Sample("fd-concurrent", c)
	n := c.Dim
	x := make([]float64, n)
	for i := range x {
		x[i] = float64(c.X[i]) / 4
	}
	if n >= 2 {
		vk.NonTrivial("fd", c.Kind, c.Formula, n, c.X, c.Q, c.L, c.Step, c.Origin, c.Procs)
	}
	// f(x) = x^T Q x + l^T x with small integer coefficients: every value on
	// the stencil is exactly representable, so serial and concurrent results
	// must agree bit for bit whatever the accumulation order.
	qf := func(v []float64) float64 {
		s := 0.0
		for i := 0; i < n; i++ {
			for j := 0; j < n; j++ {
				s += float64(c.Q[i*n+j]) * v[i] * v[j]
			}
			s += float64(c.L[i]) * v[i]
		}
		return s
	}
	step := math.Ldexp(1, -c.Step)
	formula := fdFormula(c.Formula)
	secondOrder := c.Formula >= 3
	// Gradient, Jacobian, Hessian and CrossLaplacian take a first-derivative
	// formula, Laplacian a second-derivative one (documented panics otherwise).
	if c.Kind == 3 && !secondOrder {
		formula = fdFormula(c.Formula + 3)
	}
	if c.Kind != 3 && c.Kind != 5 && secondOrder {
		formula = fdFormula(c.Formula - 3)
	}
	type out struct {
		vals  []float64
		calls int64
	}
	run := func(conc bool, y *yielder) (o out, err error) {
		var calls atomic.Int64
		f := func(v []float64) float64 {
			calls.Add(1)
			if y != nil {
				y.yield()
			}
			return qf(v)
		}
		set := &fd.Settings{Formula: formula, Step: step, Concurrent: conc}
		if c.Origin && c.Kind != 1 {
			set.OriginKnown = true
			set.OriginValue = qf(x)
		}
		r := vk.Call(func() {
			switch c.Kind {
			case 0:
				var dst []float64
				if c.Dirty {
					dst = make([]float64, n)
					for i := range dst {
						dst[i] = float64(7 + i)
					}
				}
				o.vals = fd.Gradient(dst, f, x, set)
			case 1:
				m := 3
				dst := mat.NewDense(m, n, nil)
				if c.Dirty {
					for i := 0; i < m; i++ {
						for j := 0; j < n; j++ {
							dst.Set(i, j, float64(5+i-j))
						}
					}
				}
				js := &fd.JacobianSettings{Formula: formula, Step: step, Concurrent: conc}
				fd.Jacobian(dst, func(yv, xv []float64) {
					calls.Add(1)
					if y != nil {
						y.yield()
					}
					for k := range yv {
						yv[k] = qf(xv) * float64(k+1)
					}
				}, x, js)
				o.vals = append([]float64(nil), dst.RawMatrix().Data...)
			case 2:
				dst := mat.NewSymDense(n, nil)
				if c.Dirty {
					for i := 0; i < n; i++ {
						for j := i; j < n; j++ {
							dst.SetSym(i, j, float64(3+i+j))
						}
					}
				}
				fd.Hessian(dst, f, x, set)
				for i := 0; i < n; i++ {
					for j := 0; j < n; j++ {
						o.vals = append(o.vals, dst.At(i, j))
					}
				}
			case 5:
				// scalar Derivative with any of the six formulas; with
				// OriginKnown the origin term is added by the calling
				// goroutine while workers add theirs
				f1 := func(t float64) float64 {
					calls.Add(1)
					if y != nil {
						y.yield()
					}
					return float64(c.Q[0])*t*t + float64(c.L[0])*t + 3
				}
				if c.Origin {
					set.OriginValue = float64(c.Q[0])*x[0]*x[0] + float64(c.L[0])*x[0] + 3
				}
				o.vals = []float64{fd.Derivative(f1, x[0], set)}
			case 3:
				o.vals = []float64{fd.Laplacian(f, x, set)}
			case 4:
				yv := make([]float64, n)
				for i := range yv {
					yv[i] = x[(i+1)%n] + 0.5
				}
				g := func(a, b []float64) float64 {
					calls.Add(1)
					if y != nil {
						y.yield()
					}
					return qf(a) * (1 + b[0]) // bilinear-ish in (a, b[0])
				}
				o.vals = []float64{fd.CrossLaplacian(g, x, yv, set)}
			}
		})
		o.calls = calls.Load()
		if r.Outcome != vk.Returned {
			return o, errors.New(r.Text)
		}
		return o, nil
	}
	old := runtime.GOMAXPROCS(c.Procs)
	defer runtime.GOMAXPROCS(old)
	base := runtime.NumGoroutine()
	so, err := run(false, nil)
	if err != nil {
		return vk.Failf("fd-serial-panic", "kind=%d: %v", c.Kind, err)
	}
	co, err := run(true, &yielder{plan: c.Plan})
	if err != nil {
		return vk.Failf("fd-concurrent-panic", "kind=%d: %v", c.Kind, err)
	}
	if co.calls != so.calls {
		return vk.Failf(fmt.Sprintf("fd-concurrent-evaluations/kind%d", c.Kind), "kind=%d formula=%d originKnown=%v: %d evaluations concurrently, %d serially", c.Kind, c.Formula, c.Origin, co.calls, so.calls)
	}
	if len(co.vals) != len(so.vals) {
		return vk.Failf("fd-concurrent-shape", "kind=%d", c.Kind)
	}
	for i := range so.vals {
		if !vk.SameBits(so.vals[i], co.vals[i]) && !(so.vals[i] == 0 && co.vals[i] == 0) {
			return vk.Failf(fmt.Sprintf("fd-concurrent-result/kind%d", c.Kind), "kind=%d formula=%d: element %d concurrent %v serial %v (exact data: must agree exactly)", c.Kind, c.Formula, i, co.vals[i], so.vals[i])
		}
	}
	if n, ok := goroutinesSettle(base); !ok {
		return vk.Failf("fd-goroutine-leak", "%d goroutines before, %d after", base, n)
	}
	vk.Extra("schedules_visited", 1)
	return nil
}

func TestFDConcurrent(t *testing.T) {
	vk.Run(t, "fd-concurrent", vk.Opts{Quick: 6000, Thorough: 120000}, func(t *rapid.T) fdCase {
		n := rapid.IntRange(1, 6).Draw(t, "dim")
		c := fdCase{
			Kind:    rapid.IntRange(0, 5).Draw(t, "kind"),
			Formula: rapid.IntRange(0, 5).Draw(t, "formula"),
			Dim:     n,
			Step:    rapid.IntRange(1, 6).Draw(t, "step"),
			Origin:  rapid.Bool().Draw(t, "origin"),
			Plan:    rapid.Uint64().Draw(t, "plan"),
			Procs:   rapid.SampledFrom(procsList).Draw(t, "procs"),
			Dirty:   rapid.Bool().Draw(t, "dirty"),
		}
		c.X = rapid.SliceOfN(rapid.IntRange(-8, 8), n, n).Draw(t, "x")
		c.L = rapid.SliceOfN(rapid.IntRange(-3, 3), n, n).Draw(t, "l")
		c.Q = rapid.SliceOfN(rapid.IntRange(-2, 2), n*n, n*n).Draw(t, "q")
		return c
	}, checkFD)
}

// ---- optimize ----------------------------------------------------------------------------

type optCase struct {
	Method     int
	Dim        int
	Concurrent int
	Cause      int // 0 none (safety cap) 1 func limit 2 iteration limit 3 recorder error 4 status error 5 status terminal
	Limit      int
	Seed       uint64
	Plan       uint64
	Procs      int
}

var methodNames = []string{"GradientDescent", "BFGS", "LBFGS", "CG", "Newton", "NelderMead", "CmaEsChol", "GuessAndCheck", "ListSearch"}

type failingRecorder struct {
	after int64
	n     atomic.Int64
}

func (r *failingRecorder) Init() error { return nil }
func (r *failingRecorder) Record(*optimize.Location, optimize.Operation, *optimize.Stats) error {
	if r.n.Add(1) >= r.after {
		return errRecorder
	}
	return nil
}

var (
	errRecorder = errors.New("c09: recorder failure")
	errStatus   = errors.New("c09: status failure")
)

type optOutcome struct {
	res                         *optimize.Result
	err                         error
	funcCalls, gradCalls, hessC int64
	minF                        float64
}

func runOpt(c optCase, y *yielder) (o optOutcome, panicText string) {
	n := c.Dim
	g := vk.NewSplitMix(c.Seed)
	// SPD quadratic f = 1/2 x^T A x - b^T x, A diagonally dominant
	A := mat.NewSymDense(n, nil)
	for i := 0; i < n; i++ {
		for j := i + 1; j < n; j++ {
			A.SetSym(i, j, float64(g.Intn(5)-2)/8)
		}
		A.SetSym(i, i, 2+float64(g.Intn(8))/4)
	}
	b := make([]float64, n)
	x0 := make([]float64, n)
	for i := range b {
		b[i] = float64(g.Intn(9) - 4)
		x0[i] = float64(g.Intn(17) - 8)
	}
	var fc, gc, hc, sc atomic.Int64
	var minMu sync.Mutex
	o.minF = math.Inf(1)
	prob := optimize.Problem{
		Func: func(x []float64) float64 {
			fc.Add(1)
			if y != nil {
				y.yield()
			}
			s := 0.0
			for i := 0; i < n; i++ {
				for j := 0; j < n; j++ {
					s += 0.5 * A.At(i, j) * x[i] * x[j]
				}
				s -= b[i] * x[i]
			}
			minMu.Lock()
			if s < o.minF {
				o.minF = s
			}
			minMu.Unlock()
			return s
		},
		Grad: func(grad, x []float64) {
			gc.Add(1)
			if y != nil {
				y.yield()
			}
			for i := 0; i < n; i++ {
				s := -b[i]
				for j := 0; j < n; j++ {
					s += A.At(i, j) * x[j]
				}
				grad[i] = s
			}
		},
		Hess: func(h *mat.SymDense, x []float64) {
			hc.Add(1)
			if y != nil {
				y.yield()
			}
			for i := 0; i < n; i++ {
				for j := i; j < n; j++ {
					h.SetSym(i, j, A.At(i, j))
				}
			}
		},
	}
	settings := &optimize.Settings{Concurrent: c.Concurrent, FuncEvaluations: 4000, MajorIterations: 2000}
	switch c.Cause {
	case 1:
		settings.FuncEvaluations = c.Limit
	case 2:
		settings.MajorIterations = c.Limit
	case 3:
		settings.Recorder = &failingRecorder{after: int64(c.Limit)}
	case 4, 5:
		prob.Status = func() (optimize.Status, error) {
			if sc.Add(1) >= int64(c.Limit) {
				if c.Cause == 4 {
					return optimize.NotTerminated, errStatus
				}
				return optimize.Failure, nil
			}
			return optimize.NotTerminated, nil
		}
	}
	var method optimize.Method
	switch c.Method {
	case 0:
		method = &optimize.GradientDescent{}
	case 1:
		method = &optimize.BFGS{}
	case 2:
		method = &optimize.LBFGS{}
	case 3:
		method = &optimize.CG{}
	case 4:
		method = &optimize.Newton{}
	case 5:
		method = &optimize.NelderMead{}
	case 6:
		method = &optimize.CmaEsChol{Src: rand.NewPCG(c.Seed, 17)}
	case 7:
		sigma := mat.NewSymDense(n, nil)
		for i := 0; i < n; i++ {
			sigma.SetSym(i, i, 4)
		}
		nrm, _ := distmv.NewNormal(make([]float64, n), sigma, rand.NewPCG(c.Seed, 29))
		method = &optimize.GuessAndCheck{Rander: nrm}
	default:
		rows := 12
		locs := mat.NewDense(rows, n, nil)
		for i := 0; i < rows; i++ {
			for j := 0; j < n; j++ {
				locs.Set(i, j, float64(g.Intn(17)-8)/2)
			}
		}
		method = &optimize.ListSearch{Locs: locs}
	}
	r := vk.Call(func() { o.res, o.err = optimize.Minimize(prob, x0, settings, method) })
	o.funcCalls, o.gradCalls, o.hessC = fc.Load(), gc.Load(), hc.Load()
	if r.Outcome != vk.Returned {
		return o, r.Text
	}
	return o, ""
}

func checkOpt(c optCase) *vk.Failure {
	vk.Sample("optimize-concurrent", c)
	name := methodNames[c.Method]
	vk.Class("opt/" + name)
	if c.Concurrent >= 2 {
		vk.NonTrivial("opt", c.Method, c.Dim, c.Concurrent, c.Cause, c.Limit, c.Seed, c.Procs)
	}
	old := runtime.GOMAXPROCS(c.Procs)
	defer runtime.GOMAXPROCS(old)
	base := runtime.NumGoroutine()
	o, ptxt := runOpt(c, &yielder{plan: c.Plan})
	if ptxt != "" {
		return vk.Failf("opt-panic/"+name, "%s concurrent=%d cause=%d limit=%d: %s", name, c.Concurrent, c.Cause, c.Limit, ptxt)
	}
	if o.res == nil {
		if o.err == nil {
			return vk.Failf("opt-nil-result/"+name, "Minimize returned nil result and nil error")
		}
		// an error before the run started (e.g. Recorder/Status failing at the very first call)
		if n, ok := goroutinesSettle(base); !ok {
			return vk.Failf("opt-goroutine-leak/"+name, "%d goroutines before, %d after (early error %v)", base, n, o.err)
		}
		return nil
	}
	st := o.res.Stats
	if int64(st.FuncEvaluations) != o.funcCalls || int64(st.GradEvaluations) != o.gradCalls || int64(st.HessEvaluations) != o.hessC {
		return vk.Failf("opt-stats-mismatch/"+name, "%s concurrent=%d cause=%d limit=%d: Stats func/grad/hess = %d/%d/%d, callbacks made %d/%d/%d (status %v err %v)", name, c.Concurrent, c.Cause, c.Limit,
			st.FuncEvaluations, st.GradEvaluations, st.HessEvaluations, o.funcCalls, o.gradCalls, o.hessC, o.res.Status, o.err)
	}
	slack := int64(max(1, c.Concurrent))
	switch c.Cause {
	case 1:
		if o.funcCalls > int64(c.Limit)+slack {
			return vk.Failf("opt-func-limit-exceeded/"+name, "%s concurrent=%d: %d function evaluations for limit %d", name, c.Concurrent, o.funcCalls, c.Limit)
		}
	case 2:
		// strict without concurrency; with concurrent evaluation the results
		// already in flight may each still produce a major iteration
		// ("Minimize cannot guarantee strict adherence to the evaluation bounds
		// specified when performing concurrent evaluations and updates")
		itSlack := 0
		if c.Concurrent > 1 {
			itSlack = c.Concurrent
		}
		if st.MajorIterations > c.Limit+itSlack {
			return vk.Failf("opt-iteration-limit-exceeded/"+name, "%s: %d major iterations for limit %d", name, st.MajorIterations, c.Limit)
		}
	case 3:
		// the recorder failed at its Limit-th call: if it was called that often the error must surface
		rec := int64(0)
		_ = rec
	}
	// The search methods without a model (GuessAndCheck, ListSearch) return the
	// best of the points they evaluated; every evaluation that completed is
	// counted in Stats (asserted above), so none of them may be lost when the
	// run is stopped while evaluations are in flight.
	if (c.Method == 7 || c.Method == 8) && o.err == nil && st.MajorIterations > 0 && !vk.SameBits(o.res.F, o.minF) {
		return vk.Failf("opt-best-evaluation-lost/"+name, "%s concurrent=%d cause=%d limit=%d: Result.F = %v but the smallest of the %d values the objective returned is %v", name, c.Concurrent, c.Cause, c.Limit, o.res.F, o.funcCalls, o.minF)
	}
	if o.err != nil && !(errors.Is(o.err, errRecorder) || errors.Is(o.err, errStatus)) {
		// other errors (ErrLinesearcherFailure etc.) are legitimate outcomes on tiny limits
		vk.Class("opt-err/" + fmt.Sprintf("%T", o.err))
	}
	if n, ok := goroutinesSettle(base); !ok {
		return vk.Failf("opt-goroutine-leak/"+name, "%s concurrent=%d cause=%d: %d goroutines before, %d after", name, c.Concurrent, c.Cause, base, n)
	}
	// determinism without concurrency: identical result on a second run
	if c.Concurrent <= 1 {
		o2, p2 := runOpt(c, nil)
		if p2 != "" || o2.res == nil {
			return vk.Failf("opt-nondeterministic/"+name, "second run: panic %q, result %v", p2, o2.res)
		}
		if o2.res.Status != o.res.Status || !vk.SameBits(o2.res.F, o.res.F) || o2.res.Stats.FuncEvaluations != st.FuncEvaluations || o2.res.Stats.MajorIterations != st.MajorIterations {
			return vk.Failf("opt-nondeterministic/"+name, "%s: runs differ: F %v vs %v, status %v vs %v, evals %d vs %d", name, o.res.F, o2.res.F, o.res.Status, o2.res.Status, st.FuncEvaluations, o2.res.Stats.FuncEvaluations)
		}
		for i := range o.res.X {
			if !vk.SameBits(o.res.X[i], o2.res.X[i]) {
				return vk.Failf("opt-nondeterministic/"+name, "%s: X differs between two serial runs", name)
			}
		}
	}
	vk.Extra("schedules_visited", 1)
	return nil
}

func TestOptimizeConcurrent(t *testing.T) {
	vk.Run(t, "optimize-concurrent", vk.Opts{Quick: 1600, Thorough: 30000}, func(t *rapid.T) optCase {
		return optCase{
			Method:     rapid.IntRange(0, len(methodNames)-1).Draw(t, "method"),
			Dim:        rapid.IntRange(1, 5).Draw(t, "dim"),
			Concurrent: rapid.IntRange(0, 8).Draw(t, "concurrent"),
			Cause:      rapid.IntRange(0, 5).Draw(t, "cause"),
			Limit:      rapid.IntRange(1, 30).Draw(t, "limit"),
			Seed:       rapid.Uint64().Draw(t, "seed"),
			Plan:       rapid.Uint64().Draw(t, "plan"),
			Procs:      rapid.SampledFrom(procsList).Draw(t, "procs"),
		}
	}, checkOpt)
}

// ---- independent use from many goroutines (shared workspace pools) -----------------------

type poolCase struct {
	K     int
	Seeds []uint64
	Ops   []int
	Procs int
}

// script runs a fixed sequence of mat/stat operations on private data and
// returns a hash of every result.
func script(seed uint64, ops []int) uint64 {
	g := vk.NewSplitMix(seed)
	h := fnv.New64a()
	put := func(m mat.Matrix) {
		r, c := m.Dims()
		for i := 0; i < r; i++ {
			for j := 0; j < c; j++ {
				fmt.Fprintf(h, "%x,", math.Float64bits(m.At(i, j)))
			}
		}
	}
	for _, op := range ops {
		n := 3 + g.Intn(12)
		a := mat.NewDense(n, n, nil)
		for i := 0; i < n; i++ {
			for j := 0; j < n; j++ {
				a.Set(i, j, g.Finite())
			}
			a.Set(i, i, a.At(i, i)+float64(2*n))
		}
		b := mat.NewDense(n, n, nil)
		for i := 0; i < n; i++ {
			for j := 0; j < n; j++ {
				b.Set(i, j, g.Finite())
			}
		}
		switch op {
		case 0: // Mul with the receiver aliasing an operand (isolated workspace from the pool)
			a.Mul(a, b)
			put(a)
		case 1:
			var x mat.Dense
			if err := x.Solve(a, b); err == nil {
				put(&x)
			}
		case 2:
			var s mat.SymDense
			s.SymOuterK(1, a)
			var ch mat.Cholesky
			if ch.Factorize(&s) {
				var x mat.Dense
				if err := ch.SolveTo(&x, b); err == nil {
					put(&x)
				}
			}
		case 3:
			var svd mat.SVD
			if svd.Factorize(a, mat.SVDThin) {
				fmt.Fprintf(h, "%v", svd.Values(nil))
			}
		case 4:
			var s mat.SymDense
			s.SymOuterK(1, b)
			var es mat.EigenSym
			if es.Factorize(&s, true) {
				fmt.Fprintf(h, "%v", es.Values(nil))
			}
		case 5:
			var cov mat.SymDense
			stat.CovarianceMatrix(&cov, a, nil)
			put(&cov)
		case 6:
			var p mat.Dense
			p.Product(a, b, a)
			put(&p)
		case 8:
			// QR of a tall matrix read element by element before Q is
			// formed: At takes a cleared scratch vector from the pool
			m := n + g.Intn(6)
			tall := mat.NewDense(m, n, nil)
			for i := 0; i < m; i++ {
				for j := 0; j < n; j++ {
					tall.Set(i, j, g.Finite())
				}
			}
			var qr mat.QR
			qr.Factorize(tall)
			put(&qr)
		case 9:
			var lu mat.LU
			lu.Factorize(a)
			det, sign := lu.LogDet()
			fmt.Fprintf(h, "%x,%v,%x,", math.Float64bits(det), sign, math.Float64bits(lu.Cond()))
		case 10:
			m := n + g.Intn(6)
			wide := mat.NewDense(n, m, nil)
			for i := 0; i < n; i++ {
				for j := 0; j < m; j++ {
					wide.Set(i, j, g.Finite())
				}
			}
			var lq mat.LQ
			lq.Factorize(wide)
			var x mat.Dense
			if err := lq.SolveTo(&x, false, b); err == nil {
				put(&x)
			}
		case 11:
			m := n + g.Intn(6)
			tall := mat.NewDense(m, n, nil)
			for i := 0; i < m; i++ {
				for j := 0; j < n; j++ {
					tall.Set(i, j, g.Finite())
				}
			}
			var qr mat.QR
			qr.Factorize(tall)
			var x mat.Dense
			if err := qr.SolveTo(&x, true, b); err == nil {
				put(&x)
			}
		case 12:
			var s mat.SymDense
			s.SymOuterK(1, a)
			var ch mat.Cholesky
			if ch.Factorize(&s) {
				fmt.Fprintf(h, "%x,%x,", math.Float64bits(ch.LogDet()), math.Float64bits(ch.Cond()))
				xv := mat.NewVecDense(n, nil)
				for i := 0; i < n; i++ {
					xv.SetVec(i, g.Finite())
				}
				ch.SymRankOne(&ch, 0.5, xv)
				var t mat.TriDense
				ch.UTo(&t)
				put(&t)
			}
		default:
			var inv mat.Dense
			if err := inv.Inverse(a); err == nil {
				put(&inv)
			}
			a.Apply(func(i, j int, v float64) float64 { return v * 2 }, a)
			put(a)
		}
	}
	return h.Sum64()
}

func checkPool(c poolCase) *vk.Failure {
	vk.Sample("pool-independence", c)
	if c.K >= 2 {
		vk.NonTrivial("pool", c.K, c.Seeds, c.Ops, c.Procs)
	}
	old := runtime.GOMAXPROCS(c.Procs)
	defer runtime.GOMAXPROCS(old)
	alone := make([]uint64, c.K)
	for i := 0; i < c.K; i++ {
		alone[i] = script(c.Seeds[i], c.Ops)
	}
	// A second serial pass in the opposite order: every script now finds the
	// workspace pools in the state other scripts left them in. This part of the
	// oracle does not depend on scheduling at all.
	for i := c.K - 1; i >= 0; i-- {
		if again := script(c.Seeds[i], c.Ops); again != alone[i] {
			return vk.Failf("pool-history-dependent", "script %v on seed %d gives a different result when it runs after other scripts on the same goroutine (state left in a shared workspace pool)", c.Ops, c.Seeds[i])
		}
	}
	together := make([]uint64, c.K)
	var wg sync.WaitGroup
	start := make(chan struct{})
	for i := 0; i < c.K; i++ {
		wg.Add(1)
		go func(i int) {
			defer wg.Done()
			<-start
			together[i] = script(c.Seeds[i], c.Ops)
		}(i)
	}
	close(start)
	wg.Wait()
	for i := range alone {
		if alone[i] != together[i] {
			return vk.Failf("pool-crosstalk", "goroutine %d of %d: results of script %v on seed %d differ when run concurrently with the others", i, c.K, c.Ops, c.Seeds[i])
		}
	}
	vk.Extra("schedules_visited", 1)
	return nil
}

func TestPoolIndependence(t *testing.T) {
	vk.Run(t, "pool-independence", vk.Opts{Quick: 600, Thorough: 12000}, func(t *rapid.T) poolCase {
		k := rapid.IntRange(2, 16).Draw(t, "k")
		return poolCase{
			K:     k,
			Seeds: rapid.SliceOfN(rapid.Uint64(), k, k).Draw(t, "seeds"),
			Ops:   rapid.SliceOfN(rapid.IntRange(0, 13), 1, 8).Draw(t, "ops"),
			Procs: rapid.SampledFrom(procsList).Draw(t, "procs"),
		}
	}, checkPool)
}
