// Package c09 checks property C09: results do not depend on goroutine
// scheduling; concurrent use is race-free. It perturbs schedules (GOMAXPROCS
// values, drawn yield plans inside user callbacks, repetitions), checks
// schedule-independent observables exactly, and is also built with the race
// detector and pure-Go kernels (configuration "race").
package c09

import (
	"errors"
	"fmt"
	"hash/fnv"
	"math"
	"math/rand/v2"
	"runtime"
	"sort"
	"sync"
	"sync/atomic"
	"testing"
	"time"

	"gonum.org/v1/gonum/blas"
	bg "gonum.org/v1/gonum/blas/gonum"
	"gonum.org/v1/gonum/diff/fd"
	"gonum.org/v1/gonum/integrate/quad"
	"gonum.org/v1/gonum/mat"
	"gonum.org/v1/gonum/optimize"
	"gonum.org/v1/gonum/stat"
	"gonum.org/v1/gonum/stat/distmv"
	"pgregory.net/rapid"
	"verifharness/vk"
)

func TestMain(m *testing.M) { vk.Main(m, "C09") }

// goroutinesSettle waits (bounded) for the goroutine count to return to base.
// It only fails when goroutines stay behind for two seconds.
func goroutinesSettle(base int) (int, bool) {
	var n int
	for i := 0; i < 400; i++ {
		n = runtime.NumGoroutine()
		if n <= base {
			return n, true
		}
		runtime.Gosched()
		time.Sleep(5 * time.Millisecond)
	}
	return n, false
}

// yielder turns a drawn bit plan into scheduling perturbation inside callbacks.
type yielder struct {
	plan uint64
	n    atomic.Uint64
}

func (y *yielder) yield() {
	k := y.n.Add(1)
	switch (y.plan >> ((k * 2) % 62)) & 3 {
	case 1:
		runtime.Gosched()
	case 2:
		for i := 0; i < 3; i++ {
			runtime.Gosched()
		}
	case 3:
		x := 0.0
		for i := 0; i < 200; i++ {
			x += math.Sqrt(float64(i))
		}
		_ = x
	}
}

var procsList = []int{1, 2, 4, 16}

// ---- gemm determinism ------------------------------------------------------------

type gemmCase struct {
	Single  bool
	TA, TB  bool
	M, N, K int
	Alpha   vk.F
	Beta    vk.F
	Pad     int
	Seed    uint64
}

func bits64(x []float64) uint64 {
	h := fnv.New64a()
	var b [8]byte
	for _, v := range x {
		u := math.Float64bits(v)
		for i := range b {
			b[i] = byte(u >> (8 * i))
		}
		h.Write(b[:])
	}
	return h.Sum64()
}

func bits32(x []float32) uint64 {
	h := fnv.New64a()
	var b [4]byte
	for _, v := range x {
		u := math.Float32bits(v)
		for i := range b {
			b[i] = byte(u >> (8 * i))
		}
		h.Write(b[:])
	}
	return h.Sum64()
}

func checkGemm(c gemmCase) *vk.Failure {
	var impl bg.Implementation
	vk.Sample("gemm-determinism", c)
	blocks := ((c.M + 63) / 64) * ((c.N + 63) / 64)
	if blocks >= 4 {
		vk.NonTrivial("gemm", c.Single, c.TA, c.TB, c.M, c.N, c.K, float64(c.Alpha), float64(c.Beta), c.Pad)
	}
	vk.Class(fmt.Sprintf("gemm-blocks>=4=%v", blocks >= 4))
	g := vk.NewSplitMix(c.Seed)
	ar, ac := c.M, c.K
	if c.TA {
		ar, ac = c.K, c.M
	}
	br, bc := c.K, c.N
	if c.TB {
		br, bc = c.N, c.K
	}
	lda, ldb, ldc := ac+c.Pad, bc+c.Pad, c.N+c.Pad
	a := make([]float64, ar*lda)
	b := make([]float64, br*ldb)
	c0 := make([]float64, c.M*ldc)
	g.FillFinite(a)
	g.FillFinite(b)
	g.FillFinite(c0)
	ta, tb := blas.NoTrans, blas.NoTrans
	if c.TA {
		ta = blas.Trans
	}
	if c.TB {
		tb = blas.Trans
	}
	base := runtime.NumGoroutine()
	old := runtime.GOMAXPROCS(0)
	defer runtime.GOMAXPROCS(old)
	var ref uint64
	first := true
	a32, b32, c32 := make([]float32, len(a)), make([]float32, len(b)), make([]float32, len(c0))
	for i, v := range a {
		a32[i] = float32(v)
	}
	for i, v := range b {
		b32[i] = float32(v)
	}
	for i, v := range c0 {
		c32[i] = float32(v)
	}
	for _, p := range procsList {
		runtime.GOMAXPROCS(p)
		for rep := 0; rep < 3; rep++ {
			var h uint64
			if c.Single {
				out := append([]float32(nil), c32...)
				impl.Sgemm(ta, tb, c.M, c.N, c.K, float32(c.Alpha), a32, lda, b32, ldb, float32(c.Beta), out, ldc)
				h = bits32(out)
			} else {
				out := append([]float64(nil), c0...)
				impl.Dgemm(ta, tb, c.M, c.N, c.K, float64(c.Alpha), a, lda, b, ldb, float64(c.Beta), out, ldc)
				h = bits64(out)
			}
			if first {
				ref, first = h, false
			} else if h != ref {
				return vk.Failf("gemm-schedule-dependent", "GOMAXPROCS=%d repetition %d: result differs bitwise from the GOMAXPROCS=1 result", p, rep)
			}
		}
	}
	if n, ok := goroutinesSettle(base); !ok {
		return vk.Failf("gemm-goroutine-leak", "%d goroutines before, %d after", base, n)
	}
	vk.Extra("schedules_visited", int64(len(procsList)*3))
	return nil
}

func TestGemmDeterminism(t *testing.T) {
	vk.Run(t, "gemm-determinism", vk.Opts{Quick: 400, Thorough: 6000}, func(t *rapid.T) gemmCase {
		dim := func(l string) int {
			return rapid.SampledFrom([]int{65, 100, 127, 128, 129, 150, 192, 193, 257, 300}).Draw(t, l)
		}
		c := gemmCase{
			Single: rapid.Bool().Draw(t, "single"),
			TA:     rapid.Bool().Draw(t, "ta"), TB: rapid.Bool().Draw(t, "tb"),
			M: dim("m"), N: dim("n"), K: rapid.IntRange(1, 200).Draw(t, "k"),
			Alpha: vk.F(vk.Scalar(t, "alpha")), Beta: vk.F(vk.Scalar(t, "beta")),
			Pad:  rapid.IntRange(0, 3).Draw(t, "pad"),
			Seed: rapid.Uint64().Draw(t, "seed"),
		}
		if rapid.IntRange(0, 5).Draw(t, "small") == 0 {
			c.M = rapid.IntRange(1, 70).Draw(t, "sm") // below the parallel threshold too
		}
		return c
	}, checkGemm)
}

// ---- quad.Fixed --------------------------------------------------------------------

type quadCase struct {
	N          int
	Concurrent int
	Rule       int // 0 nil, 1 Legendre, 2 Hermite (infinite range)
	Min, Max   vk.F
	Coef       []int
	Plan       uint64
	Procs      int
}

func checkQuad(c quadCase) *vk.Failure {
	vk.Sample("quad-concurrent", c)
	if c.Concurrent >= 2 && c.N >= 2 {
		vk.NonTrivial("quad", c.N, c.Concurrent, c.Rule, float64(c.Min), float64(c.Max), c.Coef, c.Plan, c.Procs)
	}
	var rule quad.FixedLocationer
	lo, hi := float64(c.Min), float64(c.Max)
	switch c.Rule {
	case 1:
		rule = quad.Legendre{}
	case 2:
		rule = quad.Hermite{}
		lo, hi = math.Inf(-1), math.Inf(1)
	}
	poly := func(x float64) float64 {
		v := 0.0
		for i := len(c.Coef) - 1; i >= 0; i-- {
			v = v*x + float64(c.Coef[i])
		}
		return v
	}
	run := func(conc int, y *yielder) (float64, []float64, int64, error) {
		var mu sync.Mutex
		var xs []float64
		var inflight, high atomic.Int64
		f := func(x float64) float64 {
			n := inflight.Add(1)
			for {
				h := high.Load()
				if n <= h || high.CompareAndSwap(h, n) {
					break
				}
			}
			if y != nil {
				y.yield()
			}
			mu.Lock()
			xs = append(xs, x)
			mu.Unlock()
			v := poly(x)
			inflight.Add(-1)
			return v
		}
		r := vk.Call(func() {})
		var res float64
		r = vk.Call(func() { res = quad.Fixed(f, lo, hi, c.N, rule, conc) })
		if r.Outcome != vk.Returned {
			return 0, nil, 0, errors.New(r.Text)
		}
		sort.Float64s(xs)
		return res, xs, high.Load(), nil
	}
	old := runtime.GOMAXPROCS(c.Procs)
	defer runtime.GOMAXPROCS(old)
	base := runtime.NumGoroutine()
	sres, sxs, _, err := run(0, nil)
	if err != nil {
		return vk.Failf("quad-serial-panic", "%v", err)
	}
	if lo == hi {
		// empty interval: Fixed returns 0 without evaluating f
		if sres != 0 {
			return vk.Failf("quad-empty-interval", "integral over [%v,%v] = %v", lo, hi, sres)
		}
		return nil
	}
	if len(sxs) != c.N {
		return vk.Failf("quad-serial-count", "f evaluated %d times, want n=%d", len(sxs), c.N)
	}
	cres, cxs, high, err := run(c.Concurrent, &yielder{plan: c.Plan})
	if err != nil {
		return vk.Failf("quad-concurrent-panic", "concurrent=%d: %v", c.Concurrent, err)
	}
	if len(cxs) != c.N {
		return vk.Failf("quad-concurrent-count", "concurrent=%d: f evaluated %d times, want n=%d", c.Concurrent, len(cxs), c.N)
	}
	for i := range sxs {
		if sxs[i] != cxs[i] {
			return vk.Failf("quad-concurrent-abscissae", "concurrent=%d: abscissae differ from the serial run at sorted position %d: %v vs %v", c.Concurrent, i, cxs[i], sxs[i])
		}
	}
	if c.Concurrent > 0 && high > int64(c.Concurrent) {
		return vk.Failf("quad-too-many-simultaneous", "concurrent=%d but %d evaluations were in flight at once", c.Concurrent, high)
	}
	// |sum_i w_i f_i| terms: weights are positive and sum to the measure W
	var fmax float64
	for _, x := range sxs {
		fmax = math.Max(fmax, math.Abs(poly(x)))
	}
	W := hi - lo
	if c.Rule == 2 {
		W = math.Sqrt(math.Pi)
	}
	tol := 4 * float64(c.N+4) * vk.Eps * fmax * W
	if math.IsNaN(cres) || math.Abs(cres-sres) > tol {
		return vk.Failf("quad-concurrent-result", "concurrent=%d n=%d: %v, serial %v (tol %g)", c.Concurrent, c.N, cres, sres, tol)
	}
	if n, ok := goroutinesSettle(base); !ok {
		return vk.Failf("quad-goroutine-leak", "%d goroutines before, %d after", base, n)
	}
	vk.Extra("schedules_visited", 1)
	return nil
}

func TestQuadConcurrent(t *testing.T) {
	vk.Run(t, "quad-concurrent", vk.Opts{Quick: 4000, Thorough: 80000}, func(t *rapid.T) quadCase {
		n := vk.Dim(t, "n", 1, 200, 2, 5, 100, 101)
		c := quadCase{
			N:     n,
			Rule:  rapid.IntRange(0, 2).Draw(t, "rule"),
			Min:   vk.F(float64(rapid.IntRange(-8, 8).Draw(t, "min")) / 2),
			Coef:  rapid.SliceOfN(rapid.IntRange(-3, 3), 1, 5).Draw(t, "coef"),
			Plan:  rapid.Uint64().Draw(t, "plan"),
			Procs: rapid.SampledFrom(procsList).Draw(t, "procs"),
		}
		c.Max = c.Min + vk.F(float64(rapid.IntRange(0, 16).Draw(t, "len"))/2)
		c.Concurrent = rapid.SampledFrom([]int{1, 2, 3, 4, 8, n, n + 3, rapid.IntRange(1, n).Draw(t, "conc")}).Draw(t, "concsel")
		return c
	}, checkQuad)
}

// ---- diff/fd -------------------------------------------------------------------------

type fdCase struct {
	Kind    int // 0 Gradient 1 Jacobian 2 Hessian 3 Laplacian 4 CrossLaplacian 5 Derivative
	Formula int
	Dim     int
	X       []int // x = X/4
	Q       []int // symmetric quadratic form coefficients (dim*dim, small ints)
	L       []int // linear coefficients
	Step    int   // step = 2^-Step
	Origin  bool
	Plan    uint64
	Procs   int
	// Dirty: the destination handed to Gradient/Jacobian/Hessian is a reused
	// one holding stale non-zero values (the concurrent paths accumulate
	// into it, the serial ones assign).
	Dirty bool
	// View > 0: the destination of Gradient/Jacobian/Hessian is a view (a
	// sub-slice, Dense.Slice, SymDense.SliceSym) with View elements of padding
	// on every side inside a parent filled with a sentinel; the parent outside
	// the view must come back untouched from the serial and from the
	// concurrent evaluation.
	View int
	// Scribble: the callback overwrites its argument after computing the
	// value (the package evaluates on private copies "in case it is modified
	// during the call"): the caller's x stays as it was and serial and
	// concurrent evaluation still agree.
	Scribble bool
}

// fdSentinel fills the parents of view destinations.
const fdSentinel = -706250.125

func fdFormula(i int) fd.Formula {
	return []fd.Formula{fd.Forward, fd.Backward, fd.Central, fd.Forward2nd, fd.Backward2nd, fd.Central2nd}[i]
}

func checkFD(c fdCase) *vk.Failure {
	vk.Sample("fd-concurrent", c)
	n := c.Dim
	x0 := make([]float64, n)
	for i := range x0 {
		x0[i] = float64(c.X[i]) / 4
	}
	if n >= 2 {
		vk.NonTrivial("fd", c.Kind, c.Formula, n, c.X, c.Q, c.L, c.Step, c.Origin, c.Procs, c.Dirty, c.View, c.Scribble)
	}
	vk.Class(fmt.Sprintf("fd-kind%d-view=%v-scribble=%v", c.Kind, c.View > 0 && c.Kind <= 2, c.Scribble && c.Kind != 5))
	// f(x) = x^T Q x + l^T x with small integer coefficients: every value on
	// the stencil is exactly representable, so serial and concurrent results
	// must agree bit for bit whatever the accumulation order.
	qf := func(v []float64) float64 {
		s := 0.0
		for i := 0; i < n; i++ {
			for j := 0; j < n; j++ {
				s += float64(c.Q[i*n+j]) * v[i] * v[j]
			}
			s += float64(c.L[i]) * v[i]
		}
		return s
	}
	step := math.Ldexp(1, -c.Step)
	formula := fdFormula(c.Formula)
	secondOrder := c.Formula >= 3
	// Gradient, Jacobian, Hessian and CrossLaplacian take a first-derivative
	// formula, Laplacian a second-derivative one (documented panics otherwise).
	if c.Kind == 3 && !secondOrder {
		formula = fdFormula(c.Formula + 3)
	}
	if c.Kind != 3 && c.Kind != 5 && secondOrder {
		formula = fdFormula(c.Formula - 3)
	}
	type out struct {
		vals    []float64
		calls   int64
		outside string // non-empty: an element outside a view destination was written
		xmod    string // non-empty: the caller's x (or y) was modified
	}
	// late counts callbacks made after the routine returned (workers that are
	// still winding down must not evaluate anything).
	var late atomic.Int64
	scribble := func(v []float64) {
		if c.Scribble {
			for i := range v {
				v[i] = float64(100 + i)
			}
		}
	}
	pad := c.View
	run := func(conc bool, y *yielder) (o out, err error) {
		var calls atomic.Int64
		var returned atomic.Bool
		x := append([]float64(nil), x0...)
		enter := func() {
			calls.Add(1)
			if returned.Load() {
				late.Add(1)
			}
			if y != nil {
				y.yield()
			}
		}
		f := func(v []float64) float64 {
			enter()
			r := qf(v)
			scribble(v)
			return r
		}
		set := &fd.Settings{Formula: formula, Step: step, Concurrent: conc}
		if c.Origin && c.Kind != 1 {
			set.OriginKnown = true
			set.OriginValue = qf(x)
		}
		r := vk.Call(func() {
			switch c.Kind {
			case 0:
				var dst, back []float64
				if pad > 0 {
					back = make([]float64, n+2*pad)
					for i := range back {
						back[i] = fdSentinel
					}
					dst = back[pad : pad+n]
				} else if c.Dirty {
					dst = make([]float64, n)
				}
				if c.Dirty {
					for i := range dst {
						dst[i] = float64(7 + i)
					}
				}
				o.vals = fd.Gradient(dst, f, x, set)
				if pad > 0 && &o.vals[0] != &dst[0] {
					o.outside = "Gradient did not return the destination it was given"
				}
				for i, v := range back {
					if (i < pad || i >= pad+n) && !vk.SameBits(v, fdSentinel) {
						o.outside = fmt.Sprintf("element %d of the backing slice (dst = [%d:%d]) changed to %v", i, pad, pad+n, v)
					}
				}
			case 1:
				m := 3
				dst := mat.NewDense(m, n, nil)
				var parent *mat.Dense
				if pad > 0 {
					parent = mat.NewDense(m+2*pad, n+2*pad, nil)
					for i := 0; i < m+2*pad; i++ {
						for j := 0; j < n+2*pad; j++ {
							parent.Set(i, j, fdSentinel)
						}
					}
					dst = parent.Slice(pad, pad+m, pad, pad+n).(*mat.Dense)
					if !c.Dirty {
						dst.Zero()
					}
				}
				if c.Dirty {
					for i := 0; i < m; i++ {
						for j := 0; j < n; j++ {
							dst.Set(i, j, float64(5+i-j))
						}
					}
				}
				js := &fd.JacobianSettings{Formula: formula, Step: step, Concurrent: conc}
				fd.Jacobian(dst, func(yv, xv []float64) {
					enter()
					for k := range yv {
						yv[k] = qf(xv) * float64(k+1)
					}
					scribble(xv)
				}, x, js)
				for i := 0; i < m; i++ {
					for j := 0; j < n; j++ {
						o.vals = append(o.vals, dst.At(i, j))
					}
				}
				if pad > 0 {
					for i := 0; i < m+2*pad; i++ {
						for j := 0; j < n+2*pad; j++ {
							inside := i >= pad && i < pad+m && j >= pad && j < pad+n
							if v := parent.At(i, j); !inside && !vk.SameBits(v, fdSentinel) {
								o.outside = fmt.Sprintf("element (%d,%d) of the %dx%d parent (dst = rows %d:%d, columns %d:%d) changed to %v", i, j, m+2*pad, n+2*pad, pad, pad+m, pad, pad+n, v)
							}
						}
					}
				}
			case 2:
				dst := mat.NewSymDense(n, nil)
				var parent *mat.SymDense
				if pad > 0 {
					parent = mat.NewSymDense(n+2*pad, nil)
					for i := 0; i < n+2*pad; i++ {
						for j := i; j < n+2*pad; j++ {
							parent.SetSym(i, j, fdSentinel)
						}
					}
					dst = parent.SliceSym(pad, pad+n).(*mat.SymDense)
					if !c.Dirty {
						dst.Zero()
					}
				}
				if c.Dirty {
					for i := 0; i < n; i++ {
						for j := i; j < n; j++ {
							dst.SetSym(i, j, float64(3+i+j))
						}
					}
				}
				fd.Hessian(dst, f, x, set)
				for i := 0; i < n; i++ {
					for j := 0; j < n; j++ {
						o.vals = append(o.vals, dst.At(i, j))
					}
				}
				if pad > 0 {
					for i := 0; i < n+2*pad; i++ {
						for j := i; j < n+2*pad; j++ {
							inside := i >= pad && i < pad+n && j >= pad && j < pad+n
							if v := parent.At(i, j); !inside && !vk.SameBits(v, fdSentinel) {
								o.outside = fmt.Sprintf("element (%d,%d) of the order-%d parent (dst = SliceSym(%d,%d)) changed to %v", i, j, n+2*pad, pad, pad+n, v)
							}
						}
					}
				}
			case 5:
				// scalar Derivative with any of the six formulas; with
				// OriginKnown the origin term is added by the calling
				// goroutine while workers add theirs
				f1 := func(t float64) float64 {
					enter()
					return float64(c.Q[0])*t*t + float64(c.L[0])*t + 3
				}
				if c.Origin {
					set.OriginValue = float64(c.Q[0])*x[0]*x[0] + float64(c.L[0])*x[0] + 3
				}
				o.vals = []float64{fd.Derivative(f1, x[0], set)}
			case 3:
				o.vals = []float64{fd.Laplacian(f, x, set)}
			case 4:
				yv := make([]float64, n)
				for i := range yv {
					yv[i] = x[(i+1)%n] + 0.5
				}
				yv0 := append([]float64(nil), yv...)
				g := func(a, b []float64) float64 {
					enter()
					r := qf(a) * (1 + b[0]) // bilinear-ish in (a, b[0])
					scribble(a)
					scribble(b)
					return r
				}
				o.vals = []float64{fd.CrossLaplacian(g, x, yv, set)}
				for i := range yv {
					if !vk.SameBits(yv[i], yv0[i]) {
						o.xmod = fmt.Sprintf("y[%d] = %v after the call, was %v", i, yv[i], yv0[i])
					}
				}
			}
		})
		returned.Store(true)
		o.calls = calls.Load()
		for i := range x {
			if !vk.SameBits(x[i], x0[i]) {
				o.xmod = fmt.Sprintf("x[%d] = %v after the call, was %v", i, x[i], x0[i])
			}
		}
		if r.Outcome != vk.Returned {
			return o, errors.New(r.Text)
		}
		return o, nil
	}
	old := runtime.GOMAXPROCS(c.Procs)
	defer runtime.GOMAXPROCS(old)
	base := runtime.NumGoroutine()
	so, err := run(false, nil)
	if err != nil {
		return vk.Failf("fd-serial-panic", "kind=%d: %v", c.Kind, err)
	}
	co, err := run(true, &yielder{plan: c.Plan})
	if err != nil {
		return vk.Failf("fd-concurrent-panic", "kind=%d: %v", c.Kind, err)
	}
	// the callback may write to its argument: it is handed a private copy
	if so.xmod != "" {
		return vk.Failf(fmt.Sprintf("fd-serial-modifies-x/kind%d", c.Kind), "kind=%d formula=%d originKnown=%v, callback overwrites its argument: serial evaluation: %s", c.Kind, c.Formula, c.Origin, so.xmod)
	}
	if co.xmod != "" {
		return vk.Failf(fmt.Sprintf("fd-concurrent-modifies-x/kind%d", c.Kind), "kind=%d formula=%d originKnown=%v, callback overwrites its argument: concurrent evaluation: %s", c.Kind, c.Formula, c.Origin, co.xmod)
	}
	// a view destination: nothing outside it is written
	if so.outside != "" {
		return vk.Failf(fmt.Sprintf("fd-serial-writes-outside-dst/kind%d", c.Kind), "kind=%d formula=%d pad=%d: serial evaluation: %s", c.Kind, c.Formula, pad, so.outside)
	}
	if co.outside != "" {
		return vk.Failf(fmt.Sprintf("fd-concurrent-writes-outside-dst/kind%d", c.Kind), "kind=%d formula=%d pad=%d GOMAXPROCS=%d: concurrent evaluation (the serial one leaves the parent alone): %s", c.Kind, c.Formula, pad, c.Procs, co.outside)
	}
	if co.calls != so.calls {
		return vk.Failf(fmt.Sprintf("fd-concurrent-evaluations/kind%d", c.Kind), "kind=%d formula=%d originKnown=%v: %d evaluations concurrently, %d serially", c.Kind, c.Formula, c.Origin, co.calls, so.calls)
	}
	if len(co.vals) != len(so.vals) {
		return vk.Failf("fd-concurrent-shape", "kind=%d", c.Kind)
	}
	for i := range so.vals {
		if !vk.SameBits(so.vals[i], co.vals[i]) && !(so.vals[i] == 0 && co.vals[i] == 0) {
			return vk.Failf(fmt.Sprintf("fd-concurrent-result/kind%d", c.Kind), "kind=%d formula=%d: element %d concurrent %v serial %v (exact data: must agree exactly)", c.Kind, c.Formula, i, co.vals[i], so.vals[i])
		}
	}
	if n, ok := goroutinesSettle(base); !ok {
		return vk.Failf("fd-goroutine-leak", "%d goroutines before, %d after", base, n)
	}
	// Workers may still be winding down when a routine returns (fd.Gradient
	// closes its quit channel on return); they must not evaluate f any more.
	if l := late.Load(); l != 0 {
		return vk.Failf("fd-call-after-return", "kind=%d: f was called %d times after the routine had returned", c.Kind, l)
	}
	vk.Extra("schedules_visited", 1)
	return nil
}

func TestFDConcurrent(t *testing.T) {
	vk.Run(t, "fd-concurrent", vk.Opts{Quick: 6000, Thorough: 120000}, func(t *rapid.T) fdCase {
		n := rapid.IntRange(1, 6).Draw(t, "dim")
		c := fdCase{
			Kind:    rapid.IntRange(0, 5).Draw(t, "kind"),
			Formula: rapid.IntRange(0, 5).Draw(t, "formula"),
			Dim:     n,
			Step:    rapid.IntRange(1, 6).Draw(t, "step"),
			Origin:  rapid.Bool().Draw(t, "origin"),
			Plan:    rapid.Uint64().Draw(t, "plan"),
			Procs:   rapid.SampledFrom(procsList).Draw(t, "procs"),
			Dirty:   rapid.Bool().Draw(t, "dirty"),
			View:    rapid.SampledFrom([]int{0, 0, 1, 2, 3}).Draw(t, "view"),
		}
		c.Scribble = rapid.IntRange(0, 2).Draw(t, "scribble") == 0
		c.X = rapid.SliceOfN(rapid.IntRange(-8, 8), n, n).Draw(t, "x")
		c.L = rapid.SliceOfN(rapid.IntRange(-3, 3), n, n).Draw(t, "l")
		c.Q = rapid.SliceOfN(rapid.IntRange(-2, 2), n*n, n*n).Draw(t, "q")
		return c
	}, checkFD)
}

// ---- diff/fd: two evaluations into disjoint blocks of one backing store ------------------

// fdBlocksCase: two Gradients / Jacobians / Hessians are written into two
// disjoint views of one sentinel-filled parent (sub-slices of one slice, two
// column blocks of one Dense, two diagonal blocks of one SymDense), one after
// the other or from two goroutines at once, with or without Concurrent. Each
// block must hold exactly what the same call gives into a fresh destination
// and everything outside the blocks must be left alone.
type fdBlocksCase struct {
	Kind       int // 0 Gradient 1 Jacobian 2 Hessian
	Formula    int // 0 Forward 1 Backward 2 Central
	N1, N2     int
	M          int // Jacobian rows
	Gap        int
	X1, X2     []int
	Q1, Q2     []int
	Step       int
	Concurrent bool
	Parallel   bool
	Plan       uint64
	Procs      int
}

func checkFDBlocks(c fdBlocksCase) *vk.Failure {
	vk.Sample("fd-disjoint-blocks", c)
	vk.Class(fmt.Sprintf("fd-blocks-kind%d-concurrent=%v-parallel=%v", c.Kind, c.Concurrent, c.Parallel))
	if c.Concurrent || c.Parallel {
		vk.NonTrivial("fd-blocks", c.Kind, c.Formula, c.N1, c.N2, c.M, c.Gap, c.X1, c.X2, c.Q1, c.Q2, c.Step, c.Concurrent, c.Parallel, c.Procs)
	}
	ns := [2]int{c.N1, c.N2}
	xs := [2][]float64{}
	for k, X := range [2][]int{c.X1, c.X2} {
		xs[k] = make([]float64, ns[k])
		for i := range xs[k] {
			xs[k][i] = float64(X[i]) / 4
		}
	}
	qs := [2][]int{c.Q1, c.Q2}
	y := &yielder{plan: c.Plan}
	// exact data as in checkFD: quadratic forms with small integer coefficients
	qf := func(k int) func(v []float64) float64 {
		return func(v []float64) float64 {
			y.yield()
			n := ns[k]
			s := 0.0
			for i := 0; i < n; i++ {
				for j := 0; j < n; j++ {
					s += float64(qs[k][i*n+j]) * v[i] * v[j]
				}
				s += float64(k+1) * v[i]
			}
			return s
		}
	}
	vf := func(k int) func(yv, xv []float64) {
		f := qf(k)
		return func(yv, xv []float64) {
			r := f(xv)
			for i := range yv {
				yv[i] = r * float64(i+1+3*k)
			}
		}
	}
	step := math.Ldexp(1, -c.Step)
	formula := fdFormula(c.Formula)
	old := runtime.GOMAXPROCS(c.Procs)
	defer runtime.GOMAXPROCS(old)
	base := runtime.NumGoroutine()

	// the two evaluations as closures writing into the destination views
	// handed to them, and a reader for each destination
	var (
		eval    [2]func(conc bool)
		read    [2]func() []float64
		fresh   [2]func() // point the evaluation at a fresh private destination
		shared  func()    // point both at views of one parent
		outside func() string
	)
	off := [2]int{c.Gap, 2*c.Gap + c.N1} // offsets of the blocks (columns / indices)
	total := 3*c.Gap + c.N1 + c.N2
	inBlock := func(i int) int {
		for k := 0; k < 2; k++ {
			if i >= off[k] && i < off[k]+ns[k] {
				return k
			}
		}
		return -1
	}
	switch c.Kind {
	case 0:
		var dst [2][]float64
		var back []float64
		for k := 0; k < 2; k++ {
			k := k
			eval[k] = func(conc bool) {
				fd.Gradient(dst[k], qf(k), xs[k], &fd.Settings{Formula: formula, Step: step, Concurrent: conc})
			}
			read[k] = func() []float64 { return append([]float64(nil), dst[k]...) }
			fresh[k] = func() { dst[k] = make([]float64, ns[k]) }
		}
		shared = func() {
			back = make([]float64, total)
			for i := range back {
				back[i] = fdSentinel
			}
			for k := 0; k < 2; k++ {
				dst[k] = back[off[k] : off[k]+ns[k]]
			}
		}
		outside = func() string {
			for i, v := range back {
				if inBlock(i) < 0 && !vk.SameBits(v, fdSentinel) {
					return fmt.Sprintf("element %d of the backing slice changed to %v", i, v)
				}
			}
			return ""
		}
	case 1:
		var dst [2]*mat.Dense
		var parent *mat.Dense
		for k := 0; k < 2; k++ {
			k := k
			eval[k] = func(conc bool) {
				fd.Jacobian(dst[k], vf(k), xs[k], &fd.JacobianSettings{Formula: formula, Step: step, Concurrent: conc})
			}
			read[k] = func() []float64 {
				var out []float64
				for i := 0; i < c.M; i++ {
					for j := 0; j < ns[k]; j++ {
						out = append(out, dst[k].At(i, j))
					}
				}
				return out
			}
			fresh[k] = func() { dst[k] = mat.NewDense(c.M, ns[k], nil) }
		}
		shared = func() {
			parent = mat.NewDense(c.M, total, nil)
			for i := 0; i < c.M; i++ {
				for j := 0; j < total; j++ {
					parent.Set(i, j, fdSentinel)
				}
			}
			for k := 0; k < 2; k++ {
				dst[k] = parent.Slice(0, c.M, off[k], off[k]+ns[k]).(*mat.Dense)
			}
		}
		outside = func() string {
			for i := 0; i < c.M; i++ {
				for j := 0; j < total; j++ {
					if v := parent.At(i, j); inBlock(j) < 0 && !vk.SameBits(v, fdSentinel) {
						return fmt.Sprintf("element (%d,%d) of the parent, outside both destinations, changed to %v", i, j, v)
					}
				}
			}
			return ""
		}
	default:
		var dst [2]*mat.SymDense
		var parent *mat.SymDense
		for k := 0; k < 2; k++ {
			k := k
			eval[k] = func(conc bool) {
				fd.Hessian(dst[k], qf(k), xs[k], &fd.Settings{Formula: formula, Step: step, Concurrent: conc})
			}
			read[k] = func() []float64 {
				var out []float64
				for i := 0; i < ns[k]; i++ {
					for j := i; j < ns[k]; j++ {
						out = append(out, dst[k].At(i, j))
					}
				}
				return out
			}
			fresh[k] = func() { dst[k] = mat.NewSymDense(ns[k], nil) }
		}
		shared = func() {
			parent = mat.NewSymDense(total, nil)
			for i := 0; i < total; i++ {
				for j := i; j < total; j++ {
					parent.SetSym(i, j, fdSentinel)
				}
			}
			for k := 0; k < 2; k++ {
				dst[k] = parent.SliceSym(off[k], off[k]+ns[k]).(*mat.SymDense)
			}
		}
		outside = func() string {
			for i := 0; i < total; i++ {
				for j := i; j < total; j++ {
					if v := parent.At(i, j); !(inBlock(i) >= 0 && inBlock(i) == inBlock(j)) && !vk.SameBits(v, fdSentinel) {
						return fmt.Sprintf("element (%d,%d) of the parent, outside both destinations, changed to %v", i, j, v)
					}
				}
			}
			return ""
		}
	}
	var want [2][]float64
	r := vk.Call(func() {
		for k := 0; k < 2; k++ {
			fresh[k]()
			eval[k](false)
			want[k] = read[k]()
		}
		shared()
		if c.Parallel {
			var wg sync.WaitGroup
			start := make(chan struct{})
			for k := 0; k < 2; k++ {
				wg.Add(1)
				go func(k int) {
					defer wg.Done()
					<-start
					eval[k](c.Concurrent)
				}(k)
			}
			close(start)
			wg.Wait()
		} else {
			eval[1](c.Concurrent)
			eval[0](c.Concurrent)
		}
	})
	if r.Outcome != vk.Returned {
		return vk.Failf("fd-blocks-panic", "kind=%d: %s", c.Kind, r.Text)
	}
	how := "one after the other (second block first)"
	if c.Parallel {
		how = "from two goroutines"
	}
	for k := 0; k < 2; k++ {
		got := read[k]()
		for i := range want[k] {
			if !vk.SameBits(got[i], want[k][i]) && !(got[i] == 0 && want[k][i] == 0) {
				return vk.Failf(fmt.Sprintf("fd-blocks-crosstalk/kind%d", c.Kind), "kind=%d concurrent=%v GOMAXPROCS=%d, two evaluations into disjoint views of one parent %s: block %d element %d = %v, the same call into a fresh destination gives %v", c.Kind, c.Concurrent, c.Procs, how, k, i, got[i], want[k][i])
			}
		}
	}
	if msg := outside(); msg != "" {
		return vk.Failf(fmt.Sprintf("fd-blocks-outside-written/kind%d", c.Kind), "kind=%d concurrent=%v GOMAXPROCS=%d, two evaluations into disjoint views of one parent %s: %s", c.Kind, c.Concurrent, c.Procs, how, msg)
	}
	if n, ok := goroutinesSettle(base); !ok {
		return vk.Failf("fd-blocks-goroutine-leak", "%d goroutines before, %d after", base, n)
	}
	vk.Extra("schedules_visited", 1)
	return nil
}

func TestFDDisjointBlocks(t *testing.T) {
	vk.Run(t, "fd-disjoint-blocks", vk.Opts{Quick: 2400, Thorough: 40000}, func(t *rapid.T) fdBlocksCase {
		c := fdBlocksCase{
			Kind:       rapid.IntRange(0, 2).Draw(t, "kind"),
			Formula:    rapid.IntRange(0, 2).Draw(t, "formula"),
			N1:         rapid.IntRange(1, 4).Draw(t, "n1"),
			N2:         rapid.IntRange(1, 4).Draw(t, "n2"),
			M:          rapid.IntRange(1, 4).Draw(t, "m"),
			Gap:        rapid.IntRange(0, 2).Draw(t, "gap"),
			Step:       rapid.IntRange(1, 6).Draw(t, "step"),
			Concurrent: rapid.Bool().Draw(t, "concurrent"),
			Parallel:   rapid.Bool().Draw(t, "parallel"),
			Plan:       rapid.Uint64().Draw(t, "plan"),
			Procs:      rapid.SampledFrom(procsList).Draw(t, "procs"),
		}
		c.X1 = rapid.SliceOfN(rapid.IntRange(-8, 8), c.N1, c.N1).Draw(t, "x1")
		c.X2 = rapid.SliceOfN(rapid.IntRange(-8, 8), c.N2, c.N2).Draw(t, "x2")
		c.Q1 = rapid.SliceOfN(rapid.IntRange(-2, 2), c.N1*c.N1, c.N1*c.N1).Draw(t, "q1")
		c.Q2 = rapid.SliceOfN(rapid.IntRange(-2, 2), c.N2*c.N2, c.N2*c.N2).Draw(t, "q2")
		return c
	}, checkFDBlocks)
}

// ---- optimize ----------------------------------------------------------------------------

type optCase struct {
	Method     int
	Dim        int
	Concurrent int
	Cause      int // 0 none (safety cap) 1 func limit 2 iteration limit 3 recorder error 4 status error 5 status terminal
	Limit      int
	Seed       uint64
	Plan       uint64
	Procs      int
}

var methodNames = []string{"GradientDescent", "BFGS", "LBFGS", "CG", "Newton", "NelderMead", "CmaEsChol", "GuessAndCheck", "ListSearch"}

type failingRecorder struct {
	after int64
	n     atomic.Int64
}

func (r *failingRecorder) Init() error { return nil }
func (r *failingRecorder) Record(*optimize.Location, optimize.Operation, *optimize.Stats) error {
	if r.n.Add(1) >= r.after {
		return errRecorder
	}
	return nil
}

var (
	errRecorder = errors.New("c09: recorder failure")
	errStatus   = errors.New("c09: status failure")
)

type optOutcome struct {
	res                         *optimize.Result
	err                         error
	funcCalls, gradCalls, hessC int64
	minF                        float64
}

func runOpt(c optCase, y *yielder) (o optOutcome, panicText string) {
	n := c.Dim
	g := vk.NewSplitMix(c.Seed)
	// SPD quadratic f = 1/2 x^T A x - b^T x, A diagonally dominant
	A := mat.NewSymDense(n, nil)
	for i := 0; i < n; i++ {
		for j := i + 1; j < n; j++ {
			A.SetSym(i, j, float64(g.Intn(5)-2)/8)
		}
		A.SetSym(i, i, 2+float64(g.Intn(8))/4)
	}
	b := make([]float64, n)
	x0 := make([]float64, n)
	for i := range b {
		b[i] = float64(g.Intn(9) - 4)
		x0[i] = float64(g.Intn(17) - 8)
	}
	var fc, gc, hc, sc atomic.Int64
	var minMu sync.Mutex
	o.minF = math.Inf(1)
	prob := optimize.Problem{
		Func: func(x []float64) float64 {
			fc.Add(1)
			if y != nil {
				y.yield()
			}
			s := 0.0
			for i := 0; i < n; i++ {
				for j := 0; j < n; j++ {
					s += 0.5 * A.At(i, j) * x[i] * x[j]
				}
				s -= b[i] * x[i]
			}
			minMu.Lock()
			if s < o.minF {
				o.minF = s
			}
			minMu.Unlock()
			return s
		},
		Grad: func(grad, x []float64) {
			gc.Add(1)
			if y != nil {
				y.yield()
			}
			for i := 0; i < n; i++ {
				s := -b[i]
				for j := 0; j < n; j++ {
					s += A.At(i, j) * x[j]
				}
				grad[i] = s
			}
		},
		Hess: func(h *mat.SymDense, x []float64) {
			hc.Add(1)
			if y != nil {
				y.yield()
			}
			for i := 0; i < n; i++ {
				for j := i; j < n; j++ {
					h.SetSym(i, j, A.At(i, j))
				}
			}
		},
	}
	settings := &optimize.Settings{Concurrent: c.Concurrent, FuncEvaluations: 4000, MajorIterations: 2000}
	switch c.Cause {
	case 1:
		settings.FuncEvaluations = c.Limit
	case 2:
		settings.MajorIterations = c.Limit
	case 3:
		settings.Recorder = &failingRecorder{after: int64(c.Limit)}
	case 4, 5:
		prob.Status = func() (optimize.Status, error) {
			if sc.Add(1) >= int64(c.Limit) {
				if c.Cause == 4 {
					return optimize.NotTerminated, errStatus
				}
				return optimize.Failure, nil
			}
			return optimize.NotTerminated, nil
		}
	}
	var method optimize.Method
	switch c.Method {
	case 0:
		method = &optimize.GradientDescent{}
	case 1:
		method = &optimize.BFGS{}
	case 2:
		method = &optimize.LBFGS{}
	case 3:
		method = &optimize.CG{}
	case 4:
		method = &optimize.Newton{}
	case 5:
		method = &optimize.NelderMead{}
	case 6:
		method = &optimize.CmaEsChol{Src: rand.NewPCG(c.Seed, 17)}
	case 7:
		sigma := mat.NewSymDense(n, nil)
		for i := 0; i < n; i++ {
			sigma.SetSym(i, i, 4)
		}
		nrm, _ := distmv.NewNormal(make([]float64, n), sigma, rand.NewPCG(c.Seed, 29))
		method = &optimize.GuessAndCheck{Rander: nrm}
	default:
		rows := 12
		locs := mat.NewDense(rows, n, nil)
		for i := 0; i < rows; i++ {
			for j := 0; j < n; j++ {
				locs.Set(i, j, float64(g.Intn(17)-8)/2)
			}
		}
		method = &optimize.ListSearch{Locs: locs}
	}
	r := vk.Call(func() { o.res, o.err = optimize.Minimize(prob, x0, settings, method) })
	o.funcCalls, o.gradCalls, o.hessC = fc.Load(), gc.Load(), hc.Load()
	if r.Outcome != vk.Returned {
		return o, r.Text
	}
	return o, ""
}

func checkOpt(c optCase) *vk.Failure {
	vk.Sample("optimize-concurrent", c)
	name := methodNames[c.Method]
	vk.Class("opt/" + name)
	if c.Concurrent >= 2 {
		vk.NonTrivial("opt", c.Method, c.Dim, c.Concurrent, c.Cause, c.Limit, c.Seed, c.Procs)
	}
	old := runtime.GOMAXPROCS(c.Procs)
	defer runtime.GOMAXPROCS(old)
	base := runtime.NumGoroutine()
	o, ptxt := runOpt(c, &yielder{plan: c.Plan})
	if ptxt != "" {
		return vk.Failf("opt-panic/"+name, "%s concurrent=%d cause=%d limit=%d: %s", name, c.Concurrent, c.Cause, c.Limit, ptxt)
	}
	if o.res == nil {
		if o.err == nil {
			return vk.Failf("opt-nil-result/"+name, "Minimize returned nil result and nil error")
		}
		// an error before the run started (e.g. Recorder/Status failing at the very first call)
		if n, ok := goroutinesSettle(base); !ok {
			return vk.Failf("opt-goroutine-leak/"+name, "%d goroutines before, %d after (early error %v)", base, n, o.err)
		}
		return nil
	}
	st := o.res.Stats
	if int64(st.FuncEvaluations) != o.funcCalls || int64(st.GradEvaluations) != o.gradCalls || int64(st.HessEvaluations) != o.hessC {
		return vk.Failf("opt-stats-mismatch/"+name, "%s concurrent=%d cause=%d limit=%d: Stats func/grad/hess = %d/%d/%d, callbacks made %d/%d/%d (status %v err %v)", name, c.Concurrent, c.Cause, c.Limit,
			st.FuncEvaluations, st.GradEvaluations, st.HessEvaluations, o.funcCalls, o.gradCalls, o.hessC, o.res.Status, o.err)
	}
	slack := int64(max(1, c.Concurrent))
	switch c.Cause {
	case 1:
		if o.funcCalls > int64(c.Limit)+slack {
			return vk.Failf("opt-func-limit-exceeded/"+name, "%s concurrent=%d: %d function evaluations for limit %d", name, c.Concurrent, o.funcCalls, c.Limit)
		}
	case 2:
		// strict without concurrency; with concurrent evaluation the results
		// already in flight may each still produce a major iteration
		// ("Minimize cannot guarantee strict adherence to the evaluation bounds
		// specified when performing concurrent evaluations and updates")
		itSlack := 0
		if c.Concurrent > 1 {
			itSlack = c.Concurrent
		}
		if st.MajorIterations > c.Limit+itSlack {
			return vk.Failf("opt-iteration-limit-exceeded/"+name, "%s: %d major iterations for limit %d", name, st.MajorIterations, c.Limit)
		}
	case 3:
		// the recorder failed at its Limit-th call: if it was called that often the error must surface
		rec := int64(0)
		_ = rec
	}
	// The search methods without a model (GuessAndCheck, ListSearch) return the
	// best of the points they evaluated; every evaluation that completed is
	// counted in Stats (asserted above), so none of them may be lost when the
	// run is stopped while evaluations are in flight.
	if (c.Method == 7 || c.Method == 8) && o.err == nil && st.MajorIterations > 0 && !vk.SameBits(o.res.F, o.minF) {
		return vk.Failf("opt-best-evaluation-lost/"+name, "%s concurrent=%d cause=%d limit=%d: Result.F = %v but the smallest of the %d values the objective returned is %v", name, c.Concurrent, c.Cause, c.Limit, o.res.F, o.funcCalls, o.minF)
	}
	if o.err != nil && !(errors.Is(o.err, errRecorder) || errors.Is(o.err, errStatus)) {
		// other errors (ErrLinesearcherFailure etc.) are legitimate outcomes on tiny limits
		vk.Class("opt-err/" + fmt.Sprintf("%T", o.err))
	}
	if n, ok := goroutinesSettle(base); !ok {
		return vk.Failf("opt-goroutine-leak/"+name, "%s concurrent=%d cause=%d: %d goroutines before, %d after", name, c.Concurrent, c.Cause, base, n)
	}
	// determinism without concurrency: identical result on a second run
	if c.Concurrent <= 1 {
		o2, p2 := runOpt(c, nil)
		if p2 != "" || o2.res == nil {
			return vk.Failf("opt-nondeterministic/"+name, "second run: panic %q, result %v", p2, o2.res)
		}
		if o2.res.Status != o.res.Status || !vk.SameBits(o2.res.F, o.res.F) || o2.res.Stats.FuncEvaluations != st.FuncEvaluations || o2.res.Stats.MajorIterations != st.MajorIterations {
			return vk.Failf("opt-nondeterministic/"+name, "%s: runs differ: F %v vs %v, status %v vs %v, evals %d vs %d", name, o.res.F, o2.res.F, o.res.Status, o2.res.Status, st.FuncEvaluations, o2.res.Stats.FuncEvaluations)
		}
		for i := range o.res.X {
			if !vk.SameBits(o.res.X[i], o2.res.X[i]) {
				return vk.Failf("opt-nondeterministic/"+name, "%s: X differs between two serial runs", name)
			}
		}
	}
	vk.Extra("schedules_visited", 1)
	return nil
}

func TestOptimizeConcurrent(t *testing.T) {
	vk.Run(t, "optimize-concurrent", vk.Opts{Quick: 1600, Thorough: 30000}, func(t *rapid.T) optCase {
		return optCase{
			Method:     rapid.IntRange(0, len(methodNames)-1).Draw(t, "method"),
			Dim:        rapid.IntRange(1, 5).Draw(t, "dim"),
			Concurrent: rapid.IntRange(0, 8).Draw(t, "concurrent"),
			Cause:      rapid.IntRange(0, 5).Draw(t, "cause"),
			Limit:      rapid.IntRange(1, 30).Draw(t, "limit"),
			Seed:       rapid.Uint64().Draw(t, "seed"),
			Plan:       rapid.Uint64().Draw(t, "plan"),
			Procs:      rapid.SampledFrom(procsList).Draw(t, "procs"),
		}
	}, checkOpt)
}

// ---- optimize: exact ties -----------------------------------------------------------------

// tieCase: ListSearch and GuessAndCheck on an objective with plateaus, so
// that several distinct locations attain the minimal value exactly. The
// evaluations are started in a fixed order (list rows; samples of the Rander)
// and every evaluation that was started is reported, so the set of evaluated
// points is a prefix of that order; the serial run over the same prefix
// returns the first of the minimal points. That location must be returned
// whatever Settings.Concurrent is and in whatever order the workers finish.
type tieCase struct {
	Method     int // 0 ListSearch 1 GuessAndCheck
	Dim        int
	Rows       int
	Mode       int // 0 floor(|x|_1/Width) 1 constant 0 2 constant +Inf 3 constant NaN (2, 3: ListSearch only)
	Width      int
	Limit      int // FuncEvaluations limit (0: none, ListSearch only)
	Concurrent int
	Slow       int // the evaluation of the Slow-th point (list row, sample) is held back (schedule perturbation only)
	Seed       uint64
	Plan       uint64
	Procs      int
}

type recRander struct {
	inner distmv.Rander
	mu    sync.Mutex
	seq   [][]float64
}

func (r *recRander) Rand(x []float64) []float64 {
	x = r.inner.Rand(x)
	r.mu.Lock()
	r.seq = append(r.seq, append([]float64(nil), x...))
	r.mu.Unlock()
	return x
}

// nth returns the n-th sample drawn so far (nil if there is none yet).
func (r *recRander) nth(n int) []float64 {
	r.mu.Lock()
	defer r.mu.Unlock()
	if n < len(r.seq) {
		return r.seq[n]
	}
	return nil
}

func sameVec(a, b []float64) bool {
	if len(a) != len(b) {
		return false
	}
	for i := range a {
		if !vk.SameBits(a[i], b[i]) {
			return false
		}
	}
	return true
}

func checkTie(c tieCase) *vk.Failure {
	vk.Sample("optimize-ties", c)
	name := []string{"ListSearch", "GuessAndCheck"}[c.Method]
	vk.Class(fmt.Sprintf("tie/%s/mode%d", name, c.Mode))
	if c.Concurrent >= 2 {
		vk.NonTrivial("tie", c.Method, c.Dim, c.Rows, c.Mode, c.Width, c.Limit, c.Concurrent, c.Slow, c.Seed, c.Procs)
	}
	n := c.Dim
	level := func(x []float64) float64 {
		switch c.Mode {
		case 1:
			return 0
		case 2:
			return math.Inf(1)
		case 3:
			return math.NaN()
		}
		s := 0.0
		for _, v := range x {
			s += math.Abs(v)
		}
		return math.Floor(s / float64(c.Width))
	}
	old := runtime.GOMAXPROCS(c.Procs)
	defer runtime.GOMAXPROCS(old)
	base := runtime.NumGoroutine()

	g := vk.NewSplitMix(c.Seed)
	var method optimize.Method
	var order func() [][]float64  // the points in the order their evaluations are started
	var nth func(k int) []float64 // the k-th of them
	if c.Method == 0 {
		locs := mat.NewDense(c.Rows, n, nil)
		for i := 0; i < c.Rows; i++ {
			for j := 0; j < n; j++ {
				locs.Set(i, j, float64(g.Intn(17)-8)/2)
			}
		}
		method = &optimize.ListSearch{Locs: locs}
		order = func() [][]float64 {
			out := make([][]float64, c.Rows)
			for i := range out {
				out[i] = mat.Row(nil, i, locs)
			}
			return out
		}
		rows := order()
		nth = func(k int) []float64 { return rows[k] }
	} else {
		sigma := mat.NewSymDense(n, nil)
		for i := 0; i < n; i++ {
			sigma.SetSym(i, i, 4)
		}
		nrm, _ := distmv.NewNormal(make([]float64, n), sigma, rand.NewPCG(c.Seed, 31))
		rr := &recRander{inner: nrm}
		method = &optimize.GuessAndCheck{Rander: rr}
		order = func() [][]float64 { return rr.seq }
		nth = rr.nth
	}
	y := &yielder{plan: c.Plan}
	var mu sync.Mutex
	var evaluated [][]float64
	var completed atomic.Int64
	prob := optimize.Problem{Func: func(x []float64) float64 {
		if c.Concurrent >= 2 && sameVec(x, nth(c.Slow)) {
			// Hold this evaluation back until one that was started later has
			// finished (bounded, in case no other worker can run): the order
			// of arrival then differs from the order of starting. This only
			// perturbs the schedule; no oracle depends on it.
			c0 := completed.Load()
			for i := 0; i < 20000 && completed.Load() == c0; i++ {
				runtime.Gosched()
			}
		}
		y.yield()
		mu.Lock()
		evaluated = append(evaluated, append([]float64(nil), x...))
		mu.Unlock()
		v := level(x)
		completed.Add(1)
		return v
	}}
	settings := &optimize.Settings{Concurrent: c.Concurrent, Converger: optimize.NeverTerminate{}, FuncEvaluations: c.Limit}
	var res *optimize.Result
	var err error
	r := vk.Call(func() { res, err = optimize.Minimize(prob, make([]float64, n), settings, method) })
	if r.Outcome != vk.Returned {
		return vk.Failf("opt-ties-panic/"+name, "%s concurrent=%d: %s", name, c.Concurrent, r.Text)
	}
	if err != nil || res == nil {
		return vk.Failf("opt-ties-error/"+name, "%s concurrent=%d: result %v, error %v", name, c.Concurrent, res, err)
	}
	if _, ok := goroutinesSettle(base); !ok {
		return vk.Failf("opt-ties-goroutine-leak/"+name, "%s concurrent=%d", name, c.Concurrent)
	}
	if res.Stats.FuncEvaluations != len(evaluated) {
		return vk.Failf("opt-ties-stats/"+name, "%s concurrent=%d: Stats.FuncEvaluations=%d, objective called %d times", name, c.Concurrent, res.Stats.FuncEvaluations, len(evaluated))
	}
	// The serial answer over the evaluated points: the first point, in the
	// order the evaluations were started, with the best value (ListSearch:
	// any value beats NaN and the first value is taken whatever it is).
	pts := order()
	wasEvaluated := func(p []float64) bool {
		for _, e := range evaluated {
			if sameVec(e, p) {
				return true
			}
		}
		return false
	}
	best := -1
	var bestF float64
	nEval := 0
	for i, p := range pts {
		if !wasEvaluated(p) {
			continue
		}
		nEval++
		f := level(p)
		if best == -1 || f < bestF || (math.IsNaN(bestF) && !math.IsNaN(f)) {
			best, bestF = i, f
		}
	}
	if best == -1 {
		return vk.Failf("opt-ties-nothing-evaluated/"+name, "%s concurrent=%d limit=%d: no point of the list/sample sequence was evaluated (%d calls)", name, c.Concurrent, c.Limit, len(evaluated))
	}
	if c.Method == 0 && c.Limit == 0 && (nEval != c.Rows || len(evaluated) != c.Rows) {
		return vk.Failf("opt-ties-list-not-exhausted/"+name, "ListSearch concurrent=%d without limits: %d of %d rows evaluated in %d calls (status %v)", c.Concurrent, nEval, c.Rows, len(evaluated), res.Status)
	}
	if !vk.SameBits(res.F, bestF) {
		return vk.Failf("opt-ties-f/"+name, "%s concurrent=%d limit=%d: Result.F = %v, best evaluated value %v", name, c.Concurrent, c.Limit, res.F, bestF)
	}
	if !sameVec(res.X, pts[best]) {
		tied := 0
		for _, p := range pts {
			if wasEvaluated(p) && (level(p) == bestF || (math.IsNaN(bestF) && math.IsNaN(level(p)))) {
				tied++
			}
		}
		return vk.Failf("opt-tie-order/"+name, "%s concurrent=%d GOMAXPROCS=%d limit=%d: %d evaluated points tie at the best value %v; Result.X = %v, but the first of them in evaluation order (what Concurrent=1 returns for the same evaluations) is point %d = %v", name, c.Concurrent, c.Procs, c.Limit, tied, bestF, res.X, best, pts[best])
	}
	vk.Extra("schedules_visited", 1)
	return nil
}

func TestOptimizeTies(t *testing.T) {
	vk.Run(t, "optimize-ties", vk.Opts{Quick: 2400, Thorough: 40000}, func(t *rapid.T) tieCase {
		c := tieCase{
			Method:     rapid.IntRange(0, 1).Draw(t, "method"),
			Dim:        rapid.IntRange(1, 3).Draw(t, "dim"),
			Rows:       rapid.IntRange(1, 12).Draw(t, "rows"),
			Width:      rapid.SampledFrom([]int{1, 2, 4}).Draw(t, "width"),
			Concurrent: rapid.IntRange(0, 8).Draw(t, "concurrent"),
			Seed:       rapid.Uint64().Draw(t, "seed"),
			Plan:       rapid.Uint64().Draw(t, "plan"),
			Procs:      rapid.SampledFrom(procsList).Draw(t, "procs"),
		}
		if c.Method == 0 {
			c.Mode = rapid.SampledFrom([]int{0, 0, 0, 1, 2, 3}).Draw(t, "mode")
			c.Limit = rapid.SampledFrom([]int{0, 0, 0, 1, 2, 3, 5, 8}).Draw(t, "limit")
			c.Slow = rapid.IntRange(0, max(0, c.Rows-2)).Draw(t, "slow")
		} else {
			c.Mode = rapid.IntRange(0, 1).Draw(t, "mode")
			c.Limit = rapid.IntRange(1, 30).Draw(t, "limit")
			c.Slow = rapid.IntRange(0, c.Limit-1).Draw(t, "slow")
		}
		return c
	}, checkTie)
}

// ---- independent use from many goroutines (shared workspace pools) -----------------------

type poolCase struct {
	K     int
	Seeds []uint64
	Ops   []int
	Procs int
}

// script runs a fixed sequence of mat/stat operations on private data and
// returns a hash of every result.
func script(seed uint64, ops []int) uint64 {
	g := vk.NewSplitMix(seed)
	h := fnv.New64a()
	put := func(m mat.Matrix) {
		r, c := m.Dims()
		for i := 0; i < r; i++ {
			for j := 0; j < c; j++ {
				fmt.Fprintf(h, "%x,", math.Float64bits(m.At(i, j)))
			}
		}
	}
	for _, op := range ops {
		n := 3 + g.Intn(12)
		a := mat.NewDense(n, n, nil)
		for i := 0; i < n; i++ {
			for j := 0; j < n; j++ {
				a.Set(i, j, g.Finite())
			}
			a.Set(i, i, a.At(i, i)+float64(2*n))
		}
		b := mat.NewDense(n, n, nil)
		for i := 0; i < n; i++ {
			for j := 0; j < n; j++ {
				b.Set(i, j, g.Finite())
			}
		}
		switch op {
		case 0: // Mul with the receiver aliasing an operand (isolated workspace from the pool)
			a.Mul(a, b)
			put(a)
		case 1:
			var x mat.Dense
			if err := x.Solve(a, b); err == nil {
				put(&x)
			}
		case 2:
			var s mat.SymDense
			s.SymOuterK(1, a)
			var ch mat.Cholesky
			if ch.Factorize(&s) {
				var x mat.Dense
				if err := ch.SolveTo(&x, b); err == nil {
					put(&x)
				}
			}
		case 3:
			var svd mat.SVD
			if svd.Factorize(a, mat.SVDThin) {
				fmt.Fprintf(h, "%v", svd.Values(nil))
			}
		case 4:
			var s mat.SymDense
			s.SymOuterK(1, b)
			var es mat.EigenSym
			if es.Factorize(&s, true) {
				fmt.Fprintf(h, "%v", es.Values(nil))
			}
		case 5:
			var cov mat.SymDense
			stat.CovarianceMatrix(&cov, a, nil)
			put(&cov)
		case 6:
			var p mat.Dense
			p.Product(a, b, a)
			put(&p)
		case 8:
			// QR of a tall matrix read element by element before Q is
			// formed: At takes a cleared scratch vector from the pool
			m := n + g.Intn(6)
			tall := mat.NewDense(m, n, nil)
			for i := 0; i < m; i++ {
				for j := 0; j < n; j++ {
					tall.Set(i, j, g.Finite())
				}
			}
			var qr mat.QR
			qr.Factorize(tall)
			put(&qr)
		case 9:
			var lu mat.LU
			lu.Factorize(a)
			det, sign := lu.LogDet()
			fmt.Fprintf(h, "%x,%v,%x,", math.Float64bits(det), sign, math.Float64bits(lu.Cond()))
		case 10:
			m := n + g.Intn(6)
			wide := mat.NewDense(n, m, nil)
			for i := 0; i < n; i++ {
				for j := 0; j < m; j++ {
					wide.Set(i, j, g.Finite())
				}
			}
			var lq mat.LQ
			lq.Factorize(wide)
			var x mat.Dense
			if err := lq.SolveTo(&x, false, b); err == nil {
				put(&x)
			}
		case 11:
			m := n + g.Intn(6)
			tall := mat.NewDense(m, n, nil)
			for i := 0; i < m; i++ {
				for j := 0; j < n; j++ {
					tall.Set(i, j, g.Finite())
				}
			}
			var qr mat.QR
			qr.Factorize(tall)
			var x mat.Dense
			if err := qr.SolveTo(&x, true, b); err == nil {
				put(&x)
			}
		case 12:
			var s mat.SymDense
			s.SymOuterK(1, a)
			var ch mat.Cholesky
			if ch.Factorize(&s) {
				fmt.Fprintf(h, "%x,%x,", math.Float64bits(ch.LogDet()), math.Float64bits(ch.Cond()))
				xv := mat.NewVecDense(n, nil)
				for i := 0; i < n; i++ {
					xv.SetVec(i, g.Finite())
				}
				ch.SymRankOne(&ch, 0.5, xv)
				var t mat.TriDense
				ch.UTo(&t)
				put(&t)
			}
		default:
			var inv mat.Dense
			if err := inv.Inverse(a); err == nil {
				put(&inv)
			}
			a.Apply(func(i, j int, v float64) float64 { return v * 2 }, a)
			put(a)
		}
	}
	return h.Sum64()
}

func checkPool(c poolCase) *vk.Failure {
	vk.Sample("pool-independence", c)
	if c.K >= 2 {
		vk.NonTrivial("pool", c.K, c.Seeds, c.Ops, c.Procs)
	}
	old := runtime.GOMAXPROCS(c.Procs)
	defer runtime.GOMAXPROCS(old)
	alone := make([]uint64, c.K)
	for i := 0; i < c.K; i++ {
		alone[i] = script(c.Seeds[i], c.Ops)
	}
	// A second serial pass in the opposite order: every script now finds the
	// workspace pools in the state other scripts left them in. This part of the
	// oracle does not depend on scheduling at all.
	for i := c.K - 1; i >= 0; i-- {
		if again := script(c.Seeds[i], c.Ops); again != alone[i] {
			return vk.Failf("pool-history-dependent", "script %v on seed %d gives a different result when it runs after other scripts on the same goroutine (state left in a shared workspace pool)", c.Ops, c.Seeds[i])
		}
	}
	together := make([]uint64, c.K)
	var wg sync.WaitGroup
	start := make(chan struct{})
	for i := 0; i < c.K; i++ {
		wg.Add(1)
		go func(i int) {
			defer wg.Done()
			<-start
			together[i] = script(c.Seeds[i], c.Ops)
		}(i)
	}
	close(start)
	wg.Wait()
	for i := range alone {
		if alone[i] != together[i] {
			return vk.Failf("pool-crosstalk", "goroutine %d of %d: results of script %v on seed %d differ when run concurrently with the others", i, c.K, c.Ops, c.Seeds[i])
		}
	}
	vk.Extra("schedules_visited", 1)
	return nil
}

func TestPoolIndependence(t *testing.T) {
	vk.Run(t, "pool-independence", vk.Opts{Quick: 600, Thorough: 12000}, func(t *rapid.T) poolCase {
		k := rapid.IntRange(2, 16).Draw(t, "k")
		return poolCase{
			K:     k,
			Seeds: rapid.SliceOfN(rapid.Uint64(), k, k).Draw(t, "seeds"),
			Ops:   rapid.SliceOfN(rapid.IntRange(0, 13), 1, 8).Draw(t, "ops"),
			Procs: rapid.SampledFrom(procsList).Draw(t, "procs"),
		}
	}, checkPool)
}
