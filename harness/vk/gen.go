package vk

import (
	"math"

	"pgregory.net/rapid"
)

// Dim draws a size in [lo,hi] from a mixture: tiny values, the listed boundary
// values and their neighbours, and the uniform range.
func Dim(t *rapid.T, label string, lo, hi int, boundaries ...int) int {
	var cand []int
	for _, b := range boundaries {
		for _, v := range []int{b - 1, b, b + 1} {
			if v >= lo && v <= hi {
				cand = append(cand, v)
			}
		}
	}
	k := rapid.IntRange(0, 99).Draw(t, label+"_mix")
	switch {
	case k < 25:
		v := rapid.IntRange(0, 3).Draw(t, label+"_tiny") + lo
		if v > hi {
			v = hi
		}
		return v
	case k < 60 && len(cand) > 0:
		return rapid.SampledFrom(cand).Draw(t, label+"_bnd")
	}
	return rapid.IntRange(lo, hi).Draw(t, label)
}

// Inc draws a non-zero increment: mostly ±1..±3, sometimes up to ±7.
func Inc(t *rapid.T, label string) int {
	m := 3
	if rapid.IntRange(0, 9).Draw(t, label+"_wide") == 0 {
		m = 7
	}
	v := rapid.IntRange(1, m).Draw(t, label+"_abs")
	if rapid.Bool().Draw(t, label+"_neg") {
		return -v
	}
	return v
}

// PosInc draws a positive increment 1..5 (1 half of the time).
func PosInc(t *rapid.T, label string) int {
	if rapid.Bool().Draw(t, label+"_unit") {
		return 1
	}
	return rapid.IntRange(1, 5).Draw(t, label)
}

// Pad draws extra leading-dimension / length padding: 0 half of the time, else 1..5.
func Pad(t *rapid.T, label string) int {
	if rapid.Bool().Draw(t, label+"_min") {
		return 0
	}
	return rapid.IntRange(1, 5).Draw(t, label)
}

// Scalar draws alpha/beta: 0, 1, -1 often, otherwise a non-trivial finite value.
func Scalar(t *rapid.T, label string) float64 {
	switch rapid.IntRange(0, 9).Draw(t, label+"_cls") {
	case 0, 1:
		return 0
	case 2, 3:
		return 1
	case 4:
		return -1
	}
	return float64(rapid.IntRange(-24, 24).Draw(t, label)) / 8
}

// FiniteGen draws moderate finite values with many exact small integers and dyadic fractions.
func FiniteGen() *rapid.Generator[float64] {
	return rapid.Custom(func(t *rapid.T) float64 {
		switch rapid.IntRange(0, 3).Draw(t, "fcls") {
		case 0:
			return float64(rapid.IntRange(-4, 4).Draw(t, "fint"))
		case 1:
			return float64(rapid.IntRange(-32, 32).Draw(t, "fdy")) / 8
		}
		return rapid.Float64Range(-10, 10).Draw(t, "f")
	})
}

// Extremes are the values of the "extreme" data class.
var Extremes = []float64{0, math.Copysign(0, -1), 5e-324, -5e-324, 2.2250738585072014e-308, 1e-300, -1e-300, 1e-150, 1e150, -1e150, 1e300, -1e300, math.MaxFloat64, -math.MaxFloat64}

// Specials are the values of the "special" data class.
var Specials = []float64{math.NaN(), math.Inf(1), math.Inf(-1)}

// Seed draws a 64-bit seed for SplitMix expansion.
func SeedGen(t *rapid.T, label string) uint64 {
	return rapid.Uint64().Draw(t, label)
}
