// Package vk is the shared kit of the verification harness: it runs generated
// checks under pgregory.net/rapid, records what was explored, writes failing
// cases as JSON replay files and handles known findings.
//
// vk itself does not import gonum, so that it can also be linked into test
// files injected into gonum's internal packages (see ../inrepo).
package vk

import (
	"encoding/json"
	"flag"
	"fmt"
	"hash/fnv"
	"os"
	"path/filepath"
	"runtime/debug"
	"sort"
	"strconv"
	"strings"
	"sync"
	"sync/atomic"
	"testing"
	"time"

	"pgregory.net/rapid"
)

// Failure describes a violated oracle. Key is a stable signature of the class of
// the failure (sub-check plus the predicate that failed), used to match the
// entries of known_findings.jsonl; Msg is the human readable detail.
type Failure struct {
	Key string `json:"key"`
	Msg string `json:"msg"`
}

func (f *Failure) Error() string { return f.Key + ": " + f.Msg }

// Failf builds a Failure.
func Failf(key, format string, args ...any) *Failure {
	return &Failure{Key: key, Msg: fmt.Sprintf(format, args...)}
}

type knownFinding struct {
	Property string `json:"property"`
	Key      string `json:"key"`
	Status   string `json:"status"` // "open" or "fixed"
	Commit   string `json:"commit,omitempty"`
	What     string `json:"what"`
}

type subStats struct {
	Requested int `json:"requested"`
	Executed  int `json:"executed"`
}

type stats struct {
	mu          sync.Mutex
	Property    string               `json:"property"`
	Config      string               `json:"config"`
	Shard       int                  `json:"shard"`
	Shards      int                  `json:"shards"`
	Tier        string               `json:"tier"`
	Seed        uint64               `json:"seed"`
	Evaluations int64                `json:"evaluations"`
	Subs        map[string]*subStats `json:"subs"`
	Classes     map[string]int64     `json:"classes"`
	Hashes      []uint64             `json:"hashes"`
	Samples     map[string][]any     `json:"samples"`
	KnownHits   map[string]int64     `json:"known_hits"`
	Inconcl     map[string]int64     `json:"inconclusive"`
	Exhaustive  map[string]int64     `json:"exhaustive_parts"`
	Extra       map[string]int64     `json:"extra"`
	hashSet     map[uint64]struct{}
}

var (
	st        = &stats{}
	known     = map[string]knownFinding{}
	tier      = "quick"
	seed      = uint64(1)
	shard     = 0
	shards    = 1
	failDir   = ""
	replay    = ""
	regress   = ""
	crumbPath = ""
	progress  atomic.Int64
	curCrumb  atomic.Pointer[crumb]
	hangAfter = 180 * time.Second
	maxHashes = 4_000_000
	scale     = 1.0
)

type crumb struct {
	sub string
	c   any
}

type caseFile struct {
	Property string          `json:"property"`
	Sub      string          `json:"sub"`
	Config   string          `json:"config,omitempty"`
	Failure  *Failure        `json:"failure,omitempty"`
	Case     json.RawMessage `json:"case"`
}

// Tier returns "quick" or "thorough".
func Tier() string { return tier }

// Quick reports whether the quick tier is running.
func Quick() bool { return tier != "thorough" }

// Pick returns q in the quick tier and th in the thorough tier.
func Pick[T any](q, th T) T {
	if Quick() {
		return q
	}
	return th
}

// Seed returns VERIF_SEED.
func Seed() uint64 { return seed }

// Shard returns this process's shard index and the number of shards.
func Shard() (int, int) { return shard, shards }

// Replaying reports whether the process is replaying a single saved case.
func Replaying() bool { return replay != "" }

// Main is called from TestMain of every property package.
func Main(m *testing.M, property string) {
	st.Property = property
	st.Subs = map[string]*subStats{}
	st.Classes = map[string]int64{}
	st.Samples = map[string][]any{}
	st.KnownHits = map[string]int64{}
	st.Inconcl = map[string]int64{}
	st.Exhaustive = map[string]int64{}
	st.Extra = map[string]int64{}
	st.hashSet = map[uint64]struct{}{}
	if v := os.Getenv("VK_TIER"); v != "" {
		tier = v
	}
	if v := os.Getenv("VK_SEED"); v != "" {
		if n, err := strconv.ParseUint(v, 10, 64); err == nil {
			seed = n
		}
	}
	if v := os.Getenv("VK_SHARD"); v != "" {
		shard, _ = strconv.Atoi(v)
	}
	if v := os.Getenv("VK_SHARDS"); v != "" {
		shards, _ = strconv.Atoi(v)
		if shards < 1 {
			shards = 1
		}
	}
	if v := os.Getenv("VK_SCALE"); v != "" {
		if f, err := strconv.ParseFloat(v, 64); err == nil && f > 0 {
			scale = f
		}
	}
	if v := os.Getenv("VK_SCALE_CFG"); v != "" {
		// per build-configuration budget factor (verif.json "env")
		if f, err := strconv.ParseFloat(v, 64); err == nil && f > 0 {
			scale *= f
		}
	}
	if v := os.Getenv("VK_HANG_S"); v != "" {
		if n, err := strconv.Atoi(v); err == nil && n > 0 {
			hangAfter = time.Duration(n) * time.Second
		}
	}
	failDir = os.Getenv("VK_FAILDIR")
	replay = os.Getenv("VK_REPLAY")
	regress = os.Getenv("VK_REGRESS")
	crumbPath = os.Getenv("VK_CRUMB")
	st.Config = os.Getenv("VK_CONFIG")
	st.Shard, st.Shards, st.Tier, st.Seed = shard, shards, tier, seed
	if p := os.Getenv("VK_KNOWN"); p != "" {
		loadKnown(p, property)
	}
	flag.Parse()
	_ = flag.Set("rapid.nofailfile", "true")
	debug.SetPanicOnFault(true)
	go watchdog()
	code := m.Run()
	writeStats()
	os.Exit(code)
}

func loadKnown(path, property string) {
	b, err := os.ReadFile(path)
	if err != nil {
		return
	}
	for _, line := range strings.Split(string(b), "\n") {
		line = strings.TrimSpace(line)
		if line == "" || strings.HasPrefix(line, "#") {
			continue
		}
		var k knownFinding
		if json.Unmarshal([]byte(line), &k) == nil && k.Property == property {
			known[k.Key] = k
		}
	}
}

func writeStats() {
	p := os.Getenv("VK_STATS")
	if p == "" {
		return
	}
	st.mu.Lock()
	defer st.mu.Unlock()
	st.Hashes = st.Hashes[:0]
	for h := range st.hashSet {
		st.Hashes = append(st.Hashes, h)
	}
	sort.Slice(st.Hashes, func(i, j int) bool { return st.Hashes[i] < st.Hashes[j] })
	b, err := json.Marshal(st)
	if err == nil {
		_ = os.WriteFile(p, b, 0o644)
	}
}

// watchdog turns a case that makes no progress for hangAfter into a hang
// report: the case is saved and the process exits with status 3. The driver
// re-executes the saved case in fresh processes before calling it a violation.
func watchdog() {
	last := progress.Load()
	lastChange := time.Now()
	for {
		time.Sleep(time.Second)
		cur := progress.Load()
		if cur != last {
			last, lastChange = cur, time.Now()
			continue
		}
		c := curCrumb.Load()
		if c == nil {
			lastChange = time.Now()
			continue
		}
		if time.Since(lastChange) > hangAfter {
			fmt.Fprintf(os.Stderr, "vk: no progress for %v in sub %s; saving case and exiting 3\n", hangAfter, c.sub)
			saveCase("hang-"+c.sub, c.sub, c.c, &Failure{Key: c.sub + "/hang", Msg: "no progress for " + hangAfter.String()})
			writeStats()
			os.Exit(3)
		}
	}
}

func saveCase(name, sub string, c any, f *Failure) string {
	if failDir == "" {
		return ""
	}
	raw, err := json.Marshal(c)
	if err != nil {
		raw, _ = json.Marshal(fmt.Sprintf("%#v", c))
	}
	cf := caseFile{Property: st.Property, Sub: sub, Config: st.Config, Failure: f, Case: raw}
	b, _ := json.MarshalIndent(cf, "", " ")
	_ = os.MkdirAll(failDir, 0o755)
	p := filepath.Join(failDir, sanitize(name)+".json")
	_ = os.WriteFile(p, b, 0o644)
	return p
}

func sanitize(s string) string {
	return strings.Map(func(r rune) rune {
		switch {
		case r >= 'a' && r <= 'z', r >= 'A' && r <= 'Z', r >= '0' && r <= '9', r == '-', r == '_', r == '.':
			return r
		}
		return '_'
	}, s)
}

func writeCrumb(sub string, c any) {
	curCrumb.Store(&crumb{sub, c})
	if crumbPath == "" {
		return
	}
	raw, err := json.Marshal(c)
	if err != nil {
		return
	}
	cf := caseFile{Property: st.Property, Sub: sub, Config: st.Config, Case: raw}
	b, _ := json.Marshal(cf)
	_ = os.WriteFile(crumbPath, b, 0o644)
}

// Opts tunes Run.
type Opts struct {
	// Quick and Thorough are the total numbers of generated cases over all
	// shards of one build configuration.
	Quick, Thorough int
	// NoCrumb disables the per-case breadcrumb file (for microsecond cases that
	// cannot crash the process).
	NoCrumb bool
}

func budget(o Opts) int {
	n := o.Quick
	if !Quick() {
		n = o.Thorough
	}
	if n <= 0 {
		n = 1000
	}
	n = int(float64(n) * scale)
	per := (n + shards - 1) / shards
	if per < 1 {
		per = 1
	}
	return per
}

func subSeed(sub string) uint64 {
	h := fnv.New64a()
	fmt.Fprintf(h, "%d/%d/%s/%s", seed, shard, sub, st.Config)
	s := h.Sum64()
	if s == 0 {
		s = 1
	}
	return s
}

// guarded runs check(c) converting an unexpected panic into a Failure.
func guarded[C any](sub string, check func(C) *Failure, c C) (f *Failure) {
	// SetPanicOnFault is per goroutine: memory faults inside library code (for
	// example an assembly kernel reading past a guard page) become panics.
	debug.SetPanicOnFault(true)
	defer func() {
		if r := recover(); r != nil {
			stack := string(debug.Stack())
			if len(stack) > 6000 {
				stack = stack[:6000]
			}
			f = &Failure{Key: sub + "/unexpected-panic", Msg: fmt.Sprintf("%v\n%s", r, stack)}
		}
	}()
	return check(c)
}

// handle processes the outcome of one case: nil, known (open) finding, or a
// violation. It returns the failure to report, or nil.
func handle(sub string, c any, f *Failure) *Failure {
	if f == nil {
		return nil
	}
	if !strings.HasPrefix(f.Key, sub) {
		f.Key = sub + "/" + f.Key
	}
	if k, ok := known[f.Key]; ok && k.Status == "open" {
		st.mu.Lock()
		st.KnownHits[f.Key]++
		st.mu.Unlock()
		return nil
	}
	return f
}

// runSaved executes the regression / replay cases that belong to sub.
func runSaved[C any](t *testing.T, sub string, check func(C) *Failure) (replayed bool) {
	var files []string
	if replay != "" {
		files = []string{replay}
	} else if regress != "" && shard == 0 {
		files, _ = filepath.Glob(filepath.Join(regress, "*.json"))
		sort.Strings(files)
	}
	for _, p := range files {
		b, err := os.ReadFile(p)
		if err != nil {
			continue
		}
		var cf caseFile
		if json.Unmarshal(b, &cf) != nil || cf.Sub != sub {
			continue
		}
		var c C
		if err := json.Unmarshal(cf.Case, &c); err != nil {
			t.Errorf("vk: cannot decode case %s: %v", p, err)
			continue
		}
		replayed = true
		writeCrumb(sub, c)
		f := guarded(sub, check, c)
		progress.Add(1)
		if f != nil && !strings.HasPrefix(f.Key, sub) {
			f.Key = sub + "/" + f.Key
		}
		switch {
		case f == nil:
			fmt.Printf("VK-SAVED-PASS sub=%s file=%s\n", sub, p)
		case known[f.Key].Status == "open":
			fmt.Printf("VK-KNOWN-FINDING key=%s what=%s\n", f.Key, oneLine(known[f.Key].What))
		default:
			out := saveCase(sub+"-saved-"+filepath.Base(p), sub, c, f)
			fmt.Printf("VK-VIOLATION sub=%s key=%s file=%s\n%s\n", sub, f.Key, out, f.Msg)
			t.Errorf("saved case %s fails: %v", p, f)
		}
	}
	return replay != ""
}

func oneLine(s string) string { return strings.Join(strings.Fields(s), " ") }

func beginSub(sub string, requested int) *subStats {
	st.mu.Lock()
	defer st.mu.Unlock()
	ss := st.Subs[sub]
	if ss == nil {
		ss = &subStats{}
		st.Subs[sub] = ss
	}
	ss.Requested += requested
	return ss
}

// Run draws cases with rapid and applies check to each. check must be a pure
// function of the case. A failure is shrunk by rapid; the minimal case is
// written as a JSON replay file.
func Run[C any](t *testing.T, sub string, o Opts, draw func(*rapid.T) C, check func(C) *Failure) {
	t.Helper()
	if runSaved(t, sub, check) {
		return
	}
	if replay != "" {
		return
	}
	if t.Failed() {
		return // an earlier sub-check of this test function already failed
	}
	n := budget(o)
	ss := beginSub(sub, n)
	_ = flag.Set("rapid.checks", strconv.Itoa(n))
	_ = flag.Set("rapid.seed", strconv.FormatUint(subSeed(sub), 10))
	var executed int
	defer func() {
		curCrumb.Store(nil)
		st.mu.Lock()
		ss.Executed += executed
		st.Evaluations += int64(executed)
		st.mu.Unlock()
	}()
	rapid.Check(t, func(rt *rapid.T) {
		c := draw(rt)
		if !o.NoCrumb {
			writeCrumb(sub, c)
		} else {
			curCrumb.Store(&crumb{sub, c})
		}
		f := handle(sub, c, guarded(sub, check, c))
		progress.Add(1)
		executed++
		if f != nil {
			out := saveCase(sub, sub, c, f)
			rt.Fatalf("VK-VIOLATION sub=%s key=%s file=%s\n%s", sub, f.Key, out, f.Msg)
		}
	})
}

// Enumerate applies check to cases 0..n-1 produced by gen (exhaustive part of a
// check). Work is split over shards by index. The first failing case stops the
// enumeration.
func Enumerate[C any](t *testing.T, sub string, n int, gen func(i int) C, check func(C) *Failure) {
	t.Helper()
	if runSaved(t, sub, check) {
		return
	}
	if replay != "" {
		return
	}
	if t.Failed() {
		return
	}
	ss := beginSub(sub, 0)
	executed := 0
	for i := shard; i < n; i += shards {
		c := gen(i)
		curCrumb.Store(&crumb{sub, c})
		f := handle(sub, c, guarded(sub, check, c))
		progress.Add(1)
		executed++
		if f != nil {
			out := saveCase(sub, sub, c, f)
			fmt.Printf("VK-VIOLATION sub=%s key=%s file=%s\n%s\n", sub, f.Key, out, f.Msg)
			t.Errorf("enumerated case %d fails: %v", i, f)
			break
		}
	}
	curCrumb.Store(nil)
	st.mu.Lock()
	ss.Requested += executed
	ss.Executed += executed
	st.Evaluations += int64(executed)
	st.Exhaustive[sub] += int64(executed)
	st.mu.Unlock()
}

// Class counts a label in the class histogram of the evidence file.
func Class(label string) {
	st.mu.Lock()
	st.Classes[label]++
	st.mu.Unlock()
}

// Extra adds n to a named counter.
func Extra(name string, n int64) {
	st.mu.Lock()
	st.Extra[name] += n
	st.mu.Unlock()
}

// Inconclusive counts a case that could not be decided (documented numerical
// give-ups and the like).
func Inconclusive(reason string) {
	st.mu.Lock()
	st.Inconcl[reason]++
	st.mu.Unlock()
}

// NonTrivial records the identity of a case that is non-trivial by the
// property's rule. parts are hashed; equal parts count once.
func NonTrivial(parts ...any) {
	h := fnv.New64a()
	for _, p := range parts {
		fmt.Fprintf(h, "%v|", p)
	}
	v := h.Sum64()
	st.mu.Lock()
	if len(st.hashSet) < maxHashes {
		st.hashSet[v] = struct{}{}
	}
	st.mu.Unlock()
}

// Sample keeps a few actual cases per sub-check for the evidence file.
func Sample(sub string, c any) {
	st.mu.Lock()
	if len(st.Samples[sub]) < 2 {
		b, err := json.Marshal(c)
		if err == nil && len(b) < 2000 {
			var v any
			if json.Unmarshal(b, &v) == nil {
				st.Samples[sub] = append(st.Samples[sub], v)
			}
		}
	}
	st.mu.Unlock()
}

// Progress tells the hang watchdog that a long case is still advancing.
func Progress() { progress.Add(1) }
