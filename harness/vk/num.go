package vk

import (
	"encoding/json"
	"math"
	"strconv"
)

const (
	// Eps is the unit roundoff of float64 (2^-53).
	Eps = 1.0 / (1 << 53)
	// Eps32 is the unit roundoff of float32 (2^-24).
	Eps32 = 1.0 / (1 << 24)
)

// F is a float64 that survives JSON (NaN, ±Inf and -0 included).
type F float64

func (f F) MarshalJSON() ([]byte, error) {
	v := float64(f)
	switch {
	case math.IsNaN(v):
		return []byte(`"NaN"`), nil
	case math.IsInf(v, 1):
		return []byte(`"+Inf"`), nil
	case math.IsInf(v, -1):
		return []byte(`"-Inf"`), nil
	case v == 0 && math.Signbit(v):
		return []byte(`"-0"`), nil
	}
	return []byte(strconv.FormatFloat(v, 'g', -1, 64)), nil
}

func (f *F) UnmarshalJSON(b []byte) error {
	var s string
	if len(b) > 0 && b[0] == '"' {
		if err := json.Unmarshal(b, &s); err != nil {
			return err
		}
	} else {
		s = string(b)
	}
	v, err := strconv.ParseFloat(s, 64)
	if err != nil {
		return err
	}
	*f = F(v)
	return nil
}

// Fs converts []F to []float64.
func Fs(x []F) []float64 {
	out := make([]float64, len(x))
	for i, v := range x {
		out[i] = float64(v)
	}
	return out
}

// ToF converts []float64 to []F.
func ToF(x []float64) []F {
	out := make([]F, len(x))
	for i, v := range x {
		out[i] = F(v)
	}
	return out
}

// DD is a double-double accumulator: Hi+Lo carries about 106 bits.
type DD struct{ Hi, Lo float64 }

func twoSum(a, b float64) (s, e float64) {
	s = a + b
	bb := s - a
	e = (a - (s - bb)) + (b - bb)
	return
}

func twoProd(a, b float64) (p, e float64) {
	p = a * b
	e = math.FMA(a, b, -p)
	return
}

// Add adds x to the accumulator.
func (d *DD) Add(x float64) {
	s, e := twoSum(d.Hi, x)
	e += d.Lo
	d.Hi, d.Lo = twoSum(s, e)
}

// AddProd adds a*b (exactly) to the accumulator.
func (d *DD) AddProd(a, b float64) {
	p, pe := twoProd(a, b)
	s, e := twoSum(d.Hi, p)
	e += d.Lo + pe
	d.Hi, d.Lo = twoSum(s, e)
}

// Float returns the rounded value.
func (d DD) Float() float64 { return d.Hi + d.Lo }

// SumBound is the acceptance bound for a sum of k products evaluated in
// precision u whose terms have absolute sum S: 2(k+4)uS. A rigorous bound for
// any summation order is gamma_k*S with gamma_k = ku/(1-ku); the factor two
// absorbs the alpha/beta combination and the error of the reference itself.
func SumBound(k int, u, S float64) float64 {
	return 2 * float64(k+4) * u * S
}

// Close reports |got-want| <= tol, treating equal infinities and NaN==NaN as close.
func Close(got, want, tol float64) bool {
	if got == want {
		return true
	}
	if math.IsNaN(got) || math.IsNaN(want) {
		return math.IsNaN(got) && math.IsNaN(want)
	}
	return math.Abs(got-want) <= tol
}

// SameBits reports whether a and b have identical bit patterns, except that any
// NaN equals any NaN.
func SameBits(a, b float64) bool {
	if math.IsNaN(a) && math.IsNaN(b) {
		return true
	}
	return math.Float64bits(a) == math.Float64bits(b)
}

// SameBits32 is SameBits for float32.
func SameBits32(a, b float32) bool {
	if a != a && b != b {
		return true
	}
	return math.Float32bits(a) == math.Float32bits(b)
}

// Ulps returns the distance between a and b in units in the last place
// (MaxInt64 when signs differ or either is NaN).
func Ulps(a, b float64) int64 {
	if a == b {
		return 0
	}
	if math.IsNaN(a) || math.IsNaN(b) || math.Signbit(a) != math.Signbit(b) {
		if a == 0 || b == 0 {
			// distance across zero
			x := int64(math.Float64bits(math.Abs(a))) + int64(math.Float64bits(math.Abs(b)))
			return x
		}
		return math.MaxInt64
	}
	x, y := int64(math.Float64bits(math.Abs(a))), int64(math.Float64bits(math.Abs(b)))
	if x > y {
		return x - y
	}
	return y - x
}

// SplitMix is a tiny deterministic generator used to expand a drawn seed into
// bulk data (matrix entries). All randomness still originates from rapid draws:
// the seed is part of the case and the expansion is a pure function of it.
type SplitMix struct{ s uint64 }

// NewSplitMix returns a generator for the given seed.
func NewSplitMix(seed uint64) *SplitMix { return &SplitMix{s: seed} }

// Uint64 returns the next value.
func (r *SplitMix) Uint64() uint64 {
	r.s += 0x9e3779b97f4a7c15
	z := r.s
	z = (z ^ (z >> 30)) * 0xbf58476d1ce4e5b9
	z = (z ^ (z >> 27)) * 0x94d049bb133111eb
	return z ^ (z >> 31)
}

// Intn returns a value in [0,n).
func (r *SplitMix) Intn(n int) int { return int(r.Uint64() % uint64(n)) }

// Float returns a value in [0,1).
func (r *SplitMix) Float() float64 { return float64(r.Uint64()>>11) / (1 << 53) }

// Norm returns a standard normal variate (Box-Muller).
func (r *SplitMix) Norm() float64 {
	u := r.Float()
	for u == 0 {
		u = r.Float()
	}
	v := r.Float()
	return math.Sqrt(-2*math.Log(u)) * math.Cos(2*math.Pi*v)
}

// Finite returns a "finite" class value: a mix of small integers, dyadic
// fractions and moderate Gaussian values, so that ties and exact cancellations
// occur.
func (r *SplitMix) Finite() float64 {
	switch r.Intn(4) {
	case 0:
		return float64(r.Intn(9) - 4)
	case 1:
		return float64(r.Intn(33)-16) / 8
	default:
		return r.Norm()
	}
}

// FillFinite fills x with Finite values.
func (r *SplitMix) FillFinite(x []float64) {
	for i := range x {
		x[i] = r.Finite()
	}
}

// Perm returns a permutation of 0..n-1.
func (r *SplitMix) Perm(n int) []int {
	p := make([]int, n)
	for i := range p {
		p[i] = i
	}
	for i := n - 1; i > 0; i-- {
		j := r.Intn(i + 1)
		p[i], p[j] = p[j], p[i]
	}
	return p
}
