package vk

import (
	"fmt"
	"os"
	"path/filepath"
	"sort"
	"testing"
)

// BytesCase is the case type of byte-level (decoder totality) checks, so that
// the same check function serves rapid-driven structured corruption
// (vk.Run), native coverage-guided fuzzing (vk.Fuzz) and JSON replay.
type BytesCase struct {
	Data []byte // encoding/json renders this as base64
}

// Fuzz wires a native fuzz target to a check over BytesCase. Seed inputs are
// every file in /verif/corpus/<property>/<sub>/ (raw bytes) plus the seeds
// passed in. A failing input is saved as a JSON replay case like any other
// failure, so `./check <ID> --replay` re-executes it through check without the
// fuzzing engine.
func Fuzz(f *testing.F, sub string, seeds [][]byte, check func(BytesCase) *Failure) {
	for _, s := range seeds {
		f.Add(s)
	}
	dir := os.Getenv("VK_CORPUS")
	if dir == "" {
		dir = filepath.Join("/verif/corpus", st.Property)
	}
	files, _ := filepath.Glob(filepath.Join(dir, sub, "*"))
	sort.Strings(files)
	for _, p := range files {
		if b, err := os.ReadFile(p); err == nil {
			f.Add(b)
		}
	}
	f.Fuzz(func(t *testing.T, data []byte) {
		c := BytesCase{Data: append([]byte(nil), data...)}
		curCrumb.Store(&crumb{sub, c})
		fl := handle(sub, c, guarded(sub, check, c))
		progress.Add(1)
		st.mu.Lock()
		st.Evaluations++
		st.mu.Unlock()
		if fl != nil {
			out := saveCase(sub+"-fuzz", sub, c, fl)
			t.Fatalf("VK-VIOLATION sub=%s key=%s file=%s\n%s", sub, fl.Key, out, fl.Msg)
		}
	})
}

var _ = fmt.Sprint
