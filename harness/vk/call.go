package vk

import (
	"fmt"
	"runtime"
	"runtime/debug"
)

// Outcome classifies how a call ended.
type Outcome int

const (
	Returned     Outcome = iota // the call returned normally
	PackagePanic                // panic with a value created by the library (string, error, mat.Error, ...)
	RuntimeFault                // panic with a runtime.Error: index out of range, nil dereference, memory fault ...
)

func (o Outcome) String() string {
	switch o {
	case Returned:
		return "returned"
	case PackagePanic:
		return "package-panic"
	default:
		return "runtime-fault"
	}
}

// Result is the outcome of Call.
type Result struct {
	Outcome Outcome
	Value   any    // recovered value
	Text    string // fmt.Sprint(Value)
}

// Call runs f and classifies the outcome. A panic whose value implements
// runtime.Error (index out of range, nil pointer dereference, slice bounds,
// integer divide by zero, recovered memory fault) is a RuntimeFault; every
// other panic value is taken to be a deliberate library panic.
func Call(f func()) (res Result) {
	debug.SetPanicOnFault(true)
	defer func() {
		if r := recover(); r != nil {
			res.Value = r
			res.Text = fmt.Sprint(r)
			if _, ok := r.(runtime.Error); ok {
				res.Outcome = RuntimeFault
			} else {
				res.Outcome = PackagePanic
			}
		}
	}()
	f()
	return Result{Outcome: Returned}
}

// MustReturn returns a Failure unless f returns normally.
func MustReturn(key string, f func()) *Failure {
	r := Call(f)
	if r.Outcome != Returned {
		return Failf(key, "call on valid arguments ended in %v: %s", r.Outcome, r.Text)
	}
	return nil
}

// MustPanic returns a Failure unless f ends in a package panic.
func MustPanic(key string, f func()) *Failure {
	r := Call(f)
	switch r.Outcome {
	case Returned:
		return Failf(key, "call on invalid arguments returned instead of panicking")
	case RuntimeFault:
		return Failf(key, "call on invalid arguments ended in a runtime fault instead of a package panic: %s", r.Text)
	}
	return nil
}
