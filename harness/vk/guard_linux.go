package vk

import (
	"syscall"
)

const pageSize = 4096

// GuardedBytes returns n bytes of memory that end exactly at (atEnd) or start
// exactly at (!atEnd) an inaccessible page, so that an access one byte beyond
// that end of the slice faults. With debug.SetPanicOnFault(true) (set by
// vk.Main) the fault is delivered as a runtime.Error panic. free unmaps the
// region.
func GuardedBytes(n int, atEnd bool) (data []byte, free func()) {
	if n <= 0 {
		return nil, func() {}
	}
	pages := (n + pageSize - 1) / pageSize
	total := (pages + 2) * pageSize
	mem, err := syscall.Mmap(-1, 0, total, syscall.PROT_READ|syscall.PROT_WRITE, syscall.MAP_ANON|syscall.MAP_PRIVATE)
	if err != nil {
		panic("vk: mmap failed: " + err.Error())
	}
	if err := syscall.Mprotect(mem[:pageSize], syscall.PROT_NONE); err != nil {
		panic("vk: mprotect failed: " + err.Error())
	}
	if err := syscall.Mprotect(mem[total-pageSize:], syscall.PROT_NONE); err != nil {
		panic("vk: mprotect failed: " + err.Error())
	}
	if atEnd {
		end := total - pageSize
		data = mem[end-n : end : end]
	} else {
		data = mem[pageSize : pageSize+n : pageSize+n]
	}
	return data, func() { _ = syscall.Munmap(mem) }
}
