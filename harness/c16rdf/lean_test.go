package c16rdf

// rdf.Lean: "returns an RDF core of g that entails g". For label-free datasets
// small enough for exhaustive search over blank-node mappings the result L must
//   - be equivalent to g: there is a map of the blank nodes of g to terms of L
//     that sends every statement of g into L, and one of L into g;
//   - be lean: no map of the blank nodes of L to terms of L sends L into a
//     proper subset of itself;
//   - not depend on blank labels or statement order: cores are unique up to
//     isomorphism, so the (already checked) URDNA2015 form of Lean(g) and of
//     Lean(relabelled, reordered g) must be identical.

import (
	"fmt"
	"sort"
	"strings"
	"testing"

	"gonum.org/v1/gonum/graph/formats/rdf"
	"pgregory.net/rapid"

	"verifharness/vk"
)

type triple struct{ s, p, o string }

func triples(st []*rdf.Statement) []triple {
	seen := map[triple]bool{}
	var out []triple
	for _, s := range st {
		t := triple{s.Subject.Value, s.Predicate.Value, s.Object.Value}
		if !seen[t] {
			seen[t] = true
			out = append(out, t)
		}
	}
	return out
}

func isBlankValue(v string) bool { return strings.HasPrefix(v, "_:") }

// homomorphism searches for a map mu of the blank nodes of src to the subject
// and object terms of dst with mu(src) a subset of dst; when proper is set the
// image must additionally miss at least one statement of dst (src and dst are
// then the same graph). It reports whether one exists.
func homomorphism(src, dst []triple, proper bool) bool {
	in := map[triple]bool{}
	termSet := map[string]bool{}
	for _, t := range dst {
		in[t] = true
		termSet[t.s] = true
		termSet[t.o] = true
	}
	var terms []string
	for t := range termSet {
		terms = append(terms, t)
	}
	sort.Strings(terms)
	blankSet := map[string]bool{}
	var blanks []string
	for _, t := range src {
		for _, v := range []string{t.s, t.o} {
			if isBlankValue(v) && !blankSet[v] {
				blankSet[v] = true
				blanks = append(blanks, v)
			}
		}
	}
	mu := map[string]string{}
	img := func(v string) (string, bool) {
		if !isBlankValue(v) {
			return v, true
		}
		m, ok := mu[v]
		return m, ok
	}
	consistent := func() bool {
		for _, t := range src {
			s, ok1 := img(t.s)
			o, ok2 := img(t.o)
			if ok1 && ok2 && !in[triple{s, t.p, o}] {
				return false
			}
		}
		return true
	}
	var rec func(k int) bool
	rec = func(k int) bool {
		if k == len(blanks) {
			if !proper {
				return true
			}
			hit := map[triple]bool{}
			for _, t := range src {
				s, _ := img(t.s)
				o, _ := img(t.o)
				hit[triple{s, t.p, o}] = true
			}
			return len(hit) < len(dst)
		}
		for _, t := range terms {
			mu[blanks[k]] = t
			if consistent() && rec(k+1) {
				return true
			}
		}
		delete(mu, blanks[k])
		return false
	}
	return rec(0)
}

func checkLean(c rdfCase) *vk.Failure {
	qs := dedupQuads(c.Quads)
	if len(qs) == 0 {
		return nil
	}
	for _, q := range qs {
		if q.G.K != 3 {
			return nil // Lean is documented for label-free datasets only
		}
	}
	order := c.Order
	if len(order) != len(qs) {
		order = nil
	}
	g := build(qs, "b", nil, nil)
	gt := triples(g)
	var l []*rdf.Statement
	var err error
	if r := vk.Call(func() { l, err = rdf.Lean(build(qs, "b", nil, nil)) }); r.Outcome != vk.Returned {
		return vk.Failf("lean-panics", "rdf.Lean panics on %v: %v", qs, r.Text)
	}
	if err != nil {
		return vk.Failf("lean-error", "rdf.Lean returns an error for a dataset without graph labels: %v", err)
	}
	lt := triples(l)
	vk.Class(fmt.Sprintf("lean removed=%v", len(lt) < len(gt)))
	if len(lt) < len(gt) {
		vk.NonTrivial("lean", fmt.Sprint(qs), c.Relabel, c.Order)
	}
	if len(lt) > len(gt) {
		return vk.Failf("lean-grows", "rdf.Lean returned %d distinct statements for %d", len(lt), len(gt))
	}
	if !homomorphism(gt, lt, false) {
		return vk.Failf("lean-does-not-entail", "rdf.Lean(g) does not entail g: no blank-node map sends g into the result\ng: %v\nresult: %v", gt, lt)
	}
	if !homomorphism(lt, gt, false) {
		return vk.Failf("lean-not-entailed", "g does not entail rdf.Lean(g): no blank-node map sends the result into g\ng: %v\nresult: %v", gt, lt)
	}
	if homomorphism(lt, lt, true) {
		return vk.Failf("lean-not-lean", "rdf.Lean(g) is not lean: a blank-node map sends it into a proper subset of itself\ng: %v\nresult: %v", gt, lt)
	}
	// label and order invariance of the core
	var l2 []*rdf.Statement
	if r := vk.Call(func() { l2, err = rdf.Lean(build(qs, "x", c.Relabel, order)) }); r.Outcome != vk.Returned {
		return vk.Failf("lean-panics", "rdf.Lean panics on the relabelled copy of %v: %v", qs, r.Text)
	}
	if err != nil {
		return vk.Failf("lean-error", "rdf.Lean returns an error for a dataset without graph labels: %v", err)
	}
	if len(triples(l2)) != len(lt) {
		return vk.Failf("lean-label-dependent-size", "rdf.Lean keeps %d statements of g and %d of its relabelled, reordered copy\ng: %v", len(lt), len(triples(l2)), gt)
	}
	c1, err1 := rdf.URDNA2015(nil, rdf.Deduplicate(append([]*rdf.Statement(nil), l...)))
	c2, err2 := rdf.URDNA2015(nil, rdf.Deduplicate(append([]*rdf.Statement(nil), l2...)))
	if err1 != nil || err2 != nil {
		return vk.Failf("lean-c14n-error", "%v %v", err1, err2)
	}
	if !eqStrings(sortedStrings(c1), sortedStrings(c2)) {
		return vk.Failf("lean-label-dependent", "the cores of g and of its relabelled, reordered copy are not isomorphic\n%v\nvs\n%v", sortedStrings(c1), sortedStrings(c2))
	}
	return nil
}

// drawLean draws label-free datasets with redundancy: a few blank nodes, very
// few predicates and IRIs, so that blank nodes whose statements are subsumed
// by those of another term are common.
func drawLean(t *rapid.T) rdfCase { return drawLeanSized(t, 4, 8) }

// drawLeanLarge draws datasets in which the search has to go through several
// rounds of reduction (a mapping is found, applied, and the reduced graph is
// searched again).
func drawLeanLarge(t *rapid.T) rdfCase { return drawLeanSized(t, 6, 14) }

func drawLeanSized(t *rapid.T, maxBlank, maxN int) rdfCase {
	var c rdfCase
	nb := rapid.IntRange(1, maxBlank).Draw(t, "nblank")
	ni := rapid.IntRange(1, 3).Draw(t, "niri")
	np := rapid.IntRange(1, 2).Draw(t, "npred")
	n := rapid.IntRange(1, maxN).Draw(t, "n")
	term := func(l string, subject bool) tref {
		k := rapid.IntRange(0, 9).Draw(t, l)
		switch {
		case k < 6:
			return tref{0, rapid.IntRange(0, nb-1).Draw(t, l+"b")}
		case k < 9 || subject:
			return tref{1, rapid.IntRange(0, ni-1).Draw(t, l+"i")}
		}
		return tref{2, rapid.IntRange(0, 1).Draw(t, l+"l") * 3}
	}
	for i := 0; i < n; i++ {
		c.Quads = append(c.Quads, quad{term("s", true), tref{1, 10 + rapid.IntRange(0, np-1).Draw(t, "p")}, term("o", false), tref{3, 0}})
	}
	c.Quads = dedupQuads(c.Quads)
	c.Relabel = rapid.Permutation([]int{0, 1, 2, 3, 4, 5}).Draw(t, "relabel")
	idx := make([]int, len(c.Quads))
	for i := range idx {
		idx[i] = i
	}
	c.Order = rapid.Permutation(idx).Draw(t, "order")
	return c
}

func TestRDFLean(t *testing.T) {
	vk.Run(t, "rdf-lean", vk.Opts{Quick: 8000, Thorough: 150000}, drawLean, checkLean)
}

func TestRDFLeanLarge(t *testing.T) {
	vk.Run(t, "rdf-lean-large", vk.Opts{Quick: 4000, Thorough: 80000}, drawLeanLarge, checkLean)
}
