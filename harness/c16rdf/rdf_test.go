// Package c16rdf checks the RDF canonicalization part of property C16: RDF
// canonicalization and isomorphism hashing give identical output for datasets
// that differ only in blank-node labels and statement order, and different
// output for non-isomorphic ones.
package c16rdf

import (
	"crypto/md5"
	"crypto/sha1"
	"crypto/sha256"
	"fmt"
	"hash"
	"sort"
	"strings"
	"testing"

	"gonum.org/v1/gonum/graph/formats/rdf"
	"pgregory.net/rapid"
	"verifharness/vk"
)

func TestMain(m *testing.M) { vk.Main(m, "C16") }

// A term reference: kind 0 blank (index into blank names), 1 IRI, 2 literal, 3 none (label only).
type tref struct{ K, I int }

type quad struct{ S, P, O, G tref }

type rdfCase struct {
	Quads []quad
	// Relabel[i] is the new index of blank i in the relabelled copy; Order is
	// the permutation of statements in the copy.
	Relabel []int
	Order   []int
	// Edit: one mutation applied to obtain a (usually non-isomorphic) variant:
	// kind 0 none, 1 retarget an object/subject blank, 2 change predicate, 3 drop a statement.
	EditKind, EditAt, EditTo int
	Hash                     int // 0 sha1 1 sha256 2 md5
	Decomp                   bool
	Labels                   bool // whether graph labels are used
	// EscIRI: IRIs with an odd index hold UCHAR escapes of characters that an
	// IRIREF cannot contain literally (space, '{'), in the form ParseNQuad
	// delivers them; the canonical output must still be parseable N-Quads.
	EscIRI bool `json:",omitempty"`
}

// escIRI is rdfCase.EscIRI of the case being checked (set on entry of checkRDF).
var escIRI bool

const nBlank = 6

func blankName(prefix string, i int) string { return fmt.Sprintf("%s%d", prefix, i) }

func term(t tref, prefix string, relabel []int) (rdf.Term, bool) {
	switch t.K {
	case 0:
		i := t.I
		if relabel != nil {
			i = relabel[i]
		}
		tm, err := rdf.NewBlankTerm(blankName(prefix, i))
		if err != nil {
			panic(err)
		}
		return tm, true
	case 1:
		if escIRI && t.I%2 == 1 {
			return rdf.Term{Value: fmt.Sprintf(`<http://example.org/r\u0020%d\u007B>`, t.I)}, true
		}
		tm, err := rdf.NewIRITerm(fmt.Sprintf("http://example.org/r%d", t.I))
		if err != nil {
			panic(err)
		}
		return tm, true
	case 2:
		qual := []string{"", "@en", "http://www.w3.org/2001/XMLSchema#string"}[t.I%3]
		tm, err := rdf.NewLiteralTerm(fmt.Sprintf("lit %d \"q\"", t.I/3), qual)
		if err != nil {
			panic(err)
		}
		return tm, true
	}
	return rdf.Term{}, false
}

func build(qs []quad, prefix string, relabel, order []int) []*rdf.Statement {
	out := make([]*rdf.Statement, 0, len(qs))
	idx := make([]int, len(qs))
	for i := range idx {
		idx[i] = i
	}
	if order != nil {
		idx = order
	}
	for _, i := range idx {
		q := qs[i]
		s := &rdf.Statement{}
		s.Subject, _ = term(q.S, prefix, relabel)
		s.Predicate, _ = term(q.P, prefix, relabel)
		s.Object, _ = term(q.O, prefix, relabel)
		if lt, ok := term(q.G, prefix, relabel); ok {
			s.Label = lt
		}
		out = append(out, s)
	}
	return out
}

func dedupQuads(qs []quad) []quad {
	seen := map[quad]bool{}
	var out []quad
	for _, q := range qs {
		if !seen[q] {
			seen[q] = true
			out = append(out, q)
		}
	}
	return out
}

func sortedStrings(st []*rdf.Statement) []string {
	out := make([]string, len(st))
	for i, s := range st {
		out[i] = s.String()
	}
	sort.Strings(out)
	return out
}

func eqStrings(a, b []string) bool {
	if len(a) != len(b) {
		return false
	}
	for i := range a {
		if a[i] != b[i] {
			return false
		}
	}
	return true
}

// isoBrute decides dataset isomorphism exactly by trying every bijection of blank indices.
func isoBrute(a, b []quad) bool {
	if len(a) != len(b) {
		return false
	}
	used := func(qs []quad) []int {
		m := map[int]bool{}
		for _, q := range qs {
			for _, t := range []tref{q.S, q.P, q.O, q.G} {
				if t.K == 0 {
					m[t.I] = true
				}
			}
		}
		var l []int
		for i := range m {
			l = append(l, i)
		}
		sort.Ints(l)
		return l
	}
	ua, ub := used(a), used(b)
	if len(ua) != len(ub) {
		return false
	}
	setB := map[quad]bool{}
	for _, q := range b {
		setB[q] = true
	}
	perm := make([]int, len(ub))
	taken := make([]bool, len(ub))
	mapT := func(t tref, m map[int]int) tref {
		if t.K == 0 {
			return tref{0, m[t.I]}
		}
		return t
	}
	var rec func(k int) bool
	rec = func(k int) bool {
		if k == len(ua) {
			m := map[int]int{}
			for i, x := range ua {
				m[x] = ub[perm[i]]
			}
			for _, q := range a {
				if !setB[quad{mapT(q.S, m), mapT(q.P, m), mapT(q.O, m), mapT(q.G, m)}] {
					return false
				}
			}
			return true
		}
		for j := range ub {
			if !taken[j] {
				taken[j] = true
				perm[k] = j
				if rec(k + 1) {
					return true
				}
				taken[j] = false
			}
		}
		return false
	}
	return rec(0)
}

func newHash(i int) hash.Hash {
	switch i {
	case 1:
		return sha256.New()
	case 2:
		return md5.New()
	}
	return sha1.New()
}

func applyEdit(qs []quad, kind, at, to int) []quad {
	out := append([]quad(nil), qs...)
	if len(out) == 0 || kind == 0 {
		return out
	}
	i := at % len(out)
	switch kind {
	case 1:
		if out[i].O.K == 0 {
			out[i].O.I = to % nBlank
		} else if out[i].S.K == 0 {
			out[i].S.I = to % nBlank
		} else {
			out[i].O = tref{0, to % nBlank}
		}
	case 2:
		out[i].P = tref{1, 100 + to%3}
	case 3:
		out = append(out[:i], out[i+1:]...)
	}
	return dedupQuads(out)
}

type canonFn struct {
	name string
	f    func([]*rdf.Statement) ([]string, error)
}

func canonFns(c rdfCase) []canonFn {
	fns := []canonFn{
		{"URDNA2015", func(s []*rdf.Statement) ([]string, error) {
			r, err := rdf.URDNA2015(nil, s)
			return sortedStrings(r), err
		}},
		// C14n is documented (and exemplified) with the terms of an
		// undecomposed hashing; hashes of decomposed graphs are documented as
		// not comparable, so decomp=true is exercised through Isomorphic only.
	}
	// The isomorphism-hashing family (IsoCanonicalHashes, C14n, Isomorphic)
	// implements Hogan's algorithm for RDF graphs: its decomposition and
	// hashing look at subject and object only, so graph labels (in particular
	// blank ones) are outside what it models. It is checked on label-free
	// datasets; URDNA2015 is the dataset algorithm and is checked with labels.
	if !c.Labels {
		fns = append(fns, canonFn{fmt.Sprintf("IsoCanonicalHashes+C14n(hash=%d)", c.Hash), func(s []*rdf.Statement) ([]string, error) {
			_, terms := rdf.IsoCanonicalHashes(s, false, true, newHash(c.Hash), make([]byte, newHash(c.Hash).Size()))
			r, err := rdf.C14n(nil, s, terms)
			return sortedStrings(r), err
		}})
		fns = append(fns, canonFn{"URGNA2012", func(s []*rdf.Statement) ([]string, error) {
			r, err := rdf.URGNA2012(nil, s)
			return sortedStrings(r), err
		}})
	}
	return fns
}

func checkRDF(c rdfCase) *vk.Failure {
	qs := dedupQuads(c.Quads)
	if len(qs) == 0 {
		return nil
	}
	vk.Sample("rdf-c14n", c)
	escIRI = c.EscIRI
	defer func() { escIRI = false }()
	nb := map[int]bool{}
	for _, q := range qs {
		for _, t := range []tref{q.S, q.O, q.G} {
			if t.K == 0 {
				nb[t.I] = true
			}
		}
	}
	if len(nb) >= 2 {
		vk.NonTrivial("rdf", fmt.Sprint(qs), c.Relabel, c.Order, c.EditKind, c.EditAt, c.EditTo, c.Hash, c.Decomp)
	}
	vk.Class(fmt.Sprintf("rdf-blanks=%d", len(nb)))
	order := c.Order
	if len(order) != len(qs) {
		order = nil
	}
	a := build(qs, "b", nil, nil)
	b := build(qs, "x", c.Relabel, order)
	contexts := map[tref]bool{}
	for _, q := range qs {
		contexts[q.G] = true
	}
	multiGraph := len(contexts) >= 2
	if multiGraph {
		vk.Class("rdf multi-graph dataset")
	}
	for _, fn := range canonFns(c) {
		ca, err := fn.f(build(qs, "b", nil, nil))
		if err != nil {
			return vk.Failf("c14n-error/"+fn.name, "%s on the original dataset: %v", fn.name, err)
		}
		cb, err := fn.f(build(qs, "x", c.Relabel, order))
		if err != nil {
			return vk.Failf("c14n-error/"+fn.name, "%s on the relabelled dataset: %v", fn.name, err)
		}
		// the canonical form is N-Quads: every statement parses and prints as itself
		for _, line := range ca {
			st, err := rdf.ParseNQuad(line)
			if err != nil || st.String() != line {
				key := "c14n-output-unparseable/"
				if c.EscIRI && strings.Contains(line, "http://example.org/r ") {
					// Recorded finding: the IRIs are rebuilt with NewIRITerm, which
					// writes the unescaped space and brace literally
					key = "c14n-output-iri-escape-lost/"
				}
				return vk.Failf(key+strings.SplitN(fn.name, "(", 2)[0], "%s returned the statement %q, which does not parse as N-Quads (err=%v); the input statement holds the IRI with \\u escapes", fn.name, line, err)
			}
		}
		// the same statements twice: the output must not depend on map
		// iteration order or other hidden state
		if again, err := fn.f(build(qs, "b", nil, nil)); err == nil && !eqStrings(ca, again) {
			return vk.Failf("c14n-nondeterministic/"+strings.SplitN(fn.name, "(", 2)[0], "%s returns different results for two calls with identical input:\n%s\nvs\n%s", fn.name, strings.Join(ca, "\n"), strings.Join(again, "\n"))
		}
		if !eqStrings(ca, cb) {
			// Recorded finding for datasets with more than one graph context:
			// the related-blank-node hash of the algorithm does not include the
			// graph name, so non-automorphic nodes can tie and the tie is
			// broken by input order. Single-graph datasets must be invariant.
			key := "c14n-label-dependent/"
			if multiGraph {
				key = "c14n-label-dependent-multigraph/"
			}
			return vk.Failf(key+strings.SplitN(fn.name, "(", 2)[0], "%s gives different canonical forms for a dataset and its blank-relabelled, reordered copy:\n%s\nvs\n%s", fn.name, strings.Join(ca, "\n"), strings.Join(cb, "\n"))
		}
		for _, line := range ca {
			if strings.Contains(line, "_:b") || strings.Contains(line, "_:x") {
				return vk.Failf("c14n-not-relabelled/"+strings.SplitN(fn.name, "(", 2)[0], "%s left an input blank label in its output: %s", fn.name, line)
			}
		}
		if len(ca) != len(qs) {
			return vk.Failf("c14n-statement-count/"+strings.SplitN(fn.name, "(", 2)[0], "%s returned %d statements for %d distinct input statements", fn.name, len(ca), len(qs))
		}
	}
	// a reused destination holding the statements of an earlier, labelled
	// dataset must not leak into the result
	{
		dirty := func(n int) []*rdf.Statement {
			// the destination must have the length of the source
			d := make([]*rdf.Statement, 0, n)
			for i := 0; i < n; i++ {
				st := &rdf.Statement{}
				st.Subject, _ = term(tref{1, 7}, "d", nil)
				st.Predicate, _ = term(tref{1, 8}, "d", nil)
				st.Object, _ = term(tref{0, i % nBlank}, "d", nil)
				st.Label, _ = term(tref{1, 60 + i%2}, "d", nil)
				d = append(d, st)
			}
			return d
		}
		type dstFn struct {
			name string
			f    func(dst, src []*rdf.Statement) ([]*rdf.Statement, error)
		}
		fns := []dstFn{{"URDNA2015", rdf.URDNA2015}}
		if !c.Labels {
			fns = append(fns, dstFn{"URGNA2012", rdf.URGNA2012}, dstFn{"C14n", func(dst, src []*rdf.Statement) ([]*rdf.Statement, error) {
				_, terms := rdf.IsoCanonicalHashes(src, false, true, newHash(c.Hash), make([]byte, newHash(c.Hash).Size()))
				return rdf.C14n(dst, src, terms)
			}})
		}
		for _, fn := range fns {
			fresh, err1 := fn.f(nil, build(qs, "b", nil, nil))
			reused, err2 := fn.f(dirty(len(qs)), build(qs, "b", nil, nil))
			if err1 != nil || err2 != nil {
				return vk.Failf("c14n-error/"+fn.name, "%v %v", err1, err2)
			}
			if !eqStrings(sortedStrings(fresh), sortedStrings(reused)) {
				return vk.Failf("c14n-reused-dst/"+fn.name, "%s gives a different result into a destination that holds the statements of an earlier call:\n%s\nvs (nil destination)\n%s", fn.name, strings.Join(sortedStrings(reused), "\n"), strings.Join(sortedStrings(fresh), "\n"))
			}
		}
	}
	if !c.Labels && !rdf.Isomorphic(a, b, c.Decomp, newHash(c.Hash)) {
		return vk.Failf("isomorphic-false-for-relabelling", "Isomorphic(D, relabelled D) = false (decomp=%v hash=%d)", c.Decomp, c.Hash)
	}
	// discrimination
	if c.EditKind != 0 {
		qe := applyEdit(qs, c.EditKind, c.EditAt, c.EditTo)
		if len(qe) > 0 {
			iso := isoBrute(qs, qe)
			vk.Class(fmt.Sprintf("rdf-edit-isomorphic=%v", iso))
			e := build(qe, "e", nil, nil)
			got := rdf.Isomorphic(build(qs, "b", nil, nil), e, c.Decomp, newHash(c.Hash))
			if !c.Labels && got != iso {
				return vk.Failf("isomorphic-wrong", "Isomorphic = %v but exhaustive search over blank bijections says %v (decomp=%v hash=%d)\nD:  %v\nD': %v", got, iso, c.Decomp, c.Hash, qs, qe)
			}
			for _, fn := range canonFns(c) {
				ca, err1 := fn.f(build(qs, "b", nil, nil))
				ce, err2 := fn.f(build(qe, "e", nil, nil))
				if err1 != nil || err2 != nil {
					return vk.Failf("c14n-error/"+fn.name, "%v %v", err1, err2)
				}
				if eqStrings(ca, ce) != iso {
					return vk.Failf("c14n-discrimination/"+strings.SplitN(fn.name, "(", 2)[0], "%s: canonical forms equal = %v, datasets isomorphic = %v\nD:  %v\nD': %v", fn.name, eqStrings(ca, ce), iso, qs, qe)
				}
			}
		}
	}
	// Deduplicate removes exactly the duplicates
	dup := append(build(qs, "b", nil, nil), build(qs[:1+len(qs)/2], "b", nil, nil)...)
	dd := rdf.Deduplicate(dup)
	if len(dd) != len(qs) {
		return vk.Failf("deduplicate-count", "Deduplicate kept %d of %d distinct statements", len(dd), len(qs))
	}
	ds := make([]string, len(dd))
	for i, s := range dd {
		ds[i] = s.String()
	}
	if !sort.StringsAreSorted(ds) || !eqStrings(ds, sortedStrings(a)) {
		return vk.Failf("deduplicate-content", "Deduplicate result is not the sorted distinct statement list: %v", ds)
	}
	return nil
}

func drawRDF(t *rapid.T) rdfCase {
	var c rdfCase
	c.Labels = rapid.IntRange(0, 3).Draw(t, "labels") == 0
	c.EscIRI = rapid.IntRange(0, 7).Draw(t, "esc_iri") == 0
	shape := rapid.IntRange(0, 4).Draw(t, "shape")
	nb := rapid.IntRange(1, nBlank).Draw(t, "nblank")
	bl := func(l string) tref { return tref{0, rapid.IntRange(0, nb-1).Draw(t, l)} }
	iri := func(l string, n int) tref { return tref{1, rapid.IntRange(0, n-1).Draw(t, l)} }
	pred := func() tref { return iri("p", rapid.SampledFrom([]int{1, 1, 2, 3}).Draw(t, "np")) }
	label := func() tref {
		if !c.Labels {
			return tref{3, 0}
		}
		switch rapid.IntRange(0, 2).Draw(t, "gk") {
		case 0:
			return tref{3, 0}
		case 1:
			return tref{1, 50 + rapid.IntRange(0, 1).Draw(t, "gi")}
		}
		return bl("gb")
	}
	switch shape {
	case 0: // blank cycle(s): automorphisms
		p := pred()
		for i := 0; i < nb; i++ {
			c.Quads = append(c.Quads, quad{tref{0, i}, p, tref{0, (i + 1) % nb}, tref{3, 0}})
		}
	case 1: // star around an IRI or a blank
		centre := tref{1, 0}
		if rapid.Bool().Draw(t, "bc") {
			centre = tref{0, 0}
		}
		p := pred()
		for i := 0; i < nb; i++ {
			c.Quads = append(c.Quads, quad{centre, p, tref{0, i}, tref{3, 0}})
		}
	case 2: // two identical components
		p := pred()
		h := nb / 2
		for i := 0; i+1 < h; i++ {
			c.Quads = append(c.Quads, quad{tref{0, i}, p, tref{0, i + 1}, tref{3, 0}}, quad{tref{0, h + i}, p, tref{0, h + i + 1}, tref{3, 0}})
		}
	case 3: // complete blank clique (<= 4)
		p := pred()
		k := min(nb, 4)
		for i := 0; i < k; i++ {
			for j := 0; j < k; j++ {
				if i != j {
					c.Quads = append(c.Quads, quad{tref{0, i}, p, tref{0, j}, tref{3, 0}})
				}
			}
		}
	}
	extra := rapid.IntRange(0, 8).Draw(t, "extra")
	if shape == 4 {
		extra = rapid.IntRange(1, 12).Draw(t, "n")
	}
	for i := 0; i < extra && len(c.Quads) < 12; i++ {
		var q quad
		if rapid.IntRange(0, 3).Draw(t, "sk") == 0 {
			q.S = iri("s", 3)
		} else {
			q.S = bl("sb")
		}
		q.P = pred()
		switch rapid.IntRange(0, 3).Draw(t, "ok") {
		case 0:
			q.O = iri("o", 3)
		case 1:
			q.O = tref{2, rapid.IntRange(0, 5).Draw(t, "lit")}
		default:
			q.O = bl("ob")
		}
		q.G = label()
		c.Quads = append(c.Quads, q)
	}
	c.Quads = dedupQuads(c.Quads)
	c.Relabel = rapid.Permutation([]int{0, 1, 2, 3, 4, 5}).Draw(t, "relabel")
	idx := make([]int, len(c.Quads))
	for i := range idx {
		idx[i] = i
	}
	c.Order = rapid.Permutation(idx).Draw(t, "order")
	c.EditKind = rapid.IntRange(0, 3).Draw(t, "editkind")
	c.EditAt = rapid.IntRange(0, 11).Draw(t, "editat")
	c.EditTo = rapid.IntRange(0, 5).Draw(t, "editto")
	c.Hash = rapid.IntRange(0, 2).Draw(t, "hash")
	c.Decomp = rapid.Bool().Draw(t, "decomp")
	return c
}

// drawRegular draws the datasets that are hard for the canonicalization
// algorithms: 6..9 blank nodes joined by one predicate into a digraph in which
// (nearly) every node has the same in- and out-degree (a circulant, or the union
// of two or three random permutations), so that the first-degree hashes separate
// nothing and the n-degree hashing has to recurse through cloned identifier
// issuers over several permutations. No edit is drawn: the exhaustive
// isomorphism oracle is factorial in the number of blank nodes and is kept for
// the small class above; here the oracle is relabel/reorder invariance.
func drawRegular(t *rapid.T) rdfCase {
	var c rdfCase
	n := rapid.IntRange(6, 9).Draw(t, "n")
	p := tref{1, 0}
	deg := rapid.IntRange(2, 3).Draw(t, "deg")
	if rapid.IntRange(0, 3).Draw(t, "circulant") == 0 {
		for d := 0; d < deg; d++ {
			step := rapid.IntRange(1, n-1).Draw(t, "step")
			for i := 0; i < n; i++ {
				c.Quads = append(c.Quads, quad{tref{0, i}, p, tref{0, (i + step) % n}, tref{3, 0}})
			}
		}
	} else {
		base := make([]int, n)
		for i := range base {
			base[i] = i
		}
		for d := 0; d < deg; d++ {
			pi := rapid.Permutation(base).Draw(t, "pi")
			for i := 0; i < n; i++ {
				c.Quads = append(c.Quads, quad{tref{0, i}, p, tref{0, pi[i]}, tref{3, 0}})
			}
		}
	}
	// now and then one distinguishing statement
	if rapid.IntRange(0, 4).Draw(t, "mark") == 0 {
		c.Quads = append(c.Quads, quad{tref{0, rapid.IntRange(0, n-1).Draw(t, "m")}, tref{1, 1}, tref{1, 2}, tref{3, 0}})
	}
	c.Quads = dedupQuads(c.Quads)
	base := make([]int, n)
	for i := range base {
		base[i] = i
	}
	c.Relabel = rapid.Permutation(base).Draw(t, "relabel")
	idx := make([]int, len(c.Quads))
	for i := range idx {
		idx[i] = i
	}
	c.Order = rapid.Permutation(idx).Draw(t, "order")
	c.Hash = rapid.IntRange(0, 2).Draw(t, "hash")
	c.Decomp = rapid.Bool().Draw(t, "decomp")
	return c
}

func TestRDFCanonicalizationRegular(t *testing.T) {
	vk.Run(t, "rdf-c14n-regular", vk.Opts{Quick: 4000, Thorough: 60000}, drawRegular, checkRDF)
}

func TestRDFCanonicalization(t *testing.T) {
	vk.Run(t, "rdf-c14n", vk.Opts{Quick: 10000, Thorough: 200000}, drawRDF, checkRDF)
}
