module verifharness

go 1.23.0

require (
	gonum.org/v1/gonum v0.0.0
	pgregory.net/rapid v1.3.0
)

require golang.org/x/tools v0.26.0 // indirect

replace gonum.org/v1/gonum => /repo
