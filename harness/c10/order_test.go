package c10

import (
	"fmt"
	"math"
	"sort"
	"testing"

	"gonum.org/v1/gonum/stat"
	"pgregory.net/rapid"
	"verifharness/vk"
)

// ---- SortWeighted, Quantile, CDF ---------------------------------------------------

type pair struct{ x, w float64 }

// sortedJointly checks that (sx, sw) is a rearrangement of the pairs (x, w)
// with sx ascending.
func sortedJointly(x, w, sx, sw []float64) *vk.Failure {
	if !sort.Float64sAreSorted(sx) {
		return vk.Failf("sortweighted-order", "x not ascending after SortWeighted: %v", sx)
	}
	a := make([]pair, len(x))
	b := make([]pair, len(x))
	for i := range x {
		a[i] = pair{x[i], wOr1(w, i)}
		b[i] = pair{sx[i], wOr1(sw, i)}
	}
	less := func(p []pair) func(i, j int) bool {
		return func(i, j int) bool {
			if p[i].x != p[j].x {
				return p[i].x < p[j].x
			}
			return p[i].w < p[j].w
		}
	}
	sort.Slice(a, less(a))
	sort.Slice(b, less(b))
	for i := range a {
		if a[i] != b[i] {
			return vk.Failf("sortweighted-pairs", "(x,w) pairs not preserved: before %v/%v after %v/%v", x, w, sx, sw)
		}
	}
	return nil
}

type qCase struct {
	S sample
	P []vk.F
}

// cumDD returns the exact cumulative weights.
func cumDD(w []float64, n int) []dd {
	c := make([]dd, n)
	var s dd
	for i := 0; i < n; i++ {
		s = s.addf(wOr1(w, i))
		c[i] = s
	}
	return c
}

// empIdx returns the smallest i with C[i] >= c, or n-1.
func empIdx(C []dd, c dd) int {
	for i := range C {
		if C[i].cmp(c) >= 0 {
			return i
		}
	}
	return len(C) - 1
}

func checkQuantile(c qCase) *vk.Failure {
	ux, uw := c.S.data()
	n := len(ux)
	nf := float64(n)
	x, w := cloneF(ux), cloneF(uw)
	stat.SortWeighted(x, w)
	if f := sortedJointly(ux, uw, x, w); f != nil {
		return f
	}
	exact := exactWeights(w)
	edgeP := false
	for _, p := range c.P {
		if p == 0 || p == 1 {
			edgeP = true
		}
	}
	vk.Class("quantile " + c.S.label())
	if n >= 3 && !isConst(x) && (w != nil || hasTies(x) || edgeP) {
		vk.NonTrivial("quantile", c.S.WC, c.S.DC, nClass(n), hasTies(x), edgeP)
	}
	vk.Sample("qcdf", c)
	ctx := ctxOf(x, w)
	C := cumDD(w, n)
	W := C[n-1]
	Wf := W.f()
	delta := 2 * u * Wf
	if !exact {
		delta = 2 * (nf + 2) * u * Wf
	}
	wminpos := math.Inf(1)
	for i := range x {
		if wi := wOr1(w, i); wi > 0 && wi < wminpos {
			wminpos = wi
		}
	}
	xmax := maxAbs(x)
	rangeSlack := 8*u*xmax + (4*delta/wminpos)*(x[n-1]-x[0])

	ps := vk.Fs(c.P)
	sort.Float64s(ps)
	prevE, prevL := math.Inf(-1), math.Inf(-1)
	for _, p := range ps {
		var qe, ql float64
		if f := vk.MustReturn("quantile-empirical-total", func() { qe = stat.Quantile(p, stat.Empirical, x, w) }); f != nil {
			f.Msg += fmt.Sprintf(" p=%v %s", p, ctx)
			return f
		}
		if f := vk.MustReturn("quantile-lininterp-total", func() { ql = stat.Quantile(p, stat.LinInterp, x, w) }); f != nil {
			f.Msg += fmt.Sprintf(" p=%v %s", p, ctx)
			return f
		}
		pc := fmt.Sprintf("p=%v %s", p, ctx)
		// range
		if !(qe >= x[0] && qe <= x[n-1]) {
			return vk.Failf("quantile-empirical-range", "%v outside [%v,%v] %s", qe, x[0], x[n-1], pc)
		}
		if !(ql >= x[0]-rangeSlack && ql <= x[n-1]+rangeSlack) {
			return vk.Failf("quantile-lininterp-range", "%v outside [%v,%v] %s", ql, x[0], x[n-1], pc)
		}
		// monotone in p
		if qe < prevE {
			return vk.Failf("quantile-empirical-monotone", "%v after %v %s", qe, prevE, pc)
		}
		if ql < prevL-2*rangeSlack {
			return vk.Failf("quantile-lininterp-monotone", "%v after %v %s", ql, prevL, pc)
		}
		prevE, prevL = qe, ql
		// Empirical: smallest x_i with cumulative weight >= p*W; near a tie in
		// that comparison either neighbour is accepted.
		cc := df(p).mul(W)
		lo := x[empIdx(C, cc.subf(delta))]
		hi := x[empIdx(C, cc.addf(delta))]
		if !(qe >= lo && qe <= hi) {
			return vk.Failf("quantile-empirical-value", "got %v want in [%v,%v] %s", qe, lo, hi, pc)
		}
		if k := sort.SearchFloat64s(x, qe); k >= n || x[k] != qe {
			return vk.Failf("quantile-empirical-not-a-sample", "%v %s", qe, pc)
		}
		// CDF(Quantile(p)) >= p
		cdf := stat.CDF(qe, stat.Empirical, x, w)
		if cdf < p*(1-4*u) {
			return vk.Failf("cdf-of-quantile", "CDF(Quantile(p))=%v < p %s", cdf, pc)
		}
		// LinInterp: piecewise linear through (C_i, x_i), flat below C_0.
		okL := false
		var allowed []string
		for i := 0; i < n; i++ {
			if C[i].addf(delta).cmp(cc) < 0 {
				continue // C_i + delta < c: not reached yet
			}
			if i > 0 && C[i-1].subf(delta).cmp(cc) >= 0 {
				break // C_{i-1} - delta >= c: an earlier index is hit first
			}
			if i == 0 {
				if ql == x[0] {
					okL = true
				}
				allowed = append(allowed, fmt.Sprint(x[0]))
				continue
			}
			wi := wOr1(w, i)
			if wi == 0 {
				continue
			}
			s1 := cc.subf(2 * delta).sub(C[i-1]).divf(wi).f()
			s2 := cc.addf(2 * delta).sub(C[i-1]).divf(wi).f()
			dx := x[i] - x[i-1]
			sl := 8 * u * (math.Abs(x[i-1]) + math.Abs(x[i]))
			l, h := x[i-1]+s1*dx-sl, x[i-1]+s2*dx+sl
			if ql >= l && ql <= h {
				okL = true
			}
			allowed = append(allowed, fmt.Sprintf("[%v,%v]", l, h))
		}
		if C[n-1].subf(delta).cmp(cc) < 0 && ql == x[n-1] {
			okL = true
		}
		if !okL {
			return vk.Failf("quantile-lininterp-value", "got %v want in %v %s", ql, allowed, pc)
		}
		// ones == nil exactly
		if c.S.WC == wcOnes {
			if e2 := stat.Quantile(p, stat.Empirical, x, nil); e2 != qe {
				return vk.Failf("ones-nil-quantile", "%v vs %v %s", e2, qe, pc)
			}
			if l2 := stat.Quantile(p, stat.LinInterp, x, nil); l2 != ql {
				return vk.Failf("ones-nil-quantile-lininterp", "%v vs %v %s", l2, ql, pc)
			}
		}
	}
	// endpoints
	if q := stat.Quantile(0, stat.Empirical, x, w); q != x[0] {
		return vk.Failf("quantile-p0", "%v want %v %s", q, x[0], ctx)
	}
	if w == nil || wOr1(w, n-1) > 0 {
		if q := stat.Quantile(1, stat.LinInterp, x, w); math.Abs(q-x[n-1]) > rangeSlack {
			return vk.Failf("quantile-lininterp-p1", "%v want %v %s", q, x[n-1], ctx)
		}
		// p == 1: all of the weight is needed, so the largest sample (the last
		// one carrying weight) is the answer
		if q := stat.Quantile(1, stat.Empirical, x, w); q != x[n-1] {
			// a rounded total may be reached one element early only when the
			// trailing weights are below the rounding of the total
			j := empIdx(C, W.subf(delta))
			if q < x[j] {
				return vk.Failf("quantile-p1", "%v want %v %s", q, x[n-1], ctx)
			}
		}
	}

	// CDF against counting at data values, midpoints and outside the range
	var qs []float64
	qs = append(qs, x[0]-1-math.Abs(x[0]), x[0], x[n-1], x[n-1]+1+math.Abs(x[n-1]))
	r := vk.NewSplitMix(c.S.Seed ^ 0x1234)
	for k := 0; k < 4; k++ {
		i := r.Intn(n)
		qs = append(qs, x[i])
		if i+1 < n {
			qs = append(qs, x[i]+(x[i+1]-x[i])/2)
		}
	}
	sort.Float64s(qs)
	prev := 0.0
	for _, q := range qs {
		got := stat.CDF(q, stat.Empirical, x, w)
		var s dd
		for i, v := range x {
			if v <= q {
				s = s.addf(wOr1(w, i))
			}
		}
		want := s.div(W).f()
		tol := 2 * (nf + 4) * u
		if exact {
			tol = 2 * u
		}
		if f := failClose("cdf", got, want, tol, fmt.Sprintf("q=%v %s", q, ctx)); f != nil {
			return f
		}
		if (q < x[0] && got != 0) || (q >= x[n-1] && got != 1) {
			return vk.Failf("cdf-endpoints", "CDF(%v)=%v %s", q, got, ctx)
		}
		// The partial sums are sequential while the total is floats.Sum, so the
		// last partial fractions may exceed the constant 1 returned at the top
		// by rounding; monotone to within the summation error only.
		if got < prev-tol || got > 1+tol {
			return vk.Failf("cdf-monotone", "CDF(%v)=%v after %v %s", q, got, prev, ctx)
		}
		prev = got
		if c.S.WC == wcOnes && stat.CDF(q, stat.Empirical, x, nil) != got {
			return vk.Failf("ones-nil-cdf", "q=%v %s", q, ctx)
		}
	}

	// integer weights == replication (Empirical quantile and CDF, exactly)
	if w != nil && exact && Wf <= 2000 {
		rx := replicate(x, w)
		for _, p := range ps {
			if p == 0 && w[0] == 0 {
				continue // the weighted form returns x[0] although it carries no weight
			}
			a, b := stat.Quantile(p, stat.Empirical, x, w), stat.Quantile(p, stat.Empirical, rx, nil)
			if a != b {
				return vk.Failf("replication-quantile", "weighted %v replicated %v p=%v %s", a, b, p, ctx)
			}
		}
		for _, q := range qs {
			a, b := stat.CDF(q, stat.Empirical, x, w), stat.CDF(q, stat.Empirical, rx, nil)
			if q >= rx[len(rx)-1] && q < x[n-1] {
				continue // trailing zero-weight samples extend the weighted range
			}
			if a != b {
				return vk.Failf("replication-cdf", "weighted %v replicated %v q=%v %s", a, b, q, ctx)
			}
		}
	}
	// documented panics
	if f := vk.MustPanic("quantile-empty-panics", func() { stat.Quantile(0.5, stat.Empirical, nil, nil) }); f != nil {
		return f
	}
	if f := vk.MustPanic("cdf-empty-panics", func() { stat.CDF(0.5, stat.Empirical, nil, nil) }); f != nil {
		return f
	}
	if f := vk.MustPanic("quantile-length-mismatch", func() { stat.Quantile(0.5, stat.Empirical, x, make([]float64, n+1)) }); f != nil {
		return f
	}
	return nil
}

func drawP(t *rapid.T, n int) float64 {
	switch rapid.IntRange(0, 7).Draw(t, "pcls") {
	case 0:
		return 0
	case 1, 2:
		return 1
	case 3:
		return float64(rapid.IntRange(0, n).Draw(t, "pk")) / float64(n)
	case 4:
		return 1 - math.Ldexp(1, -rapid.IntRange(40, 53).Draw(t, "pe"))
	case 5:
		return math.Ldexp(1, -rapid.IntRange(1, 60).Draw(t, "pe"))
	}
	return rapid.Float64Range(0, 1).Draw(t, "p")
}

func TestQuantile(t *testing.T) {
	vk.Run(t, "qcdf", vk.Opts{Quick: 60000, Thorough: 800000, NoCrumb: true}, func(t *rapid.T) qCase {
		c := qCase{}
		c.S = drawSample(t, 1, 200, []int{dcTies, dcTies, dcConst, dcDyadic, dcGauss, dcWide}, []int{wcNil, wcOnes, wcInts, wcReal, wcReal, wcZeros})
		np := rapid.IntRange(2, 6).Draw(t, "np")
		for i := 0; i < np; i++ {
			c.P = append(c.P, vk.F(drawP(t, c.S.N)))
		}
		return c
	}, checkQuantile)
}

// ---- Histogram -----------------------------------------------------------------------

type histCase struct {
	S       sample
	NInner  int // interior dividers
	DSeed   uint64
	LowEq   bool // lowest divider equal to min x
	HighAdj bool // highest divider is the float64 just above max x
	Prefill bool // pass a count slice holding stale values
}

func (c histCase) dividers(x []float64) []float64 {
	n := len(x)
	r := vk.NewSplitMix(c.DSeed)
	var d []float64
	for k := 0; k < c.NInner; k++ {
		i := r.Intn(n)
		switch r.Intn(4) {
		case 0, 1:
			d = append(d, x[i]) // equal to a data value
		case 2:
			if i+1 < n {
				d = append(d, x[i]+(x[i+1]-x[i])/2)
			} else {
				d = append(d, x[i])
			}
		default:
			d = append(d, x[0]+(x[n-1]-x[0])*r.Float())
		}
	}
	lo := x[0]
	if !c.LowEq {
		lo = x[0] - math.Abs(x[0]) - 1
	}
	hi := math.Nextafter(x[n-1], math.Inf(1))
	if !c.HighAdj {
		hi = x[n-1] + math.Abs(x[n-1]) + 1
	}
	d = append(d, lo, hi)
	sort.Float64s(d)
	return d
}

func checkHist(c histCase) *vk.Failure {
	x, w := c.S.data()
	n := len(x)
	stat.SortWeighted(x, w)
	div := c.dividers(x)
	divEq := false
	for _, d := range div {
		if k := sort.SearchFloat64s(x, d); k < n && x[k] == d {
			divEq = true
		}
	}
	vk.Class(fmt.Sprintf("hist %s diveq=%v", c.S.label(), divEq))
	if n >= 3 && !isConst(x) && (w != nil || hasTies(x) || divEq) {
		vk.NonTrivial("hist", c.S.WC, c.S.DC, nClass(n), hasTies(x), divEq, c.NInner, c.LowEq, c.HighAdj)
	}
	vk.Sample("hist", c)
	ctx := fmt.Sprintf("dividers=%v %s", div, ctxOf(x, w))
	nb := len(div) - 1
	var count, countBuf []float64
	if c.Prefill {
		// stale values, spare capacity, inside a sentinel-filled buffer
		count, countBuf = sliceView(nb, 2)
	}
	var got []float64
	xin, win, din := cloneF(x), cloneF(w), cloneF(div)
	if f := vk.MustReturn("histogram-total", func() { got = stat.Histogram(count, din, xin, win) }); f != nil {
		f.Msg += " " + ctx
		return f
	}
	if len(got) != nb {
		return vk.Failf("histogram-length", "len %d want %d %s", len(got), nb, ctx)
	}
	if c.Prefill && &got[0] != &count[0] {
		return vk.Failf("histogram-count-not-reused", "%s", ctx)
	}
	if c.Prefill {
		if ok, i := sliceBufIntact(countBuf, nb, 2); !ok {
			return vk.Failf("histogram-count-parent-modified", "buffer element %d outside count overwritten %s", i, ctx)
		}
	}
	for i := range x {
		if xin[i] != x[i] || (w != nil && win[i] != w[i]) {
			return vk.Failf("histogram-mutates-input", "%s", ctx)
		}
	}
	// bin-by-bin counting: weight of x[i] goes to bin j iff div[j] <= x < div[j+1]
	exact := exactWeights(w)
	var total, totalW dd
	for j := 0; j < nb; j++ {
		var s dd
		k := 0
		for i, v := range x {
			if div[j] <= v && v < div[j+1] {
				s = s.addf(wOr1(w, i))
				k++
			}
		}
		want := s.f()
		tol := 2 * float64(k+1) * u * want
		if exact {
			tol = 0
		}
		if !closeTo(got[j], want, tol) {
			return vk.Failf("histogram-bin", "bin %d [%v,%v) got %v want %v %s", j, div[j], div[j+1], got[j], want, ctx)
		}
		total = total.addf(got[j])
	}
	for i := range x {
		totalW = totalW.addf(wOr1(w, i))
	}
	tolT := 2 * float64(n+nb) * u * totalW.f()
	if exact {
		tolT = 0
	}
	if math.Abs(total.sub(totalW).f()) > tolT {
		return vk.Failf("histogram-conservation", "sum of bins %v total weight %v %s", total.f(), totalW.f(), ctx)
	}
	// a reused count slice and an empty sample: every bin holds the weight of
	// the points in it, which is zero ("count must either be nil or have
	// length of one less than dividers" is the only condition on count)
	{
		stale := cloneF(got)
		var e []float64
		emptyW := []float64{}
		if w == nil {
			emptyW = nil
		}
		if f := vk.MustReturn("histogram-empty-sample", func() { e = stat.Histogram(stale, cloneF(div), []float64{}, emptyW) }); f != nil {
			f.Msg += " " + ctx
			return f
		}
		for j, v := range e {
			if v != 0 {
				return vk.Failf("histogram-empty-sample-stale-count", "empty sample with a reused count slice: bin %d = %v, want 0 (count held %v before the call) %s", j, v, got, ctx)
			}
		}
	}
	// ones == nil, replication
	if c.S.WC == wcOnes {
		g2 := stat.Histogram(nil, div, x, nil)
		for j := range g2 {
			if g2[j] != got[j] {
				return vk.Failf("ones-nil-histogram", "bin %d: %v vs %v %s", j, g2[j], got[j], ctx)
			}
		}
	}
	if w != nil && exact && totalW.f() <= 2000 {
		g2 := stat.Histogram(nil, div, replicate(x, w), nil)
		for j := range g2 {
			if g2[j] != got[j] {
				return vk.Failf("replication-histogram", "bin %d: %v vs %v %s", j, g2[j], got[j], ctx)
			}
		}
	}
	// input conditions listed in the documentation
	if f := vk.MustPanic("histogram-count-length", func() { stat.Histogram(make([]float64, nb+1), div, x, w) }); f != nil {
		return f
	}
	if f := vk.MustPanic("histogram-weights-length", func() { stat.Histogram(nil, div, x, make([]float64, n+1)) }); f != nil {
		return f
	}
	if div[0] != div[nb] {
		bad := cloneF(div)
		bad[0], bad[nb] = bad[nb], bad[0]
		if f := vk.MustPanic("histogram-dividers-unsorted", func() { stat.Histogram(nil, bad, x, w) }); f != nil {
			return f
		}
	}
	// argument-check prologue: every x must fall into a bin
	{
		d2 := cloneF(div)
		d2[nb] = x[n-1]
		if f := vk.MustPanic("histogram-x-equals-highest-divider", func() { stat.Histogram(nil, d2, x, w) }); f != nil {
			return f
		}
		d3 := cloneF(div)
		if d3[0] = math.Nextafter(x[0], math.Inf(1)); d3[0] <= d3[1] {
			if f := vk.MustPanic("histogram-x-below-lowest-divider", func() { stat.Histogram(nil, d3, x, w) }); f != nil {
				return f
			}
		}
	}
	if x[0] != x[n-1] {
		bad := cloneF(x)
		bad[0], bad[n-1] = bad[n-1], bad[0]
		if f := vk.MustPanic("histogram-x-unsorted", func() { stat.Histogram(nil, div, bad, w) }); f != nil {
			return f
		}
	}
	return nil
}

func TestHistogram(t *testing.T) {
	vk.Run(t, "hist", vk.Opts{Quick: 30000, Thorough: 500000, NoCrumb: true}, func(t *rapid.T) histCase {
		return histCase{
			S:       drawSample(t, 1, 200, []int{dcTies, dcTies, dcConst, dcDyadic, dcGauss, dcWide}, []int{wcNil, wcOnes, wcInts, wcReal, wcZeros}),
			NInner:  rapid.IntRange(0, 10).Draw(t, "ninner"),
			DSeed:   rapid.Uint64().Draw(t, "dseed"),
			LowEq:   rapid.Bool().Draw(t, "loweq"),
			HighAdj: rapid.Bool().Draw(t, "highadj"),
			Prefill: rapid.Bool().Draw(t, "prefill"),
		}
	}, checkHist)
}

// ---- KolmogorovSmirnov ---------------------------------------------------------------

type ksCase struct{ SX, SY sample }

func ksRef(x, wx, y, wy []float64) float64 {
	Wx, Wy := sumW(wx, len(x)), sumW(wy, len(y))
	pts := append(cloneF(x), y...)
	sort.Float64s(pts)
	var best dd
	for k, v := range pts {
		if k > 0 && pts[k-1] == v {
			continue
		}
		var fx, fy dd
		for i, xv := range x {
			if xv <= v {
				fx = fx.addf(wOr1(wx, i))
			}
		}
		for i, yv := range y {
			if yv <= v {
				fy = fy.addf(wOr1(wy, i))
			}
		}
		d := fx.div(Wx).sub(fy.div(Wy)).abs()
		if d.cmp(best) > 0 {
			best = d
		}
	}
	return best.f()
}

func checkKS(c ksCase) *vk.Failure {
	x, wx := c.SX.data()
	y, wy := c.SY.data()
	stat.SortWeighted(x, wx)
	stat.SortWeighted(y, wy)
	nx, ny := len(x), len(y)
	vk.Class(fmt.Sprintf("ks wx=%s wy=%s dx=%s dy=%s", wcName[c.SX.WC], wcName[c.SY.WC], dcName[c.SX.DC], dcName[c.SY.DC]))
	shared := false
	for _, v := range x {
		if k := sort.SearchFloat64s(y, v); k < ny && y[k] == v {
			shared = true
		}
	}
	if nx >= 3 && ny >= 3 && !(isConst(x) && isConst(y)) && (wx != nil || wy != nil || shared || hasTies(x) || hasTies(y)) {
		vk.NonTrivial("ks", c.SX.WC, c.SY.WC, c.SX.DC, c.SY.DC, nClass(nx), nClass(ny), shared)
	}
	vk.Sample("ks", c)
	ctx := fmt.Sprintf("x=%v wx=%v y=%v wy=%v", x, wx, y, wy)
	if nx+ny > 16 {
		ctx = fmt.Sprintf("nx=%d ny=%d", nx, ny)
	}
	var got float64
	if f := vk.MustReturn("ks-total", func() { got = stat.KolmogorovSmirnov(x, wx, y, wy) }); f != nil {
		f.Msg += " " + ctx
		return f
	}
	// documented special cases
	if nx == 0 || ny == 0 {
		want := 1.0
		if nx == 0 && ny == 0 {
			want = 0
		}
		if got != want {
			return vk.Failf("ks-empty", "got %v want %v %s", got, want, ctx)
		}
		return nil
	}
	want := ksRef(x, wx, y, wy)
	tol := 4 * float64(nx+ny+4) * u
	if f := failClose("ks", got, want, tol, ctx); f != nil {
		return f
	}
	if got < 0 || got > 1+tol {
		return vk.Failf("ks-range", "%v %s", got, ctx)
	}
	if f := failClose("ks-symmetry", stat.KolmogorovSmirnov(y, wy, x, wx), got, tol, ctx); f != nil {
		return f
	}
	if f := failClose("ks-self", stat.KolmogorovSmirnov(x, wx, x, wx), 0, tol, ctx); f != nil {
		return f
	}
	// ones == nil, replication
	if c.SX.WC == wcOnes {
		if f := failClose("ones-nil-ks", stat.KolmogorovSmirnov(x, nil, y, wy), got, tol, ctx); f != nil {
			return f
		}
	}
	if wx != nil && exactWeights(wx) && sumW(wx, nx).f() <= 1000 {
		rx := replicate(x, wx)
		if f := failClose("replication-ks", stat.KolmogorovSmirnov(rx, nil, y, wy), want, 4*float64(len(rx)+ny+4)*u, ctx); f != nil {
			return f
		}
	}
	return nil
}

func TestKS(t *testing.T) {
	dcs := []int{dcTies, dcTies, dcTies, dcConst, dcDyadic, dcGauss, dcWide}
	wcs := []int{wcNil, wcOnes, wcInts, wcReal, wcZeros}
	vk.Run(t, "ks", vk.Opts{Quick: 30000, Thorough: 500000, NoCrumb: true}, func(t *rapid.T) ksCase {
		c := ksCase{}
		c.SX = drawSample(t, 0, 100, dcs, wcs)
		c.SY = drawSample(t, 0, 100, dcs, wcs)
		// mostly the same data class on both sides, so that values are shared
		if rapid.IntRange(0, 3).Draw(t, "samedc") != 0 {
			c.SY.DC = c.SX.DC
			if c.SY.X != nil && c.SY.DC != dcTies && c.SY.DC != dcDyadic {
				c.SY.X = nil
			}
			if c.SY.N <= 12 && c.SY.X == nil && (c.SY.DC == dcTies || c.SY.DC == dcDyadic) {
				// keep explicit draws consistent with the class
				c.SY.X = make([]vk.F, c.SY.N)
				for i := range c.SY.X {
					if c.SY.DC == dcTies {
						c.SY.X[i] = vk.F(rapid.IntRange(-3, 3).Draw(t, "y"))
					} else {
						c.SY.X[i] = vk.F(float64(rapid.IntRange(-64, 64).Draw(t, "y")) / 8)
					}
				}
			}
		}
		return c
	}, checkKS)
}

// ---- SortWeightedLabeled, ROC, TOC ----------------------------------------------------

type rocCase struct {
	S       sample
	ClsSeed uint64
	CutMode int // 0 nil, 1 empty with spare capacity, 2 explicit
	NCut    int
	CutSeed uint64
}

func checkROC(c rocCase) *vk.Failure {
	uy, uw := c.S.data()
	n := len(uy)
	nf := float64(n)
	r := vk.NewSplitMix(c.ClsSeed)
	ucls := make([]bool, n)
	for i := range ucls {
		ucls[i] = r.Intn(2) == 0
	}
	// make sure both classes carry weight
	seen := 0
	for i := 0; i < n && seen < 2; i++ {
		if wOr1(uw, i) > 0 {
			ucls[i] = seen == 0
			seen++
		}
	}
	y, w, cls := cloneF(uy), cloneF(uw), append([]bool(nil), ucls...)
	stat.SortWeightedLabeled(y, cls, w)
	// joint sort: triples preserved
	{
		type tr struct {
			y, w float64
			c    bool
		}
		key := func(t tr) string { return fmt.Sprint(t.y, t.w, t.c) }
		cnt := map[string]int{}
		for i := range uy {
			cnt[key(tr{uy[i], wOr1(uw, i), ucls[i]})]++
			cnt[key(tr{y[i], wOr1(w, i), cls[i]})]--
		}
		for k, v := range cnt {
			if v != 0 {
				return vk.Failf("sortweightedlabeled-triples", "triple %s count differs by %d: y=%v cls=%v w=%v", k, v, uy, ucls, uw)
			}
		}
		if !sort.Float64sAreSorted(y) {
			return vk.Failf("sortweightedlabeled-order", "%v", y)
		}
	}
	vk.Class(fmt.Sprintf("roc %s cut=%d", c.S.label(), c.CutMode))
	if n >= 3 && !isConst(y) && (w != nil || hasTies(y)) {
		vk.NonTrivial("roc", c.S.WC, c.S.DC, nClass(n), hasTies(y), c.CutMode, c.NCut)
	}
	vk.Sample("roc", c)
	ctx := fmt.Sprintf("y=%v cls=%v w=%v", y, cls, w)
	if n > 12 {
		ctx = fmt.Sprintf("n=%d", n)
	}
	var cut []float64
	switch c.CutMode {
	case 1:
		cut = make([]float64, 0, max(0, n-1+int(c.CutSeed%4))) // capacity below, at and above the needed n+1
	case 2:
		rc := vk.NewSplitMix(c.CutSeed)
		for k := 0; k < c.NCut; k++ {
			i := rc.Intn(n)
			switch rc.Intn(6) {
			case 0, 1:
				cut = append(cut, y[i])
			case 2:
				if i+1 < n {
					cut = append(cut, y[i]+(y[i+1]-y[i])/2)
				} else {
					cut = append(cut, y[i])
				}
			case 3:
				cut = append(cut, y[n-1]+math.Abs(y[n-1])+1)
			case 4:
				cut = append(cut, y[0]-math.Abs(y[0])-1)
			default:
				cut = append(cut, y[0]+(y[n-1]-y[0])*rc.Float())
			}
		}
		sort.Float64s(cut)
	}
	cutIn := cloneF(cut)
	var tpr, fpr, thresh []float64
	if f := vk.MustReturn("roc-total", func() { tpr, fpr, thresh = stat.ROC(cut, y, cls, w) }); f != nil {
		f.Msg += fmt.Sprintf(" cutoffs=%v %s", cutIn, ctx)
		return f
	}
	ctx = fmt.Sprintf("cutoffs=%v %s", cutIn, ctx)
	// expected thresholds
	var wantT []float64
	if len(cutIn) == 0 {
		wantT = append(wantT, math.Inf(1))
		for i := n - 1; i >= 0; i-- {
			if i == n-1 || y[i] != y[i+1] {
				wantT = append(wantT, y[i])
			}
		}
	} else {
		for i := len(cutIn) - 1; i >= 0; i-- {
			wantT = append(wantT, cutIn[i])
		}
		for i := range cutIn {
			if cut[i] != cutIn[i] {
				return vk.Failf("roc-mutates-cutoffs", "%s", ctx)
			}
		}
	}
	if len(tpr) != len(wantT) || len(fpr) != len(wantT) || len(thresh) != len(wantT) {
		return vk.Failf("roc-lengths", "tpr %d fpr %d thresh %d want %d %s", len(tpr), len(fpr), len(thresh), len(wantT), ctx)
	}
	var P, N dd
	for i := range y {
		if cls[i] {
			P = P.addf(wOr1(w, i))
		} else {
			N = N.addf(wOr1(w, i))
		}
	}
	tol := 2 * (nf + 6) * u
	for k, th := range wantT {
		if thresh[k] != th {
			return vk.Failf("roc-thresh", "thresh[%d]=%v want %v %s", k, thresh[k], th, ctx)
		}
		// rates for y >= thresh[k]
		var tp, fp dd
		for i, v := range y {
			if v >= th {
				if cls[i] {
					tp = tp.addf(wOr1(w, i))
				} else {
					fp = fp.addf(wOr1(w, i))
				}
			}
		}
		if f := failClose("roc-tpr", tpr[k], tp.div(P).f(), tol, fmt.Sprintf("k=%d thresh=%v %s", k, th, ctx)); f != nil {
			return f
		}
		if f := failClose("roc-fpr", fpr[k], fp.div(N).f(), tol, fmt.Sprintf("k=%d thresh=%v %s", k, th, ctx)); f != nil {
			return f
		}
		if k > 0 && (tpr[k] < tpr[k-1] || fpr[k] < fpr[k-1]) {
			return vk.Failf("roc-monotone", "k=%d tpr %v->%v fpr %v->%v %s", k, tpr[k-1], tpr[k], fpr[k-1], fpr[k], ctx)
		}
		if tpr[k] < 0 || tpr[k] > 1 || fpr[k] < 0 || fpr[k] > 1 {
			if tpr[k] < -tol || tpr[k] > 1+tol || fpr[k] < -tol || fpr[k] > 1+tol {
				return vk.Failf("roc-range", "k=%d tpr %v fpr %v %s", k, tpr[k], fpr[k], ctx)
			}
		}
	}
	if len(cutIn) == 0 {
		last := len(tpr) - 1
		if math.Abs(tpr[0]) > 4*u || math.Abs(fpr[0]) > 4*u || tpr[last] != 1 || fpr[last] != 1 {
			return vk.Failf("roc-endpoints", "(%v,%v) .. (%v,%v) %s", fpr[0], tpr[0], fpr[last], tpr[last], ctx)
		}
	}

	// TOC
	mn, ntp, mx := stat.TOC(cls, w)
	if len(mn) != n+1 || len(ntp) != n+1 || len(mx) != n+1 {
		return vk.Failf("toc-lengths", "%d %d %d want %d %s", len(mn), len(ntp), len(mx), n+1, ctx)
	}
	exact := exactWeights(w)
	var totw dd
	for i := 0; i < n; i++ {
		totw = totw.addf(wOr1(w, i))
	}
	tolc := 2 * (nf + 4) * u * totw.f()
	if exact {
		tolc = 0
	}
	var cw, tp dd
	for i := 0; i <= n; i++ {
		if i > 0 {
			j := n - i
			cw = cw.addf(wOr1(w, j))
			if cls[j] {
				tp = tp.addf(wOr1(w, j))
			}
		}
		// ntp_i = sum_{j >= n-i} [classes_j] weights_j
		if !closeTo(ntp[i], tp.f(), tolc) {
			return vk.Failf("toc-ntp", "ntp[%d]=%v want %v %s", i, ntp[i], tp.f(), ctx)
		}
		wantMin := math.Max(0, P.sub(totw.sub(cw)).f())
		wantMax := math.Min(P.f(), cw.f())
		if !closeTo(mn[i], wantMin, 2*tolc) || !closeTo(mx[i], wantMax, tolc) {
			return vk.Failf("toc-bounds", "i=%d min %v want %v max %v want %v %s", i, mn[i], wantMin, mx[i], wantMax, ctx)
		}
		if mn[i] > ntp[i]+2*tolc || ntp[i] > mx[i]+tolc {
			return vk.Failf("toc-order", "i=%d min %v ntp %v max %v %s", i, mn[i], ntp[i], mx[i], ctx)
		}
	}
	if mn[0] != 0 || ntp[0] != 0 || mx[0] != 0 {
		return vk.Failf("toc-first", "%v %v %v %s", mn[0], ntp[0], mx[0], ctx)
	}
	if mn[n] != ntp[n] || mx[n] != ntp[n] {
		return vk.Failf("toc-last", "%v %v %v %s", mn[n], ntp[n], mx[n], ctx)
	}
	if c.S.WC == wcOnes {
		m2, n2, x2 := stat.TOC(cls, nil)
		for i := range n2 {
			if m2[i] != mn[i] || n2[i] != ntp[i] || x2[i] != mx[i] {
				return vk.Failf("ones-nil-toc", "i=%d %s", i, ctx)
			}
		}
		t2, f2, _ := stat.ROC(cutIn, y, cls, nil)
		for i := range t2 {
			if t2[i] != tpr[i] || f2[i] != fpr[i] {
				return vk.Failf("ones-nil-roc", "i=%d %s", i, ctx)
			}
		}
	}
	return nil
}

func TestROC(t *testing.T) {
	vk.Run(t, "roc", vk.Opts{Quick: 25000, Thorough: 400000, NoCrumb: true}, func(t *rapid.T) rocCase {
		return rocCase{
			S:       drawSample(t, 2, 150, []int{dcTies, dcTies, dcDyadic, dcGauss, dcConst, dcWide}, []int{wcNil, wcOnes, wcInts, wcReal, wcZeros}),
			ClsSeed: rapid.Uint64().Draw(t, "clsseed"),
			CutMode: rapid.IntRange(0, 2).Draw(t, "cutmode"),
			NCut:    rapid.IntRange(1, 8).Draw(t, "ncut"),
			CutSeed: rapid.Uint64().Draw(t, "cutseed"),
		}
	}, checkROC)
}

// ---- KolmogorovSmirnov on samples that contain infinities ------------------------------
//
// (added after seeded change C10-16: a run of equal values detected through `gap != 0`, which
// is NaN for a run of the same infinity.) Sorted samples with repeated -Inf / +Inf are in the
// documented domain (the only requirement is sortedness) and the empirical CDFs, hence their
// sup-distance, are well defined; the oracle is the same brute-force evaluation as above.
var ksInfVals = []float64{math.Inf(-1), -2, -1, 0, 1, 2, math.Inf(1)}

type ksInfCase struct {
	KX, KY []int
	WX, WY []int `json:",omitempty"`
}

func checkKSInf(c ksInfCase) *vk.Failure {
	mk := func(k, w []int) ([]float64, []float64) {
		ks := append([]int(nil), k...)
		sort.Ints(ks)
		x := make([]float64, len(ks))
		for i, v := range ks {
			x[i] = ksInfVals[v]
		}
		if len(w) != len(k) {
			return x, nil
		}
		ws := make([]float64, len(w))
		for i, v := range w {
			ws[i] = float64(v)
		}
		return x, ws
	}
	x, wx := mk(c.KX, c.WX)
	y, wy := mk(c.KY, c.WY)
	rep := func(v []float64) bool {
		for i := 1; i < len(v); i++ {
			if math.IsInf(v[i], 0) && v[i] == v[i-1] {
				return true
			}
		}
		return false
	}
	if rep(x) || rep(y) {
		vk.NonTrivial("ks-inf", c.KX, c.KY, c.WX, c.WY)
	}
	vk.Sample("ks-inf", c)
	ctx := fmt.Sprintf("x=%v wx=%v y=%v wy=%v", x, wx, y, wy)
	var got float64
	if f := vk.MustReturn("ks-inf-total", func() { got = stat.KolmogorovSmirnov(x, wx, y, wy) }); f != nil {
		f.Msg += " " + ctx
		return f
	}
	want := ksRef(x, wx, y, wy)
	tol := 4 * float64(len(x)+len(y)+4) * u
	if f := failClose("ks-inf", got, want, tol, ctx); f != nil {
		return f
	}
	return failClose("ks-inf-symmetry", stat.KolmogorovSmirnov(y, wy, x, wx), got, tol, ctx)
}

func TestKSInf(t *testing.T) {
	vk.Run(t, "ks-inf", vk.Opts{Quick: 5000, Thorough: 100000, NoCrumb: true}, func(t *rapid.T) ksInfCase {
		idx := rapid.SampledFrom([]int{0, 0, 1, 2, 3, 4, 5, 6, 6})
		c := ksInfCase{
			KX: rapid.SliceOfN(idx, 1, 7).Draw(t, "kx"),
			KY: rapid.SliceOfN(idx, 1, 7).Draw(t, "ky"),
		}
		if rapid.Bool().Draw(t, "wx") {
			c.WX = rapid.SliceOfN(rapid.IntRange(1, 3), len(c.KX), len(c.KX)).Draw(t, "wxv")
		}
		if rapid.Bool().Draw(t, "wy") {
			c.WY = rapid.SliceOfN(rapid.IntRange(1, 3), len(c.KY), len(c.KY)).Draw(t, "wyv")
		}
		return c
	}, checkKSInf)
}
