package c10

import (
	"fmt"
	"math"
	"testing"

	"gonum.org/v1/gonum/stat"
	"pgregory.net/rapid"
	"verifharness/vk"
)

// ---- univariate statistics: defining formulas + metamorphic relations ---------
//
// Mean, Variance, StdDev, PopVariance, PopStdDev, MeanVariance, MeanStdDev,
// PopMeanVariance, PopMeanStdDev, Moment, MomentAbout, Skew, ExKurtosis, Mode,
// CircularMean, GeometricMean, HarmonicMean, StdErr, StdScore.

type uniCase struct {
	S      sample
	Moment int    // 0..4
	About  int    // 0: about 0, 1: about x[0], 2: about 1.5
	A      vk.F   // affine map a*x+b, a != 0 (dyadic)
	B      vk.F   //
	Perm   uint64 // seed of the joint permutation
}

// uniRef holds the double-double reference moments of a sample and the error
// bounds of the two-pass estimators.
type uniRef struct {
	n    int
	x, w []float64
	W    dd      // total weight
	m    dd      // mean
	A1   float64 // sum |w x|
	em   float64 // bound on |computed mean - m|
	S    dd      // sum w (x-m)^2
	T1   float64 // sum w |x-m|
	tolS float64 // bound on the error of the corrected two-pass sum of squares
}

func newUniRef(x, w []float64) *uniRef {
	r := &uniRef{n: len(x), x: x, w: w}
	r.m, r.W, r.A1 = meanRef(x, w)
	n := float64(r.n)
	Wf := r.W.f()
	r.em = 2 * (n + 4) * u * r.A1 / Wf
	var s, t1 dd
	for i, v := range x {
		d := df(v).sub(r.m)
		wi := wOr1(w, i)
		s = s.add(d.mul(d).mulf(wi))
		t1 = t1.add(d.abs().mulf(wi))
	}
	r.S = s
	r.T1 = t1.f()
	T2b := s.f() + Wf*r.em*r.em
	T1b := r.T1 + Wf*r.em
	r.tolS = 2 * ((n+8)*u*(T2b+Wf*r.em*r.em) + 2*r.em*(n+3)*u*T1b)
	return r
}

// relW returns the relative error bound of (W - k) as computed by a sequential
// float64 sum of the weights followed by the subtraction.
func (r *uniRef) relWminus(k float64) float64 {
	Wf := r.W.f()
	if r.w == nil || exactWeights(r.w) {
		return 2 * u
	}
	return (float64(r.n)+2)*u*Wf/math.Abs(Wf-k) + 2*u
}

// variance returns the reference S/(W-k) (k = 1 sample, 0 population) and the bound.
func (r *uniRef) variance(k float64) (v, tol float64) {
	den := r.W.subf(k)
	v = r.S.div(den).f()
	tol = r.tolS/math.Abs(den.f()) + math.Abs(v)*(r.relWminus(k)+2*u)
	return v, tol
}

func sdTol(v, tolV float64) float64 {
	if v <= 0 {
		return math.Sqrt(tolV)
	}
	s := math.Sqrt(v)
	t := tolV / s
	if q := math.Sqrt(tolV); q < t {
		t = q
	}
	return t + 4*u*s
}

// momentRef returns sum w (x-c)^k / W for the exact centre c, with the error
// bound for a centre known only to within ec and float64 evaluation with Pow.
func momentRef(x, w []float64, c dd, ec float64, k int) (val, tol float64) {
	var s dd
	var abs, der float64
	for i, v := range x {
		d := df(v).sub(c)
		wi := wOr1(w, i)
		s = s.add(d.powi(k).mulf(wi))
		a := math.Abs(d.f()) + ec
		abs += wi * math.Pow(a, float64(k))
		if k >= 1 {
			der += wi * float64(k) * ec * math.Pow(a, float64(k-1))
		}
	}
	W := sumW(w, len(x))
	val = s.div(W).f()
	n := float64(len(x))
	tol = 2 * ((n+float64(k)+10)*u*abs + der) / W.f()
	return
}

// shape holds the reference skewness and excess kurtosis with their bounds.
type shape struct {
	skew, tolSkew float64
	kurt, tolKurt float64
	okSkew        bool
	okKurt        bool
}

// shapeRef evaluates the bias-corrected skewness W/((W-1)(W-2)) sum w z^3 and
// excess kurtosis (W+1)W/((W-1)(W-2)(W-3)) sum w z^4 - 3(W-1)^2/((W-2)(W-3)),
// z = (x-mean)/s with the unbiased s, as implemented for total weight W.
func shapeRef(r *uniRef) (sh shape) {
	x, w := r.x, r.w
	nf := float64(r.n)
	Wf := r.W.f()
	if isConst(x) || Wf-1 < 0.5 {
		return
	}
	v, tolv := r.variance(1)
	sdRef, sdTolv := math.Sqrt(v), sdTol(v, tolv)
	if !(sdRef > 0) {
		return
	}
	rs := sdTolv / sdRef
	if !(rs < 1e-3) {
		return
	}
	sref := r.S.div(r.W.subf(1)).sqrt()
	var s3, s4 dd
	var e3, e4, a3, a4 float64
	for i, v := range x {
		z := df(v).sub(r.m).div(sref)
		wi := wOr1(w, i)
		z2 := z.mul(z)
		s3 = s3.add(z2.mul(z).mulf(wi))
		s4 = s4.add(z2.mul(z2).mulf(wi))
		az := math.Abs(z.f())
		ez := (r.em/sdRef)/(1-rs) + az*rs*1.01 + 4*u*az
		b := az + ez
		e3 += wi * 3 * ez * b * b
		e4 += wi * 4 * ez * b * b * b
		a3 += wi * b * b * b
		a4 += wi * b * b * b * b
	}
	if Wf >= 2.5 {
		corr := r.W.div(r.W.subf(1)).div(r.W.subf(2))
		sh.skew = s3.mul(corr).f()
		rc := r.relWminus(1) + r.relWminus(2) + 6*u
		sh.tolSkew = 2 * (math.Abs(corr.f())*(e3+(nf+8)*u*a3) + math.Abs(sh.skew)*rc)
		sh.okSkew = true
	}
	if Wf >= 3.5 {
		W := r.W
		mul := W.addf(1).div(W.subf(1)).mul(W.div(W.subf(2))).div(W.subf(3))
		off := W.subf(1).div(W.subf(2)).mul(W.subf(1).div(W.subf(3))).mulf(3)
		sh.kurt = s4.mul(mul).sub(off).f()
		rc := 2*r.relWminus(1) + 2*r.relWminus(2) + 2*r.relWminus(3) + 12*u
		sh.tolKurt = 2 * (math.Abs(mul.f())*(e4+(nf+8)*u*a4) + (math.Abs(s4.mul(mul).f())+math.Abs(off.f()))*rc)
		sh.okKurt = true
	}
	return
}

func checkUni(c uniCase) *vk.Failure {
	x, w := c.S.data()
	n := len(x)
	lbl := c.S.label()
	vk.Class("uni " + lbl)
	constant := isConst(x)
	if n >= 3 && !constant && (w != nil || hasTies(x)) {
		vk.NonTrivial("uni", c.S.WC, c.S.DC, nClass(n), c.Moment, hasTies(x))
	}
	vk.Sample("uni", c)
	ctx := ctxOf(x, w)
	r := newUniRef(x, w)
	nf := float64(n)
	Wf := r.W.f()

	// --- Mean
	mean := stat.Mean(cloneF(x), cloneF(w))
	if f := failClose("mean", mean, r.m.f(), r.em, ctx); f != nil {
		return f
	}
	lo, hi := x[0], x[0]
	for _, v := range x {
		lo, hi = math.Min(lo, v), math.Max(hi, v)
	}
	if slack := 2 * (nf + 4) * u * math.Max(math.Abs(lo), math.Abs(hi)); mean < lo-slack || mean > hi+slack {
		return vk.Failf("mean-range", "mean %v outside [%v,%v] %s", mean, lo, hi, ctx)
	}

	// --- variance family
	type vres struct {
		name     string
		got      float64
		k        float64
		sd       bool
		needMean bool
		gotMean  float64
	}
	var vr []vres
	vr = append(vr, vres{name: "Variance", got: stat.Variance(x, w), k: 1})
	vr = append(vr, vres{name: "PopVariance", got: stat.PopVariance(x, w), k: 0})
	vr = append(vr, vres{name: "StdDev", got: stat.StdDev(x, w), k: 1, sd: true})
	vr = append(vr, vres{name: "PopStdDev", got: stat.PopStdDev(x, w), k: 0, sd: true})
	m1, v1 := stat.MeanVariance(x, w)
	vr = append(vr, vres{name: "MeanVariance", got: v1, k: 1, needMean: true, gotMean: m1})
	m2, s2 := stat.MeanStdDev(x, w)
	vr = append(vr, vres{name: "MeanStdDev", got: s2, k: 1, sd: true, needMean: true, gotMean: m2})
	m3, v3 := stat.PopMeanVariance(x, w)
	vr = append(vr, vres{name: "PopMeanVariance", got: v3, k: 0, needMean: true, gotMean: m3})
	m4, s4 := stat.PopMeanStdDev(x, w)
	vr = append(vr, vres{name: "PopMeanStdDev", got: s4, k: 0, sd: true, needMean: true, gotMean: m4})
	var deferred *vk.Failure
	sampleOK := Wf-1 >= 0.5 // documented: with weights summing to 1 or less a biased estimator should be used
	var sdRef float64
	for _, e := range vr {
		if e.needMean && !vk.SameBits(e.gotMean, mean) {
			return vk.Failf("mean-consistency", "%s mean %v differs from Mean %v %s", e.name, e.gotMean, mean, ctx)
		}
		if e.k == 1 && !sampleOK {
			continue
		}
		v, tol := r.variance(e.k)
		want, wtol := v, tol
		if e.sd {
			want, wtol = math.Sqrt(v), sdTol(v, tol)
			if e.k == 1 {
				sdRef = want
			}
		}
		// variance >= 0 (a negative rounding residue also turns the standard
		// deviation into NaN)
		if e.got < 0 || math.IsNaN(e.got) {
			// reported after the other oracles so that the search continues
			// behind a recorded finding
			if deferred == nil {
				deferred = vk.Failf("variance-negative", "%s = %v %s", e.name, e.got, ctx)
			}
			if math.IsNaN(e.got) {
				continue
			}
		}
		if f := failClose("variance-formula", e.got, want, wtol, e.name+" "+ctx); f != nil {
			return f
		}
	}

	// --- Moment, MomentAbout
	k := c.Moment
	{
		want, tol := momentRef(x, w, r.m, r.em, k)
		got := stat.Moment(float64(k), x, w)
		if f := failClose("moment", got, want, tol, fmt.Sprintf("k=%d %s", k, ctx)); f != nil {
			return f
		}
		var mu float64
		switch c.About {
		case 1:
			mu = x[0]
		case 2:
			mu = 1.5
		}
		want, tol = momentRef(x, w, df(mu), 0, k)
		got = stat.MomentAbout(float64(k), x, mu, w)
		if f := failClose("moment-about", got, want, tol, fmt.Sprintf("k=%d mu=%v %s", k, mu, ctx)); f != nil {
			return f
		}
	}

	// --- Skew, ExKurtosis (need non-constant data and enough weight)
	sk := shapeRef(r)
	if sk.okSkew {
		if f := failClose("skew", stat.Skew(x, w), sk.skew, sk.tolSkew, ctx); f != nil {
			return f
		}
	}
	if sk.okKurt {
		if f := failClose("exkurtosis", stat.ExKurtosis(x, w), sk.kurt, sk.tolKurt, ctx); f != nil {
			return f
		}
	}
	if !constant && !sk.okSkew {
		vk.Class("uni skew-skipped (ill-conditioned or total weight too small)")
	}

	// --- Mode
	{
		val, cnt := stat.Mode(x, w)
		ref := map[float64]float64{}
		for i, v := range x {
			ref[v] += wOr1(w, i)
		}
		var best float64
		for _, cv := range ref {
			if cv > best {
				best = cv
			}
		}
		if cnt != best {
			return vk.Failf("mode-count", "Mode count %v want %v %s", cnt, best, ctx)
		}
		if best > 0 {
			if cv, ok := ref[val]; !ok || cv != best {
				return vk.Failf("mode-value", "Mode value %v has weight %v, maximum is %v %s", val, cv, best, ctx)
			}
		}
	}

	// --- StdErr, StdScore
	if sd := stat.StdDev(x, w); !constant && sdRef > 0 && sd > 0 {
		if f := failClose("stderr", stat.StdErr(sd, nf), sd/math.Sqrt(nf), 4*u*sd/math.Sqrt(nf), ctx); f != nil {
			return f
		}
		z := stat.StdScore(x[n-1], mean, sd)
		want := df(x[n-1]).subf(mean).divf(sd).f()
		if f := failClose("stdscore", z, want, 4*u*math.Abs(want), ctx); f != nil {
			return f
		}
	}

	// --- weights of all ones == nil weights (to rounding)
	if c.S.WC == wcOnes {
		if f := failClose("ones-nil-mean", mean, stat.Mean(x, nil), 2*r.em, ctx); f != nil {
			return f
		}
		_, tolv := r.variance(1)
		if n >= 2 {
			if f := failClose("ones-nil-variance", stat.Variance(x, w), stat.Variance(x, nil), 2*tolv, ctx); f != nil {
				return f
			}
		}
		mv, mc := stat.Mode(x, nil)
		wv, wcnt := stat.Mode(x, w)
		if mc != wcnt {
			return vk.Failf("ones-nil-mode", "count %v vs %v (%v,%v) %s", mc, wcnt, mv, wv, ctx)
		}
	}

	// --- integer weights == replication (population quantities, Mode)
	if w != nil && exactWeights(w) && Wf <= 1000 {
		rx := replicate(x, w)
		rr := newUniRef(rx, nil)
		if f := failClose("replication-mean", stat.Mean(rx, nil), r.m.f(), rr.em, ctx); f != nil {
			return f
		}
		vp, _ := r.variance(0)
		_, tolp := rr.variance(0)
		if f := failClose("replication-popvariance", stat.PopVariance(rx, nil), vp, tolp, ctx); f != nil {
			return f
		}
		// the sample variance divides by (sum w - 1), which equals len(rx)-1
		if sampleOK {
			vs, _ := r.variance(1)
			_, tolv := rr.variance(1)
			if f := failClose("replication-variance", stat.Variance(rx, nil), vs, tolv, ctx); f != nil {
				return f
			}
		}
		wantm, _ := momentRef(x, w, r.m, r.em, k)
		_, tolm := momentRef(rx, nil, rr.m, rr.em, k)
		if f := failClose("replication-moment", stat.Moment(float64(k), rx, nil), wantm, tolm, ctx); f != nil {
			return f
		}
		_, c1 := stat.Mode(x, w)
		_, c2 := stat.Mode(rx, nil)
		if c1 != c2 {
			return vk.Failf("replication-mode", "count %v vs %v %s", c1, c2, ctx)
		}
	}

	// --- joint permutation invariance
	{
		p := vk.NewSplitMix(c.Perm).Perm(n)
		px, pw := permuted(p, x, w)
		if f := failClose("perm-mean", stat.Mean(px, pw), mean, 2*r.em, ctx); f != nil {
			return f
		}
		if sampleOK {
			_, tolv := r.variance(1)
			if f := failClose("perm-variance", stat.Variance(px, pw), stat.Variance(x, w), 2*tolv, ctx); f != nil {
				return f
			}
		}
		_, tolm := momentRef(x, w, r.m, r.em, k)
		if f := failClose("perm-moment", stat.Moment(float64(k), px, pw), stat.Moment(float64(k), x, w), 2*tolm, ctx); f != nil {
			return f
		}
		_, c1 := stat.Mode(x, w)
		_, c2 := stat.Mode(px, pw)
		if math.Abs(c1-c2) > 2*nf*u*c1 {
			return vk.Failf("perm-mode", "count %v vs %v %s", c1, c2, ctx)
		}
	}

	// --- affine map y = a*x + b: mean equivariant, variance scales by a^2,
	// skew keeps |.| and takes the sign of a, excess kurtosis invariant. The
	// transformed sample has its own rounding, so it is compared with its own
	// double-double reference moments (exact map in double-double).
	if a, b := float64(c.A), float64(c.B); a != 0 && c.S.DC != dcWide {
		y := make([]float64, n)
		exact := true
		for i, v := range x {
			y[i] = a*v + b
			if df(a).mulf(v).addf(b).sub(df(y[i])).f() != 0 {
				exact = false
			}
		}
		if exact {
			vk.Class("uni affine-exact")
			ry := newUniRef(y, w)
			// reference identity (checks the harness oracle itself and the map)
			wantMean := r.m.mulf(a).addf(b).f()
			if f := failClose("affine-mean", stat.Mean(y, w), wantMean, ry.em+4*u*math.Abs(wantMean), ctx); f != nil {
				return f
			}
			if sampleOK {
				v, _ := r.variance(1)
				_, toly := ry.variance(1)
				if f := failClose("affine-variance", stat.Variance(y, w), a*a*v, toly+8*u*a*a*v, fmt.Sprintf("a=%v b=%v %s", a, b, ctx)); f != nil {
					return f
				}
			}
			// skewness takes the sign of a, excess kurtosis is invariant
			if sy := shapeRef(ry); sk.okSkew && sy.okSkew {
				sg := 1.0
				if a < 0 {
					sg = -1
				}
				if f := failClose("affine-skew", stat.Skew(y, w), sg*stat.Skew(x, w), sk.tolSkew+sy.tolSkew, fmt.Sprintf("a=%v b=%v %s", a, b, ctx)); f != nil {
					return f
				}
				if sk.okKurt && sy.okKurt {
					if f := failClose("affine-exkurtosis", stat.ExKurtosis(y, w), stat.ExKurtosis(x, w), sk.tolKurt+sy.tolKurt, fmt.Sprintf("a=%v b=%v %s", a, b, ctx)); f != nil {
						return f
					}
				}
			}
		}
	}
	return deferred
}

func drawUni(t *rapid.T) uniCase {
	c := uniCase{}
	c.S = drawSample(t, 1, 200, []int{dcTies, dcTies, dcConst, dcDyadic, dcGauss, dcGauss, dcWide}, []int{wcNil, wcOnes, wcInts, wcReal, wcZeros})
	c.Moment = rapid.IntRange(0, 4).Draw(t, "moment")
	c.About = rapid.IntRange(0, 2).Draw(t, "about")
	a := rapid.SampledFrom([]float64{1, -1, 2, -0.5, 3, -4, 0.25}).Draw(t, "a")
	b := rapid.SampledFrom([]float64{0, 1, -2, 0.5, 16}).Draw(t, "b")
	c.A, c.B = vk.F(a), vk.F(b)
	c.Perm = rapid.Uint64().Draw(t, "perm")
	return c
}

func TestUni(t *testing.T) {
	vk.Run(t, "uni", vk.Opts{Quick: 60000, Thorough: 900000, NoCrumb: true}, drawUni, checkUni)
}

// ---- positive data: GeometricMean, HarmonicMean; angles: CircularMean ----------

type posCase struct {
	S    sample
	Perm uint64
}

func checkPos(c posCase) *vk.Failure {
	x, w := c.S.data()
	n := len(x)
	nf := float64(n)
	// map to positive values, keeping the class character (ties stay ties)
	for i, v := range x {
		x[i] = math.Abs(v) + 0.125
	}
	vk.Class("pos " + c.S.label())
	if n >= 3 && !isConst(x) && (w != nil || hasTies(x)) {
		vk.NonTrivial("pos", c.S.WC, c.S.DC, nClass(n), hasTies(x))
	}
	vk.Sample("pos", c)
	ctx := ctxOf(x, w)
	W := sumW(w, n)
	Wf := W.f()

	// GeometricMean = exp(sum w log x / W)
	var sl, al dd
	var maxLogX, maxLogW float64
	for i, v := range x {
		l := math.Log(v)
		wi := wOr1(w, i)
		sl = sl.add(df(l).mulf(wi))
		al = al.add(df(math.Abs(l)).mulf(wi))
		maxLogX = math.Max(maxLogX, math.Abs(l))
		if wi > 0 {
			maxLogW = math.Max(maxLogW, math.Abs(math.Log(wi)))
		}
	}
	L := sl.div(W).f()
	errL := (nf + 6) * u * al.f() / Wf
	gm := math.Exp(L)
	got := stat.GeometricMean(x, w)
	if f := failClose("geometric-mean", got, gm, gm*(2*errL+4*u+2*u*math.Abs(L)), ctx); f != nil {
		return f
	}
	// HarmonicMean = W / sum (w/x)
	var sh dd
	for i, v := range x {
		sh = sh.add(df(wOr1(w, i)).divf(v))
	}
	hm := W.div(sh).f()
	lse := math.Log(sh.f())
	relh := 2 * ((nf+8)*u + 3*u*(maxLogW+maxLogX+math.Abs(math.Log(Wf))+math.Abs(lse)))
	goth := stat.HarmonicMean(x, w)
	if f := failClose("harmonic-mean", goth, hm, hm*relh, ctx); f != nil {
		return f
	}
	// harmonic <= geometric <= arithmetic (to the same rounding)
	am := stat.Mean(x, w)
	if goth > got*(1+relh+2*errL+8*u) || got > am*(1+2*errL+2*(nf+8)*u) {
		return vk.Failf("mean-inequality", "H=%v G=%v A=%v %s", goth, got, am, ctx)
	}
	// permutation invariance
	p := vk.NewSplitMix(c.Perm).Perm(n)
	px, pw := permuted(p, x, w)
	if f := failClose("perm-geometric", stat.GeometricMean(px, pw), got, 2*gm*(2*errL+4*u+2*u*math.Abs(L)), ctx); f != nil {
		return f
	}
	if f := failClose("perm-harmonic", stat.HarmonicMean(px, pw), goth, 2*hm*relh, ctx); f != nil {
		return f
	}
	// ones == nil, replication
	if c.S.WC == wcOnes {
		if f := failClose("ones-nil-geometric", stat.GeometricMean(x, nil), got, 2*gm*(2*errL+4*u+2*u*math.Abs(L)), ctx); f != nil {
			return f
		}
		if f := failClose("ones-nil-harmonic", stat.HarmonicMean(x, nil), goth, 2*hm*relh, ctx); f != nil {
			return f
		}
	}
	if w != nil && exactWeights(w) && Wf <= 1000 {
		rx := replicate(x, w)
		if f := failClose("replication-geometric", stat.GeometricMean(rx, nil), got, 2*gm*(2*errL*Wf/nf+4*u+2*u*math.Abs(L)), ctx); f != nil {
			return f
		}
		if f := failClose("replication-harmonic", stat.HarmonicMean(rx, nil), goth, 2*hm*relh*(Wf+8)/(nf+8), ctx); f != nil {
			return f
		}
	}
	return nil
}

func TestPos(t *testing.T) {
	vk.Run(t, "pos", vk.Opts{Quick: 15000, Thorough: 250000, NoCrumb: true}, func(t *rapid.T) posCase {
		return posCase{
			S:    drawSample(t, 1, 200, []int{dcTies, dcConst, dcDyadic, dcGauss, dcWide}, []int{wcNil, wcOnes, wcInts, wcReal, wcZeros}),
			Perm: rapid.Uint64().Draw(t, "perm"),
		}
	}, checkPos)
}

type circCase struct {
	S     sample
	Shift vk.F
	Perm  uint64
}

func angDiff(a, b float64) float64 {
	d := math.Abs(a - b)
	if d > math.Pi {
		d = math.Abs(2*math.Pi - d)
	}
	return d
}

func checkCirc(c circCase) *vk.Failure {
	x, w := c.S.data()
	n := len(x)
	nf := float64(n)
	vk.Class("circ " + c.S.label())
	if n >= 3 && !isConst(x) && (w != nil || hasTies(x)) {
		vk.NonTrivial("circ", c.S.WC, c.S.DC, nClass(n), hasTies(x))
	}
	vk.Sample("circ", c)
	ctx := ctxOf(x, w)
	ref := func(x, w []float64) (ang, tol, amp float64, ok bool) {
		var ss, sc, as, ac dd
		for i, v := range x {
			wi := wOr1(w, i)
			s, co := math.Sin(v), math.Cos(v)
			ss = ss.add(df(s).mulf(wi))
			sc = sc.add(df(co).mulf(wi))
			as = as.add(df(math.Abs(s)).mulf(wi))
			ac = ac.add(df(math.Abs(co)).mulf(wi))
		}
		es := (nf + 6) * u * as.f()
		ec := (nf + 6) * u * ac.f()
		R := math.Hypot(ss.f(), sc.f())
		e := math.Hypot(es, ec)
		if !(R > 1000*e) {
			return 0, 0, 0, false
		}
		return math.Atan2(ss.f(), sc.f()), 2*e/R + 8*u*math.Pi, sumW(w, len(x)).f() / R, true
	}
	want, tol, _, ok := ref(x, w)
	if !ok {
		vk.Class("circ resultant-too-small")
		return nil
	}
	got := stat.CircularMean(x, w)
	if d := angDiff(got, want); !(d <= tol) || got < -math.Pi || got > math.Pi {
		return vk.Failf("circular-mean", "got %v want %v tol %v %s", got, want, tol, ctx)
	}
	p := vk.NewSplitMix(c.Perm).Perm(n)
	px, pw := permuted(p, x, w)
	if d := angDiff(stat.CircularMean(px, pw), got); !(d <= 2*tol) {
		return vk.Failf("perm-circular", "diff %v tol %v %s", d, tol, ctx)
	}
	if c.S.WC == wcOnes {
		if d := angDiff(stat.CircularMean(x, nil), got); !(d <= 2*tol) {
			return vk.Failf("ones-nil-circular", "diff %v tol %v %s", d, tol, ctx)
		}
	}
	if w != nil && exactWeights(w) && sumW(w, n).f() <= 1000 {
		if d := angDiff(stat.CircularMean(replicate(x, w), nil), got); !(d <= 4*tol*sumW(w, n).f()/nf) {
			return vk.Failf("replication-circular", "diff %v tol %v %s", d, tol, ctx)
		}
	}
	// rotation equivariance: mean(x + s) = mean(x) + s (mod 2 pi)
	s := float64(c.Shift)
	y := make([]float64, n)
	for i, v := range x {
		y[i] = v + s
	}
	wy, toly, amp, ok := ref(y, w)
	if ok {
		if d := angDiff(stat.CircularMean(y, w), wy); !(d <= toly) {
			return vk.Failf("circular-mean-shifted", "diff %v tol %v s=%v %s", d, toly, s, ctx)
		}
		// |y_i - (x_i+s)| <= u |y_i|
		slack := tol + toly + 2*u*(maxAbs(y)+1)*amp
		if d := angDiff(stat.CircularMean(y, w), math.Remainder(got+s, 2*math.Pi)); !(d <= slack) {
			return vk.Failf("circular-rotation", "diff %v slack %v s=%v %s", d, slack, s, ctx)
		}
	}
	return nil
}

func TestCirc(t *testing.T) {
	vk.Run(t, "circ", vk.Opts{Quick: 10000, Thorough: 150000, NoCrumb: true}, func(t *rapid.T) circCase {
		return circCase{
			S:     drawSample(t, 1, 200, []int{dcTies, dcConst, dcDyadic, dcGauss}, []int{wcNil, wcOnes, wcInts, wcReal, wcZeros}),
			Shift: vk.F(float64(rapid.IntRange(-32, 32).Draw(t, "shift")) / 8),
			Perm:  rapid.Uint64().Draw(t, "perm"),
		}
	}, checkCirc)
}
