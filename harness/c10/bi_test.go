package c10

import (
	"fmt"
	"math"
	"testing"

	"gonum.org/v1/gonum/stat"
	"pgregory.net/rapid"
	"verifharness/vk"
)

// ---- bivariate statistics --------------------------------------------------------
//
// Covariance, Correlation, BivariateMoment, Kendall, LinearRegression, RSquared,
// RSquaredFrom, RNoughtSquared.

type biCase struct {
	S     sample // x and the weights
	YMode int    // 0: independent sample of class YDC, 1: y = a*x+b+noise, 2: y = a*x+b exactly (dyadic a,b), 3: y = x
	YDC   int
	YSeed uint64
	Y     []vk.F `json:",omitempty"` // explicit y for small integer-like samples
	A, B  vk.F
	R, Sm int // BivariateMoment exponents, R+Sm <= 4
	Perm  uint64
}

func (c biCase) y(x []float64) []float64 {
	n := len(x)
	if c.Y != nil {
		return vk.Fs(c.Y)
	}
	a, b := float64(c.A), float64(c.B)
	switch c.YMode {
	case 1:
		r := vk.NewSplitMix(c.YSeed)
		y := make([]float64, n)
		sc := maxAbs(x)
		for i, v := range x {
			y[i] = a*v + b + 0.1*sc*r.Norm()
		}
		return y
	case 2:
		y := make([]float64, n)
		for i, v := range x {
			y[i] = a*v + b
		}
		return y
	case 3:
		return cloneF(x)
	}
	return expandData(n, c.YDC, c.YSeed)
}

type biRef struct {
	rx, ry *uniRef
	C      dd      // sum w dx dy
	tolC   float64 // bound on the error of the corrected two-pass cross sum
}

func newBiRef(x, y, w []float64) *biRef {
	b := &biRef{rx: newUniRef(x, w), ry: newUniRef(y, w)}
	var c dd
	for i := range x {
		dx := df(x[i]).sub(b.rx.m)
		dy := df(y[i]).sub(b.ry.m)
		c = c.add(dx.mul(dy).mulf(wOr1(w, i)))
	}
	b.C = c
	n := float64(len(x))
	Wf := b.rx.W.f()
	emx, emy := b.rx.em, b.ry.em
	T2x := b.rx.S.f() + Wf*emx*emx
	T2y := b.ry.S.f() + Wf*emy*emy
	T1x := b.rx.T1 + Wf*emx
	T1y := b.ry.T1 + Wf*emy
	b.tolC = 2 * ((n+8)*u*(math.Sqrt(T2x*T2y)+Wf*emx*emy) + 2*(n+3)*u*(emx*T1y+emy*T1x))
	return b
}

// kendallRef is the Tau-a statistic: (concordant - discordant) weighted pair
// mass over the total pair mass; tied pairs are neither.
func kendallRef(x, y, w []float64) (tau float64, ties bool) {
	var num, den dd
	n := len(x)
	for i := 0; i < n; i++ {
		for j := i + 1; j < n; j++ {
			wt := df(wOr1(w, i)).mulf(wOr1(w, j))
			den = den.add(wt)
			s := (x[j] - x[i]) * (y[j] - y[i])
			switch {
			case x[j] == x[i] || y[j] == y[i]:
				ties = true
			case (x[j] > x[i]) == (y[j] > y[i]):
				num = num.add(wt)
			default:
				num = num.sub(wt)
			}
			_ = s
		}
	}
	return num.div(den).f(), ties
}

func checkBi(c biCase) *vk.Failure {
	x, w := c.S.data()
	y := c.y(x)
	n := len(x)
	nf := float64(n)
	lbl := fmt.Sprintf("%s ymode=%d", c.S.label(), c.YMode)
	vk.Class("bi " + lbl)
	constant := isConst(x) || isConst(y)
	if n >= 3 && !constant && (w != nil || hasTies(x) || hasTies(y)) {
		vk.NonTrivial("bi", c.S.WC, c.S.DC, c.YMode, c.YDC, nClass(n), c.R, c.Sm, hasTies(x))
	}
	vk.Sample("bi", c)
	ctx := fmt.Sprintf("%s y=%v", ctxOf(x, w), y)
	if n > 12 {
		ctx = fmt.Sprintf("n=%d", n)
	}
	b := newBiRef(x, y, w)
	Wf := b.rx.W.f()
	sampleOK := Wf-1 >= 0.5
	var deferred *vk.Failure

	// --- Covariance = sum w dx dy / (W-1)
	var cov, tolCov float64
	if sampleOK {
		den := b.rx.W.subf(1)
		cov = b.C.div(den).f()
		tolCov = b.tolC/den.f() + math.Abs(cov)*(b.rx.relWminus(1)+2*u)
		got := stat.Covariance(x, y, w)
		if f := failClose("covariance", got, cov, tolCov, ctx); f != nil {
			return f
		}
		// symmetric in its arguments, and Covariance(x,x) == Variance(x)
		if f := failClose("covariance-symmetry", stat.Covariance(y, x, w), got, 2*tolCov, ctx); f != nil {
			return f
		}
		_, tolv := b.rx.variance(1)
		if f := failClose("covariance-xx-variance", stat.Covariance(x, x, w), stat.Variance(x, w), 2*tolv, ctx); f != nil {
			return f
		}
	}

	// --- Correlation
	Sx, Sy := b.rx.S.f(), b.ry.S.f()
	corrOK := !constant && Sx > 0 && Sy > 0 && b.rx.tolS/Sx < 1e-3 && b.ry.tolS/Sy < 1e-3
	if corrOK {
		want := b.C.div(b.rx.S.mul(b.ry.S).sqrt()).f()
		tol := 2 * (b.tolC/math.Sqrt(Sx*Sy) + math.Abs(want)*(b.rx.tolS/Sx+b.ry.tolS/Sy) + 4*u)
		got := stat.Correlation(x, y, w)
		if f := failClose("correlation", got, want, tol, ctx); f != nil {
			return f
		}
		// The property states that correlations lie in [-1,1]: a value above one
		// (a rounding residue of sxy/sqrt(sxx*syy)) makes Sqrt(1-r*r) and Acos(r)
		// NaN. Reported after the other oracles.
		if math.Abs(got) > 1 && deferred == nil {
			deferred = vk.Failf("correlation-exceeds-one", "Correlation = %.17g, |r|-1 = %.3g %s", got, math.Abs(got)-1, ctx)
		}
		// and in any case within n*eps of the interval (well conditioned samples)
		condx := Wf * b.rx.em * b.rx.em / Sx
		condy := Wf * b.ry.em * b.ry.em / Sy
		if condx < 1e-8 && condy < 1e-8 {
			if math.Abs(got) > 1+8*(nf+8)*u {
				return vk.Failf("correlation-range", "|r|-1 = %.3g %s", math.Abs(got)-1, ctx)
			}
		}
		if c.YMode == 3 || c.YMode == 2 {
			// exactly linear relation: r = sign(a)
			sg := 1.0
			if c.YMode == 2 && float64(c.A) < 0 {
				sg = -1
			}
			if !(c.YMode == 2 && float64(c.A) == 0) {
				if f := failClose("correlation-linear", got, sg, tol, ctx); f != nil {
					return f
				}
			}
		}
		// affine invariance: Correlation(x, -2y+1) = -Correlation(x, y) (exact map only)
		y2 := make([]float64, n)
		exactMap := true
		for i, v := range y {
			y2[i] = -2*v + 1
			if df(-2).mulf(v).addf(1).sub(df(y2[i])).f() != 0 {
				exactMap = false
			}
		}
		if exactMap {
			vk.Class("bi affine-exact")
			b2 := newBiRef(x, y2, w)
			tol2 := 2 * (b2.tolC/math.Sqrt(Sx*b2.ry.S.f()) + math.Abs(want)*(b2.rx.tolS/Sx+b2.ry.tolS/b2.ry.S.f()) + 4*u)
			if f := failClose("affine-correlation", stat.Correlation(x, y2, w), -got, tol+tol2, ctx); f != nil {
				return f
			}
			if sampleOK {
				if f := failClose("affine-covariance", stat.Covariance(x, y2, w), -2*stat.Covariance(x, y, w), 2*tolCov+b2.tolC/(Wf-1)*1.01+8*u*math.Abs(cov), ctx); f != nil {
					return f
				}
			}
		}
		if f := failClose("correlation-symmetry", stat.Correlation(y, x, w), got, 2*tol, ctx); f != nil {
			return f
		}
	}

	// --- BivariateMoment(r, s) = sum w dx^r dy^s / W
	{
		r, s := c.R, c.Sm
		var sum dd
		var abs, der float64
		emx, emy := b.rx.em, b.ry.em
		for i := range x {
			dx := df(x[i]).sub(b.rx.m)
			dy := df(y[i]).sub(b.ry.m)
			wi := wOr1(w, i)
			sum = sum.add(dx.powi(r).mul(dy.powi(s)).mulf(wi))
			ax := math.Abs(dx.f()) + emx
			ay := math.Abs(dy.f()) + emy
			abs += wi * math.Pow(ax, float64(r)) * math.Pow(ay, float64(s))
			if r >= 1 {
				der += wi * float64(r) * emx * math.Pow(ax, float64(r-1)) * math.Pow(ay, float64(s))
			}
			if s >= 1 {
				der += wi * float64(s) * emy * math.Pow(ax, float64(r)) * math.Pow(ay, float64(s-1))
			}
		}
		want := sum.div(b.rx.W).f()
		tol := 2 * ((nf+float64(r+s)+16)*u*abs + der) / Wf
		got := stat.BivariateMoment(float64(r), float64(s), x, y, w)
		if f := failClose("bivariate-moment", got, want, tol, fmt.Sprintf("r=%d s=%d %s", r, s, ctx)); f != nil {
			return f
		}
	}

	// --- Kendall (Tau-a)
	if n >= 2 && n <= 120 {
		want, ties := kendallRef(x, y, w)
		got := stat.Kendall(x, y, w)
		tol := 2 * (nf*(nf-1)/2 + 4) * u
		if w == nil || exactWeights(w) {
			tol = 2 * u
		}
		if !ties {
			if f := failClose("kendall", got, want, tol, ctx); f != nil {
				return f
			}
			p := vk.NewSplitMix(c.Perm).Perm(n)
			px, pw := permuted(p, x, w)
			py, _ := permuted(p, y, nil)
			if f := failClose("perm-kendall", stat.Kendall(px, py, pw), got, 2*tol, ctx); f != nil {
				return f
			}
		} else {
			// Tied pairs are neither concordant nor discordant in Tau-a; the
			// value must not depend on the order of the observations.
			vk.Class("bi kendall-with-ties")
			p := vk.NewSplitMix(c.Perm).Perm(n)
			px, pw := permuted(p, x, w)
			py, _ := permuted(p, y, nil)
			gp := stat.Kendall(px, py, pw)
			if !closeTo(got, want, tol) || !closeTo(gp, got, 2*tol) {
				deferred = vk.Failf("kendall-ties", "Kendall=%v, after a joint permutation %v, Tau-a=%v %s", got, gp, want, ctx)
			}
		}
		if math.Abs(got) > 1+tol {
			return vk.Failf("kendall-range", "%v %s", got, ctx)
		}
	}

	// --- LinearRegression, RSquared, RSquaredFrom, RNoughtSquared
	{
		// through the origin: beta = sum w x y / sum w x^2
		var sxy, sxx, axy, syy dd
		for i := range x {
			wi := wOr1(w, i)
			p := df(x[i]).mulf(y[i]).mulf(wi)
			sxy = sxy.add(p)
			axy = axy.add(p.abs())
			sxx = sxx.add(df(x[i]).mulf(x[i]).mulf(wi))
			syy = syy.add(df(y[i]).mulf(y[i]).mulf(wi))
		}
		if sxx.f() > 0 {
			want := sxy.div(sxx).f()
			tol := 2 * ((nf+6)*u*axy.f()/sxx.f() + math.Abs(want)*(nf+6)*u)
			alpha, beta := stat.LinearRegression(x, y, w, true)
			if alpha != 0 {
				return vk.Failf("regression-origin-alpha", "alpha=%v %s", alpha, ctx)
			}
			if f := failClose("regression-origin-beta", beta, want, tol, ctx); f != nil {
				return f
			}
			if syy.f() > 0 {
				// RNoughtSquared = sum w (beta x)^2 / sum w y^2
				wantR := sxx.mulf(beta).mulf(beta).div(syy).f()
				gotR := stat.RNoughtSquared(x, y, w, beta)
				if f := failClose("rnought-squared", gotR, wantR, 4*(nf+8)*u*math.Abs(wantR), ctx); f != nil {
					return f
				}
			}
		}
		// with intercept: beta = cov/var(x), alpha = ybar - beta xbar
		vx, tolvx := b.rx.variance(1)
		if sampleOK && !isConst(x) && vx > 0 && tolvx/vx < 1e-3 {
			wantB := b.C.div(b.rx.S).f()
			tolB := 2 * (tolCov/vx + math.Abs(wantB)*tolvx/vx + 4*u*math.Abs(wantB))
			wantA := b.ry.m.sub(b.C.div(b.rx.S).mul(b.rx.m)).f()
			xm, ym := math.Abs(b.rx.m.f()), math.Abs(b.ry.m.f())
			tolA := 2 * (b.ry.em + tolB*(xm+b.rx.em) + math.Abs(wantB)*b.rx.em + 4*u*(ym+math.Abs(wantB)*xm))
			alpha, beta := stat.LinearRegression(x, y, w, false)
			if f := failClose("regression-beta", beta, wantB, tolB, ctx); f != nil {
				return f
			}
			if f := failClose("regression-alpha", alpha, wantA, tolA, ctx); f != nil {
				return f
			}
			// RSquared for gonum's own line and for a perturbed line
			for pass := 0; pass < 2; pass++ {
				al, be := alpha, beta
				if pass == 1 {
					al, be = alpha+0.5*math.Abs(alpha)+0.25, beta*0.75
				}
				var res, eres, tot, etot float64
				var resd, totd dd
				emy := b.ry.em
				for i := range x {
					wi := wOr1(w, i)
					d := df(y[i]).subf(al).sub(df(be).mulf(x[i]))
					ed := 2 * u * (math.Abs(al) + math.Abs(be*x[i]) + math.Abs(y[i]))
					resd = resd.add(d.mul(d).mulf(wi))
					ad := math.Abs(d.f())
					eres += wi * (2*ad*ed + ed*ed)
					dy := df(y[i]).sub(b.ry.m)
					totd = totd.add(dy.mul(dy).mulf(wi))
					ady := math.Abs(dy.f())
					etot += wi * (2*ady*emy + emy*emy)
				}
				res, tot = resd.f(), totd.f()
				eres += (nf + 6) * u * (res + eres)
				etot += (nf + 6) * u * (tot + etot)
				if !(tot > 0) || etot/tot > 1e-3 {
					vk.Class("bi rsquared-skipped")
					continue
				}
				want := df(1).sub(resd.div(totd)).f()
				tol := 2 * ((eres+(res/tot)*etot)/tot*1.01 + 2*u*(1+res/tot))
				got := stat.RSquared(x, y, w, al, be)
				if f := failClose("rsquared", got, want, tol, fmt.Sprintf("alpha=%v beta=%v %s", al, be, ctx)); f != nil {
					return f
				}
				// RSquaredFrom with the fitted values as estimates
				est := make([]float64, n)
				for i := range x {
					est[i] = al + be*x[i]
				}
				var r2, er2 float64
				var r2d dd
				for i := range x {
					wi := wOr1(w, i)
					d := df(y[i]).subf(est[i])
					r2d = r2d.add(d.mul(d).mulf(wi))
				}
				r2 = r2d.f()
				er2 = (nf + 8) * u * r2
				wantF := df(1).sub(r2d.div(totd)).f()
				tolF := 2 * ((er2+(r2/tot)*etot)/tot*1.01 + 2*u*(1+r2/tot))
				gotF := stat.RSquaredFrom(est, y, w)
				if f := failClose("rsquared-from", gotF, wantF, tolF, ctx); f != nil {
					return f
				}
				if pass == 0 && corrOK {
					// for the least-squares line R^2 equals the squared correlation
					r := b.C.div(b.rx.S.mul(b.ry.S).sqrt()).f()
					tr := b.tolC/math.Sqrt(Sx*Sy) + math.Abs(r)*(b.rx.tolS/Sx+b.ry.tolS/Sy) + 4*u
					// the fitted line differs from the exact one by (tolA, tolB):
					// second order effect on the residual sum, first order bound used
					var sl float64
					for i := range x {
						sl += wOr1(w, i) * (tolA + tolB*math.Abs(x[i])) * (tolA + tolB*math.Abs(x[i]))
					}
					if f := failClose("rsquared-equals-r2", got, r*r, tol+4*tr+2*sl/tot, ctx); f != nil {
						return f
					}
				}
			}
		}
	}

	// --- ones == nil, permutation, replication for covariance / correlation
	p := vk.NewSplitMix(c.Perm).Perm(n)
	px, pw := permuted(p, x, w)
	py, _ := permuted(p, y, nil)
	if sampleOK {
		if f := failClose("perm-covariance", stat.Covariance(px, py, pw), stat.Covariance(x, y, w), 2*tolCov, ctx); f != nil {
			return f
		}
		if c.S.WC == wcOnes {
			if f := failClose("ones-nil-covariance", stat.Covariance(x, y, nil), stat.Covariance(x, y, w), 2*tolCov, ctx); f != nil {
				return f
			}
		}
		if w != nil && exactWeights(w) && Wf <= 600 {
			rx, ry := replicate(x, w), replicate(y, w)
			rb := newBiRef(rx, ry, nil)
			den := rb.rx.W.subf(1).f()
			if f := failClose("replication-covariance", stat.Covariance(rx, ry, nil), cov, rb.tolC/den+4*u*math.Abs(cov), ctx); f != nil {
				return f
			}
			if corrOK {
				want := b.C.div(b.rx.S.mul(b.ry.S).sqrt()).f()
				tol := 2 * (rb.tolC/math.Sqrt(Sx*Sy) + math.Abs(want)*(rb.rx.tolS/Sx+rb.ry.tolS/Sy) + 4*u)
				if f := failClose("replication-correlation", stat.Correlation(rx, ry, nil), want, tol, ctx); f != nil {
					return f
				}
			}
		}
	}
	return deferred
}

func drawBi(t *rapid.T) biCase {
	c := biCase{}
	c.S = drawSample(t, 2, 200, []int{dcTies, dcTies, dcConst, dcDyadic, dcGauss, dcGauss, dcWide}, []int{wcNil, wcOnes, wcInts, wcReal, wcZeros})
	c.YMode = rapid.SampledFrom([]int{0, 0, 0, 1, 1, 2, 3}).Draw(t, "ymode")
	c.YDC = rapid.SampledFrom([]int{dcTies, dcDyadic, dcGauss, dcConst, dcWide}).Draw(t, "ydc")
	c.YSeed = rapid.Uint64().Draw(t, "yseed")
	c.A = vk.F(rapid.SampledFrom([]float64{1, -1, 2, -0.5, 3, 0.25}).Draw(t, "a"))
	c.B = vk.F(rapid.SampledFrom([]float64{0, 1, -2, 0.5}).Draw(t, "b"))
	if c.YMode == 0 && c.S.N <= 12 && c.YDC == dcTies {
		c.Y = make([]vk.F, c.S.N)
		for i := range c.Y {
			c.Y[i] = vk.F(rapid.IntRange(-3, 3).Draw(t, "y"))
		}
	}
	c.R = rapid.IntRange(0, 4).Draw(t, "r")
	c.Sm = rapid.IntRange(0, 4-c.R).Draw(t, "s")
	c.Perm = rapid.Uint64().Draw(t, "perm")
	return c
}

func TestBi(t *testing.T) {
	vk.Run(t, "bi", vk.Opts{Quick: 50000, Thorough: 700000, NoCrumb: true}, drawBi, checkBi)
}
