package c10

import (
	"fmt"
	"testing"

	"gonum.org/v1/gonum/mat"
	"gonum.org/v1/gonum/stat"
	"gonum.org/v1/gonum/stat/spatial"
	"verifharness/vk"
)

func TestProbe(t *testing.T) {
	fmt.Println("kendall", stat.Kendall([]float64{1, 1}, []float64{1, 2}, nil), stat.Kendall([]float64{1, 1}, []float64{2, 1}, nil))
	fmt.Println("kendall3", stat.Kendall([]float64{1, 2, 3}, []float64{5, 5, 5}, nil), stat.Kendall([]float64{3, 2, 1}, []float64{5, 5, 5}, nil))
	for _, c := range []float64{0.1, 0.3, 1.1, 1e-3, 0.7} {
		for n := 2; n < 12; n++ {
			x := make([]float64, n)
			for i := range x {
				x[i] = c
			}
			v := stat.Variance(x, nil)
			if v != 0 {
				fmt.Println("var const", c, n, v, stat.StdDev(x, nil), stat.Mean(x, nil))
			}
		}
	}
	r := vk.Call(func() { stat.Histogram(nil, nil, []float64{1}, nil) })
	fmt.Println("hist", r.Outcome, r.Text)
	// Moran asymmetric band
	n := 5
	b := mat.NewBandDense(n, n, 0, 1, nil)
	d := mat.NewDense(n, n, nil)
	for i := 0; i < n; i++ {
		if i+1 < n {
			b.SetBand(i, i+1, float64(i+1))
			d.Set(i, i+1, float64(i+1))
		}
	}
	data := []float64{1, 3, 2, 7, 5}
	fmt.Println(spatial.GlobalMoransI(data, nil, b))
	fmt.Println(spatial.GlobalMoransI(data, nil, d))
	// CC with xd<yd
	x := mat.NewDense(8, 1, []float64{1, 2, 3, 4, 5, 6, 7, 9})
	y := mat.NewDense(8, 2, []float64{1, 2, 3, 1, 5, 6, 1, 2, 4, 3, 4, 3, 4, 5, 6, 7})
	var cc stat.CC
	fmt.Println(cc.CanonicalCorrelations(x, y, nil))
	r = vk.Call(func() { fmt.Println(cc.CorrsTo(nil)) })
	fmt.Println(r.Outcome, r.Text)
	r = vk.Call(func() { fmt.Println(cc.CorrsTo(make([]float64, 2))) })
	fmt.Println(r.Outcome, r.Text)
	r = vk.Call(func() { var l mat.Dense; cc.LeftTo(&l, true); fmt.Println(mat.Formatted(&l)) })
	fmt.Println(r.Outcome, r.Text)
	r = vk.Call(func() { var l mat.Dense; cc.RightTo(&l, true); fmt.Println(mat.Formatted(&l)) })
	fmt.Println(r.Outcome, r.Text)
}
