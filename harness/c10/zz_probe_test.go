package c10

import (
	"fmt"
	"testing"

	"gonum.org/v1/gonum/mat"
	"gonum.org/v1/gonum/stat/combin"
	"gonum.org/v1/gonum/stat/spatial"
	"verifharness/vk"
)

func TestProbe(t *testing.T) {
	n := 7
	r := vk.NewSplitMix(5)
	d := mat.NewDense(n, n, nil)
	for i := 0; i < n; i++ {
		for j := 0; j < n; j++ {
			if i != j && r.Intn(2) == 0 {
				v := float64(1 + r.Intn(3))
				d.Set(i, j, v)
				d.Set(j, i, v)
			}
		}
	}
	data := []float64{1, 3, 2, 7, 5, 20, 4}
	I, v, z := spatial.GlobalMoransI(data, nil, d)
	fmt.Println("gonum", I, v, z)
	perms := combin.Permutations(n, n)
	var s, s2 float64
	for _, p := range perms {
		x := make([]float64, n)
		for i, j := range p {
			x[i] = data[j]
		}
		Ii, _, _ := spatial.GlobalMoransI(x, nil, d)
		s += Ii
		s2 += Ii * Ii
	}
	m := s / float64(len(perms))
	fmt.Println("perm mean", m, "E", -1/float64(n-1), "perm var", s2/float64(len(perms))-m*m)
}
