package c10

import (
	"fmt"
	"math"
	"testing"

	"gonum.org/v1/gonum/mat"
	"gonum.org/v1/gonum/stat/combin"
	"gonum.org/v1/gonum/stat/mds"
	"gonum.org/v1/gonum/stat/spatial"
	"pgregory.net/rapid"
	"verifharness/vk"
)

// ---- stat/spatial: GlobalMoransI, GetisOrdGStar -------------------------------------------

type spatialCase struct {
	N    int
	DC   int // dcTies, dcDyadic, dcGauss
	Kind int // 0 dense non-negative, 1 dense symmetric, 2 symmetric band, 3 general band (asymmetric), 4 binary contiguity (symmetric)
	K    int // band width
	Seed uint64
	I    int // element for G*
}

// locality returns the matrix entries (spatial weights: non-negative, zero
// diagonal) and, for the band kinds, the band typed
// operand next to the Dense one.
func (c spatialCase) locality() (w []float64, dense *mat.Dense, band mat.Matrix) {
	n := c.N
	r := vk.NewSplitMix(c.Seed ^ 0xfeed)
	w = make([]float64, n*n)
	val := func() float64 { return float64(1+r.Intn(8)) / 4 }
	switch c.Kind {
	case 0:
		for i := range w {
			if r.Intn(3) != 0 && i/n != i%n {
				w[i] = val()
			}
		}
	case 1, 4:
		for i := 0; i < n; i++ {
			for j := i + 1; j < n; j++ {
				if r.Intn(3) != 0 {
					v := val()
					if c.Kind == 4 {
						v = 1
					}
					w[i*n+j], w[j*n+i] = v, v
				}
			}
		}
	case 2:
		k := min(c.K, n-1)
		sb := mat.NewSymBandDense(n, k, nil)
		for i := 0; i < n; i++ {
			for j := i + 1; j < min(n, i+k+1); j++ {
				if r.Intn(4) != 0 {
					v := val()
					sb.SetSymBand(i, j, v)
					w[i*n+j], w[j*n+i] = v, v
				}
			}
		}
		band = sb
	case 3:
		kl, ku := min(c.K, n-1), min((c.K+1)%3, n-1)
		b := mat.NewBandDense(n, n, kl, ku, nil)
		for i := 0; i < n; i++ {
			for j := max(0, i-kl); j < min(n, i+ku+1); j++ {
				if r.Intn(4) != 0 && i != j {
					v := val()
					b.SetBand(i, j, v)
					w[i*n+j] = v
				}
			}
		}
		band = b
	}
	dense = mat.NewDense(n, n, append([]float64(nil), w...))
	return
}

type moranRef struct {
	I, V, Z          float64
	VnoN             float64 // the variance with the kurtosis term lacking its factor n (recorded finding)
	tolI, tolV, tolZ float64
	ok, okV          bool
}

// moranFormula evaluates Moran's I, its variance under randomisation
// (Cliff & Ord: kurtosis b2 = n sum z^4 / (sum z^2)^2) and the z-score.
func moranFormula(x, w []float64, n int) moranRef {
	var res moranRef
	nf := float64(n)
	m, _, A1 := meanRef(x, nil)
	em := 2 * (nf + 4) * u * A1 / nf
	var num, anum, den, m4, s0, s1, s2 dd
	var az, az3 float64
	z := make([]dd, n)
	for i := range x {
		z[i] = df(x[i]).sub(m)
		z2 := z[i].mul(z[i])
		den = den.add(z2)
		m4 = m4.add(z2.mul(z2))
		a := math.Abs(z[i].f())
		az += a
		az3 += (a + em) * (a + em) * (a + em)
	}
	var dnum float64
	for i := 0; i < n; i++ {
		var p dd
		for j := 0; j < n; j++ {
			wij, wji := w[i*n+j], w[j*n+i]
			t := z[i].mul(z[j]).mulf(wij)
			num = num.add(t)
			anum = anum.add(t.abs())
			dnum += math.Abs(wij) * (math.Abs(z[i].f()) + math.Abs(z[j].f()) + em)
			s0 = s0.addf(wij)
			v := df(wij).addf(wji)
			s1 = s1.add(v.mul(v))
			p = p.add(v)
		}
		s2 = s2.add(p.mul(p))
	}
	s1 = s1.mulf(0.5)
	S0, Den := s0.f(), den.f()
	if !(S0 > 0) || !(Den > 0) {
		return res
	}
	k := nf*nf + 16
	eNum := k*u*anum.f() + em*dnum
	eDen := (nf+6)*u*Den + 2*em*az + nf*em*em
	if eDen/Den > 1e-3 {
		return res
	}
	res.ok = true
	I := num.div(den).mulf(nf).div(s0)
	res.I = I.f()
	res.tolI = 2 * (nf / S0) * (eNum/Den + math.Abs(num.f())/Den*(eDen/Den) + k*u*math.Abs(num.f())/Den)
	E := -1 / (nf - 1)
	if n < 4 {
		return res
	}
	ndd := df(nf)
	n2 := ndd.mul(ndd)
	s0s := s0.mul(s0)
	ta := n2.sub(ndd.mulf(3)).addf(3).mul(s1)
	a := ta.sub(ndd.mul(s2)).add(s0s.mulf(3)).mul(ndd)
	b2 := m4.mul(ndd).div(den.mul(den))
	tb := n2.sub(ndd).mul(s1)
	b := tb.sub(ndd.mulf(2).mul(s2)).add(s0s.mulf(6)).mul(b2)
	cc := ndd.subf(1).mul(ndd.subf(2)).mul(ndd.subf(3)).mul(s0s)
	V := a.sub(b).div(cc).subf(E * E)
	res.V = V.f()
	res.VnoN = a.sub(b.div(ndd)).div(cc).subf(E * E).f()
	absA := nf * (ta.abs().f() + nf*s2.f() + 3*s0s.f())
	absB := b2.f() * (tb.f() + 2*nf*s2.f() + 6*s0s.f())
	rb2 := (nf+8)*u + 4*em*az3/m4.f() + 2*eDen/Den
	res.tolV = 2 * (k*u*(absA+absB)/cc.f() + rb2*absB/cc.f() + 4*u*E*E)
	if res.V > 0 && res.tolV/res.V < 1e-3 {
		res.okV = true
		res.Z = I.subf(E).div(V.sqrt()).f()
		res.tolZ = 2 * (res.tolI/math.Sqrt(res.V) + math.Abs(res.Z)*(res.tolV/res.V) + 8*u*math.Abs(res.Z))
	}
	return res
}

// moranSparseKnown is Var(I) as the recorded defects of GlobalMoransI make it
// come out for a locality matrix that implements mat.RowNonZeroDoer: S0, S1
// and S2 visit only the pairs with w_ij != 0 and the kurtosis is not
// multiplied by n.
func moranSparseKnown(x, w []float64, n int) float64 {
	mean := 0.0
	for _, v := range x {
		mean += v
	}
	mean /= float64(n)
	var s0, s1, s2, var2, var4 float64
	for i, v := range x {
		v -= mean
		v *= v
		var2 += v
		var4 += v * v
		var p2 float64
		for j := 0; j < n; j++ {
			wij := w[i*n+j]
			if wij == 0 {
				continue
			}
			wji := w[j*n+i]
			s0 += wij
			t := wij + wji
			s1 += t * t
			p2 += t
		}
		s2 += p2 * p2
	}
	s1 *= 0.5
	nf := float64(n)
	e := -1 / (nf - 1)
	a := nf * ((nf*nf-3*nf+3)*s1 - nf*s2 + 3*s0*s0)
	cc := (nf - 1) * (nf - 2) * (nf - 3) * s0 * s0
	d := var4 / (var2 * var2)
	b := d * ((nf*nf-nf)*s1 - 2*nf*s2 + 6*s0*s0)
	return (a-b)/cc - e*e
}

func checkSpatial(c spatialCase) *vk.Failure {
	n := c.N
	nf := float64(n)
	x := expandData(n, c.DC, c.Seed)
	w, dense, band := c.locality()
	vk.Class(fmt.Sprintf("spatial kind=%d d=%s", c.Kind, dcName[c.DC]))
	if n >= 3 && !isConst(x) {
		vk.NonTrivial("spatial", c.Kind, c.DC, nClass(n), c.K, hasTies(x))
	}
	vk.Sample("spatial", c)
	ctx := fmt.Sprintf("n=%d kind=%d k=%d dc=%d seed=%d", n, c.Kind, c.K, c.DC, c.Seed)
	if n <= 6 {
		ctx += fmt.Sprintf(" x=%v w=%v", x, w)
	}
	var deferred *vk.Failure
	if isConst(x) {
		return nil
	}
	ref := moranFormula(x, w, n)
	if ref.ok {
		gi, gv, gz := spatial.GlobalMoransI(x, nil, dense)
		if f := failClose("morans-i", gi, ref.I, ref.tolI, ctx); f != nil {
			return f
		}
		if n >= 4 && ref.okV {
			// the returned z-score is (I - E[I]) / sqrt(Var(I)) of the returned values
			if gv > 0 {
				wantZ := (gi + 1/(nf-1)) / math.Sqrt(gv)
				if f := failClose("morans-z-consistent", gz, wantZ, 16*u*(math.Abs(wantZ)+1/math.Sqrt(gv)), ctx); f != nil {
					return f
				}
			}
			if !closeTo(gv, ref.V, ref.tolV) {
				// Known finding: the kurtosis term lacks its factor n. Any other
				// deviation is reported separately so that the recorded finding does
				// not mask further defects in the variance computation.
				if !closeTo(gv, ref.VnoN, ref.tolV) {
					return vk.Failf("morans-variance-other", "Var(I)=%v, randomisation variance %v, variance with b2/n %v %s", gv, ref.V, ref.VnoN, ctx)
				}
				deferred = vk.Failf("morans-variance", "Var(I)=%v, randomisation variance %v (tol %.3g); z=%v want %v %s", gv, ref.V, ref.tolV, gz, ref.Z, ctx)
			} else if f := failClose("morans-z", gz, ref.Z, ref.tolZ, ctx); f != nil {
				return f
			}
			// the variance formula is itself verified against the exact variance of
			// I over all permutations of the data (small n)
			if n <= 6 && c.Seed%8 == 0 {
				var s, s2 dd
				cnt := 0
				g := combin.NewPermutationGenerator(n, n)
				px := make([]float64, n)
				for g.Next() {
					p := g.Permutation(nil)
					for i, j := range p {
						px[i] = x[j]
					}
					r := moranFormula(px, w, n)
					s = s.addf(r.I)
					s2 = s2.add(df(r.I).mulf(r.I))
					cnt++
				}
				mean := s.divf(float64(cnt))
				pv := s2.divf(float64(cnt)).sub(mean.mul(mean)).f()
				if math.Abs(pv-ref.V) > 1e-9*(math.Abs(ref.V)+1e-3) || math.Abs(mean.f()+1/(nf-1)) > 1e-9 {
					return vk.Failf("harness-moran-variance-formula", "permutation variance %v formula %v mean %v %s", pv, ref.V, mean.f(), ctx)
				}
				vk.Class("spatial variance-formula-verified-by-permutations")
			}
		}
		// independent of the representation of the locality matrix
		if band != nil {
			bi, bv, bz := spatial.GlobalMoransI(x, nil, band)
			if f := failClose("morans-i-representation", bi, gi, 2*ref.tolI, ctx); f != nil {
				return f
			}
			tv := 2*ref.tolV + 1e-12*math.Abs(gv)
			if n >= 4 && ref.okV && (!closeTo(bv, gv, tv) || !closeTo(bz, gz, 2*ref.tolZ+1e-9*math.Abs(gz))) {
				f := vk.Failf("morans-variance-representation", "band operand: v=%v z=%v; Dense operand with the same entries: v=%v z=%v %s", bv, bz, gv, gz, ctx)
				if c.Kind == 3 {
					// Known finding, modelled exactly so that it does not hide other
					// defects of the sparse path: S1 and S2 are accumulated over the
					// pairs (i,j) with w_ij != 0 only (and the kurtosis term lacks its
					// factor n, the other recorded finding).
					if known := moranSparseKnown(x, w, n); closeTo(bv, known, tv+1e-9*math.Abs(known)) {
						f.Key = "morans-variance-asymmetric-sparse"
					} else {
						f = vk.Failf("morans-variance-asymmetric-sparse-other", "band operand: v=%v; Dense operand with the same entries: v=%v; the recorded defect of the sparse path would give %v %s", bv, gv, known, ctx)
					}
				}
				if deferred == nil || deferred.Key == "morans-variance" {
					deferred = f
				}
			}
		}
	}

	// --- Getis-Ord G*_i
	{
		i := c.I % n
		m, _, A1 := meanRef(x, nil)
		em := 2 * (nf + 4) * u * A1 / nf
		var sw, dwd, adwd, dww, sxx dd
		for j := 0; j < n; j++ {
			wij := w[i*n+j]
			sw = sw.addf(wij)
			t := df(wij).mulf(x[j])
			dwd = dwd.add(t)
			adwd = adwd.add(t.abs())
			dww = dww.add(df(wij).mulf(wij))
			sxx = sxx.add(df(x[j]).mulf(x[j]))
		}
		num := dwd.sub(m.mul(sw))
		// S = sqrt(sum x^2/n - mean^2) (evaluated as the population deviation)
		ru := newUniRef(x, nil)
		pv, tolpv := ru.variance(0)
		R := dww.mulf(nf).sub(sw.mul(sw))
		eR := (nf + 8) * u * (nf*dww.f() + sw.f()*sw.f())
		if pv > 0 && tolpv/pv < 1e-3 && R.f() > 0 && eR/R.f() < 1e-3 {
			s := df(pv).sqrt()
			den := s.mul(R.divf(nf - 1).sqrt())
			want := num.div(den).f()
			eNum := (nf+6)*u*(adwd.f()+math.Abs(m.f())*sw.f()) + em*sw.f()
			tol := 2 * (eNum/den.f() + math.Abs(want)*(tolpv/pv+eR/R.f()+16*u))
			got := spatial.GetisOrdGStar(i, x, nil, dense)
			if f := failClose("getis-ord-gstar", got, want, tol, fmt.Sprintf("i=%d %s", i, ctx)); f != nil {
				return f
			}
			if band != nil {
				gb := spatial.GetisOrdGStar(i, x, nil, band)
				if f := failClose("getis-ord-representation", gb, got, 2*tol, fmt.Sprintf("i=%d %s", i, ctx)); f != nil {
					return f
				}
			}
		}
	}
	// documented panics
	if f := vk.MustPanic("morans-weights-not-implemented", func() { spatial.GlobalMoransI(x, make([]float64, n), dense) }); f != nil {
		return f
	}
	if f := vk.MustPanic("getis-ord-weights-not-implemented", func() { spatial.GetisOrdGStar(0, x, make([]float64, n), dense) }); f != nil {
		return f
	}
	if f := vk.MustPanic("morans-shape", func() { spatial.GlobalMoransI(x[:n-1], nil, dense) }); f != nil {
		return f
	}
	if f := vk.MustPanic("getis-ord-shape", func() { spatial.GetisOrdGStar(0, x[:n-1], nil, dense) }); f != nil {
		return f
	}
	return deferred
}

func TestSpatial(t *testing.T) {
	vk.Run(t, "spatial", vk.Opts{Quick: 10000, Thorough: 150000, NoCrumb: true}, func(t *rapid.T) spatialCase {
		return spatialCase{
			N:    vk.Dim(t, "n", 2, 40, 4, 6),
			DC:   rapid.SampledFrom([]int{dcTies, dcDyadic, dcGauss}).Draw(t, "dc"),
			Kind: rapid.IntRange(0, 4).Draw(t, "kind"),
			K:    rapid.IntRange(0, 4).Draw(t, "k"),
			Seed: rapid.Uint64().Draw(t, "seed"),
			I:    rapid.IntRange(0, 39).Draw(t, "i"),
		}
	}, checkSpatial)
}

// ---- stat/mds: TorgersonScaling ---------------------------------------------------------------

type mdsCase struct {
	N, D    int
	Lattice bool // integer coordinates (exact squared distances)
	Seed    uint64
	EigDst  bool
	// Bad != 0: one dissimilarity is NaN (1) or +Inf (2), so that the
	// eigendecomposition fails; only the documented failure behaviour is checked.
	Bad int `json:",omitempty"`
}

func checkMDS(c mdsCase) *vk.Failure {
	n, d := c.N, c.D
	r := vk.NewSplitMix(c.Seed)
	pts := make([]float64, n*d)
	for i := range pts {
		if c.Lattice {
			pts[i] = float64(r.Intn(9) - 4)
		} else {
			pts[i] = 3 * r.Norm()
		}
	}
	dis := mat.NewSymDense(n, nil)
	d2 := make([]float64, n*n)
	var maxd2 float64
	for i := 0; i < n; i++ {
		for j := i + 1; j < n; j++ {
			var s dd
			for k := 0; k < d; k++ {
				t := df(pts[i*d+k]).subf(pts[j*d+k])
				s = s.add(t.mul(t))
			}
			d2[i*n+j], d2[j*n+i] = s.f(), s.f()
			maxd2 = math.Max(maxd2, s.f())
			dis.SetSym(i, j, s.sqrt().f())
		}
	}
	vk.Class(fmt.Sprintf("mds lattice=%v d=%d", c.Lattice, d))
	vk.NonTrivial("mds", nClass(n), d, c.Lattice, c.EigDst, c.Seed%256)
	vk.Sample("mds", c)
	ctx := fmt.Sprintf("n=%d d=%d lattice=%v seed=%d", n, d, c.Lattice, c.Seed)
	if c.Bad != 0 && n >= 2 {
		bad := math.NaN()
		if c.Bad == 2 {
			bad = math.Inf(1)
		}
		dis.SetSym(0, n-1, bad)
		var fdst mat.Dense
		var fk int
		res := vk.Call(func() { fk, _ = mds.TorgersonScaling(&fdst, nil, dis) })
		vk.Class(fmt.Sprintf("mds non-finite dissimilarity: %v k=%d", res.Outcome, fk))
		// "If the scaling is not successful, dst will be empty upon return."
		if res.Outcome == vk.Returned && fk == 0 && !fdst.IsEmpty() {
			r, cc := fdst.Dims()
			return vk.Failf("torgerson-failure-dst-not-empty", "dissimilarity (0,%d)=%v: k=0 (not successful) but dst is %dx%d, not empty %s", n-1, bad, r, cc, ctx)
		}
		return nil
	}
	var dst mat.Dense
	var eigdst []float64
	var eigbuf []float64
	if c.EigDst {
		// a slice with spare capacity inside a sentinel-filled buffer
		eigdst, eigbuf = sliceView(n, 2)
	}
	var k int
	var eig []float64
	if f := vk.MustReturn("torgerson-total", func() { k, eig = mds.TorgersonScaling(&dst, eigdst, dis) }); f != nil {
		f.Msg += " " + ctx
		return f
	}
	if maxd2 == 0 {
		return nil // all points coincide
	}
	if k == 0 {
		vk.Inconclusive("torgerson-eigen-failed")
		return nil
	}
	nf := float64(n)
	// reference Gram matrix B = -1/2 J D2 J and its spectrum (harness Jacobi)
	rowm := make([]float64, n)
	var tot float64
	for i := 0; i < n; i++ {
		for j := 0; j < n; j++ {
			rowm[i] += d2[i*n+j] / nf
		}
		tot += rowm[i] / nf
	}
	B := make([]float64, n*n)
	var normB float64
	for i := 0; i < n; i++ {
		for j := 0; j < n; j++ {
			B[i*n+j] = -0.5 * (d2[i*n+j] - rowm[i] - rowm[j] + tot)
			normB += B[i*n+j] * B[i*n+j]
		}
	}
	normB = math.Sqrt(normB)
	ev, _ := jacobiEig(B, n)
	tolE := 200 * nf * nf * u * (normB + maxd2)
	// k is the number of non-negative eigenvalues of the returned spectrum and the width of dst
	rr, cc := dst.Dims()
	if rr != n || cc != k {
		return vk.Failf("torgerson-dims", "dst %dx%d, k=%d n=%d %s", rr, cc, k, n, ctx)
	}
	if c.EigDst {
		if len(eig) != n || &eig[0] != &eigdst[0] {
			return vk.Failf("torgerson-eigdst", "eigenvalues not returned in eigdst %s", ctx)
		}
		pos := 0
		for i, v := range eig {
			if i > 0 && v > eig[i-1] {
				return vk.Failf("torgerson-eig-order", "%v %s", eig, ctx)
			}
			if v >= 0 && i == pos {
				pos++
			}
			if f := failClose("torgerson-eigenvalues", v, ev[i], tolE, fmt.Sprintf("i=%d %s", i, ctx)); f != nil {
				return f
			}
		}
		if ok, i := sliceBufIntact(eigbuf, n, 2); !ok {
			return vk.Failf("torgerson-eigdst-parent-modified", "buffer element %d outside eigdst overwritten %s", i, ctx)
		}
		if k != pos {
			return vk.Failf("torgerson-k", "k=%d but %d leading non-negative eigenvalues %v %s", k, pos, eig, ctx)
		}
	} else if eig != nil {
		return vk.Failf("torgerson-eig-nil", "eig=%v with nil eigdst %s", eig, ctx)
	}
	// the number of eigenvalues clearly above the noise is the dimension of the
	// point set, and k is at least that
	rank := 0
	for _, v := range ev {
		if v > 1e3*tolE {
			rank++
		}
	}
	if k < rank {
		return vk.Failf("torgerson-k-small", "k=%d < %d clearly positive eigenvalues %s", k, rank, ctx)
	}
	if rank > d {
		return vk.Failf("harness-mds-rank", "rank %d > d=%d %s", rank, d, ctx)
	}
	// coordinates reproduce the squared distances
	for i := 0; i < n; i++ {
		for j := i + 1; j < n; j++ {
			var s float64
			for a := 0; a < k; a++ {
				t := dst.At(i, a) - dst.At(j, a)
				s += t * t
			}
			if math.Abs(s-d2[i*n+j]) > 8*tolE {
				return vk.Failf("torgerson-distances", "(%d,%d): %v want %v tol %.3g %s", i, j, s, d2[i*n+j], 8*tolE, ctx)
			}
		}
	}
	// documented: panics if dst is not empty
	if f := vk.MustPanic("torgerson-dst-not-empty", func() { mds.TorgersonScaling(mat.NewDense(n, n, nil), nil, dis) }); f != nil {
		return f
	}
	return nil
}

func TestMDS(t *testing.T) {
	vk.Run(t, "mds", vk.Opts{Quick: 5000, Thorough: 80000, NoCrumb: true}, func(t *rapid.T) mdsCase {
		return mdsCase{
			N:       vk.Dim(t, "n", 2, 24, 3, 5),
			D:       rapid.IntRange(1, 4).Draw(t, "d"),
			Lattice: rapid.Bool().Draw(t, "lattice"),
			Seed:    rapid.Uint64().Draw(t, "seed"),
			EigDst:  rapid.Bool().Draw(t, "eigdst"),
			Bad:     rapid.SampledFrom([]int{0, 0, 0, 0, 0, 0, 0, 1, 2}).Draw(t, "bad"),
		}
	}, checkMDS)
}
