package c10

import (
	"fmt"
	"math"
	"testing"

	"gonum.org/v1/gonum/stat"
	"pgregory.net/rapid"
	"verifharness/vk"
)

// ---- probability-vector functionals -----------------------------------------------
//
// Entropy, CrossEntropy, KullbackLeibler, JensenShannon, Hellinger,
// Bhattacharyya, ChiSquare.

type probCase struct {
	N     int
	PKind int // 0 dyadic (sums to 1 exactly), 1 normalised reals, 2 with exact zeros
	QKind int // 0 dyadic, 1 normalised reals, 2 zeros where p is zero, 3 zeros where p is positive, 4 q == p
	Seed  uint64
}

func probVec(n, kind int, seed uint64) []float64 {
	r := vk.NewSplitMix(seed)
	p := make([]float64, n)
	switch kind {
	case 0:
		// composition of 1024 into n parts (zeros allowed)
		for k := 0; k < 1024; k++ {
			p[r.Intn(n)]++
		}
		for i := range p {
			p[i] /= 1024
		}
	default:
		var s float64
		for i := range p {
			p[i] = r.Float() + 1e-3
			if kind == 2 && r.Intn(3) == 0 {
				p[i] = 0
			}
			s += p[i]
		}
		if s == 0 {
			p[0], s = 1, 1
		}
		for i := range p {
			p[i] /= s
		}
	}
	return p
}

func (c probCase) vectors() (p, q []float64) {
	p = probVec(c.N, c.PKind, c.Seed)
	switch c.QKind {
	case 0, 1:
		q = probVec(c.N, c.QKind, c.Seed^0xabcdef)
	case 2, 3:
		q = probVec(c.N, 1, c.Seed^0xabcdef)
		r := vk.NewSplitMix(c.Seed ^ 0x777)
		var s float64
		for i := range q {
			if c.QKind == 2 && p[i] == 0 {
				q[i] = 0
			}
			if c.QKind == 3 && r.Intn(3) == 0 {
				q[i] = 0
			}
			s += q[i]
		}
		if s == 0 {
			q[0], s = 1, 1
		}
		for i := range q {
			q[i] /= s
		}
	default:
		q = cloneF(p)
	}
	return
}

func checkProb(c probCase) *vk.Failure {
	p, q := c.vectors()
	n := len(p)
	nf := float64(n)
	vk.Class(fmt.Sprintf("prob p=%d q=%d", c.PKind, c.QKind))
	zeros := false
	for i := range p {
		if p[i] == 0 || q[i] == 0 {
			zeros = true
		}
	}
	if n >= 3 && (zeros || c.QKind == 4) {
		vk.NonTrivial("prob", c.PKind, c.QKind, nClass(n))
	}
	vk.Sample("prob", c)
	ctx := fmt.Sprintf("n=%d", n)
	if n <= 8 {
		ctx = fmt.Sprintf("p=%v q=%v", p, q)
	}
	lg := math.Log

	// Entropy = -sum p log p (0 log 0 = 0)
	{
		var s, a dd
		for _, v := range p {
			if v != 0 {
				t := df(v).mulf(lg(v))
				s = s.sub(t)
				a = a.add(t.abs())
			}
		}
		got := stat.Entropy(p)
		if f := failClose("entropy", got, s.f(), 2*(nf+6)*u*a.f(), ctx); f != nil {
			return f
		}
		if got < -2*(nf+6)*u*a.f() || got > lg(nf)+2*(nf+6)*u*(a.f()+1) {
			return vk.Failf("entropy-range", "%v not in [0, ln n] %s", got, ctx)
		}
	}
	// CrossEntropy = -sum p log q; KullbackLeibler = sum p (log p - log q)
	{
		var ce, ace, kl, akl dd
		inf := false
		for i, v := range p {
			if v == 0 {
				continue
			}
			if q[i] == 0 {
				inf = true
				continue
			}
			t := df(v).mulf(lg(q[i]))
			ce = ce.sub(t)
			ace = ace.add(t.abs())
			d := df(lg(v)).subf(lg(q[i]))
			kl = kl.add(d.mulf(v))
			akl = akl.add(df(v).mulf((nf+6)*math.Abs(d.f()) + 2*(math.Abs(lg(v))+math.Abs(lg(q[i])))))
		}
		wantCE, wantKL := ce.f(), kl.f()
		if inf {
			wantCE, wantKL = math.Inf(1), math.Inf(1)
		}
		if f := failClose("cross-entropy", stat.CrossEntropy(p, q), wantCE, 2*(nf+6)*u*ace.f(), ctx); f != nil {
			return f
		}
		gotKL := stat.KullbackLeibler(p, q)
		tolKL := 2 * u * akl.f()
		if f := failClose("kullback-leibler", gotKL, wantKL, tolKL, ctx); f != nil {
			return f
		}
		if c.QKind == 4 && gotKL != 0 {
			return vk.Failf("kl-self", "KL(p,p)=%v %s", gotKL, ctx)
		}
		// Gibbs: KL >= 0 for vectors that sum to one (the sums are 1 to n*u)
		if gotKL < -tolKL-4*nf*u {
			return vk.Failf("kl-negative", "%v %s", gotKL, ctx)
		}
	}
	// JensenShannon
	{
		var js, ajs dd
		for i, v := range p {
			qi := q[i]
			m := 0.5 * (v + qi)
			if v != 0 {
				d := df(lg(v)).subf(lg(m))
				js = js.add(d.mulf(0.5 * v))
				ajs = ajs.add(df(0.5 * v).mulf((nf+8)*math.Abs(d.f()) + 3*(math.Abs(lg(v))+math.Abs(lg(m))+1)))
			}
			if qi != 0 {
				d := df(lg(qi)).subf(lg(m))
				js = js.add(d.mulf(0.5 * qi))
				ajs = ajs.add(df(0.5 * qi).mulf((nf+8)*math.Abs(d.f()) + 3*(math.Abs(lg(qi))+math.Abs(lg(m))+1)))
			}
		}
		got := stat.JensenShannon(p, q)
		tol := 2 * u * ajs.f()
		if f := failClose("jensen-shannon", got, js.f(), tol, ctx); f != nil {
			return f
		}
		if f := failClose("jensen-shannon-symmetry", stat.JensenShannon(q, p), got, 2*tol, ctx); f != nil {
			return f
		}
		if got < -tol-4*nf*u || got > math.Ln2+tol+4*nf*u {
			return vk.Failf("jensen-shannon-range", "%v not in [0, ln 2] %s", got, ctx)
		}
	}
	// Hellinger = sqrt(1 - bc), Bhattacharyya = -ln bc, bc = sum sqrt(p q)
	{
		var bc dd
		for i, v := range p {
			bc = bc.add(df(v).mulf(q[i]).sqrt())
		}
		b := bc.f()
		eb := (nf+4)*u*b + 2*u
		gotH := stat.Hellinger(p, q)
		rad := df(1).sub(bc).f()
		loH, hiH := math.Sqrt(math.Max(0, rad-eb)), math.Sqrt(math.Max(0, rad+eb))
		switch {
		case math.IsNaN(gotH):
			// sum sqrt(p q) may round above one when the vectors are (nearly)
			// identical: the radicand is then a negative rounding residue
			if rad-eb > 0 {
				return vk.Failf("hellinger-nan", "1-bc=%v %s", rad, ctx)
			}
			vk.Class("prob hellinger-NaN-for-near-identical-vectors")
		case gotH < loH*(1-4*u)-4*u || gotH > hiH*(1+4*u)+4*u:
			return vk.Failf("hellinger", "got %v want in [%v,%v] %s", gotH, loH, hiH, ctx)
		}
		gotB := stat.Bhattacharyya(p, q)
		if b == 0 {
			if !math.IsInf(gotB, 1) {
				return vk.Failf("bhattacharyya-disjoint", "got %v want +Inf %s", gotB, ctx)
			}
		} else {
			want := -lg(b)
			if f := failClose("bhattacharyya", gotB, want, 2*(eb/b+2*u*math.Abs(want)+2*u), ctx); f != nil {
				return f
			}
		}
	}
	// ChiSquare(obs, exp) = sum (o-e)^2/e, skipping 0/0 terms
	{
		r := vk.NewSplitMix(c.Seed ^ 0x99)
		obs := make([]float64, n)
		exp := make([]float64, n)
		for i := range obs {
			obs[i] = float64(r.Intn(20))
			switch c.PKind {
			case 0:
				exp[i] = float64(1 + r.Intn(20))
			case 1:
				exp[i] = 0.5 + 20*r.Float()
			default:
				exp[i] = float64(r.Intn(4)) // zeros possible
				if exp[i] == 0 && r.Intn(2) == 0 {
					obs[i] = 0
				}
			}
		}
		var s dd
		inf := false
		for i := range obs {
			a, b := obs[i], exp[i]
			if a == 0 && b == 0 {
				continue
			}
			if b == 0 {
				inf = true
				continue
			}
			d := df(a).subf(b)
			s = s.add(d.mul(d).divf(b))
		}
		want := s.f()
		if inf {
			want = math.Inf(1)
		}
		if f := failClose("chi-square", stat.ChiSquare(obs, exp), want, 2*(nf+6)*u*want, fmt.Sprintf("obs=%v exp=%v", obs, exp)); f != nil {
			return f
		}
	}
	return nil
}

func TestProb(t *testing.T) {
	vk.Run(t, "prob", vk.Opts{Quick: 30000, Thorough: 500000, NoCrumb: true}, func(t *rapid.T) probCase {
		return probCase{
			N:     vk.Dim(t, "n", 1, 100, 2, 8, 32),
			PKind: rapid.IntRange(0, 2).Draw(t, "pkind"),
			QKind: rapid.IntRange(0, 4).Draw(t, "qkind"),
			Seed:  rapid.Uint64().Draw(t, "seed"),
		}
	}, checkProb)
}
