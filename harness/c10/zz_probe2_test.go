package c10

import (
	"fmt"
	"testing"

	"verifharness/vk"
)

func TestProbe2(t *testing.T) {
	n := 7
	r := vk.NewSplitMix(5)
	w := make([]float64, n*n)
	for i := 0; i < n; i++ {
		for j := 0; j < n; j++ {
			if i != j && r.Intn(2) == 0 {
				v := float64(1 + r.Intn(3))
				w[i*n+j] = v
				w[j*n+i] = v
			}
		}
	}
	data := []float64{1, 3, 2, 7, 5, 20, 4}
	var mean float64
	for _, v := range data {
		mean += v
	}
	mean /= float64(n)
	var s0, s1, s2, m2, m4 float64
	for i := 0; i < n; i++ {
		z := data[i] - mean
		m2 += z * z
		m4 += z * z * z * z
		var p float64
		for j := 0; j < n; j++ {
			s0 += w[i*n+j]
			v := w[i*n+j] + w[j*n+i]
			s1 += v * v
			p += v
		}
		s2 += p * p
	}
	s1 /= 2
	nf := float64(n)
	for _, D := range []float64{m4 / (m2 * m2), nf * m4 / (m2 * m2)} {
		a := nf * ((nf*nf-3*nf+3)*s1 - nf*s2 + 3*s0*s0)
		b := D * ((nf*nf-nf)*s1 - 2*nf*s2 + 6*s0*s0)
		c := (nf - 1) * (nf - 2) * (nf - 3) * s0 * s0
		e := -1 / (nf - 1)
		fmt.Println("D", D, "V", (a-b)/c-e*e)
	}
}
