// Package c10 checks property C10: descriptive statistics are total on their
// domain and obey their defining identities (gonum stat, stat/spatial, stat/mds).
package c10

import (
	"testing"

	"verifharness/vk"
)

func TestMain(m *testing.M) { vk.Main(m, "C10") }
