package c10

import (
	"math"
	"testing"

	"gonum.org/v1/gonum/stat"
	"verifharness/vk"
)

// ---- argument checks: slice length mismatches and out-of-domain p ----------------------
//
// Every function below starts with an argument-check prologue that panics with
// a package message ("stat: slice length mismatch", ...); a mismatch must never
// surface as a runtime fault or be accepted silently.

type panicCase struct {
	Name string
	N    int
}

var panicTable = []struct {
	name string
	f    func(x, y, short, long []float64, cls []bool)
}{
	{"Mean", func(x, y, s, l []float64, c []bool) { stat.Mean(x, l) }},
	{"Mean-short", func(x, y, s, l []float64, c []bool) { stat.Mean(x, s) }},
	{"Variance", func(x, y, s, l []float64, c []bool) { stat.Variance(x, l) }},
	{"PopVariance", func(x, y, s, l []float64, c []bool) { stat.PopVariance(x, s) }},
	{"StdDev", func(x, y, s, l []float64, c []bool) { stat.StdDev(x, l) }},
	{"MeanVariance", func(x, y, s, l []float64, c []bool) { stat.MeanVariance(x, s) }},
	{"Skew", func(x, y, s, l []float64, c []bool) { stat.Skew(x, l) }},
	{"ExKurtosis", func(x, y, s, l []float64, c []bool) { stat.ExKurtosis(x, s) }},
	{"Moment", func(x, y, s, l []float64, c []bool) { stat.Moment(2, x, l) }},
	{"MomentAbout", func(x, y, s, l []float64, c []bool) { stat.MomentAbout(2, x, 0, l) }},
	{"MomentAbout-short", func(x, y, s, l []float64, c []bool) { stat.MomentAbout(2, x, 0, s) }},
	{"GeometricMean", func(x, y, s, l []float64, c []bool) { stat.GeometricMean(x, l) }},
	{"HarmonicMean", func(x, y, s, l []float64, c []bool) { stat.HarmonicMean(x, s) }},
	{"CircularMean", func(x, y, s, l []float64, c []bool) { stat.CircularMean(x, l) }},
	{"Mode", func(x, y, s, l []float64, c []bool) { stat.Mode(x, s) }},
	{"Covariance-xy", func(x, y, s, l []float64, c []bool) { stat.Covariance(x, l, nil) }},
	{"Covariance-w", func(x, y, s, l []float64, c []bool) { stat.Covariance(x, y, l) }},
	{"Correlation-xy", func(x, y, s, l []float64, c []bool) { stat.Correlation(x, s, nil) }},
	{"Correlation-w", func(x, y, s, l []float64, c []bool) { stat.Correlation(x, y, s) }},
	{"Kendall-xy", func(x, y, s, l []float64, c []bool) { stat.Kendall(x, l, nil) }},
	{"BivariateMoment-xy", func(x, y, s, l []float64, c []bool) { stat.BivariateMoment(1, 1, x, s, nil) }},
	{"BivariateMoment-w", func(x, y, s, l []float64, c []bool) { stat.BivariateMoment(1, 1, x, y, l) }},
	{"LinearRegression-xy", func(x, y, s, l []float64, c []bool) { stat.LinearRegression(x, l, nil, false) }},
	{"LinearRegression-w", func(x, y, s, l []float64, c []bool) { stat.LinearRegression(x, y, s, true) }},
	{"RSquared-xy", func(x, y, s, l []float64, c []bool) { stat.RSquared(x, s, nil, 0, 1) }},
	{"RSquared-w", func(x, y, s, l []float64, c []bool) { stat.RSquared(x, y, l, 0, 1) }},
	{"RSquaredFrom-xy", func(x, y, s, l []float64, c []bool) { stat.RSquaredFrom(x, l, nil) }},
	{"RSquaredFrom-w", func(x, y, s, l []float64, c []bool) { stat.RSquaredFrom(x, y, s) }},
	{"RNoughtSquared-xy", func(x, y, s, l []float64, c []bool) { stat.RNoughtSquared(x, s, nil, 1) }},
	{"RNoughtSquared-w", func(x, y, s, l []float64, c []bool) { stat.RNoughtSquared(x, y, l, 1) }},
	{"Bhattacharyya", func(x, y, s, l []float64, c []bool) { stat.Bhattacharyya(x, l) }},
	{"Hellinger", func(x, y, s, l []float64, c []bool) { stat.Hellinger(x, s) }},
	{"KullbackLeibler", func(x, y, s, l []float64, c []bool) { stat.KullbackLeibler(x, l) }},
	{"JensenShannon", func(x, y, s, l []float64, c []bool) { stat.JensenShannon(x, s) }},
	{"CrossEntropy", func(x, y, s, l []float64, c []bool) { stat.CrossEntropy(x, l) }},
	{"ChiSquare", func(x, y, s, l []float64, c []bool) { stat.ChiSquare(x, s) }},
	{"CDF", func(x, y, s, l []float64, c []bool) { stat.CDF(1, stat.Empirical, x, l) }},
	{"Quantile-w", func(x, y, s, l []float64, c []bool) { stat.Quantile(0.5, stat.Empirical, x, s) }},
	{"Quantile-p>1", func(x, y, s, l []float64, c []bool) { stat.Quantile(1.0000000000000002, stat.Empirical, x, nil) }},
	{"Quantile-p<0", func(x, y, s, l []float64, c []bool) { stat.Quantile(-5e-324, stat.LinInterp, x, nil) }},
	{"Quantile-pNaN", func(x, y, s, l []float64, c []bool) { stat.Quantile(math.NaN(), stat.Empirical, x, nil) }},
	{"Quantile-unsorted", func(x, y, s, l []float64, c []bool) { stat.Quantile(0.5, stat.Empirical, []float64{2, 1}, nil) }},
	{"Quantile-kind", func(x, y, s, l []float64, c []bool) { stat.Quantile(0.5, stat.CumulantKind(2), x, nil) }},
	{"CDF-unsorted", func(x, y, s, l []float64, c []bool) { stat.CDF(0.5, stat.Empirical, []float64{2, 1}, nil) }},
	{"KolmogorovSmirnov-unsorted", func(x, y, s, l []float64, c []bool) { stat.KolmogorovSmirnov([]float64{2, 1}, nil, y, nil) }},
	{"ROC-unsorted", func(x, y, s, l []float64, c []bool) { stat.ROC(nil, []float64{2, 1}, []bool{true, false}, nil) }},
	{"ROC-cutoffs-unsorted", func(x, y, s, l []float64, c []bool) { stat.ROC([]float64{2, 1}, x, c, nil) }},
	{"Histogram-one-divider", func(x, y, s, l []float64, c []bool) { stat.Histogram(nil, []float64{-1e9}, x, nil) }},
	{"Histogram-w", func(x, y, s, l []float64, c []bool) { stat.Histogram(nil, []float64{-1e9, 1e9}, x, l) }},
	{"KolmogorovSmirnov-xw", func(x, y, s, l []float64, c []bool) { stat.KolmogorovSmirnov(x, l, y, nil) }},
	{"KolmogorovSmirnov-yw", func(x, y, s, l []float64, c []bool) { stat.KolmogorovSmirnov(x, nil, y, s) }},
	{"ROC-classes", func(x, y, s, l []float64, c []bool) { stat.ROC(nil, x, c[:len(c)-1], nil) }},
	{"ROC-w", func(x, y, s, l []float64, c []bool) { stat.ROC(nil, x, c, l) }},
	{"TOC-w", func(x, y, s, l []float64, c []bool) { stat.TOC(c, s) }},
	{"SortWeighted", func(x, y, s, l []float64, c []bool) { stat.SortWeighted(x, l) }},
	{"SortWeightedLabeled-w", func(x, y, s, l []float64, c []bool) { stat.SortWeightedLabeled(x, c, s) }},
	{"SortWeightedLabeled-labels", func(x, y, s, l []float64, c []bool) { stat.SortWeightedLabeled(x, c[:len(c)-1], nil) }},
}

func checkPanic(c panicCase) *vk.Failure {
	n := c.N
	x, y := make([]float64, n), make([]float64, n)
	for i := range x {
		x[i], y[i] = float64(i+1), float64(2*i+1)
	}
	short, long := make([]float64, n-1), make([]float64, n+1)
	for i := range short {
		short[i] = 1
	}
	for i := range long {
		long[i] = 1
	}
	cls := make([]bool, n)
	for i := range cls {
		cls[i] = i%2 == 0
	}
	vk.Class("argcheck")
	vk.NonTrivial("argcheck", c.Name, c.N)
	vk.Sample("argcheck", c)
	for _, e := range panicTable {
		if e.name == c.Name {
			f := vk.MustPanic("argcheck-"+e.name, func() { e.f(x, y, short, long, cls) })
			if f != nil {
				f.Msg += " (n=" + string(rune('0'+n)) + ")"
			}
			return f
		}
	}
	return vk.Failf("harness-unknown-entry", "%s", c.Name)
}

func TestArgChecks(t *testing.T) {
	var cases []panicCase
	for _, e := range panicTable {
		for _, n := range []int{2, 5} {
			cases = append(cases, panicCase{e.name, n})
		}
	}
	vk.Enumerate(t, "argcheck", len(cases), func(i int) panicCase { return cases[i] }, checkPanic)
}
