package c10

import (
	"fmt"
	"math"
	"testing"

	"gonum.org/v1/gonum/mat"
	"gonum.org/v1/gonum/stat"
	"pgregory.net/rapid"
	"verifharness/vk"
)

// ---- CovarianceMatrix, CorrelationMatrix, PC, Mahalanobis ----------------------------

// atOnly is a mat.Matrix that offers nothing but Dims, At and T.
type atOnly struct{ m *mat.Dense }

func (a atOnly) Dims() (int, int)    { return a.m.Dims() }
func (a atOnly) At(i, j int) float64 { return a.m.At(i, j) }
func (a atOnly) T() mat.Matrix       { return mat.Transpose{Matrix: a} }

type covCase struct {
	N, D   int
	DC     int // dcTies, dcDyadic, dcGauss, dcWide; dcConst = one constant column
	WC     int
	Seed   uint64
	Rep    int  // 0 Dense, 1 strided view, 2 At-only, 3 transpose of a d×n Dense
	DstPre bool // dst already sized and holding stale values
	// DstView: every matrix / slice destination is a view into a larger
	// sentinel-filled parent (SymDense.SliceSym, Dense.Slice, a slice with spare
	// capacity): same bits as with a fresh destination, parent untouched.
	DstView bool `json:",omitempty"`
}

// sentinel is the value of parent element (i,j) outside a destination view.
func sentinel(i, j int) float64 { return -(12345 + 37*float64(i) + float64(j)) }

// symView returns a d×d view at offset off of a sentinel-filled parent.
func symView(d, off, extra int) (view, parent *mat.SymDense) {
	p := d + off + extra
	parent = mat.NewSymDense(p, nil)
	for i := 0; i < p; i++ {
		for j := i; j < p; j++ {
			parent.SetSym(i, j, sentinel(i, j))
		}
	}
	return parent.SliceSym(off, off+d).(*mat.SymDense), parent
}

// symParentIntact reports the first parent element outside the view that changed.
func symParentIntact(parent *mat.SymDense, d, off int) (ok bool, i, j int) {
	p := parent.SymmetricDim()
	for i := 0; i < p; i++ {
		for j := i; j < p; j++ {
			if i >= off && i < off+d && j >= off && j < off+d {
				continue
			}
			if parent.At(i, j) != sentinel(i, j) {
				return false, i, j
			}
		}
	}
	return true, 0, 0
}

// denseView returns an r×c view at (ro,co) of a sentinel-filled parent.
func denseView(r, c, ro, co int) (view, parent *mat.Dense) {
	parent = mat.NewDense(r+ro+2, c+co+3, nil)
	pr, pc := parent.Dims()
	for i := 0; i < pr; i++ {
		for j := 0; j < pc; j++ {
			parent.Set(i, j, sentinel(i, j))
		}
	}
	return parent.Slice(ro, ro+r, co, co+c).(*mat.Dense), parent
}

func denseParentIntact(parent *mat.Dense, r, c, ro, co int) (ok bool, i, j int) {
	pr, pc := parent.Dims()
	for i := 0; i < pr; i++ {
		for j := 0; j < pc; j++ {
			if i >= ro && i < ro+r && j >= co && j < co+c {
				continue
			}
			if parent.At(i, j) != sentinel(i, j) {
				return false, i, j
			}
		}
	}
	return true, 0, 0
}

// sliceView returns buf[off:off+n] of a sentinel-filled buffer with spare capacity.
func sliceView(n, off int) (view, buf []float64) {
	buf = make([]float64, n+off+3)
	for i := range buf {
		buf[i] = sentinel(0, i)
	}
	return buf[off : off+n], buf
}

func sliceBufIntact(buf []float64, n, off int) (ok bool, i int) {
	for i := range buf {
		if (i < off || i >= off+n) && buf[i] != sentinel(0, i) {
			return false, i
		}
	}
	return true, 0
}

// sameDense reports whether a and b have the same shape and bits.
func sameDense(a, b mat.Matrix) bool {
	ar, ac := a.Dims()
	br, bc := b.Dims()
	if ar != br || ac != bc {
		return false
	}
	for i := 0; i < ar; i++ {
		for j := 0; j < ac; j++ {
			if !vk.SameBits(a.At(i, j), b.At(i, j)) {
				return false
			}
		}
	}
	return true
}

func (c covCase) columns() [][]float64 {
	r := vk.NewSplitMix(c.Seed)
	cols := make([][]float64, c.D)
	dc := c.DC
	if dc == dcConst {
		dc = dcGauss
	}
	for j := range cols {
		cols[j] = expandData(c.N, dc, r.Uint64())
	}
	if c.DC == dcGauss || c.DC == dcConst {
		// correlate the columns: col_j += mix * col_{j-1}
		for j := 1; j < c.D; j++ {
			a := float64(r.Intn(5)-2) / 2
			for i := range cols[j] {
				cols[j][i] += a * cols[j-1][i]
			}
		}
	}
	if c.DC == dcConst {
		j := r.Intn(c.D)
		for i := range cols[j] {
			cols[j][i] = cols[j][0]
		}
	}
	return cols
}

func (c covCase) operand(cols [][]float64) mat.Matrix {
	n, d := c.N, c.D
	switch c.Rep {
	case 1:
		big := mat.NewDense(n+3, d+4, nil)
		for i := 0; i < n+3; i++ {
			for j := 0; j < d+4; j++ {
				big.Set(i, j, math.NaN())
			}
		}
		v := big.Slice(1, n+1, 2, d+2).(*mat.Dense)
		for j, col := range cols {
			for i, x := range col {
				v.Set(i, j, x)
			}
		}
		return v
	case 3:
		t := mat.NewDense(d, n, nil)
		for j, col := range cols {
			t.SetRow(j, col)
		}
		return t.T()
	}
	m := mat.NewDense(n, d, nil)
	for j, col := range cols {
		m.SetCol(j, col)
	}
	if c.Rep == 2 {
		return atOnly{m}
	}
	return m
}

func checkCov(c covCase) *vk.Failure {
	var deferred *vk.Failure
	n, d := c.N, c.D
	nf := float64(n)
	cols := c.columns()
	w := expandWeights(n, c.WC, c.Seed^0x55)
	vk.Class(fmt.Sprintf("covmat w=%s d=%s rep=%d", wcName[c.WC], dcName[c.DC], c.Rep))
	if c.DstView {
		vk.Class("covmat destinations are views of sentinel-filled parents")
	}
	ties := false
	for _, col := range cols {
		ties = ties || hasTies(col)
	}
	if n >= 3 && (w != nil || ties) {
		vk.NonTrivial("covmat", c.WC, c.DC, nClass(n), d, c.Rep, c.DstPre, c.DstView)
	}
	vk.Sample("covmat", c)
	ctx := fmt.Sprintf("n=%d d=%d seed=%d", n, d, c.Seed)
	W := sumW(w, n)
	if W.f()-1 < 0.5 {
		return nil
	}
	const symOff = 1
	var symParents []*mat.SymDense
	newDst := func() *mat.SymDense {
		if c.DstView {
			v, parent := symView(d, symOff, 2)
			symParents = append(symParents, parent)
			return v
		}
		if !c.DstPre {
			return &mat.SymDense{}
		}
		s := mat.NewSymDense(d, nil)
		for i := 0; i < d; i++ {
			for j := i; j < d; j++ {
				s.SetSym(i, j, 1e300)
			}
		}
		return s
	}
	cov := newDst()
	x := c.operand(cols)
	if f := vk.MustReturn("covariance-matrix-total", func() { stat.CovarianceMatrix(cov, x, cloneF(w)) }); f != nil {
		f.Msg += " " + ctx
		return f
	}
	if r, _ := cov.Dims(); r != d {
		return vk.Failf("covariance-matrix-dims", "%d want %d %s", r, d, ctx)
	}
	// independent of the operand representation
	ref := &mat.SymDense{}
	stat.CovarianceMatrix(ref, covCase{N: n, D: d, Rep: 0}.operand(cols), w)
	corr := newDst()
	stat.CorrelationMatrix(corr, x, w)
	refCorr := &mat.SymDense{}
	stat.CorrelationMatrix(refCorr, covCase{N: n, D: d, Rep: 0}.operand(cols), w)
	for i := 0; i < d; i++ {
		for j := 0; j < d; j++ {
			if !vk.SameBits(cov.At(i, j), ref.At(i, j)) || !vk.SameBits(corr.At(i, j), refCorr.At(i, j)) {
				key := "covariance-matrix-representation"
				if c.DstView {
					key = "matrix-destination-view"
				}
				return vk.Failf(key, "(%d,%d): %v vs Dense operand and fresh dst %v; corr %v vs %v (dst view=%v) %s", i, j, cov.At(i, j), ref.At(i, j), corr.At(i, j), refCorr.At(i, j), c.DstView, ctx)
			}
			if !vk.SameBits(cov.At(i, j), cov.At(j, i)) {
				return vk.Failf("covariance-matrix-symmetry", "(%d,%d) %s", i, j, ctx)
			}
		}
	}
	for k, parent := range symParents {
		if ok, i, j := symParentIntact(parent, d, symOff); !ok {
			return vk.Failf("matrix-destination-view-parent-modified", "%s: dst is the %dx%d SliceSym view at offset %d of a %dx%d SymDense; parent element (%d,%d) outside the view was overwritten: %v %s",
				[]string{"CovarianceMatrix", "CorrelationMatrix"}[k], d, d, symOff, parent.SymmetricDim(), parent.SymmetricDim(), i, j, parent.At(i, j), ctx)
		}
	}
	// entries against the double-double formula and against the scalar functions
	den := W.subf(1)
	exactCov := make([]float64, d*d)
	var maxTol, trace float64
	constCol := make([]bool, d)
	for j := range cols {
		constCol[j] = isConst(cols[j])
	}
	for i := 0; i < d; i++ {
		for j := i; j < d; j++ {
			b := newBiRef(cols[i], cols[j], w)
			Wf := W.f()
			want := b.C.div(den).f()
			exactCov[i*d+j], exactCov[j*d+i] = want, want
			tol := (b.tolC+Wf*b.rx.em*b.ry.em)/den.f() + math.Abs(want)*(b.rx.relWminus(1)+4*u)
			if tol > maxTol {
				maxTol = tol
			}
			if i == j {
				trace += want
			}
			got := cov.At(i, j)
			if f := failClose("covariance-matrix-entry", got, want, tol, fmt.Sprintf("(%d,%d) %s", i, j, ctx)); f != nil {
				return f
			}
			sc := stat.Covariance(cols[i], cols[j], w)
			if f := failClose("covariance-matrix-vs-scalar", got, sc, 2*tol, fmt.Sprintf("(%d,%d) %s", i, j, ctx)); f != nil {
				return f
			}
			// correlation
			if i == j {
				if !constCol[i] && corr.At(i, i) != 1 {
					return vk.Failf("correlation-matrix-diagonal", "(%d,%d)=%v %s", i, i, corr.At(i, i), ctx)
				}
				continue
			}
			if constCol[i] || constCol[j] {
				continue
			}
			Sx, Sy := b.rx.S.f(), b.ry.S.f()
			if b.rx.tolS/Sx > 1e-3 || b.ry.tolS/Sy > 1e-3 {
				continue
			}
			wr := b.C.div(b.rx.S.mul(b.ry.S).sqrt()).f()
			tr := 2 * ((b.tolC+Wf*b.rx.em*b.ry.em)/math.Sqrt(Sx*Sy) + math.Abs(wr)*((b.rx.tolS+Wf*b.rx.em*b.rx.em)/Sx+(b.ry.tolS+Wf*b.ry.em*b.ry.em)/Sy) + 8*u)
			gr := corr.At(i, j)
			if f := failClose("correlation-matrix-entry", gr, wr, tr, fmt.Sprintf("(%d,%d) %s", i, j, ctx)); f != nil {
				return f
			}
			if f := failClose("correlation-matrix-vs-scalar", gr, stat.Correlation(cols[i], cols[j], w), 2*tr, fmt.Sprintf("(%d,%d) %s", i, j, ctx)); f != nil {
				return f
			}
			if math.Abs(gr) > 1 && deferred == nil {
				deferred = vk.Failf("correlation-matrix-exceeds-one", "CorrelationMatrix (%d,%d) = %.17g, |r|-1 = %.3g %s", i, j, gr, math.Abs(gr)-1, ctx)
			}
			if Wf*b.rx.em*b.rx.em/Sx < 1e-8 && Wf*b.ry.em*b.ry.em/Sy < 1e-8 && math.Abs(gr) > 1+8*(nf+8)*u {
				return vk.Failf("correlation-matrix-range", "(%d,%d)=%v %s", i, j, gr, ctx)
			}
		}
	}
	// positive semi-definite: smallest eigenvalue (harness Jacobi solver)
	g := make([]float64, d*d)
	for i := 0; i < d; i++ {
		for j := 0; j < d; j++ {
			g[i*d+j] = cov.At(i, j)
		}
	}
	ev, _ := jacobiEig(g, d)
	if ev[d-1] < -8*(nf+8)*float64(d)*u*trace {
		return vk.Failf("covariance-matrix-psd", "smallest eigenvalue %v trace %v %s", ev[d-1], trace, ctx)
	}
	anyConst := false
	for _, b := range constCol {
		anyConst = anyConst || b
	}
	if !anyConst {
		for i := 0; i < d; i++ {
			for j := 0; j < d; j++ {
				g[i*d+j] = corr.At(i, j)
			}
		}
		evc, _ := jacobiEig(g, d)
		if evc[d-1] < -16*(nf+8)*float64(d)*float64(d)*u {
			// only meaningful for well conditioned columns; those are the ones that
			// passed the entry checks above
			ok := true
			for i := 0; i < d; i++ {
				b := newUniRef(cols[i], w)
				if b.tolS/b.S.f() > 1e-6 {
					ok = false
				}
			}
			if ok {
				return vk.Failf("correlation-matrix-psd", "smallest eigenvalue %v %s", evc[d-1], ctx)
			}
		}
	}

	// --- principal components: variances are the eigenvalues of the covariance
	var pc stat.PC
	if c.Seed%2 == 0 {
		// a reused receiver: an earlier analysis of other data of another shape
		// on the same value, weighted if and only if this one is not
		pn, pd := 3+int(c.Seed>>8%5), 1+int(c.Seed>>16%4)
		r := vk.NewSplitMix(c.Seed ^ 0x70ca)
		prev := mat.NewDense(pn, pd, nil)
		for i := 0; i < pn; i++ {
			for j := 0; j < pd; j++ {
				prev.Set(i, j, r.Finite())
			}
		}
		var pw []float64
		if w == nil {
			pw = make([]float64, pn)
			for i := range pw {
				pw[i] = 1.5 + float64(i)
			}
		}
		pc.PrincipalComponents(prev, pw)
		vk.Class("pca reused receiver")
	}
	wIn := cloneF(w)
	if !pc.PrincipalComponents(x, wIn) {
		vk.Inconclusive("pca-svd-failed")
		return deferred
	}
	k := min(n, d)
	vars := pc.VarsTo(nil)
	// the analysis is finished: what the caller does with its weights buffer
	// afterwards must not change it
	for i := range wIn {
		wIn[i] = 100 + float64(i)
	}
	if again := pc.VarsTo(nil); len(again) == len(vars) {
		for i := range vars {
			if !vk.SameBits(vars[i], again[i]) {
				return vk.Failf("pca-vars-follow-callers-weights-buffer", "VarsTo = %v, and %v after the caller overwrote the weights slice it had passed %s", vars, again, ctx)
			}
		}
	}
	var vecs mat.Dense
	pc.VectorsTo(&vecs)
	if c.DstView && len(vars) == k {
		// destinations that are views: same bits, parent untouched
		vv, vparent := denseView(d, k, 1, 2)
		pc.VectorsTo(vv)
		if !sameDense(vv, &vecs) {
			return vk.Failf("pca-vectors-destination-view", "VectorsTo into a Dense.Slice view differs from a fresh destination %s", ctx)
		}
		if ok, i, j := denseParentIntact(vparent, d, k, 1, 2); !ok {
			return vk.Failf("pca-vectors-destination-view-parent-modified", "parent (%d,%d)=%v %s", i, j, vparent.At(i, j), ctx)
		}
		sv, sbuf := sliceView(k, 2)
		got := pc.VarsTo(sv)
		for i := range vars {
			if len(got) != k || !vk.SameBits(got[i], vars[i]) || &got[0] != &sv[0] {
				return vk.Failf("pca-vars-destination-view", "VarsTo(dst with spare capacity)=%v, fresh %v %s", got, vars, ctx)
			}
		}
		if ok, i := sliceBufIntact(sbuf, k, 2); !ok {
			return vk.Failf("pca-vars-destination-view-parent-modified", "buffer element %d outside dst overwritten %s", i, ctx)
		}
	}
	if len(vars) != k {
		return vk.Failf("pca-vars-length", "%d want %d %s", len(vars), k, ctx)
	}
	if r, cc := vecs.Dims(); r != d || cc != k {
		return vk.Failf("pca-vectors-dims", "%dx%d want %dx%d %s", r, cc, d, k, ctx)
	}
	eig, _ := jacobiEig(exactCov, d)
	tolEig := 2 * (float64(d)*maxTol + 40*(nf+float64(d))*u*trace)
	for i := 0; i < k; i++ {
		if i > 0 && vars[i] > vars[i-1] {
			return vk.Failf("pca-vars-order", "vars=%v %s", vars, ctx)
		}
		if vars[i] < 0 {
			return vk.Failf("pca-vars-negative", "vars=%v %s", vars, ctx)
		}
		if f := failClose("pca-vars-eigenvalues", vars[i], eig[i], tolEig, fmt.Sprintf("i=%d vars=%v eig=%v %s", i, vars, eig, ctx)); f != nil {
			return f
		}
	}
	for a := 0; a < k; a++ {
		for b := a; b < k; b++ {
			var s float64
			for i := 0; i < d; i++ {
				s += vecs.At(i, a) * vecs.At(i, b)
			}
			want := 0.0
			if a == b {
				want = 1
			}
			if math.Abs(s-want) > 200*(nf+float64(d))*u {
				return vk.Failf("pca-vectors-orthonormal", "v%d.v%d=%v %s", a, b, s, ctx)
			}
		}
		// covariance * v_a = vars[a] * v_a
		for i := 0; i < d; i++ {
			var s float64
			for j := 0; j < d; j++ {
				s += exactCov[i*d+j] * vecs.At(j, a)
			}
			if math.Abs(s-vars[a]*vecs.At(i, a)) > 20*tolEig {
				return vk.Failf("pca-eigenvector-residual", "component %d row %d: %v vs %v %s", a, i, s, vars[a]*vecs.At(i, a), ctx)
			}
		}
	}

	// --- documented argument checks
	if w != nil {
		neg := cloneF(w)
		neg[n/2] = -1
		if f := vk.MustPanic("covariance-matrix-negative-weight", func() { stat.CovarianceMatrix(&mat.SymDense{}, x, neg) }); f != nil {
			return f
		}
	}
	if f := vk.MustPanic("covariance-matrix-weights-length", func() { stat.CovarianceMatrix(&mat.SymDense{}, x, make([]float64, n+1)) }); f != nil {
		return f
	}
	if f := vk.MustPanic("covariance-matrix-dst-shape", func() { stat.CovarianceMatrix(mat.NewSymDense(d+1, nil), x, w) }); f != nil {
		return f
	}
	if f := vk.MustPanic("pca-weights-length", func() { var p stat.PC; p.PrincipalComponents(x, make([]float64, n+1)) }); f != nil {
		return f
	}
	return deferred
}

func TestCovMat(t *testing.T) {
	vk.Run(t, "covmat", vk.Opts{Quick: 12000, Thorough: 200000, NoCrumb: true}, func(t *rapid.T) covCase {
		return covCase{
			N:       vk.Dim(t, "n", 2, 60, 3, 8),
			D:       rapid.IntRange(1, 6).Draw(t, "d"),
			DC:      rapid.SampledFrom([]int{dcTies, dcDyadic, dcGauss, dcGauss, dcWide, dcConst}).Draw(t, "dc"),
			WC:      rapid.IntRange(0, nWC-1).Draw(t, "wc"),
			Seed:    rapid.Uint64().Draw(t, "seed"),
			Rep:     rapid.IntRange(0, 3).Draw(t, "rep"),
			DstPre:  rapid.Bool().Draw(t, "dstpre"),
			DstView: rapid.IntRange(0, 2).Draw(t, "dstview") == 0,
		}
	}, checkCov)
}

// ---- Mahalanobis ------------------------------------------------------------------------

type mahaCase struct {
	D    int
	Seed uint64
	Same bool
}

func checkMaha(c mahaCase) *vk.Failure {
	d := c.D
	r := vk.NewSplitMix(c.Seed)
	a := make([]float64, d*d)
	for i := range a {
		a[i] = r.Finite()
	}
	sig := mat.NewSymDense(d, nil)
	s := make([]float64, d*d)
	for i := 0; i < d; i++ {
		for j := i; j < d; j++ {
			var v float64
			for k := 0; k < d; k++ {
				v += a[k*d+i] * a[k*d+j]
			}
			if i == j {
				v += 0.5
			}
			sig.SetSym(i, j, v)
			s[i*d+j], s[j*d+i] = v, v
		}
	}
	xv, yv := make([]float64, d), make([]float64, d)
	for i := range xv {
		xv[i], yv[i] = r.Finite(), r.Finite()
	}
	if c.Same {
		copy(yv, xv)
	}
	vk.Class(fmt.Sprintf("maha d=%d same=%v", d, c.Same))
	vk.NonTrivial("maha", d, c.Same, c.Seed%64)
	vk.Sample("maha", c)
	var chol mat.Cholesky
	if !chol.Factorize(sig) {
		vk.Inconclusive("maha-cholesky-failed")
		return nil
	}
	got := stat.Mahalanobis(mat.NewVecDense(d, xv), mat.NewVecDense(d, yv), &chol)
	// reference: Gaussian elimination with partial pivoting in double-double
	A := make([]dd, d*d)
	b := make([]dd, d)
	diff := make([]dd, d)
	for i := range s {
		A[i] = df(s[i])
	}
	for i := range b {
		b[i] = df(xv[i]).subf(yv[i])
		diff[i] = b[i]
	}
	for k := 0; k < d; k++ {
		p := k
		for i := k + 1; i < d; i++ {
			if math.Abs(A[i*d+k].hi) > math.Abs(A[p*d+k].hi) {
				p = i
			}
		}
		if p != k {
			for j := 0; j < d; j++ {
				A[k*d+j], A[p*d+j] = A[p*d+j], A[k*d+j]
			}
			b[k], b[p] = b[p], b[k]
		}
		for i := k + 1; i < d; i++ {
			f := A[i*d+k].div(A[k*d+k])
			for j := k; j < d; j++ {
				A[i*d+j] = A[i*d+j].sub(f.mul(A[k*d+j]))
			}
			b[i] = b[i].sub(f.mul(b[k]))
		}
	}
	z := make([]dd, d)
	for i := d - 1; i >= 0; i-- {
		v := b[i]
		for j := i + 1; j < d; j++ {
			v = v.sub(A[i*d+j].mul(z[j]))
		}
		z[i] = v.div(A[i*d+i])
	}
	var q dd
	for i := range z {
		q = q.add(z[i].mul(diff[i]))
	}
	want := q.sqrt().f()
	ev, _ := jacobiEig(s, d)
	cond := ev[0] / ev[d-1]
	tol := 100 * float64(d+2) * u * cond * want
	ctx := fmt.Sprintf("d=%d seed=%d cond=%.3g", d, c.Seed, cond)
	if f := failClose("mahalanobis", got, want, tol, ctx); f != nil {
		return f
	}
	if c.Same && got != 0 {
		return vk.Failf("mahalanobis-self", "%v %s", got, ctx)
	}
	// operands that are strided views (a column and a row-vector slice of
	// sentinel-filled matrices): same bits, operands untouched
	{
		_, xp := denseView(d, 1, 1, 1)
		_, yp := denseView(d, 1, 2, 0)
		for i := 0; i < d; i++ {
			xp.Set(1+i, 1, xv[i])
			yp.Set(2+i, 0, yv[i])
		}
		xs := xp.ColView(1).(*mat.VecDense).SliceVec(1, 1+d)
		ys := yp.ColView(0).(*mat.VecDense).SliceVec(2, 2+d)
		if g2 := stat.Mahalanobis(xs, ys, &chol); !vk.SameBits(g2, got) {
			return vk.Failf("mahalanobis-strided-operands", "%v with column views, %v with contiguous vectors %s", g2, got, ctx)
		}
		for i := 0; i < d; i++ {
			xp.Set(1+i, 1, sentinel(1+i, 1))
			yp.Set(2+i, 0, sentinel(2+i, 0))
		}
		ok1, _, _ := denseParentIntact(xp, 0, 0, 0, 0)
		ok2, _, _ := denseParentIntact(yp, 0, 0, 0, 0)
		if !ok1 || !ok2 {
			return vk.Failf("mahalanobis-modifies-operands", "%s", ctx)
		}
	}
	back := stat.Mahalanobis(mat.NewVecDense(d, yv), mat.NewVecDense(d, xv), &chol)
	if f := failClose("mahalanobis-symmetry", back, got, 2*tol, ctx); f != nil {
		return f
	}
	return nil
}

func TestMahalanobis(t *testing.T) {
	vk.Run(t, "maha", vk.Opts{Quick: 5000, Thorough: 100000, NoCrumb: true}, func(t *rapid.T) mahaCase {
		return mahaCase{D: rapid.IntRange(1, 7).Draw(t, "d"), Seed: rapid.Uint64().Draw(t, "seed"), Same: rapid.IntRange(0, 7).Draw(t, "same") == 0}
	}, checkMaha)
}

// ---- canonical correlations ---------------------------------------------------------------

type ccCase struct {
	N, XD, YD int
	WC        int
	Seed      uint64
}

func covFloat(a, b, w []float64) float64 {
	r := newBiRef(a, b, w)
	return r.C.div(r.rx.W).f() // the normalisation cancels in the canonical correlations
}

// invSqrtSym returns S^{-1/2} for a symmetric positive definite matrix and its
// condition number.
func invSqrtSym(s []float64, d int) (out []float64, cond float64) {
	ev, vec := jacobiEig(s, d)
	out = make([]float64, d*d)
	for i := 0; i < d; i++ {
		for j := 0; j < d; j++ {
			var v float64
			for k := 0; k < d; k++ {
				v += vec[i*d+k] * vec[j*d+k] / math.Sqrt(ev[k])
			}
			out[i*d+j] = v
		}
	}
	return out, ev[0] / ev[d-1]
}

func checkCC(c ccCase) *vk.Failure {
	var deferred *vk.Failure
	n, xd, yd := c.N, c.XD, c.YD
	r := vk.NewSplitMix(c.Seed)
	xc := make([][]float64, xd)
	yc := make([][]float64, yd)
	for j := range xc {
		xc[j] = make([]float64, n)
		for i := range xc[j] {
			xc[j][i] = r.Norm()
		}
	}
	for j := range yc {
		yc[j] = make([]float64, n)
		mix := float64(r.Intn(5)) / 2
		src := xc[r.Intn(xd)]
		for i := range yc[j] {
			yc[j][i] = r.Norm() + mix*src[i]
		}
	}
	w := expandWeights(n, c.WC, c.Seed^0x77)
	x := mat.NewDense(n, xd, nil)
	y := mat.NewDense(n, yd, nil)
	for j := range xc {
		x.SetCol(j, xc[j])
	}
	for j := range yc {
		y.SetCol(j, yc[j])
	}
	vk.Class(fmt.Sprintf("cca w=%s xd>=yd=%v", wcName[c.WC], xd >= yd))
	if w != nil {
		vk.NonTrivial("cca", c.WC, nClass(n), xd, yd)
	}
	vk.Sample("cancorr", c)
	ctx := fmt.Sprintf("n=%d xd=%d yd=%d wc=%d seed=%d", n, xd, yd, c.WC, c.Seed)
	var cc stat.CC
	if err := cc.CanonicalCorrelations(x, y, w); err != nil {
		vk.Inconclusive("cca-factorization-failed")
		return nil
	}
	corrs := cc.CorrsTo(nil)
	k := min(xd, yd)
	if len(corrs) != k {
		return vk.Failf("cca-corrs-length", "%d want %d %s", len(corrs), k, ctx)
	}
	nf := float64(n + xd + yd)
	for i, v := range corrs {
		if v < 0 || v > 1+100*nf*u || (i > 0 && v > corrs[i-1]) {
			return vk.Failf("cca-corrs-range-order", "corrs=%v %s", corrs, ctx)
		}
	}
	// reference: singular values of Sx^{-1/2} Sxy Sy^{-1/2} (harness Jacobi on
	// the symmetric embedding [[0 M],[M' 0]])
	sx := make([]float64, xd*xd)
	sy := make([]float64, yd*yd)
	sxy := make([]float64, xd*yd)
	for i := 0; i < xd; i++ {
		for j := 0; j < xd; j++ {
			sx[i*xd+j] = covFloat(xc[i], xc[j], w)
		}
		for j := 0; j < yd; j++ {
			sxy[i*yd+j] = covFloat(xc[i], yc[j], w)
		}
	}
	for i := 0; i < yd; i++ {
		for j := 0; j < yd; j++ {
			sy[i*yd+j] = covFloat(yc[i], yc[j], w)
		}
	}
	isx, condx := invSqrtSym(sx, xd)
	isy, condy := invSqrtSym(sy, yd)
	if !(condx < 1e6 && condy < 1e6) {
		vk.Inconclusive("cca-illconditioned")
		return nil
	}
	m := make([]float64, xd*yd)
	for i := 0; i < xd; i++ {
		for j := 0; j < yd; j++ {
			var v float64
			for a := 0; a < xd; a++ {
				for b := 0; b < yd; b++ {
					v += isx[i*xd+a] * sxy[a*yd+b] * isy[b*yd+j]
				}
			}
			m[i*yd+j] = v
		}
	}
	t := xd + yd
	emb := make([]float64, t*t)
	for i := 0; i < xd; i++ {
		for j := 0; j < yd; j++ {
			emb[i*t+xd+j] = m[i*yd+j]
			emb[(xd+j)*t+i] = m[i*yd+j]
		}
	}
	ev, _ := jacobiEig(emb, t)
	tol := 1000 * nf * u * math.Sqrt(condx*condy) * math.Max(condx, condy)
	for i := 0; i < k; i++ {
		if f := failClose("cca-corrs", corrs[i], ev[i], tol, fmt.Sprintf("i=%d corrs=%v ref=%v %s", i, corrs, ev[:k], ctx)); f != nil {
			return f
		}
	}
	if xd == 1 && yd == 1 {
		if f := failClose("cca-1x1-correlation", corrs[0], math.Abs(stat.Correlation(xc[0], yc[0], w)), 100*nf*u, ctx); f != nil {
			return f
		}
	}
	// Destinations: the documentation gives CorrsTo len yd, LeftTo xd×yd and
	// RightTo yd×yd, which is the number of canonical pairs min(xd, yd) when
	// xd >= yd. For xd < yd either size convention is accepted, but one of them
	// has to work (LeftTo/RightTo get an empty dst and size it themselves).
	var left, right mat.Dense
	sizes := []int{yd}
	if k != yd {
		sizes = append(sizes, k)
	}
	var lastPanic string
	worked := false
	for _, sz := range sizes {
		res := vk.Call(func() {
			cc.CorrsTo(make([]float64, sz))
			left.Reset()
			right.Reset()
			cc.LeftTo(&left, false)
			cc.RightTo(&right, false)
		})
		if res.Outcome == vk.Returned {
			worked = true
			break
		}
		lastPanic = res.Text
	}
	if !worked {
		if xd < yd {
			return vk.Failf("cca-narrow-x-panics", "xd=%d < yd=%d: CorrsTo(dst)/LeftTo/RightTo panic for len(dst) = yd (documented) and for min(xd,yd): %s %s", xd, yd, lastPanic, ctx)
		}
		return vk.Failf("cca-destinations", "%s %s", lastPanic, ctx)
	}
	if lr, lc := left.Dims(); lr != xd || (lc != yd && lc != k) {
		return vk.Failf("cca-left-dims", "%dx%d %s", lr, lc, ctx)
	}
	if rr, rc := right.Dims(); rr != yd || (rc != yd && rc != k) {
		return vk.Failf("cca-right-dims", "%dx%d %s", rr, rc, ctx)
	}
	// destinations that are views of sentinel-filled parents: same bits as with
	// fresh destinations, parents untouched
	if c.Seed%2 == 0 {
		vk.Class("cca destinations are views")
		_, lc := left.Dims()
		_, rc := right.Dims()
		sv, sbuf := sliceView(len(corrs), 1)
		gotc := cc.CorrsTo(sv)
		for i := range corrs {
			if len(gotc) != len(corrs) || !vk.SameBits(gotc[i], corrs[i]) {
				return vk.Failf("cca-corrs-destination-view", "CorrsTo(dst with spare capacity)=%v fresh %v %s", gotc, corrs, ctx)
			}
		}
		if ok, i := sliceBufIntact(sbuf, len(corrs), 1); !ok {
			return vk.Failf("cca-corrs-destination-view-parent-modified", "buffer element %d %s", i, ctx)
		}
		for _, sph := range []bool{false, true} {
			var fl, fr mat.Dense
			cc.LeftTo(&fl, sph)
			cc.RightTo(&fr, sph)
			lv, lp := denseView(xd, lc, 2, 1)
			rv, rp := denseView(yd, rc, 1, 3)
			cc.LeftTo(lv, sph)
			cc.RightTo(rv, sph)
			if !sameDense(lv, &fl) || !sameDense(rv, &fr) {
				return vk.Failf("cca-vectors-destination-view", "LeftTo/RightTo(sphered=%v) into Dense.Slice views differ from fresh destinations %s", sph, ctx)
			}
			ok1, _, _ := denseParentIntact(lp, xd, lc, 2, 1)
			ok2, _, _ := denseParentIntact(rp, yd, rc, 1, 3)
			if !ok1 || !ok2 {
				return vk.Failf("cca-vectors-destination-view-parent-modified", "sphered=%v %s", sph, ctx)
			}
		}
	}
	// the canonical variables X*a_i and Y*b_i have correlation corrs[i]
	if sumW(w, n).f()-1 < 0.5 {
		// The back-transformation involves the sample covariances, which are
		// normalised by sum(w)-1: not defined for weights summing to one or less
		// ("a biased variance estimator should be used").
		vk.Class("cca back-transformed vectors skipped: weights sum to less than 1.5")
		return deferred
	}
	for i := 0; i < k; i++ {
		u1 := make([]float64, n)
		v1 := make([]float64, n)
		for row := 0; row < n; row++ {
			for j := 0; j < xd; j++ {
				u1[row] += xc[j][row] * left.At(j, i)
			}
			for j := 0; j < yd; j++ {
				v1[row] += yc[j][row] * right.At(j, i)
			}
		}
		got := stat.Correlation(u1, v1, w)
		if f := failClose("cca-variates-correlation", got, corrs[i], tol+1e-6*0, fmt.Sprintf("i=%d %s", i, ctx)); f != nil {
			return f
		}
		// The back-transformed vectors are Sx^{-1/2} (Sy^{-1/2}) times the
		// eigenvectors, Sx the sample covariance, so the canonical variables have
		// unit sample variance (weighted: normalised by sum(w)-1 as in
		// CovarianceMatrix, Variance and PC.VarsTo).
		if Wf := sumW(w, n).f(); Wf-1 >= 0.5 {
			vu, vv := stat.Variance(u1, w), stat.Variance(v1, w)
			if (math.Abs(vu-1) > tol+1e-9 || math.Abs(vv-1) > tol+1e-9) && deferred == nil {
				deferred = vk.Failf("cca-backtransform-weighted-scale", "canonical variables from LeftTo/RightTo(dst, false): Variance(X*a_%d, w)=%v Variance(Y*b_%d, w)=%v want 1; (n-1)/(sum(w)-1)=%v %s", i, vu, i, vv, float64(n-1)/(Wf-1), ctx)
			}
		}
	}
	return deferred
}

func TestCC(t *testing.T) {
	vk.Run(t, "cancorr", vk.Opts{Quick: 5000, Thorough: 80000, NoCrumb: true}, func(t *rapid.T) ccCase {
		xd := rapid.IntRange(1, 4).Draw(t, "xd")
		yd := rapid.IntRange(1, 4).Draw(t, "yd")
		return ccCase{
			N:    rapid.IntRange(3*(xd+yd)+2, 60).Draw(t, "n"),
			XD:   xd,
			YD:   yd,
			WC:   rapid.IntRange(0, nWC-1).Draw(t, "wc"),
			Seed: rapid.Uint64().Draw(t, "seed"),
		}
	}, checkCC)
}
