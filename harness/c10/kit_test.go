package c10

import (
	"fmt"
	"math"
	"sort"

	"pgregory.net/rapid"
	"verifharness/vk"
)

const u = vk.Eps // unit roundoff 2^-53

// ---- double-double arithmetic ------------------------------------------------
//
// The references evaluate the defining formulas in double-double arithmetic
// (about 31 significant digits), so that the acceptance bounds only have to
// account for the rounding of the library under test.

type dd struct{ hi, lo float64 }

func twoSum(a, b float64) (s, e float64) {
	s = a + b
	bb := s - a
	e = (a - (s - bb)) + (b - bb)
	return
}

func quickTwoSum(a, b float64) (s, e float64) {
	s = a + b
	e = b - (s - a)
	return
}

func twoProd(a, b float64) (p, e float64) {
	p = a * b
	e = math.FMA(a, b, -p)
	return
}

func df(x float64) dd { return dd{x, 0} }

func (a dd) f() float64 { return a.hi + a.lo }

func (a dd) add(b dd) dd {
	s, e := twoSum(a.hi, b.hi)
	t, f := twoSum(a.lo, b.lo)
	e += t
	s, e = quickTwoSum(s, e)
	e += f
	s, e = quickTwoSum(s, e)
	return dd{s, e}
}

func (a dd) addf(b float64) dd { return a.add(dd{b, 0}) }
func (a dd) neg() dd           { return dd{-a.hi, -a.lo} }
func (a dd) sub(b dd) dd       { return a.add(b.neg()) }
func (a dd) subf(b float64) dd { return a.add(dd{-b, 0}) }

func (a dd) mul(b dd) dd {
	p, e := twoProd(a.hi, b.hi)
	e += a.hi*b.lo + a.lo*b.hi
	p, e = quickTwoSum(p, e)
	return dd{p, e}
}

func (a dd) mulf(b float64) dd { return a.mul(dd{b, 0}) }

func (a dd) div(b dd) dd {
	q1 := a.hi / b.hi
	r := a.sub(b.mulf(q1))
	q2 := r.hi / b.hi
	r = r.sub(b.mulf(q2))
	q3 := r.hi / b.hi
	s, e := quickTwoSum(q1, q2)
	return dd{s, e}.addf(q3)
}

func (a dd) divf(b float64) dd { return a.div(dd{b, 0}) }

func (a dd) sqrt() dd {
	if a.hi <= 0 {
		if a.hi == 0 {
			return dd{}
		}
		return dd{math.NaN(), 0}
	}
	x := 1 / math.Sqrt(a.hi)
	ax := a.hi * x
	// one Newton step: ax + (a - ax^2) * x / 2
	d := a.sub(df(ax).mulf(ax))
	return df(ax).addf(d.hi * x * 0.5)
}

func (a dd) abs() dd {
	if a.hi < 0 || (a.hi == 0 && a.lo < 0) {
		return a.neg()
	}
	return a
}

func (a dd) powi(k int) dd {
	r := df(1)
	for i := 0; i < k; i++ {
		r = r.mul(a)
	}
	return r
}

// cmp returns -1, 0, +1.
func (a dd) cmp(b dd) int {
	d := a.sub(b)
	switch {
	case d.hi < 0 || (d.hi == 0 && d.lo < 0):
		return -1
	case d.hi > 0 || (d.hi == 0 && d.lo > 0):
		return 1
	}
	return 0
}

// ---- samples -------------------------------------------------------------------

const (
	dcTies = iota // small integers, many ties
	dcConst
	dcDyadic
	dcGauss
	dcWide
	nDC
)

const (
	wcNil = iota
	wcOnes
	wcInts  // small positive integers
	wcReal  // arbitrary positives over six decades (full mantissas)
	wcZeros // integers or reals with some exact zeros
	nWC
)

var dcName = []string{"ties", "const", "dyadic", "gauss", "wide"}
var wcName = []string{"nil", "ones", "ints", "real6", "zeros"}

// sample is a weighted data set. Small integer-like data are drawn value by
// value with rapid (so that ties shrink well) and stored in X/W; everything
// else is expanded from Seed.
type sample struct {
	N    int
	DC   int
	WC   int
	Seed uint64
	X    []vk.F `json:",omitempty"`
	W    []vk.F `json:",omitempty"`
}

func nClass(n int) string {
	switch {
	case n <= 2:
		return "n<=2"
	case n <= 8:
		return "n3-8"
	case n <= 32:
		return "n9-32"
	}
	return "n33+"
}

// expandData returns the data of class dc.
func expandData(n, dc int, seed uint64) []float64 {
	r := vk.NewSplitMix(seed ^ 0x5851f42d4c957f2d)
	x := make([]float64, n)
	switch dc {
	case dcTies:
		for i := range x {
			x[i] = float64(r.Intn(7) - 3)
		}
	case dcConst:
		var c float64
		switch r.Intn(4) {
		case 0:
			c = float64(r.Intn(9) - 4)
		case 1:
			c = float64(r.Intn(129)-64) / 8
		case 2:
			c = r.Norm() * 3
		default:
			c = (1 + r.Float()) * math.Ldexp(1, r.Intn(41)-20)
		}
		for i := range x {
			x[i] = c
		}
	case dcDyadic:
		for i := range x {
			x[i] = float64(r.Intn(129)-64) / 8
		}
	case dcGauss:
		shift := []float64{0, 0, 10, 1e4}[r.Intn(4)]
		scale := []float64{1, 1, 0.01, 30}[r.Intn(4)]
		for i := range x {
			x[i] = shift + scale*r.Norm()
		}
	case dcWide:
		s := []float64{1e-60, 1, 1e60}[r.Intn(3)]
		for i := range x {
			v := (1 + r.Float()) * math.Ldexp(1, r.Intn(41)-20) * s
			if r.Intn(2) == 0 {
				v = -v
			}
			x[i] = v
		}
	}
	return x
}

// expandWeights returns the weights of class wc (nil for wcNil).
func expandWeights(n, wc int, seed uint64) []float64 {
	if wc == wcNil {
		return nil
	}
	r := vk.NewSplitMix(seed ^ 0x14057b7ef767814f)
	w := make([]float64, n)
	realW := func() float64 { return (1 + r.Float()) * math.Ldexp(1, r.Intn(21)-10) }
	switch wc {
	case wcOnes:
		for i := range w {
			w[i] = 1
		}
	case wcInts:
		for i := range w {
			w[i] = float64(1 + r.Intn(4))
		}
	case wcReal:
		for i := range w {
			w[i] = realW()
		}
	case wcZeros:
		ints := r.Intn(2) == 0
		for i := range w {
			if ints {
				w[i] = float64(1 + r.Intn(4))
			} else {
				w[i] = realW()
			}
		}
		// some exact zeros, but at least max(1,n-?) positives
		for i := range w {
			if r.Intn(4) == 0 {
				w[i] = 0
			}
		}
		// keep at least two positive weights where possible
		pos := 0
		for _, v := range w {
			if v > 0 {
				pos++
			}
		}
		for i := 0; pos < 2 && i < n; i++ {
			if w[i] == 0 {
				w[i] = float64(1 + r.Intn(4))
				pos++
			}
		}
	}
	return w
}

// drawSample draws a sample with lo <= n <= hi.
func drawSample(t *rapid.T, lo, hi int, dcs []int, wcs []int) sample {
	s := sample{}
	s.N = vk.Dim(t, "n", lo, hi, 3, 8, 16, 64)
	s.DC = rapid.SampledFrom(dcs).Draw(t, "dc")
	s.WC = rapid.SampledFrom(wcs).Draw(t, "wc")
	s.Seed = rapid.Uint64().Draw(t, "seed")
	if s.N <= 12 {
		switch s.DC {
		case dcTies:
			s.X = make([]vk.F, s.N)
			for i := range s.X {
				s.X[i] = vk.F(rapid.IntRange(-3, 3).Draw(t, "x"))
			}
		case dcDyadic:
			s.X = make([]vk.F, s.N)
			for i := range s.X {
				s.X[i] = vk.F(float64(rapid.IntRange(-64, 64).Draw(t, "x")) / 8)
			}
		}
		switch s.WC {
		case wcInts:
			s.W = make([]vk.F, s.N)
			for i := range s.W {
				s.W[i] = vk.F(rapid.IntRange(1, 4).Draw(t, "w"))
			}
		case wcZeros:
			if rapid.Bool().Draw(t, "wexplicit") {
				s.W = make([]vk.F, s.N)
				pos := 0
				for i := range s.W {
					s.W[i] = vk.F(rapid.IntRange(0, 3).Draw(t, "w"))
					if s.W[i] > 0 {
						pos++
					}
				}
				for i := 0; pos < 2 && i < s.N; i++ {
					if s.W[i] == 0 {
						s.W[i] = 1
						pos++
					}
				}
			}
		}
	}
	return s
}

// data returns fresh copies of the data and the weights (nil for the nil class).
func (s sample) data() (x, w []float64) {
	if s.X != nil {
		x = vk.Fs(s.X)
	} else {
		x = expandData(s.N, s.DC, s.Seed)
	}
	if s.WC == wcNil {
		return x, nil
	}
	if s.W != nil {
		w = vk.Fs(s.W)
	} else {
		w = expandWeights(s.N, s.WC, s.Seed)
	}
	return x, w
}

func (s sample) label() string { return "w=" + wcName[s.WC] + " d=" + dcName[s.DC] }

// exactWeights reports whether all partial sums of the weights are exact in
// float64 (nil, ones, small integers).
func exactWeights(w []float64) bool {
	for _, v := range w {
		if v != math.Trunc(v) || v > 1e6 {
			return false
		}
	}
	return true
}

func hasTies(x []float64) bool {
	s := append([]float64(nil), x...)
	sort.Float64s(s)
	for i := 1; i < len(s); i++ {
		if s[i] == s[i-1] {
			return true
		}
	}
	return false
}

func isConst(x []float64) bool {
	for _, v := range x {
		if v != x[0] {
			return false
		}
	}
	return true
}

// wOr1 returns w[i], or 1 for nil weights.
func wOr1(w []float64, i int) float64 {
	if w == nil {
		return 1
	}
	return w[i]
}

func cloneF(x []float64) []float64 {
	if x == nil {
		return nil
	}
	return append([]float64{}, x...)
}

func maxAbs(x []float64) float64 {
	var m float64
	for _, v := range x {
		if a := math.Abs(v); a > m {
			m = a
		}
	}
	return m
}

// permuted returns x and w jointly permuted by p.
func permuted(p []int, x, w []float64) (px, pw []float64) {
	px = make([]float64, len(x))
	for i, j := range p {
		px[i] = x[j]
	}
	if w != nil {
		pw = make([]float64, len(w))
		for i, j := range p {
			pw[i] = w[j]
		}
	}
	return
}

// replicate expands integer weights into repeated observations.
func replicate(x, w []float64) []float64 {
	var out []float64
	for i, v := range x {
		for k := 0; k < int(wOr1(w, i)); k++ {
			out = append(out, v)
		}
	}
	return out
}

// ---- weighted sums in double-double --------------------------------------------

// wsumDD returns sum_i w_i*f_i and sum_i |w_i*f_i| (w nil = ones).
func sumW(w []float64, n int) dd {
	if w == nil {
		return df(float64(n))
	}
	var s dd
	for _, v := range w {
		s = s.addf(v)
	}
	return s
}

// meanRef returns the weighted mean, the total weight and A1 = sum |w x|.
func meanRef(x, w []float64) (m, W dd, A1 float64) {
	var s, a dd
	for i, v := range x {
		wi := wOr1(w, i)
		p := df(wi).mulf(v)
		s = s.add(p)
		a = a.add(p.abs())
	}
	W = sumW(w, len(x))
	return s.div(W), W, a.f()
}

// check helpers

func closeTo(got, want, tol float64) bool {
	if math.IsNaN(got) || math.IsNaN(want) {
		return math.IsNaN(got) && math.IsNaN(want)
	}
	if got == want {
		return true
	}
	if math.IsInf(got, 0) || math.IsInf(want, 0) {
		return false
	}
	return math.Abs(got-want) <= tol
}

func failClose(key string, got, want, tol float64, ctx string) *vk.Failure {
	if closeTo(got, want, tol) {
		return nil
	}
	return vk.Failf(key, "got %.17g want %.17g |diff|=%.3g tol=%.3g %s", got, want, math.Abs(got-want), tol, ctx)
}

func ctxOf(x, w []float64) string {
	if len(x) > 12 {
		return fmt.Sprintf("n=%d", len(x))
	}
	return fmt.Sprintf("x=%v w=%v", x, w)
}

// ---- Jacobi eigenvalue solver for small symmetric matrices -----------------------

// jacobiEig returns the eigenvalues (descending) and eigenvectors (columns of
// v, matching order) of the symmetric matrix a (n×n, row major, not modified).
func jacobiEig(a []float64, n int) (vals []float64, vecs []float64) {
	A := append([]float64(nil), a...)
	V := make([]float64, n*n)
	for i := 0; i < n; i++ {
		V[i*n+i] = 1
	}
	for sweep := 0; sweep < 100; sweep++ {
		var off, diag float64
		for i := 0; i < n; i++ {
			diag += A[i*n+i] * A[i*n+i]
			for j := i + 1; j < n; j++ {
				off += A[i*n+j] * A[i*n+j]
			}
		}
		if off == 0 || off <= 1e-40*diag {
			break
		}
		for p := 0; p < n; p++ {
			for q := p + 1; q < n; q++ {
				apq := A[p*n+q]
				if apq == 0 {
					continue
				}
				theta := (A[q*n+q] - A[p*n+p]) / (2 * apq)
				var t float64
				if math.IsInf(theta, 0) {
					t = 0
				} else {
					t = 1 / (math.Abs(theta) + math.Sqrt(theta*theta+1))
					if theta < 0 {
						t = -t
					}
				}
				c := 1 / math.Sqrt(t*t+1)
				s := t * c
				for k := 0; k < n; k++ {
					akp, akq := A[k*n+p], A[k*n+q]
					A[k*n+p] = c*akp - s*akq
					A[k*n+q] = s*akp + c*akq
				}
				for k := 0; k < n; k++ {
					apk, aqk := A[p*n+k], A[q*n+k]
					A[p*n+k] = c*apk - s*aqk
					A[q*n+k] = s*apk + c*aqk
				}
				for k := 0; k < n; k++ {
					vkp, vkq := V[k*n+p], V[k*n+q]
					V[k*n+p] = c*vkp - s*vkq
					V[k*n+q] = s*vkp + c*vkq
				}
			}
		}
	}
	idx := make([]int, n)
	for i := range idx {
		idx[i] = i
	}
	sort.SliceStable(idx, func(i, j int) bool { return A[idx[i]*n+idx[i]] > A[idx[j]*n+idx[j]] })
	vals = make([]float64, n)
	vecs = make([]float64, n*n)
	for k, i := range idx {
		vals[k] = A[i*n+i]
		for r := 0; r < n; r++ {
			vecs[r*n+k] = V[r*n+i]
		}
	}
	return vals, vecs
}
