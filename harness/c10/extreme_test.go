package c10

import (
	"fmt"
	"math"
	"math/big"
	"sort"
	"testing"

	"gonum.org/v1/gonum/stat"
	"pgregory.net/rapid"
	"verifharness/vk"
)

// ---- extreme magnitudes ------------------------------------------------------------------
//
// All data lie within a few binades of the top (< 2^1023) or of the bottom
// (>= 2^-1021) of the normal float64 range, with ordinary, tiny (~2^-40) or huge
// (~2^40) weights, so that the statistic itself is an ordinary normal number
// while naive intermediate quantities (sum x, sum w/x, squares) leave the range.
//
// Asserted (location and order statistics whose result is representable):
//   - HarmonicMean, GeometricMean: always (they are written with logarithms and
//     their documentation restricts only the sign of x and of the weights),
//     against a math/big reference with the bound of the ordinary-range check;
//   - Mean: only when every product w_i*x_i is a normal number and sum |w x| is
//     below MaxFloat64/2; otherwise the two-sum formula sum(w x)/sum(w) that the
//     documentation gives legitimately overflows/underflows and the outcome is
//     only classified;
//   - Quantile, CDF, Mode, Histogram, KolmogorovSmirnov: always (comparisons and
//     weight sums only);
//   - scale equivariance by the power of two that maps the data to [1, 16).
//
// Variance/StdDev/Moment square the deviations: with such data they return
// +Inf (top) or lose everything to underflow (bottom); that is a consequence of
// the documented formulas and is classified, not asserted.

type extCase struct {
	N     int
	Top   bool
	E0    int  // distance (binades) of the extreme datum from the end of the range
	Ties  bool // few distinct values
	WMode int  // 0 nil, 1 ones, 2 ints 1..4, 3 tiny, 4 huge, 5 ints with zeros
	Seed  uint64
	P     []vk.F
}

// gen returns the extreme data, the same data scaled by 2^-e into [1,16), e and the weights.
func (c extCase) gen() (x, xs []float64, e int, w []float64) {
	r := vk.NewSplitMix(c.Seed)
	n := c.N
	xs = make([]float64, n)
	for i := range xs {
		var f float64
		if c.Ties {
			f = float64(r.Intn(3)) / 4
			xs[i] = (1 + f) * float64(int(1)<<r.Intn(2))
		} else {
			f = r.Float()
			xs[i] = (1 + f) * float64(int(1)<<r.Intn(3))
		}
	}
	if c.Top {
		e = 1022 - c.E0 - 3 // xs < 8*2 = 2^4 ... x < 2^(e+4) <= 2^1023
	} else {
		e = -1021 + c.E0 // xs >= 1 ... x >= 2^-1021
	}
	x = make([]float64, n)
	for i := range x {
		x[i] = math.Ldexp(xs[i], e)
	}
	switch c.WMode {
	case 1:
		w = make([]float64, n)
		for i := range w {
			w[i] = 1
		}
	case 2, 5:
		w = make([]float64, n)
		pos := false
		for i := range w {
			w[i] = float64(1 + r.Intn(4))
			if c.WMode == 5 && r.Intn(3) == 0 {
				w[i] = 0
			}
			pos = pos || w[i] > 0
		}
		if !pos {
			w[0] = 2
		}
	case 3, 4:
		w = make([]float64, n)
		b := -40
		if c.WMode == 4 {
			b = 40
		}
		for i := range w {
			w[i] = math.Ldexp(1+r.Float(), b+r.Intn(7)-3)
		}
	}
	return
}

const bigPrec = 400

func bf(v float64) *big.Float { return new(big.Float).SetPrec(bigPrec).SetFloat64(v) }

// bigMeans returns the weighted arithmetic and harmonic means, rounded from math/big.
func bigMeans(x, w []float64) (am, hm float64) {
	sw, swx, swox := bf(0), bf(0), bf(0)
	for i, v := range x {
		wi := bf(wOr1(w, i))
		sw.Add(sw, wi)
		swx.Add(swx, new(big.Float).SetPrec(bigPrec).Mul(wi, bf(v)))
		swox.Add(swox, new(big.Float).SetPrec(bigPrec).Quo(wi, bf(v)))
	}
	am, _ = new(big.Float).SetPrec(bigPrec).Quo(swx, sw).Float64()
	hm, _ = new(big.Float).SetPrec(bigPrec).Quo(sw, swox).Float64()
	return
}

// geoRef returns the weighted geometric mean via exponent/mantissa splitting,
// so that no intermediate quantity depends on the magnitude of the data.
func geoRef(x, w []float64) float64 {
	var se, sl, sw dd
	for i, v := range x {
		m, ex := math.Frexp(v)
		wi := wOr1(w, i)
		se = se.add(df(wi).mulf(float64(ex)))
		sl = sl.add(df(wi).mulf(math.Log(m)))
		sw = sw.addf(wi)
	}
	E := se.div(sw)
	k := math.Floor(E.f())
	frac := E.subf(k).f()
	return math.Ldexp(math.Exp(frac*math.Ln2+sl.div(sw).f()), int(k))
}

func outcome(v float64) string {
	switch {
	case math.IsNaN(v):
		return "NaN"
	case math.IsInf(v, 0):
		return "Inf"
	case v == 0:
		return "zero"
	}
	return "finite"
}

func checkExtreme(c extCase) *vk.Failure {
	x, xs, e, w := c.gen()
	n := len(x)
	nf := float64(n)
	side := "bottom"
	if c.Top {
		side = "top"
	}
	wname := []string{"nil", "ones", "ints", "tiny", "huge", "ints+zeros"}[c.WMode]
	vk.Class(fmt.Sprintf("extreme %s w=%s", side, wname))
	if n >= 3 && !isConst(x) {
		vk.NonTrivial("extreme", c.Top, c.E0, c.Ties, c.WMode, nClass(n))
	}
	vk.Sample("xmag", c)
	ctx := fmt.Sprintf("x=%v w=%v", x, w)
	if n > 8 {
		ctx = fmt.Sprintf("n=%d %s E0=%d w=%s seed=%d x[0]=%v", n, side, c.E0, wname, c.Seed, x[0])
	}
	lo, hi := x[0], x[0]
	for _, v := range x {
		lo, hi = math.Min(lo, v), math.Max(hi, v)
	}
	scale := func(v float64) float64 { return math.Ldexp(v, e) }
	am, hm := bigMeans(x, w)
	W := sumW(w, n).f()
	var maxLogW float64
	for i := range x {
		if wi := wOr1(w, i); wi > 0 {
			maxLogW = math.Max(maxLogW, math.Abs(math.Log(wi)))
		}
	}
	maxLogX := math.Max(math.Abs(math.Log(lo)), math.Abs(math.Log(hi)))

	// --- HarmonicMean
	{
		relh := 2 * ((nf+8)*u + 3*u*(maxLogW+2*maxLogX+2*math.Abs(math.Log(W))))
		got := stat.HarmonicMean(x, w)
		if f := failClose("extreme-harmonic-mean", got, hm, hm*relh, ctx); f != nil {
			return f
		}
		if !(got >= lo*(1-relh) && got <= hi*(1+relh)) {
			return vk.Failf("extreme-harmonic-range", "%v outside [%v,%v] %s", got, lo, hi, ctx)
		}
		gs := stat.HarmonicMean(xs, w)
		if f := failClose("extreme-harmonic-scale", got, scale(gs), 2*hm*relh, fmt.Sprintf("HarmonicMean(x*2^%d) vs 2^%d*HarmonicMean(x) %s", e, e, ctx)); f != nil {
			return f
		}
	}
	// --- GeometricMean
	{
		gm := geoRef(x, w)
		L := math.Log(gm)
		errL := (nf + 6) * u * maxLogX
		tol := gm * (2*errL + 4*u + 2*u*math.Abs(L))
		got := stat.GeometricMean(x, w)
		if f := failClose("extreme-geometric-mean", got, gm, tol, ctx); f != nil {
			return f
		}
		if !(got >= lo-tol && got <= hi+tol) {
			return vk.Failf("extreme-geometric-range", "%v outside [%v,%v] %s", got, lo, hi, ctx)
		}
		if f := failClose("extreme-geometric-scale", got, scale(stat.GeometricMean(xs, w)), 2*tol, ctx); f != nil {
			return f
		}
		if hm > gm*(1+1e-9) || gm > am*(1+1e-9) {
			return vk.Failf("harness-extreme-reference", "H=%v G=%v A=%v %s", hm, gm, am, ctx)
		}
	}
	// --- Mean: sum(w x)/sum(w) as documented; asserted when no product or
	// partial sum leaves the normal range
	{
		inRange := true
		var abs float64
		for i, v := range x {
			p := wOr1(w, i) * v
			if p != 0 && p < 0x1p-1022 {
				inRange = false
			}
			abs += p
		}
		if !(abs <= math.MaxFloat64/2) {
			inRange = false
		}
		got := stat.Mean(x, w)
		if inRange {
			if f := failClose("extreme-mean", got, am, 2*(nf+4)*u*am, ctx); f != nil {
				return f
			}
			if gsc := scale(stat.Mean(xs, w)); !vk.SameBits(got, gsc) {
				return vk.Failf("extreme-mean-scale", "Mean(x*2^%d)=%v but 2^%d*Mean(x)=%v %s", e, got, e, gsc, ctx)
			}
		} else {
			vk.Class(fmt.Sprintf("extreme Mean intermediate sum(w*x) leaves the range (%s, w=%s): result %s", side, wname, outcome(got)))
		}
	}
	// --- scale statistics square the deviations: classified only
	vk.Class(fmt.Sprintf("extreme StdDev (%s): %s", side, outcome(stat.PopStdDev(x, w))))

	// --- order statistics
	sx, sw := cloneF(x), cloneF(w)
	stat.SortWeighted(sx, sw)
	if f := sortedJointly(x, w, sx, sw); f != nil {
		return f
	}
	sxs := make([]float64, n)
	for i, v := range sx {
		sxs[i] = math.Ldexp(v, -e)
	}
	for _, pf := range c.P {
		p := float64(pf)
		var qe, ql float64
		if f := vk.MustReturn("extreme-quantile-total", func() {
			qe = stat.Quantile(p, stat.Empirical, sx, sw)
			ql = stat.Quantile(p, stat.LinInterp, sx, sw)
		}); f != nil {
			f.Msg += fmt.Sprintf(" p=%v %s", p, ctx)
			return f
		}
		se := scale(stat.Quantile(p, stat.Empirical, sxs, sw))
		sl := scale(stat.Quantile(p, stat.LinInterp, sxs, sw))
		if qe != se {
			return vk.Failf("extreme-quantile-scale", "Empirical p=%v: %v vs scaled %v %s", p, qe, se, ctx)
		}
		tol := 0.0
		if !c.Top {
			tol = 8 * u * hi // t*x may be subnormal
		}
		if !closeTo(ql, sl, tol) || !(ql >= lo-8*u*hi && ql <= hi+8*u*hi) {
			return vk.Failf("extreme-quantile-lininterp-scale", "p=%v: %v vs scaled %v, range [%v,%v] %s", p, ql, sl, lo, hi, ctx)
		}
		if cdf := stat.CDF(qe, stat.Empirical, sx, sw); cdf < p*(1-4*u) {
			return vk.Failf("extreme-cdf-of-quantile", "p=%v CDF=%v %s", p, cdf, ctx)
		}
	}
	for _, i := range []int{0, n / 2, n - 1} {
		if a, b := stat.CDF(sx[i], stat.Empirical, sx, sw), stat.CDF(sxs[i], stat.Empirical, sxs, sw); a != b {
			return vk.Failf("extreme-cdf-scale", "CDF(%v)=%v, scaled %v %s", sx[i], a, b, ctx)
		}
	}
	{
		mv, mc := stat.Mode(x, w)
		ref := map[float64]float64{}
		var best float64
		for i, v := range x {
			ref[v] += wOr1(w, i)
		}
		for _, cv := range ref {
			best = math.Max(best, cv)
		}
		if mc != best || ref[mv] != best {
			return vk.Failf("extreme-mode", "Mode=(%v,%v) best count %v %s", mv, mc, best, ctx)
		}
	}
	{
		// Histogram with dividers at data values, and KolmogorovSmirnov against the
		// reversed-weight sample: identical to the scaled problem
		div := []float64{sx[0], sx[n/2], math.Nextafter(sx[n-1], math.Inf(1))}
		sort.Float64s(div)
		divs := []float64{math.Ldexp(div[0], -e), math.Ldexp(div[1], -e), math.Ldexp(div[2], -e)}
		a := stat.Histogram(nil, div, sx, sw)
		b := stat.Histogram(nil, divs, sxs, sw)
		for j := range a {
			if a[j] != b[j] {
				return vk.Failf("extreme-histogram-scale", "%v vs %v %s", a, b, ctx)
			}
		}
		y := make([]float64, 0, n)
		ys := make([]float64, 0, n)
		for i := 0; i < n; i += 2 {
			y = append(y, sx[i])
			ys = append(ys, sxs[i])
		}
		if k1, k2 := stat.KolmogorovSmirnov(sx, sw, y, nil), stat.KolmogorovSmirnov(sxs, sw, ys, nil); k1 != k2 {
			return vk.Failf("extreme-ks-scale", "%v vs %v %s", k1, k2, ctx)
		}
	}
	return nil
}

func TestExtreme(t *testing.T) {
	vk.Run(t, "xmag", vk.Opts{Quick: 12000, Thorough: 300000, NoCrumb: true}, func(t *rapid.T) extCase {
		c := extCase{
			N:     vk.Dim(t, "n", 1, 60, 3, 5, 8),
			Top:   rapid.Bool().Draw(t, "top"),
			E0:    rapid.SampledFrom([]int{0, 0, 0, 1, 2, 4, 8}).Draw(t, "e0"),
			Ties:  rapid.Bool().Draw(t, "ties"),
			WMode: rapid.IntRange(0, 5).Draw(t, "wmode"),
			Seed:  rapid.Uint64().Draw(t, "seed"),
		}
		np := rapid.IntRange(1, 4).Draw(t, "np")
		for i := 0; i < np; i++ {
			c.P = append(c.P, vk.F(drawP(t, c.N)))
		}
		return c
	}, checkExtreme)
}
