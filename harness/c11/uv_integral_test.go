package c11

import (
	"math"
	"math/rand/v2"
	"sort"
	"testing"

	"pgregory.net/rapid"
	"verifharness/vk"
)

// Tolerances of the integral identities (the quadrature is asked for 1e-10
// relative and its own error estimate must be 100 times below the tolerance,
// otherwise the comparison is counted as inconclusive, not as a failure).
const (
	tolCell     = 1e-7 // |integral of Prob over a cell - (CDF(b)-CDF(a))|, absolute
	tolMass     = 1e-6 // |integral of Prob over the support - 1|
	tolMeanRel  = 1e-6 // |Mean - numeric| <= tolMeanRel * (numeric standard deviation or scale)
	tolVarRel   = 1e-6
	tolShape    = 1e-5 // skewness, excess kurtosis: tolShape*(1+|value|)
	tolEntropy  = 1e-6 // tolEntropy*(1+|value|)
	tolMedian   = 1e-9
	tolModeLogp = 1e-12
)

// moments holds the numerically integrated quantities of a law.
type moments struct {
	kmax                     int
	mass, mean, variance     float64
	skew, exkurt, entropy    float64
	emass, emean, evar       float64 // error estimates
	eskew, ekurt, eentropy   float64
	unresolved               bool // mass not resolvable in x next to a non-zero end of the support
	cellFail                 *vk.Failure
	inconclusiveCells, cells int
}

// integrateLaw integrates the density of a continuous law over its support,
// cell by cell between the grid points (checking every cell against the CDF),
// plus the two tails.
func integrateLaw(s *uvSpec, c uvCase, d any, kmax int) (m moments) {
	p := c.params()
	lo, hi := s.support(p)
	pr := d.(prober)
	cd := d.(cdfer)
	_, xs := gridOf(d, c)
	if len(xs) < 8 {
		m.cellFail = fail(s, "quantile-grid", c, "no usable grid")
		return
	}
	ctr := xs[len(xs)/2]
	if q, ok := d.(quantiler); ok {
		if v := q.Quantile(0.5); v > xs[0] && v < xs[len(xs)-1] {
			ctr = v
		}
	}
	if s.breaks != nil {
		for _, b := range s.breaks(p) {
			if b > xs[0] && b < xs[len(xs)-1] {
				xs = append(xs, b)
			}
		}
		sort.Float64s(xs)
	}
	c0 := ctr
	if mn, ok := d.(meaner); ok && kmax >= 1 {
		if v := mn.Mean(); !math.IsNaN(v) && !math.IsInf(v, 0) && v > xs[0] && v < xs[len(xs)-1] {
			c0 = v
		}
	}
	sc := xs[len(xs)-3] - xs[2]
	if !(sc > 0) {
		sc = s.scale(p)
	}
	f := func(x float64) vec {
		var v vec
		fx := pr.Prob(x)
		if fx == 0 {
			return v
		}
		v[0] = fx
		t := (x - c0) / sc
		w := fx
		for k := 1; k <= kmax; k++ {
			w *= t
			v[k] = w
		}
		if !math.IsInf(fx, 0) {
			v[5] = -fx * math.Log(fx)
		}
		return v
	}
	var abs vec
	for i := range abs {
		abs[i] = 1e-11
	}
	var tot, etot vec
	for i := 0; i+1 < len(xs); i++ {
		a, b := xs[i], xs[i+1]
		if !(b > a) {
			continue
		}
		if (hi != 0 && !math.IsInf(hi, 0) && hi-a < 1e-9*math.Abs(hi)) || (lo != 0 && !math.IsInf(lo, 0) && b-lo < 1e-9*math.Abs(lo)) {
			// the cell lies within 1e-9 (relative) of a non-zero end of the
			// support: x cannot resolve the density there
			m.unresolved = true
			continue
		}
		v, e := integrateCell(f, a, b, lo, hi, ctr, abs, 1e-10, 400)
		for k := range tot {
			tot[k] += v[k]
			etot[k] += e[k]
		}
		m.cells++
		want := cd.CDF(b) - cd.CDF(a)
		if !(e[0] <= tolCell/100) {
			m.inconclusiveCells++
			continue
		}
		if m.cellFail == nil && !(math.Abs(v[0]-want) <= tolCell) {
			m.cellFail = fail(s, "prob-integrates-to-cdf", c, "integral of Prob over [%v,%v] = %v (+-%.1e) but CDF(b)-CDF(a) = %v - %v = %v", a, b, v[0], e[0], cd.CDF(b), cd.CDF(a), want)
		}
	}
	// Mass that lies between a non-zero end of the support and its
	// neighbouring floats cannot be seen by evaluating Prob(x).
	if hi != 0 && !math.IsInf(hi, 0) && 1-cd.CDF(hi-4*vk.Eps*math.Abs(hi)) > 1e-12 {
		m.unresolved = true
	}
	if lo != 0 && !math.IsInf(lo, 0) && cd.CDF(lo+4*vk.Eps*math.Abs(lo)) > 1e-12 {
		m.unresolved = true
	}
	// tails
	tailCtr := func(e float64) float64 { return ctr }
	v, e := integrateTail(f, xs[0], lo, tailCtr(lo), -1, 1e-10)
	for k := range tot {
		tot[k] += v[k]
		etot[k] += e[k]
	}
	v, e = integrateTail(f, xs[len(xs)-1], hi, tailCtr(hi), +1, 1e-10)
	for k := range tot {
		tot[k] += v[k]
		etot[k] += e[k]
	}
	m.kmax = kmax
	m.mass, m.emass = tot[0], etot[0]
	M1, M2, M3, M4 := tot[1], tot[2], tot[3], tot[4]
	m.mean = c0 + sc*M1
	m.emean = sc * etot[1]
	mu2 := M2 - M1*M1
	m.variance = sc * sc * mu2
	m.evar = sc * sc * (etot[2] + 2*math.Abs(M1)*etot[1])
	mu3 := M3 - 3*M1*M2 + 2*M1*M1*M1
	mu4 := M4 - 4*M1*M3 + 6*M1*M1*M2 - 3*M1*M1*M1*M1
	if mu2 > 0 {
		s3 := math.Pow(mu2, 1.5)
		m.skew = mu3 / s3
		m.eskew = (etot[3]+3*math.Abs(M2)*etot[1]+3*math.Abs(M1)*etot[2])/s3 + 1.5*math.Abs(m.skew)*etot[2]/mu2
		m.exkurt = mu4/(mu2*mu2) - 3
		m.ekurt = (etot[4]+4*math.Abs(M3)*etot[1]+4*math.Abs(M1)*etot[3])/(mu2*mu2) + 2*math.Abs(m.exkurt+3)*etot[2]/mu2
	}
	m.entropy, m.eentropy = tot[5], etot[5]
	return
}

// compare returns a failure when got differs from num by more than tol while
// the quadrature error estimate err is at most tol/100; a larger err makes the
// comparison inconclusive.
func compare(s *uvSpec, c uvCase, method string, got, num, err, tol float64) *vk.Failure {
	if math.IsNaN(num) || math.IsNaN(err) || !(err <= tol/100) {
		vk.Inconclusive(s.name + "-" + method + "-quadrature-not-converged")
		return nil
	}
	if math.IsNaN(got) || !(math.Abs(got-num) <= tol) {
		return fail(s, method+"-vs-integral", c, "%s()=%v but numerical integration of Prob gives %v (+-%.1e, tolerance %.1e)", method, got, num, err, tol)
	}
	return nil
}

// checkNonexistent: a moment that does not exist must be reported as documented
// (or, where nothing is documented, at least not as a finite number).
func checkNonexistent(s *uvSpec, c uvCase, method string, got float64, k int) *vk.Failure {
	p := c.params()
	if s.docNon != nil {
		if want, ok := s.docNon(p, method); ok {
			if !vk.SameBits(got, want) && !(got == want) {
				return fail(s, method+"-documented-special-case", c, "%s()=%v, documented %v", method, got, want)
			}
			return nil
		}
	}
	if s.exists != nil && !s.exists(p, k) && s.name != "StudentsT" {
		if !math.IsNaN(got) && !math.IsInf(got, 0) {
			return fail(s, method+"-nonexistent-finite", c, "%s()=%v although the moment of order %d does not exist", method, got, k)
		}
	}
	return nil
}

func checkMode(fs *fails, s *uvSpec, c uvCase, d any, xs []float64) {
	md, ok := d.(moder)
	if !ok {
		return
	}
	p := c.params()
	lo, hi := s.support(p)
	lp := d.(logprober)
	var mode float64
	if fs.add(mustReturn(s, c, "mode-panics", "Mode()", func() { mode = md.Mode() })) {
		return
	}
	if s.docNon != nil {
		if want, ok := s.docNon(p, "Mode"); ok {
			if !vk.SameBits(mode, want) && mode != want {
				fs.add(fail(s, "Mode-documented-special-case", c, "Mode()=%v, documented %v", mode, want))
				return
			}
			if math.IsNaN(want) {
				return
			}
		}
	}
	if math.IsNaN(mode) || mode < lo || mode > hi {
		fs.add(fail(s, "mode-in-support", c, "Mode()=%v, support [%v,%v]", mode, lo, hi))
		return
	}
	logp := func(x float64) float64 {
		// Logistic.LogProb is a known finding; use Prob there and everywhere
		return math.Log(d.(prober).Prob(x))
	}
	_ = lp
	if mode == lo || mode == hi {
		// a mode at the end of the support: the density must not increase when
		// moving away from that end (interior points only: the value at the end
		// point itself may be a documented special case)
		seq := append([]float64(nil), xs...)
		if mode == hi {
			for i, j := 0, len(seq)-1; i < j; i, j = i+1, j-1 {
				seq[i], seq[j] = seq[j], seq[i]
			}
		}
		for i := 0; i+1 < len(seq); i++ {
			a, b := logp(seq[i]), logp(seq[i+1])
			if b > a+tolModeLogp*(1+math.Abs(a)) {
				fs.add(fail(s, "mode-is-maximum", c, "Mode()=%v is an end of the support but the density increases away from it: log f(%v)=%v < log f(%v)=%v", mode, seq[i], a, seq[i+1], b))
				return
			}
		}
		return
	}
	lm := logp(mode)
	w := xs[len(xs)-4] - xs[3] // roughly the interquartile range
	probes := append([]float64(nil), xs...)
	for _, h := range []float64{1e-3, 1e-5} {
		for _, sg := range []float64{-1, 1} {
			x := mode + sg*h*w
			if x > lo && x < hi && x != mode {
				probes = append(probes, x)
			}
		}
	}
	for _, x := range probes {
		if l := logp(x); l > lm+tolModeLogp*(1+math.Abs(lm)) {
			fs.add(fail(s, "mode-is-maximum", c, "Mode()=%v with log density %v, but the log density at %v is %v", mode, lm, x, l))
			return
		}
	}
}

func checkIntegralContinuous(fs *fails, s *uvSpec, c uvCase, d any) {
	p := c.params()
	kmax := 4
	if s.kmax != nil {
		kmax = s.kmax(p)
	}
	_, isCDF := d.(cdfer)
	_, isProb := d.(prober)
	if !isCDF || !isProb {
		return
	}
	m := integrateLaw(s, c, d, kmax)
	fs.add(m.cellFail)
	if m.cells == 0 {
		return
	}
	if m.inconclusiveCells > 0 {
		vk.Inconclusive(s.name + "-cell-quadrature-not-converged")
	}
	_, xs := gridOf(d, c)
	if m.unresolved {
		vk.Inconclusive(s.name + "-mass-below-x-resolution-at-support-end")
		checkMode(fs, s, c, d, xs)
		return
	}
	if m.emass <= tolMass/100 && !(math.Abs(m.mass-1) <= tolMass) {
		fs.add(fail(s, "density-total-mass", c, "integral of Prob over the support = %v (+-%.1e)", m.mass, m.emass))
		return
	}
	sd := math.Sqrt(m.variance)
	spread := xs[len(xs)-4] - xs[3]
	// Mean
	if mn, ok := d.(meaner); ok {
		got := mn.Mean()
		if kmax >= 1 {
			ref := spread
			if kmax >= 2 && sd > 0 {
				ref = sd
			}
			fs.add(compare(s, c, "Mean", got, m.mean, m.emean, tolMeanRel*ref))
		} else {
			fs.add(checkNonexistent(s, c, "Mean", got, 1))
		}
	}
	if vr, ok := d.(variancer); ok {
		got := vr.Variance()
		if kmax >= 2 {
			fs.add(compare(s, c, "Variance", got, m.variance, m.evar, tolVarRel*m.variance))
		} else {
			fs.add(checkNonexistent(s, c, "Variance", got, 2))
		}
	}
	if sdv, ok := d.(stddever); ok {
		got := sdv.StdDev()
		if kmax >= 2 {
			fs.add(compare(s, c, "StdDev", got, sd, m.evar/(2*sd), tolVarRel*sd))
		} else {
			fs.add(checkNonexistent(s, c, "StdDev", got, 2))
		}
	}
	if sk, ok := d.(skewnesser); ok {
		got := sk.Skewness()
		if kmax >= 3 {
			fs.add(compare(s, c, "Skewness", got, m.skew, m.eskew, tolShape*(1+math.Abs(m.skew))))
		} else {
			fs.add(checkNonexistent(s, c, "Skewness", got, 3))
		}
	}
	if ku, ok := d.(exkurtosiser); ok {
		got := ku.ExKurtosis()
		if kmax >= 4 {
			fs.add(compare(s, c, "ExKurtosis", got, m.exkurt, m.ekurt, tolShape*(1+math.Abs(m.exkurt))))
		} else {
			fs.add(checkNonexistent(s, c, "ExKurtosis", got, 4))
		}
	}
	if en, ok := d.(entropyer); ok {
		var got float64
		if !fs.add(mustReturn(s, c, "entropy-panics", "Entropy()", func() { got = en.Entropy() })) {
			fs.add(compare(s, c, "Entropy", got, m.entropy, m.eentropy, tolEntropy*(1+math.Abs(m.entropy))))
		}
	}
	if me, ok := d.(medianer); ok {
		cd := d.(cdfer)
		x := me.Median()
		F := cd.CDF(x)
		if math.IsNaN(F) || math.Abs(F-0.5) > tolMedian {
			Fm, Fp := cd.CDF(math.Nextafter(x, math.Inf(-1))), cd.CDF(math.Nextafter(x, math.Inf(1)))
			if !(0.5 >= Fm-tolMedian && 0.5 <= Fp+tolMedian) {
				fs.add(fail(s, "median-cdf-half", c, "Median()=%v but CDF(Median)=%v", x, F))
			}
		}
	}
	checkMode(fs, s, c, d, xs)
	// p-space: the mean is the integral of the quantile function
	if q, ok := d.(quantiler); ok && kmax >= 2 {
		if mn, ok := d.(meaner); ok {
			c0 := mn.Mean()
			var val, diff float64
			r := vk.Call(func() {
				val, diff = tanhSinh01(func(u float64) float64 {
					if u < 1e-14 || u > 1-1e-14 {
						return 0 // contributes at most 1e-7 standard deviations
					}
					return q.Quantile(u) - c0
				}, 1e-10)
			})
			if r.Outcome != vk.Returned {
				// Quantile panics at a small p: reported by uv-point (quantile-extreme-p)
				vk.Inconclusive(s.name + "-quantile-integral-panics")
			} else if diff <= 1e-8*sd {
				if !(math.Abs(val) <= 1e-5*sd) {
					fs.add(fail(s, "Mean-vs-quantile-integral", c, "Mean()=%v but the integral of Quantile over (0,1) is %v (standard deviation %v)", c0, c0+val, sd))
				}
			} else {
				vk.Inconclusive(s.name + "-quantile-integral-not-converged")
			}
		}
	}
}

func checkIntegralDiscrete(fs *fails, s *uvSpec, c uvCase, d any) {
	p := c.params()
	lo, hi := latticeOf(s, p)
	cd := d.(cdfer)
	pr := d.(prober)
	var sum vk.DD
	okSum := true
	var ks, pk []float64
	for k := lo; k <= hi; k++ {
		q := pr.Prob(k)
		if math.IsNaN(q) {
			return // reported by uv-point
		}
		ks = append(ks, k)
		pk = append(pk, q)
		sum.Add(q)
		if F := cd.CDF(k); okSum && !(math.Abs(sum.Float()-F) <= 1e-10) {
			okSum = !fs.add(fail(s, "prob-sums-to-cdf", c, "sum of Prob(0..%v) = %v but CDF(%v) = %v", k, sum.Float(), k, F))
		}
	}
	if !(math.Abs(sum.Float()-1) <= 1e-9) {
		fs.add(fail(s, "prob-total-mass", c, "sum of Prob over %v..%v = %v", lo, hi, sum.Float()))
		return
	}
	var m1 vk.DD
	for i, k := range ks {
		m1.AddProd(k, pk[i])
	}
	mean := m1.Float()
	var m2, m3, m4, ent vk.DD
	for i, k := range ks {
		t := k - mean
		m2.AddProd(t*t, pk[i])
		m3.AddProd(t*t*t, pk[i])
		m4.AddProd(t*t*t*t, pk[i])
		if pk[i] > 0 {
			ent.AddProd(-pk[i], math.Log(pk[i]))
		}
	}
	v := m2.Float()
	sd := math.Sqrt(v)
	cmp := func(method string, got, num, tol float64) {
		if math.IsNaN(got) || !(math.Abs(got-num) <= tol) {
			fs.add(fail(s, method+"-vs-sum", c, "%s()=%v but summation of Prob gives %v (tolerance %.1e)", method, got, num, tol))
		}
	}
	if mn, ok := d.(meaner); ok {
		cmp("Mean", mn.Mean(), mean, 1e-9*(1+sd+math.Abs(mean)))
	}
	if vr, ok := d.(variancer); ok {
		cmp("Variance", vr.Variance(), v, 1e-9*(1+v))
	}
	if sdv, ok := d.(stddever); ok {
		cmp("StdDev", sdv.StdDev(), sd, 1e-9*(1+sd))
	}
	if v > 1e-12 {
		if sk, ok := d.(skewnesser); ok {
			num := m3.Float() / (v * sd)
			cmp("Skewness", sk.Skewness(), num, 1e-7*(1+math.Abs(num)))
		}
		if ku, ok := d.(exkurtosiser); ok {
			num := m4.Float()/(v*v) - 3
			cmp("ExKurtosis", ku.ExKurtosis(), num, 1e-7*(1+math.Abs(num)))
		}
	}
	if en, ok := d.(entropyer); ok {
		cmp("Entropy", en.Entropy(), ent.Float(), 1e-9*(1+math.Abs(ent.Float())))
	}
	if me, ok := d.(medianer); ok {
		// m is a median iff P(X<=m) >= 1/2 and P(X>=m) >= 1/2
		x := me.Median()
		le := cd.CDF(x)
		ge := 1 - cd.CDF(x) + pr.Prob(x)
		if !(le >= 0.5-1e-12 && ge >= 0.5-1e-12) {
			fs.add(fail(s, "median-definition", c, "Median()=%v but P(X<=m)=%v, P(X>=m)=%v", x, le, ge))
		}
	}
	if md, ok := d.(moder); ok {
		x := md.Mode()
		best := 0.0
		for _, q := range pk {
			best = math.Max(best, q)
		}
		if !(pr.Prob(x) >= best*(1-1e-12)) {
			fs.add(fail(s, "mode-is-maximum", c, "Mode()=%v has probability %v but the largest probability is %v", x, pr.Prob(x), best))
		}
	}
}

func checkUVIntegral(c uvCase) *vk.Failure {
	s := uvByName[c.T]
	d := s.mk(c.params(), rand.NewPCG(c.S1, c.S2))
	record("uv-integral", s, c, "integral", true)
	var fs fails
	if r := vk.Call(func() {
		if s.discrete {
			checkIntegralDiscrete(&fs, s, c, d)
		} else {
			checkIntegralContinuous(&fs, s, c, d)
		}
	}); r.Outcome != vk.Returned {
		fs.add(fail(s, "integral-panics", c, "%v: %s", r.Outcome, r.Text))
	}
	return fs.pick(c.S1)
}

func TestUVIntegral(t *testing.T) {
	vk.Run(t, "uv-integral", vk.Opts{Quick: 12000, Thorough: 150000, NoCrumb: true}, func(t *rapid.T) uvCase {
		return drawUV(t, nil)
	}, checkUVIntegral)
}
