package c11

import (
	"fmt"
	"math"
	"math/rand/v2"
	"strconv"

	"gonum.org/v1/gonum/stat/distuv"
	"pgregory.net/rapid"
	"verifharness/vk"
)

// ---- method sets, discovered by interface assertion -----------------------------

type (
	cdfer        interface{ CDF(float64) float64 }
	survivaler   interface{ Survival(float64) float64 }
	prober       interface{ Prob(float64) float64 }
	logprober    interface{ LogProb(float64) float64 }
	quantiler    interface{ Quantile(float64) float64 }
	meaner       interface{ Mean() float64 }
	variancer    interface{ Variance() float64 }
	stddever     interface{ StdDev() float64 }
	skewnesser   interface{ Skewness() float64 }
	exkurtosiser interface{ ExKurtosis() float64 }
	entropyer    interface{ Entropy() float64 }
	medianer     interface{ Median() float64 }
	moder        interface{ Mode() float64 }
	rander       interface{ Rand() float64 }
	scorer       interface {
		Score([]float64, float64) []float64
	}
	scoreInputer  interface{ ScoreInput(float64) float64 }
	logsurvivaler interface{ LogSurvival(float64) float64 }
)

// uvSpec describes one distuv type for the generic checks.
type uvSpec struct {
	name     string
	gen      func(t *rapid.T) []float64
	mk       func(p []float64, src rand.Source) any
	class    func(p []float64) string
	support  func(p []float64) (lo, hi float64)
	discrete bool
	// kmax is the highest moment order (0..4) that exists with a 10 % margin in
	// the parameter; nil means 4.
	kmax func(p []float64) int
	// exists reports whether the moment of order k exists at all.
	exists func(p []float64, k int) bool
	// breaks lists interior points where the density is not smooth.
	breaks func(p []float64) []float64
	// docNon returns the documented return value of a moment method at a
	// parameter where the quantity does not exist.
	docNon func(p []float64, method string) (float64, bool)
	// scale returns a typical length scale of x (used for step sizes).
	scale func(p []float64) float64
}

// ---- parameter generators -------------------------------------------------------

func sig(v float64, digits int) float64 {
	if v == 0 || math.IsInf(v, 0) || math.IsNaN(v) {
		return v
	}
	s := strconv.FormatFloat(v, 'e', digits-1, 64)
	r, _ := strconv.ParseFloat(s, 64)
	return r
}

func logUniform(t *rapid.T, label string, lo, hi float64) float64 {
	u := rapid.Float64Range(math.Log(lo), math.Log(hi)).Draw(t, label)
	v := sig(math.Exp(u), 4)
	return math.Min(math.Max(v, lo), hi)
}

// genShape draws a shape parameter: the listed branch boundaries exactly, values
// within 20 % of a boundary, or log-uniform in [lo,hi].
func genShape(t *rapid.T, label string, lo, hi float64, bnd ...float64) float64 {
	k := rapid.IntRange(0, 9).Draw(t, label+"_cls")
	switch {
	case k < 2 && len(bnd) > 0:
		return rapid.SampledFrom(bnd).Draw(t, label+"_bnd")
	case k < 5 && len(bnd) > 0:
		b := rapid.SampledFrom(bnd).Draw(t, label+"_near")
		f := rapid.SampledFrom([]float64{0.5, 0.8, 0.9, 0.95, 0.99, 1.01, 1.05, 1.1, 1.2, 1.5}).Draw(t, label+"_fac")
		v := sig(b*f, 4)
		if v < lo {
			v = lo
		}
		if v > hi {
			v = hi
		}
		return v
	}
	return logUniform(t, label, lo, hi)
}

func genScale(t *rapid.T, label string) float64 {
	if rapid.IntRange(0, 4).Draw(t, label+"_unit") == 0 {
		return 1
	}
	return logUniform(t, label, 1e-2, 1e2)
}

func genLoc(t *rapid.T, label string) float64 {
	switch rapid.IntRange(0, 5).Draw(t, label+"_cls") {
	case 0:
		return 0
	case 1:
		return float64(rapid.IntRange(-100, 100).Draw(t, label+"_int"))
	}
	return sig(rapid.Float64Range(-10, 10).Draw(t, label), 4)
}

func genProb(t *rapid.T, label string) float64 {
	switch rapid.IntRange(0, 9).Draw(t, label+"_cls") {
	case 0:
		return 0.5
	case 1:
		return sig(logUniform(t, label+"_small", 1e-4, 0.1), 3)
	case 2:
		return 1 - sig(logUniform(t, label+"_large", 1e-4, 0.1), 3)
	case 3:
		if rapid.IntRange(0, 2).Draw(t, label+"_end") == 0 {
			return float64(rapid.IntRange(0, 1).Draw(t, label+"_01"))
		}
	}
	return sig(rapid.Float64Range(0.001, 0.999).Draw(t, label), 4)
}

func cls(v float64, bnds ...float64) string {
	for _, b := range bnds {
		if v < b {
			return "<" + strconv.FormatFloat(b, 'g', -1, 64)
		}
		if v == b {
			return "=" + strconv.FormatFloat(b, 'g', -1, 64)
		}
	}
	return ">" + strconv.FormatFloat(bnds[len(bnds)-1], 'g', -1, 64)
}

func kmaxFrom(v, per float64) int {
	k := 0
	for k < 4 && v >= 1.1*float64(k+1)*per {
		k++
	}
	return k
}

func posSupport([]float64) (float64, float64) { return 0, math.Inf(1) }
func realSupport([]float64) (float64, float64) {
	return math.Inf(-1), math.Inf(1)
}

var uvSpecs = []*uvSpec{
	{
		name: "Bernoulli", discrete: true,
		gen:     func(t *rapid.T) []float64 { return []float64{genProb(t, "p")} },
		mk:      func(p []float64, src rand.Source) any { return distuv.Bernoulli{P: p[0], Src: src} },
		class:   func(p []float64) string { return "p" + cls(p[0], 0, 0.5, 1) },
		support: func(p []float64) (float64, float64) { return 0, 1 },
		scale:   func(p []float64) float64 { return 1 },
	},
	{
		name: "Beta",
		gen: func(t *rapid.T) []float64 {
			return []float64{genShape(t, "alpha", 0.3, 50, 1, 2), genShape(t, "beta", 0.3, 50, 1, 2)}
		},
		mk:      func(p []float64, src rand.Source) any { return distuv.Beta{Alpha: p[0], Beta: p[1], Src: src} },
		class:   func(p []float64) string { return "a" + cls(p[0], 1) + ",b" + cls(p[1], 1) },
		support: func(p []float64) (float64, float64) { return 0, 1 },
		docNon: func(p []float64, m string) (float64, bool) {
			if m != "Mode" {
				return 0, false
			}
			switch {
			case p[0] <= 1 && p[1] <= 1:
				return math.NaN(), true
			case p[0] <= 1:
				return 0, true
			case p[1] <= 1:
				return 1, true
			}
			return 0, false
		},
		scale: func(p []float64) float64 { return 1 },
	},
	{
		name: "Binomial", discrete: true,
		gen: func(t *rapid.T) []float64 {
			n := float64(vk.Dim(t, "n", 1, 200, 25))
			pr := genProb(t, "p")
			if n >= 25 && rapid.IntRange(0, 3).Draw(t, "smallmean") == 0 {
				// the n*p < 1 sampler branch
				pr = sig(rapid.Float64Range(0.02, 0.98).Draw(t, "am")/n, 3)
				if rapid.Bool().Draw(t, "flip") {
					pr = 1 - pr
				}
			}
			return []float64{n, pr}
		},
		mk: func(p []float64, src rand.Source) any { return distuv.Binomial{N: p[0], P: p[1], Src: src} },
		class: func(p []float64) string {
			q := math.Min(p[1], 1-p[1])
			s := "n" + cls(p[0], 25)
			if p[0] >= 25 {
				s += ",np" + cls(p[0]*q, 1)
			}
			return s + ",p" + cls(p[1], 0, 0.5, 1)
		},
		support: func(p []float64) (float64, float64) { return 0, p[0] },
		scale:   func(p []float64) float64 { return 1 },
	},
	{
		name: "Categorical", discrete: true,
		gen: func(t *rapid.T) []float64 {
			n := vk.Dim(t, "len", 1, 40, 2, 8)
			w := make([]float64, n)
			pos := false
			for i := range w {
				switch rapid.IntRange(0, 5).Draw(t, "wcls") {
				case 0:
					w[i] = 0
				case 1:
					w[i] = 1
				default:
					w[i] = logUniform(t, "w", 1e-3, 1e3)
				}
				pos = pos || w[i] > 0
			}
			if !pos {
				w[rapid.IntRange(0, n-1).Draw(t, "posidx")] = 1
			}
			return w
		},
		mk: func(p []float64, src rand.Source) any { return distuv.NewCategorical(p, src) },
		class: func(p []float64) string {
			z := 0
			for _, w := range p {
				if w == 0 {
					z++
				}
			}
			return fmt.Sprintf("len%s,zeros%s", cls(float64(len(p)), 2, 8), cls(float64(z), 1))
		},
		support: func(p []float64) (float64, float64) { return 0, float64(len(p) - 1) },
		scale:   func(p []float64) float64 { return 1 },
	},
	{
		name:    "Chi",
		gen:     func(t *rapid.T) []float64 { return []float64{genShape(t, "k", 0.3, 50, 1, 2)} },
		mk:      func(p []float64, src rand.Source) any { return distuv.Chi{K: p[0], Src: src} },
		class:   func(p []float64) string { return "k" + cls(p[0], 1, 2) },
		support: posSupport,
		docNon: func(p []float64, m string) (float64, bool) {
			if m == "Mode" && p[0] < 1 {
				return math.NaN(), true
			}
			return 0, false
		},
		scale: func(p []float64) float64 { return 1 },
	},
	{
		name:    "ChiSquared",
		gen:     func(t *rapid.T) []float64 { return []float64{genShape(t, "k", 0.3, 50, 1, 2, 0.4)} },
		mk:      func(p []float64, src rand.Source) any { return distuv.ChiSquared{K: p[0], Src: src} },
		class:   func(p []float64) string { return "k" + cls(p[0], 0.4, 2) },
		support: posSupport,
		scale:   func(p []float64) float64 { return 1 },
	},
	{
		name:    "Exponential",
		gen:     func(t *rapid.T) []float64 { return []float64{genScale(t, "rate")} },
		mk:      func(p []float64, src rand.Source) any { return distuv.Exponential{Rate: p[0], Src: src} },
		class:   func(p []float64) string { return "rate" + cls(p[0], 1) },
		support: posSupport,
		scale:   func(p []float64) float64 { return 1 / p[0] },
	},
	{
		name: "F",
		gen: func(t *rapid.T) []float64 {
			return []float64{genShape(t, "d1", 0.3, 50, 1, 2), genShape(t, "d2", 0.3, 50, 2, 4, 6, 8)}
		},
		mk:      func(p []float64, src rand.Source) any { return distuv.F{D1: p[0], D2: p[1], Src: src} },
		class:   func(p []float64) string { return "d1" + cls(p[0], 2) + ",d2" + cls(p[1], 2, 4, 6, 8) },
		support: posSupport,
		kmax:    func(p []float64) int { return kmaxFrom(p[1], 2) },
		exists:  func(p []float64, k int) bool { return p[1] > 2*float64(k) },
		docNon: func(p []float64, m string) (float64, bool) {
			switch {
			case m == "Mean" && p[1] <= 2, m == "Mode" && p[0] <= 2, m == "Skewness" && p[1] <= 6,
				(m == "StdDev" || m == "Variance") && p[1] <= 4, m == "ExKurtosis" && p[1] <= 8:
				return math.NaN(), true
			}
			return 0, false
		},
		scale: func(p []float64) float64 { return 1 },
	},
	{
		name: "Gamma",
		gen: func(t *rapid.T) []float64 {
			return []float64{genShape(t, "alpha", 0.05, 50, 1, 0.2), genScale(t, "beta")}
		},
		mk:      func(p []float64, src rand.Source) any { return distuv.Gamma{Alpha: p[0], Beta: p[1], Src: src} },
		class:   func(p []float64) string { return "a" + cls(p[0], 0.2, 1) },
		support: posSupport,
		docNon: func(p []float64, m string) (float64, bool) {
			if m == "Mode" && p[0] < 1 {
				return 0, true
			}
			return 0, false
		},
		scale: func(p []float64) float64 { return 1 / p[1] },
	},
	{
		name:    "GumbelRight",
		gen:     func(t *rapid.T) []float64 { return []float64{genLoc(t, "mu"), genScale(t, "beta")} },
		mk:      func(p []float64, src rand.Source) any { return distuv.GumbelRight{Mu: p[0], Beta: p[1], Src: src} },
		class:   func(p []float64) string { return "mu" + cls(p[0], 0) + ",beta" + cls(p[1], 1) },
		support: realSupport,
		scale:   func(p []float64) float64 { return p[1] },
	},
	{
		name: "InverseGamma",
		gen: func(t *rapid.T) []float64 {
			return []float64{genShape(t, "alpha", 0.3, 50, 1, 2, 3, 4), genScale(t, "beta")}
		},
		mk:      func(p []float64, src rand.Source) any { return distuv.InverseGamma{Alpha: p[0], Beta: p[1], Src: src} },
		class:   func(p []float64) string { return "a" + cls(p[0], 1, 2, 3, 4) },
		support: posSupport,
		kmax:    func(p []float64) int { return kmaxFrom(p[0], 1) },
		exists:  func(p []float64, k int) bool { return p[0] > float64(k) },
		scale:   func(p []float64) float64 { return p[1] },
	},
	{
		name:    "Laplace",
		gen:     func(t *rapid.T) []float64 { return []float64{genLoc(t, "mu"), genScale(t, "scale")} },
		mk:      func(p []float64, src rand.Source) any { return distuv.Laplace{Mu: p[0], Scale: p[1], Src: src} },
		class:   func(p []float64) string { return "mu" + cls(p[0], 0) + ",scale" + cls(p[1], 1) },
		support: realSupport,
		breaks:  func(p []float64) []float64 { return []float64{p[0]} },
		scale:   func(p []float64) float64 { return p[1] },
	},
	{
		name:    "Logistic",
		gen:     func(t *rapid.T) []float64 { return []float64{genLoc(t, "mu"), genScale(t, "s")} },
		mk:      func(p []float64, src rand.Source) any { return distuv.Logistic{Mu: p[0], S: p[1]} },
		class:   func(p []float64) string { return "mu" + cls(p[0], 0) + ",s" + cls(p[1], 1) },
		support: realSupport,
		scale:   func(p []float64) float64 { return p[1] },
	},
	{
		name: "LogNormal",
		gen: func(t *rapid.T) []float64 {
			return []float64{sig(rapid.Float64Range(-4, 4).Draw(t, "mu"), 3), genShape(t, "sigma", 0.05, 2, 1)}
		},
		mk:      func(p []float64, src rand.Source) any { return distuv.LogNormal{Mu: p[0], Sigma: p[1], Src: src} },
		class:   func(p []float64) string { return "sigma" + cls(p[1], 1) },
		support: posSupport,
		scale:   func(p []float64) float64 { return math.Exp(p[0]) },
	},
	{
		name:    "Normal",
		gen:     func(t *rapid.T) []float64 { return []float64{genLoc(t, "mu"), genScale(t, "sigma")} },
		mk:      func(p []float64, src rand.Source) any { return distuv.Normal{Mu: p[0], Sigma: p[1], Src: src} },
		class:   func(p []float64) string { return "mu" + cls(p[0], 0) + ",sigma" + cls(p[1], 1) },
		support: realSupport,
		scale:   func(p []float64) float64 { return p[1] },
	},
	{
		name: "Pareto",
		gen: func(t *rapid.T) []float64 {
			return []float64{genScale(t, "xm"), genShape(t, "alpha", 0.3, 50, 1, 2, 3, 4)}
		},
		mk:      func(p []float64, src rand.Source) any { return distuv.Pareto{Xm: p[0], Alpha: p[1], Src: src} },
		class:   func(p []float64) string { return "a" + cls(p[1], 1, 2, 3, 4) },
		support: func(p []float64) (float64, float64) { return p[0], math.Inf(1) },
		kmax:    func(p []float64) int { return kmaxFrom(p[1], 1) },
		exists:  func(p []float64, k int) bool { return p[1] > float64(k) },
		scale:   func(p []float64) float64 { return p[0] },
	},
	{
		name: "Poisson", discrete: true,
		gen: func(t *rapid.T) []float64 {
			if rapid.IntRange(0, 3).Draw(t, "lcls") == 0 {
				return []float64{rapid.SampledFrom([]float64{1, 9, 9.99, 10, 10, 10.01, 10.5, 11, 100, 200}).Draw(t, "lbnd")}
			}
			return []float64{logUniform(t, "lambda", 0.01, 200)}
		},
		mk:      func(p []float64, src rand.Source) any { return distuv.Poisson{Lambda: p[0], Src: src} },
		class:   func(p []float64) string { return "lambda" + cls(p[0], 1, 10) },
		support: posSupport,
		scale:   func(p []float64) float64 { return 1 },
	},
	{
		name: "StudentsT",
		gen: func(t *rapid.T) []float64 {
			return []float64{genLoc(t, "mu"), genScale(t, "sigma"), genShape(t, "nu", 0.3, 50, 1, 2)}
		},
		mk: func(p []float64, src rand.Source) any {
			return distuv.StudentsT{Mu: p[0], Sigma: p[1], Nu: p[2], Src: src}
		},
		class:   func(p []float64) string { return "nu" + cls(p[2], 1, 2) },
		support: realSupport,
		kmax:    func(p []float64) int { return kmaxFrom(p[2], 1) },
		exists:  func(p []float64, k int) bool { return p[2] > float64(k) },
		docNon: func(p []float64, m string) (float64, bool) {
			if (m == "Variance" || m == "StdDev") && p[2] <= 1 {
				return math.NaN(), true
			}
			return 0, false
		},
		scale: func(p []float64) float64 { return p[1] },
	},
	{
		name: "Triangle",
		gen: func(t *rapid.T) []float64 {
			a := genLoc(t, "a")
			w := genScale(t, "w")
			b := a + w
			var c float64
			switch rapid.IntRange(0, 5).Draw(t, "ccls") {
			case 0:
				c = a
			case 1:
				c = b
			case 2:
				c = (a + b) / 2
			default:
				c = a + w*sig(rapid.Float64Range(0.001, 0.999).Draw(t, "cfrac"), 3)
			}
			if c < a {
				c = a
			}
			if c > b {
				c = b
			}
			return []float64{a, b, c}
		},
		mk: func(p []float64, src rand.Source) any { return distuv.NewTriangle(p[0], p[1], p[2], src) },
		class: func(p []float64) string {
			switch {
			case p[2] == p[0]:
				return "c=a"
			case p[2] == p[1]:
				return "c=b"
			case p[2] < (p[0]+p[1])/2:
				return "c<mid"
			}
			return "c>=mid"
		},
		support: func(p []float64) (float64, float64) { return p[0], p[1] },
		breaks:  func(p []float64) []float64 { return []float64{p[2]} },
		scale:   func(p []float64) float64 { return p[1] - p[0] },
	},
	{
		name: "Uniform",
		gen: func(t *rapid.T) []float64 {
			a := genLoc(t, "min")
			return []float64{a, a + genScale(t, "w")}
		},
		mk:      func(p []float64, src rand.Source) any { return distuv.Uniform{Min: p[0], Max: p[1], Src: src} },
		class:   func(p []float64) string { return "min" + cls(p[0], 0) },
		support: func(p []float64) (float64, float64) { return p[0], p[1] },
		scale:   func(p []float64) float64 { return p[1] - p[0] },
	},
	{
		name: "Weibull",
		gen: func(t *rapid.T) []float64 {
			return []float64{genShape(t, "k", 0.3, 50, 1), genScale(t, "lambda")}
		},
		mk:      func(p []float64, src rand.Source) any { return distuv.Weibull{K: p[0], Lambda: p[1], Src: src} },
		class:   func(p []float64) string { return "k" + cls(p[0], 1) },
		support: posSupport,
		scale:   func(p []float64) float64 { return p[1] },
	},
	{
		name: "UnitNormal",
		gen:  func(t *rapid.T) []float64 { return []float64{} },
		mk: func(p []float64, src rand.Source) any {
			n := distuv.UnitNormal
			n.Src = src
			return n
		},
		class:   func(p []float64) string { return "unit" },
		support: realSupport,
		scale:   func(p []float64) float64 { return 1 },
	},
	{
		name: "UnitUniform",
		gen:  func(t *rapid.T) []float64 { return []float64{} },
		mk: func(p []float64, src rand.Source) any {
			u := distuv.UnitUniform
			u.Src = src
			return u
		},
		class:   func(p []float64) string { return "unit" },
		support: func(p []float64) (float64, float64) { return 0, 1 },
		scale:   func(p []float64) float64 { return 1 },
	},
}

var uvByName = func() map[string]*uvSpec {
	m := map[string]*uvSpec{}
	for _, s := range uvSpecs {
		m[s.name] = s
	}
	return m
}()

// uvCase is the case of all generic distuv sub-checks.
type uvCase struct {
	T      string // type name
	P      []vk.F // parameters in the order of the struct fields
	U      []vk.F // drawn probabilities (extra evaluation points)
	S1, S2 uint64 // PCG seed
}

func (c uvCase) params() []float64 { return vk.Fs(c.P) }

// drawUV draws a case for one of the listed types (nil: all types).
func drawUV(t *rapid.T, only func(*uvSpec) bool) uvCase {
	var cands []*uvSpec
	for _, s := range uvSpecs {
		if only == nil || only(s) {
			cands = append(cands, s)
		}
	}
	s := cands[rapid.IntRange(0, len(cands)-1).Draw(t, "type")]
	c := uvCase{T: s.name}
	c.P = vk.ToF(s.gen(t))
	nu := rapid.IntRange(1, 4).Draw(t, "nu")
	for i := 0; i < nu; i++ {
		var u float64
		switch rapid.IntRange(0, 3).Draw(t, "ucls") {
		case 0:
			u = logUniform(t, "utail", 1e-6, 1e-2)
			if rapid.Bool().Draw(t, "uhigh") {
				u = 1 - u
			}
		default:
			u = sig(rapid.Float64Range(0.01, 0.99).Draw(t, "u"), 4)
		}
		c.U = append(c.U, vk.F(u))
	}
	c.S1 = rapid.Uint64().Draw(t, "s1")
	c.S2 = rapid.Uint64().Draw(t, "s2")
	return c
}

var pGrid = []float64{1e-6, 1e-3, .01, .1, .25, .5, .75, .9, .99, 1 - 1e-3, 1 - 1e-6}

func hashParams(p []float64) string {
	s := ""
	for _, v := range p {
		s += strconv.FormatFloat(v, 'g', -1, 64) + ","
	}
	return s
}

// record stores the evidence of one executed case.
func record(sub string, s *uvSpec, c uvCase, group string, nontrivial bool) {
	p := c.params()
	cl := s.class(p)
	vk.Class(s.name + "/" + cl + "/" + group)
	if nontrivial {
		vk.NonTrivial(s.name, cl, group, hashParams(p))
	}
	vk.Sample(sub, c)
}
