package c11

import (
	"math"
	"math/rand/v2"
	"sort"
	"testing"

	"gonum.org/v1/gonum/stat/distuv"
	"pgregory.net/rapid"
	"verifharness/vk"
)

// Tolerances of the pointwise identities. gonum's documentation promises no
// accuracy, so the tolerances only separate "the same law up to the rounding
// of the special functions" from "a different law":
const (
	tolMono     = 1e-12 // allowed decrease of CDF between two sorted points
	tolSurvAbs  = 1e-12 // |S-(1-F)| <= tolSurvAbs + tolSurvRel*min(S,1-F)
	tolSurvRel  = 1e-9
	tolProbRel  = 1e-12 // |Prob-exp(LogProb)| <= tolProbRel*Prob
	tolQuantAbs = 1e-9  // |CDF(Quantile(p))-p| <= tolQuantAbs + tolQuantRel*min(p,1-p)
	tolQuantRel = 1e-7
	// tolOne: a CDF that is a quotient of two differently ordered sums
	// (Categorical) may miss 1 by a few ulps; exactness is not promised.
	tolOne = 1e-14
)

// fails collects the first failure of every oracle family of one case, so that
// a known (open) finding of one family does not hide the other families: the
// failure that is reported is selected by the seed of the case.
type fails struct {
	list []*vk.Failure
	seen map[string]bool
}

func (fs *fails) add(f *vk.Failure) bool {
	if f == nil {
		return false
	}
	if fs.seen == nil {
		fs.seen = map[string]bool{}
	}
	if !fs.seen[f.Key] {
		fs.seen[f.Key] = true
		fs.list = append(fs.list, f)
	}
	return true
}

func (fs *fails) pick(seed uint64) *vk.Failure {
	if len(fs.list) == 0 {
		return nil
	}
	return fs.list[seed%uint64(len(fs.list))]
}

func fail(s *uvSpec, oracle string, c uvCase, format string, args ...any) *vk.Failure {
	f := vk.Failf(s.name+"-"+oracle, format, args...)
	f.Msg = s.name + vkParams(c) + ": " + f.Msg
	return f
}

func vkParams(c uvCase) string {
	return "{" + hashParams(c.params()) + "}"
}

// gridOf returns the sorted, strictly increasing evaluation points of a
// continuous law together with the probabilities they were derived from.
func gridOf(d any, c uvCase) (ps, xs []float64) {
	q, ok := d.(quantiler)
	if !ok {
		return nil, nil
	}
	all := append([]float64(nil), pGrid...)
	all = append(all, vk.Fs(c.U)...)
	sort.Float64s(all)
	for _, p := range all {
		x := q.Quantile(p)
		if math.IsNaN(x) || math.IsInf(x, 0) {
			continue
		}
		if len(xs) > 0 && !(x > xs[len(xs)-1]) {
			continue
		}
		ps = append(ps, p)
		xs = append(xs, x)
	}
	return
}

// latticeOf returns the integers lo..K on which a discrete law is examined.
func latticeOf(s *uvSpec, p []float64) (lo, hi float64) {
	lo, hi = s.support(p)
	if math.IsInf(hi, 1) { // Poisson
		lam := p[0]
		hi = math.Ceil(lam + 12*math.Sqrt(lam) + 30)
	}
	return
}

func closeRel(a, b, rel float64) bool {
	if a == b {
		return true
	}
	if math.IsNaN(a) || math.IsNaN(b) || math.IsInf(a, 0) || math.IsInf(b, 0) {
		return false
	}
	return math.Abs(a-b) <= rel*math.Max(math.Abs(a), math.Abs(b))
}

func checkSurvival(s *uvSpec, c uvCase, d any, x, F float64) *vk.Failure {
	sv, ok := d.(survivaler)
	if !ok {
		return nil
	}
	S := sv.Survival(x)
	if math.IsNaN(S) || S < 0 || S > 1+tolOne {
		return fail(s, "survival-range", c, "Survival(%v)=%v", x, S)
	}
	if math.Abs(S-(1-F)) > tolSurvAbs+tolSurvRel*math.Min(S, 1-F) {
		return fail(s, "survival-complement", c, "Survival(%v)=%v but 1-CDF=%v (CDF=%v)", x, S, 1-F, F)
	}
	if ls, ok := d.(logsurvivaler); ok {
		if L := ls.LogSurvival(x); !closeRel(math.Exp(L), S, 1e-12) {
			return fail(s, "logsurvival", c, "exp(LogSurvival(%v))=%v but Survival=%v", x, math.Exp(L), S)
		}
	}
	return nil
}

func checkProbPair(s *uvSpec, c uvCase, d any, x float64, inside bool) *vk.Failure {
	pr, okP := d.(prober)
	lp, okL := d.(logprober)
	if !okP || !okL {
		return nil
	}
	P, L := pr.Prob(x), lp.LogProb(x)
	if inside {
		if math.IsNaN(P) || P < 0 {
			return fail(s, "prob-nonneg", c, "Prob(%v)=%v", x, P)
		}
		if math.IsNaN(L) {
			return fail(s, "logprob-nan", c, "LogProb(%v)=NaN inside the support", x)
		}
		if e := math.Exp(L); !closeRel(P, e, tolProbRel) && !(P < 1e-300 && e < 1e-300) {
			return fail(s, "prob-exp-logprob", c, "Prob(%v)=%v but exp(LogProb)=%v (LogProb=%v)", x, P, e, L)
		}
		return nil
	}
	if P != 0 {
		return fail(s, "prob-outside-support", c, "Prob(%v)=%v, want 0 outside the support", x, P)
	}
	if !math.IsInf(L, -1) {
		return fail(s, "logprob-outside-support", c, "LogProb(%v)=%v, want -Inf outside the support", x, L)
	}
	return nil
}

func ff(x float64) string { return vk.Failf("", "%v", x).Msg }

// mustReturn wraps vk.MustReturn with the case description.
func mustReturn(s *uvSpec, c uvCase, oracle, what string, f func()) *vk.Failure {
	fl := vk.MustReturn(s.name+"-"+oracle, f)
	if fl != nil {
		fl.Msg = s.name + vkParams(c) + ": " + what + ": " + fl.Msg
	}
	return fl
}

// checkOutside examines points strictly below lo (side=-1) or above hi (+1):
// one family per method.
func checkOutside(fs *fails, s *uvSpec, c uvCase, d any, edge float64, side int) {
	sc := s.scale(c.params())
	var pts []float64
	if side < 0 {
		pts = []float64{math.Nextafter(edge, math.Inf(-1)), edge - 0.5*sc, edge - 37*sc - 1}
	} else {
		pts = []float64{math.Nextafter(edge, math.Inf(1)), edge + 0.5*sc, edge + 37*sc + 1}
	}
	if cd, ok := d.(cdfer); ok {
		for _, x := range pts {
			want := 0.0
			if side > 0 {
				want = 1
			}
			var F float64
			if fs.add(mustReturn(s, c, "cdf-outside-support-panics", "CDF("+ff(x)+") outside the support", func() { F = cd.CDF(x) })) {
				break
			}
			if F != want && !(side > 0 && math.Abs(F-1) <= tolOne) {
				fs.add(fail(s, "cdf-outside-support", c, "CDF(%v)=%v, want %v (support edge %v)", x, F, want, edge))
				break
			}
		}
	}
	if sv, ok := d.(survivaler); ok {
		for _, x := range pts {
			want := 1.0
			if side > 0 {
				want = 0
			}
			var S float64
			if fs.add(mustReturn(s, c, "survival-outside-support-panics", "Survival("+ff(x)+") outside the support", func() { S = sv.Survival(x) })) {
				break
			}
			if S != want && !(side > 0 && math.Abs(S) <= tolOne) {
				fs.add(fail(s, "survival-outside-support", c, "Survival(%v)=%v, want %v (support edge %v)", x, S, want, edge))
				break
			}
		}
	}
	for _, x := range pts {
		var f *vk.Failure
		if fs.add(mustReturn(s, c, "prob-outside-support-panics", "Prob/LogProb("+ff(x)+") outside the support", func() { f = checkProbPair(s, c, d, x, false) })) {
			break
		}
		if fs.add(f) {
			break
		}
	}
}

func checkQuantilePanics(s *uvSpec, c uvCase, d any) *vk.Failure {
	q, ok := d.(quantiler)
	if !ok || s.name == "Logistic" { // Logistic.Quantile has no argument check and documents none
		return nil
	}
	for _, p := range []float64{-0.1, 1.1, -5e-324, math.Nextafter(1, 2), math.Inf(1), math.Inf(-1)} {
		p := p
		if f := vk.MustPanic(s.name+"-quantile-must-panic", func() { q.Quantile(p) }); f != nil {
			f.Msg = s.name + vkParams(c) + ": Quantile(" + ff(p) + "): " + f.Msg
			return f
		}
	}
	return nil
}

func checkPointContinuous(fs *fails, s *uvSpec, c uvCase, d any) {
	p := c.params()
	lo, hi := s.support(p)
	cd, hasCDF := d.(cdfer)
	ps, xs := gridOf(d, c)
	if hasCDF && len(xs) < 8 {
		fs.add(fail(s, "quantile-grid", c, "Quantile is not finite and strictly increasing on the probability grid: only %d usable points %v", len(xs), xs))
	}
	// family: CDF range and monotonicity
	Fs := make([]float64, len(xs))
	okF := true
	prevF := 0.0
	for i, x := range xs {
		F := cd.CDF(x)
		Fs[i] = F
		if !okF {
			continue
		}
		if x < lo || x > hi {
			okF = !fs.add(fail(s, "quantile-in-support", c, "Quantile(%v)=%v outside the support [%v,%v]", ps[i], x, lo, hi))
		} else if math.IsNaN(F) || F < 0 || F > 1+tolOne {
			okF = !fs.add(fail(s, "cdf-range", c, "CDF(%v)=%v", x, F))
		} else if F < prevF-tolMono {
			okF = !fs.add(fail(s, "cdf-monotone", c, "CDF(%v)=%v < CDF(%v)=%v", x, F, xs[i-1], prevF))
		}
		prevF = F
	}
	// family: Survival
	for i, x := range xs {
		if fs.add(checkSurvival(s, c, d, x, Fs[i])) {
			break
		}
	}
	// family: Prob / LogProb
	for _, x := range xs {
		if fs.add(checkProbPair(s, c, d, x, true)) {
			break
		}
	}
	// family: CDF(Quantile(p)) = p
	for i, x := range xs {
		F := Fs[i]
		if tq := tolQuantAbs + tolQuantRel*math.Min(ps[i], 1-ps[i]); math.Abs(F-ps[i]) > tq {
			// x is only known to one ulp: accept p between the CDF values of the neighbours of x
			Fm, Fp := cd.CDF(math.Nextafter(x, math.Inf(-1))), cd.CDF(math.Nextafter(x, math.Inf(1)))
			if !(ps[i] >= Fm-tq && ps[i] <= Fp+tq) {
				fs.add(fail(s, "cdf-quantile-inverse", c, "CDF(Quantile(%v)) = CDF(%v) = %v (CDF at the neighbouring floats %v, %v)", ps[i], x, F, Fm, Fp))
				break
			}
		}
	}
	// family: the ends of [0,1]
	if q, ok := d.(quantiler); ok {
		for _, pe := range []float64{0, 1} {
			var x float64
			if fs.add(mustReturn(s, c, "quantile-end-panics", "Quantile("+ff(pe)+")", func() { x = q.Quantile(pe) })) {
				break
			}
			slack := 8 * vk.Eps * (math.Abs(x) + s.scale(p))
			if math.IsNaN(x) || x < lo-slack || x > hi+slack {
				fs.add(fail(s, "quantile-end", c, "Quantile(%v)=%v, support [%v,%v]", pe, x, lo, hi))
				break
			}
			if len(xs) > 0 && (pe == 0 && x > xs[0] || pe == 1 && x < xs[len(xs)-1]) {
				fs.add(fail(s, "quantile-end", c, "Quantile(%v)=%v is not beyond Quantile(%v)", pe, x, pGrid[0]))
				break
			}
		}
	}
	fs.add(checkQuantilePanics(s, c, d))
	// family: probabilities beyond the grid (forall p in [0,1]): Quantile must
	// return a point of the support that is ordered with the grid
	if q, ok := d.(quantiler); ok && len(xs) > 0 {
		for _, pe := range []float64{1e-9, 1e-14, 1e-20, 1e-100, 1e-300, 1 - 1e-9, 1 - 1e-14, 1 - vk.Eps} {
			var x float64
			if fs.add(mustReturn(s, c, "quantile-extreme-p-panics", "Quantile("+ff(pe)+")", func() { x = q.Quantile(pe) })) {
				break
			}
			if math.IsNaN(x) && (s.name == "Gamma" || s.name == "Chi" || s.name == "ChiSquared") {
				// mathext.GammaIncRegInv documents NaN on failure to converge
				vk.Inconclusive(s.name + "-quantile-extreme-p-nan-documented-give-up")
				continue
			}
			slack := 8 * vk.Eps * (math.Abs(x) + s.scale(p))
			if math.IsNaN(x) || x < lo-slack || x > hi+slack || (pe < 0.5 && x > xs[0]) || (pe > 0.5 && x < xs[len(xs)-1]) {
				fs.add(fail(s, "quantile-extreme-p", c, "Quantile(%v)=%v; support [%v,%v], Quantile(1e-6)=%v, Quantile(1-1e-6)=%v", pe, x, lo, hi, xs[0], xs[len(xs)-1]))
				break
			}
		}
	}
	if !math.IsInf(lo, 0) {
		checkOutside(fs, s, c, d, lo, -1)
	}
	if !math.IsInf(hi, 0) {
		checkOutside(fs, s, c, d, hi, +1)
	}
	// the boundary of the support
	for side, e := range []float64{lo, hi} {
		if math.IsInf(e, 0) {
			continue
		}
		if hasCDF {
			want := float64(side)
			var F float64
			if !fs.add(mustReturn(s, c, "cdf-boundary-panics", "CDF("+ff(e)+")", func() { F = cd.CDF(e) })) {
				if F != want && !(side == 1 && math.Abs(F-1) <= tolOne) {
					fs.add(fail(s, "cdf-boundary", c, "CDF(%v)=%v at the end of the support, want %v", e, F, want))
				}
			}
			if sv, ok := d.(survivaler); ok {
				var S float64
				if !fs.add(mustReturn(s, c, "survival-boundary-panics", "Survival("+ff(e)+")", func() { S = sv.Survival(e) })) {
					if S != 1-want && !(side == 1 && math.Abs(S) <= tolOne) {
						fs.add(fail(s, "survival-boundary", c, "Survival(%v)=%v at the end of the support, want %v", e, S, 1-want))
					}
				}
			}
		}
		pr, okP := d.(prober)
		lp, okL := d.(logprober)
		if okP && okL {
			var P, L float64
			if fs.add(mustReturn(s, c, "density-boundary-panics", "Prob/LogProb("+ff(e)+")", func() { P, L = pr.Prob(e), lp.LogProb(e) })) {
				continue
			}
			if math.IsNaN(L) || math.IsNaN(P) {
				fs.add(fail(s, "density-nan-at-boundary", c, "Prob(%v)=%v LogProb(%v)=%v at the end of the support", e, P, e, L))
			} else if ex := math.Exp(L); !(P == ex || closeRel(P, ex, tolProbRel)) {
				fs.add(fail(s, "prob-exp-logprob-boundary", c, "Prob(%v)=%v but exp(LogProb)=%v", e, P, ex))
			}
			// Where the log-density is finite both at the end of the support and
			// just inside it, the value at the end is the limit from the inside
			// (the densities are continuous on their support).
			in := e + (1-2*float64(side))*1e-12*s.scale(p)
			if Lin := lp.LogProb(in); in != e && !math.IsInf(L, 0) && !math.IsNaN(L) && !math.IsInf(Lin, 0) && !math.IsNaN(Lin) && math.Abs(L-Lin) > 1e-6*(1+math.Abs(Lin)) {
				fs.add(fail(s, "density-jump-at-boundary", c, "LogProb(%v)=%v at the end of the support but LogProb(%v)=%v just inside it", e, L, in, Lin))
			}
		}
	}
	// family: points far beyond the grid on an unbounded side: the density is
	// tiny there, but Prob must still be a number and equal exp(LogProb)
	if pr, ok := d.(prober); ok && len(xs) > 0 {
		lp := d.(logprober)
		mid, sc := xs[len(xs)/2], s.scale(p)
		for _, k := range []float64{50, 800, 1e4} {
			for _, sg := range []float64{-1, 1} {
				x := mid + sg*k*sc
				if x <= lo || x >= hi {
					continue
				}
				P, L := pr.Prob(x), lp.LogProb(x)
				if math.IsNaN(P) || P < 0 || math.IsNaN(L) || !(closeRel(P, math.Exp(L), tolProbRel) || (P < 1e-300 && math.Exp(L) < 1e-300)) {
					fs.add(fail(s, "prob-far-point", c, "Prob(%v)=%v, LogProb=%v (exp %v), %v scale units from the median", x, P, L, math.Exp(L), sg*k))
				}
			}
		}
	}
}

func checkPointDiscrete(fs *fails, s *uvSpec, c uvCase, d any) {
	p := c.params()
	lo, hi := latticeOf(s, p)
	_, shi := s.support(p)
	cd := d.(cdfer)
	prevF := 0.0
	okF, okS, okP, okH := true, true, true, true
	for k := lo; k <= hi; k++ {
		F := cd.CDF(k)
		if okF {
			if math.IsNaN(F) || F < 0 || F > 1+tolOne {
				okF = !fs.add(fail(s, "cdf-range", c, "CDF(%v)=%v", k, F))
			} else if F < prevF-tolMono {
				okF = !fs.add(fail(s, "cdf-monotone", c, "CDF(%v)=%v < CDF(%v)=%v", k, F, k-1, prevF))
			} else if k < hi {
				if F2 := cd.CDF(k + 0.5); F2 != F {
					okF = !fs.add(fail(s, "cdf-step", c, "CDF(%v)=%v differs from CDF(%v)=%v", k+0.5, F2, k, F))
				}
			}
		}
		prevF = F
		if okH && k < hi {
			okH = !fs.add(checkProbPair(s, c, d, k+0.5, false))
		}
		if okS {
			okS = !fs.add(checkSurvival(s, c, d, k, F))
		}
		// Survival = 1 - CDF between lattice points as well (seeded change C11-13: a survival
		// function through the incomplete gamma function without the floor of its argument)
		if okS && k < hi {
			okS = !fs.add(checkSurvival(s, c, d, k+0.5, cd.CDF(k+0.5)))
			if okS && len(c.U) > 0 && float64(c.U[0]) > 0 && float64(c.U[0]) < 1 {
				u := float64(c.U[0])
				okS = !fs.add(checkSurvival(s, c, d, k+u, cd.CDF(k+u)))
			}
		}
		if okP {
			okP = !fs.add(checkProbPair(s, c, d, k, true))
		}
	}
	checkOutside(fs, s, c, d, lo, -1)
	if !math.IsInf(shi, 0) {
		if F := cd.CDF(shi); math.Abs(F-1) > tolOne {
			fs.add(fail(s, "cdf-boundary", c, "CDF(%v)=%v at the top of the support, want 1", shi, F))
		}
		checkOutside(fs, s, c, d, shi, +1)
	}
	if q, ok := d.(quantiler); ok {
		ps := append([]float64{0, 1}, pGrid...)
		ps = append(ps, vk.Fs(c.U)...)
		ps = append(ps, cd.CDF(lo), 1-cd.CDF(lo))
		for _, pp := range ps {
			x := q.Quantile(pp)
			// generalized inverse: the least x with CDF(x) >= p
			if math.IsNaN(x) || x < lo || x > shi || x != math.Floor(x) {
				fs.add(fail(s, "quantile-in-support", c, "Quantile(%v)=%v", pp, x))
				break
			}
			if !(cd.CDF(x) >= pp) || (x > lo && !(cd.CDF(x-1) < pp)) {
				fs.add(fail(s, "quantile-generalized-inverse", c, "Quantile(%v)=%v but CDF(%v)=%v, CDF(%v)=%v", pp, x, x, cd.CDF(x), x-1, cd.CDF(x-1)))
				break
			}
		}
		fs.add(checkQuantilePanics(s, c, d))
	}
}

// checkCategoricalReweight: after Reweight / ReweightAll the law is that of the
// new weights.
func checkCategoricalReweight(fs *fails, s *uvSpec, c uvCase) {
	w := c.params()
	n := len(w)
	if n < 2 {
		return
	}
	cat := distuv.NewCategorical(w, rand.NewPCG(c.S1, c.S2))
	if cat.Len() != n {
		fs.add(fail(s, "len", c, "Len()=%d", cat.Len()))
	}
	idx := int(c.S2 % uint64(n))
	nw := append([]float64(nil), w...)
	nw[idx] = w[(idx+1)%n] + 0.75
	cat.Reweight(idx, nw[idx])
	ref := distuv.NewCategorical(nw, nil)
	for k := 0; k < n; k++ {
		if a, b := cat.Prob(float64(k)), ref.Prob(float64(k)); !closeRel(a, b, 1e-12) {
			fs.add(fail(s, "reweight", c, "after Reweight(%d, %v): Prob(%d)=%v, a new Categorical with these weights gives %v", idx, nw[idx], k, a, b))
			return
		}
		if a, b := cat.CDF(float64(k)), ref.CDF(float64(k)); !closeRel(a, b, 1e-12) {
			fs.add(fail(s, "reweight", c, "after Reweight(%d, %v): CDF(%d)=%v, a new Categorical with these weights gives %v", idx, nw[idx], k, a, b))
			return
		}
	}
	cat.ReweightAll(w)
	orig := distuv.NewCategorical(w, nil)
	for k := 0; k < n; k++ {
		if a, b := cat.Prob(float64(k)), orig.Prob(float64(k)); !closeRel(a, b, 1e-12) {
			fs.add(fail(s, "reweightall", c, "after ReweightAll: Prob(%d)=%v want %v", k, a, b))
			return
		}
	}
	fs.add(vk.MustPanic("Categorical-reweight-negative-must-panic", func() { cat.Reweight(0, -1) }))
	fs.add(vk.MustPanic("Categorical-reweightall-length-must-panic", func() { cat.ReweightAll(make([]float64, n+1)) }))
}

func checkUVPoint(c uvCase) *vk.Failure {
	s := uvByName[c.T]
	d := s.mk(c.params(), rand.NewPCG(c.S1, c.S2))
	record("uv-point", s, c, "pointwise", true)
	var fs fails
	if s.discrete {
		checkPointDiscrete(&fs, s, c, d)
		if s.name == "Categorical" {
			checkCategoricalReweight(&fs, s, c)
		}
	} else {
		checkPointContinuous(&fs, s, c, d)
	}
	return fs.pick(c.S1)
}

func TestUVPoint(t *testing.T) {
	vk.Run(t, "uv-point", vk.Opts{Quick: 24000, Thorough: 400000, NoCrumb: true}, func(t *rapid.T) uvCase {
		return drawUV(t, nil)
	}, checkUVPoint)
}
