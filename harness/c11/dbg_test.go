package c11

import (
	"fmt"
	"math/rand/v2"
	"os"
	"strconv"
	"strings"
	"testing"

	"verifharness/vk"
)

// TestDbg: C11_DBG="Type:p1,p2" prints the integrated moments.
func TestDbg(t *testing.T) {
	spec := os.Getenv("C11_DBG")
	if spec == "" {
		t.Skip()
	}
	parts := strings.SplitN(spec, ":", 2)
	var p []float64
	if parts[1] != "" {
		for _, f := range strings.Split(parts[1], ",") {
			v, _ := strconv.ParseFloat(f, 64)
			p = append(p, v)
		}
	}
	s := uvByName[parts[0]]
	c := uvCase{T: s.name, P: vk.ToF(p), U: []vk.F{0.3}}
	d := s.mk(p, rand.NewPCG(1, 2))
	kmax := 4
	if s.kmax != nil {
		kmax = s.kmax(p)
	}
	m := integrateLaw(s, c, d, kmax)
	fmt.Printf("%+v\n", m)
	var fs fails
	checkIntegralContinuous(&fs, s, c, d)
	for _, f := range fs.list {
		fmt.Println(f.Key, f.Msg)
	}
}
