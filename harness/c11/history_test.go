package c11

import (
	"fmt"
	"math"
	"math/rand/v2"
	"testing"

	"gonum.org/v1/gonum/mat"
	"gonum.org/v1/gonum/spatial/r1"
	"gonum.org/v1/gonum/stat/distmat"
	"gonum.org/v1/gonum/stat/distmv"
	"gonum.org/v1/gonum/stat/distuv"
	"gonum.org/v1/gonum/stat/samplemv"
	"gonum.org/v1/gonum/stat/sampleuv"
	"pgregory.net/rapid"
	"verifharness/vk"
)

// Two kinds of histories on the mutable distributions and samplers:
//
//   errpath  - a value with drawn state receives a call that is documented to
//              panic (or that faults on an index out of range); the panic is
//              recovered and the value must still describe its OLD law
//              ("validate, then write").
//   argindep - after construction the caller scribbles over / re-factorizes
//              every slice, matrix and Cholesky it passed in (and over every
//              slice the value handed out); everything observable must be
//              bit-identical to what it was before.

func sameSnap(a, b []float64) (int, bool) {
	if len(a) != len(b) {
		return -1, false
	}
	for i := range a {
		if !vk.SameBits(a[i], b[i]) {
			return i, false
		}
	}
	return 0, true
}

// ---- errpath ---------------------------------------------------------------------

type histOp struct {
	Op  string // "reweight", "reweightall", "take"
	Idx int
	V   vk.F
	W   []vk.F
}

type errCase struct {
	Kind   string   // "Categorical", "Weighted", "ParamUpdate"
	W      []vk.F   // initial weights
	Ops    []histOp // valid history that builds the state
	Bad    string   // the rejected call
	BadIdx int
	BadW   []vk.F
	S1, S2 uint64
}

// applyModel applies a valid op to the harness's model of the weights and
// reports whether the op keeps the total weight positive (else it is skipped).
func applyModel(model []float64, op histOp) ([]float64, bool) {
	next := append([]float64(nil), model...)
	switch op.Op {
	case "reweight":
		if op.Idx < 0 || op.Idx >= len(model) || float64(op.V) < 0 {
			return model, false
		}
		next[op.Idx] = float64(op.V)
	case "reweightall":
		if len(op.W) != len(model) {
			return model, false
		}
		for i, v := range op.W {
			if v < 0 {
				return model, false
			}
			next[i] = float64(v)
		}
	default:
		return model, true
	}
	s := 0.0
	for _, v := range next {
		s += v
	}
	if !(s > 0) {
		return model, false
	}
	return next, true
}

func stepCDF(w []float64) func(float64) float64 {
	tot := 0.0
	for _, v := range w {
		tot += v
	}
	cdf := make([]float64, len(w))
	acc := 0.0
	for i, v := range w {
		acc += v
		cdf[i] = acc / tot
	}
	return func(x float64) float64 {
		if x < 0 {
			return 0
		}
		if int(x) >= len(cdf) {
			return 1
		}
		return cdf[int(x)]
	}
}

func checkErrPath(c errCase) *vk.Failure {
	vk.Class("errpath/" + c.Kind + "/" + c.Bad)
	vk.NonTrivial("errpath", c.Kind, c.Bad, c.W, c.Ops, c.BadIdx, c.BadW)
	vk.Sample("errpath", c)
	var fs fails
	F := func(oracle, format string, args ...any) {
		f := vk.Failf(c.Kind+"-"+oracle, format, args...)
		f.Msg = fmt.Sprintf("%s weights=%v history=%+v rejected call=%s(idx %d, %v): ", c.Kind, c.W, c.Ops, c.Bad, c.BadIdx, c.BadW) + f.Msg
		fs.add(f)
	}
	nd := vk.Pick(20000, 100000)
	switch c.Kind {
	case "Categorical":
		model := vk.Fs(c.W)
		n := len(model)
		src := rand.NewPCG(c.S1, c.S2)
		cat := distuv.NewCategorical(model, src)
		for _, op := range c.Ops {
			next, ok := applyModel(model, op)
			if !ok {
				continue
			}
			switch op.Op {
			case "reweight":
				cat.Reweight(op.Idx, float64(op.V))
			case "reweightall":
				cat.ReweightAll(vk.Fs(op.W))
			}
			model = next
		}
		snapshot := func() []float64 {
			src.Seed(c.S1, c.S2)
			s := []float64{float64(cat.Len()), cat.Mean(), cat.Entropy()}
			for k := -1; k <= n; k++ {
				x := float64(k)
				s = append(s, cat.Prob(x), cat.LogProb(x), cat.CDF(x), cat.CDF(x+0.5))
			}
			for i := 0; i < 64; i++ {
				s = append(s, cat.Rand())
			}
			return s
		}
		before := snapshot()
		// the rejected call
		var res vk.Result
		switch c.Bad {
		case "reweightall-negative", "reweightall-length":
			res = vk.Call(func() { cat.ReweightAll(vk.Fs(c.BadW)) })
		case "reweight-negative":
			res = vk.Call(func() { cat.Reweight(c.BadIdx, -float64(c.BadW[0])-0.5) })
		case "reweight-index":
			res = vk.Call(func() { cat.Reweight(c.BadIdx, 1) })
		case "reweightall-zero-total":
			// the argument check "sum of the weights non-positive"
			res = vk.Call(func() { cat.ReweightAll(make([]float64, n)) })
		case "reweight-zero-total":
			// valid calls leave a single positive weight; removing it is rejected
			last := -1
			for i, v := range model {
				if v > 0 {
					last = i
				}
			}
			for i, v := range model {
				if v > 0 && i != last {
					cat.Reweight(i, 0)
					model = append([]float64(nil), model...)
					model[i] = 0
				}
			}
			before = snapshot()
			res = vk.Call(func() { cat.Reweight(last, 0) })
		}
		if res.Outcome == vk.Returned {
			F("rejected-call-returned", "the call returned instead of panicking")
			return fs.pick(c.S1)
		}
		if c.Bad != "reweight-index" && res.Outcome != vk.PackagePanic {
			F("rejected-call-faults", "the call ended in a runtime fault instead of the documented panic: %s", res.Text)
		}
		var after []float64
		if r := vk.Call(func() { after = snapshot() }); r.Outcome != vk.Returned {
			F("state-changed-by-"+c.Bad, "after the recovered panic (%s) using the distribution ends in %v: %s", res.Text, r.Outcome, r.Text)
			return fs.pick(c.S1)
		}
		if i, ok := sameSnap(before, after); !ok {
			F("state-changed-by-"+c.Bad, "after the recovered panic (%s) the distribution differs from what it was before the call (observable %d: %v -> %v; observables are Len, Mean, Entropy, then Prob/LogProb/CDF/CDF(+.5) for k=-1..n, then 64 draws)", res.Text, i, before[min(max(i, 0), len(before)-1)], after[min(max(i, 0), len(after)-1)])
			// what follows would only restate the same corruption under other keys
			return fs.pick(c.S1)
		}
		// the law of the current (old) weights
		tot, sum := 0.0, 0.0
		for _, v := range model {
			tot += v
		}
		for k := 0; k < n; k++ {
			p := cat.Prob(float64(k))
			sum += p
			if !(math.Abs(p-model[k]/tot) <= 1e-12) {
				F("prob-vs-weights", "Prob(%d)=%v but the weights are %v (w/sum=%v)", k, p, model, model[k]/tot)
				break
			}
		}
		if !(math.Abs(sum-1) <= 1e-12) || !(math.Abs(cat.CDF(float64(n-1))-1) <= 1e-12) {
			F("prob-total-mass", "Prob sums to %v and CDF at the top of the support is %v", sum, cat.CDF(float64(n-1)))
		}
		xs := make([]float64, nd)
		if r := vk.Call(func() {
			for i := range xs {
				xs[i] = cat.Rand()
			}
		}); r.Outcome != vk.Returned {
			F("rand-panics", "Rand: %s", r.Text)
		} else if dist, at := ksLattice(xs, stepCDF(model)); !(dist <= dkwBound(nd)) {
			F("rand-follows-weights", "Kolmogorov distance between %d draws and the weights %v is %.4f at %v (bound %.4f)", nd, model, dist, at, dkwBound(nd))
		}
	case "Weighted":
		model := vk.Fs(c.W)
		n := len(model)
		srcA, srcB := rand.NewPCG(c.S1, c.S2), rand.NewPCG(c.S1, c.S2)
		a, b := sampleuv.NewWeighted(model, srcA), sampleuv.NewWeighted(model, srcB)
		for _, op := range c.Ops {
			switch op.Op {
			case "take":
				ia, oka := a.Take()
				ib, okb := b.Take()
				if ia != ib || oka != okb {
					F("twins-diverge", "two Weighted values with the same history and seed returned (%d,%v) and (%d,%v)", ia, oka, ib, okb)
					return fs.pick(c.S1)
				}
				if oka {
					if ia < 0 || ia >= n || !(model[ia] > 0) {
						F("take-zero-weight", "Take returned item %d although its weight is not positive (weights %v)", ia, model)
						return fs.pick(c.S1)
					}
					model = append([]float64(nil), model...)
					model[ia] = 0
				}
			case "reweight":
				if op.Idx < 0 || op.Idx >= n || op.V < 0 {
					continue
				}
				a.Reweight(op.Idx, float64(op.V))
				b.Reweight(op.Idx, float64(op.V))
				model = append([]float64(nil), model...)
				model[op.Idx] = float64(op.V)
			case "reweightall":
				if next, ok := applyModel(model, op); ok {
					a.ReweightAll(vk.Fs(op.W))
					b.ReweightAll(vk.Fs(op.W))
					model = next
				}
			}
		}
		var res vk.Result
		switch c.Bad {
		case "reweightall-length":
			res = vk.Call(func() { a.ReweightAll(vk.Fs(c.BadW)) })
		case "reweight-index":
			res = vk.Call(func() { a.Reweight(c.BadIdx, 1) })
		}
		if res.Outcome == vk.Returned {
			F("rejected-call-returned", "the call returned instead of panicking")
			return fs.pick(c.S1)
		}
		if c.Bad == "reweightall-length" && res.Outcome != vk.PackagePanic {
			F("rejected-call-faults", "runtime fault instead of the documented panic: %s", res.Text)
		}
		if a.Len() != n {
			F("state-changed-by-"+c.Bad, "Len()=%d after the recovered panic", a.Len())
		}
		// law of the next Take under the current weights: take and put back
		tot := 0.0
		for _, v := range model {
			tot += v
		}
		if tot > 0 {
			xs := make([]float64, 0, nd)
			for k := 0; k < nd; k++ {
				i, ok := a.Take()
				if !ok || i < 0 || i >= n || !(model[i] > 0) {
					F("take-after-rejected-call", "Take returned (%d,%v) with weights %v", i, ok, model)
					break
				}
				a.Reweight(i, model[i])
				xs = append(xs, float64(i))
			}
			if len(xs) == nd {
				if dist, at := ksLattice(xs, stepCDF(model)); !(dist <= dkwBound(nd)) {
					F("take-follows-weights", "Kolmogorov distance between %d Take/put-back rounds and the weights %v is %.4f at %v (bound %.4f)", nd, model, dist, at, dkwBound(nd))
				}
			}
		}
		// the twin that never saw the rejected call drains identically
		srcA.Seed(c.S2, c.S1)
		srcB.Seed(c.S2, c.S1)
		for k := 0; k <= n; k++ {
			ia, oka := a.Take()
			ib, okb := b.Take()
			if ia != ib || oka != okb {
				F("state-changed-by-"+c.Bad, "after the recovered panic (%s), draining with the same seed gives (%d,%v) at step %d; the twin that never received the call gives (%d,%v)", res.Text, ia, oka, k, ib, okb)
				break
			}
		}
	case "ParamUpdate":
		// documented length panics of SetMean / ConjugateUpdate / Fit leave the parameters alone
		w := vk.Fs(c.W)
		x := w
		switch c.Bad {
		case "setmean-length":
			d := 1 + c.BadIdx%4
			mu, sg := genSPD(c.S1%1000, d, 1, 1)
			src := rand.NewPCG(c.S1, c.S2)
			nrm, _ := distmv.NewNormal(mu, sg.toMat(), src)
			snap := func() []float64 {
				src.Seed(c.S1, c.S2)
				s := append(nrm.Mean(nil), nrm.LogProb(mu), nrm.Entropy())
				return append(s, nrm.Rand(nil)...)
			}
			before := snap()
			fs.add(vk.MustPanic("ParamUpdate-setmean-length-must-panic", func() { nrm.SetMean(make([]float64, d+1)) }))
			fs.add(vk.MustPanic("ParamUpdate-setmean-length-must-panic", func() { nrm.SetMean(make([]float64, d-1)) }))
			if i, ok := sameSnap(before, snap()); !ok {
				F("state-changed-by-"+c.Bad, "distmv.Normal differs after a recovered SetMean length panic (observable %d)", i)
			}
		case "conjugate-length":
			nm := distuv.Normal{Mu: x[0], Sigma: 1 + math.Abs(x[1])}
			ps := []float64{2, 3}
			fs.add(vk.MustPanic("ParamUpdate-normal-conjugate-length-must-panic", func() { nm.ConjugateUpdate([]float64{1}, 4, ps) }))
			fs.add(vk.MustPanic("ParamUpdate-normal-conjugate-length-must-panic", func() { nm.ConjugateUpdate([]float64{1, 2}, 4, []float64{1, 2, 3}) }))
			if nm.Mu != x[0] || nm.Sigma != 1+math.Abs(x[1]) || ps[0] != 2 || ps[1] != 3 {
				F("state-changed-by-"+c.Bad, "Normal %+v strength %v after a recovered ConjugateUpdate length panic", nm, ps)
			}
			ex := distuv.Exponential{Rate: 1 + math.Abs(x[0])}
			pe := []float64{2}
			fs.add(vk.MustPanic("ParamUpdate-exponential-conjugate-length-must-panic", func() { ex.ConjugateUpdate([]float64{1, 2}, 4, pe) }))
			fs.add(vk.MustPanic("ParamUpdate-exponential-conjugate-length-must-panic", func() { ex.ConjugateUpdate([]float64{1}, 4, []float64{1, 2}) }))
			if ex.Rate != 1+math.Abs(x[0]) || pe[0] != 2 {
				F("state-changed-by-"+c.Bad, "Exponential %+v strength %v after a recovered ConjugateUpdate length panic", ex, pe)
			}
		case "fit-length":
			nm := distuv.Normal{Mu: x[0], Sigma: 2}
			ex := distuv.Exponential{Rate: 3}
			lp := distuv.Laplace{Mu: x[0], Scale: 2}
			bad := make([]float64, len(x)+1)
			fs.add(vk.MustPanic("ParamUpdate-normal-fit-length-must-panic", func() { nm.Fit(x, bad) }))
			fs.add(vk.MustPanic("ParamUpdate-exponential-fit-length-must-panic", func() { ex.Fit(x, bad) }))
			fs.add(vk.MustPanic("ParamUpdate-laplace-fit-length-must-panic", func() { lp.Fit(x, bad) }))
			if nm.Mu != x[0] || nm.Sigma != 2 || ex.Rate != 3 || lp.Mu != x[0] || lp.Scale != 2 {
				F("state-changed-by-"+c.Bad, "parameters changed by a Fit that panicked: %+v %+v %+v", nm, ex, lp)
			}
		}
	}
	return fs.pick(c.S1)
}

func TestErrPath(t *testing.T) {
	vk.Run(t, "errpath", vk.Opts{Quick: 2400, Thorough: 20000}, func(t *rapid.T) errCase {
		c := errCase{Kind: rapid.SampledFrom([]string{"Categorical", "Categorical", "Weighted", "Weighted", "ParamUpdate"}).Draw(t, "kind")}
		n := vk.Dim(t, "n", 2, 12, 3, 8)
		wgen := func(label string) float64 {
			switch rapid.IntRange(0, 4).Draw(t, label+"_cls") {
			case 0:
				return 0
			case 1:
				return 1
			}
			return float64(rapid.IntRange(1, 40).Draw(t, label)) / 4
		}
		wvec := func(label string, m int) []vk.F {
			w := make([]vk.F, m)
			pos := false
			for i := range w {
				w[i] = vk.F(wgen(label))
				pos = pos || w[i] > 0
			}
			if !pos && m > 0 {
				w[rapid.IntRange(0, m-1).Draw(t, label+"_pos")] = 1
			}
			return w
		}
		c.W = wvec("w", n)
		nops := rapid.IntRange(0, 5).Draw(t, "nops")
		for i := 0; i < nops; i++ {
			var op histOp
			kinds := []string{"reweight", "reweight", "reweightall"}
			if c.Kind == "Weighted" {
				kinds = append(kinds, "take", "take")
			}
			op.Op = rapid.SampledFrom(kinds).Draw(t, "op")
			switch op.Op {
			case "reweight":
				op.Idx = rapid.IntRange(0, n-1).Draw(t, "idx")
				op.V = vk.F(wgen("v"))
			case "reweightall":
				op.W = wvec("wall", n)
			}
			c.Ops = append(c.Ops, op)
		}
		switch c.Kind {
		case "Categorical":
			c.Bad = rapid.SampledFrom([]string{"reweightall-negative", "reweightall-negative", "reweightall-length", "reweight-negative", "reweight-index", "reweightall-zero-total", "reweight-zero-total"}).Draw(t, "bad")
		case "Weighted":
			c.Bad = rapid.SampledFrom([]string{"reweightall-length", "reweight-index"}).Draw(t, "bad")
		default:
			c.Bad = rapid.SampledFrom([]string{"setmean-length", "conjugate-length", "fit-length"}).Draw(t, "bad")
		}
		switch c.Bad {
		case "reweightall-negative":
			// new, valid-looking weights with one negative entry at a drawn position
			c.BadW = wvec("badw", n)
			for i := range c.BadW {
				c.BadW[i] += 0.125 // differ from the current weights
			}
			c.BadIdx = rapid.IntRange(0, n-1).Draw(t, "badidx")
			c.BadW[c.BadIdx] = -c.BadW[c.BadIdx]
		case "reweightall-length":
			m := rapid.SampledFrom([]int{0, n - 1, n + 1, 2 * n}).Draw(t, "badlen")
			c.BadW = wvec("badw", m)
			for i := range c.BadW {
				c.BadW[i] += 0.125
			}
		case "reweight-negative":
			c.BadIdx = rapid.IntRange(0, n-1).Draw(t, "badidx")
			c.BadW = []vk.F{vk.F(wgen("badv"))}
		case "reweight-index":
			c.BadIdx = rapid.SampledFrom([]int{-1, n, n + 3}).Draw(t, "badidx")
		default:
			c.BadIdx = rapid.IntRange(0, 7).Draw(t, "badidx")
		}
		c.S1 = rapid.Uint64().Draw(t, "s1")
		c.S2 = rapid.Uint64().Draw(t, "s2")
		return c
	}, checkErrPath)
}

// ---- argindep ----------------------------------------------------------------------

type argCase struct {
	Kind     string
	Dim      int
	Seed     uint64
	Nu       vk.F
	Scribble int // how the caller's Cholesky / matrix is reused
	S1, S2   uint64
}

var argKinds = []string{"NewNormal", "NewNormalChol", "NewNormalPrecision", "ConditionNormal", "MarginalNormal", "SetMean", "NewStudentsT", "ConditionStudentsT", "NewUniform", "NewDirichlet", "NewWishart", "NewCategorical", "NewWeighted", "NewProposalNormal", "NormalRandCov"}

func scribbleSlice(x []float64, r *vk.SplitMix) {
	for i := range x {
		x[i] = 1000 + 7*r.Float()
	}
}

// scribbleSym overwrites a caller's symmetric matrix with another positive definite one.
func scribbleSym(m *mat.SymDense, seed uint64) {
	d := m.SymmetricDim()
	_, other := genSPD(seed+991, d, 0.5, 3)
	for i := 0; i < d; i++ {
		for j := i; j < d; j++ {
			m.SetSym(i, j, other[i][j])
		}
	}
}

// scribbleChol reuses the caller's Cholesky value in one of the ways the mat
// API offers.
func scribbleChol(ch *mat.Cholesky, how int, seed uint64) string {
	d := ch.SymmetricDim()
	switch how % 4 {
	case 0:
		_, other := genSPD(seed+17, d, 0.5, 3)
		ch.Factorize(other.toMat())
		return "Factorize(another matrix)"
	case 1:
		ch.Scale(9, ch)
		return "Scale(9)"
	case 2:
		x := make([]float64, d)
		for i := range x {
			x[i] = float64(i + 2)
		}
		ch.SymRankOne(ch, 1, mat.NewVecDense(d, x))
		return "SymRankOne"
	default:
		_, other := genSPD(seed+17, d+1, 0.5, 3)
		ch.Factorize(other.toMat())
		return "Factorize(a larger matrix)"
	}
}

func symEntries(m mat.Symmetric) []float64 {
	d := m.SymmetricDim()
	var s []float64
	for i := 0; i < d; i++ {
		for j := 0; j < d; j++ {
			s = append(s, m.At(i, j))
		}
	}
	return s
}

func checkArgIndep(c argCase) *vk.Failure {
	d := c.Dim
	vk.Class(fmt.Sprintf("argindep/%s/scribble%d", c.Kind, c.Scribble%4))
	vk.NonTrivial("argindep", c.Kind, d, c.Seed, c.Nu, c.Scribble)
	vk.Sample("argindep", c)
	src := rand.NewPCG(c.S1, c.S2)
	r := vk.NewSplitMix(c.Seed ^ 0x77)
	mu, sg := genSPD(c.Seed, d, 1, 1)
	l, _ := sg.chol()
	// evaluation points (owned by the harness, never handed to a constructor)
	pts := make([][]float64, 3)
	for k := range pts {
		pts[k] = make([]float64, d)
		for i := range pts[k] {
			pts[k][i] = mu[i] + float64(k)*r.Norm()
		}
	}
	var fs fails
	F := func(oracle, format string, args ...any) {
		f := vk.Failf(c.Kind+"-"+oracle, format, args...)
		f.Msg = fmt.Sprintf("%s dim=%d seed=%d: ", c.Kind, d, c.Seed) + f.Msg
		fs.add(f)
	}
	// outs collects every slice the value under test hands out; they are
	// scribbled over together with the arguments.
	var outs [][]float64
	keep := func(x []float64) []float64 {
		outs = append(outs, x)
		return x
	}
	normalSnap := func(n *distmv.Normal) []float64 {
		src.Seed(c.S1, c.S2)
		dd := n.Dim()
		s := []float64{float64(dd), n.Entropy()}
		s = append(s, keep(n.Mean(nil))...)
		var cov mat.SymDense
		n.CovarianceMatrix(&cov)
		s = append(s, symEntries(&cov)...)
		for _, x := range pts {
			x = x[:dd]
			s = append(s, n.LogProb(x), n.Prob(x))
			s = append(s, keep(n.ScoreInput(nil, x))...)
			s = append(s, keep(n.TransformNormal(nil, x))...)
		}
		p := make([]float64, dd)
		for i := range p {
			p[i] = 0.1 + 0.8*float64(i+1)/float64(dd+1)
		}
		s = append(s, keep(n.Quantile(nil, p))...)
		for k := 0; k < 4; k++ {
			s = append(s, keep(n.Rand(nil))...)
		}
		sn := n.MarginalNormalSingle(0, nil)
		s = append(s, sn.Mu, sn.Sigma)
		if dd >= 2 {
			if m, ok := n.MarginalNormal([]int{dd - 1}, nil); ok {
				s = append(s, m.LogProb([]float64{0.25}))
			}
			if cn, ok := n.ConditionNormal([]int{0}, []float64{0.5}, nil); ok {
				s = append(s, keep(cn.Mean(nil))...)
				s = append(s, cn.Entropy())
			}
		}
		return s
	}
	compare := func(what string, before []float64, snap func() []float64) {
		var after []float64
		if r := vk.Call(func() { after = snap() }); r.Outcome != vk.Returned {
			F("depends-on-caller-argument", "after the caller %s, using the value ends in %v: %s", what, r.Outcome, r.Text)
			return
		}
		if i, ok := sameSnap(before, after); !ok {
			bi, ai := math.NaN(), math.NaN()
			if i >= 0 {
				bi, ai = before[i], after[i]
			}
			F("depends-on-caller-argument", "after the caller %s, the value differs from what it was (observable %d of %d: %v -> %v)", what, i, len(before), bi, ai)
		}
	}
	scribbleOuts := func() {
		for _, o := range outs {
			scribbleSlice(o, r)
		}
	}
	switch c.Kind {
	case "NewNormal", "ConditionNormal", "MarginalNormal", "SetMean", "NormalRandCov":
		muArg := append([]float64(nil), mu...)
		sgArg := sg.toMat()
		n, ok := distmv.NewNormal(muArg, sgArg, src)
		if !ok {
			return nil
		}
		switch c.Kind {
		case "NewNormal":
			before := normalSnap(n)
			scribbleSlice(muArg, r)
			scribbleSym(sgArg, c.Seed)
			scribbleOuts()
			compare("overwrote mu, sigma and the returned slices", before, func() []float64 { return normalSnap(n) })
		case "ConditionNormal":
			if d < 2 {
				return nil
			}
			obs, vals := []int{d - 1}, []float64{mu[d-1] + 0.5}
			cn, ok := n.ConditionNormal(obs, vals, src)
			if !ok {
				return nil
			}
			before := normalSnap(cn)
			obs[0], vals[0] = 0, 99
			n.SetMean(make([]float64, d)) // the parent changes afterwards
			scribbleOuts()
			compare("overwrote observed/values and moved the parent's mean", before, func() []float64 { return normalSnap(cn) })
		case "MarginalNormal":
			if d < 2 {
				return nil
			}
			vars := []int{d - 1, 0}
			mg, ok := n.MarginalNormal(vars, src)
			if !ok {
				return nil
			}
			before := normalSnap(mg)
			vars[0], vars[1] = 0, 0
			n.SetMean(make([]float64, d))
			scribbleOuts()
			compare("overwrote vars and moved the parent's mean", before, func() []float64 { return normalSnap(mg) })
		case "SetMean":
			m2 := make([]float64, d)
			for i := range m2 {
				m2[i] = mu[i] + 1
			}
			n.SetMean(m2)
			before := normalSnap(n)
			scribbleSlice(m2, r)
			scribbleOuts()
			compare("overwrote the slice passed to SetMean", before, func() []float64 { return normalSnap(n) })
		case "NormalRandCov":
			// the package-level samplers must not write to their inputs
			var ch mat.Cholesky
			ch.Factorize(sgArg)
			var u0 mat.TriDense
			ch.UTo(&u0)
			src.Seed(c.S1, c.S2)
			distmv.NormalRand(nil, muArg, &ch, src)
			distmv.NormalRandCov(nil, muArg, sgArg, src)
			distmv.NormalRandCov(nil, muArg, &ch, src)
			distmv.NormalLogProb(pts[0], muArg, &ch)
			var u1 mat.TriDense
			ch.UTo(&u1)
			if !vecClose(muArg, mu, 0) || !mat.Equal(sgArg, sg.toMat()) || !mat.Equal(&u0, &u1) {
				F("writes-to-argument", "NormalRand/NormalRandCov/NormalLogProb changed mean, covariance or Cholesky argument")
			}
		}
	case "NewNormalChol":
		muArg := append([]float64(nil), mu...)
		var ch mat.Cholesky
		if !ch.Factorize(sg.toMat()) {
			return nil
		}
		n := distmv.NewNormalChol(muArg, &ch, src)
		before := normalSnap(n)
		// independent reference: the density with the harness's own factor
		if want := normalLogPDF(pts[1], mu, l); !(math.Abs(n.LogProb(pts[1])-want) <= 1e-9*condL(l)*(1+math.Abs(want))) {
			F("logprob", "LogProb=%v want %v", n.LogProb(pts[1]), want)
		}
		scribbleSlice(muArg, r)
		how := scribbleChol(&ch, c.Scribble, c.Seed)
		scribbleOuts()
		compare("overwrote mu and reused the mat.Cholesky passed to NewNormalChol ("+how+")", before, func() []float64 { return normalSnap(n) })
	case "NewNormalPrecision":
		// precision = inverse covariance, built with the harness's solver
		prec := mat.NewSymDense(d, nil)
		for j := 0; j < d; j++ {
			e := make([]float64, d)
			e[j] = 1
			col := ltsolve(l, lsolve(l, e))
			for i := 0; i <= j; i++ {
				prec.SetSym(i, j, col[i])
			}
		}
		muArg := append([]float64(nil), mu...)
		n, ok := distmv.NewNormalPrecision(muArg, prec, src)
		if !ok {
			return nil
		}
		before := normalSnap(n)
		scribbleSlice(muArg, r)
		scribbleSym(prec, c.Seed)
		scribbleOuts()
		compare("overwrote mu, the precision matrix and the returned slices", before, func() []float64 { return normalSnap(n) })
	case "NewStudentsT", "ConditionStudentsT":
		nu := float64(c.Nu)
		muArg := append([]float64(nil), mu...)
		sgArg := sg.toMat()
		st, ok := distmv.NewStudentsT(muArg, sgArg, nu, src)
		if !ok {
			return nil
		}
		snap := func(s *distmv.StudentsT) []float64 {
			src.Seed(c.S1, c.S2)
			dd := s.Dim()
			out := []float64{float64(dd), s.Nu()}
			out = append(out, keep(s.Mean(nil))...)
			var cov mat.SymDense
			s.CovarianceMatrix(&cov)
			out = append(out, symEntries(&cov)...)
			for _, x := range pts {
				out = append(out, s.LogProb(x[:dd]), s.Prob(x[:dd]))
			}
			for k := 0; k < 4; k++ {
				out = append(out, keep(s.Rand(nil))...)
			}
			ms := s.MarginalStudentsTSingle(0, nil)
			out = append(out, ms.Mu, ms.Sigma, ms.Nu)
			if dd >= 2 {
				if m, ok := s.MarginalStudentsT([]int{dd - 1}, nil); ok {
					out = append(out, m.LogProb([]float64{0.25}))
				}
			}
			return out
		}
		if c.Kind == "NewStudentsT" {
			before := snap(st)
			scribbleSlice(muArg, r)
			scribbleSym(sgArg, c.Seed)
			scribbleOuts()
			compare("overwrote mu, sigma and the returned slices", before, func() []float64 { return snap(st) })
		} else {
			if d < 2 {
				return nil
			}
			obs, vals := []int{0}, []float64{mu[0] - 0.5}
			cs, ok := st.ConditionStudentsT(obs, vals, src)
			if !ok {
				return nil
			}
			before := snap(cs)
			obs[0], vals[0] = d-1, 99
			scribbleOuts()
			compare("overwrote observed/values", before, func() []float64 { return snap(cs) })
		}
	case "NewUniform":
		b := make([]r1.Interval, d)
		for i := range b {
			lo := math.Round(r.Norm()*4*8) / 8
			b[i] = r1.Interval{Min: lo, Max: lo + float64(1+r.Intn(16))/4}
		}
		x := make([]float64, d)
		for i := range x {
			x[i] = b[i].Min + 0.3*(b[i].Max-b[i].Min)
		}
		u := distmv.NewUniform(b, src)
		var outB [][]r1.Interval
		snap := func() []float64 {
			src.Seed(c.S1, c.S2)
			s := []float64{u.LogProb(x), u.Prob(x), u.Entropy()}
			s = append(s, keep(u.Mean(nil))...)
			s = append(s, keep(u.CDF(nil, x))...)
			p := make([]float64, d)
			for i := range p {
				p[i] = 0.25
			}
			s = append(s, keep(u.Quantile(nil, p))...)
			bb := u.Bounds(nil)
			outB = append(outB, bb)
			for _, iv := range bb {
				s = append(s, iv.Min, iv.Max)
			}
			for k := 0; k < 4; k++ {
				s = append(s, keep(u.Rand(nil))...)
			}
			return s
		}
		before := snap()
		for i := range b {
			b[i] = r1.Interval{Min: 500, Max: 501}
		}
		for _, bb := range outB {
			for i := range bb {
				bb[i] = r1.Interval{Min: -3, Max: -2}
			}
		}
		scribbleOuts()
		compare("overwrote the bounds passed to NewUniform and the slices returned by Bounds/Mean/...", before, func() []float64 { return snap() })
	case "NewDirichlet":
		dd := max(d, 2)
		alpha := make([]float64, dd)
		for i := range alpha {
			alpha[i] = []float64{0.5, 1, 2, 2.5, 7}[r.Intn(5)]
		}
		x := make([]float64, dd)
		for i := range x {
			x[i] = 1 / float64(dd)
		}
		dir := distmv.NewDirichlet(alpha, src)
		snap := func() []float64 {
			src.Seed(c.S1, c.S2)
			s := []float64{dir.LogProb(x), dir.Prob(x)}
			s = append(s, keep(dir.Mean(nil))...)
			var cov mat.SymDense
			dir.CovarianceMatrix(&cov)
			s = append(s, symEntries(&cov)...)
			for k := 0; k < 4; k++ {
				s = append(s, keep(dir.Rand(nil))...)
			}
			return s
		}
		before := snap()
		scribbleSlice(alpha, r)
		scribbleOuts()
		compare("overwrote the alpha passed to NewDirichlet and the returned slices", before, func() []float64 { return snap() })
	case "NewWishart":
		vArg := sg.toMat()
		nu := float64(c.Nu) + float64(d-1)
		w, ok := distmat.NewWishart(vArg, nu, src)
		if !ok {
			return nil
		}
		_, xs := genSPD(c.Seed+5, d, 0.5, 1)
		xm := xs.toMat()
		snap := func() []float64 {
			src.Seed(c.S1, c.S2)
			s := []float64{w.LogProbSym(xm), w.ProbSym(xm)}
			var m, rs mat.SymDense
			w.MeanSymTo(&m)
			s = append(s, symEntries(&m)...)
			w.RandSymTo(&rs)
			s = append(s, symEntries(&rs)...)
			var ch mat.Cholesky
			w.RandCholTo(&ch)
			var back mat.SymDense
			ch.ToSym(&back)
			return append(s, symEntries(&back)...)
		}
		before := snap()
		scribbleSym(vArg, c.Seed)
		compare("overwrote the scale matrix passed to NewWishart", before, func() []float64 { return snap() })
		if !mat.Equal(xm, xs.toMat()) {
			F("writes-to-argument", "LogProbSym changed its argument")
		}
	case "NewCategorical":
		n := 2 + d
		w := make([]float64, n)
		for i := range w {
			w[i] = float64(1+r.Intn(20)) / 4
		}
		w0 := append([]float64(nil), w...)
		cat := distuv.NewCategorical(w, src)
		snap := func() []float64 {
			src.Seed(c.S1, c.S2)
			s := []float64{cat.Mean(), cat.Entropy()}
			for k := 0; k < n; k++ {
				s = append(s, cat.Prob(float64(k)), cat.CDF(float64(k)))
			}
			for k := 0; k < 32; k++ {
				s = append(s, cat.Rand())
			}
			return s
		}
		before := snap()
		scribbleSlice(w, r)
		compare("overwrote the weights passed to NewCategorical", before, func() []float64 { return snap() })
		// and Reweight / ReweightAll copy what they are given
		w2 := append([]float64(nil), w0...)
		w2[0] += 1
		cat.ReweightAll(w2)
		before = snap()
		scribbleSlice(w2, r)
		compare("overwrote the weights passed to ReweightAll", before, func() []float64 { return snap() })
	case "NewWeighted":
		n := 2 + d
		w := make([]float64, n)
		for i := range w {
			w[i] = float64(1+r.Intn(20)) / 4
		}
		w0 := append([]float64(nil), w...)
		srcB := rand.NewPCG(c.S1, c.S2)
		a, b := sampleuv.NewWeighted(w, src), sampleuv.NewWeighted(w0, srcB)
		if c.Scribble%2 == 1 {
			w2, w3 := append([]float64(nil), w0...), append([]float64(nil), w0...)
			w2[0] += 1
			w3[0] += 1
			a.ReweightAll(w2)
			b.ReweightAll(w3)
			scribbleSlice(w2, r)
		}
		scribbleSlice(w, r)
		for k := 0; k <= n; k++ {
			ia, oka := a.Take()
			ib, okb := b.Take()
			if ia != ib || oka != okb {
				F("depends-on-caller-argument", "after the caller overwrote the weights passed to NewWeighted/ReweightAll, Take %d returns (%d,%v); a twin whose argument was left alone returns (%d,%v)", k, ia, oka, ib, okb)
				break
			}
		}
	case "NewProposalNormal":
		sgArg := sg.toMat()
		p, ok := samplemv.NewProposalNormal(sgArg, src)
		if !ok {
			return nil
		}
		y := append([]float64(nil), mu...)
		snap := func() []float64 {
			src.Seed(c.S1, c.S2)
			yy := append([]float64(nil), y...)
			s := []float64{p.ConditionalLogProb(pts[1], yy)}
			scribbleSlice(yy, r) // the location passed in is not retained
			yy = append([]float64(nil), y...)
			s = append(s, keep(p.ConditionalRand(nil, yy))...)
			scribbleSlice(yy, r)
			return append(s, p.ConditionalLogProb(pts[2], y))
		}
		before := snap()
		scribbleSym(sgArg, c.Seed)
		scribbleOuts()
		compare("overwrote the covariance passed to NewProposalNormal and the locations passed to its methods", before, func() []float64 { return snap() })
	}
	return fs.pick(c.S1)
}

func TestArgIndep(t *testing.T) {
	vk.Run(t, "argindep", vk.Opts{Quick: 4000, Thorough: 40000, NoCrumb: true}, func(t *rapid.T) argCase {
		c := argCase{Kind: rapid.SampledFrom(argKinds).Draw(t, "kind")}
		c.Dim = vk.Dim(t, "dim", 1, 6, 2)
		c.Seed = uint64(rapid.IntRange(0, 1<<30).Draw(t, "seed"))
		c.Nu = vk.F(genShape(t, "nu", 2.5, 30, 3))
		c.Scribble = rapid.IntRange(0, 3).Draw(t, "scribble")
		c.S1 = rapid.Uint64().Draw(t, "s1")
		c.S2 = rapid.Uint64().Draw(t, "s2")
		return c
	}, checkArgIndep)
}
