package c11

import (
	"math"
	"math/rand/v2"
	"testing"

	"gonum.org/v1/gonum/stat/distuv"
	"pgregory.net/rapid"
	"verifharness/vk"
)

func nDraws() int { return vk.Pick(4000, 40000) }

// checkUVRand: N draws lie in the support and their empirical distribution is
// within the DKW(alpha=1e-12) distance of the type's own CDF. The outcome is a
// pure function of the seed in the case.
func checkUVRand(c uvCase) *vk.Failure {
	s := uvByName[c.T]
	p := c.params()
	d := s.mk(p, rand.NewPCG(c.S1, c.S2))
	r, ok := d.(rander)
	if !ok {
		return nil
	}
	cd, ok := d.(cdfer)
	if !ok {
		return nil
	}
	record("uv-rand", s, c, "rand", true)
	lo, hi := s.support(p)
	n := nDraws()
	if s.discrete {
		// lattice laws: the CDF is evaluated once per lattice point, so many
		// more draws cost little and make rejection samplers whose acceptance
		// rule is slightly off visible (DKW bound 0.006)
		n = 400000
	}
	xs := make([]float64, n)
	var fs fails
	if res := vk.Call(func() {
		for i := range xs {
			xs[i] = r.Rand()
		}
	}); res.Outcome != vk.Returned {
		return fail(s, "rand-panics", c, "%v: %s", res.Outcome, res.Text)
	}
	for _, x := range xs {
		if math.IsNaN(x) || x < lo || x > hi || (s.discrete && x != math.Floor(x)) {
			fs.add(fail(s, "rand-in-support", c, "Rand() returned %v, support [%v,%v]", x, lo, hi))
			break
		}
	}
	var dist, at float64
	if res := vk.Call(func() {
		if s.discrete {
			dist, at = ksLattice(xs, cd.CDF)
		} else {
			dist, at = ksContinuous(xs, cd.CDF)
		}
	}); res.Outcome != vk.Returned {
		// CDF panics at a drawn value: the draw is outside the domain of the CDF
		fs.add(fail(s, "rand-cdf-panics", c, "CDF panics at a value returned by Rand: %s", res.Text))
		return fs.pick(c.S1)
	}
	if s.discrete {
		// Every support point k with n*P(X=k) >= 30 must have been drawn at least
		// once (it is missed with probability <= exp(-30) < 1e-13).
		if pr, ok := d.(prober); ok {
			seen := map[float64]bool{}
			for _, x := range xs {
				seen[x] = true
			}
			klo, khi := latticeOf(s, p)
			for k := klo; k <= khi; k++ {
				if q := pr.Prob(k); float64(n)*q >= 30 && !seen[k] {
					fs.add(fail(s, "rand-misses-support-point", c, "%d draws never returned %v although Prob(%v)=%v (expected count %.1f)", n, k, k, q, float64(n)*q))
					break
				}
			}
		}
		// The Poisson sampler switches algorithm at Lambda = 10, where P(X=0) is
		// 4.5e-5: too small for the test above with n draws. Draw until the
		// expected number of zeros is 30.
		if lam := p[0]; s.name == "Poisson" && lam >= 10 && lam <= 11.5 {
			m := int(math.Ceil(30 * math.Exp(lam)))
			zeros := 0
			for i := 0; i < m; i++ {
				if r.Rand() == 0 {
					zeros++
				}
			}
			if zeros == 0 {
				fs.add(fail(s, "rand-misses-support-point", c, "%d draws never returned 0 although Prob(0)=%v (expected count %.1f)", m, math.Exp(-lam), float64(m)*math.Exp(-lam)))
			}
		}
	}
	if bound := dkwBound(n); !(dist <= bound) {
		fs.add(fail(s, "rand-follows-cdf", c, "Kolmogorov distance between %d draws and CDF is %.4f at x=%v (DKW bound for alpha=1e-12: %.4f)", n, dist, at, bound))
	}
	return fs.pick(c.S1)
}

func TestUVRand(t *testing.T) {
	vk.Run(t, "uv-rand", vk.Opts{Quick: 6000, Thorough: 40000}, func(t *rapid.T) uvCase {
		return drawUV(t, func(s *uvSpec) bool { return s.name != "Logistic" })
	}, checkUVRand)
}

// ---- AlphaStable: no density or CDF in gonum ------------------------------------

type asCase struct {
	Alpha, Beta, C, Mu vk.F
	S1, S2             uint64
}

func checkAlphaStable(c asCase) *vk.Failure {
	a := distuv.AlphaStable{Alpha: float64(c.Alpha), Beta: float64(c.Beta), C: float64(c.C), Mu: float64(c.Mu), Src: rand.NewPCG(c.S1, c.S2)}
	cl := "alpha" + cls(a.Alpha, 0.5, 1, 2) + ",beta" + cls(a.Beta, 0)
	vk.Class("AlphaStable/" + cl + "/rand+moments")
	vk.NonTrivial("AlphaStable", cl, c.Alpha, c.Beta, c.C, c.Mu)
	vk.Sample("alphastable", c)
	desc := vk.Failf("", "AlphaStable{Alpha:%v Beta:%v C:%v Mu:%v}", a.Alpha, a.Beta, a.C, a.Mu).Msg
	// documented special cases of the moments
	want := func(name string, got, w float64) *vk.Failure {
		if !vk.SameBits(got, w) && got != w {
			return vk.Failf("AlphaStable-"+name+"-documented", "%s: %s()=%v, documented %v", desc, name, got, w)
		}
		return nil
	}
	var fs fails
	if a.Alpha == 2 {
		fs.add(want("ExKurtosis", a.ExKurtosis(), 0))
		fs.add(want("Skewness", a.Skewness(), 0))
		fs.add(want("Variance", a.Variance(), 2*a.C*a.C))
		if sd := a.StdDev(); !closeRel(sd, math.Sqrt2*a.C, 1e-14) {
			fs.add(vk.Failf("AlphaStable-StdDev", "%s: StdDev()=%v, want sqrt(Variance)=%v", desc, sd, math.Sqrt2*a.C))
		}
	} else {
		fs.add(want("ExKurtosis", a.ExKurtosis(), math.NaN()))
		fs.add(want("Skewness", a.Skewness(), math.NaN()))
		fs.add(want("Variance", a.Variance(), math.Inf(1)))
	}
	if a.Alpha > 1 {
		fs.add(want("Mean", a.Mean(), a.Mu))
	} else {
		fs.add(want("Mean", a.Mean(), math.NaN()))
	}
	if a.Beta == 0 {
		fs.add(want("Median", a.Median(), a.Mu))
		fs.add(want("Mode", a.Mode(), a.Mu))
	} else {
		fs.add(vk.MustPanic("AlphaStable-Median-must-panic", func() { a.Median() }))
		fs.add(vk.MustPanic("AlphaStable-Mode-must-panic", func() { a.Mode() }))
	}
	// Rand against the closed-form laws
	var cdf func(x float64) float64
	var law string
	switch {
	case a.Alpha == 2:
		law = "Normal(Mu, C*sqrt2)"
		cdf = distuv.Normal{Mu: a.Mu, Sigma: a.C * math.Sqrt2}.CDF
	case a.Alpha == 1 && a.Beta == 0:
		law = "Cauchy(Mu, C)"
		cdf = func(x float64) float64 { return 0.5 + math.Atan((x-a.Mu)/a.C)/math.Pi }
	case a.Alpha == 0.5 && a.Beta == 1:
		law = "Levy(Mu, C)"
		cdf = func(x float64) float64 {
			if x <= a.Mu {
				return 0
			}
			return math.Erfc(math.Sqrt(a.C / (2 * (x - a.Mu))))
		}
	case a.Alpha == 0.5 && a.Beta == -1:
		law = "reflected Levy(Mu, C)"
		cdf = func(x float64) float64 {
			if x >= a.Mu {
				return 1
			}
			return 1 - math.Erfc(math.Sqrt(a.C/(2*(a.Mu-x))))
		}
	}
	n := nDraws()
	xs := make([]float64, n)
	for i := range xs {
		xs[i] = a.Rand()
		if math.IsNaN(xs[i]) {
			fs.add(vk.Failf("AlphaStable-rand-nan", "%s: Rand() returned NaN", desc))
			return fs.pick(c.S1)
		}
	}
	if cdf != nil {
		if dist, at := ksContinuous(xs, cdf); !(dist <= dkwBound(n)) {
			fs.add(vk.Failf("AlphaStable-rand-follows-law", "%s: Kolmogorov distance of %d draws to %s is %.4f at %v (bound %.4f)", desc, n, law, dist, at, dkwBound(n)))
		}
	} else if a.Beta == 0 {
		// symmetric about Mu (Median() = Mu is documented): P(X <= Mu) = 1/2
		k := 0
		for _, x := range xs {
			if x <= a.Mu {
				k++
			}
		}
		if dist := math.Abs(float64(k)/float64(n) - 0.5); !(dist <= dkwBound(n)) {
			fs.add(vk.Failf("AlphaStable-rand-median", "%s: fraction of %d draws <= Median() is %.4f", desc, n, float64(k)/float64(n)))
		}
	} else {
		// scaling and location: X = Mu + C*(X0 + (2/pi) Beta ln C [alpha==1]); compare the
		// ECDF with that of the standardized law drawn with the same seed
		b := distuv.AlphaStable{Alpha: a.Alpha, Beta: a.Beta, C: 1, Mu: 0, Src: rand.NewPCG(c.S1, c.S2)}
		for i := 0; i < 64; i++ {
			x0 := b.Rand()
			w := a.Mu + a.C*x0
			if a.Alpha == 1 {
				w += a.C * a.Beta * math.Log(a.C) * 2 / math.Pi
			}
			// same uniforms => same draw up to rounding
			if !closeRel(w-a.Mu, xsUnsorted(c, a, i)-a.Mu, 1e-9) && math.Abs(w-xsUnsorted(c, a, i)) > 1e-9*a.C {
				fs.add(vk.Failf("AlphaStable-rand-location-scale", "%s: draw %d is %v but the standardized law with the same seed gives %v", desc, i, xsUnsorted(c, a, i), w))
				break
			}
		}
	}
	return fs.pick(c.S1)
}

// xsUnsorted re-draws the i-th variate of a with the seed of the case.
func xsUnsorted(c asCase, a distuv.AlphaStable, i int) float64 {
	a.Src = rand.NewPCG(c.S1, c.S2)
	var x float64
	for j := 0; j <= i; j++ {
		x = a.Rand()
	}
	return x
}

func TestAlphaStable(t *testing.T) {
	vk.Run(t, "alphastable", vk.Opts{Quick: 600, Thorough: 4000}, func(t *rapid.T) asCase {
		c := asCase{}
		switch rapid.IntRange(0, 5).Draw(t, "acls") {
		case 0:
			c.Alpha = 2
		case 1:
			c.Alpha = 1
		case 2:
			c.Alpha = 0.5
		default:
			c.Alpha = vk.F(sig(rapid.Float64Range(0.3, 2).Draw(t, "alpha"), 3))
		}
		switch rapid.IntRange(0, 3).Draw(t, "bcls") {
		case 0:
			c.Beta = 0
		case 1:
			c.Beta = 1
		case 2:
			c.Beta = -1
		default:
			c.Beta = vk.F(sig(rapid.Float64Range(-1, 1).Draw(t, "beta"), 3))
		}
		c.C = vk.F(genScale(t, "c"))
		c.Mu = vk.F(genLoc(t, "mu"))
		c.S1 = rapid.Uint64().Draw(t, "s1")
		c.S2 = rapid.Uint64().Draw(t, "s2")
		return c
	}, checkAlphaStable)
}
