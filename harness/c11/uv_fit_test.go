package c11

import (
	"math"
	"sort"
	"testing"

	"gonum.org/v1/gonum/stat/distuv"
	"pgregory.net/rapid"
	"verifharness/vk"
)

// fitCase: samples and weights for Fit / SuffStat / ConjugateUpdate.
type fitCase struct {
	T      string // "Normal", "Exponential", "Laplace"
	X      []vk.F
	W      []vk.F // nil: unweighted
	Sorted bool   // present the samples sorted (Laplace.Fit has a separate path)
	Prior  []vk.F // prior parameters for ConjugateUpdate
	M      int    // prior strength (number of pseudo-observations), 0 = none
	Split  int    // batch boundary for the order-independence check
	Seed   uint64 // perturbations
}

type fitter interface {
	Fit(samples, weights []float64)
}

func loglik(d logprober, x, w []float64) float64 {
	var s vk.DD
	for i, v := range x {
		wi := 1.0
		if w != nil {
			wi = w[i]
		}
		s.AddProd(wi, d.LogProb(v))
	}
	return s.Float()
}

func checkFit(c fitCase) *vk.Failure {
	x := vk.Fs(c.X)
	var w []float64
	if c.W != nil {
		w = vk.Fs(c.W)
	}
	if c.Sorted {
		idx := make([]int, len(x))
		for i := range idx {
			idx[i] = i
		}
		sort.SliceStable(idx, func(a, b int) bool { return x[idx[a]] < x[idx[b]] })
		x2 := make([]float64, len(x))
		var w2 []float64
		if w != nil {
			w2 = make([]float64, len(x))
		}
		for i, j := range idx {
			x2[i] = x[j]
			if w != nil {
				w2[i] = w[j]
			}
		}
		x, w = x2, w2
	}
	wcls := "unweighted"
	if w != nil {
		wcls = "weighted"
	}
	if c.Sorted {
		wcls += ",sorted"
	}
	{
		// Near-coincident samples far from the origin make the fitted scale a
		// difference of nearly equal numbers: the identities below then only
		// hold up to eps*kappa^2 (kappa = max|x| / spread). Such cases are
		// outside what the check can decide.
		lo, hi, ma := math.Inf(1), math.Inf(-1), 0.0
		for _, v := range x {
			lo, hi, ma = math.Min(lo, v), math.Max(hi, v), math.Max(ma, math.Abs(v))
		}
		if !(hi-lo > 0) || ma/(hi-lo) > 1e6 {
			vk.Class(c.T + "/ill-conditioned-samples/skipped")
			return nil
		}
	}
	vk.Class(c.T + "/" + wcls + "/fit")
	vk.NonTrivial(c.T, wcls, "fit", c.X, c.W, c.M)
	vk.Sample("uv-fit", c)
	x0 := append([]float64(nil), x...)
	w0 := append([]float64(nil), w...)
	var fs fails
	var mk func(p []float64) logprober
	var fitted []float64
	switch c.T {
	case "Normal":
		var n distuv.Normal
		n.Fit(x, w)
		fitted = []float64{n.Mu, n.Sigma}
		mk = func(p []float64) logprober { return distuv.Normal{Mu: p[0], Sigma: p[1]} }
	case "Exponential":
		var e distuv.Exponential
		e.Fit(x, w)
		fitted = []float64{e.Rate}
		mk = func(p []float64) logprober { return distuv.Exponential{Rate: p[0]} }
	case "Laplace":
		var l distuv.Laplace
		l.Fit(x, w)
		fitted = []float64{l.Mu, l.Scale}
		mk = func(p []float64) logprober { return distuv.Laplace{Mu: p[0], Scale: p[1]} }
	}
	for i := range x {
		if x[i] != x0[i] || (w != nil && w[i] != w0[i]) {
			fs.add(vk.Failf(c.T+"-fit-modifies-input", "Fit changed its input slices: samples %v -> %v, weights %v -> %v", x0, x, w0, w))
			break
		}
	}
	for _, v := range fitted {
		if math.IsNaN(v) || math.IsInf(v, 0) {
			fs.add(vk.Failf(c.T+"-fit-finite", "Fit(%v, %v) = %v", x, w, fitted))
			return fs.pick(c.Seed)
		}
	}
	// The fitted parameters maximize the weighted log-likelihood: no perturbed
	// parameter vector does better.
	L := loglik(mk(fitted), x, w)
	rnd := vk.NewSplitMix(c.Seed)
	spread := 0.0
	for _, v := range x {
		spread = math.Max(spread, math.Abs(v-x[0]))
	}
	// Fit squares the deviations from the mean: where those squares leave the
	// normal range (spread below 1e-140 or above 1e140) the fitted scale loses
	// digits by ordinary underflow/overflow, which the property does not forbid.
	extremeScale := spread != 0 && (spread < 1e-140 || spread > 1e140)
	if extremeScale {
		vk.Class("fit/extreme-scale-likelihood-not-compared")
	}
	for k := 0; k < 32 && !extremeScale; k++ {
		pp := append([]float64(nil), fitted...)
		mag := math.Pow(10, -float64(1+rnd.Intn(6)))
		for i := range pp {
			delta := (2*rnd.Float() - 1) * mag
			if c.T != "Exponential" && i == 0 {
				pp[i] += delta * spread // location
			} else {
				pp[i] *= 1 + delta
			}
		}
		if L2 := loglik(mk(pp), x, w); L2 > L+1e-9*(1+math.Abs(L)) {
			fs.add(vk.Failf(c.T+"-fit-maximizes-likelihood", "Fit(samples=%v, weights=%v) = %v has weighted log-likelihood %v, but parameters %v have %v", x, w, fitted, L, pp, L2))
			break
		}
	}
	// ConjugateUpdate (Normal, Exponential): order independence and equality with
	// Fit on the prior's pseudo-observations plus the data.
	if c.T == "Laplace" {
		return fs.pick(c.Seed)
	}
	type conj interface {
		ConjugateUpdate(suffStat []float64, nSamples float64, priorStrength []float64)
		SuffStat(suffStat, samples, weights []float64) float64
		NumSuffStat() int
	}
	newPrior := func() (conj, func() []float64) {
		if c.T == "Normal" {
			n := &distuv.Normal{Mu: float64(c.Prior[0]), Sigma: float64(c.Prior[1])}
			return n, func() []float64 { return []float64{n.Mu, n.Sigma} }
		}
		e := &distuv.Exponential{Rate: float64(c.Prior[0])}
		return e, func() []float64 { return []float64{e.Rate} }
	}
	update := func(d conj, strength []float64, xs, ws []float64) {
		if len(xs) == 0 {
			return
		}
		ss := make([]float64, d.NumSuffStat())
		n := d.SuffStat(ss, xs, ws)
		d.ConjugateUpdate(ss, n, strength)
	}
	sub := func(ws []float64, a, b int) []float64 {
		if ws == nil {
			return nil
		}
		return ws[a:b]
	}
	str := func() []float64 {
		d, _ := newPrior()
		s := make([]float64, d.NumSuffStat())
		for i := range s {
			s[i] = float64(c.M)
		}
		return s
	}
	// all at once
	dA, getA := newPrior()
	sA := str()
	update(dA, sA, x, w)
	// two batches
	dB, getB := newPrior()
	sB := str()
	k := c.Split % (len(x) + 1)
	update(dB, sB, x[:k], sub(w, 0, k))
	update(dB, sB, x[k:], sub(w, k, len(x)))
	// one at a time
	dC, getC := newPrior()
	sC := str()
	for i := range x {
		update(dC, sC, x[i:i+1], sub(w, i, i+1))
	}
	// Both sides are the same pooled mean / variance evaluated in a different
	// order; rounding differences are amplified by kappa = max|x| / spread
	// (squared for the standard deviation).
	maxabs := 0.0
	for _, v := range x {
		maxabs = math.Max(maxabs, math.Abs(v))
	}
	for _, v := range c.Prior {
		maxabs = math.Max(maxabs, math.Abs(float64(v)))
	}
	kappa := maxabs / spread
	same := func(a, b []float64) bool {
		for i := range a {
			if !closeRel(a[i], b[i], 1e-9+1e-15*kappa*kappa) && math.Abs(a[i]-b[i]) > 1e-9*spread {
				return false
			}
		}
		return true
	}
	if !same(getA(), getB()) || !same(sA, sB) {
		fs.add(vk.Failf(c.T+"-conjugate-update-batches", "prior %v strength %d, samples %v weights %v: all at once gives %v (strength %v), in two batches split at %d gives %v (strength %v)", c.Prior, c.M, x, w, getA(), sA, k, getB(), sB))
	}
	if !same(getA(), getC()) || !same(sA, sC) {
		fs.add(vk.Failf(c.T+"-conjugate-update-one-at-a-time", "prior %v strength %d, samples %v weights %v: all at once gives %v (strength %v), one sample at a time gives %v (strength %v)", c.Prior, c.M, x, w, getA(), sA, getC(), sC))
	}
	// pseudo-observations: a prior of strength M = 2m equals having seen m points
	// at Mu-Sigma and m at Mu+Sigma (Normal), or M points at 1/Rate (Exponential).
	if c.M > 0 && c.M%2 == 0 {
		var px []float64
		for i := 0; i < c.M/2; i++ {
			if c.T == "Normal" {
				px = append(px, float64(c.Prior[0])-float64(c.Prior[1]), float64(c.Prior[0])+float64(c.Prior[1]))
			} else {
				px = append(px, 1/float64(c.Prior[0]), 1/float64(c.Prior[0]))
			}
		}
		allx := append(px, x...)
		var allw []float64
		if w != nil {
			for range px {
				allw = append(allw, 1)
			}
			allw = append(allw, w...)
		}
		var ref []float64
		if c.T == "Normal" {
			var n distuv.Normal
			n.Fit(allx, allw)
			ref = []float64{n.Mu, n.Sigma}
		} else {
			var e distuv.Exponential
			e.Fit(allx, allw)
			ref = []float64{e.Rate}
		}
		if !same(getA(), ref) {
			fs.add(vk.Failf(c.T+"-conjugate-update-pseudo-observations", "prior %v with strength %d updated with samples %v weights %v gives %v, but Fit on the %d pseudo-observations of the prior plus the samples gives %v", c.Prior, c.M, x, w, getA(), c.M, ref))
		}
		// the total strength is the total weight
		tw := float64(c.M)
		for i := range x {
			if w != nil {
				tw += w[i]
			} else {
				tw++
			}
		}
		for _, v := range sA {
			if !closeRel(v, tw, 1e-12) {
				fs.add(vk.Failf(c.T+"-conjugate-update-strength", "priorStrength after the update is %v, want the total weight %v", sA, tw))
			}
		}
	}
	return fs.pick(c.Seed)
}

func TestUVFit(t *testing.T) {
	vk.Run(t, "uv-fit", vk.Opts{Quick: 6000, Thorough: 100000, NoCrumb: true}, func(t *rapid.T) fitCase {
		c := fitCase{T: rapid.SampledFrom([]string{"Normal", "Exponential", "Laplace"}).Draw(t, "type")}
		n := rapid.IntRange(2, 12).Draw(t, "n")
		loc := genLoc(t, "loc")
		sc := genScale(t, "scale")
		seen := map[float64]bool{}
		for tries := 0; len(c.X) < n && tries < 200; tries++ {
			var v float64
			if c.T == "Exponential" {
				v = sc * sig(logUniform(t, "x", 1e-2, 1e2), 3)
			} else {
				v = loc + sc*sig(rapid.Float64Range(-3, 3).Draw(t, "x"), 3)
			}
			if seen[v] {
				continue
			}
			seen[v] = true
			c.X = append(c.X, vk.F(v))
		}
		if len(c.X) < 2 {
			c.X = []vk.F{vk.F(loc + sc), vk.F(loc + 2*sc)}
		}
		if rapid.Bool().Draw(t, "weighted") {
			for range c.X {
				c.W = append(c.W, vk.F(rapid.SampledFrom([]float64{0.5, 1, 1, 2, 3, 7.5}).Draw(t, "w")))
			}
		}
		c.Sorted = rapid.Bool().Draw(t, "sorted")
		if c.T == "Exponential" {
			c.Prior = []vk.F{vk.F(genScale(t, "prate"))}
		} else {
			c.Prior = []vk.F{vk.F(genLoc(t, "pmu")), vk.F(genScale(t, "psigma"))}
		}
		c.M = rapid.SampledFrom([]int{0, 1, 2, 4, 10}).Draw(t, "m")
		c.Split = rapid.IntRange(0, len(c.X)).Draw(t, "split")
		c.Seed = rapid.Uint64().Draw(t, "seed")
		return c
	}, checkFit)
}
