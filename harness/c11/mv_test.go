package c11

import (
	"fmt"
	"math"
	"math/rand/v2"
	"sort"
	"testing"

	"gonum.org/v1/gonum/mat"
	"gonum.org/v1/gonum/mathext"
	"gonum.org/v1/gonum/spatial/r1"
	"gonum.org/v1/gonum/stat/distmat"
	"gonum.org/v1/gonum/stat/distmv"
	"gonum.org/v1/gonum/stat/distuv"
	"pgregory.net/rapid"
	"verifharness/vk"
)

// ---- the harness's own dense linear algebra (independent of gonum/mat) -----------

type sym [][]float64 // full symmetric storage

// genSPD expands a seed into a mean vector and a symmetric positive definite
// matrix A*A' + delta*I scaled by s^2.
func genSPD(seed uint64, d int, delta, s float64) (mu []float64, sg sym) {
	r := vk.NewSplitMix(seed)
	a := make([][]float64, d)
	for i := range a {
		a[i] = make([]float64, d)
		for j := range a[i] {
			a[i][j] = r.Finite()
		}
	}
	sg = make(sym, d)
	for i := range sg {
		sg[i] = make([]float64, d)
	}
	for i := 0; i < d; i++ {
		for j := 0; j <= i; j++ {
			var acc vk.DD
			for k := 0; k < d; k++ {
				acc.AddProd(a[i][k], a[j][k])
			}
			v := acc.Float()
			if i == j {
				v += delta
			}
			v *= s * s
			sg[i][j], sg[j][i] = v, v
		}
	}
	mu = make([]float64, d)
	for i := range mu {
		mu[i] = math.Round(r.Norm()*3*8) / 8
	}
	return
}

func (s sym) toMat() *mat.SymDense {
	d := len(s)
	m := mat.NewSymDense(d, nil)
	for i := 0; i < d; i++ {
		for j := i; j < d; j++ {
			m.SetSym(i, j, s[i][j])
		}
	}
	return m
}

func (s sym) sub(idx []int) sym {
	out := make(sym, len(idx))
	for i, a := range idx {
		out[i] = make([]float64, len(idx))
		for j, b := range idx {
			out[i][j] = s[a][b]
		}
	}
	return out
}

// chol returns the lower Cholesky factor (double-double accumulation) or ok=false.
func (s sym) chol() (l [][]float64, ok bool) {
	d := len(s)
	l = make([][]float64, d)
	for i := range l {
		l[i] = make([]float64, d)
	}
	for j := 0; j < d; j++ {
		var acc vk.DD
		acc.Add(s[j][j])
		for k := 0; k < j; k++ {
			acc.AddProd(-l[j][k], l[j][k])
		}
		v := acc.Float()
		if !(v > 0) {
			return nil, false
		}
		l[j][j] = math.Sqrt(v)
		for i := j + 1; i < d; i++ {
			var a vk.DD
			a.Add(s[i][j])
			for k := 0; k < j; k++ {
				a.AddProd(-l[i][k], l[j][k])
			}
			l[i][j] = a.Float() / l[j][j]
		}
	}
	return l, true
}

// lsolve solves L z = b.
func lsolve(l [][]float64, b []float64) []float64 {
	d := len(l)
	z := make([]float64, d)
	for i := 0; i < d; i++ {
		var a vk.DD
		a.Add(b[i])
		for k := 0; k < i; k++ {
			a.AddProd(-l[i][k], z[k])
		}
		z[i] = a.Float() / l[i][i]
	}
	return z
}

// ltsolve solves L' y = z.
func ltsolve(l [][]float64, z []float64) []float64 {
	d := len(l)
	y := make([]float64, d)
	for i := d - 1; i >= 0; i-- {
		var a vk.DD
		a.Add(z[i])
		for k := i + 1; k < d; k++ {
			a.AddProd(-l[k][i], y[k])
		}
		y[i] = a.Float() / l[i][i]
	}
	return y
}

func logDetL(l [][]float64) float64 {
	var a vk.DD
	for i := range l {
		a.Add(math.Log(l[i][i]))
	}
	return a.Float()
}

// condL is a cheap lower bound of the condition number of L L'.
func condL(l [][]float64) float64 {
	lo, hi := math.Inf(1), 0.0
	for i := range l {
		lo = math.Min(lo, l[i][i])
		hi = math.Max(hi, l[i][i])
		for j := 0; j < i; j++ {
			hi = math.Max(hi, math.Abs(l[i][j]))
		}
	}
	return (hi / lo) * (hi / lo)
}

func normalLogPDF(x, mu []float64, l [][]float64) float64 {
	d := len(mu)
	diff := make([]float64, d)
	for i := range diff {
		diff[i] = x[i] - mu[i]
	}
	z := lsolve(l, diff)
	var q vk.DD
	for _, v := range z {
		q.AddProd(v, v)
	}
	return -0.5*float64(d)*math.Log(2*math.Pi) - logDetL(l) - 0.5*q.Float()
}

func symClose(got mat.Symmetric, want sym, tol float64) (int, int, bool) {
	d := len(want)
	if got.SymmetricDim() != d {
		return -1, -1, false
	}
	scale := 0.0
	for i := range want {
		scale = math.Max(scale, math.Abs(want[i][i]))
	}
	for i := 0; i < d; i++ {
		for j := 0; j < d; j++ {
			if !(math.Abs(got.At(i, j)-want[i][j]) <= tol*scale) {
				return i, j, false
			}
		}
	}
	return 0, 0, true
}

func vecClose(got, want []float64, tol float64) bool {
	if len(got) != len(want) {
		return false
	}
	sc := 1.0
	for _, v := range want {
		sc = math.Max(sc, math.Abs(v))
	}
	for i := range got {
		if !(math.Abs(got[i]-want[i]) <= tol*sc) {
			return false
		}
	}
	return true
}

// ---- distmv.Normal ------------------------------------------------------------

type mvnCase struct {
	Dim    int
	Seed   uint64 // expands to mu, sigma and the evaluation points
	Delta  vk.F   // ridge added to A*A'
	Scale  vk.F
	Ctor   int // 0 NewNormal, 1 NewNormalChol, 2 NewNormalPrecision
	Obs    []int
	S1, S2 uint64
}

var ctorName = []string{"NewNormal", "NewNormalChol", "NewNormalPrecision"}

func checkMVNormal(c mvnCase) *vk.Failure {
	d := c.Dim
	mu, sg := genSPD(c.Seed, d, float64(c.Delta), float64(c.Scale))
	ctor := ctorName[c.Ctor]
	vk.Class(fmt.Sprintf("mvNormal/%s/dim%s/delta=%v", ctor, cls(float64(d), 1, 2), c.Delta))
	vk.NonTrivial("mvNormal", c.Ctor, d, c.Seed, c.Delta, c.Scale, c.Obs)
	vk.Sample("mv-normal", c)
	src := rand.NewPCG(c.S1, c.S2)
	var n *distmv.Normal
	var fs fails
	F := func(oracle, format string, args ...any) *vk.Failure {
		f := vk.Failf("mvNormal-"+ctor+"-"+oracle, format, args...)
		f.Msg = fmt.Sprintf("%s dim=%d seed=%d delta=%v scale=%v: ", ctor, d, c.Seed, c.Delta, c.Scale) + f.Msg
		return f
	}
	must := func(oracle string, f func()) bool {
		fl := vk.MustReturn("mvNormal-"+ctor+"-"+oracle+"-panics", f)
		if fl != nil {
			fl.Msg = fmt.Sprintf("%s dim=%d seed=%d delta=%v scale=%v: ", ctor, d, c.Seed, c.Delta, c.Scale) + fl.Msg
		}
		return fs.add(fl)
	}
	l, ok := sg.chol()
	if !ok {
		return nil
	}
	kappa := condL(l)
	tol := 1e-11 * kappa
	switch c.Ctor {
	case 0:
		var ok bool
		n, ok = distmv.NewNormal(mu, sg.toMat(), src)
		if !ok {
			return F("constructor", "NewNormal reports a positive definite matrix (cond >= %.1e) as not positive definite", kappa)
		}
	case 1:
		var ch mat.Cholesky
		if !ch.Factorize(sg.toMat()) {
			return nil
		}
		n = distmv.NewNormalChol(mu, &ch, src)
	case 2:
		// the precision matrix is the inverse: build it with the harness's solver
		prec := make(sym, d)
		for i := range prec {
			prec[i] = make([]float64, d)
		}
		for j := 0; j < d; j++ {
			e := make([]float64, d)
			e[j] = 1
			col := ltsolve(l, lsolve(l, e))
			for i := 0; i < d; i++ {
				prec[i][j] = col[i]
			}
		}
		for i := 0; i < d; i++ {
			for j := 0; j < i; j++ {
				v := 0.5 * (prec[i][j] + prec[j][i])
				prec[i][j], prec[j][i] = v, v
			}
		}
		var ok bool
		n, ok = distmv.NewNormalPrecision(mu, prec.toMat(), src)
		if !ok {
			return F("constructor", "NewNormalPrecision fails on a positive definite precision matrix (cond >= %.1e)", kappa)
		}
		tol *= kappa // the covariance is recovered by inverting twice
	}
	if n.Dim() != d {
		fs.add(F("dim", "Dim()=%d", n.Dim()))
	}
	if got := n.Mean(nil); !vecClose(got, mu, 0) {
		fs.add(F("mean", "Mean()=%v want %v", got, mu))
	}
	// LogProb against the harness's own Cholesky
	r := vk.NewSplitMix(c.Seed ^ 0xabcdef)
	pts := make([][]float64, 4)
	for k := range pts {
		z := make([]float64, d)
		for i := range z {
			z[i] = r.Norm() * float64(k)
		}
		// x = mu + L z
		x := make([]float64, d)
		for i := 0; i < d; i++ {
			x[i] = mu[i]
			for j := 0; j <= i; j++ {
				x[i] += l[i][j] * z[j]
			}
		}
		pts[k] = x
	}
	for _, x := range pts {
		want := normalLogPDF(x, mu, l)
		got := n.LogProb(x)
		if !(math.Abs(got-want) <= tol*(1+math.Abs(want))) {
			fs.add(F("logprob", "LogProb(%v)=%v, formula with the harness's Cholesky gives %v (tolerance %.1e)", x, got, want, tol*(1+math.Abs(want))))
			break
		}
		if p := n.Prob(x); !closeRel(p, math.Exp(got), 1e-13) {
			fs.add(F("prob-exp-logprob", "Prob(%v)=%v but exp(LogProb)=%v", x, p, math.Exp(got)))
			break
		}
		if c.Ctor == 0 {
			var ch mat.Cholesky
			ch.Factorize(sg.toMat())
			if g2 := distmv.NormalLogProb(x, mu, &ch); !closeRel(g2, got, 1e-13) && math.Abs(g2-got) > 1e-13 {
				fs.add(F("normallogprob", "NormalLogProb(%v)=%v but the method gives %v", x, g2, got))
				break
			}
		}
		// ScoreInput = -Sigma^-1 (x-mu)
		diff := make([]float64, d)
		for i := range diff {
			diff[i] = x[i] - mu[i]
		}
		ws := ltsolve(l, lsolve(l, diff))
		for i := range ws {
			ws[i] = -ws[i]
		}
		if got := n.ScoreInput(nil, x); !vecClose(got, ws, tol) {
			fs.add(F("scoreinput", "ScoreInput(%v)=%v want -Sigma^-1(x-mu)=%v", x, got, ws))
			break
		}
	}
	wantEnt := 0.5*float64(d)*(1+math.Log(2*math.Pi)) + logDetL(l)
	if got := n.Entropy(); !(math.Abs(got-wantEnt) <= tol*(1+math.Abs(wantEnt))) {
		fs.add(F("entropy", "Entropy()=%v want %v", got, wantEnt))
	}
	// CovarianceMatrix
	var cov mat.SymDense
	if !must("covariancematrix", func() { n.CovarianceMatrix(&cov) }) {
		if i, j, ok := symClose(&cov, sg, tol); !ok {
			fs.add(F("covariancematrix", "CovarianceMatrix differs from the covariance the distribution was built from at (%d,%d): got %v", i, j, mat.Formatted(&cov)))
		}
	}
	// TransformNormal and Quantile
	z := make([]float64, d)
	pz := make([]float64, d)
	for i := range z {
		pz[i] = 0.02 + 0.96*r.Float()
		z[i] = distuv.UnitNormal.Quantile(pz[i])
	}
	wantX := make([]float64, d)
	for i := 0; i < d; i++ {
		var a vk.DD
		a.Add(mu[i])
		for j := 0; j <= i; j++ {
			a.AddProd(l[i][j], z[j])
		}
		wantX[i] = a.Float()
	}
	if got := n.TransformNormal(nil, z); !vecClose(got, wantX, tol) {
		fs.add(F("transformnormal", "TransformNormal(%v)=%v want mu+L*z=%v", z, got, wantX))
	}
	if got := n.Quantile(nil, pz); !vecClose(got, wantX, tol) {
		fs.add(F("quantile", "Quantile(%v)=%v want TransformNormal(UnitNormal.Quantile(p))=%v", pz, got, wantX))
	}
	// Marginals
	if d >= 2 && len(c.Obs) > 0 && len(c.Obs) < d {
		vars := c.Obs
		var mg *distmv.Normal
		var okm bool
		if !must("marginalnormal", func() { mg, okm = n.MarginalNormal(vars, src) }) {
			if !okm {
				fs.add(F("marginalnormal", "MarginalNormal(%v) fails", vars))
			} else {
				wm := make([]float64, len(vars))
				for i, v := range vars {
					wm[i] = mu[v]
				}
				var mc mat.SymDense
				mg.CovarianceMatrix(&mc)
				if got := mg.Mean(nil); !vecClose(got, wm, 0) {
					fs.add(F("marginalnormal", "MarginalNormal(%v).Mean=%v want %v", vars, got, wm))
				} else if i, j, ok := symClose(&mc, sg.sub(vars), tol); !ok {
					fs.add(F("marginalnormal", "MarginalNormal(%v) covariance differs from the sub-block at (%d,%d)", vars, i, j))
				}
			}
		}
		var single distuv.Normal
		if !must("marginalnormalsingle", func() { single = n.MarginalNormalSingle(vars[0], src) }) {
			if single.Mu != mu[vars[0]] || !closeRel(single.Sigma, math.Sqrt(sg[vars[0]][vars[0]]), tol+1e-14) {
				fs.add(F("marginalnormalsingle", "MarginalNormalSingle(%d)={Mu:%v Sigma:%v} want {%v %v}", vars[0], single.Mu, single.Sigma, mu[vars[0]], math.Sqrt(sg[vars[0]][vars[0]])))
			}
		}
		// Conditioning on the observed coordinates
		obs := vars
		vals := make([]float64, len(obs))
		for i, o := range obs {
			vals[i] = mu[o] + math.Sqrt(sg[o][o])*r.Norm()
		}
		var cn *distmv.Normal
		var okc bool
		if !must("conditionnormal", func() { cn, okc = n.ConditionNormal(obs, vals, src) }) && okc {
			isObs := map[int]bool{}
			for _, o := range obs {
				isObs[o] = true
			}
			var un []int
			for i := 0; i < d; i++ {
				if !isObs[i] {
					un = append(un, i)
				}
			}
			l22, ok22 := sg.sub(obs).chol()
			if ok22 {
				dv := make([]float64, len(obs))
				for i, o := range obs {
					dv[i] = vals[i] - mu[o]
				}
				w := ltsolve(l22, lsolve(l22, dv))
				wm := make([]float64, len(un))
				wc := make(sym, len(un))
				for i, u := range un {
					var a vk.DD
					a.Add(mu[u])
					for k, o := range obs {
						a.AddProd(sg[u][o], w[k])
					}
					wm[i] = a.Float()
				}
				for i, u := range un {
					wc[i] = make([]float64, len(un))
					col := make([]float64, len(obs))
					for k, o := range obs {
						col[k] = sg[o][u]
					}
					sol := ltsolve(l22, lsolve(l22, col))
					for j, u2 := range un {
						var a vk.DD
						a.Add(sg[u2][u])
						for k, o := range obs {
							a.AddProd(-sg[u2][o], sol[k])
						}
						wc[i][j] = a.Float()
					}
				}
				_ = sort.Ints
				k22 := condL(l22)
				ctol := 1e-11 * kappa * k22
				var cc mat.SymDense
				cn.CovarianceMatrix(&cc)
				if got := cn.Mean(nil); !vecClose(got, wm, ctol) {
					fs.add(F("conditionnormal", "ConditionNormal(%v=%v).Mean=%v, block formula gives %v", obs, vals, got, wm))
				} else if i, j, ok := symClose(&cc, wc, ctol*kappa); !ok {
					fs.add(F("conditionnormal", "ConditionNormal(%v) covariance differs from the Schur complement at (%d,%d): got %v want %v", obs, i, j, cc.At(i, j), wc[i][j]))
				}
			}
		}
	}
	// Rand: whitened draws z = L^-1 (x-mu) are i.i.d. standard normal in every coordinate
	nd := vk.Pick(1500, 15000)
	cols := make([][]float64, d)
	buf := make([]float64, d)
	for k := 0; k < nd; k++ {
		x := n.Rand(buf)
		diff := make([]float64, d)
		for i := range diff {
			diff[i] = x[i] - mu[i]
		}
		zz := lsolve(l, diff)
		for i := range zz {
			cols[i] = append(cols[i], zz[i])
		}
	}
	for i := range cols {
		if dist, at := ksContinuous(cols[i], distuv.UnitNormal.CDF); !(dist <= dkwBound(nd)) {
			fs.add(F("rand-law", "coordinate %d of L^-1(Rand()-mu): Kolmogorov distance to N(0,1) is %.4f at %v over %d draws (bound %.4f)", i, dist, at, nd, dkwBound(nd)))
			break
		}
	}
	// The package-level samplers NormalRand and NormalRandCov (covariance given
	// as a dense symmetric matrix, a Cholesky or a pivoted Cholesky factorization)
	if c.Ctor == 0 {
		var ch mat.Cholesky
		ch.Factorize(sg.toMat())
		var pch mat.PivotedCholesky
		pch.Factorize(sg.toMat(), -1)
		variants := []struct {
			name string
			draw func() []float64
		}{
			{"NormalRand", func() []float64 { return distmv.NormalRand(nil, mu, &ch, src) }},
			{"NormalRandCov-SymDense", func() []float64 { return distmv.NormalRandCov(nil, mu, sg.toMat(), src) }},
			{"NormalRandCov-Cholesky", func() []float64 { return distmv.NormalRandCov(nil, mu, &ch, src) }},
			{"NormalRandCov-PivotedCholesky", func() []float64 { return distmv.NormalRandCov(nil, mu, &pch, src) }},
		}
		v := variants[int(c.S2%uint64(len(variants)))]
		nv := nd / 2
		vcols := make([][]float64, d)
		for k := 0; k < nv; k++ {
			x := v.draw()
			diff := make([]float64, d)
			for i := range diff {
				diff[i] = x[i] - mu[i]
			}
			// any square root S of Sigma gives L^-1 S z ~ N(0, I)
			for i, w := range lsolve(l, diff) {
				vcols[i] = append(vcols[i], w)
			}
		}
		// (evaluated before the per-coordinate test, which sorts the columns in place)
		// the sum of the whitened coordinates has variance d: detects a wrong
		// correlation structure that leaves the marginals intact
		if d >= 2 {
			sums := make([]float64, nv)
			for k := range sums {
				for i := range vcols {
					sums[k] += vcols[i][k]
				}
				sums[k] /= math.Sqrt(float64(d))
			}
			if dist, at := ksContinuous(sums, distuv.UnitNormal.CDF); !(dist <= dkwBound(nv)) {
				fs.add(F(v.name+"-law", "normalized sum of the coordinates of L^-1(%s()-mu): Kolmogorov distance to N(0,1) is %.4f at %v", v.name, dist, at))
			}
		}
		for i := range vcols {
			if dist, at := ksContinuous(vcols[i], distuv.UnitNormal.CDF); !(dist <= dkwBound(nv)) {
				fs.add(F(v.name+"-law", "coordinate %d of L^-1(%s()-mu): Kolmogorov distance to N(0,1) is %.4f at %v over %d draws", i, v.name, dist, at, nv))
				break
			}
		}
	}
	// SetMean moves the density
	if d <= 3 {
		mu2 := make([]float64, d)
		for i := range mu2 {
			mu2[i] = mu[i] + 1
		}
		before := n.LogProb(pts[1])
		n.SetMean(mu2)
		x2 := make([]float64, d)
		for i := range x2 {
			x2[i] = pts[1][i] + 1
		}
		if after := n.LogProb(x2); !(math.Abs(after-before) <= tol*(1+math.Abs(before))+1e-12) {
			fs.add(F("setmean", "after SetMean(mu+1), LogProb(x+1)=%v differs from the previous LogProb(x)=%v", after, before))
		}
	}
	return fs.pick(c.S1)
}

func TestMVNormal(t *testing.T) {
	vk.Run(t, "mv-normal", vk.Opts{Quick: 1500, Thorough: 10000}, func(t *rapid.T) mvnCase {
		c := mvnCase{Dim: vk.Dim(t, "dim", 1, 8, 2)}
		c.Seed = uint64(rapid.IntRange(0, 1<<30).Draw(t, "seed"))
		c.Delta = vk.F(rapid.SampledFrom([]float64{1, 1, 0.1, 1e-3}).Draw(t, "delta"))
		c.Scale = vk.F(rapid.SampledFrom([]float64{1, 1, 0.01, 10}).Draw(t, "scale"))
		c.Ctor = rapid.IntRange(0, 2).Draw(t, "ctor")
		if c.Dim >= 2 {
			k := rapid.IntRange(1, c.Dim-1).Draw(t, "nobs")
			perm := vk.NewSplitMix(uint64(rapid.IntRange(0, 1000).Draw(t, "obsperm"))).Perm(c.Dim)
			c.Obs = append([]int(nil), perm[:k]...)
			if rapid.Bool().Draw(t, "obssorted") {
				sort.Ints(c.Obs)
			}
		}
		c.S1 = rapid.Uint64().Draw(t, "s1")
		c.S2 = rapid.Uint64().Draw(t, "s2")
		return c
	}, checkMVNormal)
}

// ---- distmv.StudentsT, Uniform, Dirichlet; distmat.Wishart, UniformPermutation (light)

type mvLightCase struct {
	Kind   string // "StudentsT", "Uniform", "Dirichlet", "Wishart", "UniformPermutation"
	Dim    int
	Seed   uint64
	Nu     vk.F
	S1, S2 uint64
}

func checkMVLight(c mvLightCase) *vk.Failure {
	d := c.Dim
	vk.Class(fmt.Sprintf("mv%s/dim%s", c.Kind, cls(float64(d), 1, 2)))
	vk.NonTrivial("mv", c.Kind, d, c.Seed, c.Nu)
	vk.Sample("mv-light", c)
	src := rand.NewPCG(c.S1, c.S2)
	r := vk.NewSplitMix(c.Seed ^ 0x5555)
	var fs fails
	F := func(oracle, format string, args ...any) *vk.Failure {
		f := vk.Failf("mv"+c.Kind+"-"+oracle, format, args...)
		f.Msg = fmt.Sprintf("%s dim=%d seed=%d nu=%v: ", c.Kind, d, c.Seed, c.Nu) + f.Msg
		return f
	}
	nd := vk.Pick(1500, 15000)
	switch c.Kind {
	case "StudentsT":
		nu := float64(c.Nu)
		mu, sg := genSPD(c.Seed, d, 1, 1)
		l, _ := sg.chol()
		st, ok := distmv.NewStudentsT(mu, sg.toMat(), nu, src)
		if !ok {
			return F("constructor", "NewStudentsT fails on a positive definite matrix")
		}
		tol := 1e-11 * condL(l)
		for k := 0; k < 4; k++ {
			x := make([]float64, d)
			for i := range x {
				x[i] = mu[i] + 2*float64(k)*r.Norm()
			}
			diff := make([]float64, d)
			for i := range diff {
				diff[i] = x[i] - mu[i]
			}
			z := lsolve(l, diff)
			var q vk.DD
			for _, v := range z {
				q.AddProd(v, v)
			}
			lg1, _ := math.Lgamma((nu + float64(d)) / 2)
			lg2, _ := math.Lgamma(nu / 2)
			want := lg1 - lg2 - 0.5*float64(d)*math.Log(nu*math.Pi) - logDetL(l) - 0.5*(nu+float64(d))*math.Log1p(q.Float()/nu)
			got := st.LogProb(x)
			if !(math.Abs(got-want) <= tol*(1+math.Abs(want))) {
				fs.add(F("logprob", "LogProb(%v)=%v want %v", x, got, want))
				break
			}
			if p := st.Prob(x); !closeRel(p, math.Exp(got), 1e-13) {
				fs.add(F("prob-exp-logprob", "Prob=%v exp(LogProb)=%v", p, math.Exp(got)))
			}
		}
		if got := st.Mean(nil); !vecClose(got, mu, 0) {
			fs.add(F("mean", "Mean()=%v want %v", got, mu))
		}
		if st.Nu() != nu || st.Dim() != d {
			fs.add(F("accessors", "Nu()=%v Dim()=%d", st.Nu(), st.Dim()))
		}
		if nu > 2.2 {
			var cov mat.SymDense
			st.CovarianceMatrix(&cov)
			want := make(sym, d)
			for i := range want {
				want[i] = make([]float64, d)
				for j := range want[i] {
					want[i][j] = sg[i][j] * nu / (nu - 2)
				}
			}
			if i, j, ok := symClose(&cov, want, 1e-13); !ok {
				fs.add(F("covariancematrix", "CovarianceMatrix differs from nu/(nu-2)*Sigma at (%d,%d)", i, j))
			}
		}
		single := st.MarginalStudentsTSingle(0, src)
		if single.Mu != mu[0] || !closeRel(single.Sigma, math.Sqrt(sg[0][0]), 1e-14) || single.Nu != nu {
			fs.add(F("marginalsingle", "MarginalStudentsTSingle(0)=%+v", single))
		}
		if d >= 2 {
			vars := []int{d - 1, 0}
			mg, ok := st.MarginalStudentsT(vars, src)
			if !ok {
				fs.add(F("marginal", "MarginalStudentsT fails"))
			} else {
				// the marginal density is the Student density with the sub-block
				lm, _ := sg.sub(vars).chol()
				x := []float64{mu[d-1] + 0.5, mu[0] - 0.25}
				z := lsolve(lm, []float64{0.5, -0.25})
				q := z[0]*z[0] + z[1]*z[1]
				lg1, _ := math.Lgamma((nu + 2) / 2)
				lg2, _ := math.Lgamma(nu / 2)
				want := lg1 - lg2 - math.Log(nu*math.Pi) - logDetL(lm) - 0.5*(nu+2)*math.Log1p(q/nu)
				if got := mg.LogProb(x); !(math.Abs(got-want) <= tol*(1+math.Abs(want))) {
					fs.add(F("marginal", "MarginalStudentsT(%v).LogProb(%v)=%v want %v", vars, x, got, want))
				}
			}
			// conditioning: nu' = nu + #observed, mean by the block formula
			obs := []int{d - 1}
			val := []float64{mu[d-1] + 1}
			cs, ok := st.ConditionStudentsT(obs, val, src)
			if ok {
				if cs.Nu() != nu+1 || cs.Dim() != d-1 {
					fs.add(F("condition", "ConditionStudentsT: Nu()=%v Dim()=%d", cs.Nu(), cs.Dim()))
				}
				wm := make([]float64, d-1)
				for i := range wm {
					wm[i] = mu[i] + sg[i][d-1]/sg[d-1][d-1]*1
				}
				if got := cs.Mean(nil); !vecClose(got, wm, 1e-12) {
					fs.add(F("condition", "ConditionStudentsT mean %v want %v", got, wm))
				}
				// scale matrix: (nu + beta)/(nu + 1) * Schur complement, beta = (v-mu)^2/sigma_oo
				if nu+1 > 2.2 {
					beta := 1 / sg[d-1][d-1]
					var cc mat.SymDense
					cs.CovarianceMatrix(&cc)
					f := (nu + beta) / (nu + 1) * (nu + 1) / (nu + 1 - 2)
					want := make(sym, d-1)
					for i := range want {
						want[i] = make([]float64, d-1)
						for j := range want[i] {
							want[i][j] = f * (sg[i][j] - sg[i][d-1]*sg[j][d-1]/sg[d-1][d-1])
						}
					}
					if i, j, ok := symClose(&cc, want, 1e-10*condL(l)); !ok {
						fs.add(F("condition", "ConditionStudentsT covariance differs at (%d,%d): got %v want %v", i, j, cc.At(i, j), want[i][j]))
					}
				}
			}
		}
		// Rand: every coordinate of L^-1(x-mu) is a standard Student-t variable
		cols := make([][]float64, d)
		for k := 0; k < nd; k++ {
			x := st.Rand(nil)
			diff := make([]float64, d)
			for i := range diff {
				diff[i] = x[i] - mu[i]
			}
			for i, v := range lsolve(l, diff) {
				cols[i] = append(cols[i], v)
			}
		}
		ref := distuv.StudentsT{Mu: 0, Sigma: 1, Nu: nu}
		for i := range cols {
			if dist, at := ksContinuous(cols[i], ref.CDF); !(dist <= dkwBound(nd)) {
				fs.add(F("rand-law", "coordinate %d of L^-1(Rand()-mu): Kolmogorov distance to t(nu) is %.4f at %v", i, dist, at))
				break
			}
		}
	case "Uniform":
		b := make([]r1.Interval, d)
		for i := range b {
			lo := math.Round(r.Norm()*4*8) / 8
			b[i] = r1.Interval{Min: lo, Max: lo + float64(1+r.Intn(16))/4}
		}
		u := distmv.NewUniform(b, src)
		wantLP := 0.0
		for _, iv := range b {
			wantLP -= math.Log(iv.Max - iv.Min)
		}
		in := make([]float64, d)
		pv := make([]float64, d)
		for i := range in {
			pv[i] = r.Float()
			in[i] = b[i].Min + pv[i]*(b[i].Max-b[i].Min)
		}
		if got := u.LogProb(in); !closeRel(got, wantLP, 1e-13) && math.Abs(got-wantLP) > 1e-13 {
			fs.add(F("logprob", "LogProb(inside)=%v want %v", got, wantLP))
		}
		if p := u.Prob(in); !closeRel(p, math.Exp(wantLP), 1e-13) {
			fs.add(F("prob", "Prob(inside)=%v want %v", p, math.Exp(wantLP)))
		}
		if got := u.Entropy(); !closeRel(got, -wantLP, 1e-13) && math.Abs(got+wantLP) > 1e-13 {
			fs.add(F("entropy", "Entropy()=%v want %v", got, -wantLP))
		}
		out := append([]float64(nil), in...)
		k := r.Intn(d)
		out[k] = b[k].Max + 0.5
		if got := u.LogProb(out); !math.IsInf(got, -1) || u.Prob(out) != 0 {
			fs.add(F("outside", "LogProb(outside)=%v Prob=%v", got, u.Prob(out)))
		}
		cdf := u.CDF(nil, in)
		if !vecClose(cdf, pv, 1e-13) {
			fs.add(F("cdf", "CDF(%v)=%v want %v", in, cdf, pv))
		}
		if cdfo := u.CDF(nil, out); cdfo[k] != 1 {
			fs.add(F("cdf", "CDF above the box = %v", cdfo[k]))
		}
		if q := u.Quantile(nil, pv); !vecClose(q, in, 1e-13) {
			fs.add(F("quantile", "Quantile(%v)=%v want %v", pv, q, in))
		}
		fs.add(vk.MustPanic("mvUniform-quantile-must-panic", func() {
			bad := append([]float64(nil), pv...)
			bad[0] = 1.5
			u.Quantile(nil, bad)
		}))
		wm := make([]float64, d)
		for i := range wm {
			wm[i] = (b[i].Min + b[i].Max) / 2
		}
		if got := u.Mean(nil); !vecClose(got, wm, 1e-15) {
			fs.add(F("mean", "Mean()=%v want %v", got, wm))
		}
		if got := u.Bounds(nil); len(got) != d || got[0] != b[0] {
			fs.add(F("bounds", "Bounds()=%v", got))
		}
		cols := make([][]float64, d)
		for k := 0; k < nd; k++ {
			x := u.Rand(nil)
			for i, v := range x {
				if v < b[i].Min || v > b[i].Max {
					fs.add(F("rand-in-support", "Rand()[%d]=%v outside %v", i, v, b[i]))
				}
				cols[i] = append(cols[i], v)
			}
		}
		for i := range cols {
			i := i
			if dist, at := ksContinuous(cols[i], func(x float64) float64 { return (x - b[i].Min) / (b[i].Max - b[i].Min) }); !(dist <= dkwBound(nd)) {
				fs.add(F("rand-law", "coordinate %d: Kolmogorov distance %.4f at %v", i, dist, at))
				break
			}
		}
	case "Dirichlet":
		if d < 2 {
			d = 2
		}
		alpha := make([]float64, d)
		sum := 0.0
		for i := range alpha {
			alpha[i] = []float64{0.3, 0.5, 1, 1, 2, 2.5, 7, 0.15}[r.Intn(8)]
			sum += alpha[i]
		}
		dir := distmv.NewDirichlet(alpha, src)
		x := make([]float64, d)
		xs := 0.0
		for i := range x {
			x[i] = 0.05 + r.Float()
			xs += x[i]
		}
		for i := range x {
			x[i] /= xs
		}
		want := 0.0
		for i := range x {
			lg, _ := math.Lgamma(alpha[i])
			want += (alpha[i]-1)*math.Log(x[i]) - lg
		}
		lgs, _ := math.Lgamma(sum)
		want += lgs
		got := dir.LogProb(x)
		if !(math.Abs(got-want) <= 1e-12*(1+math.Abs(want))) {
			fs.add(F("logprob", "alpha=%v LogProb(%v)=%v want %v", alpha, x, got, want))
		}
		if p := dir.Prob(x); !closeRel(p, math.Exp(got), 1e-13) {
			fs.add(F("prob-exp-logprob", "Prob=%v exp(LogProb)=%v", p, math.Exp(got)))
		}
		// a point of the simplex with a zero coordinate: where alpha_i == 1 the
		// factor x_i^(alpha_i-1) is 1, so the density is that of the other
		// coordinates (finite if they are positive)
		for i0 := range alpha {
			if alpha[i0] != 1 {
				continue
			}
			xb := make([]float64, d)
			wantB := lgs
			for i := range xb {
				lg, _ := math.Lgamma(alpha[i])
				wantB -= lg
				if i != i0 {
					xb[i] = 1 / float64(d-1)
					wantB += (alpha[i] - 1) * math.Log(xb[i])
				}
			}
			if got := dir.LogProb(xb); math.IsNaN(got) {
				fs.add(F("logprob-nan-at-boundary", "alpha=%v LogProb(%v)=NaN on the boundary of the simplex; the density there is exp(%v)", alpha, xb, wantB))
			} else if !(math.Abs(got-wantB) <= 1e-12*(1+math.Abs(wantB))) {
				fs.add(F("logprob-at-boundary", "alpha=%v LogProb(%v)=%v want %v", alpha, xb, got, wantB))
			}
			break
		}
		wm := make([]float64, d)
		for i := range wm {
			wm[i] = alpha[i] / sum
		}
		if got := dir.Mean(nil); !vecClose(got, wm, 1e-15) {
			fs.add(F("mean", "Mean()=%v want %v", got, wm))
		}
		var cov mat.SymDense
		dir.CovarianceMatrix(&cov)
		wc := make(sym, d)
		for i := range wc {
			wc[i] = make([]float64, d)
			for j := range wc[i] {
				if i == j {
					wc[i][j] = wm[i] * (1 - wm[i]) / (sum + 1)
				} else {
					wc[i][j] = -wm[i] * wm[j] / (sum + 1)
				}
			}
		}
		if i, j, ok := symClose(&cov, wc, 1e-13); !ok {
			fs.add(F("covariancematrix", "alpha=%v CovarianceMatrix(%d,%d)=%v want %v", alpha, i, j, cov.At(i, j), wc[i][j]))
		}
		cols := make([][]float64, d)
		for k := 0; k < nd; k++ {
			v := dir.Rand(nil)
			s := 0.0
			for i, w := range v {
				if !(w >= 0 && w <= 1) {
					fs.add(F("rand-in-support", "Rand()=%v", v))
				}
				s += w
				cols[i] = append(cols[i], w)
			}
			if math.Abs(s-1) > 1e-12 {
				fs.add(F("rand-in-support", "Rand() sums to %v", s))
			}
		}
		for i := range cols {
			ref := distuv.Beta{Alpha: alpha[i], Beta: sum - alpha[i]}
			if dist, at := ksContinuous(cols[i], ref.CDF); !(dist <= dkwBound(nd)) {
				fs.add(F("rand-law", "alpha=%v: coordinate %d is not Beta(%v,%v): Kolmogorov distance %.4f at %v", alpha, i, alpha[i], sum-alpha[i], dist, at))
				break
			}
		}
	case "Wishart":
		nu := float64(c.Nu) + float64(d-1)
		_, v := genSPD(c.Seed, d, 1, 1)
		lv, _ := v.chol()
		w, ok := distmat.NewWishart(v.toMat(), nu, src)
		if !ok {
			return F("constructor", "NewWishart fails on a positive definite matrix")
		}
		tol := 1e-11 * condL(lv)
		_, x := genSPD(c.Seed+77, d, 0.5, 1)
		lx, _ := x.chol()
		// tr(V^-1 X) = sum over columns of X of e_j' V^-1 x_j
		var tr vk.DD
		for j := 0; j < d; j++ {
			col := make([]float64, d)
			for i := range col {
				col[i] = x[i][j]
			}
			sol := ltsolve(lv, lsolve(lv, col))
			tr.Add(sol[j])
		}
		mvlg := float64(d*(d-1)) / 4 * math.Log(math.Pi)
		for i := 0; i < d; i++ {
			lg, _ := math.Lgamma(nu/2 - float64(i)/2)
			mvlg += lg
		}
		want := 0.5*((nu-float64(d)-1)*2*logDetL(lx)-tr.Float()-nu*float64(d)*math.Ln2-nu*2*logDetL(lv)) - mvlg
		got := w.LogProbSym(x.toMat())
		ltol := tol * condL(lx) * (1 + math.Abs(want))
		if !(math.Abs(got-want) <= ltol) {
			fs.add(F("logprobsym", "LogProbSym=%v, the Wishart density formula gives %v (tolerance %.1e)", got, want, ltol))
		}
		if p := w.ProbSym(x.toMat()); !closeRel(p, math.Exp(got), 1e-13) {
			fs.add(F("probsym", "ProbSym=%v exp(LogProbSym)=%v", p, math.Exp(got)))
		}
		var chx mat.Cholesky
		chx.Factorize(x.toMat())
		if g2 := w.LogProbSymChol(&chx); !(math.Abs(g2-got) <= ltol) {
			fs.add(F("logprobsymchol", "LogProbSymChol=%v LogProbSym=%v", g2, got))
		}
		// not positive definite => -Inf
		bad := mat.NewSymDense(d, nil)
		bad.SetSym(0, 0, -1)
		if g := w.LogProbSym(bad); !math.IsInf(g, -1) {
			fs.add(F("logprobsym-outside", "LogProbSym of a matrix that is not positive definite = %v", g))
		}
		var mean mat.SymDense
		w.MeanSymTo(&mean)
		wm := make(sym, d)
		for i := range wm {
			wm[i] = make([]float64, d)
			for j := range wm[i] {
				wm[i][j] = nu * v[i][j]
			}
		}
		if i, j, ok := symClose(&mean, wm, tol); !ok {
			fs.add(F("meansymto", "MeanSymTo(%d,%d)=%v want nu*V=%v", i, j, mean.At(i, j), wm[i][j]))
		}
		// RandSymTo: positive definite, and a'Wa/a'Va ~ chi-squared(nu) for a = e_0 and a = (1,..,1)
		nw := vk.Pick(600, 6000)
		var s0, s1 []float64
		vsum := 0.0
		for i := 0; i < d; i++ {
			for j := 0; j < d; j++ {
				vsum += v[i][j]
			}
		}
		for k := 0; k < nw; k++ {
			var m mat.SymDense
			w.RandSymTo(&m)
			ms := make(sym, d)
			tot := 0.0
			for i := range ms {
				ms[i] = make([]float64, d)
				for j := range ms[i] {
					ms[i][j] = m.At(i, j)
					tot += ms[i][j]
				}
			}
			if _, ok := ms.chol(); !ok {
				// With nu - dim + 1 < 1 the last pivot is a chi-squared variable with
				// less than one degree of freedom and can be lost to rounding: accept
				// a matrix that becomes positive definite after a relative 1e-10 shift.
				trc := 0.0
				for i := range ms {
					trc += ms[i][i]
				}
				for i := range ms {
					ms[i][i] += 1e-10 * trc
				}
				if _, ok2 := ms.chol(); ok2 {
					ok = true
				}
				if ok {
					s0 = append(s0, (ms[0][0]-1e-10*trc)/v[0][0])
					s1 = append(s1, tot/vsum)
					continue
				}
				fs.add(F("randsym-pd", "RandSymTo returned a matrix that is not positive definite: %v", mat.Formatted(&m)))
				break
			}
			s0 = append(s0, ms[0][0]/v[0][0])
			s1 = append(s1, tot/vsum)
		}
		ref := distuv.ChiSquared{K: nu}
		if dist, at := ksContinuous(s0, ref.CDF); !(dist <= dkwBound(nw)) {
			fs.add(F("rand-law", "W[0][0]/V[0][0] is not chi-squared(%v): Kolmogorov distance %.4f at %v", nu, dist, at))
		}
		if dist, at := ksContinuous(s1, ref.CDF); !(dist <= dkwBound(nw)) {
			fs.add(F("rand-law", "1'W1/1'V1 is not chi-squared(%v): Kolmogorov distance %.4f at %v", nu, dist, at))
		}
	case "UniformPermutation":
		if d > 4 {
			d = 4
		}
		up := distmat.NewUniformPermutation(src)
		nfact := 1
		for i := 2; i <= d; i++ {
			nfact *= i
		}
		var ranks []float64
		for k := 0; k < nd; k++ {
			m := mat.NewDense(d, d, nil)
			up.PermTo(m)
			perm := make([]int, d)
			for i := 0; i < d; i++ {
				cnt := 0
				for j := 0; j < d; j++ {
					switch m.At(i, j) {
					case 1:
						perm[i] = j
						cnt++
					case 0:
					default:
						cnt = 99
					}
				}
				if cnt != 1 {
					fs.add(F("permutation-matrix", "PermTo on a zero matrix gives %v", mat.Formatted(m)))
					return fs.pick(c.S1)
				}
			}
			seen := make([]bool, d)
			rank := 0
			for i, p := range perm {
				if seen[p] {
					fs.add(F("permutation-matrix", "PermTo gives a matrix with a repeated column: %v", mat.Formatted(m)))
					return fs.pick(c.S1)
				}
				seen[p] = true
				// Lehmer code
				less := 0
				for _, q := range perm[i+1:] {
					if q < p {
						less++
					}
				}
				f := 1
				for j := 2; j < d-i; j++ {
					f *= j
				}
				rank += less * f
			}
			ranks = append(ranks, float64(rank))
		}
		if dist, at := ksLattice(ranks, func(k float64) float64 {
			return math.Min(1, math.Max(0, (math.Floor(k)+1)/float64(nfact)))
		}); !(dist <= dkwBound(nd)) {
			fs.add(F("uniform-law", "ranks of %d permutations of size %d are not uniform: Kolmogorov distance %.4f at %v", nd, d, dist, at))
		}
		fs.add(vk.MustPanic("mvUniformPermutation-nonsquare-must-panic", func() { up.PermTo(mat.NewDense(2, 3, nil)) }))
	}
	_ = mathext.MvLgamma
	return fs.pick(c.S1)
}

func TestMVLight(t *testing.T) {
	vk.Run(t, "mv-light", vk.Opts{Quick: 1500, Thorough: 10000}, func(t *rapid.T) mvLightCase {
		c := mvLightCase{Kind: rapid.SampledFrom([]string{"StudentsT", "Uniform", "Dirichlet", "Wishart", "UniformPermutation"}).Draw(t, "kind")}
		c.Dim = vk.Dim(t, "dim", 1, 6, 2)
		c.Seed = uint64(rapid.IntRange(0, 1<<30).Draw(t, "seed"))
		c.Nu = vk.F(genShape(t, "nu", 0.5, 40, 1, 2))
		c.S1 = rapid.Uint64().Draw(t, "s1")
		c.S2 = rapid.Uint64().Draw(t, "s2")
		return c
	}, checkMVLight)
}
