package c11

import (
	"fmt"
	"math"
	"math/rand/v2"
	"testing"

	"gonum.org/v1/gonum/mat"
	"gonum.org/v1/gonum/stat/distmv"
	"gonum.org/v1/gonum/stat/distuv"
	"gonum.org/v1/gonum/stat/samplemv"
	"gonum.org/v1/gonum/stat/sampleuv"
	"pgregory.net/rapid"
	"verifharness/vk"
)

type samplerCase struct {
	Kind   string
	N      int    // size parameter (number of weights, batch rows, ...)
	K      int    // secondary size (columns, items taken, ...)
	Seed   uint64 // expands to weights etc.
	BurnIn int
	Rate   int
	S1, S2 uint64
}

// rwProposal is a symmetric Gaussian random-walk proposal for sampleuv.MetropolisHastings.
type rwProposal struct {
	sd  float64
	src rand.Source
}

func (p rwProposal) ConditionalLogProb(x, y float64) float64 {
	return distuv.Normal{Mu: y, Sigma: p.sd}.LogProb(x)
}
func (p rwProposal) ConditionalRand(y float64) float64 {
	return distuv.Normal{Mu: y, Sigma: p.sd, Src: p.src}.Rand()
}

// indepProposal is an asymmetric (independence) proposal: exercises the Hastings ratio.
type indepProposal struct {
	d distuv.Laplace
}

func (p indepProposal) ConditionalLogProb(x, y float64) float64 { return p.d.LogProb(x) }
func (p indepProposal) ConditionalRand(y float64) float64       { return p.d.Rand() }

// mhBound is the acceptance bound for a thinned Markov chain of n kept states:
// the DKW quantile for alpha = 1e-12 at a tenth of the sample size (deliberately
// loose: the chains below have an integrated autocorrelation time well under 10
// after thinning).
func mhBound(n int) float64 { return dkwBound(n / 10) }

func checkSampler(c samplerCase) *vk.Failure {
	vk.Class("sampler/" + c.Kind)
	vk.NonTrivial("sampler", c.Kind, c.N, c.K, c.Seed, c.BurnIn, c.Rate)
	vk.Sample("samplers", c)
	src := rand.NewPCG(c.S1, c.S2)
	r := vk.NewSplitMix(c.Seed)
	var fs fails
	F := func(oracle, format string, args ...any) *vk.Failure {
		f := vk.Failf(c.Kind+"-"+oracle, format, args...)
		f.Msg = fmt.Sprintf("%s N=%d K=%d seed=%d: ", c.Kind, c.N, c.K, c.Seed) + f.Msg
		return f
	}
	reps := vk.Pick(3000, 30000)
	switch c.Kind {
	case "Weighted":
		n := c.N
		w := make([]float64, n)
		tot := 0.0
		for i := range w {
			w[i] = []float64{0, 0.5, 1, 1, 2, 3, 10}[r.Intn(7)]
			tot += w[i]
		}
		if tot == 0 {
			w[0], tot = 1, 1
		}
		npos := 0
		for _, v := range w {
			if v > 0 {
				npos++
			}
		}
		// without replacement: every positive-weight item exactly once, then ok=false
		ws := sampleuv.NewWeighted(w, src)
		if ws.Len() != n {
			fs.add(F("len", "Len()=%d", ws.Len()))
		}
		seen := make([]bool, n)
		for k := 0; k < npos; k++ {
			idx, ok := ws.Take()
			if !ok || idx < 0 || idx >= n || seen[idx] || w[idx] == 0 {
				fs.add(F("take-without-replacement", "weights %v: take %d returned (%d,%v); already taken: %v", w, k, idx, ok, seen))
				break
			}
			seen[idx] = true
		}
		if idx, ok := ws.Take(); ok || idx != -1 {
			fs.add(F("take-exhausted", "weights %v: Take after all items were taken returned (%d,%v), documented (-1,false)", w, idx, ok))
		}
		// law of the first and of the second item taken
		var first, second []float64
		var secondCDF []float64
		for k := 0; k < reps; k++ {
			ws := sampleuv.NewWeighted(w, src)
			i1, _ := ws.Take()
			first = append(first, float64(i1))
			if npos >= 2 {
				i2, _ := ws.Take()
				second = append(second, float64(i2))
			}
		}
		cdf1 := make([]float64, n)
		acc := 0.0
		for i, v := range w {
			acc += v / tot
			cdf1[i] = acc
		}
		step := func(cdf []float64) func(float64) float64 {
			return func(x float64) float64 {
				if x < 0 {
					return 0
				}
				if int(x) >= len(cdf) {
					return 1
				}
				return cdf[int(x)]
			}
		}
		if dist, at := ksLattice(first, step(cdf1)); !(dist <= dkwBound(reps)) {
			fs.add(F("take-first-law", "weights %v: the first item taken does not follow the weights: Kolmogorov distance %.4f at %v", w, dist, at))
		}
		if npos >= 2 {
			// P(second = j) = sum_i p_i * w_j/(tot-w_i) for i != j
			p2 := make([]float64, n)
			for i := range w {
				if w[i] == 0 {
					continue
				}
				for j := range w {
					if j != i && w[j] > 0 {
						p2[j] += w[i] / tot * w[j] / (tot - w[i])
					}
				}
			}
			acc = 0
			secondCDF = make([]float64, n)
			for j := range p2 {
				acc += p2[j]
				secondCDF[j] = acc
			}
			if dist, at := ksLattice(second, step(secondCDF)); !(dist <= dkwBound(reps)) {
				fs.add(F("take-second-law", "weights %v: the second item taken does not follow the renormalized weights: Kolmogorov distance %.4f at %v", w, dist, at))
			}
		}
		// Reweight / ReweightAll
		ws = sampleuv.NewWeighted(w, src)
		for i := range w {
			ws.Reweight(i, 0)
		}
		j := r.Intn(n)
		ws.Reweight(j, 2)
		if idx, ok := ws.Take(); !ok || idx != j {
			fs.add(F("reweight", "after setting all weights to 0 and weight %d to 2, Take returned (%d,%v)", j, idx, ok))
		}
		fs.add(vk.MustPanic("Weighted-reweightall-length-must-panic", func() { ws.ReweightAll(make([]float64, n+1)) }))
	case "WithoutReplacement":
		n, k := c.N, c.K
		if k > n {
			k = n
		}
		if k < 1 {
			k = 1
		}
		var firsts []float64
		for rep := 0; rep < reps/4+1; rep++ {
			idx := make([]int, k)
			sampleuv.WithoutReplacement(idx, n, src)
			seen := map[int]bool{}
			for _, v := range idx {
				if v < 0 || v >= n || seen[v] {
					fs.add(F("unique-in-range", "WithoutReplacement(len %d, n=%d) = %v", k, n, idx))
					return fs.pick(c.S1)
				}
				seen[v] = true
			}
			firsts = append(firsts, float64(idx[r.Intn(k)]))
		}
		if dist, at := ksLattice(firsts, func(x float64) float64 {
			return math.Min(1, math.Max(0, (math.Floor(x)+1)/float64(n)))
		}); !(dist <= dkwBound(len(firsts))) {
			fs.add(F("uniform-law", "an element of WithoutReplacement(len %d, n=%d) is not uniform on [0,n): Kolmogorov distance %.4f at %v", k, n, dist, at))
		}
		fs.add(vk.MustPanic("WithoutReplacement-too-many-must-panic", func() { sampleuv.WithoutReplacement(make([]int, n+1), n, src) }))
	case "LatinHypercubeUV":
		n := c.N
		a := math.Round(r.Norm()*8) / 4
		u := distuv.Uniform{Min: a, Max: a + float64(1+r.Intn(8))/2}
		batch := make([]float64, n)
		sampleuv.LatinHypercube{Q: u, Src: src}.Sample(batch)
		bins := make([]int, n)
		for _, x := range batch {
			b := int(math.Floor(u.CDF(x) * float64(n)))
			if b < 0 || b >= n {
				fs.add(F("stratification", "sample %v outside the support of %+v", x, u))
				return fs.pick(c.S1)
			}
			bins[b]++
		}
		for b, k := range bins {
			if k != 1 {
				fs.add(F("stratification", "%d samples from %+v: bin %d of the CDF holds %d samples, documented exactly one", n, u, b, k))
				break
			}
		}
	case "LatinHypercubeMV", "Halton":
		n, d := c.N, c.K
		if c.Kind == "Halton" {
			// n = b^k rows are stratified exactly in base b = nthPrime(column)
			n = []int{8, 9, 16, 25, 27, 32, 49, 64, 81, 125}[c.N%10]
		}
		batch := mat.NewDense(n, d, nil)
		q := distmv.NewUnitUniform(d, src)
		if c.Kind == "LatinHypercubeMV" {
			samplemv.LatinHypercube{Q: q, Src: src}.Sample(batch)
		} else {
			samplemv.Halton{Kind: samplemv.Owen, Q: q, Src: src}.Sample(batch)
		}
		primes := []int{2, 3, 5, 7, 11, 13}
		for j := 0; j < d; j++ {
			m := n
			if c.Kind == "Halton" {
				// the largest power of the column's prime that divides into a prefix of rows
				b := primes[j]
				m = 1
				for m*b <= n {
					m *= b
				}
			}
			bins := make([]int, m)
			for i := 0; i < m; i++ {
				x := batch.At(i, j)
				if !(x >= 0 && x < 1) {
					fs.add(F("unit-cube", "sample (%d,%d)=%v outside [0,1)", i, j, x))
					return fs.pick(c.S1)
				}
				bins[int(x*float64(m))]++
			}
			for b, k := range bins {
				if k != 1 {
					fs.add(F("stratification", "column %d: among the first %d of %d rows, stratum %d of width 1/%d holds %d samples, want exactly one", j, m, n, b, m, k))
					return fs.pick(c.S1)
				}
			}
		}
	case "IIDer", "RejectionUV", "ImportanceUV", "SampleUniformWeighted":
		target := distuv.Beta{Alpha: 2, Beta: 3}
		n := reps
		batch := make([]float64, n)
		switch c.Kind {
		case "IIDer":
			tg := distuv.Gamma{Alpha: 0.5 + float64(r.Intn(6)), Beta: 2, Src: src}
			sampleuv.IIDer{Dist: tg}.Sample(batch)
			if dist, at := ksContinuous(batch, tg.CDF); !(dist <= dkwBound(n)) {
				fs.add(F("law", "Kolmogorov distance to %+v: %.4f at %v", tg, dist, at))
			}
		case "SampleUniformWeighted":
			tg := distuv.Normal{Mu: 1, Sigma: 2, Src: src}
			wts := make([]float64, n)
			sampleuv.SampleUniformWeighted{Sampler: sampleuv.IIDer{Dist: tg}}.SampleWeighted(batch, wts)
			for _, v := range wts {
				if v != 1 {
					fs.add(F("weights", "weight %v, documented 1", v))
					break
				}
			}
			if dist, at := ksContinuous(batch, tg.CDF); !(dist <= dkwBound(n)) {
				fs.add(F("law", "Kolmogorov distance %.4f at %v", dist, at))
			}
			fs.add(vk.MustPanic("SampleUniformWeighted-length-must-panic", func() {
				sampleuv.SampleUniformWeighted{Sampler: sampleuv.IIDer{Dist: tg}}.SampleWeighted(make([]float64, 3), make([]float64, 2))
			}))
		case "RejectionUV":
			// Beta(2,3) density is at most 16/9 < 2 on [0,1]
			rej := &sampleuv.Rejection{C: 2, Target: target, Proposal: distuv.Uniform{Min: 0, Max: 1, Src: src}, Src: src}
			rej.Sample(batch)
			if rej.Err() != nil || rej.Proposed() < n {
				fs.add(F("bookkeeping", "Err()=%v Proposed()=%d for %d samples", rej.Err(), rej.Proposed(), n))
			}
			if dist, at := ksContinuous(batch, target.CDF); !(dist <= dkwBound(n)) {
				fs.add(F("law", "samples do not follow the target Beta(2,3): Kolmogorov distance %.4f at %v", dist, at))
			}
			// expected number of proposals is n*C: within 10 %
			if p := float64(rej.Proposed()); math.Abs(p/(2*float64(n))-1) > 0.15 {
				fs.add(F("acceptance-rate", "%v proposals for %d samples with C=2 (documented expectation %d)", p, n, 2*n))
			}
			// an insufficient constant is reported
			small := make([]float64, 200)
			rej2 := &sampleuv.Rejection{C: 1.01, Target: target, Proposal: distuv.Uniform{Min: 0, Max: 1, Src: src}, Src: src}
			rej2.Sample(small)
			if rej2.Err() != sampleuv.ErrRejection {
				fs.add(F("insufficient-constant", "C=1.01 < sup target/proposal: Err()=%v", rej2.Err()))
			} else {
				for _, v := range small {
					if !math.IsNaN(v) {
						fs.add(F("insufficient-constant", "after ErrRejection a sample is %v, documented NaN", v))
						break
					}
				}
			}
		case "ImportanceUV":
			prop := distuv.Uniform{Min: 0, Max: 1, Src: src}
			wts := make([]float64, n)
			sampleuv.Importance{Target: target, Proposal: prop}.SampleWeighted(batch, wts)
			for i, x := range batch {
				want := math.Exp(target.LogProb(x) - prop.LogProb(x))
				if !closeRel(wts[i], want, 1e-13) {
					fs.add(F("weights", "weight of %v is %v, documented p(x)/q(x)=%v", x, wts[i], want))
					break
				}
			}
			cp := append([]float64(nil), batch...)
			if dist, at := ksContinuous(cp, prop.CDF); !(dist <= dkwBound(n)) {
				fs.add(F("proposal-law", "samples do not follow the proposal: Kolmogorov distance %.4f at %v", dist, at))
			}
			// self-normalized importance estimate of the target mean (2/5): weights are
			// bounded by 16/9, so Hoeffding gives |sum w (x - 0.4)| / n <= 16/9 * sqrt(ln(2/alpha)/(2n))
			var num, den float64
			for i, x := range batch {
				num += wts[i] * (x - 0.4)
				den += wts[i]
			}
			if b := 16.0 / 9 * dkwBound(n); !(math.Abs(num/float64(n)) <= b) || !(math.Abs(den/float64(n)-1) <= b) {
				fs.add(F("weighted-mean", "importance estimate: mean weight %v (want 1), weighted mean offset %v (bound %.4f)", den/float64(n), num/float64(n), b))
			}
			fs.add(vk.MustPanic("ImportanceUV-length-must-panic", func() {
				sampleuv.Importance{Target: target, Proposal: prop}.SampleWeighted(make([]float64, 3), make([]float64, 2))
			}))
		}
	case "MetropolisHastingsUV":
		// (a) the result is a function of the configuration and the seed only:
		// what the batch held before the call must not matter
		target := distuv.Normal{Mu: 3, Sigma: 1.5}
		run := func(fill float64, n int) []float64 {
			s := rand.NewPCG(c.S1, c.S2)
			mh := sampleuv.MetropolisHastings{Initial: 100, Target: target, Proposal: rwProposal{sd: 3, src: s}, Src: s, BurnIn: c.BurnIn, Rate: c.Rate}
			b := make([]float64, n)
			for i := range b {
				b[i] = fill
			}
			mh.Sample(b)
			return b
		}
		n := 4 + c.N%30
		b0, b1 := run(0, n), run(-1e6, n)
		for i := range b0 {
			if b0[i] != b1[i] {
				fs.add(F("depends-on-batch-content", "BurnIn=%d Rate=%d, %d samples: the result depends on what the batch held before the call: sample %d is %v after a zero batch and %v after a batch filled with -1e6", c.BurnIn, c.Rate, n, i, b0[i], b1[i]))
				break
			}
		}
		// (b) the chain preserves the target
		nk := vk.Pick(4000, 40000)
		s := rand.NewPCG(c.S1, c.S2)
		var prop sampleuv.MHProposal = rwProposal{sd: 3, src: s}
		if c.K%2 == 1 {
			prop = indepProposal{d: distuv.Laplace{Mu: 2, Scale: 3, Src: s}}
		}
		mh := sampleuv.MetropolisHastings{Initial: 3, Target: target, Proposal: prop, Src: s, BurnIn: 200, Rate: 8}
		batch := make([]float64, nk)
		mh.Sample(batch)
		if dist, at := ksContinuous(batch, target.CDF); !(dist <= mhBound(nk)) {
			fs.add(F("preserves-target", "proposal %T: Kolmogorov distance between %d thinned states and the target is %.4f at %v (bound %.4f)", prop, nk, dist, at, mhBound(nk)))
		}
	case "BatchContent":
		// "the samples are stored in-place into the input": the result is a
		// function of the sampler and the seed, not of what the batch held before
		n, d := 4+c.N%20, 1+c.K%3
		target := distuv.Beta{Alpha: 2, Beta: 3}
		uvRun := func(name string, mk func(src rand.Source) interface{ Sample([]float64) }) {
			var out [2][]float64
			for k, fill := range []float64{0, 0.375} {
				b := make([]float64, n)
				for i := range b {
					b[i] = fill
				}
				mk(rand.NewPCG(c.S1, c.S2)).Sample(b)
				out[k] = b
			}
			if i, ok := sameSnap(out[0], out[1]); !ok {
				fs.add(F(name+"-depends-on-batch-content", "%d samples: sample %d is %v after a zero batch and %v after a batch filled with 0.375 (same seed)", n, i, out[0][max(i, 0)], out[1][max(i, 0)]))
			}
		}
		uvRun("LatinHypercubeUV", func(src rand.Source) interface{ Sample([]float64) } {
			return sampleuv.LatinHypercube{Q: distuv.Uniform{Min: 1, Max: 3}, Src: src}
		})
		uvRun("IIDer", func(src rand.Source) interface{ Sample([]float64) } {
			return sampleuv.IIDer{Dist: distuv.Normal{Mu: 1, Sigma: 2, Src: src}}
		})
		uvRun("RejectionUV", func(src rand.Source) interface{ Sample([]float64) } {
			return &sampleuv.Rejection{C: 2, Target: target, Proposal: distuv.Uniform{Min: 0, Max: 1, Src: src}, Src: src}
		})
		mvRun := func(name string, mk func(src rand.Source) interface{ Sample(*mat.Dense) }) {
			var out [2][]float64
			for k, fill := range []float64{0, 0.375} {
				b := mat.NewDense(n, d, nil)
				for i := 0; i < n; i++ {
					for j := 0; j < d; j++ {
						b.Set(i, j, fill)
					}
				}
				var snap []float64
				if r := vk.Call(func() {
					mk(rand.NewPCG(c.S1, c.S2)).Sample(b)
					snap = append(snap, b.RawMatrix().Data...)
				}); r.Outcome != vk.Returned {
					fs.add(F(name+"-depends-on-batch-content", "Sample on a %dx%d batch filled with %v ends in %v: %s", n, d, fill, r.Outcome, r.Text))
					return
				}
				out[k] = snap
			}
			if i, ok := sameSnap(out[0], out[1]); !ok {
				fs.add(F(name+"-depends-on-batch-content", "%dx%d batch: element %d is %v after a zero batch and %v after a batch filled with 0.375 (same seed)", n, d, i, out[0][max(i, 0)], out[1][max(i, 0)]))
			}
		}
		mvRun("LatinHypercubeMV", func(src rand.Source) interface{ Sample(*mat.Dense) } {
			return samplemv.LatinHypercube{Q: distmv.NewUnitUniform(d, src), Src: src}
		})
		mvRun("Halton", func(src rand.Source) interface{ Sample(*mat.Dense) } {
			return samplemv.Halton{Kind: samplemv.Owen, Q: distmv.NewUnitUniform(d, src), Src: src}
		})
		mvRun("IID", func(src rand.Source) interface{ Sample(*mat.Dense) } {
			return samplemv.IID{Dist: distmv.NewUnitUniform(d, src)}
		})
		mvRun("RejectionMV", func(src rand.Source) interface{ Sample(*mat.Dense) } {
			return &samplemv.Rejection{C: 1.5, Target: distmv.NewUnitUniform(d, nil), Proposal: distmv.NewUnitUniform(d, src), Src: src}
		})
		// the documented dimension limit of the Halton sampler (1000) is enforced by a package panic
		if c.N%8 == 0 {
			fs.add(vk.MustReturn("Halton-1000-dimensions", func() {
				samplemv.Halton{Kind: samplemv.Owen, Q: distmv.NewUnitUniform(1000, nil), Src: rand.NewPCG(c.S1, c.S2)}.Sample(mat.NewDense(2, 1000, nil))
			}))
			fs.add(vk.MustPanic("Halton-dimension-limit-must-panic", func() {
				samplemv.Halton{Kind: samplemv.Owen, Q: distmv.NewUnitUniform(1001, nil), Src: rand.NewPCG(c.S1, c.S2)}.Sample(mat.NewDense(2, 1001, nil))
			}))
		}
	case "SamplersMV":
		d := 2
		mu, sg := genSPD(c.Seed, d, 1, 1)
		l, _ := sg.chol()
		tgt, _ := distmv.NewNormal(mu, sg.toMat(), src)
		nk := vk.Pick(2000, 20000)
		whiten := func(batch *mat.Dense, rows int) [][]float64 {
			cols := make([][]float64, d)
			for i := 0; i < rows; i++ {
				diff := make([]float64, d)
				for j := range diff {
					diff[j] = batch.At(i, j) - mu[j]
				}
				for j, v := range lsolve(l, diff) {
					cols[j] = append(cols[j], v)
				}
			}
			return cols
		}
		law := func(name string, batch *mat.Dense, rows int, bound float64) {
			for j, col := range whiten(batch, rows) {
				if dist, at := ksContinuous(col, distuv.UnitNormal.CDF); !(dist <= bound) {
					fs.add(F(name+"-law", "whitened coordinate %d: Kolmogorov distance %.4f at %v (bound %.4f)", j, dist, at, bound))
					return
				}
			}
		}
		switch c.K % 4 {
		case 0: // IID and SampleUniformWeighted
			batch := mat.NewDense(nk, d, nil)
			wts := make([]float64, nk)
			samplemv.SampleUniformWeighted{Sampler: samplemv.IID{Dist: tgt}}.SampleWeighted(batch, wts)
			for _, v := range wts {
				if v != 1 {
					fs.add(F("iid-weights", "weight %v, documented 1", v))
					break
				}
			}
			law("iid", batch, nk, dkwBound(nk))
		case 1: // Metropolis-Hastings with the Gaussian proposal
			ps := mat.NewSymDense(d, []float64{2, 0.3, 0.3, 1.5})
			prop, ok := samplemv.NewProposalNormal(ps, src)
			if !ok {
				return nil
			}
			mh := samplemv.MetropolisHastingser{Initial: append([]float64(nil), mu...), Target: tgt, Proposal: prop, Src: src, BurnIn: 100, Rate: 8}
			batch := mat.NewDense(nk, d, nil)
			mh.Sample(batch)
			law("metropolishastings", batch, nk, mhBound(nk))
			// does not depend on the previous content of the batch
			run := func(fill float64) *mat.Dense {
				s := rand.NewPCG(c.S1, c.S2)
				p, _ := samplemv.NewProposalNormal(ps, s)
				m := samplemv.MetropolisHastingser{Initial: []float64{50, 50}, Target: tgt, Proposal: p, Src: s, BurnIn: c.BurnIn, Rate: c.Rate}
				b := mat.NewDense(6, d, nil)
				for i := 0; i < 6; i++ {
					b.SetRow(i, []float64{fill, fill})
				}
				m.Sample(b)
				return b
			}
			if b0, b1 := run(0), run(-1e6); !mat.Equal(b0, b1) {
				fs.add(F("metropolishastings-depends-on-batch-content", "BurnIn=%d Rate=%d: the result depends on what the batch held before the call", c.BurnIn, c.Rate))
			}
		case 2: // rejection from a wider normal: sup p/q = det(S_q)^(1/2)/det(S_p)^(1/2) for S_q = 4 S_p
			wide := make(sym, d)
			for i := range wide {
				wide[i] = make([]float64, d)
				for j := range wide[i] {
					wide[i][j] = 4 * sg[i][j]
				}
			}
			prop, _ := distmv.NewNormal(mu, wide.toMat(), src)
			rej := &samplemv.Rejection{C: 4.001, Target: tgt, Proposal: prop, Src: src}
			batch := mat.NewDense(nk, d, nil)
			rej.Sample(batch)
			if rej.Err() != nil || rej.Proposed() < nk {
				fs.add(F("rejection-bookkeeping", "Err()=%v Proposed()=%d", rej.Err(), rej.Proposed()))
			} else {
				law("rejection", batch, nk, dkwBound(nk))
			}
			rej2 := &samplemv.Rejection{C: 1.5, Target: tgt, Proposal: prop, Src: src}
			small := mat.NewDense(400, d, nil)
			rej2.Sample(small)
			if rej2.Err() != samplemv.ErrRejection || !math.IsNaN(small.At(0, 0)) {
				fs.add(F("rejection-insufficient-constant", "C=1.5 < sup p/q = 4: Err()=%v, first sample %v", rej2.Err(), small.At(0, 0)))
			}
		case 3: // importance weights
			wide := make(sym, d)
			for i := range wide {
				wide[i] = make([]float64, d)
				for j := range wide[i] {
					wide[i][j] = 4 * sg[i][j]
				}
			}
			prop, _ := distmv.NewNormal(mu, wide.toMat(), src)
			batch := mat.NewDense(nk, d, nil)
			wts := make([]float64, nk)
			samplemv.Importance{Target: tgt, Proposal: prop}.SampleWeighted(batch, wts)
			for i := 0; i < nk; i++ {
				x := batch.RawRowView(i)
				want := math.Exp(tgt.LogProb(x) - prop.LogProb(x))
				if !closeRel(wts[i], want, 1e-13) {
					fs.add(F("importance-weights", "weight %v want p(x)/q(x)=%v", wts[i], want))
					break
				}
			}
			// samples follow the proposal: whitened by 2L
			for j, col := range whiten(batch, nk) {
				for i := range col {
					col[i] /= 2
				}
				if dist, at := ksContinuous(col, distuv.UnitNormal.CDF); !(dist <= dkwBound(nk)) {
					fs.add(F("importance-proposal-law", "coordinate %d: Kolmogorov distance %.4f at %v", j, dist, at))
					break
				}
			}
		}
	}
	return fs.pick(c.S1)
}

func TestSamplers(t *testing.T) {
	kinds := []string{"Weighted", "WithoutReplacement", "LatinHypercubeUV", "LatinHypercubeMV", "Halton", "IIDer", "RejectionUV", "ImportanceUV", "SampleUniformWeighted", "MetropolisHastingsUV", "SamplersMV", "BatchContent"}
	vk.Run(t, "samplers", vk.Opts{Quick: 1500, Thorough: 8000}, func(t *rapid.T) samplerCase {
		c := samplerCase{Kind: rapid.SampledFrom(kinds).Draw(t, "kind")}
		c.N = vk.Dim(t, "n", 1, 40, 2, 16)
		c.K = rapid.IntRange(1, 6).Draw(t, "k")
		c.Seed = uint64(rapid.IntRange(0, 1<<30).Draw(t, "seed"))
		c.BurnIn = rapid.SampledFrom([]int{0, 0, 1, 3, 7, 50}).Draw(t, "burnin")
		c.Rate = rapid.SampledFrom([]int{0, 1, 1, 2, 5, 40}).Draw(t, "rate")
		c.S1 = rapid.Uint64().Draw(t, "s1")
		c.S2 = rapid.Uint64().Draw(t, "s2")
		return c
	}, checkSampler)
}
