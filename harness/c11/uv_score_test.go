package c11

import (
	"math"
	"math/rand/v2"
	"testing"

	"gonum.org/v1/gonum/stat/distuv"
	"pgregory.net/rapid"
	"verifharness/vk"
)

// kinks returns the points where LogProb is not differentiable in x or in a
// parameter (for the score checks, x is kept away from them).
func kinks(s *uvSpec, p []float64) []float64 {
	switch s.name {
	case "Laplace":
		return []float64{p[0]}
	case "Triangle":
		return []float64{p[0], p[1], p[2]}
	case "Uniform", "UnitUniform":
		lo, hi := s.support(p)
		return []float64{lo, hi}
	case "Exponential", "Weibull":
		return []float64{0}
	}
	return nil
}

const tolScoreRel = 1e-5

// checkUVScore compares Score and ScoreInput with Richardson-extrapolated
// central differences of LogProb, and asserts the documented special values.
func checkUVScore(c uvCase) *vk.Failure {
	s := uvByName[c.T]
	p := c.params()
	src := rand.NewPCG(c.S1, c.S2)
	d := s.mk(p, src)
	sc, hasScore := d.(scorer)
	si, hasSI := d.(scoreInputer)
	if !hasScore && !hasSI {
		return nil
	}
	record("uv-score", s, c, "score", true)
	// the unit variables are Normal{0,1} and Uniform{0,1}
	switch s.name {
	case "UnitNormal":
		s, p = uvByName["Normal"], []float64{0, 1}
	case "UnitUniform":
		s, p = uvByName["Uniform"], []float64{0, 1}
	}
	q := d.(quantiler)
	lp := d.(logprober)
	var fs fails
	kk := kinks(s, p)
	scale := s.scale(p)
	for _, u := range c.U {
		x := q.Quantile(float64(u))
		// distance to the nearest kink
		dist := math.Inf(1)
		for _, k := range kk {
			dist = math.Min(dist, math.Abs(x-k))
		}
		if dist < 1e-3*scale {
			continue
		}
		h := math.Min(1e-3*scale, dist/8)
		if hasSI {
			got := si.ScoreInput(x)
			num, spread := richardson(lp.LogProb, x, h)
			tol := tolScoreRel*math.Max(math.Abs(got), math.Abs(num)) + 1e-7/scale + 10*spread*1e-3
			if math.IsNaN(got) || !(math.Abs(got-num) <= tol) {
				fs.add(fail(s, "scoreinput-vs-difference", c, "ScoreInput(%v)=%v but d LogProb/dx = %v (tolerance %.1e)", x, got, num, tol))
			}
		}
		if hasScore {
			var got []float64
			if fs.add(mustReturn(s, c, "score-panics", "Score(nil,x)", func() { got = sc.Score(nil, x) })) {
				continue
			}
			if len(got) != len(p) {
				fs.add(fail(s, "score-length", c, "Score(nil,%v) has length %d, want %d parameters", x, len(got), len(p)))
				continue
			}
			dst := make([]float64, len(p))
			if r := sc.Score(dst, x); &r[0] != &dst[0] {
				fs.add(fail(s, "score-in-place", c, "Score(dst,x) did not store into dst"))
			}
			for i := range p {
				if dst[i] != got[i] && !(math.IsNaN(dst[i]) && math.IsNaN(got[i])) {
					fs.add(fail(s, "score-in-place", c, "Score(dst,x)=%v differs from Score(nil,x)=%v", dst, got))
				}
			}
			for i := range p {
				// documented NaN components for degenerate Triangle shapes
				if s.name == "Triangle" && (p[2] == p[0] && (i == 0 || i == 2) || p[2] == p[1] && (i == 1 || i == 2)) {
					if !math.IsNaN(got[i]) {
						fs.add(fail(s, "score-degenerate-triangle", c, "Score component %d = %v, the implementation's rule gives NaN when c is at an end", i, got[i]))
					}
					continue
				}
				ps := math.Abs(p[i])
				if s.name == "Triangle" || s.name == "Uniform" || s.name == "Laplace" && i == 0 || s.name == "Normal" && i == 0 {
					ps = scale // location-like parameters
				}
				hp := math.Min(1e-3*ps, dist/8)
				if s.name == "Triangle" {
					// keep a <= c <= b under the perturbation
					for _, gap := range []float64{p[2] - p[0], p[1] - p[2]} {
						if gap > 0 {
							hp = math.Min(hp, gap/4)
						}
					}
				}
				f := func(v float64) float64 {
					pp := append([]float64(nil), p...)
					pp[i] = v
					return s.mk(pp, src).(logprober).LogProb(x)
				}
				num, spread := richardson(f, p[i], hp)
				tol := tolScoreRel*math.Max(math.Abs(got[i]), math.Abs(num)) + 1e-7/ps + 10*spread*1e-3
				if math.IsNaN(got[i]) || !(math.Abs(got[i]-num) <= tol) {
					fs.add(fail(s, "score-vs-difference", c, "Score(%v)[%d]=%v but d LogProb/d theta_%d = %v (tolerance %.1e)", x, i, got[i], i, num, tol))
				}
			}
		}
	}
	if hasScore {
		fs.add(vk.MustPanic(s.name+"-score-length-must-panic", func() { sc.Score(make([]float64, len(p)+1), 0.5) }))
	}
	// documented special values
	nan := math.NaN()
	wantVec := func(x float64, want ...float64) {
		got := sc.Score(nil, x)
		for i := range want {
			if !vk.SameBits(got[i], want[i]) && !(got[i] == want[i]) && !closeRel(got[i], want[i], 1e-14) {
				fs.add(fail(s, "score-documented-special-case", c, "Score(%v)=%v, documented %v", x, got, want))
				return
			}
		}
	}
	wantSI := func(x, want float64) {
		if got := si.ScoreInput(x); !vk.SameBits(got, want) && got != want {
			fs.add(fail(s, "scoreinput-documented-special-case", c, "ScoreInput(%v)=%v, documented %v", x, got, want))
		}
	}
	switch dd := d.(type) {
	case distuv.Exponential:
		wantVec(0, nan)
		wantSI(0, nan)
	case distuv.Laplace:
		wantVec(dd.Mu, nan, -1/dd.Scale)
		wantSI(dd.Mu, nan)
	case distuv.Triangle:
		wantSI(p[2], nan)
		wantSI(p[0], nan)
		wantSI(p[1], nan)
		wantSI(p[0]-1, nan)
		wantSI(p[1]+1, nan)
	case distuv.Weibull:
		wantVec(0, nan, nan)
		wantVec(-1, nan, nan)
		wantSI(0, nan)
		wantSI(-1, nan)
	}
	return fs.pick(c.S1)
}

func TestUVScore(t *testing.T) {
	vk.Run(t, "uv-score", vk.Opts{Quick: 6000, Thorough: 100000, NoCrumb: true}, func(t *rapid.T) uvCase {
		return drawUV(t, func(s *uvSpec) bool {
			d := s.mk(probeParams(s), nil)
			_, a := d.(scorer)
			_, b := d.(scoreInputer)
			return a || b
		})
	}, checkUVScore)
}

// probeParams returns some valid parameters of s (to discover its method set).
func probeParams(s *uvSpec) []float64 {
	switch s.name {
	case "Triangle":
		return []float64{0, 1, 0.5}
	case "Categorical":
		return []float64{1, 1}
	case "UnitNormal", "UnitUniform":
		return nil
	case "StudentsT":
		return []float64{0, 1, 3}
	case "Binomial":
		return []float64{5, 0.5}
	case "Bernoulli", "Chi", "ChiSquared", "Exponential", "Poisson":
		return []float64{1}
	}
	return []float64{1, 2}
}
