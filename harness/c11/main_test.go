// Package c11 checks property C11: each probability distribution's methods
// describe one and the same law (stat/distuv, stat/distmv, stat/distmat, the
// samplers of stat/sampleuv and stat/samplemv, and the special functions of
// mathext underneath).
package c11

import (
	"testing"

	"verifharness/vk"
)

func TestMain(m *testing.M) { vk.Main(m, "C11") }
