package c11

import (
	"math"
	"sort"
)

// ---- vector-valued adaptive Gauss-Kronrod (G7,K15) --------------------------

const nq = 6 // number of simultaneously integrated components

type vec [nq]float64

var gkX = [8]float64{
	0.991455371120812639206854697526329,
	0.949107912342758524526189684047851,
	0.864864423359769072789712788640926,
	0.741531185599394439863864773280788,
	0.586087235467691130294144838258730,
	0.405845151377397166906606412076961,
	0.207784955007898467600689403773245,
	0.000000000000000000000000000000000,
}
var gkWK = [8]float64{
	0.022935322010529224963732008058970,
	0.063092092629978553290700663189204,
	0.104790010322250183839876322541518,
	0.140653259715525918745189590510238,
	0.169004726639267902826583426598550,
	0.190350578064785409913256402421014,
	0.204432940075298892414161999234649,
	0.209482141084727828012999174891714,
}
var gkWG = [4]float64{
	0.129484966168869693270611432679082,
	0.279705391489276667901467771423780,
	0.381830050505118944950369775488975,
	0.417959183673469387755102040816327,
}

type gkPanel struct {
	a, b     float64
	val, err vec
}

func gk15(f func(float64) vec, a, b float64) gkPanel {
	c, h := 0.5*(a+b), 0.5*(b-a)
	var k, g vec
	fc := f(c)
	for i := 0; i < nq; i++ {
		k[i] = gkWK[7] * fc[i]
		g[i] = gkWG[3] * fc[i]
	}
	for j := 0; j < 7; j++ {
		d := h * gkX[j]
		f1, f2 := f(c-d), f(c+d)
		for i := 0; i < nq; i++ {
			s := f1[i] + f2[i]
			k[i] += gkWK[j] * s
			if j%2 == 1 {
				g[i] += gkWG[j/2] * s
			}
		}
	}
	p := gkPanel{a: a, b: b}
	for i := 0; i < nq; i++ {
		p.val[i] = k[i] * h
		p.err[i] = math.Abs((k[i] - g[i]) * h)
		if math.IsNaN(p.val[i]) {
			p.err[i] = math.Inf(1)
		}
	}
	return p
}

// integrate returns the integral of f over [a,b] with componentwise error
// estimates. Panels are bisected (worst first) until every component i has
// estimated error <= abs[i] + rel*|value_i| or maxPanels is reached.
func integrate(f func(float64) vec, a, b float64, abs vec, rel float64, maxPanels int) (val, err vec) {
	if !(b > a) {
		return
	}
	ps := []gkPanel{gk15(f, a, b)}
	for {
		val, err = vec{}, vec{}
		for _, p := range ps {
			for i := 0; i < nq; i++ {
				val[i] += p.val[i]
				err[i] += p.err[i]
			}
		}
		// worst component relative to its tolerance
		worstC, worstR := -1, 1.0
		for i := 0; i < nq; i++ {
			tol := abs[i] + rel*math.Abs(val[i])
			r := err[i] / tol
			if tol == 0 {
				if err[i] == 0 {
					continue
				}
				r = math.Inf(1)
			}
			if r > worstR || math.IsNaN(r) {
				worstC, worstR = i, r
			}
		}
		if worstC < 0 || len(ps) >= maxPanels {
			return
		}
		wi, we := 0, -1.0
		for j, p := range ps {
			if p.err[worstC] > we || math.IsNaN(p.err[worstC]) {
				wi, we = j, p.err[worstC]
			}
		}
		p := ps[wi]
		m := 0.5 * (p.a + p.b)
		if !(m > p.a && m < p.b) {
			// cannot bisect any further
			return
		}
		ps[wi] = gk15(f, p.a, m)
		ps = append(ps, gk15(f, m, p.b))
	}
}

// integrateLog integrates f over [a,b] (a<b on the same side of c) after the
// substitution x = c + s*exp(u), which turns algebraic endpoint behaviour
// (x-c)^alpha and heavy algebraic tails into smooth exponentials.
func integrateLog(f func(float64) vec, c, a, b float64, abs vec, rel float64, maxPanels int) (val, err vec) {
	s := 1.0
	lo, hi := a-c, b-c
	if b <= c {
		s = -1
		lo, hi = c-b, c-a
	}
	if !(lo > 0) || !(hi > lo) || math.IsInf(hi, 0) {
		return integrate(f, a, b, abs, rel, maxPanels)
	}
	g := func(u float64) vec {
		e := math.Exp(u)
		v := f(c + s*e)
		for i := range v {
			v[i] *= e
		}
		return v
	}
	return integrate(g, math.Log(lo), math.Log(hi), abs, rel, maxPanels)
}

// integrateCell chooses the substitution for a cell [a,b] inside the support
// (lo,hi) with centre ctr (a finite interior point, e.g. the median).
func integrateCell(f func(float64) vec, a, b, lo, hi, ctr float64, abs vec, rel float64, maxPanels int) (val, err vec) {
	const ratio = 4
	switch {
	case !math.IsInf(lo, 0) && a > lo && (b-lo) > ratio*(a-lo):
		return integrateLog(f, lo, a, b, abs, rel, maxPanels)
	case !math.IsInf(hi, 0) && b < hi && (hi-a) > ratio*(hi-b):
		return integrateLog(f, hi, a, b, abs, rel, maxPanels)
	case a > ctr && (b-ctr) > ratio*(a-ctr):
		return integrateLog(f, ctr, a, b, abs, rel, maxPanels)
	case b < ctr && (ctr-a) > ratio*(ctr-b):
		return integrateLog(f, ctr, a, b, abs, rel, maxPanels)
	}
	return integrate(f, a, b, abs, rel, maxPanels)
}

// integrateTail integrates f from x0 towards the end e of the support on the
// side dir (+1: x0..e with e>x0, possibly +Inf; -1: e..x0) with the
// substitution x = c + dir'*exp(u) and panels of doubling width in u, stopping
// when two consecutive panels contribute less than 1e-15 of every component
// (the integrands are eventually monotone in the tails) or the floating-point
// range is exhausted. c is the finite end of the support when there is one
// (integrable endpoint singularity), else the centre.
func integrateTail(f func(float64) vec, x0, e, ctr float64, dir int, rel float64) (val, err vec) {
	var g func(u float64) vec
	var u0 float64
	var step float64 // direction of u
	if math.IsInf(e, 0) {
		// x = ctr + dir*exp(u), u from log|x0-ctr| upwards
		d := math.Abs(x0 - ctr)
		if !(d > 0) {
			d = math.SmallestNonzeroFloat64
		}
		u0, step = math.Log(d), 1
		sg := float64(dir)
		g = func(u float64) vec {
			ex := math.Exp(u)
			v := f(ctr + sg*ex)
			for i := range v {
				v[i] *= ex
				if math.IsNaN(v[i]) && math.IsInf(ex, 0) {
					v[i] = 0
				}
			}
			return v
		}
	} else {
		// x = e - dir*exp(u), u from log|e-x0| downwards
		d := math.Abs(e - x0)
		if !(d > 0) {
			return
		}
		u0, step = math.Log(d), -1
		sg := float64(dir)
		g = func(u float64) vec {
			ex := math.Exp(u)
			x := e - sg*ex
			if x == e {
				return vec{}
			}
			v := f(x)
			for i := range v {
				v[i] *= ex
			}
			return v
		}
	}
	w := 0.5
	small := 0
	u := u0
	for iter := 0; iter < 40; iter++ {
		a, b := u, u+step*w
		if step < 0 {
			a, b = b, a
		}
		if a < -745 {
			a = -745
		}
		if b > 709 {
			b = 709
		}
		if !(b > a) {
			break
		}
		var abs vec
		for i := range abs {
			abs[i] = 1e-12 + 1e-12*math.Abs(val[i])
		}
		pv, pe := integrate(g, a, b, abs, rel, 60)
		nan := false
		for i := 0; i < nq; i++ {
			nan = nan || math.IsNaN(pv[i])
		}
		if nan {
			// The density is not a number this far out (overflow inside the
			// library). Far tails are not asserted: stop if the previous panel
			// was already negligible, otherwise the integral is inconclusive.
			if small == 0 {
				for i := range err {
					err[i] = math.Inf(1)
				}
			}
			break
		}
		neg := true
		for i := 0; i < nq; i++ {
			val[i] += pv[i]
			err[i] += pe[i]
			if math.Abs(pv[i]) > 1e-15*math.Abs(val[i]) {
				neg = false
			}
		}
		if neg {
			small++
			if small >= 2 {
				break
			}
		} else {
			small = 0
		}
		u += step * w
		w *= 2
	}
	return
}

// ---- tanh-sinh on (0,1) for p-space integrals --------------------------------

// tanhSinh01 integrates g over (0,1) with possible endpoint singularities by
// the double-exponential rule, doubling the number of nodes until two
// successive levels agree to rel (returns the last estimate and the last
// difference).
func tanhSinh01(g func(p float64) float64, rel float64) (val, diff float64) {
	// x = 1/2 (1 + tanh(pi/2 sinh t)), dx = pi/4 cosh t / cosh^2(pi/2 sinh t) dt
	node := func(t float64) float64 {
		s := math.Pi / 2 * math.Sinh(t)
		// distance to the nearer endpoint: 1/(1+exp(2|s|))
		q := 1 / (1 + math.Exp(2*math.Abs(s)))
		w := math.Pi / 2 * math.Cosh(t) / (2 * math.Cosh(s) * math.Cosh(s))
		if q == 0 || w == 0 || math.IsNaN(w) {
			return 0
		}
		var x float64
		if s < 0 {
			x = q
		} else {
			x = 1 - q
		}
		if x <= 0 || x >= 1 {
			return 0
		}
		v := g(x)
		if math.IsNaN(v) || math.IsInf(v, 0) {
			return 0
		}
		return v * w
	}
	h := 0.5
	const tmax = 3.4 // q ~ 1e-20 beyond: below the resolution of p near 1 anyway
	sum := node(0)
	for k := 1; float64(k)*h <= tmax; k++ {
		sum += node(float64(k)*h) + node(-float64(k)*h)
	}
	val = sum * h
	for lev := 0; lev < 7; lev++ {
		h /= 2
		add := 0.0
		for k := 1; float64(k)*h <= tmax; k += 2 {
			add += node(float64(k)*h) + node(-float64(k)*h)
		}
		sum += add
		nv := sum * h
		diff = math.Abs(nv - val)
		val = nv
		if lev >= 2 && diff <= rel*math.Abs(val) {
			return
		}
	}
	return
}

// ---- differentiation -----------------------------------------------------------

// richardson returns the Richardson-extrapolated central difference of f at x
// with steps h and h/2, together with the difference between the two levels
// (an indication of the truncation error).
func richardson(f func(float64) float64, x, h float64) (d, spread float64) {
	d1 := (f(x+h) - f(x-h)) / (2 * h)
	d2 := (f(x+h/2) - f(x-h/2)) / h
	return (4*d2 - d1) / 3, math.Abs(d2 - d1)
}

// ---- Kolmogorov distance / DKW -------------------------------------------------

// dkwBound is the Dvoretzky-Kiefer-Wolfowitz (Massart) bound: for n i.i.d.
// draws P(sup|F_n - F| > eps) <= 2 exp(-2 n eps^2); eps for alpha = 1e-12.
func dkwBound(n int) float64 {
	return math.Sqrt(math.Log(2/1e-12) / (2 * float64(n)))
}

// ksContinuous returns sup_x |F_n(x) - F(x)| for a continuous F; xs is sorted
// in place.
func ksContinuous(xs []float64, cdf func(float64) float64) (d float64, at float64) {
	sort.Float64s(xs)
	n := float64(len(xs))
	for i, x := range xs {
		f := cdf(x)
		if v := float64(i+1)/n - f; v > d {
			d, at = v, x
		}
		if v := f - float64(i)/n; v > d {
			d, at = v, x
		}
		if math.IsNaN(f) {
			return math.Inf(1), x
		}
	}
	return
}

// ksLattice returns sup_x |F_n(x) - F(x)| for a law on the integers (both
// functions are right-continuous steps; left limits at k are the values at k-1).
func ksLattice(xs []float64, cdf func(float64) float64) (d float64, at float64) {
	sort.Float64s(xs)
	n := float64(len(xs))
	lo, hi := xs[0]-1, xs[len(xs)-1]
	j := 0
	for k := lo; k <= hi; k++ {
		for j < len(xs) && xs[j] <= k {
			j++
		}
		f := cdf(k)
		if v := math.Abs(float64(j)/n - f); v > d || math.IsNaN(v) {
			d, at = v, k
			if math.IsNaN(v) {
				return math.Inf(1), k
			}
		}
	}
	return
}

// bisect finds x in [a,b] with g(x)=0 for non-decreasing g (g(a)<=0<=g(b)).
func bisect(g func(float64) float64, a, b float64) float64 {
	for i := 0; i < 200; i++ {
		m := 0.5 * (a + b)
		if !(m > a && m < b) {
			break
		}
		if g(m) < 0 {
			a = m
		} else {
			b = m
		}
	}
	return 0.5 * (a + b)
}
