package c11

import (
	"fmt"
	"math"
	"math/cmplx"
	"os"
	"sort"
	"sync"
	"testing"

	"gonum.org/v1/gonum/mathext"
	"pgregory.net/rapid"
	"verifharness/vk"
)

type mxCase struct {
	Kind       string
	A, B, X, Y vk.F
}

// observed maxima of (error / tolerance) per oracle: development aid
// (C11_DBG_MAX=1 prints them), not part of any verdict.
var (
	mxMu  sync.Mutex
	mxMax = map[string]float64{}
)

// within reports |got-want| <= tol and tracks the observed ratio.
func within(name string, got, want, tol float64) bool {
	e := math.Abs(got - want)
	if math.IsNaN(e) {
		e = math.Inf(1)
	}
	mxMu.Lock()
	if r := e / tol; r > mxMax[name] {
		mxMax[name] = r
	}
	mxMu.Unlock()
	return e <= tol
}

func airySeries(z complex128) (ai, aip complex128) {
	const c1 = 0.355028053887817239260063186004183176397979174199
	const c2 = 0.258819403792806798405183560189203963479091138354
	// f = sum 3^k (1/3)_k z^3k/(3k)!, g = sum 3^k (2/3)_k z^(3k+1)/(3k+1)!
	z3 := z * z * z
	tf, tg := complex(1, 0), z
	tfp, tgp := complex(0, 0), complex(1, 0) // derivatives term by term
	f, g := tf, tg
	fp, gp := tfp, tgp
	for k := 1; k < 80; k++ {
		kk := float64(k)
		// ratio of consecutive terms: f: z^3/((3k-1)(3k)), g: z^3/((3k)(3k+1))
		tf = tf * z3 / complex((3*kk-1)*(3*kk), 0)
		tg = tg * z3 / complex((3*kk)*(3*kk+1), 0)
		f += tf
		g += tg
		if z != 0 {
			fp += tf * complex(3*kk, 0) / z
			gp += tg * complex(3*kk+1, 0) / z
		}
	}
	return complex(c1, 0)*f - complex(c2, 0)*g, complex(c1, 0)*fp - complex(c2, 0)*gp
}

func checkMathext(c mxCase) *vk.Failure {
	a, b, x, y := float64(c.A), float64(c.B), float64(c.X), float64(c.Y)
	vk.Class("mathext/" + c.Kind)
	vk.NonTrivial("mathext", c.Kind, a, b, x, y)
	vk.Sample("mathext", c)
	var fs fails
	F := func(oracle, format string, args ...any) {
		f := vk.Failf(c.Kind+"-"+oracle, format, args...)
		f.Msg = fmt.Sprintf("a=%v b=%v x=%v y=%v: ", a, b, x, y) + f.Msg
		fs.add(f)
	}
	switch c.Kind {
	case "GammaInc":
		// complement; x = a * factor
		xx := a * x
		p, q := mathext.GammaIncReg(a, xx), mathext.GammaIncRegComp(a, xx)
		if !(p >= 0 && p <= 1 && q >= 0 && q <= 1) {
			F("range", "GammaIncReg(%v,%v)=%v GammaIncRegComp=%v", a, xx, p, q)
		} else if !within("gammainc-complement", p+q, 1, 1e-13) {
			F("complement", "GammaIncReg(%v,%v)+GammaIncRegComp = %v + %v = 1%+.2e", a, xx, p, q, p+q-1)
		}
		// recurrence in a: P(a+1,x) = P(a,x) - x^a e^-x / Gamma(a+1)
		lg, _ := math.Lgamma(a + 1)
		term := math.Exp(a*math.Log(xx) - xx - lg)
		p1 := mathext.GammaIncReg(a+1, xx)
		if !within("gammainc-recurrence", p1, p-term, 1e-12) {
			F("recurrence", "GammaIncReg(%v,%v)=%v but GammaIncReg(%v,%v) - x^a e^-x/Gamma(a+1) = %v", a+1, xx, p1, a, xx, p-term)
		}
		// monotone in x
		if p2 := mathext.GammaIncReg(a, xx*1.01); p2 < p-1e-13 {
			F("monotone", "GammaIncReg(%v,%v)=%v > GammaIncReg(%v,%v)=%v", a, xx, p, a, xx*1.01, p2)
		}
		// limits
		if v := mathext.GammaIncReg(a, 0); v != 0 {
			F("at-zero", "GammaIncReg(%v,0)=%v", a, v)
		}
		if v := mathext.GammaIncRegComp(a, 0); v != 1 {
			F("at-zero", "GammaIncRegComp(%v,0)=%v", a, v)
		}
		fs.add(vk.MustPanic("GammaInc-negative-x-must-panic", func() { mathext.GammaIncReg(a, -1) }))
		fs.add(vk.MustPanic("GammaInc-nonpositive-a-must-panic", func() { mathext.GammaIncRegComp(0, 1) }))
	case "GammaIncInv":
		// y in (0,1): interior
		var xi float64
		if fs.add(vk.MustReturn("GammaIncInv-regular-inverse-panics", func() { xi = mathext.GammaIncRegInv(a, y) })) {
			break
		}
		if math.IsNaN(xi) {
			vk.Inconclusive("GammaIncRegInv-nan-documented-give-up")
		} else {
			p := mathext.GammaIncReg(a, xi)
			tol := 1e-12 + 1e-8*math.Min(y, 1-y)
			if !within("gammaincinv", p, y, tol) {
				lo, hi := mathext.GammaIncReg(a, math.Nextafter(xi, 0)), mathext.GammaIncReg(a, math.Nextafter(xi, math.Inf(1)))
				if !(y >= lo-tol && y <= hi+tol) {
					F("regular-inverse", "GammaIncRegInv(%v,%v)=%v but GammaIncReg there is %v", a, y, xi, p)
				}
			}
		}
		var xc float64
		if fs.add(vk.MustReturn("GammaIncInv-complement-inverse-panics", func() { xc = mathext.GammaIncRegCompInv(a, y) })) {
			break
		}
		q := mathext.GammaIncRegComp(a, xc)
		tol := 1e-12 + 1e-8*math.Min(y, 1-y)
		if !within("gammainccompinv", q, y, tol) {
			lo, hi := mathext.GammaIncRegComp(a, math.Nextafter(xc, math.Inf(1))), mathext.GammaIncRegComp(a, math.Nextafter(xc, 0))
			if !(y >= lo-tol && y <= hi+tol) {
				F("complement-inverse", "GammaIncRegCompInv(%v,%v)=%v but GammaIncRegComp there is %v", a, y, xc, q)
			}
		}
		fs.add(vk.MustPanic("GammaIncInv-y-out-of-range-must-panic", func() { mathext.GammaIncRegInv(a, 1.5) }))
		fs.add(vk.MustPanic("GammaIncInv-comp-y-out-of-range-must-panic", func() { mathext.GammaIncRegCompInv(a, -0.5) }))
	case "IncBeta":
		i1 := mathext.RegIncBeta(a, b, y)
		i2 := mathext.RegIncBeta(b, a, 1-y)
		if !(i1 >= 0 && i1 <= 1) {
			F("range", "RegIncBeta(%v,%v,%v)=%v", a, b, y, i1)
		} else if !within("incbeta-symmetry", i1+i2, 1, 1e-12) {
			F("symmetry", "RegIncBeta(%v,%v,%v)=%v but 1-RegIncBeta(%v,%v,%v)=%v", a, b, y, i1, b, a, 1-y, 1-i2)
		}
		// recurrence I_x(a+1,b) = I_x(a,b) - x^a (1-x)^b / (a B(a,b))
		term := math.Exp(a*math.Log(y) + b*math.Log1p(-y) - math.Log(a) - mathext.Lbeta(a, b))
		if i3 := mathext.RegIncBeta(a+1, b, y); !within("incbeta-recurrence", i3, i1-term, 1e-11) {
			F("recurrence", "RegIncBeta(%v,%v,%v)=%v but the recurrence in a gives %v", a+1, b, y, i3, i1-term)
		}
		if v0, v1 := mathext.RegIncBeta(a, b, 0), mathext.RegIncBeta(a, b, 1); v0 != 0 || v1 != 1 {
			F("ends", "RegIncBeta(a,b,0)=%v RegIncBeta(a,b,1)=%v", v0, v1)
		}
		fs.add(vk.MustPanic("IncBeta-x-out-of-range-must-panic", func() { mathext.RegIncBeta(a, b, 1.5) }))
		fs.add(vk.MustPanic("IncBeta-nonpositive-a-must-panic", func() { mathext.RegIncBeta(0, b, 0.5) }))
	case "IncBetaInv":
		var xi float64
		if fs.add(vk.MustReturn("IncBetaInv-panics", func() { xi = mathext.InvRegIncBeta(a, b, y) })) {
			break
		}
		if !(xi >= 0 && xi <= 1) {
			F("range", "InvRegIncBeta(%v,%v,%v)=%v", a, b, y, xi)
			break
		}
		p := mathext.RegIncBeta(a, b, xi)
		tol := 1e-12 + 1e-8*math.Min(y, 1-y)
		if !within("incbetainv", p, y, tol) {
			lo, hi := 0.0, 1.0
			if xi > 0 {
				lo = mathext.RegIncBeta(a, b, math.Nextafter(xi, 0))
			}
			if xi < 1 {
				hi = mathext.RegIncBeta(a, b, math.Nextafter(xi, 1))
			}
			if !(y >= lo-tol && y <= hi+tol) {
				F("inverse", "InvRegIncBeta(%v,%v,%v)=%v but RegIncBeta there is %v", a, b, y, xi, p)
			}
		}
		fs.add(vk.MustPanic("IncBetaInv-y-out-of-range-must-panic", func() { mathext.InvRegIncBeta(a, b, -0.5) }))
	case "Digamma":
		d0, d1 := mathext.Digamma(x), mathext.Digamma(x+1)
		if !within("digamma-recurrence", d1, d0+1/x, 1e-9*(1+math.Abs(d0)+1/math.Abs(x))) {
			F("recurrence", "Digamma(%v)=%v but Digamma(%v)+1/x=%v", x+1, d1, x, d0+1/x)
		}
		// reflection psi(1-x) - psi(x) = pi cot(pi x)
		if x != math.Floor(x) && math.Abs(x) < 30 {
			want := math.Pi / math.Tan(math.Pi*x)
			if !within("digamma-reflection", mathext.Digamma(1-x)-d0, want, 1e-9*(1+math.Abs(want)+math.Abs(d0))) {
				F("reflection", "Digamma(1-x)-Digamma(x)=%v but pi cot(pi x)=%v", mathext.Digamma(1-x)-d0, want)
			}
		}
		// derivative of lgamma
		if x > 0.1 {
			h := 1e-3 * math.Max(1, x) * 0.1
			num, _ := richardson(func(t float64) float64 { l, _ := math.Lgamma(t); return l }, x, math.Min(h, x/4))
			if !within("digamma-derivative", d0, num, 1e-7*(1+math.Abs(d0))) {
				F("derivative", "Digamma(%v)=%v but d/dx lgamma = %v", x, d0, num)
			}
		}
		if v := mathext.Digamma(1); !within("digamma-one", v, -0.5772156649015329, 1e-10) {
			F("value", "Digamma(1)=%v", v)
		}
	case "Zeta":
		// a = s > 1, b = q > 0
		z0, z1 := mathext.Zeta(a, b), mathext.Zeta(a, b+1)
		term := math.Pow(b, -a)
		if !within("zeta-recurrence", z0, z1+term, 1e-12*math.Abs(z0)) {
			F("recurrence", "Zeta(%v,%v)=%v but Zeta(s,q+1)+q^-s=%v", a, b, z0, z1+term)
		}
		if v := mathext.Zeta(2, 1); !within("zeta-2", v, math.Pi*math.Pi/6, 1e-14) {
			F("value", "Zeta(2,1)=%v", v)
		}
		if v := mathext.Zeta(4, 1); !within("zeta-4", v, math.Pow(math.Pi, 4)/90, 1e-14) {
			F("value", "Zeta(4,1)=%v", v)
		}
		if v := mathext.Zeta(1, b); !math.IsInf(v, 1) {
			F("pole", "Zeta(1,%v)=%v, documented +Inf", b, v)
		}
		fs.add(vk.MustPanic("Zeta-s-below-one-must-panic", func() { mathext.Zeta(0.5, b) }))
		fs.add(vk.MustPanic("Zeta-q-zero-must-panic", func() { mathext.Zeta(a, 0) }))
	case "NormalQuantile":
		q := mathext.NormalQuantile(y)
		p := 0.5 * math.Erfc(-q/math.Sqrt2)
		if !within("normalquantile", p, y, 1e-12*math.Min(y, 1-y)+4*vk.Eps) {
			F("inverse", "NormalQuantile(%v)=%v but Phi there is %v", y, q, p)
		}
		if q2 := mathext.NormalQuantile(1 - y); 1-y+y == 1 && !within("normalquantile-symmetry", q2, -q, 1e-9*(1+math.Abs(q))) {
			// 1-y is rounded: compare through Phi
			if p2 := 0.5 * math.Erfc(-q2/math.Sqrt2); !within("normalquantile-symmetry-phi", p2, 1-y, 1e-12*math.Min(y, 1-y)+4*vk.Eps) {
				F("symmetry", "NormalQuantile(%v)=%v, NormalQuantile(%v)=%v", y, q, 1-y, q2)
			}
		}
		if !math.IsInf(mathext.NormalQuantile(0), -1) || !math.IsInf(mathext.NormalQuantile(1), 1) {
			F("ends", "NormalQuantile(0)=%v NormalQuantile(1)=%v", mathext.NormalQuantile(0), mathext.NormalQuantile(1))
		}
		fs.add(vk.MustPanic("NormalQuantile-out-of-range-must-panic", func() { mathext.NormalQuantile(1.0000001) }))
		fs.add(vk.MustPanic("NormalQuantile-negative-must-panic", func() { mathext.NormalQuantile(-1e-300) }))
	case "Beta":
		la, _ := math.Lgamma(a)
		lb, _ := math.Lgamma(b)
		lab, _ := math.Lgamma(a + b)
		want := la + lb - lab
		if got := mathext.Lbeta(a, b); !within("lbeta", got, want, 1e-12*(1+math.Abs(la)+math.Abs(lb)+math.Abs(lab))) {
			F("lbeta", "Lbeta(%v,%v)=%v want %v", a, b, got, want)
		}
		if got := mathext.Beta(a, b); !within("beta", got, math.Exp(want), 1e-11*math.Exp(want)*(1+math.Abs(la)+math.Abs(lb)+math.Abs(lab))) {
			F("beta", "Beta(%v,%v)=%v want %v", a, b, got, math.Exp(want))
		}
		if mathext.Beta(a, b) != mathext.Beta(b, a) && !closeRel(mathext.Beta(a, b), mathext.Beta(b, a), 1e-14) {
			F("symmetry", "Beta(a,b)=%v Beta(b,a)=%v", mathext.Beta(a, b), mathext.Beta(b, a))
		}
		for _, sp := range [][3]float64{{math.Inf(1), 1, math.NaN()}, {0, 0, math.NaN()}, {math.NaN(), 1, math.NaN()}, {-1, 2, math.NaN()}, {0, 2, math.Inf(1)}, {2, 0, math.Inf(1)}} {
			if got := mathext.Beta(sp[0], sp[1]); !vk.SameBits(got, sp[2]) && got != sp[2] {
				F("special-case", "Beta(%v,%v)=%v, documented %v", sp[0], sp[1], got, sp[2])
			}
			if got := mathext.Lbeta(sp[0], sp[1]); !vk.SameBits(got, sp[2]) && got != sp[2] {
				F("special-case", "Lbeta(%v,%v)=%v, documented %v", sp[0], sp[1], got, sp[2])
			}
		}
		// MvLgamma
		dim := 1 + int(x)%6
		v := a + float64(dim-1)/2
		wantMv := float64(dim*(dim-1)) / 4 * math.Log(math.Pi)
		for i := 1; i <= dim; i++ {
			lg, _ := math.Lgamma(v + float64(1-i)/2)
			wantMv += lg
		}
		if got := mathext.MvLgamma(v, dim); !within("mvlgamma", got, wantMv, 1e-12*(1+math.Abs(wantMv))) {
			F("mvlgamma", "MvLgamma(%v,%d)=%v want %v", v, dim, got, wantMv)
		}
		if dim > 1 {
			if got := mathext.MvLgamma(float64(dim-1)/2-0.01, dim); !math.IsNaN(got) {
				F("mvlgamma-domain", "MvLgamma(%v,%d)=%v, documented NaN for v < (dim-1)/2", float64(dim-1)/2-0.01, dim, got)
			}
		}
		fs.add(vk.MustPanic("Beta-mvlgamma-dim-must-panic", func() { mathext.MvLgamma(1, 0) }))
	case "Carlson":
		// x = a, y = b, z = x; lambda = y
		X, Y, Z, lam := a, b, x, y
		rf := mathext.EllipticRF(X, Y, Z)
		if math.IsNaN(rf) {
			F("rf-nan", "EllipticRF(%v,%v,%v)=NaN inside the documented domain", X, Y, Z)
			break
		}
		for _, pm := range [][3]float64{{Y, X, Z}, {Z, Y, X}, {Y, Z, X}} {
			if got := mathext.EllipticRF(pm[0], pm[1], pm[2]); !within("rf-symmetry", got, rf, 1e-14*rf) {
				F("rf-symmetry", "EllipticRF%v=%v but EllipticRF(%v,%v,%v)=%v", pm, got, X, Y, Z, rf)
			}
		}
		if got := mathext.EllipticRF(lam*X, lam*Y, lam*Z); !within("rf-homogeneity", got, rf/math.Sqrt(lam), 1e-14*rf/math.Sqrt(lam)) {
			F("rf-homogeneity", "EllipticRF(l x,l y,l z)=%v want l^-1/2 RF=%v", got, rf/math.Sqrt(lam))
		}
		l := math.Sqrt(X)*math.Sqrt(Y) + math.Sqrt(Y)*math.Sqrt(Z) + math.Sqrt(Z)*math.Sqrt(X)
		if got := mathext.EllipticRF((X+l)/4, (Y+l)/4, (Z+l)/4); !within("rf-duplication", got, rf, 1e-14*rf) {
			F("rf-duplication", "EllipticRF((x+l)/4,(y+l)/4,(z+l)/4)=%v want RF(x,y,z)=%v", got, rf)
		}
		if got := mathext.EllipticRF(X, X, X); !within("rf-equal", got, 1/math.Sqrt(X), 1e-14/math.Sqrt(X)) {
			F("rf-equal-arguments", "EllipticRF(x,x,x)=%v want x^-1/2=%v", got, 1/math.Sqrt(X))
		}
		if Z > 0 {
			rd := mathext.EllipticRD(X, Y, Z)
			if got := mathext.EllipticRD(Y, X, Z); !within("rd-symmetry", got, rd, 1e-14*rd) {
				F("rd-symmetry", "EllipticRD(y,x,z)=%v EllipticRD(x,y,z)=%v", got, rd)
			}
			if got := mathext.EllipticRD(lam*X, lam*Y, lam*Z); !within("rd-homogeneity", got, rd/(lam*math.Sqrt(lam)), 1e-13*rd/(lam*math.Sqrt(lam))) {
				F("rd-homogeneity", "EllipticRD(l x,l y,l z)=%v want l^-3/2 RD=%v", got, rd/(lam*math.Sqrt(lam)))
			}
			want := 2*mathext.EllipticRD(X+l, Y+l, Z+l) + 3/(math.Sqrt(Z)*(Z+l))
			if !within("rd-duplication", rd, want, 1e-13*rd) {
				F("rd-duplication", "EllipticRD(x,y,z)=%v but 2 RD(x+l,y+l,z+l) + 3/(sqrt z (z+l)) = %v", rd, want)
			}
			// RD(x,y,z)+RD(y,z,x)+RD(z,x,y) = 3/sqrt(xyz)
			if X > 0 && Y > 0 {
				sum := rd + mathext.EllipticRD(Y, Z, X) + mathext.EllipticRD(Z, X, Y)
				w := 3 / (math.Sqrt(X) * math.Sqrt(Y) * math.Sqrt(Z))
				if !within("rd-sum", sum, w, 1e-13*w) {
					F("rd-cyclic-sum", "RD(x,y,z)+RD(y,z,x)+RD(z,x,y)=%v want 3/sqrt(xyz)=%v", sum, w)
				}
			}
		}
		if v := mathext.EllipticRF(-1, 1, 1); !math.IsNaN(v) {
			F("rf-domain", "EllipticRF(-1,1,1)=%v, documented NaN", v)
		}
	case "Legendre":
		m := y
		k, e, k1, e1 := mathext.CompleteK(m), mathext.CompleteE(m), mathext.CompleteK(1-m), mathext.CompleteE(1-m)
		if !within("legendre", e*k1+e1*k-k*k1, math.Pi/2, 1e-13*(1+k*k1)) {
			F("legendre-relation", "E(m)K(1-m)+E(1-m)K(m)-K(m)K(1-m)=%v want pi/2", e*k1+e1*k-k*k1)
		}
		bm, dm := mathext.CompleteB(m), mathext.CompleteD(m)
		if !within("k=b+d", bm+dm, k, 1e-14*k) {
			F("b-plus-d", "CompleteB+CompleteD=%v want K=%v", bm+dm, k)
		}
		if !within("e=b+(1-m)d", bm+(1-m)*dm, e, 1e-14*k) {
			F("b-plus-mc-d", "CompleteB+(1-m)CompleteD=%v want E=%v", bm+(1-m)*dm, e)
		}
		if got := mathext.EllipticRF(0, 1-m, 1); !within("k-carlson", got, k, 1e-14*k) {
			F("k-vs-carlson", "CompleteK(%v)=%v but RF(0,1-m,1)=%v", m, k, got)
		}
		if got := mathext.EllipticRF(0, 1-m, 1) - m/3*mathext.EllipticRD(0, 1-m, 1); !within("e-carlson", got, e, 1e-14*k) {
			F("e-vs-carlson", "CompleteE(%v)=%v but RF-(m/3)RD=%v", m, e, got)
		}
		if got := mathext.EllipticF(math.Pi/2, m); !within("f-complete", got, k, 1e-13*k) {
			F("f-at-half-pi", "EllipticF(pi/2,%v)=%v want K=%v", m, got, k)
		}
		if got := mathext.EllipticE(math.Pi/2, m); !within("e-complete", got, e, 1e-13*k) {
			F("e-at-half-pi", "EllipticE(pi/2,%v)=%v want E=%v", m, got, e)
		}
		// incomplete integrals by quadrature
		phi := x
		var abs vec
		for i := range abs {
			abs[i] = 1e-13
		}
		val, err := integrate(func(t float64) vec {
			s := math.Sin(t)
			r := math.Sqrt(1 - m*s*s)
			return vec{1 / r, r}
		}, 0, phi, abs, 1e-13, 200)
		if err[0] < 1e-11 && !within("f-quadrature", mathext.EllipticF(phi, m), val[0], 1e-10*(1+val[0])) {
			F("f-vs-quadrature", "EllipticF(%v,%v)=%v but quadrature gives %v", phi, m, mathext.EllipticF(phi, m), val[0])
		}
		if err[1] < 1e-11 && !within("e-quadrature", mathext.EllipticE(phi, m), val[1], 1e-10*(1+val[1])) {
			F("e-vs-quadrature", "EllipticE(%v,%v)=%v but quadrature gives %v", phi, m, mathext.EllipticE(phi, m), val[1])
		}
		if v := mathext.CompleteK(0); !within("k0", v, math.Pi/2, 1e-15) {
			F("k-at-zero", "CompleteK(0)=%v", v)
		}
		if v := mathext.CompleteE(1); !within("e1", v, 1, 1e-15) {
			F("e-at-one", "CompleteE(1)=%v", v)
		}
		if !math.IsNaN(mathext.CompleteK(1.5)) || !math.IsNaN(mathext.CompleteE(-0.5)) {
			F("domain", "CompleteK(1.5)=%v CompleteE(-0.5)=%v, documented NaN", mathext.CompleteK(1.5), mathext.CompleteE(-0.5))
		}
	case "Airy":
		z := complex(a, b)
		ai := mathext.AiryAi(z)
		want, wantp := airySeries(z)
		tol := 1e-12 * (1 + cmplx.Abs(want))
		if !within("airy-series", cmplx.Abs(ai-want), 0, tol) {
			F("maclaurin", "AiryAi(%v)=%v but the Maclaurin series gives %v", z, ai, want)
		}
		aip := mathext.AiryAiDeriv(z)
		if !within("airy-deriv-series", cmplx.Abs(aip-wantp), 0, 1e-12*(1+cmplx.Abs(wantp))) {
			F("maclaurin-derivative", "AiryAiDeriv(%v)=%v but the Maclaurin series gives %v", z, aip, wantp)
		}
		if c2 := mathext.AiryAi(cmplx.Conj(z)); !within("airy-conj", cmplx.Abs(c2-cmplx.Conj(ai)), 0, 1e-13*(1+cmplx.Abs(ai))) {
			F("conjugate-symmetry", "AiryAi(conj z)=%v but conj AiryAi(z)=%v", c2, cmplx.Conj(ai))
		}
	}
	return fs.pick(math.Float64bits(a) ^ math.Float64bits(y))
}

func TestMathext(t *testing.T) {
	kinds := []string{"GammaInc", "GammaIncInv", "IncBeta", "IncBetaInv", "Digamma", "Zeta", "NormalQuantile", "Beta", "Carlson", "Legendre", "Airy"}
	genY := func(t *rapid.T) float64 {
		switch rapid.IntRange(0, 3).Draw(t, "ycls") {
		case 0:
			return rapid.SampledFrom(pGrid).Draw(t, "ygrid")
		case 1:
			v := logUniform(t, "ytail", 1e-6, 0.1)
			if rapid.Bool().Draw(t, "yhigh") {
				return 1 - v
			}
			return v
		}
		return sig(rapid.Float64Range(0.001, 0.999).Draw(t, "y"), 4)
	}
	vk.Run(t, "mathext", vk.Opts{Quick: 60000, Thorough: 1000000, NoCrumb: true}, func(t *rapid.T) mxCase {
		c := mxCase{Kind: rapid.SampledFrom(kinds).Draw(t, "kind")}
		switch c.Kind {
		case "GammaInc":
			c.A = vk.F(genShape(t, "a", 0.05, 500, 1, 20, 200))
			c.X = vk.F(logUniform(t, "factor", 0.01, 20))
		case "GammaIncInv":
			c.A = vk.F(genShape(t, "a", 0.3, 50, 1))
			c.Y = vk.F(genY(t))
			if rapid.IntRange(0, 7).Draw(t, "ydeep") == 0 {
				// forall y in [0,1]: the inverse must not fail far in the tail
				c.Y = vk.F(rapid.SampledFrom([]float64{1e-9, 1e-14, 1e-20, 1e-100, 1e-300}).Draw(t, "ytiny"))
			}
		case "IncBeta", "IncBetaInv":
			c.A = vk.F(genShape(t, "a", 0.3, 50, 1))
			c.B = vk.F(genShape(t, "b", 0.3, 50, 1))
			c.Y = vk.F(genY(t))
		case "Digamma":
			if rapid.IntRange(0, 3).Draw(t, "neg") == 0 {
				c.X = vk.F(-sig(rapid.Float64Range(0.01, 20).Draw(t, "xneg"), 4))
				if float64(c.X) == math.Floor(float64(c.X)) {
					c.X -= 0.5
				}
			} else {
				c.X = vk.F(genShape(t, "x", 1e-3, 100, 1, 6, 7))
			}
		case "Zeta":
			c.A = vk.F(1 + logUniform(t, "s", 0.05, 40))
			c.B = vk.F(genShape(t, "q", 0.05, 30, 1, 9))
		case "NormalQuantile":
			if rapid.IntRange(0, 4).Draw(t, "deep") == 0 {
				c.Y = vk.F(logUniform(t, "ydeep", 1e-300, 1e-6))
			} else {
				c.Y = vk.F(genY(t))
			}
		case "Beta":
			c.A = vk.F(genShape(t, "a", 0.05, 150, 1))
			c.B = vk.F(genShape(t, "b", 0.05, 150, 1))
			c.X = vk.F(float64(rapid.IntRange(0, 5).Draw(t, "dim")))
		case "Carlson":
			g := func(label string) float64 {
				if rapid.IntRange(0, 7).Draw(t, label+"_zero") == 0 {
					return 0
				}
				return logUniform(t, label, 1e-6, 1e6)
			}
			c.A, c.B, c.X = vk.F(g("x")), vk.F(g("y")), vk.F(g("z"))
			// at most one argument may vanish
			if c.A == 0 && c.B == 0 {
				c.B = 1
			}
			if c.X == 0 && (c.A == 0 || c.B == 0) {
				c.X = 2
			}
			c.Y = vk.F(logUniform(t, "lambda", 1e-3, 1e3))
		case "Legendre":
			c.Y = vk.F(genY(t))
			// the Carlson forms are valid for 0 <= phi <= pi/2 (DLMF 19.25.5)
			c.X = vk.F(math.Min(sig(rapid.Float64Range(0.01, math.Pi/2).Draw(t, "phi"), 4), math.Pi/2))
		case "Airy":
			r := rapid.Float64Range(0, 3).Draw(t, "r")
			th := rapid.Float64Range(-math.Pi, math.Pi).Draw(t, "theta")
			if rapid.IntRange(0, 3).Draw(t, "real") == 0 {
				th = float64(rapid.IntRange(0, 1).Draw(t, "sign")) * math.Pi
			}
			c.A, c.B = vk.F(sig(r*math.Cos(th), 4)), vk.F(sig(r*math.Sin(th), 4))
			if th == 0 || th == math.Pi {
				c.B = 0
			}
		}
		return c
	}, checkMathext)
	if os.Getenv("C11_DBG_MAX") != "" {
		var ks []string
		for k := range mxMax {
			ks = append(ks, k)
		}
		sort.Strings(ks)
		for _, k := range ks {
			fmt.Printf("MAXRATIO %-28s %.3g\n", k, mxMax[k])
		}
	}
}
