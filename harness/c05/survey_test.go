package c05

import (
	"fmt"
	"os"
	"sort"
	"strconv"
	"testing"

	"verifharness/vk"
)

// TestSurvey is a development aid (C05_SURVEY=1): it runs the exhaustive plans
// without stopping at the first failure and prints every distinct failure key
// with its count and one example. It is not part of the check.
func TestSurvey(t *testing.T) {
	if os.Getenv("C05_SURVEY") == "" {
		t.Skip("set C05_SURVEY=1")
	}
	stride := 1
	if v, err := strconv.Atoi(os.Getenv("C05_SURVEY_STRIDE")); err == nil && v > 0 {
		stride = v
	}
	P := vk.Pick(4, 6)
	plans := map[string]*plan{
		"same-parent":  buildPlan(sameParentSpace(P), allOps, true),
		"vectors":      buildPlan(vectorSpace(), func(o *opDef) bool { return o.Recv == 'V' }, true),
		"mixed-stride": buildPlan(mixedSpace(P), allOps, false),
	}
	type agg struct {
		n   int
		msg string
	}
	for _, name := range []string{"same-parent", "vectors", "mixed-stride"} {
		pl := plans[name]
		found := map[string]*agg{}
		check := runCase(name)
		for i := 0; i < pl.total; i += stride {
			c := pl.gen(i)
			var f *vk.Failure
			func() {
				defer func() {
					if r := recover(); r != nil {
						f = vk.Failf("unexpected-panic-in-check", "%v case=%+v", r, c)
					}
				}()
				f = check(c)
			}()
			if f != nil {
				a := found[f.Key]
				if a == nil {
					a = &agg{msg: f.Msg}
					found[f.Key] = a
				}
				a.n++
			}
		}
		keys := make([]string, 0, len(found))
		for k := range found {
			keys = append(keys, k)
		}
		sort.Strings(keys)
		fmt.Printf("== %s: %d cases, %d blocks, %d distinct failure keys\n", name, pl.total/stride, len(pl.blocks), len(keys))
		for _, k := range keys {
			fmt.Printf("%-60s %7d  %s\n", k, found[k].n, found[k].msg)
		}
	}
}
