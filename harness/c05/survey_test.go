package c05

import (
	"encoding/json"
	"fmt"
	"os"
	"path/filepath"
	"pgregory.net/rapid"
	"sort"
	"strconv"
	"strings"
	"testing"

	"verifharness/vk"
)

// TestSurvey is a development aid (C05_SURVEY=1): it runs the exhaustive plans
// without stopping at the first failure and prints every distinct failure key
// with its count and one example. It is not part of the check.
func TestSurvey(t *testing.T) {
	if os.Getenv("C05_SURVEY") == "" {
		t.Skip("set C05_SURVEY=1")
	}
	stride := 1
	if v, err := strconv.Atoi(os.Getenv("C05_SURVEY_STRIDE")); err == nil && v > 0 {
		stride = v
	}
	P := vk.Pick(4, 6)
	plans := map[string]*plan{
		"same-parent":  buildPlan(sameParentSpace(P), allOps, true),
		"vectors":      buildPlan(vectorSpace(), func(o *opDef) bool { return o.Recv == 'V' }, true),
		"mixed-stride": buildPlan(mixedSpace(P), allOps, false),
	}
	type agg struct {
		n   int
		msg string
	}
	for _, name := range []string{"same-parent", "vectors", "mixed-stride"} {
		pl := plans[name]
		found := map[string]*agg{}
		check := runCase(name)
		for i := 0; i < pl.total; i += stride {
			c := pl.gen(i)
			var f *vk.Failure
			func() {
				defer func() {
					if r := recover(); r != nil {
						f = vk.Failf("unexpected-panic-in-check", "%v case=%+v", r, c)
					}
				}()
				f = check(c)
			}()
			if f != nil {
				a := found[f.Key]
				if a == nil {
					a = &agg{msg: f.Msg}
					found[f.Key] = a
				}
				a.n++
			}
		}
		keys := make([]string, 0, len(found))
		for k := range found {
			keys = append(keys, k)
		}
		sort.Strings(keys)
		fmt.Printf("== %s: %d cases, %d blocks, %d distinct failure keys\n", name, pl.total/stride, len(pl.blocks), len(keys))
		for _, k := range keys {
			fmt.Printf("%-60s %7d  %s\n", k, found[k].n, found[k].msg)
		}
	}
}

// TestSurveySampled (C05_SURVEY=1) aggregates the failure keys of the sampled
// part without stopping; use -rapid.checks=N.
func TestSurveySampled(t *testing.T) {
	if os.Getenv("C05_SURVEY") == "" {
		t.Skip("set C05_SURVEY=1")
	}
	type agg struct {
		n   int
		msg string
	}
	found := map[string]*agg{}
	check := runCase("sampled")
	n, invalid := 0, 0
	rapid.Check(t, func(rt *rapid.T) {
		c := drawCase(rt)
		n++
		if op := opByName[c.Op]; op == nil || !validCase(c, op) {
			invalid++
		}
		var f *vk.Failure
		func() {
			defer func() {
				if r := recover(); r != nil {
					f = vk.Failf("unexpected-panic-in-check", "%v case=%+v", r, c)
				}
			}()
			f = check(c)
		}()
		if f != nil {
			a := found[f.Key]
			if a == nil {
				a = &agg{msg: f.Msg}
				found[f.Key] = a
			}
			a.n++
		}
	})
	keys := make([]string, 0, len(found))
	for k := range found {
		keys = append(keys, k)
	}
	sort.Strings(keys)
	fmt.Printf("== sampled: %d cases (%d invalid), %d distinct failure keys\n", n, invalid, len(keys))
	for _, k := range keys {
		fmt.Printf("%-60s %7d  %s\n", k, found[k].n, found[k].msg)
	}
}

// TestWriteWitnesses (C05_WITNESS=<dir>) writes, for every failure key met in
// the quick exhaustive plans, the first (smallest) failing case as a replay
// file. Development aid for maintaining /verif/replays/C05.
func TestWriteWitnesses(t *testing.T) {
	dir := os.Getenv("C05_WITNESS")
	if dir == "" {
		t.Skip("set C05_WITNESS=<dir>")
	}
	type cf struct {
		Property string      `json:"property"`
		Sub      string      `json:"sub"`
		Config   string      `json:"config"`
		Failure  *vk.Failure `json:"failure"`
		Case     any         `json:"case"`
	}
	write := func(sub string, f *vk.Failure, c any) {
		f.Key = sub + "/" + f.Key
		b, _ := json.MarshalIndent(cf{"C05", sub, "default", f, c}, "", " ")
		name := strings.NewReplacer("/", "_", ":", "_").Replace(strings.TrimPrefix(f.Key, sub+"/defect/"))
		_ = os.WriteFile(filepath.Join(dir, name+".json"), b, 0o644)
	}
	seen := map[string]bool{}
	plans := []*plan{
		buildPlan(sameParentSpace(4), allOps, true),
		buildPlan(vectorSpace(), func(o *opDef) bool { return o.Recv == 'V' }, true),
		buildPlan(mixedSpace(4), allOps, false),
	}
	check := runCase("witness")
	for _, pl := range plans {
		for i := 0; i < pl.total; i++ {
			c := pl.gen(i)
			if f := check(c); f != nil && !seen[f.Key] {
				seen[f.Key] = true
				write(subName, f, c)
			}
		}
	}
}
