package c05

import (
	"encoding/json"
	"fmt"
	"os"
	"path/filepath"
	"pgregory.net/rapid"
	"sort"
	"strconv"
	"strings"
	"testing"

	"verifharness/vk"
)

// TestSurvey is a development aid (C05_SURVEY=1): it runs the exhaustive plans
// without stopping at the first failure and prints every distinct failure key
// with its count and one example. It is not part of the check.
func TestSurvey(t *testing.T) {
	if os.Getenv("C05_SURVEY") == "" {
		t.Skip("set C05_SURVEY=1")
	}
	stride := 1
	if v, err := strconv.Atoi(os.Getenv("C05_SURVEY_STRIDE")); err == nil && v > 0 {
		stride = v
	}
	P := vk.Pick(4, 6)
	plans := map[string]*plan{
		"same-parent":  buildPlan(sameParentSpace(P), allOps, true),
		"vectors":      buildPlan(vectorSpace(), func(o *opDef) bool { return o.Recv == 'V' }, true),
		"mixed-stride": buildPlan(mixedSpace(P), allOps, false),
	}
	type agg struct {
		n   int
		msg string
	}
	for _, name := range []string{"same-parent", "vectors", "mixed-stride"} {
		pl := plans[name]
		found := map[string]*agg{}
		check := runCase(name)
		for i := 0; i < pl.total; i += stride {
			c := pl.gen(i)
			var f *vk.Failure
			func() {
				defer func() {
					if r := recover(); r != nil {
						f = vk.Failf("unexpected-panic-in-check", "%v case=%+v", r, c)
					}
				}()
				f = check(c)
			}()
			if f != nil {
				a := found[f.Key]
				if a == nil {
					a = &agg{msg: f.Msg}
					found[f.Key] = a
				}
				a.n++
			}
		}
		keys := make([]string, 0, len(found))
		for k := range found {
			keys = append(keys, k)
		}
		sort.Strings(keys)
		fmt.Printf("== %s: %d cases, %d blocks, %d distinct failure keys\n", name, pl.total/stride, len(pl.blocks), len(keys))
		for _, k := range keys {
			fmt.Printf("%-60s %7d  %s\n", k, found[k].n, found[k].msg)
		}
	}
}

// TestSurveySampled (C05_SURVEY=1) aggregates the failure keys of the sampled
// part without stopping; use -rapid.checks=N.
func TestSurveySampled(t *testing.T) {
	if os.Getenv("C05_SURVEY") == "" {
		t.Skip("set C05_SURVEY=1")
	}
	type agg struct {
		n   int
		msg string
	}
	found := map[string]*agg{}
	check := runCase("sampled")
	n, invalid := 0, 0
	rapid.Check(t, func(rt *rapid.T) {
		c := drawCase(rt)
		n++
		if op := opByName[c.Op]; op == nil || !validCase(c, op) {
			invalid++
		}
		var f *vk.Failure
		func() {
			defer func() {
				if r := recover(); r != nil {
					f = vk.Failf("unexpected-panic-in-check", "%v case=%+v", r, c)
				}
			}()
			f = check(c)
		}()
		if f != nil {
			a := found[f.Key]
			if a == nil {
				a = &agg{msg: f.Msg}
				found[f.Key] = a
			}
			a.n++
		}
	})
	keys := make([]string, 0, len(found))
	for k := range found {
		keys = append(keys, k)
	}
	sort.Strings(keys)
	fmt.Printf("== sampled: %d cases (%d invalid), %d distinct failure keys\n", n, invalid, len(keys))
	for _, k := range keys {
		fmt.Printf("%-60s %7d  %s\n", k, found[k].n, found[k].msg)
	}
}

// TestWriteWitnesses (C05_WITNESS=<dir>) writes, for every failure key met in
// the quick exhaustive plans, the first (smallest) failing case as a replay
// file. Development aid for maintaining /verif/replays/C05.
func TestWriteWitnesses(t *testing.T) {
	dir := os.Getenv("C05_WITNESS")
	if dir == "" {
		t.Skip("set C05_WITNESS=<dir>")
	}
	type cf struct {
		Property string      `json:"property"`
		Sub      string      `json:"sub"`
		Config   string      `json:"config"`
		Failure  *vk.Failure `json:"failure"`
		Case     any         `json:"case"`
	}
	write := func(sub string, f *vk.Failure, c any) {
		f.Key = sub + "/" + f.Key
		b, _ := json.MarshalIndent(cf{"C05", sub, "default", f, c}, "", " ")
		name := strings.NewReplacer("/", "_", ":", "_").Replace(strings.TrimPrefix(f.Key, sub+"/defect/"))
		_ = os.WriteFile(filepath.Join(dir, name+".json"), b, 0o644)
	}
	type best struct {
		score int
		f     *vk.Failure
		c     Case
	}
	found := map[string]*best{}
	plans := []*plan{
		buildPlan(sameParentSpace(4), allOps, true),
		buildPlan(vectorSpace(), func(o *opDef) bool { return o.Recv == 'V' }, true),
		buildPlan(mixedSpace(4), allOps, false),
	}
	check := runCase("witness")
	for _, pl := range plans {
		for i := 0; i < pl.total; i++ {
			c := pl.gen(i)
			f := check(c)
			if f == nil {
				continue
			}
			score := 0
			for _, fam := range []string{famOverlapCorrupt, famResultWrong, famIdentityWrong, famDisjointReject, famMutatedBefore} {
				if strings.Contains(f.Msg, "/"+fam+"]") {
					score += 2
				}
			}
			if r, cc := c.Recv.dims(); r*cc >= 2 {
				score++
			}
			if r, cc := c.Recv.dims(); r*cc >= 4 {
				score++
			}
			if b := found[f.Key]; b == nil || score > b.score {
				found[f.Key] = &best{score, f, c}
			}
		}
	}
	for _, b := range found {
		write(subName, b.f, b.c)
	}
	for i, c := range cdenseCases(4) {
		c.Seed = uint64(i)*0x9e3779b97f4a7c15 + 7
		if f := checkCDense(c); f != nil && c.Recv.R*c.Recv.C >= 4 {
			f.Key = "cdense/" + f.Key
			b, _ := json.MarshalIndent(cf{"C05", "cdense", "default", f, c}, "", " ")
			_ = os.WriteFile(filepath.Join(dir, "cdense-copy-no-overlap-handling.json"), b, 0o644)
			break
		}
	}
	rseen := map[string]bool{}
	for i, c := range resizeCases(false) {
		c.Seed = uint64(i)*0x9e3779b97f4a7c15 + 11
		if f := checkResize(c); f != nil && !rseen[f.Key] && c.Recv.R >= 3 {
			rseen[f.Key] = true
			name := strings.NewReplacer("/", "_", ":", "_").Replace(strings.TrimPrefix(f.Key, "defect/"))
			f.Key = "resize/" + f.Key
			b, _ := json.MarshalIndent(cf{"C05", "resize", "default", f, c}, "", " ")
			_ = os.WriteFile(filepath.Join(dir, name+".json"), b, 0o644)
		}
	}
	// hand-picked witnesses of the two defects known before the check existed
	freshV := func(n int) Arg { return Arg{Buf: 2, W: Win{K: "V", VM: "new", R: n, C: 1, PS: 1, PR: n}} }
	named := map[string]Case{
		"vec-two-columns-of-nx2-matrix-rejected": {Op: "AddVec", L: 8, Seed: 1,
			Recv: Win{K: "V", VM: "col", PS: 2, PR: 4, I: 0, J: 0, R: 4, C: 1},
			Args: []Arg{{W: Win{K: "V", VM: "col", PS: 2, PR: 4, I: 0, J: 1, R: 4, C: 1}}, freshV(4)}},
		"vec-inc3-slices-offset-by-3-accepted": {Op: "AddVec", L: 12, Seed: 1,
			Recv: Win{K: "V", VM: "col", PS: 3, PR: 4, I: 0, J: 0, R: 3, C: 1},
			Args: []Arg{{W: Win{K: "V", VM: "col", PS: 3, PR: 4, I: 1, J: 0, R: 3, C: 1}}, freshV(3)}},
		"copyvec-same-inc-receiver-one-step-after-source": {Op: "CopyVec", L: 16, Seed: 1,
			Recv: Win{K: "V", VM: "col", PS: 4, PR: 4, I: 1, J: 0, R: 3, C: 1},
			Args: []Arg{{W: Win{K: "V", VM: "col", PS: 4, PR: 4, I: 0, J: 0, R: 3, C: 1}}}},
		"copysym-receiver-one-diagonal-step-after-source": {Op: "CopySym", L: 16, Seed: 1,
			Recv: Win{K: "S", PS: 4, PR: 4, I: 1, J: 1, R: 3, C: 3},
			Args: []Arg{{W: Win{K: "S", PS: 4, PR: 4, I: 0, J: 0, R: 3, C: 3}}}},
		"mul-dense-times-symdense-receiver-overlaps-sym": {Op: "Mul", L: 16, Seed: 1,
			Recv: Win{K: "D", PS: 4, PR: 4, I: 0, J: 1, R: 2, C: 2},
			Args: []Arg{{Buf: 1, W: Win{K: "D", PS: 3, PR: 2, I: 0, J: 1, R: 2, C: 2}}, {W: Win{K: "S", PS: 4, PR: 4, I: 0, J: 0, R: 2, C: 2}}}},
		"mul-tridense-times-dense-receiver-overlaps-tri": {Op: "Mul", L: 16, Seed: 1,
			Recv: Win{K: "D", PS: 4, PR: 4, I: 1, J: 1, R: 2, C: 2},
			Args: []Arg{{W: Win{K: "U", PS: 4, PR: 4, I: 1, J: 1, R: 2, C: 2}}, {Buf: 2, W: Win{K: "D", PS: 3, PR: 2, I: 0, J: 1, R: 2, C: 2}}}},
	}
	for name, c := range named {
		f := check(c)
		if f == nil {
			t.Logf("named witness %s does not fail (defect fixed)", name)
			continue
		}
		f.Key = subName + "/" + f.Key
		b, _ := json.MarshalIndent(cf{"C05", subName, "default", f, c}, "", " ")
		_ = os.WriteFile(filepath.Join(dir, name+".json"), b, 0o644)
	}
}
