// Package c05 checks property C05: mat never mutates inputs and never returns a
// result corrupted by aliasing.
//
// Every case places a receiver window and one or more operand windows on one
// shared backing array, calls one receiver-taking method of Dense, VecDense,
// SymDense, TriDense or CDense and compares the outcome with what the
// geometry of the windows (exact element-index sets) demands. The reference
// result is the same call on windows of identical geometry that live in
// separate copies of the backing array (the "operand cloned first" call).
package c05

import (
	"testing"

	"verifharness/vk"
)

func TestMain(m *testing.M) { vk.Main(m, "C05") }
