package c05

import (
	"fmt"
	"math"
	"strings"

	"gonum.org/v1/gonum/mat"
	"verifharness/vk"
)

// Arg is one matrix-valued argument of the call.
type Arg struct {
	// Buf 0: the window lies on the shared backing array; Buf>0: the
	// operand has private storage (a "fresh" matrix).
	Buf int `json:"buf"`
	// Same: the argument is the receiver value itself (pointer identity).
	Same bool `json:"same,omitempty"`
	// T: the argument is passed as T() (TTri() for Triangular parameters).
	T bool `json:"t,omitempty"`
	W Win  `json:"w"`
}

// Case is one call: a method, a receiver window and its arguments.
type Case struct {
	Op   string `json:"op"`
	L    int    `json:"l"` // length of the shared backing array
	Recv Win    `json:"recv"`
	Args []Arg  `json:"args"`
	Var  int    `json:"var"`
	Seed uint64 `json:"seed"`
}

func clone(x []float64) []float64 { return append([]float64(nil), x...) }

// fillData returns the initial contents of the shared backing array and of
// the private buffers. All values are non-zero integers so that sums and
// products are exact in every evaluation order.
func fillData(c Case, op *opDef) (B0 []float64, priv [][]float64) {
	rnd := vk.NewSplitMix(c.Seed ^ 0x5eed)
	B0 = make([]float64, c.L)
	switch {
	case op.Small:
		for i := range B0 {
			B0[i] = float64(1 + rnd.Intn(2))
			if rnd.Intn(2) == 0 {
				B0[i] = -B0[i]
			}
		}
	case c.L <= 64:
		// distinct magnitudes: any misplaced element is visible.
		p := rnd.Perm(c.L)
		for i := range B0 {
			B0[i] = float64(p[i] + 1)
			if rnd.Intn(3) == 0 {
				B0[i] = -B0[i]
			}
		}
	default:
		for i := range B0 {
			B0[i] = float64(1 + rnd.Intn(9))
			if rnd.Intn(3) == 0 {
				B0[i] = -B0[i]
			}
		}
	}
	priv = make([][]float64, len(c.Args))
	for i, a := range c.Args {
		if a.Buf == 0 {
			continue
		}
		n := a.W.PR * a.W.PS
		if a.W.K == "V" && a.W.VM == "new" {
			n = a.W.Base + a.W.I + a.W.R
		}
		b := make([]float64, a.W.Base+n)
		for j := range b {
			m := 5
			if op.Small {
				m = 2
			}
			b[j] = float64(1 + rnd.Intn(m))
			if rnd.Intn(2) == 0 {
				b[j] = -b[j]
			}
		}
		priv[i] = b
	}
	// make square operands of factorisation based methods well conditioned.
	for _, s := range op.NonSing {
		if s >= len(c.Args) {
			continue
		}
		a := c.Args[s]
		w := a.W
		buf := B0
		if a.Same {
			w = c.Recv
		} else if a.Buf != 0 {
			buf = priv[s]
		}
		r, cc := w.dims()
		if r != cc {
			continue
		}
		for i := 0; i < r; i++ {
			buf[w.idx(i, i)] = float64(100*r + 7*i + 50)
		}
	}
	return B0, priv
}

func transposeArg(slot byte, m mat.Matrix) mat.Matrix {
	switch slot {
	case 'T':
		return m.(mat.Triangular).TTri()
	case 'V':
		return m.(*mat.VecDense).TVec()
	}
	return m.T()
}

// slotLabel names the argument for keys and evidence: position letter, kind
// of the operand and transposition, e.g. "bS" or "aDT".
func slotLabel(i int, a Arg, recv Win) string {
	k := a.W.K
	if a.Same {
		k = recv.K
	}
	s := string(rune('a'+i)) + k
	if a.T {
		s += "T"
	}
	return s
}

type outcome struct {
	res    vk.Result
	region bool // ended in a "mat: bad region" package panic
}

func classify(res vk.Result) outcome {
	o := outcome{res: res}
	if res.Outcome == vk.PackagePanic && strings.Contains(res.Text, "mat: bad region") {
		o.region = true
	}
	return o
}

func sameVal(got, want float64, tol bool) bool {
	if vk.SameBits(got, want) {
		return true
	}
	if !tol {
		return false
	}
	if math.IsNaN(got) || math.IsNaN(want) || math.IsInf(got, 0) || math.IsInf(want, 0) {
		return false
	}
	return math.Abs(got-want) <= 1e-9*(1+math.Abs(want))
}

// validCase checks the structural validity of a case (windows constructible,
// dimensions matching the method). Generators only produce valid cases; the
// test guards replay files and shrunk cases.
func validCase(c Case, op *opDef) bool {
	if len(c.Args) != len(op.Slots) || c.Var < 0 || c.Var >= op.nvar() || c.L < 1 || c.L > 4096 {
		return false
	}
	if !c.Recv.valid(c.L) {
		return false
	}
	okKind := false
	for _, k := range op.recvKinds() {
		okKind = okKind || k == c.Recv.K
	}
	if !okKind {
		return false
	}
	for i, a := range c.Args {
		if a.Same {
			if op.NoSame || a.Buf != 0 {
				return false
			}
			continue
		}
		if a.Buf == 0 {
			if !a.W.valid(c.L) {
				return false
			}
		} else if !a.W.valid(a.W.Base + a.W.PR*a.W.PS + a.W.I + a.W.R) {
			return false
		}
		ok := false
		for _, k := range slotKinds(op.Slots[i]) {
			ok = ok || k == a.W.K
		}
		if !ok || (a.T && !op.canT(i, a.W.K)) {
			return false
		}
	}
	return true
}

// runCase executes one case and applies the aliasing oracle.
func runCase(sub string) func(c Case) *vk.Failure {
	return func(c Case) *vk.Failure {
		op := opByName[c.Op]
		if op == nil || !validCase(c, op) {
			vk.Inconclusive("invalid-case")
			return nil
		}
		B0, priv0 := fillData(c, op)

		build := func(shared bool) (B []float64, own [][]float64, recv mat.Matrix, args []mat.Matrix) {
			B = clone(B0)
			recv = c.Recv.build(B)
			own = make([][]float64, len(c.Args))
			args = make([]mat.Matrix, len(c.Args))
			for i, a := range c.Args {
				var m mat.Matrix
				switch {
				case a.Same && shared:
					m = recv
				case a.Same:
					own[i] = clone(B0)
					m = c.Recv.build(own[i])
				case a.Buf == 0 && shared:
					m = a.W.build(B)
				case a.Buf == 0:
					own[i] = clone(B0)
					m = a.W.build(own[i])
				default:
					own[i] = clone(priv0[i])
					m = a.W.build(own[i])
				}
				if a.T {
					m = transposeArg(op.Slots[i], m)
				}
				args[i] = m
			}
			return
		}

		// reference: identical geometry, every window in its own copy of the
		// backing array ("the operand cloned first").
		Bref, _, rrecv, rargs := build(false)
		ref := vk.Call(func() { op.Call(rrecv, rargs, c.Var) })
		if ref.Outcome != vk.Returned {
			// not an aliasing question: the unaliased call is itself rejected.
			vk.Inconclusive("unaliased-call-panics:" + c.Op)
			return nil
		}

		// relation of every aliased operand to the receiver; the argument
		// with the strongest demand names the case.
		expect := expMustNot
		label, relClass, strideRel := "", "", ""
		idArg, nAlias, pick := -1, 0, -1
		var rels []string
		var infos = make([]relInfo, len(c.Args))
		for i, a := range c.Args {
			if a.Buf != 0 {
				continue
			}
			nAlias++
			if a.Same {
				if idArg < 0 {
					idArg = i
				}
				rels = append(rels, slotLabel(i, a, c.Recv)+":same")
				continue
			}
			ri := relate(c.Recv, a.W, c.L)
			infos[i] = ri
			rels = append(rels, fmt.Sprintf("%s:%s/%s", slotLabel(i, a, c.Recv), ri.class, ri.strideRel))
			switch {
			case ri.expect == expMustPanic && expect != expMustPanic:
				expect, pick = expMustPanic, i
			case ri.expect == expEither && expect == expMustNot:
				expect, pick = expEither, i
			}
		}
		switch {
		case pick >= 0:
			label, relClass, strideRel = slotLabel(pick, c.Args[pick], c.Recv), infos[pick].class, infos[pick].strideRel
		case idArg >= 0:
			label, relClass, strideRel = slotLabel(idArg, c.Args[idArg], c.Recv), "same", "same"
		case nAlias > 0:
			for i, a := range c.Args {
				if a.Buf == 0 {
					label, relClass, strideRel = slotLabel(i, a, c.Recv), infos[i].class, infos[i].strideRel
					break
				}
			}
		default:
			label, relClass, strideRel = "fresh", "none", "none"
		}
		if op.CopyLike != 0 && expect == expMustPanic {
			// Copy methods copy from an aliasing source; a region panic (the
			// general rule) is accepted as well, except for Dense.Copy from an
			// untransposed Dense or VecDense of the same stride, which the
			// Copier documentation promises to perform.
			expect = expEither
			if op.Name == "Copy" && pick >= 0 && !c.Args[pick].T && (c.Args[pick].W.K == "D" || c.Args[pick].W.K == "V") && infos[pick].sameStride {
				// (with different strides the Element Aliasing rule -- region
				// panic -- is accepted as well; a returned result must be right)
				expect = expMustNot
			}
		}
		if op.CopyLike != 0 && idArg >= 0 && c.Args[idArg].T && expect == expMustNot {
			// a.Copy(a.T()) is documented to panic (except for unit stride).
			expect = expEither
		}

		// evidence
		vk.Class("op=" + c.Op)
		vk.Class("rel=" + relClass + "/" + strideRel)
		if nAlias > 0 {
			full := func(w Win) bool { return w.I == 0 && w.J == 0 && w.R == w.PR && w.C == w.PS && w.K != "V" }
			allFull := full(c.Recv)
			for _, a := range c.Args {
				if a.Buf == 0 && !a.Same && !full(a.W) {
					allFull = false
				}
			}
			if !allFull || idArg >= 0 {
				vk.NonTrivial(c.Op, label, relClass, strideRel, idArg >= 0)
			}
		}
		vk.Sample(sub, c)

		// aliased call
		B, own, recv, args := build(true)
		out := classify(vk.Call(func() { op.Call(recv, args, c.Var) }))

		desc := func() string {
			return fmt.Sprintf("%s var=%d L=%d seed=%d recv=%v args=%v relations=%v expect=%s outcome=%s %q",
				c.Op, c.Var, c.L, c.Seed, c.Recv, describeArgs(c), rels,
				[]string{"must-panic", "must-return", "either"}[expect], out.res.Outcome, out.res.Text)
		}
		// fail builds the failure: attributed to a recorded defect when one
		// of the narrow predicates of rootcause_test.go matches, otherwise
		// keyed by method, operand and violation family.
		fail := func(fam, format string, args ...any) *vk.Failure {
			order := []int{}
			if pick >= 0 {
				order = append(order, pick)
			}
			for i, a := range c.Args {
				if a.Buf == 0 && i != pick {
					order = append(order, i)
				}
			}
			for _, i := range order {
				// with several aliased operands the one at fault is not
				// known: the family is expressed relative to each operand.
				f := fam
				switch {
				case c.Args[i].Same && fam == famDisjointReject:
					f = famIdentityReject
				case !c.Args[i].Same && fam == famIdentityReject:
					f = famDisjointReject
				case c.Args[i].Same && fam == famResultWrong:
					f = famIdentityWrong
				case !c.Args[i].Same && fam == famIdentityWrong:
					f = famResultWrong
				}
				if id := rootCause(op, c, i, f); id != "" {
					return vk.Failf("defect/"+id, "[%s.%s/%s] "+format+": %s", append(append([]any{c.Op, slotLabel(i, c.Args[i], c.Recv), f}, args...), desc())...)
				}
			}
			k := c.Op + "." + label + "/" + fam
			switch fam {
			case famOverlapAccepted, famOverlapCorrupt, famDisjointReject, famResultWrong, famWroteOutside:
				k += ":" + strideRel
			}
			return vk.Failf(k, format+": %s", append(args, desc())...)
		}

		freshIntact := func() int {
			for i, a := range c.Args {
				if a.Buf == 0 {
					continue
				}
				for j := range own[i] {
					if !vk.SameBits(own[i][j], priv0[i][j]) {
						return i
					}
				}
			}
			return -1
		}

		switch {
		case out.res.Outcome == vk.RuntimeFault:
			vk.Class("outcome=runtime-fault")
			return fail(famRuntimeFault, "runtime fault")
		case out.res.Outcome == vk.PackagePanic && !out.region:
			vk.Class("outcome=other-panic")
			return fail(famOtherPanic, "the unaliased call returns but the aliased call panics with a non-region panic")
		case out.region:
			vk.Class("outcome=region-panic")
			if expect == expMustNot {
				if relClass == "same" {
					return fail(famIdentityReject, "region panic although the operand is the receiver itself")
				}
				return fail(famDisjointReject, "region panic although no aliased operand overlaps the receiver in elements (%s)", relClass)
			}
			// no mutation before the panic
			for k := range B {
				if !vk.SameBits(B[k], B0[k]) {
					return fail(famMutatedBefore, "backing[%d] changed from %v to %v before the region panic", k, B0[k], B[k])
				}
			}
			if i := freshIntact(); i >= 0 {
				return fail(famFreshMutated, "fresh operand %d changed before the region panic", i)
			}
			return nil
		}
		vk.Class("outcome=returned")

		// returned: compare with the reference.
		ru, _ := c.Recv.sets(c.L)
		corrupt, outside := -1, -1
		for k := range B {
			if ru.has(k) {
				if corrupt < 0 && !sameVal(B[k], Bref[k], op.Tol) {
					corrupt = k
				}
			} else if outside < 0 && !vk.SameBits(B[k], B0[k]) {
				outside = k
			}
		}
		if expect == expMustPanic {
			if corrupt >= 0 || outside >= 0 {
				return fail(famOverlapCorrupt, "receiver overlaps an operand in elements (%s) but the call returned, and the result is corrupted (first wrong receiver index %d, first changed index outside the receiver %d)", relClass, corrupt, outside)
			}
			return fail(famOverlapAccepted, "receiver overlaps an operand in elements (%s) but the call returned instead of panicking (the result equals the unaliased one; the operand was overwritten)", relClass)
		}
		if corrupt >= 0 {
			if relClass == "same" {
				return fail(famIdentityWrong, "receiver used as operand: backing[%d]=%v, with the operand cloned first the result is %v", corrupt, B[corrupt], Bref[corrupt])
			}
			return fail(famResultWrong, "backing[%d]=%v, the unaliased call gives %v (%s)", corrupt, B[corrupt], Bref[corrupt], relClass)
		}
		if outside >= 0 {
			return fail(famWroteOutside, "backing[%d] changed from %v to %v although it is not an element of the receiver (%s)", outside, B0[outside], B[outside], relClass)
		}
		if i := freshIntact(); i >= 0 {
			return fail(famFreshMutated, "fresh operand %d changed", i)
		}
		return nil
	}
}

func describeArgs(c Case) string {
	var sb strings.Builder
	for i, a := range c.Args {
		if i > 0 {
			sb.WriteString(", ")
		}
		switch {
		case a.Same:
			sb.WriteString("recv")
		case a.Buf != 0:
			r, cc := a.W.dims()
			fmt.Fprintf(&sb, "fresh %s %dx%d", a.W.K, r, cc)
		default:
			sb.WriteString(a.W.String())
		}
		if a.T {
			sb.WriteString(".T()")
		}
	}
	return sb.String()
}
