package c05

import (
	"fmt"
	"math"
	"testing"

	"gonum.org/v1/gonum/mat"
	"verifharness/vk"
)

// CCase is one call of a receiver-taking CDense method (Conj, Copy) with the
// operand window placed on the receiver's backing array.
type CCase struct {
	Op   string `json:"op"` // "Conj" or "Copy"
	L    int    `json:"l"`
	Recv Win    `json:"recv"`
	A    Win    `json:"a"`
	Same bool   `json:"same,omitempty"`
	Tr   int    `json:"tr"` // 0: a, 1: a.T(), 2: a.H()
	Seed uint64 `json:"seed"`
}

func buildC(w Win, B []complex128) *mat.CDense {
	p := mat.NewCDense(w.PR, w.PS, B[w.Base:w.Base+w.PR*w.PS])
	return p.Slice(w.I, w.I+w.R, w.J, w.J+w.C).(*mat.CDense)
}

func sameC(a, b complex128) bool {
	return math.Float64bits(real(a)) == math.Float64bits(real(b)) && math.Float64bits(imag(a)) == math.Float64bits(imag(b))
}

func checkCDense(c CCase) *vk.Failure {
	if c.Recv.K != "D" || c.A.K != "D" || !c.Recv.valid(c.L) || (!c.Same && !c.A.valid(c.L)) || c.Tr < 0 || c.Tr > 2 {
		vk.Inconclusive("invalid-case")
		return nil
	}
	rnd := vk.NewSplitMix(c.Seed ^ 0xc0de)
	B0 := make([]complex128, c.L)
	p := rnd.Perm(c.L)
	for i := range B0 {
		B0[i] = complex(float64(p[i]+1), float64(-(p[i]+1)*3-rnd.Intn(2)))
	}
	run := func(shared bool) (B, A []complex128, res vk.Result) {
		B = append([]complex128(nil), B0...)
		recv := buildC(c.Recv, B)
		var a mat.CMatrix
		switch {
		case c.Same && shared:
			a = recv
		case c.Same:
			A = append([]complex128(nil), B0...)
			a = buildC(c.Recv, A)
		case shared:
			a = buildC(c.A, B)
		default:
			A = append([]complex128(nil), B0...)
			a = buildC(c.A, A)
		}
		switch c.Tr {
		case 1:
			a = a.(*mat.CDense).T()
		case 2:
			a = a.(*mat.CDense).H()
		}
		res = vk.Call(func() {
			if c.Op == "Conj" {
				recv.Conj(a)
			} else {
				recv.Copy(a)
			}
		})
		return
	}
	Bref, _, ref := run(false)
	if ref.Outcome != vk.Returned {
		vk.Inconclusive("unaliased-call-panics:C" + c.Op)
		return nil
	}
	lab := "a" + []string{"", "T", "H"}[c.Tr]
	expect, relClass, strideRel := expMustNot, "same", "same"
	if !c.Same {
		ri := relate(c.Recv, c.A, c.L)
		expect, relClass, strideRel = ri.expect, ri.class, ri.strideRel
	}
	if c.Op == "Copy" && expect == expMustPanic {
		// Copier: copies from an aliasing source unless it is transposed.
		expect = expMustNot
		if c.Tr != 0 || strideRel == "mixed" {
			// transposed aliasing sources are documented to panic; with
			// different strides the general rule (region panic) is accepted.
			expect = expEither
		}
	}
	if c.Op == "Copy" && c.Same && c.Tr != 0 {
		expect = expEither
	}
	vk.Class("op=C" + c.Op)
	vk.Class("rel=" + relClass + "/" + strideRel)
	vk.NonTrivial("C"+c.Op, lab, relClass, strideRel, c.Same)
	vk.Sample("cdense", c)

	B, _, res := run(true)
	out := classify(res)
	desc := fmt.Sprintf("CDense.%s tr=%d L=%d seed=%d recv=%v a=%v same=%v relation=%s/%s outcome=%s %q", c.Op, c.Tr, c.L, c.Seed, c.Recv, c.A, c.Same, relClass, strideRel, res.Outcome, res.Text)
	fail := func(fam, format string, args ...any) *vk.Failure {
		key := "C" + c.Op + "." + lab + "/" + fam
		switch {
		case c.Op == "Copy" && (!c.Same || c.Tr != 0) && inFam(fam, famResultWrong, famOverlapCorrupt, famIdentityWrong):
			key = "defect/cdense-copy-no-overlap-handling"
		case fam != famIdentityReject && fam != famIdentityWrong:
			key += ":" + strideRel
		}
		return vk.Failf(key, "[C%s.%s/%s] "+format+": %s", append(append([]any{c.Op, lab, fam}, args...), desc)...)
	}
	switch {
	case res.Outcome == vk.RuntimeFault:
		return fail(famRuntimeFault, "runtime fault")
	case res.Outcome == vk.PackagePanic && !out.region:
		return fail(famOtherPanic, "non-region panic")
	case out.region:
		vk.Class("outcome=region-panic")
		if expect == expMustNot {
			if c.Same {
				return fail(famIdentityReject, "region panic although the operand is the receiver")
			}
			return fail(famDisjointReject, "region panic without element overlap")
		}
		for k := range B {
			if !sameC(B[k], B0[k]) {
				return fail(famMutatedBefore, "backing[%d] changed before the region panic", k)
			}
		}
		return nil
	}
	vk.Class("outcome=returned")
	ru, _ := c.Recv.sets(c.L)
	corrupt, outside := -1, -1
	for k := range B {
		if ru.has(k) {
			if corrupt < 0 && !sameC(B[k], Bref[k]) {
				corrupt = k
			}
		} else if outside < 0 && !sameC(B[k], B0[k]) {
			outside = k
		}
	}
	switch {
	case expect == expMustPanic && (corrupt >= 0 || outside >= 0):
		return fail(famOverlapCorrupt, "overlapping operand accepted and result corrupted (receiver index %d, outside index %d)", corrupt, outside)
	case expect == expMustPanic:
		return fail(famOverlapAccepted, "overlapping operand accepted")
	case corrupt >= 0 && c.Same:
		return fail(famIdentityWrong, "backing[%d]=%v, with the operand cloned first %v", corrupt, B[corrupt], Bref[corrupt])
	case corrupt >= 0:
		return fail(famResultWrong, "backing[%d]=%v, unaliased %v", corrupt, B[corrupt], Bref[corrupt])
	case outside >= 0:
		return fail(famWroteOutside, "backing[%d] changed from %v to %v", outside, B0[outside], B[outside])
	}
	return nil
}

func cdenseCases(P int) []CCase {
	L := P * P
	recvs := denseWindows(0, P, P)
	aliases := append([]Win(nil), recvs...)
	if P == 4 {
		aliases = append(aliases, denseWindows(1, 3, 5)...)
		aliases = append(aliases, denseWindows(0, 5, 3)...)
	} else {
		aliases = append(aliases, denseWindows(1, 4, 6)...)
		aliases = append(aliases, denseWindows(0, 6, 4)...)
	}
	var cases []CCase
	for _, op := range []string{"Conj", "Copy"} {
		for tr := 0; tr <= 2; tr++ {
			for _, r := range recvs {
				// identity
				if tr == 0 || r.R == r.C || op == "Copy" {
					cases = append(cases, CCase{Op: op, L: L, Recv: r, A: r, Same: true, Tr: tr})
				}
				for _, a := range aliases {
					ar, ac := a.R, a.C
					if tr != 0 {
						ar, ac = ac, ar
					}
					if op == "Conj" && (ar != r.R || ac != r.C) {
						continue
					}
					if op == "Copy" && (a.R > 3 || a.C > 3) && (ar != r.R || ac != r.C) {
						continue // Copy: all small shapes, equal shapes beyond
					}
					cases = append(cases, CCase{Op: op, L: L, Recv: r, A: a, Tr: tr})
				}
			}
		}
	}
	return cases
}

func TestCDense(t *testing.T) {
	cases := cdenseCases(vk.Pick(4, 5))
	vk.Enumerate(t, "cdense", len(cases), func(i int) CCase {
		c := cases[i]
		c.Seed = uint64(i)*0x9e3779b97f4a7c15 + 7
		return c
	}, checkCDense)
}
