package c05

import (
	"gonum.org/v1/gonum/mat"
)

// opDef describes one receiver-taking method.
type opDef struct {
	Name string
	// Recv is the receiver type: 'D' Dense, 'V' VecDense, 'S' SymDense, 'T' TriDense.
	Recv byte
	// Slots lists the matrix-valued parameters: 'M' Matrix, 'V' Vector,
	// 'S' Symmetric, 'T' Triangular.
	Slots string
	// NFree returns the number of values of the free shape parameter for a
	// geometry of parent size P (nil: 1).
	NFree func(P int) int
	// Shapes returns the effective dimensions every slot must have for a
	// receiver of shape rr x rc and free parameter value free.
	Shapes func(rr, rc, free, P int) ([][2]int, bool)
	// NVar is the number of scalar variants (0: 1).
	NVar int
	// Call performs the method call.
	Call func(recv mat.Matrix, a []mat.Matrix, v int)
	// NonSing lists slots whose square operands are made diagonally dominant.
	NonSing []int
	// CopyLike: 1 = documented to copy from an aliasing source (Copier
	// documentation: must return with memmove semantics); 2 = copy method
	// without that documentation (a region panic is accepted as well).
	CopyLike int
	// Tol compares results with a small relative tolerance instead of
	// bit-for-bit (factorisation based methods).
	Tol bool
	// Small restricts data to {-2,-1,1,2}.
	Small bool
	// NoSame: the method rejects receiver == operand by documentation/shape.
	NoSame bool
	// VecT: Vector parameters accept x.TVec() (methods that only use Len/AtVec
	// or untranspose their vector arguments).
	VecT bool
	// NoT lists slots that cannot be passed transposed (the operand is the
	// value the method is called on, e.g. t in t.SolveTo(dst, ...)).
	NoT []int
	// SameSlots restricts pointer identity to the listed slots (nil: all).
}

func dn(m mat.Matrix) *mat.Dense    { return m.(*mat.Dense) }
func vc(m mat.Matrix) *mat.VecDense { return m.(*mat.VecDense) }
func sy(m mat.Matrix) *mat.SymDense { return m.(*mat.SymDense) }
func tr(m mat.Matrix) *mat.TriDense { return m.(*mat.TriDense) }
func asVec(m mat.Matrix) mat.Vector { return m.(mat.Vector) }
func asSym(m mat.Matrix) mat.Symmetric {
	return m.(mat.Symmetric)
}
func asTri(m mat.Matrix) mat.Triangular { return m.(mat.Triangular) }

func same2(rr, rc, _, _ int) ([][2]int, bool) { return [][2]int{{rr, rc}, {rr, rc}}, true }
func same1(rr, rc, _, _ int) ([][2]int, bool) { return [][2]int{{rr, rc}}, true }
func freeP(P int) int                         { return P }
func freePP(P int) int                        { return P * P }

var applyFn = func(i, j int, v float64) float64 { return 2*v + float64(100*i+10*j) }

var powers = []int{0, 1, 2, 3, 6}
var alphas = []float64{2, 1, -1, 0}

var ops = []*opDef{
	// ---- Dense -----------------------------------------------------------
	{Name: "Add", Recv: 'D', Slots: "MM", Shapes: same2,
		Call: func(r mat.Matrix, a []mat.Matrix, _ int) { dn(r).Add(a[0], a[1]) }},
	{Name: "Sub", Recv: 'D', Slots: "MM", Shapes: same2,
		Call: func(r mat.Matrix, a []mat.Matrix, _ int) { dn(r).Sub(a[0], a[1]) }},
	{Name: "MulElem", Recv: 'D', Slots: "MM", Shapes: same2,
		Call: func(r mat.Matrix, a []mat.Matrix, _ int) { dn(r).MulElem(a[0], a[1]) }},
	{Name: "DivElem", Recv: 'D', Slots: "MM", Shapes: same2,
		Call: func(r mat.Matrix, a []mat.Matrix, _ int) { dn(r).DivElem(a[0], a[1]) }},
	{Name: "Mul", Recv: 'D', Slots: "MM", NFree: freeP,
		Shapes: func(rr, rc, k, _ int) ([][2]int, bool) { return [][2]int{{rr, k + 1}, {k + 1, rc}}, true },
		Call:   func(r mat.Matrix, a []mat.Matrix, _ int) { dn(r).Mul(a[0], a[1]) }},
	{Name: "Scale", Recv: 'D', Slots: "M", Shapes: same1,
		Call: func(r mat.Matrix, a []mat.Matrix, _ int) { dn(r).Scale(3, a[0]) }},
	{Name: "Apply", Recv: 'D', Slots: "M", Shapes: same1,
		Call: func(r mat.Matrix, a []mat.Matrix, _ int) { dn(r).Apply(applyFn, a[0]) }},
	{Name: "Copy", Recv: 'D', Slots: "M", NFree: freePP, CopyLike: 1,
		Shapes: func(rr, rc, k, P int) ([][2]int, bool) { return [][2]int{{k%P + 1, k/P + 1}}, true },
		Call:   func(r mat.Matrix, a []mat.Matrix, _ int) { dn(r).Copy(a[0]) }},
	{Name: "Product", Recv: 'D', Slots: "MMM", NFree: freeP,
		Shapes: func(rr, rc, k, P int) ([][2]int, bool) {
			k1, k2 := k+1, (k+1)%P+1
			return [][2]int{{rr, k1}, {k1, k2}, {k2, rc}}, true
		},
		Call: func(r mat.Matrix, a []mat.Matrix, _ int) { dn(r).Product(a[0], a[1], a[2]) }},
	{Name: "Pow", Recv: 'D', Slots: "M", NVar: len(powers),
		Shapes: func(rr, rc, _, _ int) ([][2]int, bool) { return [][2]int{{rr, rc}}, rr == rc },
		Call:   func(r mat.Matrix, a []mat.Matrix, v int) { dn(r).Pow(a[0], powers[v]) }},
	{Name: "Exp", Recv: 'D', Slots: "M", Tol: true, Small: true,
		Shapes: func(rr, rc, _, _ int) ([][2]int, bool) { return [][2]int{{rr, rc}}, rr == rc },
		Call:   func(r mat.Matrix, a []mat.Matrix, _ int) { dn(r).Exp(a[0]) }},
	{Name: "Inverse", Recv: 'D', Slots: "M", Tol: true, NonSing: []int{0},
		Shapes: func(rr, rc, _, _ int) ([][2]int, bool) { return [][2]int{{rr, rc}}, rr == rc },
		Call:   func(r mat.Matrix, a []mat.Matrix, _ int) { _ = dn(r).Inverse(a[0]) }},
	{Name: "Solve", Recv: 'D', Slots: "MM", NFree: freeP, Tol: true, NonSing: []int{0},
		Shapes: func(rr, rc, k, _ int) ([][2]int, bool) { return [][2]int{{k + 1, rr}, {k + 1, rc}}, true },
		Call:   func(r mat.Matrix, a []mat.Matrix, _ int) { _ = dn(r).Solve(a[0], a[1]) }},
	{Name: "RankOne", VecT: true, Recv: 'D', Slots: "MVV",
		Shapes: func(rr, rc, _, _ int) ([][2]int, bool) { return [][2]int{{rr, rc}, {rr, 1}, {rc, 1}}, true },
		Call:   func(r mat.Matrix, a []mat.Matrix, _ int) { dn(r).RankOne(a[0], 2, asVec(a[1]), asVec(a[2])) }},
	{Name: "Outer", VecT: true, Recv: 'D', Slots: "VV",
		Shapes: func(rr, rc, _, _ int) ([][2]int, bool) { return [][2]int{{rr, 1}, {rc, 1}}, true },
		Call:   func(r mat.Matrix, a []mat.Matrix, _ int) { dn(r).Outer(2, asVec(a[0]), asVec(a[1])) }},
	{Name: "Stack", Recv: 'D', Slots: "MM", NFree: freeP, NoSame: true,
		Shapes: func(rr, rc, k, _ int) ([][2]int, bool) {
			ar := k + 1
			return [][2]int{{ar, rc}, {rr - ar, rc}}, ar < rr
		},
		Call: func(r mat.Matrix, a []mat.Matrix, _ int) { dn(r).Stack(a[0], a[1]) }},
	{Name: "Augment", Recv: 'D', Slots: "MM", NFree: freeP, NoSame: true,
		Shapes: func(rr, rc, k, _ int) ([][2]int, bool) {
			ac := k + 1
			return [][2]int{{rr, ac}, {rr, rc - ac}}, ac < rc
		},
		Call: func(r mat.Matrix, a []mat.Matrix, _ int) { dn(r).Augment(a[0], a[1]) }},
	{Name: "Kronecker", Recv: 'D', Slots: "MM", NFree: freePP,
		Shapes: func(rr, rc, k, P int) ([][2]int, bool) {
			ra, ca := k%P+1, k/P+1
			if rr%ra != 0 || rc%ca != 0 {
				return nil, false
			}
			return [][2]int{{ra, ca}, {rr / ra, rc / ca}}, true
		},
		Call: func(r mat.Matrix, a []mat.Matrix, _ int) { dn(r).Kronecker(a[0], a[1]) }},

	// ---- VecDense --------------------------------------------------------
	{Name: "AddVec", VecT: true, Recv: 'V', Slots: "VV", Shapes: same2,
		Call: func(r mat.Matrix, a []mat.Matrix, _ int) { vc(r).AddVec(asVec(a[0]), asVec(a[1])) }},
	{Name: "SubVec", VecT: true, Recv: 'V', Slots: "VV", Shapes: same2,
		Call: func(r mat.Matrix, a []mat.Matrix, _ int) { vc(r).SubVec(asVec(a[0]), asVec(a[1])) }},
	{Name: "MulElemVec", VecT: true, Recv: 'V', Slots: "VV", Shapes: same2,
		Call: func(r mat.Matrix, a []mat.Matrix, _ int) { vc(r).MulElemVec(asVec(a[0]), asVec(a[1])) }},
	{Name: "DivElemVec", VecT: true, Recv: 'V', Slots: "VV", Shapes: same2,
		Call: func(r mat.Matrix, a []mat.Matrix, _ int) { vc(r).DivElemVec(asVec(a[0]), asVec(a[1])) }},
	{Name: "ScaleVec", VecT: true, Recv: 'V', Slots: "V", Shapes: same1,
		Call: func(r mat.Matrix, a []mat.Matrix, _ int) { vc(r).ScaleVec(3, asVec(a[0])) }},
	{Name: "AddScaledVec", VecT: true, Recv: 'V', Slots: "VV", Shapes: same2, NVar: len(alphas),
		Call: func(r mat.Matrix, a []mat.Matrix, v int) { vc(r).AddScaledVec(asVec(a[0]), alphas[v], asVec(a[1])) }},
	{Name: "CopyVec", VecT: true, Recv: 'V', Slots: "V", NFree: freeP, CopyLike: 2,
		Shapes: func(rr, rc, k, _ int) ([][2]int, bool) { return [][2]int{{k + 1, 1}}, true },
		Call:   func(r mat.Matrix, a []mat.Matrix, _ int) { vc(r).CopyVec(asVec(a[0])) }},
	{Name: "MulVec", Recv: 'V', Slots: "MV", NFree: freeP,
		Shapes: func(rr, rc, k, _ int) ([][2]int, bool) { return [][2]int{{rr, k + 1}, {k + 1, 1}}, true },
		Call:   func(r mat.Matrix, a []mat.Matrix, _ int) { vc(r).MulVec(a[0], asVec(a[1])) }},
	{Name: "SolveVec", Recv: 'V', Slots: "MV", NFree: freeP, Tol: true, NonSing: []int{0},
		Shapes: func(rr, rc, k, _ int) ([][2]int, bool) { return [][2]int{{k + 1, rr}, {k + 1, 1}}, true },
		Call:   func(r mat.Matrix, a []mat.Matrix, _ int) { _ = vc(r).SolveVec(a[0], asVec(a[1])) }},

	// ---- SymDense --------------------------------------------------------
	{Name: "AddSym", Recv: 'S', Slots: "SS", Shapes: same2,
		Call: func(r mat.Matrix, a []mat.Matrix, _ int) { sy(r).AddSym(asSym(a[0]), asSym(a[1])) }},
	{Name: "CopySym", Recv: 'S', Slots: "S", NFree: freeP, CopyLike: 2,
		Shapes: func(rr, rc, k, _ int) ([][2]int, bool) { return [][2]int{{k + 1, k + 1}}, true },
		Call:   func(r mat.Matrix, a []mat.Matrix, _ int) { sy(r).CopySym(asSym(a[0])) }},
	{Name: "ScaleSym", Recv: 'S', Slots: "S", Shapes: same1,
		Call: func(r mat.Matrix, a []mat.Matrix, _ int) { sy(r).ScaleSym(3, asSym(a[0])) }},
	{Name: "SymRankOne", VecT: true, Recv: 'S', Slots: "SV",
		Shapes: func(rr, rc, _, _ int) ([][2]int, bool) { return [][2]int{{rr, rr}, {rr, 1}}, true },
		Call:   func(r mat.Matrix, a []mat.Matrix, _ int) { sy(r).SymRankOne(asSym(a[0]), 2, asVec(a[1])) }},
	{Name: "SymRankK", Recv: 'S', Slots: "SM", NFree: freeP,
		Shapes: func(rr, rc, k, _ int) ([][2]int, bool) { return [][2]int{{rr, rr}, {rr, k + 1}}, true },
		Call:   func(r mat.Matrix, a []mat.Matrix, _ int) { sy(r).SymRankK(asSym(a[0]), 2, a[1]) }},
	{Name: "SymOuterK", Recv: 'S', Slots: "M", NFree: freeP,
		Shapes: func(rr, rc, k, _ int) ([][2]int, bool) { return [][2]int{{rr, k + 1}}, true },
		Call:   func(r mat.Matrix, a []mat.Matrix, _ int) { sy(r).SymOuterK(2, a[0]) }},
	{Name: "RankTwo", VecT: true, Recv: 'S', Slots: "SVV",
		Shapes: func(rr, rc, _, _ int) ([][2]int, bool) { return [][2]int{{rr, rr}, {rr, 1}, {rr, 1}}, true },
		Call: func(r mat.Matrix, a []mat.Matrix, _ int) {
			sy(r).RankTwo(asSym(a[0]), 2, asVec(a[1]), asVec(a[2]))
		}},
	{Name: "SubsetSym", Recv: 'S', Slots: "S", NFree: freeP, NVar: 3,
		Shapes: func(rr, rc, k, _ int) ([][2]int, bool) { return [][2]int{{k + 1, k + 1}}, true },
		Call: func(r mat.Matrix, a []mat.Matrix, v int) {
			n, _ := r.Dims()
			na, _ := a[0].Dims()
			set := make([]int, n)
			for i := range set {
				switch v {
				case 0:
					set[i] = i % na
				case 1:
					set[i] = (na - 1 - i%na)
				default:
					set[i] = (2*i + 1) % na
				}
			}
			sy(r).SubsetSym(asSym(a[0]), set)
		}},

	// ---- TriDense --------------------------------------------------------
	// TriDense.Copy mishandles sources with fewer columns than rows (index out
	// of range / reads beyond the source's columns) independently of aliasing;
	// that belongs to the shape properties, so only square sources are used here.
	{Name: "TriCopy", Recv: 'T', Slots: "M", NFree: freeP, CopyLike: 1,
		Shapes: func(rr, rc, k, P int) ([][2]int, bool) { return [][2]int{{k + 1, k + 1}}, true },
		Call:   func(r mat.Matrix, a []mat.Matrix, _ int) { tr(r).Copy(a[0]) }},
	{Name: "ScaleTri", Recv: 'T', Slots: "T", Shapes: same1,
		Call: func(r mat.Matrix, a []mat.Matrix, _ int) { tr(r).ScaleTri(3, asTri(a[0])) }},
	{Name: "MulTri", Recv: 'T', Slots: "TT", Shapes: same2,
		Call: func(r mat.Matrix, a []mat.Matrix, _ int) { tr(r).MulTri(asTri(a[0]), asTri(a[1])) }},
	{Name: "InverseTri", Recv: 'T', Slots: "T", Shapes: same1, Tol: true, NonSing: []int{0},
		Call: func(r mat.Matrix, a []mat.Matrix, _ int) { _ = tr(r).InverseTri(asTri(a[0])) }},
}

// ---- SolveTo family: the destination dst plays the part of the receiver ----

// sysMatrix returns a well conditioned m x n system matrix with integer entries.
func sysMatrix(m, n int) *mat.Dense {
	a := mat.NewDense(m, n, nil)
	for i := 0; i < m; i++ {
		for j := 0; j < n; j++ {
			v := float64(1 + (i+2*j)%3)
			if i == j {
				v = float64(4*(m+n) + i)
			}
			a.Set(i, j, v)
		}
	}
	return a
}

func spdMatrix(n int) *mat.SymDense {
	a := mat.NewSymDense(n, nil)
	for i := 0; i < n; i++ {
		for j := i; j < n; j++ {
			v := 1.0
			if i == j {
				v = float64(2*n + i + 2)
			}
			a.SetSym(i, j, v)
		}
	}
	return a
}

func sameShape(rr, rc, _, _ int) ([][2]int, bool) { return [][2]int{{rr, rc}}, true }

func init() {
	ops = append(ops,
		&opDef{Name: "LU.SolveTo", Recv: 'D', Slots: "M", Shapes: sameShape, NVar: 2, Tol: true,
			Call: func(r mat.Matrix, a []mat.Matrix, v int) {
				n, _ := r.Dims()
				var lu mat.LU
				lu.Factorize(sysMatrix(n, n))
				_ = lu.SolveTo(dn(r), v == 1, a[0])
			}},
		&opDef{Name: "Cholesky.SolveTo", Recv: 'D', Slots: "M", Shapes: sameShape, Tol: true,
			Call: func(r mat.Matrix, a []mat.Matrix, _ int) {
				n, _ := r.Dims()
				var ch mat.Cholesky
				ch.Factorize(spdMatrix(n))
				_ = ch.SolveTo(dn(r), a[0])
			}},
		&opDef{Name: "PivotedCholesky.SolveTo", Recv: 'D', Slots: "M", Shapes: sameShape, Tol: true,
			Call: func(r mat.Matrix, a []mat.Matrix, _ int) {
				n, _ := r.Dims()
				var ch mat.PivotedCholesky
				ch.Factorize(spdMatrix(n), -1)
				_ = ch.SolveTo(dn(r), a[0])
			}},
		// QR: A is (n+f) x n, dst n x k, b (n+f) x k.
		&opDef{Name: "QR.SolveTo", Recv: 'D', Slots: "M", NFree: func(int) int { return 3 }, Tol: true,
			Shapes: func(rr, rc, f, _ int) ([][2]int, bool) { return [][2]int{{rr + f, rc}}, true },
			Call: func(r mat.Matrix, a []mat.Matrix, _ int) {
				n, _ := r.Dims()
				m, _ := a[0].Dims()
				var qr mat.QR
				qr.Factorize(sysMatrix(m, n))
				_ = qr.SolveTo(dn(r), false, a[0])
			}},
		// LQ: A is (n-f) x n, dst n x k, b (n-f) x k.
		&opDef{Name: "LQ.SolveTo", Recv: 'D', Slots: "M", NFree: func(int) int { return 3 }, Tol: true,
			Shapes: func(rr, rc, f, _ int) ([][2]int, bool) { return [][2]int{{rr - f, rc}}, rr-f >= 1 },
			Call: func(r mat.Matrix, a []mat.Matrix, _ int) {
				n, _ := r.Dims()
				m, _ := a[0].Dims()
				var lq mat.LQ
				lq.Factorize(sysMatrix(m, n))
				_ = lq.SolveTo(dn(r), false, a[0])
			}},
		// t.SolveTo(dst, trans, b): the triangular matrix of the system is an operand too.
		&opDef{Name: "TriDense.SolveTo", Recv: 'D', Slots: "TM", NVar: 2, Tol: true, NonSing: []int{0}, NoT: []int{0}, NoSame: false,
			Shapes: func(rr, rc, _, _ int) ([][2]int, bool) { return [][2]int{{rr, rr}, {rr, rc}}, true },
			Call: func(r mat.Matrix, a []mat.Matrix, v int) { _ = tr(a[0]).SolveTo(dn(r), v == 1, a[1]) }},
		&opDef{Name: "LU.SolveVecTo", Recv: 'V', Slots: "V", Shapes: sameShape, NVar: 2, Tol: true,
			Call: func(r mat.Matrix, a []mat.Matrix, v int) {
				n, _ := r.Dims()
				var lu mat.LU
				lu.Factorize(sysMatrix(n, n))
				_ = lu.SolveVecTo(vc(r), v == 1, asVec(a[0]))
			}},
		&opDef{Name: "Cholesky.SolveVecTo", Recv: 'V', Slots: "V", Shapes: sameShape, Tol: true,
			Call: func(r mat.Matrix, a []mat.Matrix, _ int) {
				n, _ := r.Dims()
				var ch mat.Cholesky
				ch.Factorize(spdMatrix(n))
				_ = ch.SolveVecTo(vc(r), asVec(a[0]))
			}},
		&opDef{Name: "PivotedCholesky.SolveVecTo", Recv: 'V', Slots: "V", Shapes: sameShape, Tol: true,
			Call: func(r mat.Matrix, a []mat.Matrix, _ int) {
				n, _ := r.Dims()
				var ch mat.PivotedCholesky
				ch.Factorize(spdMatrix(n), -1)
				_ = ch.SolveVecTo(vc(r), asVec(a[0]))
			}},
		&opDef{Name: "QR.SolveVecTo", Recv: 'V', Slots: "V", NFree: func(int) int { return 3 }, Tol: true,
			Shapes: func(rr, rc, f, _ int) ([][2]int, bool) { return [][2]int{{rr + f, 1}}, true },
			Call: func(r mat.Matrix, a []mat.Matrix, _ int) {
				n, _ := r.Dims()
				m, _ := a[0].Dims()
				var qr mat.QR
				qr.Factorize(sysMatrix(m, n))
				_ = qr.SolveVecTo(vc(r), false, asVec(a[0]))
			}},
		&opDef{Name: "LQ.SolveVecTo", Recv: 'V', Slots: "V", NFree: func(int) int { return 3 }, Tol: true,
			Shapes: func(rr, rc, f, _ int) ([][2]int, bool) { return [][2]int{{rr - f, 1}}, rr-f >= 1 },
			Call: func(r mat.Matrix, a []mat.Matrix, _ int) {
				n, _ := r.Dims()
				m, _ := a[0].Dims()
				var lq mat.LQ
				lq.Factorize(sysMatrix(m, n))
				_ = lq.SolveVecTo(vc(r), false, asVec(a[0]))
			}},
	)
	for _, o := range ops {
		opByName[o.Name] = o
	}
}

var opByName = func() map[string]*opDef {
	m := map[string]*opDef{}
	for _, o := range ops {
		m[o.Name] = o
	}
	return m
}()

func (o *opDef) nfree(P int) int {
	if o.NFree == nil {
		return 1
	}
	return o.NFree(P)
}

func (o *opDef) nvar() int {
	if o.NVar <= 0 {
		return 1
	}
	return o.NVar
}

// recvKinds returns the window kinds that can act as the receiver.
func (o *opDef) recvKinds() []string {
	switch o.Recv {
	case 'D':
		return []string{"D"}
	case 'V':
		return []string{"V"}
	case 'S':
		return []string{"S"}
	default:
		return []string{"U", "L"}
	}
}

// slotKinds returns the window kinds that can fill a slot.
func slotKinds(s byte) []string {
	switch s {
	case 'M':
		return []string{"D", "V", "S", "U", "L"}
	case 'V':
		return []string{"V"}
	case 'S':
		return []string{"S"}
	default:
		return []string{"U", "L"}
	}
}

// canT reports whether the operand of kind k in a slot of type s can be passed
// transposed (T() for Matrix slots, TTri() for Triangular slots).
func (o *opDef) canT(slot int, k string) bool {
	for _, x := range o.NoT {
		if x == slot {
			return false
		}
	}
	switch o.Slots[slot] {
	case 'M':
		return k != "S" // SymDense.T() returns the receiver itself
	case 'T':
		return true
	case 'V':
		return o.VecT
	}
	return false
}
