package c05

// Attribution of failures to defects of the unchanged tree that are already
// recorded in /verif/known_findings.jsonl. A failure whose (method, operand,
// violation family, geometry) matches one of the predicates below is reported
// under the key "defect/<id>"; every other failure keeps its specific key
// "<Method>.<slot><kind>[T]/<family>[:<stride relation>]" and is therefore still
// reported as a violation. The predicates are deliberately narrow: they name
// the method, the operand kind/position and the violation family that the
// defect produces, and for the VecDense overlap test also the exact arithmetic
// condition under which gonum's test differs from the correct one.

const (
	famOverlapAccepted = "overlap-accepted"     // overlapping operand, call returned, result equals the unaliased one
	famOverlapCorrupt  = "overlap-corrupt"      // overlapping operand, call returned, result differs / other elements changed
	famDisjointReject  = "disjoint-rejected"    // region panic although no element is shared (same stride or separate ranges)
	famIdentityReject  = "identity-rejected"    // region panic although the operand is the receiver (or its T())
	famIdentityWrong   = "identity-wrong"       // receiver used as operand gives a different result than a cloned operand
	famResultWrong     = "result-wrong"         // call returned where that is allowed, result differs from the unaliased one
	famMutatedBefore   = "mutated-before-panic" // region panic, but shared storage was already written
	famWroteOutside    = "wrote-outside-receiver"
	famFreshMutated    = "fresh-operand-mutated"
	famRuntimeFault    = "runtime-fault"
	famOtherPanic      = "unexpected-panic"
)

func isQ(k string) bool { return k == "S" || k == "U" || k == "L" }

func inFam(f string, fs ...string) bool {
	for _, x := range fs {
		if f == x {
			return true
		}
	}
	return false
}

// vecOffAndInc reports whether gonum's (*VecDense).checkOverlap, which tests
// off&inc == 0 where off%inc == 0 is meant, decides differently from the exact
// test for the two vectors.
func vecOffAndInc(r, o Win) bool {
	if r.K != "V" || o.K != "V" || r.stride() != o.stride() || r.stride() <= 1 {
		return false
	}
	rlo, rhi := r.span()
	olo, ohi := o.span()
	if !(rlo < ohi && olo < rhi) || rlo == olo {
		return false
	}
	// gonum uses the signed offset of the operand relative to the receiver
	// without taking its absolute value.
	off := olo - rlo
	inc := r.stride()
	return (off&inc == 0) != (off%inc == 0)
}

// rootCause returns the id of the recorded defect that explains a failure of
// family fam for operand i of the case, or "".
func rootCause(op *opDef, c Case, i int, fam string) string {
	a := c.Args[i]
	kind := a.W.K
	if a.Same {
		kind = c.Recv.K
	}
	overlap := inFam(fam, famOverlapAccepted, famOverlapCorrupt)
	otherDense := func() bool {
		for j, b := range c.Args {
			if j != i && (b.Same || b.W.K != "D") {
				return false
			}
		}
		return true
	}
	anyT := false
	for _, b := range c.Args {
		anyT = anyT || (b.Buf == 0 && b.T)
	}
	switch op.Name {
	case "AddVec", "SubVec", "MulElemVec", "DivElemVec", "ScaleVec", "AddScaledVec", "MulVec", "SolveVec":
		// (cases with a TVec() operand have causes of their own, see below)
		if !anyT && !a.Same && kind == "V" && (overlap || fam == famDisjointReject) && vecOffAndInc(c.Recv, a.W) {
			// SolveVec never checks its matrix argument (see below); its
			// vector argument goes through the VecDense test.
			if op.Name != "SolveVec" || i == 1 {
				return "vecdense-checkoverlap-off-and-inc"
			}
		}
	}
	hasSame := false
	for _, b := range c.Args {
		hasSame = hasSame || b.Same
	}
	if (op.Name == "Mul" || op.Name == "MulVec") && hasSame && !a.Same && fam == famOverlapAccepted {
		// the receiver is also an operand: the product is formed in a
		// workspace and the remaining operand is checked against that
		// workspace (MulVec) or not at all (Mul: `if restore == nil`).
		return "mul-identity-skips-check-of-other-operand"
	}
	switch op.Name {
	case "AddVec", "SubVec", "MulElemVec", "DivElemVec", "AddScaledVec":
		if a.Same && a.T && fam == famIdentityReject {
			// the operand is untransposed for the data but compared with
			// the receiver while still wrapped (`v != a`).
			return "vec-identity-transposed-rejected"
		}
	case "ScaleVec", "CopyVec":
		if !a.Same && a.T && (overlap || fam == famResultWrong) {
			// a TransposeVec is not a RawVectorer: no overlap check, no
			// direction awareness.
			return "vec-transposed-operand-unchecked"
		}
	}
	switch op.Name {
	case "DivElemVec":
		strided := c.Recv.stride() != 1
		for _, b := range c.Args {
			if !b.Same && b.W.stride() != 1 {
				strided = true
			}
		}
		if a.Same && fam == famIdentityWrong && strided {
			return "divelemvec-missing-return"
		}
	case "Mul":
		if !a.Same && isQ(kind) && overlap && otherDense() {
			return "dense-mul-symtri-operand-unchecked"
		}
	case "Product":
		if !a.Same && fam == famOverlapAccepted {
			return "dense-product-no-overlap-check"
		}
	case "Solve", "SolveVec":
		if a.Same {
			break
		}
		if i == 0 && (fam == famOverlapAccepted || (overlap && (kind == "U" || kind == "L"))) {
			return "solve-matrix-operand-unchecked"
		}
		if op.Name == "Solve" && i == 1 && overlap {
			// LU.SolveTo and TriDense.SolveTo do check a RawMatrixer (Dense)
			// right-hand side; QR/LQ (non-square a) check nothing.
			ar, ac := c.Args[0].W.dims()
			if c.Args[0].Same {
				ar, ac = c.Recv.dims()
			}
			if kind != "D" || ar != ac {
				return "solve-rhs-unchecked"
			}
		}
	case "Stack", "Augment":
		if !a.Same && (overlap || fam == famMutatedBefore) {
			return "dense-stack-augment-no-overlap-check"
		}
	case "Kronecker":
		if a.Same && inFam(fam, famIdentityReject, famIdentityWrong) {
			return "dense-kronecker-identity"
		}
		if !a.Same && i == 0 && (overlap || fam == famMutatedBefore) {
			return "dense-kronecker-overlap-check-incomplete"
		}
		if !a.Same && i == 1 && (fam == famMutatedBefore || (overlap && a.T && kind != "D")) {
			return "dense-kronecker-overlap-check-incomplete"
		}
	case "Pow", "Exp":
		n := -1
		if op.Name == "Pow" {
			n = powers[c.Var]
		}
		if !a.Same && overlap && n != 2 { // Pow(a, 2) is Mul, which checks
			return "dense-pow-exp-no-overlap-check"
		}
		if a.Same && a.T && fam == famIdentityReject && (n == -1 || n == 1) {
			return "identity-transposed-rejected"
		}
	case "RankOne":
		if a.Same && a.T && i == 0 && fam == famIdentityReject {
			return "identity-transposed-rejected"
		}
		if !a.Same && i == 0 && kind == "V" && overlap {
			return "dense-rankone-vector-matrix-unchecked"
		}
	case "Inverse":
		if !a.Same && kind == "V" && fam == famOverlapAccepted {
			return "dense-inverse-vector-operand-unchecked"
		}
	case "Scale", "Apply":
		if !a.Same && a.T && kind != "D" && overlap {
			return "transposed-nondense-operand-unchecked"
		}
	case "ScaleTri", "InverseTri":
		if !a.Same && a.T && overlap {
			return "transposed-nondense-operand-unchecked"
		}
	case "SymRankK":
		if !a.Same && i == 1 && overlap {
			return "symdense-rankk-outerk-operand-unchecked"
		}
	case "SymOuterK":
		if !a.Same && (a.T || kind == "V") && overlap {
			return "symdense-rankk-outerk-operand-unchecked"
		}
	case "Outer":
		if !a.Same && fam == famMutatedBefore {
			return "writes-before-overlap-check"
		}
	case "SymRankOne":
		if !a.Same && i == 1 && fam == famMutatedBefore {
			return "writes-before-overlap-check"
		}
	case "Copy":
		if !a.Same && !a.T && (kind == "D" || kind == "V") && fam == famResultWrong &&
			c.Recv.stride() != a.W.stride() {
			// the copy direction is chosen from the sign of the offset alone
			// (offset 0: nothing is copied), which is only right for equal
			// strides.
			return "dense-copy-overlap-different-stride"
		}
	case "CopyVec", "CopySym":
		if !a.Same && fam == famResultWrong {
			return "copy-forward-only"
		}
	case "TriCopy":
		if !a.Same && fam == famResultWrong {
			return "tridense-copy-forward-only"
		}
	}
	switch op.Name {
	case "Cholesky.SolveTo", "PivotedCholesky.SolveTo":
		// no handling of an aliasing right-hand side at all (LU.SolveTo has)
		if (!a.Same && fam == famOverlapAccepted) || (a.Same && a.T && fam == famIdentityReject) {
			return "cholesky-solveto-no-aliasing-handling"
		}
	case "QR.SolveTo", "LQ.SolveTo":
		if !a.Same && fam == famOverlapAccepted {
			return "qr-lq-solveto-rhs-unchecked"
		}
	case "LU.SolveTo":
		if !a.Same && kind == "V" && fam == famOverlapAccepted {
			return "solveto-vector-rhs-unchecked"
		}
	case "TriDense.SolveTo":
		if !a.Same && i == 1 && kind == "V" && fam == famOverlapAccepted {
			return "solveto-vector-rhs-unchecked"
		}
		if !a.Same && i == 0 && overlap {
			return "tridense-solveto-receiver-unchecked"
		}
	}
	if op.Name == "MulVec" && !a.Same && i == 0 && (kind == "U" || kind == "L") && fam == famMutatedBefore {
		return "writes-before-overlap-check"
	}
	return ""
}
