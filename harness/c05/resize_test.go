package c05

import (
	"fmt"
	"pgregory.net/rapid"
	"testing"

	"gonum.org/v1/gonum/mat"
	"verifharness/vk"
)

// RCase is one call of a method that gives the receiver a new size or new
// storage (CloneFromVec, CloneFrom, Grow, GrowSym, CDense.Grow, ReuseAs*) on a
// receiver that is a VIEW of a sentinel-filled parent: its data slice has
// spare capacity reaching into the parent and, for strided views, gaps that
// belong to the parent. The source, where there is one, is a window on the
// same backing array or a fresh matrix, shorter, equal or longer than the
// receiver (within and beyond the receiver's capacity).
type RCase struct {
	Op     string `json:"op"`
	L      int    `json:"l"`
	Recv   Win    `json:"recv"`
	Src    Win    `json:"src"`
	Shared bool   `json:"shared,omitempty"` // the source lies on the receiver's backing array
	Same   bool   `json:"same,omitempty"`   // the source is the receiver value itself (with T: its transpose)
	T      bool   `json:"t,omitempty"`      // the source is passed as T() / TVec()
	N1     int    `json:"n1,omitempty"`     // Grow: extra rows (GrowSym: extra size); ReuseAs: rows
	N2     int    `json:"n2,omitempty"`     // Grow: extra columns; ReuseAs: columns
	Seed   uint64 `json:"seed"`
}

func sentinel(L int, seed uint64) []float64 {
	rnd := vk.NewSplitMix(seed ^ 0x51de)
	p := rnd.Perm(L)
	b := make([]float64, L)
	for i := range b {
		b[i] = float64(p[i] + 1)
		if rnd.Intn(3) == 0 {
			b[i] = -b[i]
		}
	}
	return b
}

func checkResize(c RCase) *vk.Failure {
	hasSrc := c.Op == "CloneFromVec" || c.Op == "CloneFrom"
	okRecv := map[string]string{"CloneFromVec": "V", "CloneFrom": "D", "Grow": "D", "GrowSym": "S", "CGrow": "D",
		"ReuseAs": "D", "ReuseAsVec": "V", "ReuseAsSym": "S", "ReuseAsTri": "UL"}[c.Op]
	valid := okRecv != "" && c.L >= 1 && c.L <= 4096 && c.Recv.valid(c.L) && containsKind(okRecv, c.Recv.K) && c.N1 >= 0 && c.N2 >= 0 && c.N1 < 64 && c.N2 < 64
	if hasSrc {
		if c.Shared {
			valid = valid && c.Src.valid(c.L)
		} else {
			valid = valid && c.Src.valid(c.Src.Base+c.Src.PR*c.Src.PS+c.Src.I+c.Src.R)
		}
		if c.Op == "CloneFromVec" {
			valid = valid && c.Src.K == "V"
		}
		if c.T && c.Src.K == "S" {
			valid = false
		}
	}
	if !valid {
		vk.Inconclusive("invalid-case")
		return nil
	}
	vk.Class("op=" + c.Op)
	vk.Sample("resize", c)

	if c.Op == "CGrow" {
		return checkCGrow(c)
	}

	B0 := sentinel(c.L, c.Seed)
	B := clone(B0)
	recv := c.Recv.build(B)
	ru, _ := c.Recv.sets(c.L)

	var src mat.Matrix
	var priv0, priv []float64
	var want [][]float64 // the source's values before the call (after T)
	var su bits
	usedMeets := false
	if hasSrc {
		var sb []float64
		if c.Same {
			c.Src, c.Shared = c.Recv, true
		}
		if c.Same {
			src = recv
			sb = B0
			su, _ = c.Src.sets(c.L)
			usedMeets = true
		} else if c.Shared {
			src = c.Src.build(B)
			sb = B0
			su, _ = c.Src.sets(c.L)
			usedMeets = ru.meets(su)
		} else {
			n := c.Src.Base + c.Src.PR*c.Src.PS + c.Src.I + c.Src.R
			priv0 = make([]float64, n)
			rnd := vk.NewSplitMix(c.Seed ^ 0xf5e5)
			for i := range priv0 {
				priv0[i] = float64(100 + rnd.Intn(800))
			}
			priv = clone(priv0)
			src = c.Src.build(priv)
			sb = priv0
		}
		r, cc := c.Src.dims()
		want = make([][]float64, r)
		for i := range want {
			want[i] = make([]float64, cc)
			for j := range want[i] {
				v := sb[c.Src.idx(i, j)]
				if !c.Src.inUsed(i, j) {
					switch c.Src.K {
					case "S":
						v = sb[c.Src.idx(j, i)]
					default:
						v = 0
					}
				}
				want[i][j] = v
			}
		}
		if c.T {
			tw := make([][]float64, cc)
			for j := range tw {
				tw[j] = make([]float64, r)
				for i := range tw[j] {
					tw[j][i] = want[i][j]
				}
			}
			want = tw
			if c.Op == "CloneFromVec" {
				src = src.(*mat.VecDense).TVec()
			} else {
				src = src.T()
			}
		}
	}
	rel := "none"
	switch {
	case hasSrc && !c.Shared:
		rel = "fresh"
	case hasSrc && usedMeets:
		rel = "overlaps-receiver"
	case hasSrc:
		rel = "same-backing-disjoint"
	}
	sizeRel := ""
	if c.Op == "CloneFromVec" {
		lo, _ := c.Recv.span()
		switch n := c.Src.R; {
		case n <= c.Recv.R:
			sizeRel = "fits"
		case lo+n <= c.L:
			sizeRel = "longer-within-capacity"
		default:
			sizeRel = "longer-than-capacity"
		}
	}
	vk.Class("resize-rel=" + rel + "/" + sizeRel)
	vk.NonTrivial("resize", c.Op, c.Recv.K, c.Recv.VM, c.Recv.stride() == 1, rel, sizeRel, c.T, c.Src.K)

	var grown mat.Matrix
	res := vk.Call(func() {
		switch c.Op {
		case "CloneFromVec":
			recv.(*mat.VecDense).CloneFromVec(src.(mat.Vector))
		case "CloneFrom":
			recv.(*mat.Dense).CloneFrom(src)
		case "Grow":
			grown = recv.(*mat.Dense).Grow(c.N1, c.N2)
		case "GrowSym":
			grown = recv.(*mat.SymDense).GrowSym(c.N1)
		case "ReuseAs":
			recv.(*mat.Dense).ReuseAs(c.N1+1, c.N2+1)
		case "ReuseAsVec":
			recv.(*mat.VecDense).ReuseAsVec(c.N1 + 1)
		case "ReuseAsSym":
			recv.(*mat.SymDense).ReuseAsSym(c.N1 + 1)
		case "ReuseAsTri":
			kind := mat.Upper
			if c.N2%2 == 1 {
				kind = mat.Lower
			}
			recv.(*mat.TriDense).ReuseAsTri(c.N1+1, kind)
		}
	})
	out := classify(res)
	desc := fmt.Sprintf("%s L=%d seed=%d recv=%v src=%v shared=%v T=%v n1=%d n2=%d relation=%s/%s outcome=%s %q",
		c.Op, c.L, c.Seed, c.Recv, c.Src, c.Shared, c.T, c.N1, c.N2, rel, sizeRel, res.Outcome, res.Text)
	fail := func(fam, format string, args ...any) *vk.Failure {
		key := c.Op + "/" + fam
		if c.Op == "CloneFromVec" && (fam == "operand-modified" || fam == "result-wrong") &&
			((usedMeets && c.Recv.stride() == 1 && c.Src.R <= c.Recv.R) || (c.Same && c.T)) {
			// recorded defect: the receiver's own storage is reused without
			// checking that the source overlaps it.
			key = "defect/clonefromvec-reuses-storage-overlapping-source"
		}
		return vk.Failf(key, "[%s/%s] "+format+": %s", append(append([]any{c.Op, fam}, args...), desc)...)
	}
	unchanged := func(pred func(k int) bool) int {
		for k := range B {
			if pred(k) && !vk.SameBits(B[k], B0[k]) {
				return k
			}
		}
		return -1
	}

	switch {
	case res.Outcome == vk.RuntimeFault:
		return fail(famRuntimeFault, "runtime fault")
	case c.Op[:3] == "Reu":
		// documented: panics if the receiver is not empty; a view is not.
		if res.Outcome != vk.PackagePanic {
			return fail("nonempty-accepted", "ReuseAs on a non-empty view returned")
		}
		if k := unchanged(func(int) bool { return true }); k >= 0 {
			return fail("parent-overwritten", "backing[%d] changed from %v to %v by a rejected call", k, B0[k], B[k])
		}
		return nil
	case res.Outcome == vk.PackagePanic && !(out.region && usedMeets):
		return fail(famOtherPanic, "panic on valid arguments")
	case out.region:
		// source overlaps the receiver's own elements: a region panic is the
		// general aliasing rule; nothing may have been written.
		if k := unchanged(func(int) bool { return true }); k >= 0 {
			return fail(famMutatedBefore, "backing[%d] changed from %v to %v before the region panic", k, B0[k], B[k])
		}
		return nil
	}

	// returned
	if k := unchanged(func(k int) bool { return !ru.has(k) }); k >= 0 {
		return fail("parent-overwritten", "backing[%d] changed from %v to %v; it lies outside the receiver's window (it belongs to the parent of the view%s)", k, B0[k], B[k],
			map[bool]string{true: " and to the source operand", false: ""}[su != nil && su.has(k)])
	}
	if su != nil {
		if k := unchanged(func(k int) bool { return su.has(k) }); k >= 0 {
			return fail("operand-modified", "backing[%d], an element of the source operand, changed from %v to %v", k, B0[k], B[k])
		}
	}
	for i := range priv {
		if !vk.SameBits(priv[i], priv0[i]) {
			return fail("operand-modified", "fresh source element %d changed", i)
		}
	}
	switch c.Op {
	case "CloneFromVec", "CloneFrom":
		r, cc := recv.Dims()
		if r != len(want) || cc != len(want[0]) {
			// CloneFromVec always yields a column vector of the source's length
			if !(c.Op == "CloneFromVec" && c.T && r == len(want[0]) && cc == 1) {
				return fail("result-wrong", "receiver is %dx%d, source %dx%d", r, cc, len(want), len(want[0]))
			}
		}
		for i := 0; i < r; i++ {
			for j := 0; j < cc; j++ {
				w := 0.0
				if c.Op == "CloneFromVec" && c.T {
					w = want[0][i]
				} else {
					w = want[i][j]
				}
				if got := recv.At(i, j); !vk.SameBits(got, w) {
					return fail("result-wrong", "clone(%d,%d)=%v, source had %v", i, j, got, w)
				}
			}
		}
	case "Grow", "GrowSym":
		if k := unchanged(func(int) bool { return true }); k >= 0 {
			return fail("parent-overwritten", "backing[%d] changed from %v to %v by Grow", k, B0[k], B[k])
		}
		r, cc := grown.Dims()
		wr, wc := c.Recv.R+c.N1, c.Recv.C+c.N2
		if c.Op == "GrowSym" {
			wc = wr
		}
		if r != wr || cc != wc {
			return fail("result-wrong", "grown matrix is %dx%d want %dx%d", r, cc, wr, wc)
		}
		for i := 0; i < c.Recv.R; i++ {
			for j := 0; j < c.Recv.C; j++ {
				ii, jj := i, j
				if c.Op == "GrowSym" && j < i {
					ii, jj = j, i
				}
				if got, w := grown.At(i, j), B0[c.Recv.idx(ii, jj)]; !vk.SameBits(got, w) {
					return fail("result-wrong", "grown(%d,%d)=%v, receiver had %v", i, j, got, w)
				}
			}
		}
	}
	return nil
}

func containsKind(set, k string) bool {
	for i := range set {
		if string(set[i]) == k {
			return true
		}
	}
	return false
}

func checkCGrow(c RCase) *vk.Failure {
	rnd := vk.NewSplitMix(c.Seed ^ 0xc6)
	B0 := make([]complex128, c.L)
	p := rnd.Perm(c.L)
	for i := range B0 {
		B0[i] = complex(float64(p[i]+1), -float64(2*p[i]+3))
	}
	B := append([]complex128(nil), B0...)
	recv := buildC(c.Recv, B)
	var grown mat.CMatrix
	res := vk.Call(func() { grown = recv.Grow(c.N1, c.N2) })
	desc := fmt.Sprintf("CDense.Grow(%d,%d) recv=%v outcome=%s %q", c.N1, c.N2, c.Recv, res.Outcome, res.Text)
	if res.Outcome != vk.Returned {
		return vk.Failf("CGrow/"+famOtherPanic, "%s", desc)
	}
	for k := range B {
		if !sameC(B[k], B0[k]) {
			return vk.Failf("CGrow/parent-overwritten", "backing[%d] changed from %v to %v: %s", k, B0[k], B[k], desc)
		}
	}
	r, cc := grown.Dims()
	if r != c.Recv.R+c.N1 || cc != c.Recv.C+c.N2 {
		return vk.Failf("CGrow/result-wrong", "grown matrix is %dx%d: %s", r, cc, desc)
	}
	for i := 0; i < c.Recv.R; i++ {
		for j := 0; j < c.Recv.C; j++ {
			if got, w := grown.At(i, j), B0[c.Recv.idx(i, j)]; !sameC(got, w) {
				return vk.Failf("CGrow/result-wrong", "grown(%d,%d)=%v want %v: %s", i, j, got, w, desc)
			}
		}
	}
	return nil
}

// resizeCases enumerates the bounded geometry of the resize sub-check.
func resizeCases(thorough bool) []RCase {
	var cases []RCase
	// --- vectors: a 12-element (thorough: 16) array seen as a vector and as 3x4 / 4x4 matrix
	L, pr, ps, maxN := 12, 3, 4, 4
	if thorough {
		L, pr, ps, maxN = 16, 4, 4, 5
	}
	var vrecv, vsrc []Win
	for off := 0; off < L; off++ {
		for n := 1; n <= maxN; n++ {
			if off+n <= L {
				w := Win{K: "V", VM: "new", I: off, R: n, C: 1, PS: 1, PR: L}
				vrecv = append(vrecv, w)
				vsrc = append(vsrc, w)
			}
		}
		for n := maxN + 1; n <= maxN+3; n++ {
			if off+n <= L {
				vsrc = append(vsrc, Win{K: "V", VM: "new", I: off, R: n, C: 1, PS: 1, PR: L})
			}
		}
	}
	for _, w := range viewVectors(0, pr, ps, maxN) {
		vrecv = append(vrecv, w)
		vsrc = append(vsrc, w)
	}
	// prefix SliceVec of the whole array seen as one column (inc 1) and strided columns
	for inc := 1; inc <= 3; inc++ {
		if L%inc != 0 {
			continue
		}
		for off := 0; off < L; off += 1 {
			for n := 1; n <= maxN && off+(n-1)*inc < L; n++ {
				vrecv = append(vrecv, Win{K: "V", VM: "col", PS: inc, PR: L / inc, I: off / inc, J: off % inc, R: n, C: 1})
			}
		}
	}
	for _, r := range vrecv {
		for _, s := range vsrc {
			for _, t := range []bool{false, true} {
				cases = append(cases, RCase{Op: "CloneFromVec", L: L, Recv: r, Src: s, Shared: true, T: t})
			}
		}
		// fresh sources: shorter, equal, longer within capacity, longer than the whole array
		for n := 1; n <= L+2; n++ {
			cases = append(cases, RCase{Op: "CloneFromVec", L: L, Recv: r, Src: Win{K: "V", VM: "new", R: n, C: 1, PS: 1, PR: n}})
		}
		cases = append(cases, RCase{Op: "CloneFromVec", L: L, Recv: r, Src: Win{K: "V", VM: "col", PS: 2, PR: r.R + 2, J: 1, R: r.R + 2, C: 1}, T: true})
		cases = append(cases, RCase{Op: "CloneFromVec", L: L, Recv: r, Src: r, Same: true, Shared: true})
		cases = append(cases, RCase{Op: "CloneFromVec", L: L, Recv: r, Src: r, Same: true, Shared: true, T: true})
		for n := 0; n <= L+1; n += 1 {
			cases = append(cases, RCase{Op: "ReuseAsVec", L: L, Recv: r, N1: n})
		}
	}
	// --- matrices
	P := 4
	if thorough {
		P = 5
	}
	LM := P * P
	drecv := denseWindows(0, P, P)
	var msrc []Win
	msrc = append(msrc, drecv...)
	msrc = append(msrc, viewVectors(0, P, P, P)...)
	for _, k := range []string{"S", "U", "L"} {
		msrc = append(msrc, squareWindows(k, 0, P)...)
	}
	msrc = append(msrc, denseWindows(1, P-1, P+1)...)
	for _, r := range drecv {
		for _, s := range msrc {
			for _, t := range []bool{false, true} {
				if t && s.K == "S" {
					continue
				}
				cases = append(cases, RCase{Op: "CloneFrom", L: LM, Recv: r, Src: s, Shared: true, T: t})
			}
		}
		for fr := 1; fr <= P+2; fr += 2 {
			for fc := 1; fc <= P+2; fc += 2 {
				w, _ := freshWin('M', "D", "D", fr, fc)
				cases = append(cases, RCase{Op: "CloneFrom", L: LM, Recv: r, Src: w})
			}
		}
		for gr := 0; gr <= P+1; gr++ {
			for gc := 0; gc <= P+1; gc++ {
				cases = append(cases, RCase{Op: "Grow", L: LM, Recv: r, N1: gr, N2: gc})
				cases = append(cases, RCase{Op: "CGrow", L: LM, Recv: r, N1: gr, N2: gc})
				cases = append(cases, RCase{Op: "ReuseAs", L: LM, Recv: r, N1: gr, N2: gc})
			}
		}
	}
	for _, r := range squareWindows("S", 0, P) {
		for n := 0; n <= P+1; n++ {
			cases = append(cases, RCase{Op: "GrowSym", L: LM, Recv: r, N1: n})
			cases = append(cases, RCase{Op: "ReuseAsSym", L: LM, Recv: r, N1: n})
		}
	}
	for _, k := range []string{"U", "L"} {
		for _, r := range squareWindows(k, 0, P) {
			for n := 0; n <= P+1; n++ {
				cases = append(cases, RCase{Op: "ReuseAsTri", L: LM, Recv: r, N1: n, N2: n})
			}
		}
	}
	return cases
}

func TestResize(t *testing.T) {
	cases := resizeCases(!vk.Quick())
	vk.Enumerate(t, "resize", len(cases), func(i int) RCase {
		c := cases[i]
		c.Seed = uint64(i)*0x9e3779b97f4a7c15 + 11
		return c
	}, checkResize)
}

// drawResize samples larger geometries than the exhaustive part (long enough
// vectors for the assembly copy kernels, bigger parents).
func drawResize(t *rapid.T) RCase {
	c := RCase{Seed: rapid.Uint64().Draw(t, "seed")}
	drawVec := func(label string, L, maxN int) Win {
		switch rapid.SampledFrom([]string{"new", "new", "row", "col"}).Draw(t, label+"_vm") {
		case "new":
			n := clampDraw(t, label+"_n", 1, min(L, maxN))
			return Win{K: "V", VM: "new", I: clampDraw(t, label+"_off", 0, L-n), R: n, C: 1, PS: 1, PR: L}
		case "row":
			ps := clampDraw(t, label+"_ps", 1, min(L, 40))
			pr := L / ps
			n := clampDraw(t, label+"_n", 1, min(ps, maxN))
			return Win{K: "V", VM: "row", PS: ps, PR: pr, I: clampDraw(t, label+"_i", 0, pr-1), J: clampDraw(t, label+"_j", 0, ps-n), R: n, C: 1}
		default:
			ps := clampDraw(t, label+"_ps", 1, min(L, 6))
			pr := L / ps
			n := clampDraw(t, label+"_n", 1, min(pr, maxN))
			return Win{K: "V", VM: "col", PS: ps, PR: pr, I: clampDraw(t, label+"_i", 0, pr-n), J: clampDraw(t, label+"_j", 0, ps-1), R: n, C: 1}
		}
	}
	switch rapid.IntRange(0, 9).Draw(t, "opcls") {
	case 0, 1:
		c.Op = "CloneFrom"
		pr, ps := clampDraw(t, "pr", 1, 12), clampDraw(t, "ps", 1, 12)
		c.L = pr*ps + rapid.IntRange(0, 5).Draw(t, "slack")
		r, cc := clampDraw(t, "r", 1, pr), clampDraw(t, "c", 1, ps)
		c.Recv = Win{K: "D", PS: ps, PR: pr, R: r, C: cc, I: clampDraw(t, "i", 0, pr-r), J: clampDraw(t, "j", 0, ps-cc)}
		sr, sc := clampDraw(t, "sr", 1, pr), clampDraw(t, "sc", 1, ps)
		if rapid.Bool().Draw(t, "shared") {
			c.Shared = true
			c.Src = Win{K: "D", PS: ps, PR: pr, R: sr, C: sc, I: clampDraw(t, "si", 0, pr-sr), J: clampDraw(t, "sj", 0, ps-sc)}
		} else {
			c.Src, _ = freshWin('M', "D", "D", sr+rapid.IntRange(0, 6).Draw(t, "xr"), sc+rapid.IntRange(0, 6).Draw(t, "xc"))
		}
		c.T = rapid.Bool().Draw(t, "t")
	case 2:
		c.Op = rapid.SampledFrom([]string{"Grow", "CGrow"}).Draw(t, "gop")
		pr, ps := clampDraw(t, "pr", 1, 12), clampDraw(t, "ps", 1, 12)
		c.L = pr * ps
		r, cc := clampDraw(t, "r", 1, pr), clampDraw(t, "c", 1, ps)
		c.Recv = Win{K: "D", PS: ps, PR: pr, R: r, C: cc, I: clampDraw(t, "i", 0, pr-r), J: clampDraw(t, "j", 0, ps-cc)}
		c.N1, c.N2 = rapid.IntRange(0, 14).Draw(t, "gr"), rapid.IntRange(0, 14).Draw(t, "gc")
	case 3:
		c.Op = "GrowSym"
		n := clampDraw(t, "pn", 1, 12)
		c.L = n * n
		r := clampDraw(t, "r", 1, n)
		i := clampDraw(t, "i", 0, n-r)
		c.Recv = Win{K: "S", PS: n, PR: n, R: r, C: r, I: i, J: i}
		c.N1 = rapid.IntRange(0, 14).Draw(t, "g")
	default:
		c.Op = "CloneFromVec"
		c.L = vk.Dim(t, "L", 2, 300, 8, 16, 64)
		c.Recv = drawVec("recv", c.L, 48)
		if rapid.IntRange(0, 9).Draw(t, "shared") < 7 {
			c.Shared = true
			c.Src = drawVec("src", c.L, 96)
		} else {
			n := clampDraw(t, "fn", 1, c.L+8)
			c.Src = Win{K: "V", VM: "new", R: n, C: 1, PS: 1, PR: n}
		}
		c.T = rapid.IntRange(0, 3).Draw(t, "t") == 0
	}
	return c
}

func TestResizeSampled(t *testing.T) {
	vk.Run(t, "resize", vk.Opts{Quick: 80000, Thorough: 2000000, NoCrumb: true}, drawResize, checkResize)
}
