package c05

import (
	"fmt"

	"gonum.org/v1/gonum/mat"
)

// Win describes a window onto a backing array B in terms of the public
// constructors and view methods only:
//
//	K="D": NewDense(PR, PS, B[Base:Base+PR*PS]).Slice(I, I+R, J, J+C)
//	K="S": NewSymDense(PR, B[Base:Base+PR*PR]).SliceSym(I, I+R)          (PS==PR, J==I, C==R)
//	K="U"/"L": NewTriDense(PR, Upper/Lower, B[Base:...]).SliceTri(I, I+R) (PS==PR, J==I, C==R)
//	K="V", VM="col": NewDense(PR, PS, B[Base:...]).ColView(J).SliceVec(I, I+R)   (inc = PS)
//	K="V", VM="row": NewDense(PR, PS, B[Base:...]).RowView(I).SliceVec(J, J+R)   (inc = 1)
//	K="V", VM="new": NewVecDense(R, B[Base+I:Base+I+R])                          (inc = 1)
//
// Element (i,j) of the window is B[Base+(I+i)*PS+J+j] (vectors: see idx).
type Win struct {
	K    string `json:"k"`
	VM   string `json:"vm,omitempty"`
	Base int    `json:"base"`
	PS   int    `json:"ps"`
	PR   int    `json:"pr"`
	I    int    `json:"i"`
	J    int    `json:"j"`
	R    int    `json:"r"`
	C    int    `json:"c"`
}

func (w Win) String() string {
	if w.K == "V" {
		return fmt.Sprintf("V/%s{base=%d parent=%dx%d at=(%d,%d) n=%d | off=%d inc=%d}", w.VM, w.Base, w.PR, w.PS, w.I, w.J, w.R, w.idx(0, 0), w.stride())
	}
	return fmt.Sprintf("%s{base=%d parent=%dx%d at=(%d,%d) %dx%d | off=%d stride=%d}", w.K, w.Base, w.PR, w.PS, w.I, w.J, w.R, w.C, w.idx(0, 0), w.stride())
}

// dims returns the matrix dimensions of the window.
func (w Win) dims() (r, c int) {
	if w.K == "V" {
		return w.R, 1
	}
	return w.R, w.C
}

// idx returns the index into the backing array of element (i,j).
func (w Win) idx(i, j int) int {
	if w.K == "V" {
		switch w.VM {
		case "col":
			return w.Base + (w.I+i)*w.PS + w.J
		case "row":
			return w.Base + w.I*w.PS + w.J + i
		default:
			return w.Base + w.I + i
		}
	}
	return w.Base + (w.I+i)*w.PS + w.J + j
}

// stride returns the stride (increment for vectors) of the gonum value.
func (w Win) stride() int {
	if w.K == "V" && w.VM != "col" {
		return 1
	}
	return w.PS
}

// span returns the half-open index range of the data slice held by the
// gonum value.
func (w Win) span() (lo, hi int) {
	r, c := w.dims()
	return w.idx(0, 0), w.idx(r-1, c-1) + 1
}

// valid reports whether the window can be constructed inside a backing array
// of length L.
func (w Win) valid(L int) bool {
	if w.R < 1 || w.C < 1 || w.I < 0 || w.J < 0 || w.Base < 0 {
		return false
	}
	switch w.K {
	case "V":
		switch w.VM {
		case "new":
			return w.Base+w.I+w.R <= L
		case "col":
			return w.PS >= 1 && w.PR >= 1 && w.J < w.PS && w.I+w.R <= w.PR && w.Base+w.PR*w.PS <= L
		case "row":
			return w.PS >= 1 && w.PR >= 1 && w.I < w.PR && w.J+w.R <= w.PS && w.Base+w.PR*w.PS <= L
		}
		return false
	case "S", "U", "L":
		if w.PS != w.PR || w.I != w.J || w.R != w.C {
			return false
		}
	case "D":
	default:
		return false
	}
	return w.PS >= 1 && w.PR >= 1 && w.I+w.R <= w.PR && w.J+w.C <= w.PS && w.Base+w.PR*w.PS <= L
}

// inUsed reports whether (i,j) belongs to the part of the window that the
// matrix type uses (the stored triangle for S, U and L).
func (w Win) inUsed(i, j int) bool {
	switch w.K {
	case "S", "U":
		return j >= i
	case "L":
		return j <= i
	}
	return true
}

// bits is a set of indices into the backing array.
type bits []uint64

func newBits(L int) bits      { return make(bits, (L+63)/64) }
func (b bits) set(i int)      { b[i>>6] |= 1 << (uint(i) & 63) }
func (b bits) has(i int) bool { return b[i>>6]&(1<<(uint(i)&63)) != 0 }
func (b bits) meets(o bits) bool {
	for i := range b {
		if b[i]&o[i] != 0 {
			return true
		}
	}
	return false
}
func (b bits) equal(o bits) bool {
	for i := range b {
		if b[i] != o[i] {
			return false
		}
	}
	return true
}
func (b bits) subsetOf(o bits) bool {
	for i := range b {
		if b[i]&^o[i] != 0 {
			return false
		}
	}
	return true
}

// sets returns the used element set and the full (square/rectangle) element
// set of the window.
func (w Win) sets(L int) (used, full bits) {
	used, full = newBits(L), newBits(L)
	r, c := w.dims()
	for i := 0; i < r; i++ {
		for j := 0; j < c; j++ {
			k := w.idx(i, j)
			full.set(k)
			if w.inUsed(i, j) {
				used.set(k)
			}
		}
	}
	return used, full
}

// build constructs the gonum value for the window over B using only the
// public constructors and view methods.
func (w Win) build(B []float64) mat.Matrix {
	switch w.K {
	case "D":
		p := mat.NewDense(w.PR, w.PS, B[w.Base:w.Base+w.PR*w.PS])
		return p.Slice(w.I, w.I+w.R, w.J, w.J+w.C).(*mat.Dense)
	case "S":
		p := mat.NewSymDense(w.PR, B[w.Base:w.Base+w.PR*w.PR])
		return p.SliceSym(w.I, w.I+w.R).(*mat.SymDense)
	case "U", "L":
		kind := mat.Upper
		if w.K == "L" {
			kind = mat.Lower
		}
		p := mat.NewTriDense(w.PR, kind, B[w.Base:w.Base+w.PR*w.PR])
		return p.SliceTri(w.I, w.I+w.R).(*mat.TriDense)
	case "V":
		switch w.VM {
		case "new":
			return mat.NewVecDense(w.R, B[w.Base+w.I:w.Base+w.I+w.R])
		case "col":
			p := mat.NewDense(w.PR, w.PS, B[w.Base:w.Base+w.PR*w.PS])
			return p.ColView(w.J).(*mat.VecDense).SliceVec(w.I, w.I+w.R).(*mat.VecDense)
		case "row":
			p := mat.NewDense(w.PR, w.PS, B[w.Base:w.Base+w.PR*w.PS])
			return p.RowView(w.I).(*mat.VecDense).SliceVec(w.J, w.J+w.R).(*mat.VecDense)
		}
	}
	panic("c05: bad window " + w.String())
}

// relation classes between a receiver window and an operand window.
const (
	relIdentical   = "identical"    // same element set (and same geometry)
	relContained   = "contained"    // one used set inside the other
	relCorner      = "corner"       // partial overlap
	relInterleaved = "interleaved"  // disjoint in elements, address ranges overlap, rows interleave
	relColDisjoint = "col-disjoint" // disjoint, same rows region but different columns (address ranges overlap)
	relApart       = "apart"        // address ranges disjoint (before/after)
	relTriangle    = "squares-only" // full squares meet, used triangles do not
)

// expectation for the region panic.
const (
	expMustPanic = iota
	expMustNot
	expEither
)

type relInfo struct {
	class      string
	strideRel  string // "same", "mixed", "unit" ...
	expect     int
	usedMeets  bool
	spanMeets  bool
	sameStride bool
}

// relate classifies the operand window o against the receiver window r from
// geometry alone.
func relate(r, o Win, L int) relInfo {
	ru, rf := r.sets(L)
	ou, of := o.sets(L)
	var ri relInfo
	rlo, rhi := r.span()
	olo, ohi := o.span()
	ri.spanMeets = rlo < ohi && olo < rhi
	ri.sameStride = r.stride() == o.stride()
	ri.usedMeets = ru.meets(ou)
	fullMeets := rf.meets(of)
	switch {
	case ri.usedMeets:
		ri.expect = expMustPanic
		switch {
		case ru.equal(ou):
			ri.class = relIdentical
		case ru.subsetOf(ou) || ou.subsetOf(ru):
			ri.class = relContained
		default:
			ri.class = relCorner
		}
	case fullMeets:
		// gonum tests the full squares of symmetric and triangular
		// matrices; the used triangles do not meet.
		ri.expect = expEither
		ri.class = relTriangle
	case !ri.spanMeets:
		ri.expect = expMustNot
		ri.class = relApart
	default:
		if ri.sameStride {
			ri.expect = expMustNot
		} else {
			ri.expect = expEither
		}
		// rows interleave when the two windows occupy different column
		// ranges of overlapping row ranges; otherwise one window starts
		// inside the last/first row gap of the other.
		ri.class = relInterleaved
		if ri.sameStride && r.stride() > 0 {
			s := r.stride()
			if rlo/s == olo/s || (rhi-1)/s == (ohi-1)/s {
				ri.class = relColDisjoint
			}
		}
	}
	switch {
	case ri.sameStride && r.stride() == 1:
		ri.strideRel = "unit"
	case ri.sameStride:
		ri.strideRel = "same"
	default:
		ri.strideRel = "mixed"
	}
	return ri
}
