package c05

import (
	"sort"
	"testing"

	"verifharness/vk"
)

type shapeKey struct {
	K    string
	R, C int
}

// space is a bounded geometry: receiver candidates and operand candidates on
// one backing array of length L.
type space struct {
	L, P  int
	recv  map[shapeKey][]Win
	alias map[shapeKey][]Win
}

func newSpace(L, P int) *space {
	return &space{L: L, P: P, recv: map[shapeKey][]Win{}, alias: map[shapeKey][]Win{}}
}

func (s *space) add(m map[shapeKey][]Win, w Win) {
	if !w.valid(s.L) {
		panic("c05: generator produced an invalid window " + w.String())
	}
	r, c := w.dims()
	k := shapeKey{w.K, r, c}
	m[k] = append(m[k], w)
}

// denseWindows lists every rectangle of the parent (base, pr x ps).
func denseWindows(base, pr, ps int) []Win {
	var out []Win
	for i := 0; i < pr; i++ {
		for r := 1; i+r <= pr; r++ {
			for j := 0; j < ps; j++ {
				for c := 1; j+c <= ps; c++ {
					out = append(out, Win{K: "D", Base: base, PS: ps, PR: pr, I: i, J: j, R: r, C: c})
				}
			}
		}
	}
	return out
}

// squareWindows lists every diagonal block of an n x n Sym/Tri parent.
func squareWindows(kind string, base, n int) []Win {
	var out []Win
	for i := 0; i < n; i++ {
		for r := 1; i+r <= n; r++ {
			out = append(out, Win{K: kind, Base: base, PS: n, PR: n, I: i, J: i, R: r, C: r})
		}
	}
	return out
}

// viewVectors lists every ColView/RowView + SliceVec vector of the parent.
func viewVectors(base, pr, ps, maxN int) []Win {
	var out []Win
	for j := 0; j < ps; j++ {
		for i := 0; i < pr; i++ {
			for n := 1; i+n <= pr && n <= maxN; n++ {
				out = append(out, Win{K: "V", VM: "col", Base: base, PS: ps, PR: pr, I: i, J: j, R: n, C: 1})
			}
		}
	}
	for i := 0; i < pr; i++ {
		for j := 0; j < ps; j++ {
			for n := 1; j+n <= ps && n <= maxN; n++ {
				out = append(out, Win{K: "V", VM: "row", Base: base, PS: ps, PR: pr, I: i, J: j, R: n, C: 1})
			}
		}
	}
	return out
}

// block is a set of cases sharing everything but the two window positions.
type block struct {
	op      *opDef
	slot    int    // slot holding the aliased operand
	slot2   int    // second slot holding the same window (-1: none)
	idSlot  int    // slot that additionally holds the receiver itself (-1: none)
	same    bool   // the aliased operand is the receiver itself
	t       bool   // aliased operand transposed
	v, free int    // scalar variant and free shape parameter
	fk      string // kind of fresh Matrix operands
	dims    [][2]int
	recvs   []Win
	aliases []Win
	start   int
}

type plan struct {
	sp     *space
	blocks []block
	total  int
}

func freshWin(slot byte, fk string, recvKind string, er, ec int) (Win, bool) {
	switch slot {
	case 'V':
		if ec != 1 {
			return Win{}, false
		}
		return Win{K: "V", VM: "new", R: er, C: 1, PS: 1, PR: er}, true
	case 'S':
		if er != ec {
			return Win{}, false
		}
		return Win{K: "S", PS: er + 1, PR: er + 1, I: 1, J: 1, R: er, C: er}, true
	case 'T':
		if er != ec {
			return Win{}, false
		}
		k := recvKind
		if k != "U" && k != "L" {
			k = "U"
		}
		return Win{K: k, PS: er + 1, PR: er + 1, I: 1, J: 1, R: er, C: er}, true
	}
	switch fk {
	case "S", "U", "L":
		if er != ec {
			return Win{}, false
		}
		return Win{K: fk, PS: er + 1, PR: er + 1, I: 1, J: 1, R: er, C: er}, true
	case "V":
		if ec != 1 {
			return Win{}, false
		}
		return Win{K: "V", VM: "col", PS: 2, PR: er, I: 0, J: 1, R: er, C: 1}, true
	}
	return Win{K: "D", PS: ec + 1, PR: er, I: 0, J: 1, R: er, C: ec}, true
}

// freshKinds lists the kinds of fresh Matrix operands enumerated for an op.
func freshKinds(op *opDef) []string {
	if op.Name == "Mul" {
		return []string{"D", "S", "U", "V"}
	}
	return []string{"D"}
}

// buildPlan enumerates the blocks of a space for the given ops.
func buildPlan(sp *space, opsel func(*opDef) bool, withSame bool) *plan {
	pl := &plan{sp: sp}
	shapes := map[[2]int]bool{}
	var shapeList [][2]int
	for k := range sp.recv {
		if !shapes[[2]int{k.R, k.C}] {
			shapes[[2]int{k.R, k.C}] = true
			shapeList = append(shapeList, [2]int{k.R, k.C})
		}
	}
	sort.Slice(shapeList, func(i, j int) bool {
		if shapeList[i][0] != shapeList[j][0] {
			return shapeList[i][0] < shapeList[j][0]
		}
		return shapeList[i][1] < shapeList[j][1]
	})
	for _, op := range ops {
		if !opsel(op) {
			continue
		}
		for _, rk := range op.recvKinds() {
			for _, sh := range shapeList {
				recvs := sp.recv[shapeKey{rk, sh[0], sh[1]}]
				if len(recvs) == 0 {
					continue
				}
				for free := 0; free < op.nfree(sp.P); free++ {
					dims, ok := op.Shapes(sh[0], sh[1], free, sp.P)
					if !ok {
						continue
					}
					bad := false
					for _, d := range dims {
						if d[0] < 1 || d[1] < 1 {
							bad = true
						}
					}
					if bad {
						continue
					}
					for v := 0; v < op.nvar(); v++ {
						for _, fk := range freshKinds(op) {
							pl.addBlocks(op, rk, recvs, dims, free, v, fk, withSame)
						}
					}
				}
			}
		}
	}
	return pl
}

func (pl *plan) push(b block) {
	n := len(b.recvs) * len(b.aliases)
	if b.same {
		n = len(b.recvs)
	}
	if n == 0 {
		return
	}
	b.start = pl.total
	pl.total += n
	pl.blocks = append(pl.blocks, b)
}

func (pl *plan) addBlocks(op *opDef, rk string, recvs []Win, dims [][2]int, free, v int, fk string, withSame bool) {
	// every other slot must be constructible as a fresh operand
	freshOK := func(skip, skip2 int) bool {
		for i := range dims {
			if i == skip || i == skip2 {
				continue
			}
			if _, ok := freshWin(op.Slots[i], fk, rk, dims[i][0], dims[i][1]); !ok {
				return false
			}
		}
		return true
	}
	rr, rc := recvs[0].dims()
	for p := range dims {
		st := op.Slots[p]
		for _, t := range []bool{false, true} {
			er, ec := dims[p][0], dims[p][1]
			if t && st == 'M' {
				er, ec = ec, er
			}
			// identity: the receiver itself in slot p
			if withSame && fk == "D" && !op.NoSame && er == rr && ec == rc && (!t || op.canT(p, rk)) && freshOK(p, -1) {
				okKind := false
				for _, k := range slotKinds(st) {
					okKind = okKind || k == rk
				}
				if st == 'T' && t {
					okKind = false // TTri() of the receiver has the other kind
				}
				if okKind {
					pl.push(block{op: op, slot: p, slot2: -1, idSlot: -1, same: true, t: t, v: v, free: free, fk: fk, dims: dims, recvs: recvs})
					// identity in two slots at once (a.Mul(a, a))
					for q := p + 1; q < len(dims); q++ {
						if op.Slots[q] == st && dims[q] == dims[p] && !t && freshOK(p, q) {
							pl.push(block{op: op, slot: p, slot2: q, idSlot: -1, same: true, t: t, v: v, free: free, fk: fk, dims: dims, recvs: recvs})
						}
					}
				}
			}
			for _, ak := range slotKinds(st) {
				if t && !op.canT(p, ak) {
					continue
				}
				if op.Recv == 'T' && st == 'T' {
					// effective triangle kind must equal the receiver's
					eff := ak
					if t {
						eff = map[string]string{"U": "L", "L": "U"}[ak]
					}
					if eff != rk {
						continue
					}
				}
				if ak == "V" && ec != 1 {
					continue
				}
				aliases := pl.sp.alias[shapeKey{ak, er, ec}]
				if len(aliases) == 0 || !freshOK(p, -1) {
					continue
				}
				pl.push(block{op: op, slot: p, slot2: -1, idSlot: -1, t: t, v: v, free: free, fk: fk, dims: dims, recvs: recvs, aliases: aliases})
				if !t && fk == "D" {
					for q := p + 1; q < len(dims); q++ {
						if op.Slots[q] == st && dims[q] == dims[p] && freshOK(p, q) {
							pl.push(block{op: op, slot: p, slot2: q, idSlot: -1, t: t, v: v, free: free, fk: fk, dims: dims, recvs: recvs, aliases: aliases})
						}
					}
				}
				// the receiver itself in another slot next to the aliased window
				if withSame && fk == "D" && !op.NoSame {
					for q := range dims {
						if q == p || dims[q] != [2]int{rr, rc} || !freshOK(p, q) {
							continue
						}
						okKind := false
						for _, k := range slotKinds(op.Slots[q]) {
							okKind = okKind || k == rk
						}
						if okKind {
							pl.push(block{op: op, slot: p, slot2: -1, idSlot: q, t: t, v: v, free: free, fk: fk, dims: dims, recvs: recvs, aliases: aliases})
						}
					}
				}
			}
		}
	}
}

// gen decodes case i of the plan.
func (pl *plan) gen(i int) Case {
	k := sort.Search(len(pl.blocks), func(j int) bool { return pl.blocks[j].start > i }) - 1
	b := &pl.blocks[k]
	off := i - b.start
	var recv, alias Win
	if b.same {
		recv = b.recvs[off]
	} else {
		recv = b.recvs[off/len(b.aliases)]
		alias = b.aliases[off%len(b.aliases)]
	}
	c := Case{Op: b.op.Name, L: pl.sp.L, Recv: recv, Var: b.v, Seed: uint64(i)*0x9e3779b97f4a7c15 + 1}
	for s := range b.dims {
		switch {
		case s == b.idSlot:
			c.Args = append(c.Args, Arg{Same: true, W: recv})
		case s == b.slot || s == b.slot2:
			if b.same {
				c.Args = append(c.Args, Arg{Same: true, T: b.t, W: recv})
			} else {
				c.Args = append(c.Args, Arg{T: b.t, W: alias})
			}
		default:
			w, _ := freshWin(b.op.Slots[s], b.fk, recv.K, b.dims[s][0], b.dims[s][1])
			c.Args = append(c.Args, Arg{Buf: s + 1, W: w})
		}
	}
	return c
}

func allOps(*opDef) bool { return true }

// ---- exhaustive sub-checks ---------------------------------------------------

// sameParentSpace: every window is a view of one P x P parent (same stride):
// Dense rectangles, ColView/RowView vectors, diagonal blocks of a Sym/Tri
// parent of the same size.
func sameParentSpace(P int) *space {
	sp := newSpace(P*P, P)
	for _, w := range denseWindows(0, P, P) {
		sp.add(sp.recv, w)
		sp.add(sp.alias, w)
	}
	for _, w := range viewVectors(0, P, P, P) {
		sp.add(sp.recv, w)
		sp.add(sp.alias, w)
	}
	for _, k := range []string{"S", "U", "L"} {
		for _, w := range squareWindows(k, 0, P) {
			sp.add(sp.recv, w)
			sp.add(sp.alias, w)
		}
	}
	return sp
}

// subName is the single sub-check name used by every part of the check, so
// that a defect recorded in known_findings.jsonl has one key regardless of the
// part (exhaustive geometry or sampling) that runs into it. The parts are told
// apart in the evidence by vk.Extra counters and by the sample labels.
const subName = "alias"

func enumerate(t *testing.T, part string, pl *plan) {
	s, n := vk.Shard()
	cnt := 0
	for i := s; i < pl.total; i += n {
		cnt++
	}
	vk.Extra("cases:"+part, int64(cnt))
	if s == 0 {
		vk.Extra("blocks:"+part, int64(len(pl.blocks))) // per build configuration
	}
	vk.Enumerate(t, subName, pl.total, pl.gen, runCase(part))
}

func TestSameParent(t *testing.T) {
	sp := sameParentSpace(vk.Pick(4, 6))
	enumerate(t, "same-parent", buildPlan(sp, allOps, true))
}

// vectorSpace: every (offset, n<=5, inc<=4) inside a 24-element array, built
// as ColView+SliceVec of NewDense(24/inc, inc, B), as NewVecDense over a
// sub-slice (inc 1) and as RowView+SliceVec of NewDense(4, 6, B) (inc 1).
func vectorSpace() *space {
	const L, maxN = 24, 5
	sp := newSpace(L, maxN)
	for inc := 1; inc <= 4; inc++ {
		for off := 0; off < L; off++ {
			for n := 1; n <= maxN && off+(n-1)*inc < L; n++ {
				w := Win{K: "V", VM: "col", PS: inc, PR: L / inc, I: off / inc, J: off % inc, R: n, C: 1}
				sp.add(sp.recv, w)
				sp.add(sp.alias, w)
				if inc == 1 {
					w := Win{K: "V", VM: "new", Base: 0, I: off, R: n, C: 1, PS: 1, PR: L}
					sp.add(sp.alias, w)
					if off%3 == 0 {
						sp.add(sp.recv, w)
					}
				}
			}
		}
	}
	for _, w := range viewVectors(0, 4, 6, maxN) {
		if w.VM == "row" {
			sp.add(sp.alias, w)
		}
	}
	return sp
}

func TestVectors(t *testing.T) {
	sp := vectorSpace()
	enumerate(t, "vectors", buildPlan(sp, func(o *opDef) bool { return o.Recv == 'V' }, true))
}

// mixedSpace: receivers are views of the P x P parent, operands are views of
// other parents laid over the same backing array with another stride and/or
// another base offset.
func mixedSpace(P int) *space {
	L := P * P
	sp := newSpace(L, P)
	for _, w := range denseWindows(0, P, P) {
		sp.add(sp.recv, w)
	}
	for _, w := range viewVectors(0, P, P, P) {
		sp.add(sp.recv, w)
	}
	for _, k := range []string{"S", "U", "L"} {
		for _, w := range squareWindows(k, 0, P) {
			sp.add(sp.recv, w)
		}
	}
	type par struct{ base, pr, ps int }
	var pars []par
	if P == 4 {
		pars = []par{{0, 5, 3}, {1, 3, 5}, {1, 3, 4}, {0, 8, 2}}
	} else {
		pars = []par{{0, 7, 5}, {1, 5, 7}, {3, 5, 6}, {0, 9, 4}}
	}
	for _, p := range pars {
		for _, w := range denseWindows(p.base, p.pr, p.ps) {
			if w.R <= P && w.C <= P {
				sp.add(sp.alias, w)
			}
		}
		for _, w := range viewVectors(p.base, p.pr, p.ps, P) {
			sp.add(sp.alias, w)
		}
	}
	// square parents of other sizes for Sym/Tri operands
	for _, n := range []int{P - 1, P - 2} {
		for _, base := range []int{0, 2} {
			if n < 1 || base+n*n > L {
				continue
			}
			for _, k := range []string{"S", "U", "L"} {
				for _, w := range squareWindows(k, base, n) {
					sp.add(sp.alias, w)
				}
			}
		}
	}
	for off := 0; off < L; off += 1 {
		for n := 1; n <= P && off+n <= L; n++ {
			sp.add(sp.alias, Win{K: "V", VM: "new", I: off, R: n, C: 1, PS: 1, PR: L})
		}
	}
	return sp
}

func TestMixedStride(t *testing.T) {
	sp := mixedSpace(vk.Pick(4, 6))
	enumerate(t, "mixed-stride", buildPlan(sp, allOps, false))
}
