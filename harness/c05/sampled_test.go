package c05

import (
	"testing"

	"pgregory.net/rapid"
	"verifharness/vk"
)

// clampDraw draws an int in [lo,hi] (lo if the range is empty).
func clampDraw(t *rapid.T, label string, lo, hi int) int {
	if hi <= lo {
		return lo
	}
	return rapid.IntRange(lo, hi).Draw(t, label)
}

// near draws a position in [0,max] close to ref (within +-spread) most of
// the time, anywhere otherwise.
func near(t *rapid.T, label string, ref, spread, max int) int {
	if max <= 0 {
		return 0
	}
	if rapid.IntRange(0, 9).Draw(t, label+"_far") == 0 {
		return rapid.IntRange(0, max).Draw(t, label)
	}
	lo, hi := ref-spread, ref+spread
	if lo < 0 {
		lo = 0
	}
	if hi > max {
		hi = max
	}
	if hi < lo {
		lo, hi = 0, max
	}
	return rapid.IntRange(lo, hi).Draw(t, label)
}

// drawParent draws a parent (base, rows, stride) inside a backing array of
// length L that can hold an r x c window: the receiver's parent most of the
// time, otherwise another stride and/or base.
func drawParent(t *rapid.T, label string, L int, recv Win, r, c int, square bool) (base, pr, ps int, ok bool) {
	if rapid.IntRange(0, 9).Draw(t, label+"_own") < 6 && recv.PS >= c && recv.PR >= r && (!square || recv.PS == recv.PR) && recv.K != "V" || (recv.K == "V" && recv.VM != "new" && rapid.Bool().Draw(t, label+"_vpar") && recv.PS >= c && recv.PR >= r && (!square || recv.PS == recv.PR)) {
		return recv.Base, recv.PR, recv.PS, true
	}
	// another parent: stride around the receiver's, or small
	var stride int
	switch rapid.IntRange(0, 3).Draw(t, label+"_scls") {
	case 0:
		stride = recv.PS // same stride, other base
	case 1:
		stride = recv.PS + rapid.IntRange(-2, 2).Draw(t, label+"_sd")
	default:
		stride = rapid.IntRange(c, c+4).Draw(t, label+"_s")
	}
	if stride < c {
		stride = c
	}
	if square {
		if stride < r {
			stride = r
		}
		if stride*stride > L {
			stride = r
		}
		if stride*stride > L {
			return 0, 0, 0, false
		}
		base = clampDraw(t, label+"_base", 0, min(L-stride*stride, stride+2))
		return base, stride, stride, true
	}
	if stride*r > L {
		stride = c
	}
	if stride*r > L {
		return 0, 0, 0, false
	}
	maxRows := L / stride
	pr = clampDraw(t, label+"_pr", r, min(maxRows, r+6))
	base = clampDraw(t, label+"_base", 0, min(L-pr*stride, stride+2))
	return base, pr, stride, true
}

// drawWindow places a window of the given kind and effective storage shape
// r x c on the backing array, preferably close to the receiver window.
func drawWindow(t *rapid.T, label, kind string, L int, recv Win, r, c int) (Win, bool) {
	switch kind {
	case "V":
		mode := rapid.SampledFrom([]string{"col", "col", "row", "new"}).Draw(t, label+"_vm")
		switch mode {
		case "new":
			if r > L {
				return Win{}, false
			}
			ref := recv.idx(0, 0)
			off := near(t, label+"_off", ref, r+2, L-r)
			return Win{K: "V", VM: "new", I: off, R: r, C: 1, PS: 1, PR: L}, true
		case "col":
			base, pr, ps, ok := drawParent(t, label, L, recv, r, 1, false)
			if !ok {
				return Win{}, false
			}
			w := Win{K: "V", VM: "col", Base: base, PS: ps, PR: pr, R: r, C: 1}
			w.I = near(t, label+"_i", recv.I, r, pr-r)
			w.J = near(t, label+"_j", recv.J, 2, ps-1)
			return w, true
		default:
			base, pr, ps, ok := drawParent(t, label, L, recv, 1, r, false)
			if !ok {
				return Win{}, false
			}
			w := Win{K: "V", VM: "row", Base: base, PS: ps, PR: pr, R: r, C: 1}
			w.I = near(t, label+"_i", recv.I, 2, pr-1)
			w.J = near(t, label+"_j", recv.J, r, ps-r)
			return w, true
		}
	case "S", "U", "L":
		if r != c {
			return Win{}, false
		}
		base, pr, ps, ok := drawParent(t, label, L, recv, r, r, true)
		if !ok {
			return Win{}, false
		}
		w := Win{K: kind, Base: base, PS: ps, PR: pr, R: r, C: r}
		w.I = near(t, label+"_i", recv.I, r, pr-r)
		w.J = w.I
		return w, true
	}
	base, pr, ps, ok := drawParent(t, label, L, recv, r, c, false)
	if !ok {
		return Win{}, false
	}
	w := Win{K: "D", Base: base, PS: ps, PR: pr, R: r, C: c}
	w.I = near(t, label+"_i", recv.I, r, pr-r)
	w.J = near(t, label+"_j", recv.J, c, ps-c)
	return w, true
}

func drawCase(t *rapid.T) Case {
	op := ops[int(rapid.Uint32().Draw(t, "op"))%len(ops)] // uniform over the methods
	maxDim := 12
	if op.Name == "Pow" || op.Name == "Exp" || op.Name == "Kronecker" || op.Name == "Product" {
		maxDim = 6
	}
	const P = 8 // bound of the free shape parameter
	// receiver parent and window
	var recv Win
	var L int
	rk := rapid.SampledFrom(op.recvKinds()).Draw(t, "rk")
	switch rk {
	case "D":
		minR, minC := 1, 1
		if op.Name == "Stack" {
			minR = 2
		}
		if op.Name == "Augment" {
			minC = 2
		}
		pr := max(minR, vk.Dim(t, "pr", 1, 40, 2, 8))
		ps := max(minC, vk.Dim(t, "ps", 1, 40, 2, 8))
		L = pr*ps + rapid.IntRange(0, 6).Draw(t, "slack")
		r := clampDraw(t, "rr", minR, min(pr, maxDim))
		c := clampDraw(t, "rc", minC, min(ps, maxDim))
		if op.Name == "Pow" || op.Name == "Exp" || op.Name == "Inverse" {
			c = min(r, ps)
			r = c
		}
		recv = Win{K: "D", PS: ps, PR: pr, R: r, C: c, I: clampDraw(t, "ri", 0, pr-r), J: clampDraw(t, "rj", 0, ps-c)}
	case "S", "U", "L":
		n := vk.Dim(t, "pn", 1, 30, 2, 8)
		L = n*n + rapid.IntRange(0, 6).Draw(t, "slack")
		r := clampDraw(t, "rr", 1, min(n, maxDim))
		i := clampDraw(t, "ri", 0, n-r)
		recv = Win{K: rk, PS: n, PR: n, R: r, C: r, I: i, J: i}
	default: // "V"
		pr := vk.Dim(t, "pr", 1, 40, 2, 8)
		ps := vk.Dim(t, "ps", 1, 12, 2, 4)
		L = pr*ps + rapid.IntRange(0, 6).Draw(t, "slack")
		switch rapid.SampledFrom([]string{"col", "col", "row", "new"}).Draw(t, "rvm") {
		case "col":
			n := clampDraw(t, "rn", 1, min(pr, maxDim))
			recv = Win{K: "V", VM: "col", PS: ps, PR: pr, R: n, C: 1, I: clampDraw(t, "ri", 0, pr-n), J: clampDraw(t, "rj", 0, ps-1)}
		case "row":
			n := clampDraw(t, "rn", 1, min(ps, maxDim))
			recv = Win{K: "V", VM: "row", PS: ps, PR: pr, R: n, C: 1, I: clampDraw(t, "ri", 0, pr-1), J: clampDraw(t, "rj", 0, ps-n)}
		default:
			n := clampDraw(t, "rn", 1, min(L, maxDim))
			recv = Win{K: "V", VM: "new", PS: 1, PR: L, R: n, C: 1, I: clampDraw(t, "ri", 0, L-n)}
		}
	}
	rr, rc := recv.dims()
	// shapes
	var dims [][2]int
	f0 := rapid.IntRange(0, op.nfree(P)-1).Draw(t, "free")
	for k := 0; k < op.nfree(P); k++ {
		d, ok := op.Shapes(rr, rc, (f0+k)%op.nfree(P), P)
		good := ok
		for _, x := range d {
			if x[0] < 1 || x[1] < 1 || x[0] > 40 || x[1] > 40 {
				good = false
			}
		}
		if good {
			dims = d
			break
		}
	}
	c := Case{Op: op.Name, L: L, Recv: recv, Var: rapid.IntRange(0, op.nvar()-1).Draw(t, "var"), Seed: rapid.Uint64().Draw(t, "seed")}
	if dims == nil {
		// no valid shape for this receiver (e.g. Stack into a single row):
		// the case is rejected by validCase.
		return c
	}
	aliased := 0
	for s := range dims {
		st := op.Slots[s]
		er, ec := dims[s][0], dims[s][1]
		mode := rapid.IntRange(0, 9).Draw(t, "mode")
		if s == len(dims)-1 && aliased == 0 && mode < 2 {
			mode = 5 // at least one aliased operand
		}
		var arg Arg
		done := false
		switch {
		case mode < 2: // fresh
		case mode < 4 && !op.NoSame: // the receiver itself
			for _, tt := range []bool{rapid.Bool().Draw(t, "sameT"), false} {
				xr, xc := er, ec
				if tt && st == 'M' {
					xr, xc = ec, er
				}
				okKind := false
				for _, k := range slotKinds(st) {
					okKind = okKind || k == rk
				}
				if st == 'T' && tt {
					okKind = false
				}
				if okKind && xr == rr && xc == rc && (!tt || op.canT(s, rk)) {
					arg = Arg{Same: true, T: tt, W: recv}
					done = true
					break
				}
			}
		}
		if !done && mode >= 2 {
			kinds := slotKinds(st)
			ak := kinds[rapid.IntRange(0, len(kinds)-1).Draw(t, "ak")]
			if st == 'M' && rapid.IntRange(0, 9).Draw(t, "akD") < 5 {
				ak = "D"
			}
			tt := op.canT(s, ak) && rapid.IntRange(0, 2).Draw(t, "T") == 0
			if op.Recv == 'T' && st == 'T' {
				// the effective triangle kind must equal the receiver's
				ak = rk
				if tt {
					ak = map[string]string{"U": "L", "L": "U"}[rk]
				}
			}
			xr, xc := er, ec
			if tt && st == 'M' {
				xr, xc = ec, er
			}
			if (ak == "V" && xc != 1) || (isQ(ak) && xr != xc) {
				ak, tt, xr, xc = "D", false, er, ec
				if st != 'M' {
					ak = ""
				}
			}
			if ak != "" {
				if w, ok := drawWindow(t, "w"+string(rune('a'+s)), ak, L, recv, xr, xc); ok && w.valid(L) {
					arg = Arg{T: tt, W: w}
					done = true
				}
			}
		}
		if done {
			aliased++
		} else {
			fk := "D"
			if st == 'M' {
				fk = rapid.SampledFrom([]string{"D", "D", "D", "S", "U", "L", "V"}).Draw(t, "fk")
			}
			w, ok := freshWin(st, fk, rk, er, ec)
			if !ok {
				w, _ = freshWin(st, "D", rk, er, ec)
			}
			arg = Arg{Buf: s + 1, W: w}
		}
		c.Args = append(c.Args, arg)
	}
	return c
}

func TestSampled(t *testing.T) {
	vk.Run(t, subName, vk.Opts{Quick: 240000, Thorough: 8000000, NoCrumb: true}, drawCase, runCase("sampled"))
}
