package c07lapack

import (
	"runtime"
	"runtime/debug"
	"sort"
	"strings"
	"testing"

	"gonum.org/v1/gonum/lapack/gonum"
	"pgregory.net/rapid"
	"verifharness/vk"
)

var impl gonum.Implementation

// spec is one table entry: the builder derives valid dimensions, flags and
// operands from the case and finally calls e.run with a closure that performs
// the call, reading every argument through a fault hook.
type spec struct {
	name  string
	nd    int  // number of raw dimensions D[0..nd) the builder looks at
	lw    bool // the routine has an lwork argument (workspace query exists)
	build func(e *env)
}

var (
	table  []*spec
	byName = map[string]*spec{}
)

func reg(name string, nd int, lw bool, build func(e *env)) {
	if byName[name] != nil {
		panic("duplicate routine " + name)
	}
	s := &spec{name: name, nd: nd, lw: lw, build: build}
	table = append(table, s)
	byName[name] = s
}

func names() []string {
	var n []string
	for _, s := range table {
		n = append(n, s.name)
	}
	sort.Strings(n)
	return n
}

// run performs the call. In discover mode the (valid) call is executed only to
// evaluate the argument hooks.
func (e *env) run(f func()) {
	e.ran = true
	if e.discover {
		vk.Call(f)
		return
	}
	for _, o := range e.ops {
		o.snapshot()
	}
	e.res = vk.Call(func() {
		defer func() {
			// Root-cause attribution: a runtime fault raised inside Dlarft (known
			// defect: it slices v[(i+1)*ldv:] past the end when n == k and v is
			// exactly minimal) is reported under its own key for every caller.
			if r := recover(); r != nil {
				if _, ok := r.(runtime.Error); ok && e.c.R != "Dlarft" && strings.Contains(string(debug.Stack()), "Implementation.Dlarft(") {
					e.via = "/via-Dlarft"
				}
				panic(r)
			}
		}()
		f()
	})
}

// faultsOf lists the single faults applicable to the valid call c.
func faultsOf(c Case) []string {
	c.Fault, c.Mode, c.Loose = "", "", 0
	e := newEnv(c, true)
	defer e.free()
	byName[c.R].build(e)
	return e.found
}

func faultKind(f string) string {
	switch {
	case strings.HasPrefix(f, "short"):
		return "short-slice"
	case strings.HasPrefix(f, "long"):
		return "long-exact-slice"
	case strings.HasPrefix(f, "bad"):
		return "illegal-flag"
	case strings.HasPrefix(f, "ld"):
		return "leading-dimension"
	case f == "lwork", f == "queryEmptyWork":
		return "lwork"
	case len(f) <= 4 && f != "":
		return "dimension"
	}
	return "scalar-out-of-range"
}

func checkFault(c Case) *vk.Failure {
	sp := byName[c.R]
	if sp == nil {
		return vk.Failf("unknown-routine", "%q", c.R)
	}
	e := newEnv(c, false)
	defer e.free()
	sp.build(e)
	if !e.ran {
		return vk.Failf("harness/builder-did-not-run", "%s", c.R)
	}
	if !e.hit {
		vk.Class("fault-not-applicable")
		if e.res.Outcome != vk.Returned {
			return vk.Failf("valid-call-"+e.res.Outcome.String()+"/"+c.R, "%s on valid arguments: %s", c.R, e.res.Text)
		}
		return nil
	}
	vk.Class("fault/" + faultKind(c.Fault))
	vk.Class("fault-routine/" + c.R)
	vk.NonTrivial("lapack-fault", c.R, c.Fault)
	vk.Sample("lapack-fault", c)
	switch e.res.Outcome {
	case vk.Returned:
		return vk.Failf("invalid-argument-accepted/"+c.R+"/"+c.Fault, "%s: call with invalid argument %q returned normally", c.R, c.Fault)
	case vk.RuntimeFault:
		return vk.Failf("invalid-argument-runtime-fault/"+c.R+"/"+c.Fault, "%s: call with invalid argument %q ended in a runtime fault instead of a package panic: %s", c.R, c.Fault, e.res.Text)
	}
	for _, o := range e.ops {
		if d := o.diff(true, o == e.workOp); d != "" {
			return vk.Failf("write-before-panic/"+c.R+"/"+c.Fault, "%s: invalid argument %q was rejected (%s) but an operand was modified first: %s", c.R, c.Fault, e.res.Text, d)
		}
	}
	// Only work[0] of an lwork routine changed: reported under its own key, it
	// is the least harmful way of writing before validating.
	if e.workOp != nil {
		if d := e.workOp.diff(true, false); d != "" {
			return vk.Failf("write-before-panic-work0/"+c.R, "%s: invalid argument %q was rejected (%s) but work[0] was written first: %s", c.R, c.Fault, e.res.Text, d)
		}
	}
	return nil
}

func checkValid(c Case) *vk.Failure {
	sp := byName[c.R]
	if sp == nil {
		return vk.Failf("unknown-routine", "%q", c.R)
	}
	if c.Fault != "" {
		return vk.Failf("harness/fault-in-valid-case", "%s", c.Fault)
	}
	e := newEnv(c, false)
	defer e.free()
	sp.build(e)
	if !e.ran {
		return vk.Failf("harness/builder-did-not-run", "%s", c.R)
	}
	mode := c.Mode
	if mode == "" {
		mode = "plain"
	}
	vk.Class("valid/" + mode)
	vk.Class("valid-routine/" + c.R)
	zero := false
	for i := 0; i < sp.nd; i++ {
		zero = zero || c.D[i] == 0
	}
	if zero {
		vk.Class("valid/zero-dimension")
	}
	if c.Loose != 0 {
		vk.Class("valid/loose-unexamined-slices")
	}
	if c.Big > 1 {
		vk.Class("valid/big")
	}
	minimal := c.X == 0 && c.LW == 0
	if zero || minimal || c.Mode != "" {
		vk.NonTrivial("lapack-valid-edge", c.R, c.Mode, c.Loose, zero, minimal, c.Fl, c.D, c.Big)
	}
	vk.Sample("lapack-valid-edge", c)
	if e.res.Outcome != vk.Returned {
		return vk.Failf("valid-call-"+e.res.Outcome.String()+"/"+c.R+e.tag+e.via, "%s on valid arguments (mode %q): %s", c.R, c.Mode, e.res.Text)
	}
	for _, o := range e.ops {
		if d := o.diff(false, false); d != "" {
			return vk.Failf("valid-call-wrote-outside-slice/"+c.R, "%s: %s", c.R, d)
		}
	}
	if e.query() && !e.queryMayWrite {
		for _, o := range e.ops {
			if d := o.diff(true, o == e.workOp); d != "" {
				return vk.Failf("workspace-query-wrote/"+c.R, "%s with lwork=-1 must only store the optimal size in work[0]: %s", c.R, d)
			}
		}
	}
	return nil
}

// rapid's integer and SampledFrom generators favour small values; routine, flag
// and fault selection must be uniform, so they are derived from drawn 64-bit
// words through SplitMix.
func word(t *rapid.T, label string) uint64 {
	a, b, c := rapid.Uint64().Draw(t, label), rapid.Uint64().Draw(t, label), rapid.Uint64().Draw(t, label)
	return a ^ (b<<21 | b>>43) ^ (c<<42 | c>>22)
}

func drawBase(t *rapid.T) Case {
	var c Case
	g := vk.NewSplitMix(word(t, "pick"))
	nm := names()
	c.R = nm[g.Intn(len(nm))]
	for i := range c.Fl {
		c.Fl[i] = g.Intn(6)
	}
	sp := byName[c.R]
	for i := 0; i < sp.nd; i++ {
		c.D[i] = vk.Dim(t, "d", 0, 6)
	}
	for i := range c.P {
		c.P[i] = vk.Pad(t, "pad")
	}
	c.X = rapid.SampledFrom([]int{0, 0, 1, 3}).Draw(t, "slack")
	c.LW = rapid.SampledFrom([]int{0, 0, 1, 7, 64}).Draw(t, "lwslack")
	c.Pre = rapid.IntRange(0, 2).Draw(t, "pre")
	c.Post = rapid.IntRange(0, 2).Draw(t, "post")
	c.Trim = rapid.Bool().Draw(t, "trim")
	c.Seed = rapid.Uint64().Draw(t, "seed")
	return c
}

func drawFault(t *rapid.T) Case {
	c := drawBase(t)
	g := vk.NewSplitMix(word(t, "pickfault"))
	fl := faultsOf(c)
	if len(fl) > 0 {
		c.Fault = fl[g.Intn(len(fl))]
	}
	c.Bad = g.Intn(2)
	return c
}

func drawValid(t *rapid.T) Case {
	c := drawBase(t)
	g := vk.NewSplitMix(word(t, "pickmode"))
	sp := byName[c.R]
	modes := []string{"", "min", "min", "guardE", "guardE", "guardS"}
	if sp.lw {
		modes = append(modes, "query", "query", "minlwork")
	}
	switch m := modes[g.Intn(len(modes))]; m {
	case "min":
		c.P, c.X, c.LW, c.Trim = [6]int{}, 0, 0, true
	case "minlwork":
		c.LW = 0
	default:
		c.Mode = m
	}
	if c.Mode == "guardE" || c.Mode == "guardS" {
		c.P, c.X, c.LW, c.Trim = [6]int{}, 0, 0, true
	}
	if sp.nd > 0 && g.Intn(10) < 4 {
		c.D[g.Intn(sp.nd)] = 0
	}
	c.Loose = g.Intn(3)
	// a small fraction of large problems for the routines with blocked variants
	if sc := bigScale[c.R]; sc > 0 && g.Intn(100) < 12 {
		c.Big = sc
		if sp.lw && c.Mode != "query" && g.Intn(3) > 0 {
			c.LW = 6000 // enough workspace for the blocked algorithm
		}
	}
	return c
}

// bigScale lists the routines that have a blocked code path (or a different
// algorithm for larger orders) with the dimension multiplier that reaches it.
var bigScale = map[string]int{
	"Dgetrf": 24, "Dgetri": 24, "Dgetrs": 24, "Dgesv": 24,
	"Dpotrf": 24, "Dpotri": 24, "Dpotrs": 24, "Dpbtrf": 12, "Dpbtrs": 12, "Dpstrf": 24,
	"Dtrtri": 24, "Dlauum": 24, "Dtrtrs": 24,
	"Dgeqrf": 24, "Dgelqf": 24, "Dgerqf": 24, "Dgeqp3": 24, "Dgels": 24,
	"Dorgqr": 24, "Dorglq": 24, "Dorgql": 24, "Dormqr": 24, "Dormlq": 24, "Dlarfb": 8, "Dlarft": 8,
	"Dsytrd": 24, "Dorgtr": 24, "Dsyev": 12, "Dsteqr": 8,
	"Dgebrd": 24, "Dorgbr": 24, "Dormbr": 24, "Dgesvd": 8, "Dbdsqr": 8,
	"Dgehrd": 24, "Dorghr": 24, "Dormhr": 24, "Dhseqr": 8, "Dgeev": 8, "Dtrevc3": 8, "Dgebal": 8,
	"Dggsvd3": 4, "Dggsvp3": 4,
}

// TestLapackFault: exactly one argument of an otherwise valid call is made
// invalid; the call must end in a package panic with every operand untouched.
func TestLapackFault(t *testing.T) {
	vk.Run(t, "lapack-fault", vk.Opts{Quick: 40000, Thorough: 800000}, drawFault, checkFault)
}

// TestLapackValidEdge: valid calls at the edges of the contract must return.
func TestLapackValidEdge(t *testing.T) {
	vk.Run(t, "lapack-valid-edge", vk.Opts{Quick: 40000, Thorough: 800000}, drawValid, checkValid)
}

// TestTable prints the fault set per routine (development aid, -v).
func TestTable(t *testing.T) {
	if !testing.Verbose() {
		t.Skip()
	}
	for _, n := range names() {
		set := map[string]bool{}
		g := vk.NewSplitMix(7)
		for k := 0; k < 300; k++ {
			var c Case
			c.R = n
			for i := range c.Fl {
				c.Fl[i] = g.Intn(6)
			}
			for i := range c.D {
				c.D[i] = 1 + g.Intn(5)
			}
			c.Seed = g.Uint64()
			for _, f := range faultsOf(c) {
				set[f] = true
			}
		}
		var l []string
		for f := range set {
			l = append(l, f)
		}
		sort.Strings(l)
		t.Logf("%-8s %2d: %s", n, len(l), strings.Join(l, " "))
	}
}
