package c07lapack

import (
	"gonum.org/v1/gonum/blas"
	"gonum.org/v1/gonum/lapack"
)

// Every builder mirrors the argument-check prologue of the routine in
// /repo/lapack/gonum/<routine>.go: which checks precede the zero-size quick
// return (always enforced) and which follow it (enforced only when the routine
// gets that far: chk).

func init() {
	for _, name := range []string{"Dgetrf", "Dgetf2"} {
		name := name
		reg(name, 2, false, func(e *env) {
			m, n := e.d(0), e.d(1)
			lda := max(1, n) + e.pad(0)
			a := e.mat("a", m, n, lda)
			ipiv := e.ints("ipiv", min(m, n), true, nil)
			chk := min(m, n) > 0
			e.run(func() {
				if name == "Dgetrf" {
					impl.Dgetrf(e.fdim("m", m), e.fdim("n", n), fs(e, "shortA", a, chk), e.fld("lda", lda, max(1, n)), fx(e, "Ipiv", ipiv, chk))
				} else {
					impl.Dgetf2(e.fdim("m", m), e.fdim("n", n), fs(e, "shortA", a, chk), e.fld("lda", lda, max(1, n)), fx(e, "Ipiv", ipiv, chk))
				}
			})
		})
	}

	reg("Dgetrs", 2, false, func(e *env) {
		_, ftr := flag(e, "badTrans", 0, blas.NoTrans, blas.Trans, blas.ConjTrans)
		n, nrhs := e.d(0), e.d(1)
		lda, ldb := max(1, n)+e.pad(0), max(1, nrhs)+e.pad(1)
		a := e.dmat("a", n, lda)
		ipiv := e.ints("ipiv", n, true, e.pivots(n))
		b := e.mat("b", n, nrhs, ldb)
		chk := n > 0 && nrhs > 0
		e.run(func() {
			impl.Dgetrs(ftr, e.fdim("n", n), e.fdim("nrhs", nrhs), fs(e, "shortA", a, chk), e.fld("lda", lda, max(1, n)), fx(e, "Ipiv", ipiv, chk), fs(e, "shortB", b, chk), e.fld("ldb", ldb, max(1, nrhs)))
		})
	})

	reg("Dgetri", 1, true, func(e *env) {
		n := e.d(0)
		lda := max(1, n) + e.pad(0)
		a := e.dmat("a", n, lda)
		ipiv := e.ints("ipiv", n, true, e.pivots(n))
		mn := max(1, n)
		lw := e.lwv(mn)
		work := e.work(lw)
		chk := n > 0 && !e.query()
		e.run(func() {
			impl.Dgetri(e.fdim("n", n), fs(e, "shortA", a, chk), e.fld("lda", lda, max(1, n)), fx(e, "Ipiv", ipiv, chk), e.fwork(work), e.flw(lw, mn))
		})
	})

	reg("Dgesv", 2, false, func(e *env) {
		n, nrhs := e.d(0), e.d(1)
		lda, ldb := max(1, n)+e.pad(0), max(1, nrhs)+e.pad(1)
		a := e.dmat("a", n, lda)
		ipiv := e.ints("ipiv", n, true, nil)
		b := e.mat("b", n, nrhs, ldb)
		// Dgesv factorizes A whenever n > 0 (also for nrhs == 0, since the
		// repair of the nrhs == 0 quick return), so a and ipiv are examined
		// then; b only when there is a right-hand side.
		chkA := n > 0
		chk := n > 0 && nrhs > 0
		e.run(func() {
			impl.Dgesv(e.fdim("n", n), e.fdim("nrhs", nrhs), fs(e, "shortA", a, chkA), e.fld("lda", lda, max(1, n)), fx(e, "Ipiv", ipiv, chkA), fs(e, "shortB", b, chk), e.fld("ldb", ldb, max(1, nrhs)))
		})
	})

	reg("Dgecon", 1, false, func(e *env) {
		_, fnorm := flag(e, "badNorm", 0, lapack.MaxColumnSum, lapack.MaxRowSum)
		n := e.d(0)
		lda := max(1, n) + e.pad(0)
		a := e.dmat("a", n, lda)
		work := e.f64("work", 4*n)
		iwork := e.ints("iwork", n, false, nil)
		chk := n > 0
		e.run(func() {
			impl.Dgecon(fnorm, e.fdim("n", n), fs(e, "shortA", a, chk), e.fld("lda", lda, max(1, n)), e.fflt("anorm", 1.5, -1), fs(e, "shortWork", work, chk), fs(e, "shortIWork", iwork, chk))
		})
	})

	for _, name := range []string{"Dpotrf", "Dpotf2", "Dpotri"} {
		name := name
		reg(name, 1, false, func(e *env) {
			_, ful := flag(e, "badUplo", 0, blas.Upper, blas.Lower)
			n := e.d(0)
			lda := max(1, n) + e.pad(0)
			a := e.dmat("a", n, lda)
			chk := n > 0
			e.run(func() {
				switch name {
				case "Dpotrf":
					impl.Dpotrf(ful, e.fdim("n", n), fs(e, "shortA", a, chk), e.fld("lda", lda, max(1, n)))
				case "Dpotf2":
					impl.Dpotf2(ful, e.fdim("n", n), fs(e, "shortA", a, chk), e.fld("lda", lda, max(1, n)))
				default:
					impl.Dpotri(ful, e.fdim("n", n), fs(e, "shortA", a, chk), e.fld("lda", lda, max(1, n)))
				}
			})
		})
	}

	reg("Dpotrs", 2, false, func(e *env) {
		_, ful := flag(e, "badUplo", 0, blas.Upper, blas.Lower)
		n, nrhs := e.d(0), e.d(1)
		lda, ldb := max(1, n)+e.pad(0), max(1, nrhs)+e.pad(1)
		a := e.dmat("a", n, lda)
		b := e.mat("b", n, nrhs, ldb)
		chk := n > 0 && nrhs > 0
		e.run(func() {
			impl.Dpotrs(ful, e.fdim("n", n), e.fdim("nrhs", nrhs), fs(e, "shortA", a, chk), e.fld("lda", lda, max(1, n)), fs(e, "shortB", b, chk), e.fld("ldb", ldb, max(1, nrhs)))
		})
	})

	reg("Dpocon", 1, false, func(e *env) {
		_, ful := flag(e, "badUplo", 0, blas.Upper, blas.Lower)
		n := e.d(0)
		lda := max(1, n) + e.pad(0)
		a := e.dmat("a", n, lda)
		work := e.f64("work", 3*n)
		iwork := e.ints("iwork", n, false, nil)
		chk := n > 0
		e.run(func() {
			impl.Dpocon(ful, e.fdim("n", n), fs(e, "shortA", a, chk), e.fld("lda", lda, max(1, n)), e.fflt("anorm", 1.5, -1), fs(e, "shortWork", work, chk), fs(e, "shortIWork", iwork, chk))
		})
	})

	for _, name := range []string{"Dpbtrf", "Dpbtf2"} {
		name := name
		reg(name, 2, false, func(e *env) {
			ul, ful := flag(e, "badUplo", 0, blas.Upper, blas.Lower)
			n, kd := e.d(0), e.d(1)
			ldab := kd + 1 + e.pad(0)
			ab := e.f64("ab", mneed(n, kd+1, ldab))
			e.band(ab, n, kd, ldab, ul == blas.Lower)
			chk := n > 0
			e.run(func() {
				if name == "Dpbtrf" {
					impl.Dpbtrf(ful, e.fdim("n", n), e.fdim("kd", kd), fs(e, "shortAB", ab, chk), e.fld("ldab", ldab, kd+1))
				} else {
					impl.Dpbtf2(ful, e.fdim("n", n), e.fdim("kd", kd), fs(e, "shortAB", ab, chk), e.fld("ldab", ldab, kd+1))
				}
			})
		})
	}

	reg("Dpbtrs", 3, false, func(e *env) {
		ul, ful := flag(e, "badUplo", 0, blas.Upper, blas.Lower)
		n, kd, nrhs := e.d(0), e.d(1), e.d(2)
		ldab, ldb := kd+1+e.pad(0), max(1, nrhs)+e.pad(1)
		ab := e.f64("ab", mneed(n, kd+1, ldab))
		e.band(ab, n, kd, ldab, ul == blas.Lower)
		b := e.mat("b", n, nrhs, ldb)
		chk := n > 0 && nrhs > 0
		e.run(func() {
			impl.Dpbtrs(ful, e.fdim("n", n), e.fdim("kd", kd), e.fdim("nrhs", nrhs), fs(e, "shortAB", ab, chk), e.fld("ldab", ldab, kd+1), fs(e, "shortB", b, chk), e.fld("ldb", ldb, max(1, nrhs)))
		})
	})

	reg("Dpbcon", 2, false, func(e *env) {
		ul, ful := flag(e, "badUplo", 0, blas.Upper, blas.Lower)
		n, kd := e.d(0), e.d(1)
		ldab := kd + 1 + e.pad(0)
		ab := e.f64("ab", mneed(n, kd+1, ldab))
		e.band(ab, n, kd, ldab, ul == blas.Lower)
		work := e.f64("work", 3*n)
		iwork := e.ints("iwork", n, false, nil)
		chk := n > 0
		e.run(func() {
			impl.Dpbcon(ful, e.fdim("n", n), e.fdim("kd", kd), fs(e, "shortAB", ab, chk), e.fld("ldab", ldab, kd+1), e.fflt("anorm", 1.5, -1), fs(e, "shortWork", work, chk), fs(e, "shortIWork", iwork, chk))
		})
	})

	for _, name := range []string{"Dpstrf", "Dpstf2"} {
		name := name
		reg(name, 1, false, func(e *env) {
			_, ful := flag(e, "badUplo", 0, blas.Upper, blas.Lower)
			n := e.d(0)
			lda := max(1, n) + e.pad(0)
			a := e.dmat("a", n, lda)
			piv := e.ints("piv", n, true, nil)
			work := e.f64("work", 2*n)
			chk := n > 0
			e.run(func() {
				if name == "Dpstrf" {
					impl.Dpstrf(ful, e.fdim("n", n), fs(e, "shortA", a, chk), e.fld("lda", lda, max(1, n)), fx(e, "Piv", piv, chk), -1, fs(e, "shortWork", work, chk))
				} else {
					impl.Dpstf2(ful, e.fdim("n", n), fs(e, "shortA", a, chk), e.fld("lda", lda, max(1, n)), fx(e, "Piv", piv, chk), -1, fs(e, "shortWork", work, chk))
				}
			})
		})
	}
}
