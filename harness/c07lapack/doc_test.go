package c07lapack

import (
	"os"
	"path/filepath"
	"reflect"
	"runtime"
	"strings"
	"sync"

	"gonum.org/v1/gonum/lapack/gonum"
)

// The documentation is part of the oracle: where gonum's doc comment and code
// disagree (and one of them may be repaired later), the builders consult the doc
// comment of the tree under test instead of hard-coding its text.

var (
	docOnce sync.Once
	docDir  string
	docMu   sync.Mutex
	docs    = map[string]string{}
)

// docOf returns the doc comment of the exported routine (whitespace collapsed),
// read from <routine in lower case>.go next to the source of the package under
// test. It returns "" when the source cannot be found.
func docOf(routine string) string {
	docOnce.Do(func() {
		f := runtime.FuncForPC(reflect.ValueOf(gonum.Implementation.Dlange).Pointer())
		if f != nil {
			file, _ := f.FileLine(f.Entry())
			docDir = filepath.Dir(file)
		}
	})
	docMu.Lock()
	defer docMu.Unlock()
	if d, ok := docs[routine]; ok {
		return d
	}
	d := ""
	if b, err := os.ReadFile(filepath.Join(docDir, strings.ToLower(routine)+".go")); err == nil {
		lines := strings.Split(string(b), "\n")
		for i, l := range lines {
			if strings.HasPrefix(l, "func (") && strings.Contains(l, "Implementation) "+routine+"(") {
				j := i
				for j > 0 && strings.HasPrefix(lines[j-1], "//") {
					j--
				}
				var sb strings.Builder
				for _, c := range lines[j:i] {
					sb.WriteString(strings.TrimSpace(strings.TrimPrefix(c, "//")))
					sb.WriteByte(' ')
				}
				d = strings.Join(strings.Fields(sb.String()), " ")
				break
			}
		}
	}
	docs[routine] = d
	return d
}

func docSays(routine, phrase string) bool { return strings.Contains(docOf(routine), phrase) }
