package c07lapack

import (
	"gonum.org/v1/gonum/blas"
	"gonum.org/v1/gonum/lapack"
)

// schur makes the n×n window of o upper quasi-triangular in Schur canonical
// form: zero below the diagonal except for standardized 2×2 blocks (equal
// diagonal entries, off-diagonal entries of opposite sign) when blocks is set.
// It returns, per row, whether a 2×2 block starts there.
func (e *env) schur(o *op[float64], n, ld int, blocks bool) []bool {
	start := make([]bool, n)
	for i := 0; i < n; i++ {
		for j := 0; j < n; j++ {
			k := i*ld + j
			if k >= len(o.s) {
				continue
			}
			switch {
			case j < i:
				o.s[k] = 0
			case j == i:
				o.s[k] = float64(i+1) + e.g.Float()/2
			default:
				o.s[k] = e.g.Float()*2 - 1
			}
		}
	}
	if !blocks {
		return start
	}
	for j := 0; j+1 < n; j++ {
		if e.g.Intn(3) != 0 {
			continue
		}
		if (j+1)*ld+j+1 >= len(o.s) {
			break
		}
		b := 0.5 + e.g.Float()
		o.s[j*ld+j+1] = b
		o.s[(j+1)*ld+j] = -(0.5 + e.g.Float())
		o.s[(j+1)*ld+j+1] = o.s[j*ld+j]
		start[j] = true
		j++
	}
	return start
}

// hess makes the window upper Hessenberg inside rows/columns ilo..ihi and upper
// triangular outside, as Dhseqr assumes.
func (e *env) hess(o *op[float64], n, ld, ilo, ihi int) {
	for i := 0; i < n; i++ {
		for j := 0; j < n; j++ {
			k := i*ld + j
			if k >= len(o.s) {
				continue
			}
			sub := j == i-1 && i > ilo && i <= ihi
			switch {
			case j < i && !sub:
				o.s[k] = 0
			case j == i:
				o.s[k] = float64(i+1) + e.g.Float()/2
			default:
				o.s[k] = e.g.Float()*2 - 1
			}
		}
	}
}

// loHi derives a valid (ilo, ihi) pair for order n from two raw draws.
func loHi(n, r1, r2 int) (ilo, ihi int) {
	if n == 0 {
		return 0, -1
	}
	ilo = min(r1, n-1)
	ihi = ilo + min(r2, n-1-ilo)
	return ilo, ihi
}

// badLo, badHi are out-of-range values for ilo and ihi of a matrix of order n.
func badLo(e *env, n int) int { return []int{-1, max(1, n)}[e.c.Bad] }
func badHi(e *env, n, ilo int) int {
	if e.c.Bad == 0 {
		return n
	}
	return min(ilo, n-1) - 1
}

func init() {
	reg("Dsyev", 1, true, func(e *env) {
		_, fjob := flag(e, "badEVJob", 0, lapack.EVNone, lapack.EVCompute)
		_, ful := flag(e, "badUplo", 1, blas.Upper, blas.Lower)
		n := e.d(0)
		lda := max(1, n) + e.pad(0)
		a := e.dmat("a", n, lda)
		w := e.f64("w", n)
		mn := max(1, 3*n-1)
		lw := e.lwv(mn)
		work := e.work(lw)
		chk := n > 0 && !e.query()
		e.run(func() {
			impl.Dsyev(fjob, ful, e.fdim("n", n), fs(e, "shortA", a, chk), e.fld("lda", lda, max(1, n)), fs(e, "shortW", w, chk), e.fwork(work), e.flw(lw, mn))
		})
	})

	reg("Dsytrd", 1, true, func(e *env) {
		_, ful := flag(e, "badUplo", 0, blas.Upper, blas.Lower)
		n := e.d(0)
		lda := max(1, n) + e.pad(0)
		a := e.dmat("a", n, lda)
		d, ee, tau := e.f64("d", n), e.f64("e", n-1), e.f64("tau", n-1)
		lw := e.lwv(1)
		work := e.work(lw)
		chk := n > 0 && !e.query()
		e.run(func() {
			impl.Dsytrd(ful, e.fdim("n", n), fs(e, "shortA", a, chk), e.fld("lda", lda, max(1, n)), fs(e, "shortD", d, chk), fs(e, "shortE", ee, chk), fs(e, "shortTau", tau, chk), e.fwork(work), e.flw(lw, 1))
		})
	})

	reg("Dsytd2", 1, false, func(e *env) {
		_, ful := flag(e, "badUplo", 0, blas.Upper, blas.Lower)
		n := e.d(0)
		lda := max(1, n) + e.pad(0)
		a := e.dmat("a", n, lda)
		d, ee, tau := e.f64("d", n), e.f64("e", n-1), e.f64("tau", n-1)
		chk := n > 0
		e.run(func() {
			impl.Dsytd2(ful, e.fdim("n", n), fs(e, "shortA", a, chk), e.fld("lda", lda, max(1, n)), fs(e, "shortD", d, chk), fs(e, "shortE", ee, chk), fs(e, "shortTau", tau, chk))
		})
	})

	reg("Dorgtr", 1, true, func(e *env) {
		_, ful := flag(e, "badUplo", 0, blas.Upper, blas.Lower)
		n := e.d(0)
		lda := max(1, n) + e.pad(0)
		a := e.mat("a", n, n, lda)
		tau := e.f64("tau", n-1)
		mn := max(1, n-1)
		lw := e.lwv(mn)
		work := e.work(lw)
		chk := n > 0 && !e.query()
		e.run(func() {
			impl.Dorgtr(ful, e.fdim("n", n), fs(e, "shortA", a, chk), e.fld("lda", lda, max(1, n)), fs(e, "shortTau", tau, chk), e.fwork(work), e.flw(lw, mn))
		})
	})

	reg("Dsteqr", 1, false, func(e *env) {
		compz, fcompz := flag(e, "badEVComp", 0, lapack.EVCompNone, lapack.EVTridiag, lapack.EVOrig)
		n := e.d(0)
		wantz := compz != lapack.EVCompNone
		ldzMin := 1
		if wantz {
			ldzMin = max(1, n)
		}
		ldz := ldzMin + e.pad(0)
		d, ee := e.f64("d", n), e.f64("e", n-1)
		z := e.f64("z", pick(wantz, mneed(n, n, ldz), 0))
		work := e.f64("work", pick(wantz, max(1, 2*n-2), 0))
		chk := n > 0
		e.run(func() {
			impl.Dsteqr(fcompz, e.fdim("n", n), fs(e, "shortD", d, chk), fs(e, "shortE", ee, chk), fs(e, "shortZ", z, chk && wantz), e.fld("ldz", ldz, ldzMin), fs(e, "shortWork", work, chk && wantz))
		})
	})

	reg("Dsterf", 1, false, func(e *env) {
		n := e.d(0)
		d, ee := e.f64("d", n), e.f64("e", n-1)
		chk := n > 0
		e.run(func() {
			impl.Dsterf(e.fdim("n", n), fs(e, "shortD", d, chk), fs(e, "shortE", ee, chk))
		})
	})

	reg("Dgesvd", 2, true, func(e *env) {
		jobs := []lapack.SVDJob{lapack.SVDAll, lapack.SVDStore, lapack.SVDNone}
		jobU, fjobU := flag(e, "badJobU", 0, jobs...)
		jobVT, fjobVT := flag(e, "badJobVT", 1, jobs...)
		m, n := e.d(0), e.d(1)
		minmn := min(m, n)
		lda := max(1, n) + e.pad(0)
		lduMin, ucols := 1, 0
		switch jobU {
		case lapack.SVDAll:
			lduMin, ucols = max(1, m), m
		case lapack.SVDStore:
			lduMin, ucols = max(1, minmn), minmn
		}
		ldvtMin, vtrows := 1, 0
		switch jobVT {
		case lapack.SVDAll:
			ldvtMin, vtrows = max(1, n), n
		case lapack.SVDStore:
			ldvtMin, vtrows = max(1, n), minmn
		}
		ldu, ldvt := lduMin+e.pad(1), ldvtMin+e.pad(2)
		a := e.mat("a", m, n, lda)
		s := e.f64("s", minmn)
		u := e.f64("u", pick(jobU != lapack.SVDNone, mneed(m, ucols, ldu), 0))
		vt := e.f64("vt", pick(jobVT != lapack.SVDNone, mneed(vtrows, n, ldvt), 0))
		minwork := 1
		if minmn > 0 {
			minwork = max(3*minmn+max(m, n), 5*minmn)
		}
		lw := e.lwv(minwork)
		work := e.work(lw)
		chk := minmn > 0 && !e.query()
		if n == 1 && m >= 1 && ((m == 1 && lda > 1) || (jobVT != lapack.SVDNone && ldvt > 1)) {
			// tall path with n == 1: Dgesvd slices a[lda:] / vt[ldvt:] for the
			// (empty) block of rows below the first; out of range for a one-row
			// matrix whose leading dimension exceeds its length
			e.tag = "/n=1-padded-ld"
		}
		if e.query() && e.c.Loose != 0 && minmn > 0 {
			// the nested Dorgbr queries slice a[lda+1:] although a is only
			// validated after the query return
			e.tag = "/query-without-a"
		}
		e.run(func() {
			impl.Dgesvd(fjobU, fjobVT, e.fdim("m", m), e.fdim("n", n), fs(e, "shortA", a, chk), e.fld("lda", lda, max(1, n)), fs(e, "shortS", s, chk), fs(e, "shortU", u, chk && jobU != lapack.SVDNone), e.fld("ldu", ldu, lduMin), fs(e, "shortVT", vt, chk && jobVT != lapack.SVDNone), e.fld("ldvt", ldvt, ldvtMin), e.fwork(work), e.flw(lw, minwork))
		})
	})

	reg("Dgebrd", 2, true, func(e *env) {
		m, n := e.d(0), e.d(1)
		minmn := min(m, n)
		lda := max(1, n) + e.pad(0)
		a := e.mat("a", m, n, lda)
		d, ee, tauQ, tauP := e.f64("d", minmn), e.f64("e", minmn-1), e.f64("tauQ", minmn), e.f64("tauP", minmn)
		mn := max(1, max(m, n))
		lw := e.lwv(mn)
		work := e.work(lw)
		chk := minmn > 0 && !e.query()
		e.run(func() {
			impl.Dgebrd(e.fdim("m", m), e.fdim("n", n), fs(e, "shortA", a, chk), e.fld("lda", lda, max(1, n)), fs(e, "shortD", d, chk), fs(e, "shortE", ee, chk), fs(e, "shortTauQ", tauQ, chk), fs(e, "shortTauP", tauP, chk), e.fwork(work), e.flw(lw, mn))
		})
	})

	reg("Dgebd2", 2, false, func(e *env) {
		m, n := e.d(0), e.d(1)
		minmn := min(m, n)
		lda := max(1, n) + e.pad(0)
		a := e.mat("a", m, n, lda)
		d, ee, tauQ, tauP := e.f64("d", minmn), e.f64("e", minmn-1), e.f64("tauQ", minmn), e.f64("tauP", minmn)
		work := e.f64("work", max(m, n))
		chk := minmn > 0
		e.run(func() {
			impl.Dgebd2(e.fdim("m", m), e.fdim("n", n), fs(e, "shortA", a, chk), e.fld("lda", lda, max(1, n)), fs(e, "shortD", d, chk), fs(e, "shortE", ee, chk), fs(e, "shortTauQ", tauQ, chk), fs(e, "shortTauP", tauP, chk), fs(e, "shortWork", work, chk))
		})
	})

	reg("Dorgbr", 3, true, func(e *env) {
		vect, fvect := flag(e, "badGenOrtho", 0, lapack.GenerateQ, lapack.GeneratePT)
		wantq := vect == lapack.GenerateQ
		var m, n, k int
		k = e.d(2)
		if wantq { // m >= n >= min(m,k)
			m = e.d(0)
			n = min(m, min(m, k)+e.d(1))
		} else { // n >= m >= min(n,k)
			n = e.d(0)
			m = min(n, min(n, k)+e.d(1))
		}
		lda := max(1, n) + e.pad(0)
		a := e.mat("a", m, n, lda)
		ntau := min(n, k)
		if wantq {
			ntau = min(m, k)
		}
		tau := e.f64("tau", ntau)
		mn := max(1, min(m, n))
		lw := e.lwv(mn)
		work := e.work(lw)
		chk := m > 0 && n > 0 && !e.query()
		if e.query() && e.c.Loose != 0 && m > 0 && n > 0 {
			// the query slices a[lda+1:] although a is only validated afterwards
			e.tag = "/query-without-a"
		}
		e.run(func() {
			flda := e.fld("lda", lda, max(1, n))
			if e.query() && e.c.Loose != 0 && wantq {
				// code comment in Dorgbr/Dorgqr: lda is not examined by a workspace
				// query (Dgesvd passes a placeholder). Only the Q path honours it:
				// for P**T the nested Dorglq query rejects a placeholder lda.
				flda = 0
			}
			impl.Dorgbr(fvect, e.fdim("m", m), e.fdim("n", n), e.fdim("k", k), fs(e, "shortA", a, chk), flda, fs(e, "shortTau", tau, chk), e.fwork(work), e.flw(lw, mn))
		})
	})

	reg("Dormbr", 3, true, func(e *env) {
		vect, fvect := flag(e, "badApplyOrtho", 0, lapack.ApplyQ, lapack.ApplyP)
		side, fside := flag(e, "badSide", 1, blas.Left, blas.Right)
		_, ftrans := flag(e, "badTrans", 2, blas.NoTrans, blas.Trans)
		m, n, k := e.d(0), e.d(1), e.d(2)
		nq, nw := n, m
		if side == blas.Left {
			nq, nw = m, n
		}
		applyQ := vect == lapack.ApplyQ
		mnk := min(nq, k)
		var ldaMin int
		var a *op[float64]
		if applyQ {
			ldaMin = max(1, mnk)
		} else {
			ldaMin = max(1, nq)
		}
		lda := ldaMin + e.pad(0)
		if applyQ {
			a = e.mat("a", nq, mnk, lda)
		} else {
			a = e.mat("a", mnk, nq, lda)
		}
		ldc := max(1, n) + e.pad(1)
		tau := e.f64("tau", mnk)
		c := e.mat("c", m, n, ldc)
		mn := max(1, nw)
		lw := e.lwv(mn)
		work := e.work(lw)
		chk := m > 0 && n > 0 && !e.query()
		e.run(func() {
			impl.Dormbr(fvect, fside, ftrans, e.fdim("m", m), e.fdim("n", n), e.fdim("k", k), fs(e, "shortA", a, chk), e.fld("lda", lda, ldaMin), fs(e, "shortTau", tau, chk), fs(e, "shortC", c, chk), e.fld("ldc", ldc, max(1, n)), e.fwork(work), e.flw(lw, mn))
		})
	})

	reg("Dbdsqr", 4, false, func(e *env) {
		_, ful := flag(e, "badUplo", 0, blas.Upper, blas.Lower)
		n, ncvt, nru, ncc := e.d(0), e.d(1), e.d(2), e.d(3)
		ldvtMin, ldcMin := max(1, ncvt), max(1, ncc)
		lduMin := 1
		if nru > 0 {
			lduMin = max(1, n)
		}
		ldvt, ldu, ldc := ldvtMin+e.pad(0), lduMin+e.pad(1), ldcMin+e.pad(2)
		d, ee := e.f64("d", n), e.f64("e", n-1)
		vt := e.mat("vt", n, ncvt, ldvt)
		u := e.mat("u", nru, n, ldu)
		c := e.mat("c", n, ncc, ldc)
		// Documented: len(work) >= 4*(n-1). For singular values only Dbdsqr hands
		// work to Dlasq1, which wants 4*n (reference DBDSQR documents 4*n for that
		// case): as long as the doc comment does not say so, those calls are valid
		// by the documentation and reported under their own key.
		valuesOnly := ncvt == 0 && nru == 0 && ncc == 0
		needW := 4 * (n - 1)
		if valuesOnly && docSays("Dbdsqr", "4*n") {
			needW = 4 * n
		}
		work := e.f64("work", needW)
		chk := n > 0
		if valuesOnly && len(work.s) < 4*n {
			e.tag = "/values-only-documented-work"
		}
		e.run(func() {
			impl.Dbdsqr(ful, e.fdim("n", n), e.fdim("ncvt", ncvt), e.fdim("nru", nru), e.fdim("ncc", ncc), fs(e, "shortD", d, chk), fs(e, "shortE", ee, chk), fs(e, "shortVT", vt, chk && ncvt != 0), e.fld("ldvt", ldvt, ldvtMin), fs(e, "shortU", u, chk && nru != 0), e.fld("ldu", ldu, lduMin), fs(e, "shortC", c, chk && ncc != 0), e.fld("ldc", ldc, ldcMin), fs(e, "shortWork", work, chk))
		})
	})

	reg("Dgeev", 1, true, func(e *env) {
		jvl, fjvl := flag(e, "badLeftEVJob", 0, lapack.LeftEVNone, lapack.LeftEVCompute)
		jvr, fjvr := flag(e, "badRightEVJob", 1, lapack.RightEVNone, lapack.RightEVCompute)
		wantvl, wantvr := jvl == lapack.LeftEVCompute, jvr == lapack.RightEVCompute
		n := e.d(0)
		lda := max(1, n) + e.pad(0)
		ldvlMin, ldvrMin := pick(wantvl, max(1, n), 1), pick(wantvr, max(1, n), 1)
		ldvl, ldvr := ldvlMin+e.pad(1), ldvrMin+e.pad(2)
		a := e.mat("a", n, n, lda)
		wr, wi := e.f64x("wr", n), e.f64x("wi", n)
		vl := e.f64("vl", pick(wantvl, mneed(n, n, ldvl), 0))
		vr := e.f64("vr", pick(wantvr, mneed(n, n, ldvr), 0))
		mn := max(1, 3*n)
		if wantvl || wantvr {
			mn = max(1, 4*n)
		}
		lw := e.lwv(mn)
		work := e.work(lw)
		chk := n > 0 && !e.query()
		// With eigenvectors wanted the workspace query runs Dtrevc3's query, which
		// examines len(t) == len(a): a must be valid even for lwork = -1.
		chkA := chk || (n > 0 && (wantvl || wantvr))
		e.run(func() {
			impl.Dgeev(fjvl, fjvr, e.fdim("n", n), fs(e, "shortA", a, chkA), e.fld("lda", lda, max(1, n)), fx(e, "Wr", wr, chk), fx(e, "Wi", wi, chk), fs(e, "shortVL", vl, chk && wantvl), e.fld("ldvl", ldvl, ldvlMin), fs(e, "shortVR", vr, chk && wantvr), e.fld("ldvr", ldvr, ldvrMin), e.fwork(work), e.flw(lw, mn))
		})
	})

	reg("Dgebal", 1, false, func(e *env) {
		job, fjob := flag(e, "badBalanceJob", 0, lapack.BalanceNone, lapack.Permute, lapack.Scale, lapack.PermuteScale)
		n := e.d(0)
		lda := max(1, n) + e.pad(0)
		a := e.mat("a", n, n, lda)
		// some exactly zero entries so that the permutation phase has work to do
		for i := 0; i < n; i++ {
			for j := 0; j < n; j++ {
				if i != j && e.g.Intn(3) == 0 && i*lda+j < len(a.s) {
					a.s[i*lda+j] = 0
				}
			}
		}
		scale := e.f64x("scale", n)
		chk := n > 0
		e.run(func() {
			impl.Dgebal(fjob, e.fdim("n", n), fs(e, "shortA", a, chk && job != lapack.BalanceNone), e.fld("lda", lda, max(1, n)), fx(e, "Scale", scale, chk))
		})
	})

	reg("Dgebak", 4, false, func(e *env) {
		_, fjob := flag(e, "badBalanceJob", 0, lapack.BalanceNone, lapack.Permute, lapack.Scale, lapack.PermuteScale)
		_, fside := flag(e, "badEVSide", 1, lapack.EVLeft, lapack.EVRight)
		n, m := e.d(0), e.d(3)
		ilo, ihi := loHi(n, e.d(1), e.d(2))
		ldv := max(1, m) + e.pad(0)
		scale := e.f64("scale", n)
		for i := 0; i < n && i < len(scale.s); i++ {
			if i >= ilo && i <= ihi {
				scale.s[i] = []float64{0.5, 1, 2, 4}[e.g.Intn(4)]
			} else {
				scale.s[i] = float64(e.g.Intn(n))
			}
		}
		v := e.mat("v", n, m, ldv)
		chk := n > 0 && m > 0
		e.run(func() {
			impl.Dgebak(fjob, fside, e.fdim("n", n), e.fint("ilo", ilo, []int{-1, max(0, n-1) + 1}[e.c.Bad], true), e.fint("ihi", ihi, badHi(e, n, ilo), true), fs(e, "shortScale", scale, chk), e.fdim("m", m), fs(e, "shortV", v, chk), e.fld("ldv", ldv, max(1, m)))
		})
	})

	reg("Dgehrd", 3, true, func(e *env) {
		n := e.d(0)
		ilo, ihi := loHi(n, e.d(1), e.d(2))
		lda := max(1, n) + e.pad(0)
		a := e.mat("a", n, n, lda)
		tau := e.f64x("tau", n-1)
		mn := max(1, n)
		lw := e.lwv(mn)
		work := e.work(lw)
		chk := n > 0 && !e.query()
		e.run(func() {
			impl.Dgehrd(e.fdim("n", n), e.fint("ilo", ilo, []int{-1, max(0, n-1) + 1}[e.c.Bad], true), e.fint("ihi", ihi, badHi(e, n, ilo), true), fs(e, "shortA", a, chk), e.fld("lda", lda, max(1, n)), fx(e, "Tau", tau, chk), e.fwork(work), e.flw(lw, mn))
		})
	})

	reg("Dgehd2", 3, false, func(e *env) {
		n := e.d(0)
		ilo, ihi := loHi(n, e.d(1), e.d(2))
		lda := max(1, n) + e.pad(0)
		a := e.mat("a", n, n, lda)
		tau := e.f64x("tau", n-1)
		work := e.f64("work", n)
		chk := n > 0
		e.run(func() {
			impl.Dgehd2(e.fdim("n", n), e.fint("ilo", ilo, []int{-1, max(0, n-1) + 1}[e.c.Bad], true), e.fint("ihi", ihi, badHi(e, n, ilo), true), fs(e, "shortA", a, chk), e.fld("lda", lda, max(1, n)), fx(e, "Tau", tau, chk), fs(e, "shortWork", work, chk))
		})
	})

	reg("Dorghr", 3, true, func(e *env) {
		n := e.d(0)
		ilo, ihi := loHi(n, e.d(1), e.d(2))
		lda := max(1, n) + e.pad(0)
		a := e.mat("a", n, n, lda)
		tau := e.f64("tau", n-1)
		mn := max(1, ihi-ilo)
		lw := e.lwv(mn)
		work := e.work(lw)
		chk := n > 0 && !e.query()
		e.run(func() {
			// Dorghr has no n < 0 check of its own: n = -1 is caught by the ihi check
			impl.Dorghr(e.fdim("n", n), e.fint("ilo", ilo, badLo(e, n), true), e.fint("ihi", ihi, badHi(e, n, ilo), true), fs(e, "shortA", a, chk), e.fld("lda", lda, max(1, n)), fs(e, "shortTau", tau, chk), e.fwork(work), e.flw(lw, mn))
		})
	})

	reg("Dormhr", 4, true, func(e *env) {
		side, fside := flag(e, "badSide", 0, blas.Left, blas.Right)
		_, ftrans := flag(e, "badTrans", 1, blas.NoTrans, blas.Trans)
		m, n := e.d(0), e.d(1)
		nq, nw := n, m
		if side == blas.Left {
			nq, nw = m, n
		}
		ilo, ihi := loHi(nq, e.d(2), e.d(3))
		lda, ldc := max(1, nq)+e.pad(0), max(1, n)+e.pad(1)
		a := e.mat("a", nq, nq, lda)
		tau := e.f64x("tau", nq-1)
		c := e.mat("c", m, n, ldc)
		mn := max(1, nw)
		lw := e.lwv(mn)
		work := e.work(lw)
		// the nh == 0 return follows the workspace query and precedes the length checks
		chk := m > 0 && n > 0 && !e.query() && ihi-ilo > 0
		e.run(func() {
			impl.Dormhr(fside, ftrans, e.fdim("m", m), e.fdim("n", n), e.fint("ilo", ilo, badLo(e, nq), true), e.fint("ihi", ihi, badHi(e, nq, ilo), true), fs(e, "shortA", a, chk), e.fld("lda", lda, max(1, nq)), fx(e, "Tau", tau, chk), fs(e, "shortC", c, chk), e.fld("ldc", ldc, max(1, n)), e.fwork(work), e.flw(lw, mn))
		})
	})

	reg("Dhseqr", 3, true, func(e *env) {
		_, fjob := flag(e, "badSchurJob", 0, lapack.EigenvaluesOnly, lapack.EigenvaluesAndSchur)
		compz, fcompz := flag(e, "badSchurComp", 1, lapack.SchurNone, lapack.SchurHess, lapack.SchurOrig)
		wantz := compz != lapack.SchurNone
		n := e.d(0)
		ilo, ihi := loHi(n, e.d(1), e.d(2))
		ldh := max(1, n) + e.pad(0)
		ldzMin := pick(wantz, max(1, n), 1)
		ldz := ldzMin + e.pad(1)
		h := e.f64("h", mneed(n, n, ldh))
		e.hess(h, n, ldh, ilo, ihi)
		wr, wi := e.f64("wr", n), e.f64("wi", n)
		z := e.f64("z", pick(wantz, mneed(n, n, ldz), 0))
		mn := max(1, n)
		lw := e.lwv(mn)
		work := e.work(lw)
		chk := n > 0 && !e.query()
		// Documented: "it will be only checked that the block is isolated, that is,
		// ilo == 0 or H[ilo,ilo-1] == 0, ihi == n-1 or H[ihi+1,ihi] == 0, and Dhseqr
		// will panic otherwise."
		if e.at("notIsolated", chk && (ilo > 0 || ihi < n-1)) {
			lower := ilo > 0
			if ilo > 0 && ihi < n-1 {
				lower = e.c.Bad == 0
			}
			if lower {
				h.s[ilo*ldh+ilo-1] = 0.75
			} else {
				h.s[(ihi+1)*ldh+ihi] = 0.75
			}
		}
		e.run(func() {
			impl.Dhseqr(fjob, fcompz, e.fdim("n", n), e.fint("ilo", ilo, []int{-1, max(0, n-1) + 1}[e.c.Bad], true), e.fint("ihi", ihi, badHi(e, n, ilo), true), fs(e, "shortH", h, chk), e.fld("ldh", ldh, max(1, n)), fs(e, "shortWr", wr, chk), fs(e, "shortWi", wi, chk), fs(e, "shortZ", z, chk && wantz), e.fld("ldz", ldz, ldzMin), e.fwork(work), e.flw(lw, mn))
		})
	})

	reg("Dtrevc3", 2, true, func(e *env) {
		side, fside := flag(e, "badEVSide", 0, lapack.EVRight, lapack.EVLeft, lapack.EVBoth)
		how, fhow := flag(e, "badEVHowMany", 1, lapack.EVAll, lapack.EVAllMulQ, lapack.EVSelected)
		leftv := side == lapack.EVLeft || side == lapack.EVBoth
		rightv := side == lapack.EVRight || side == lapack.EVBoth
		n := e.d(0)
		ldt := max(1, n) + e.pad(0)
		t := e.f64("t", mneed(n, n, ldt))
		start := e.schur(t, n, ldt, e.c.Fl[2]%2 == 1)
		sel := make([]bool, n)
		for i := range sel {
			sel[i] = e.g.Intn(2) == 0
		}
		m := n
		if how == lapack.EVSelected {
			m = 0
			for j := 0; j < n; {
				if start[j] {
					if sel[j] || sel[j+1] {
						m += 2
					}
					j += 2
				} else {
					if sel[j] {
						m++
					}
					j++
				}
			}
		}
		mm := m + e.d(1)%3
		var selected *op[bool]
		if how == lapack.EVSelected {
			selected = e.bools("selected", n, true, func(i int) bool { return sel[i] })
		} else {
			selected = e.bools("selected", 0, false, nil)
		}
		// ldvl/ldvr: always >= 1; >= mm is enforced only on the path that gets
		// past the workspace query with m > 0
		late := n > 0 && m > 0 && !e.query()
		ldvlMin, ldvrMin := 1, 1
		if leftv && late {
			ldvlMin = max(1, mm)
		}
		if rightv && late {
			ldvrMin = max(1, mm)
		}
		ldvl, ldvr := ldvlMin+e.pad(1), ldvrMin+e.pad(2)
		vl := e.f64("vl", pick(leftv, mneed(n, mm, ldvl), 0))
		vr := e.f64("vr", pick(rightv, mneed(n, mm, ldvr), 0))
		mn := max(1, 3*n)
		lw := e.lwv(mn)
		work := e.work(lw)
		// documented: selected is standardized on return; the code does that
		// (to compute the returned m) before the workspace-query return
		e.queryMayWrite = how == lapack.EVSelected
		e.run(func() {
			impl.Dtrevc3(fside, fhow, fx(e, "Selected", selected, n > 0 && how == lapack.EVSelected), e.fdim("n", n), fs(e, "shortT", t, n > 0), e.fld("ldt", ldt, max(1, n)), fs(e, "shortVL", vl, late && leftv), e.fld("ldvl", ldvl, ldvlMin), fs(e, "shortVR", vr, late && rightv), e.fld("ldvr", ldvr, ldvrMin), e.fint("mm", mm, m-1, true), e.fwork(work), e.flw(lw, mn))
		})
	})

	reg("Dtrexc", 3, false, func(e *env) {
		compq, fcompq := flag(e, "badUpdateSchurComp", 0, lapack.UpdateSchur, lapack.UpdateSchurNone)
		wantq := compq == lapack.UpdateSchur
		n := e.d(0)
		ldt := max(1, n) + e.pad(0)
		ldqMin := pick(wantq, max(1, n), 1)
		ldq := ldqMin + e.pad(1)
		t := e.f64("t", mneed(n, n, ldt))
		e.schur(t, n, ldt, e.c.Fl[1]%2 == 1)
		q := e.f64("q", pick(wantq, mneed(n, n, ldq), 0))
		ifst, ilst := 0, 0
		if n > 0 {
			ifst, ilst = e.d(1)%n, e.d(2)%n
		}
		work := e.f64("work", n)
		chk := n > 0
		e.run(func() {
			impl.Dtrexc(fcompq, e.fdim("n", n), fs(e, "shortT", t, chk), e.fld("ldt", ldt, max(1, n)), fs(e, "shortQ", q, chk && wantq), e.fld("ldq", ldq, ldqMin), e.fint("ifst", ifst, []int{-1, n}[e.c.Bad], n > 0), e.fint("ilst", ilst, []int{-1, n}[e.c.Bad], n > 0), fs(e, "shortWork", work, chk))
		})
	})
}
