package c07lapack

import (
	"encoding/json"
	"os"
	"path/filepath"
	"strconv"
	"strings"
	"testing"

	"pgregory.net/rapid"
	"verifharness/vk"
)

// TestWitness is a development aid: with C07L_WITNESS=<dir> it samples cases,
// and writes, for every failure key met, the smallest failing case as a replay
// file into dir.
func TestWitness(t *testing.T) {
	dir := os.Getenv("C07L_WITNESS")
	if dir == "" {
		t.Skip("C07L_WITNESS not set")
	}
	type hit struct {
		sub  string
		c    Case
		f    *vk.Failure
		size int
	}
	best := map[string]hit{}
	size := func(c Case) int {
		s := c.X + c.LW + c.Pre + c.Post + c.Loose
		for i := range c.D {
			s += 3*c.D[i]*max(1, c.Big) + c.P[i]
		}
		if c.Mode != "" {
			s += 2
		}
		return s
	}
	try := func(sub string, c Case, check func(Case) *vk.Failure) {
		var f *vk.Failure
		func() {
			defer func() {
				if r := recover(); r != nil {
					f = vk.Failf("unexpected-panic", "%v", r)
				}
			}()
			f = check(c)
		}()
		if f == nil {
			return
		}
		key := sub + "/" + f.Key
		if h, ok := best[key]; !ok || size(c) < h.size {
			best[key] = hit{sub, c, f, size(c)}
		}
	}
	n := 400000
	if v := os.Getenv("C07L_WITNESS_N"); v != "" {
		n, _ = strconv.Atoi(v)
	}
	gf := rapid.Custom(drawFault)
	gv := rapid.Custom(drawValid)
	for i := 0; i < n; i++ {
		try("lapack-fault", gf.Example(i), checkFault)
		try("lapack-valid-edge", gv.Example(i), checkValid)
	}
	_ = os.MkdirAll(dir, 0o755)
	for _, c := range l64Cases() {
		if f := checkL64(c); f != nil {
			key := "lapack64-empty/" + f.Key
			f.Key = key
			raw, _ := json.Marshal(c)
			out := map[string]any{"property": "C07", "sub": "lapack64-empty", "failure": f, "case": json.RawMessage(raw)}
			b, _ := json.MarshalIndent(out, "", " ")
			_ = os.WriteFile(filepath.Join(dir, "lapack64-empty_"+c.W+".json"), b, 0o644)
			t.Logf("%s: %s", key, f.Msg)
		}
	}
	for key, h := range best {
		raw, _ := json.Marshal(h.c)
		h.f.Key = key
		out := map[string]any{"property": "C07", "sub": h.sub, "failure": h.f, "case": json.RawMessage(raw)}
		b, _ := json.MarshalIndent(out, "", " ")
		name := strings.NewReplacer("/", "_", "<", "lt", "=", "", "[", "", "]", "").Replace(strings.TrimPrefix(strings.TrimPrefix(key, "lapack-fault/"), "lapack-valid-edge/"))
		_ = os.WriteFile(filepath.Join(dir, "lapack-"+name+".json"), b, 0o644)
		t.Logf("%s (size %d): %s", key, h.size, h.f.Msg)
	}
}
