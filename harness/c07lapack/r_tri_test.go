package c07lapack

import (
	"gonum.org/v1/gonum/blas"
	"gonum.org/v1/gonum/lapack"
)

var norms4 = []lapack.MatrixNorm{lapack.MaxAbs, lapack.MaxRowSum, lapack.MaxColumnSum, lapack.Frobenius}

func init() {
	for _, name := range []string{"Dtrtri", "Dtrti2"} {
		name := name
		reg(name, 1, false, func(e *env) {
			_, ful := flag(e, "badUplo", 0, blas.Upper, blas.Lower)
			_, fdg := flag(e, "badDiag", 1, blas.NonUnit, blas.Unit)
			n := e.d(0)
			lda := max(1, n) + e.pad(0)
			a := e.dmat("a", n, lda)
			chk := n > 0
			e.run(func() {
				if name == "Dtrtri" {
					impl.Dtrtri(ful, fdg, e.fdim("n", n), fs(e, "shortA", a, chk), e.fld("lda", lda, max(1, n)))
				} else {
					impl.Dtrti2(ful, fdg, e.fdim("n", n), fs(e, "shortA", a, chk), e.fld("lda", lda, max(1, n)))
				}
			})
		})
	}

	reg("Dtrtrs", 2, false, func(e *env) {
		_, ful := flag(e, "badUplo", 0, blas.Upper, blas.Lower)
		_, ftr := flag(e, "badTrans", 1, blas.NoTrans, blas.Trans, blas.ConjTrans)
		_, fdg := flag(e, "badDiag", 2, blas.NonUnit, blas.Unit)
		n, nrhs := e.d(0), e.d(1)
		lda, ldb := max(1, n)+e.pad(0), max(1, nrhs)+e.pad(1)
		a := e.dmat("a", n, lda)
		b := e.mat("b", n, nrhs, ldb)
		chk := n > 0 // no quick return for nrhs == 0
		e.run(func() {
			impl.Dtrtrs(ful, ftr, fdg, e.fdim("n", n), e.fdim("nrhs", nrhs), fs(e, "shortA", a, chk), e.fld("lda", lda, max(1, n)), fs(e, "shortB", b, chk), e.fld("ldb", ldb, max(1, nrhs)))
		})
	})

	reg("Dtrcon", 1, false, func(e *env) {
		_, fnorm := flag(e, "badNorm", 0, lapack.MaxColumnSum, lapack.MaxRowSum)
		_, ful := flag(e, "badUplo", 1, blas.Upper, blas.Lower)
		_, fdg := flag(e, "badDiag", 2, blas.NonUnit, blas.Unit)
		n := e.d(0)
		lda := max(1, n) + e.pad(0)
		a := e.dmat("a", n, lda)
		work := e.f64("work", 3*n)
		iwork := e.ints("iwork", n, false, nil)
		chk := n > 0
		e.run(func() {
			impl.Dtrcon(fnorm, ful, fdg, e.fdim("n", n), fs(e, "shortA", a, chk), e.fld("lda", lda, max(1, n)), fs(e, "shortWork", work, chk), fs(e, "shortIWork", iwork, chk))
		})
	})

	reg("Dtbtrs", 3, false, func(e *env) {
		ul, ful := flag(e, "badUplo", 0, blas.Upper, blas.Lower)
		_, ftr := flag(e, "badTrans", 1, blas.NoTrans, blas.Trans, blas.ConjTrans)
		_, fdg := flag(e, "badDiag", 2, blas.NonUnit, blas.Unit)
		n, kd, nrhs := e.d(0), e.d(1), e.d(2)
		lda, ldb := kd+1+e.pad(0), max(1, nrhs)+e.pad(1)
		a := e.f64("a", mneed(n, kd+1, lda))
		e.band(a, n, kd, lda, ul == blas.Lower)
		b := e.mat("b", n, nrhs, ldb)
		chk := n > 0
		e.run(func() {
			impl.Dtbtrs(ful, ftr, fdg, e.fdim("n", n), e.fdim("kd", kd), e.fdim("nrhs", nrhs), fs(e, "shortA", a, chk), e.fld("lda", lda, kd+1), fs(e, "shortB", b, chk), e.fld("ldb", ldb, max(1, nrhs)))
		})
	})

	// tridiag fills d with a dominant positive diagonal.
	tridiag := func(e *env, d *op[float64], n int) {
		for i := 0; i < n && i < len(d.s); i++ {
			d.s[i] = 4 + e.g.Float()
		}
	}

	reg("Dgtsv", 2, false, func(e *env) {
		n, nrhs := e.d(0), e.d(1)
		ldb := max(1, nrhs) + e.pad(0)
		dl, d, du := e.f64("dl", n-1), e.f64("d", n), e.f64("du", n-1)
		tridiag(e, d, n)
		b := e.mat("b", n, nrhs, ldb)
		chk := n > 0 && nrhs > 0
		e.run(func() {
			impl.Dgtsv(e.fdim("n", n), e.fdim("nrhs", nrhs), fs(e, "shortDL", dl, chk), fs(e, "shortD", d, chk), fs(e, "shortDU", du, chk), fs(e, "shortB", b, chk), e.fld("ldb", ldb, max(1, nrhs)))
		})
	})

	for _, name := range []string{"Dptsv", "Dpttrs"} {
		name := name
		reg(name, 2, false, func(e *env) {
			n, nrhs := e.d(0), e.d(1)
			ldb := max(1, nrhs) + e.pad(0)
			d, ee := e.f64("d", n), e.f64("e", n-1)
			tridiag(e, d, n)
			b := e.mat("b", n, nrhs, ldb)
			chk := n > 0 && nrhs > 0
			e.run(func() {
				if name == "Dptsv" {
					impl.Dptsv(e.fdim("n", n), e.fdim("nrhs", nrhs), fs(e, "shortD", d, chk), fs(e, "shortE", ee, chk), fs(e, "shortB", b, chk), e.fld("ldb", ldb, max(1, nrhs)))
				} else {
					impl.Dpttrs(e.fdim("n", n), e.fdim("nrhs", nrhs), fs(e, "shortD", d, chk), fs(e, "shortE", ee, chk), fs(e, "shortB", b, chk), e.fld("ldb", ldb, max(1, nrhs)))
				}
			})
		})
	}

	reg("Dpttrf", 1, false, func(e *env) {
		n := e.d(0)
		d, ee := e.f64("d", n), e.f64("e", n-1)
		tridiag(e, d, n)
		chk := n > 0
		e.run(func() {
			impl.Dpttrf(e.fdim("n", n), fs(e, "shortD", d, chk), fs(e, "shortE", ee, chk))
		})
	})

	for _, name := range []string{"Dlauum", "Dlauu2"} {
		name := name
		reg(name, 1, false, func(e *env) {
			_, ful := flag(e, "badUplo", 0, blas.Upper, blas.Lower)
			n := e.d(0)
			lda := max(1, n) + e.pad(0)
			a := e.dmat("a", n, lda)
			chk := n > 0
			e.run(func() {
				if name == "Dlauum" {
					impl.Dlauum(ful, e.fdim("n", n), fs(e, "shortA", a, chk), e.fld("lda", lda, max(1, n)))
				} else {
					impl.Dlauu2(ful, e.fdim("n", n), fs(e, "shortA", a, chk), e.fld("lda", lda, max(1, n)))
				}
			})
		})
	}

	// Dlaswp validates everything before its n == 0 return.
	reg("Dlaswp", 3, false, func(e *env) {
		n := e.d(0)
		k1 := e.d(1)
		k2 := k1 + e.d(2)
		lda := max(1, n) + e.pad(0)
		a := e.f64("a", k2*lda+n)
		ipiv := e.ints("ipiv", k2+1, true, func(i int) int { return e.g.Intn(k2 + 1) })
		incx := []int{1, -1}[e.c.Fl[0]%2]
		e.run(func() {
			impl.Dlaswp(e.fdim("n", n), fs(e, "shortA", a, true), e.fld("lda", lda, max(1, n)), e.fint("k1", k1, -1, true), e.fint("k2", k2, k1-1, true), fx(e, "Ipiv", ipiv, true), e.fint("incx", incx, []int{0, 2}[e.c.Bad], true))
		})
	})

	for _, name := range []string{"Dlapmt", "Dlapmr"} {
		name := name
		reg(name, 2, false, func(e *env) {
			m, n := e.d(0), e.d(1)
			ldx := max(1, n) + e.pad(0)
			x := e.mat("x", m, n, ldx)
			kn := n
			if name == "Dlapmr" {
				kn = m
			}
			k := e.ints("k", kn, true, e.perm(kn))
			forward := e.c.Fl[0]%2 == 0
			chk := m > 0 && n > 0
			// k is documented as the permutation to apply: an entry outside [0,len(k))
			// or a repeated entry is not a permutation.
			if e.at("kElement", chk) {
				k.s[e.g.Intn(kn)] = []int{-1, kn}[e.c.Bad]
			}
			if e.at("kDuplicate", chk && kn >= 2) {
				i := e.g.Intn(kn)
				j := (i + 1 + e.g.Intn(kn-1)) % kn
				k.s[i] = k.s[j]
			}
			e.run(func() {
				if name == "Dlapmt" {
					impl.Dlapmt(forward, e.fdim("m", m), e.fdim("n", n), fs(e, "shortX", x, chk), e.fld("ldx", ldx, max(1, n)), fx(e, "K", k, chk))
				} else {
					impl.Dlapmr(forward, e.fdim("m", m), e.fdim("n", n), fs(e, "shortX", x, chk), e.fld("ldx", ldx, max(1, n)), fx(e, "K", k, chk))
				}
			})
		})
	}

	// ---- norms ----------------------------------------------------------------
	reg("Dlange", 2, false, func(e *env) {
		norm, fnorm := flag(e, "badNorm", 0, norms4...)
		m, n := e.d(0), e.d(1)
		lda := max(1, n) + e.pad(0)
		a := e.mat("a", m, n, lda)
		chk := m > 0 && n > 0
		needW := norm == lapack.MaxColumnSum
		work := e.f64("work", pick(needW, n, 0))
		e.run(func() {
			impl.Dlange(fnorm, e.fdim("m", m), e.fdim("n", n), fs(e, "shortA", a, chk), e.fld("lda", lda, max(1, n)), fs(e, "shortWork", work, chk && needW))
		})
	})

	reg("Dlansy", 1, false, func(e *env) {
		norm, fnorm := flag(e, "badNorm", 0, norms4...)
		_, ful := flag(e, "badUplo", 1, blas.Upper, blas.Lower)
		n := e.d(0)
		lda := max(1, n) + e.pad(0)
		a := e.dmat("a", n, lda)
		chk := n > 0
		needW := norm == lapack.MaxColumnSum || norm == lapack.MaxRowSum
		work := e.f64("work", pick(needW, n, 0))
		e.run(func() {
			impl.Dlansy(fnorm, ful, e.fdim("n", n), fs(e, "shortA", a, chk), e.fld("lda", lda, max(1, n)), fs(e, "shortWork", work, chk && needW))
		})
	})

	reg("Dlantr", 2, false, func(e *env) {
		norm, fnorm := flag(e, "badNorm", 0, norms4...)
		_, ful := flag(e, "badUplo", 1, blas.Upper, blas.Lower)
		_, fdg := flag(e, "badDiag", 2, blas.NonUnit, blas.Unit)
		m, n := e.d(0), e.d(1)
		lda := max(1, n) + e.pad(0)
		a := e.mat("a", m, n, lda)
		chk := m > 0 && n > 0
		needW := norm == lapack.MaxColumnSum
		work := e.f64("work", pick(needW, n, 0))
		e.run(func() {
			impl.Dlantr(fnorm, ful, fdg, e.fdim("m", m), e.fdim("n", n), fs(e, "shortA", a, chk), e.fld("lda", lda, max(1, n)), fs(e, "shortWork", work, chk && needW))
		})
	})

	reg("Dlansb", 2, false, func(e *env) {
		norm, fnorm := flag(e, "badNorm", 0, norms4...)
		ul, ful := flag(e, "badUplo", 1, blas.Upper, blas.Lower)
		n, kd := e.d(0), e.d(1)
		ldab := kd + 1 + e.pad(0)
		ab := e.f64("ab", mneed(n, kd+1, ldab))
		e.band(ab, n, kd, ldab, ul == blas.Lower)
		chk := n > 0
		needW := norm == lapack.MaxColumnSum || norm == lapack.MaxRowSum
		work := e.f64("work", pick(needW, n, 0))
		e.run(func() {
			impl.Dlansb(fnorm, ful, e.fdim("n", n), e.fdim("kd", kd), fs(e, "shortAB", ab, chk), e.fld("ldab", ldab, kd+1), fs(e, "shortWork", work, chk && needW))
		})
	})

	reg("Dlantb", 2, false, func(e *env) {
		norm, fnorm := flag(e, "badNorm", 0, norms4...)
		ul, ful := flag(e, "badUplo", 1, blas.Upper, blas.Lower)
		_, fdg := flag(e, "badDiag", 2, blas.NonUnit, blas.Unit)
		n, k := e.d(0), e.d(1)
		lda := k + 1 + e.pad(0)
		a := e.f64("a", mneed(n, k+1, lda))
		e.band(a, n, k, lda, ul == blas.Lower)
		chk := n > 0
		needW := norm == lapack.MaxColumnSum
		work := e.f64("work", pick(needW, n, 0))
		e.run(func() {
			impl.Dlantb(fnorm, ful, fdg, e.fdim("n", n), e.fdim("k", k), fs(e, "shortA", a, chk), e.fld("lda", lda, k+1), fs(e, "shortWork", work, chk && needW))
		})
	})

	reg("Dlangb", 4, false, func(e *env) {
		_, fnorm := flag(e, "badNorm", 0, norms4...)
		m, n, kl, ku := e.d(0), e.d(1), e.d(2), e.d(3)
		ldab := kl + ku + 1 + e.pad(0)
		ab := e.f64("ab", min(m, n+kl)*ldab)
		chk := m > 0 && n > 0
		e.run(func() {
			impl.Dlangb(fnorm, e.fdim("m", m), e.fdim("n", n), e.fdim("kl", kl), e.fdim("ku", ku), fs(e, "shortAB", ab, chk), e.fld("ldab", ldab, kl+ku+1))
		})
	})

	reg("Dlangt", 1, false, func(e *env) {
		_, fnorm := flag(e, "badNorm", 0, norms4...)
		n := e.d(0)
		dl, d, du := e.f64("dl", n-1), e.f64("d", n), e.f64("du", n-1)
		chk := n > 0
		e.run(func() {
			impl.Dlangt(fnorm, e.fdim("n", n), fs(e, "shortDL", dl, chk), fs(e, "shortD", d, chk), fs(e, "shortDU", du, chk))
		})
	})

	reg("Dlanst", 1, false, func(e *env) {
		_, fnorm := flag(e, "badNorm", 0, norms4...)
		n := e.d(0)
		d, ee := e.f64("d", n), e.f64("e", n-1)
		chk := n > 0
		e.run(func() {
			impl.Dlanst(fnorm, e.fdim("n", n), fs(e, "shortD", d, chk), fs(e, "shortE", ee, chk))
		})
	})
}

func pick(c bool, a, b int) int {
	if c {
		return a
	}
	return b
}
