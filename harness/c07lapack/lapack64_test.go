package c07lapack

import (
	"testing"

	"gonum.org/v1/gonum/blas"
	"gonum.org/v1/gonum/blas/blas64"
	"gonum.org/v1/gonum/lapack"
	"gonum.org/v1/gonum/lapack/lapack64"
	"verifharness/vk"
)

// The lapack64 wrappers pass max(1, Stride) as leading dimension so that an
// empty matrix with Stride 0 (nil Data), as package mat produces, is accepted.
// This sub-check calls every wrapper with every zero-sized shape that satisfies
// the routine's dimension constraints: the call must return.

type l64Case struct {
	W string // wrapper
	I int    // index of the empty shape
}

type l64Entry struct {
	name  string
	calls []func()
}

// gen returns an r×c general matrix without data: Stride is c, hence 0 for a
// zero-width matrix.
func gen(r, c int) blas64.General { return blas64.General{Rows: r, Cols: c, Stride: c} }

func l64Table() []l64Entry {
	work := func() []float64 { return make([]float64, 64) }
	iwork := func() []int { return make([]int, 8) }
	sy := blas64.Symmetric{N: 0, Stride: 0, Uplo: blas.Upper}
	tr := blas64.Triangular{N: 0, Stride: 0, Uplo: blas.Upper, Diag: blas.NonUnit}
	sb := blas64.SymmetricBand{N: 0, K: 0, Stride: 0, Uplo: blas.Upper}
	tb := blas64.TriangularBand{N: 0, K: 0, Stride: 0, Uplo: blas.Upper, Diag: blas.NonUnit}
	td := lapack64.Tridiagonal{N: 0}
	shapes := [][2]int{{0, 0}, {3, 0}, {0, 3}}
	var t []l64Entry
	add := func(name string, calls ...func()) { t = append(t, l64Entry{name, calls}) }
	forShapes := func(name string, f func(r, c int)) {
		var calls []func()
		for _, s := range shapes {
			s := s
			calls = append(calls, func() { f(s[0], s[1]) })
		}
		add(name, calls...)
	}

	add("Potrf", func() { lapack64.Potrf(sy) })
	add("Potri", func() { lapack64.Potri(tr) })
	add("Potrs", func() { lapack64.Potrs(tr, gen(0, 0)) }, func() { lapack64.Potrs(tr, gen(0, 2)) })
	add("Pbcon", func() { lapack64.Pbcon(sb, 1, work(), iwork()) })
	add("Pbtrf", func() { lapack64.Pbtrf(sb) })
	add("Pbtrs", func() { lapack64.Pbtrs(tb, gen(0, 0)) }, func() { lapack64.Pbtrs(tb, gen(0, 2)) })
	add("Pstrf", func() { lapack64.Pstrf(sy, nil, -1, work()) })
	add("Pocon", func() { lapack64.Pocon(sy, 1, work(), iwork()) })
	add("Gecon", func() { lapack64.Gecon(lapack.MaxColumnSum, gen(0, 0), 1, work(), iwork()) })
	add("Gels",
		func() { lapack64.Gels(blas.NoTrans, gen(0, 0), gen(0, 0), work(), 64) },
		func() { lapack64.Gels(blas.NoTrans, gen(3, 0), gen(3, 0), work(), 64) },
		func() { lapack64.Gels(blas.NoTrans, gen(0, 3), gen(3, 0), work(), 64) },
		func() { lapack64.Gels(blas.Trans, gen(3, 0), gen(3, 0), work(), 64) })
	forShapes("Geqp3", func(r, c int) { lapack64.Geqp3(gen(r, c), make([]int, c), nil, work(), 64) })
	forShapes("Geqrf", func(r, c int) { lapack64.Geqrf(gen(r, c), nil, work(), 64) })
	forShapes("Gelqf", func(r, c int) { lapack64.Gelqf(gen(r, c), nil, work(), 64) })
	forShapes("Gesvd", func(r, c int) {
		lapack64.Gesvd(lapack.SVDNone, lapack.SVDNone, gen(r, c), blas64.General{}, blas64.General{}, nil, work(), 64)
	})
	forShapes("Getrf", func(r, c int) { lapack64.Getrf(gen(r, c), nil) })
	add("Getri", func() { lapack64.Getri(gen(0, 0), nil, work(), 64) })
	add("Getrs", func() { lapack64.Getrs(blas.NoTrans, gen(0, 0), gen(0, 0), nil) }, func() { lapack64.Getrs(blas.Trans, gen(0, 0), gen(0, 2), nil) })
	add("Ggsvd3", func() {
		lapack64.Ggsvd3(lapack.GSVDNone, lapack.GSVDNone, lapack.GSVDNone, gen(0, 0), gen(0, 0), nil, nil, blas64.General{}, blas64.General{}, blas64.General{}, work(), 64, nil)
	})
	add("Gtsv", func() { lapack64.Gtsv(blas.NoTrans, td, gen(0, 0)) }, func() { lapack64.Gtsv(blas.Trans, td, gen(0, 2)) })
	add("Lagtm", func() { lapack64.Lagtm(blas.NoTrans, 1, td, gen(0, 0), 0, gen(0, 0)) })
	forShapes("Lange", func(r, c int) { lapack64.Lange(lapack.MaxColumnSum, gen(r, c), work()) })
	add("Langb", func() { lapack64.Langb(lapack.MaxAbs, blas64.Band{}) })
	add("Langt", func() { lapack64.Langt(lapack.MaxAbs, td) })
	add("Lansb", func() { lapack64.Lansb(lapack.MaxColumnSum, sb, work()) })
	add("Lansy", func() { lapack64.Lansy(lapack.MaxColumnSum, sy, work()) })
	add("Lantr", func() { lapack64.Lantr(lapack.MaxColumnSum, tr, work()) })
	add("Lantb", func() { lapack64.Lantb(lapack.MaxColumnSum, tb, work()) })
	forShapes("Lapmr", func(r, c int) { lapack64.Lapmr(true, gen(r, c), make([]int, r)) })
	forShapes("Lapmt", func(r, c int) { lapack64.Lapmt(true, gen(r, c), make([]int, c)) })
	// Dorglq: 0 <= k <= m <= n; Dorgqr: 0 <= k <= n <= m
	add("Orglq", func() { lapack64.Orglq(gen(0, 0), nil, work(), 64) }, func() { lapack64.Orglq(gen(0, 3), nil, work(), 64) })
	add("Orgqr", func() { lapack64.Orgqr(gen(0, 0), nil, work(), 64) }, func() { lapack64.Orgqr(gen(3, 0), nil, work(), 64) })
	// Ormlq: a is k×nq with k = len(tau) = 0; Ormqr: a is nq×k
	add("Ormlq",
		func() { lapack64.Ormlq(blas.Left, blas.NoTrans, gen(0, 0), nil, gen(0, 0), work(), 64) },
		func() { lapack64.Ormlq(blas.Left, blas.Trans, gen(0, 3), nil, gen(3, 0), work(), 64) },
		func() { lapack64.Ormlq(blas.Right, blas.NoTrans, gen(0, 3), nil, gen(0, 3), work(), 64) },
		func() { lapack64.Ormlq(blas.Right, blas.NoTrans, gen(0, 0), nil, gen(3, 0), work(), 64) })
	add("Ormqr",
		func() { lapack64.Ormqr(blas.Left, blas.NoTrans, gen(0, 0), nil, gen(0, 0), work(), 64) },
		func() { lapack64.Ormqr(blas.Left, blas.Trans, gen(3, 0), nil, gen(3, 0), work(), 64) },
		func() { lapack64.Ormqr(blas.Right, blas.NoTrans, gen(3, 0), nil, gen(0, 3), work(), 64) },
		func() { lapack64.Ormqr(blas.Right, blas.NoTrans, gen(0, 0), nil, gen(3, 0), work(), 64) })
	add("Syev", func() { lapack64.Syev(lapack.EVNone, sy, nil, work(), 64) }, func() { lapack64.Syev(lapack.EVCompute, sy, nil, work(), 64) })
	add("Tbtrs", func() { lapack64.Tbtrs(blas.NoTrans, tb, gen(0, 0)) }, func() { lapack64.Tbtrs(blas.Trans, tb, gen(0, 2)) })
	add("Trcon", func() { lapack64.Trcon(lapack.MaxColumnSum, tr, work(), iwork()) })
	add("Trtri", func() { lapack64.Trtri(tr) })
	add("Trtrs", func() { lapack64.Trtrs(blas.NoTrans, tr, gen(0, 0)) }, func() { lapack64.Trtrs(blas.Trans, tr, gen(0, 2)) })
	add("Geev", func() {
		lapack64.Geev(lapack.LeftEVNone, lapack.RightEVNone, gen(0, 0), nil, nil, blas64.General{}, blas64.General{}, work(), 64)
	}, func() {
		lapack64.Geev(lapack.LeftEVCompute, lapack.RightEVCompute, gen(0, 0), nil, nil, gen(0, 0), gen(0, 0), work(), 64)
	})
	return t
}

func l64Cases() []l64Case {
	var cs []l64Case
	for _, e := range l64Table() {
		for i := range e.calls {
			cs = append(cs, l64Case{e.name, i})
		}
	}
	return cs
}

func checkL64(c l64Case) *vk.Failure {
	for _, e := range l64Table() {
		if e.name != c.W || c.I < 0 || c.I >= len(e.calls) {
			continue
		}
		vk.Class("lapack64-empty/" + c.W)
		vk.NonTrivial("lapack64-empty", c.W, c.I)
		vk.Sample("lapack64-empty", c)
		r := vk.Call(e.calls[c.I])
		if r.Outcome != vk.Returned {
			return vk.Failf("valid-call-"+r.Outcome.String()+"/"+c.W, "lapack64.%s on an empty matrix with Stride 0 (shape %d): %s", c.W, c.I, r.Text)
		}
		return nil
	}
	return vk.Failf("unknown-wrapper", "%q/%d", c.W, c.I)
}

// TestLapack64Empty: every lapack64 wrapper accepts zero-sized operands whose
// Stride is 0.
func TestLapack64Empty(t *testing.T) {
	cs := l64Cases()
	vk.Enumerate(t, "lapack64-empty", len(cs), func(i int) l64Case { return cs[i] }, checkL64)
}
