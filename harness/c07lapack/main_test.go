// Package c07lapack is the LAPACK half of property C07: invalid arguments panic
// before any write; valid arguments never fault. It drives the exported
// routines of gonum.org/v1/gonum/lapack/gonum.Implementation.
package c07lapack

import (
	"testing"

	"verifharness/vk"
)

func TestMain(m *testing.M) { vk.Main(m, "C07") }
