package c07lapack

import (
	"gonum.org/v1/gonum/lapack"
)

// gsvdJobs holds the decoded job flags and the derived leading dimensions of
// the U, V, Q arguments shared by Dggsvd3, Dggsvp3 and Dtgsja.
type gsvdArgs struct {
	fjobU, fjobV, fjobQ    lapack.GSVDJob // as passed (possibly illegal)
	jobU, jobV, jobQ       lapack.GSVDJob // valid
	wantu, wantv, wantq    bool
	m, p, n                int
	lda, ldb               int
	ldu, ldv, ldq          int
	lduMin, ldvMin, ldqMin int
	a, b, u, v, q          *op[float64]
}

func gsvdSetup(e *env, withUnit bool) *gsvdArgs {
	g := &gsvdArgs{}
	u := []lapack.GSVDJob{lapack.GSVDU, lapack.GSVDNone}
	v := []lapack.GSVDJob{lapack.GSVDV, lapack.GSVDNone}
	q := []lapack.GSVDJob{lapack.GSVDQ, lapack.GSVDNone}
	if withUnit {
		u, v, q = append(u, lapack.GSVDUnit), append(v, lapack.GSVDUnit), append(q, lapack.GSVDUnit)
	}
	var ju, jv, jq lapack.GSVDJob
	ju, g.fjobU = flag(e, "badJobU", 0, u...)
	jv, g.fjobV = flag(e, "badJobV", 1, v...)
	jq, g.fjobQ = flag(e, "badJobQ", 2, q...)
	g.jobU, g.jobV, g.jobQ = ju, jv, jq
	g.wantu, g.wantv, g.wantq = ju != lapack.GSVDNone, jv != lapack.GSVDNone, jq != lapack.GSVDNone
	g.m, g.p, g.n = e.d(0), e.d(1), e.d(2)
	g.lda, g.ldb = max(1, g.n)+e.pad(0), max(1, g.n)+e.pad(1)
	g.lduMin, g.ldvMin, g.ldqMin = pick(g.wantu, max(1, g.m), 1), pick(g.wantv, max(1, g.p), 1), pick(g.wantq, max(1, g.n), 1)
	g.ldu, g.ldv, g.ldq = g.lduMin+e.pad(2), g.ldvMin+e.pad(3), g.ldqMin+e.pad(4)
	g.a = e.mat("a", g.m, g.n, g.lda)
	g.b = e.mat("b", g.p, g.n, g.ldb)
	g.u = e.f64("u", pick(g.wantu, mneed(g.m, g.m, g.ldu), 0))
	g.v = e.f64("v", pick(g.wantv, mneed(g.p, g.p, g.ldv), 0))
	g.q = e.f64("q", pick(g.wantq, mneed(g.n, g.n, g.ldq), 0))
	return g
}

func init() {
	// Dggsvp3 and Dggsvd3 have no zero-size quick return: after the workspace
	// query every length is examined. Their documented minimal lwork (1 and n+1)
	// is accepted by the prologue but is not enough for the routines they call
	// (Dgeqp3 wants 3n+1), so valid calls use the queried optimum; the documented
	// minimum is exercised under its own tag.
	reg("Dggsvp3", 3, true, func(e *env) {
		g := gsvdSetup(e, false)
		iwork := e.ints("iwork", g.n, true, nil)
		tau := e.f64("tau", g.n)
		docMin := 1
		mn := docMin
		m0 := g.m == 0 && g.n > 0 // zero-row A: Dggsvp3 slices a[n-l:] of the empty a
		if m0 {
			e.tag = "/m=0"
		} else if g.wantq && g.m < g.n-min(g.p, g.n) {
			// n-l > k: Dggsvp3 applies the RQ reflectors of A with Dorm2r (reference:
			// DORMR2), whose length rule for a is that of an (n-l)×k matrix
			e.tag = "/wantq-m<n-l"
		}
		if e.c.LW > 0 || e.c.X > 0 || e.c.Fault != "" || e.discover || e.tag != "" || !docSays("Dggsvp3", "lwork must be -1 or greater than zero") {
			q := make([]float64, 1)
			impl.Dggsvp3(g.jobU, g.jobV, g.jobQ, g.m, g.p, g.n, nil, g.lda, nil, g.ldb, 0, 0, nil, g.ldu, nil, g.ldv, nil, g.ldq, make([]int, g.n), nil, q, -1)
			mn = int(q[0])
		} else if !e.query() {
			e.tag = "/documented-min-lwork"
		}
		lw := e.lwv(mn)
		work := e.work(lw)
		chk := !e.query()
		e.run(func() {
			impl.Dggsvp3(g.fjobU, g.fjobV, g.fjobQ, e.fdim("m", g.m), e.fdim("p", g.p), e.fdim("n", g.n), fs(e, "shortA", g.a, chk), e.fld("lda", g.lda, max(1, g.n)), fs(e, "shortB", g.b, chk), e.fld("ldb", g.ldb, max(1, g.n)), 0, 0,
				fs(e, "shortU", g.u, chk && g.wantu), e.fld("ldu", g.ldu, g.lduMin), fs(e, "shortV", g.v, chk && g.wantv), e.fld("ldv", g.ldv, g.ldvMin), fs(e, "shortQ", g.q, chk && g.wantq), e.fld("ldq", g.ldq, g.ldqMin),
				fx(e, "Iwork", iwork, true), fs(e, "shortTau", tau, chk), e.fwork(work), e.flw(lw, docMin))
		})
	})

	reg("Dggsvd3", 3, true, func(e *env) {
		g := gsvdSetup(e, false)
		alpha, beta := e.f64x("alpha", g.n), e.f64x("beta", g.n)
		// doc: "iwork must have length n"; the prologue tests len(iwork) < n, the
		// nested Dggsvp3 rejects any other length
		iwork := e.ints("iwork", g.n, true, nil)
		docMin := g.n + 1
		mn := docMin
		m0 := g.m == 0 && g.n > 0 // zero-row A: Dggsvp3 slices a[n-l:] of the empty a
		if m0 {
			e.tag = "/m=0"
		} else if g.wantq && g.m < g.n-min(g.p, g.n) {
			// n-l > k: Dggsvp3 applies the RQ reflectors of A with Dorm2r (reference:
			// DORMR2), whose length rule for a is that of an (n-l)×k matrix
			e.tag = "/wantq-m<n-l"
		}
		if e.c.LW > 0 || e.c.X > 0 || e.c.Fault != "" || e.discover || e.tag != "" || !docSays("Dggsvd3", "lwork must be -1 or greater than n") {
			q := make([]float64, 1)
			impl.Dggsvd3(g.jobU, g.jobV, g.jobQ, g.m, g.n, g.p, nil, g.lda, nil, g.ldb, nil, nil, nil, g.ldu, nil, g.ldv, nil, g.ldq, q, -1, make([]int, g.n))
			mn = int(q[0])
		} else if !e.query() {
			e.tag = "/documented-min-lwork"
		}
		lw := e.lwv(mn)
		work := e.work(lw)
		chk := !e.query()
		e.run(func() {
			// lwork: the prologue only rejects lwork < 1; "lwork" passes the
			// documented-invalid value n, "lwork1" the value 1 when that is below n
			flw := e.fint("lwork1", e.flw(lw, docMin), 1, g.n >= 2)
			impl.Dggsvd3(g.fjobU, g.fjobV, g.fjobQ, e.fdim("m", g.m), e.fdim("n", g.n), e.fdim("p", g.p), fs(e, "shortA", g.a, chk), e.fld("lda", g.lda, max(1, g.n)), fs(e, "shortB", g.b, chk), e.fld("ldb", g.ldb, max(1, g.n)),
				fx(e, "Alpha", alpha, chk), fx(e, "Beta", beta, chk),
				fs(e, "shortU", g.u, chk && g.wantu), e.fld("ldu", g.ldu, g.lduMin), fs(e, "shortV", g.v, chk && g.wantv), e.fld("ldv", g.ldv, g.ldvMin), fs(e, "shortQ", g.q, chk && g.wantq), e.fld("ldq", g.ldq, g.ldqMin),
				e.fwork(work), flw, fx(e, "Iwork", iwork, true))
		})
	})

	// Dtgsja validates everything up front and has no quick return. Its input is
	// produced by Dggsvp3 so that A and B have the required block structure.
	reg("Dtgsja", 3, false, func(e *env) {
		g := gsvdSetup(e, true)
		m, p, n := g.m, g.p, g.n
		// preprocess copies of A and B with plain, generously sized buffers
		var k, l int
		if m == 0 {
			// Dggsvp3 faults for a zero-row A (known finding); k = l = 0 with B = 0
			// has the required structure
			for i := range g.b.s {
				g.b.s[i] = 0
			}
		} else {
			pa, pb := make([]float64, len(g.a.s)), make([]float64, len(g.b.s))
			copy(pa, g.a.s)
			copy(pb, g.b.s)
			wq := make([]float64, 1)
			impl.Dggsvp3(lapack.GSVDNone, lapack.GSVDNone, lapack.GSVDNone, m, p, n, nil, g.lda, nil, g.ldb, 0, 0, nil, 1, nil, 1, nil, 1, make([]int, n), nil, wq, -1)
			pw := make([]float64, int(wq[0])+1)
			k, l = impl.Dggsvp3(lapack.GSVDNone, lapack.GSVDNone, lapack.GSVDNone, m, p, n, pa, g.lda, pb, g.ldb, 1e-8, 1e-8, nil, 1, nil, 1, nil, 1, make([]int, n), make([]float64, n), pw, len(pw))
			copy(g.a.s, pa)
			copy(g.b.s, pb)
		}
		alpha, beta := e.f64x("alpha", n), e.f64x("beta", n)
		work := e.f64("work", 2*n)
		e.run(func() {
			impl.Dtgsja(g.fjobU, g.fjobV, g.fjobQ, e.fdim("m", m), e.fdim("p", p), e.fdim("n", n), e.fdim("k", k), e.fdim("l", l), fs(e, "shortA", g.a, true), e.fld("lda", g.lda, max(1, n)), fs(e, "shortB", g.b, true), e.fld("ldb", g.ldb, max(1, n)), 1e-8, 1e-8,
				fx(e, "Alpha", alpha, true), fx(e, "Beta", beta, true),
				fs(e, "shortU", g.u, g.wantu), e.fld("ldu", g.ldu, g.lduMin), fs(e, "shortV", g.v, g.wantv), e.fld("ldv", g.ldv, g.ldvMin), fs(e, "shortQ", g.q, g.wantq), e.fld("ldq", g.ldq, g.ldqMin), fs(e, "shortWork", work, true))
		})
	})
}
