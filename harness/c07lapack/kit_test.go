package c07lapack

import (
	"fmt"
	"math"
	"unsafe"

	"verifharness/vk"
)

// Case is one generated LAPACK call. Every field is small and JSON encodable;
// matrix entries are expanded from Seed.
type Case struct {
	R    string // routine name
	Fl   [4]int // selectors of the valid flag values (index modulo the number of valid values)
	D    [6]int // raw dimensions; each routine derives a consistent valid set from them
	P    [6]int // leading-dimension paddings (0 = documented minimum)
	X    int    // slack added to every slice whose length is a lower bound (0 = exactly minimal)
	LW   int    // slack added to the minimal lwork
	Pre  int    // sentinel elements in front of every slice in its parent buffer
	Post int    // sentinel elements behind
	Trim bool   // cap(slice) == len(slice)
	Seed uint64
	// Fault names the single argument made invalid ("" = valid call). The names
	// are those passed to the fault hooks by the routine's builder: a dimension
	// name (value -1), a leading dimension name (minimum-1), shortX (slice one
	// element shorter than enforced), longX (exact-length slice one longer),
	// badX (illegal flag), lwork (minimum-1), other scalar names (out of range).
	Fault string `json:",omitempty"`
	Bad   int    `json:",omitempty"` // illegal flag value: 0 = 'X', 1 = 0
	// Mode of a valid call: "" plain, "query" (lwork = -1), "guardE"/"guardS"
	// (every slice exactly minimal and abutting an inaccessible page at its end /
	// start).
	Mode string `json:",omitempty"`
	// Loose: slices whose length the routine does not examine on this path (zero
	// dimension quick return, workspace query) are passed as nil (1) or one
	// element shorter than otherwise required (2).
	Loose int `json:",omitempty"`
	// Big > 1 multiplies every raw dimension (valid calls only) so that the
	// blocked code paths and the BLAS kernels behind them run on exactly minimal,
	// guard-page backed slices.
	Big int `json:",omitempty"`
}

// operand is a slice argument embedded in a larger sentinel-filled parent.
type operand interface {
	opName() string
	snapshot()
	// diff reports the first element of the parent buffer that differs from the
	// snapshot. With all == false only elements outside the slice handed to the
	// routine are compared; skip0 ignores element 0 of the slice (work[0]).
	diff(all, skip0 bool) string
}

type op[T comparable] struct {
	name   string
	parent []T
	off    int // offset of the slice in parent
	n      int // allocated length of the slice
	need   int // enforced minimum (or exact) length
	s      []T // the valid slice, len n
	snap   []T
	bits   func(T) uint64
}

func (o *op[T]) opName() string { return o.name }
func (o *op[T]) snapshot() {
	o.snap = append(o.snap[:0], o.parent...)
}
func (o *op[T]) diff(all, skip0 bool) string {
	for i := range o.parent {
		in := i >= o.off && i < o.off+o.n
		if in && !all {
			continue
		}
		if in && skip0 && i == o.off {
			continue
		}
		if o.bits(o.parent[i]) != o.bits(o.snap[i]) {
			where := "inside the slice"
			if !in {
				where = "outside the slice (parent buffer)"
			}
			return fmt.Sprintf("%s[%d] (len %d, enforced %d) %s changed from %v to %v", o.name, i-o.off, o.n, o.need, where, o.snap[i], o.parent[i])
		}
	}
	return ""
}

func f64bits(v float64) uint64 { return math.Float64bits(v) }
func intbits(v int) uint64     { return uint64(v) }
func boolbits(v bool) uint64 {
	if v {
		return 1
	}
	return 0
}

func sentinelF(i int) float64 { return math.Float64frombits(0x7ff8000000000000 | uint64(i+1)&0xffffffff) }

// env is the per-case state handed to a routine builder.
type env struct {
	c        Case
	g        *vk.SplitMix
	ops      []operand
	workOp   operand // the operand a workspace query may write element 0 of
	frees    []func()
	discover bool
	found    []string // applicable fault names in hook order (discover mode)
	seen     map[string]bool
	hit      bool
	ran      bool
	// queryMayWrite: the routine's zero-size quick return precedes its workspace
	// query and legitimately writes operands.
	queryMayWrite bool
	// tag is appended to the keys of valid-call failures (a degenerate sub-domain
	// of a routine that is reported separately).
	tag string
	// via names the known-defective callee a runtime fault was raised in.
	via string
	res      vk.Result
}

func newEnv(c Case, discover bool) *env {
	return &env{c: c, g: vk.NewSplitMix(c.Seed), discover: discover, seen: map[string]bool{}}
}

func (e *env) free() {
	for _, f := range e.frees {
		f()
	}
	e.frees = nil
}

// at reports whether the fault named name is to be injected here. applicable
// says whether making this argument invalid is a contract violation on this
// path at all.
func (e *env) at(name string, applicable bool) bool {
	if !applicable {
		return false
	}
	if e.discover {
		if !e.seen[name] {
			e.seen[name] = true
			e.found = append(e.found, name)
		}
		return false
	}
	if e.c.Fault == name {
		e.hit = true
		return true
	}
	return false
}

// query reports whether the call is a workspace query (lwork = -1). The fault
// "queryEmptyWork" is a query whose work slice is empty.
func (e *env) query() bool { return e.c.Mode == "query" || e.c.Fault == "queryEmptyWork" }
func (e *env) guard() bool { return e.c.Mode == "guardE" || e.c.Mode == "guardS" }

// d returns raw dimension i.
func (e *env) d(i int) int {
	if e.c.Big > 1 {
		return e.c.D[i] * e.c.Big
	}
	return e.c.D[i]
}

// pad returns leading-dimension padding i.
func (e *env) pad(i int) int {
	if e.guard() {
		return 0
	}
	return e.c.P[i]
}

// fdim passes a dimension: -1 under the fault.
func (e *env) fdim(name string, v int) int {
	if e.at(name, true) {
		return -1
	}
	return v
}

// fint passes an integer argument: bad under the fault.
func (e *env) fint(name string, v, bad int, applicable bool) int {
	if e.at(name, applicable) {
		return bad
	}
	return v
}

// fflt passes a float argument: bad under the fault.
func (e *env) fflt(name string, v, bad float64) float64 {
	if e.at(name, true) {
		return bad
	}
	return v
}

// fld passes a leading dimension: minimum-1 under the fault.
func (e *env) fld(name string, ld, minimum int) int {
	if e.at(name, true) {
		return minimum - 1
	}
	return ld
}

// flag selects valid flag value number Fl[i] and returns it together with the
// value to pass (an illegal one under the fault).
func flag[T ~byte](e *env, name string, i int, valid ...T) (v, pass T) {
	v = valid[e.c.Fl[i]%len(valid)]
	if e.at(name, true) {
		if e.c.Bad == 1 {
			return v, T(0)
		}
		return v, T('X')
	}
	return v, v
}

func alloc[T comparable](e *env, name string, need int, exact bool, bits func(T) uint64, sent func(i int) T) *op[T] {
	if need < 0 {
		need = 0
	}
	n := need
	if !exact && !e.guard() {
		n += e.c.X
	}
	o := &op[T]{name: name, n: n, need: need, bits: bits}
	if e.guard() && !e.discover {
		var z T
		sz := int(unsafe.Sizeof(z))
		if n > 0 {
			raw, free := vk.GuardedBytes(n*sz, e.c.Mode == "guardE")
			e.frees = append(e.frees, free)
			o.parent = unsafe.Slice((*T)(unsafe.Pointer(&raw[0])), n)
			o.parent = o.parent[:n:n]
		}
		o.s = o.parent
	} else {
		// one spare element behind the slice is always present so that an
		// exact-length operand can be handed over one element too long
		post := e.c.Post + 1
		o.parent = make([]T, e.c.Pre+n+post)
		for i := range o.parent {
			o.parent[i] = sent(i)
		}
		o.off = e.c.Pre
		if e.c.Trim {
			o.s = o.parent[o.off : o.off+n : o.off+n]
		} else {
			o.s = o.parent[o.off : o.off+n]
		}
	}
	e.ops = append(e.ops, o)
	return o
}

// f64 allocates a float64 operand whose enforced minimum length is need; the
// slice is filled with finite values.
func (e *env) f64(name string, need int) *op[float64] {
	o := alloc(e, name, need, false, f64bits, sentinelF)
	for i := range o.s {
		o.s[i] = e.g.Finite()
	}
	return o
}

// f64x allocates a float64 operand whose length must be exactly need.
func (e *env) f64x(name string, need int) *op[float64] {
	o := alloc(e, name, need, true, f64bits, sentinelF)
	for i := range o.s {
		o.s[i] = e.g.Finite()
	}
	return o
}

// work allocates the workspace belonging to an lwork argument.
func (e *env) work(lw int) *op[float64] {
	o := e.f64("work", max(1, lw))
	e.workOp = o
	return o
}

// fwork passes the workspace of an lwork routine: one element shorter than
// max(1,lwork) under "shortWork", empty under "queryEmptyWork".
func (e *env) fwork(o *op[float64]) []float64 {
	if e.at("queryEmptyWork", true) {
		return o.s[:0:0]
	}
	return fs(e, "shortWork", o, true)
}

func (e *env) ints(name string, need int, exact bool, fill func(i int) int) *op[int] {
	o := alloc(e, name, need, exact, intbits, func(i int) int { return -7770000 - i })
	for i := range o.s {
		if fill != nil && i < need {
			o.s[i] = fill(i)
		} else {
			o.s[i] = 0
		}
	}
	return o
}

func (e *env) bools(name string, need int, exact bool, fill func(i int) bool) *op[bool] {
	o := alloc(e, name, need, exact, boolbits, func(i int) bool { return i%2 == 0 })
	for i := range o.s {
		o.s[i] = fill != nil && i < need && fill(i)
	}
	return o
}

// fs passes a slice whose length must be at least o.need when checked is true.
// Under the fault it is one element shorter. When the routine does not examine
// the length on this path (checked == false) a loose case passes nil or a
// shorter slice.
func fs[T comparable](e *env, name string, o *op[T], checked bool) []T {
	if !checked {
		switch e.c.Loose {
		case 1:
			return nil
		case 2:
			if o.n > 0 {
				return o.s[: o.n-1 : o.n-1]
			}
		}
		return o.s
	}
	if e.at(name, o.need > 0) {
		return o.s[: o.need-1 : o.need-1]
	}
	return o.s
}

// fx passes a slice whose length must be exactly o.need when checked is true.
// name is the bare operand name: the faults are short<name> and long<name>.
func fx[T comparable](e *env, name string, o *op[T], checked bool) []T {
	if !checked {
		return fs(e, name, o, false)
	}
	if e.at("short"+name, o.need > 0) {
		return o.s[: o.need-1 : o.need-1]
	}
	if e.at("long"+name, !e.guard()) {
		// the spare element behind the slice
		return o.parent[o.off : o.off+o.need+1 : o.off+o.need+1]
	}
	return o.s
}

// lwv returns the lwork of the valid call: minimum+LW, or -1 for a query.
func (e *env) lwv(minimum int) int {
	if e.query() {
		return -1
	}
	return minimum + e.c.LW
}

// flw passes lwork: minimum-1 under the fault (not applicable when that is the
// query value -1).
func (e *env) flw(lw, minimum int) int {
	if e.at("lwork", minimum-1 != -1) {
		return minimum - 1
	}
	return lw
}

// mat allocates an r×c general matrix operand with stride ld.
func (e *env) mat(name string, r, c, ld int) *op[float64] {
	o := e.f64(name, mneed(r, c, ld))
	e.ge(o, r, c, ld)
	return o
}

// dmat allocates an n×n symmetric diagonally dominant matrix operand.
func (e *env) dmat(name string, n, ld int) *op[float64] {
	o := e.f64(name, mneed(n, n, ld))
	e.dom(o, n, ld)
	return o
}

// mneed mirrors gonum's length rule for an r×c matrix with stride ld.
func mneed(r, c, ld int) int { return max(0, (r-1)*ld+c) }

// ---- data helpers ----------------------------------------------------------

// ge fills the r×c window of a (stride ld) with moderate finite values.
func (e *env) ge(o *op[float64], r, c, ld int) {
	for i := 0; i < r; i++ {
		for j := 0; j < c; j++ {
			if k := i*ld + j; k < len(o.s) {
				o.s[k] = e.g.Float()*2 - 1
			}
		}
	}
}

// dom makes the n×n window diagonally dominant and symmetric (hence SPD and
// well conditioned, with both triangles usable as triangular factors).
func (e *env) dom(o *op[float64], n, ld int) {
	for i := 0; i < n; i++ {
		for j := i; j < n; j++ {
			v := (e.g.Float()*2 - 1) / float64(2*n)
			if i == j {
				v = 1 + e.g.Float()
			}
			if k := i*ld + j; k < len(o.s) {
				o.s[k] = v
			}
			if k := j*ld + i; k < len(o.s) {
				o.s[k] = v
			}
		}
	}
}

// band fills symmetric/triangular band storage (n rows of kd+1 entries, stride
// ld) with a dominant diagonal; the diagonal is column kd for lower storage and
// column 0 for upper storage.
func (e *env) band(o *op[float64], n, kd, ld int, lower bool) {
	for i := 0; i < n; i++ {
		for j := 0; j <= kd; j++ {
			v := (e.g.Float()*2 - 1) / float64(2*(kd+1))
			if (lower && j == kd) || (!lower && j == 0) {
				v = 1 + e.g.Float()
			}
			if k := i*ld + j; k < len(o.s) {
				o.s[k] = v
			}
		}
	}
}

// pivots returns a valid row-interchange sequence for n rows: ipiv[i] in [i,n).
func (e *env) pivots(n int) func(i int) int {
	p := make([]int, n)
	for i := range p {
		p[i] = i + e.g.Intn(n-i)
	}
	return func(i int) int { return p[i] }
}

func (e *env) perm(n int) func(i int) int {
	p := e.g.Perm(n)
	return func(i int) int { return p[i] }
}
