package c07lapack

import (
	"gonum.org/v1/gonum/blas"
	"gonum.org/v1/gonum/lapack"
)

func init() {
	// ---- factorizations: m, n, a, lda, tau, work[, lwork] -------------------
	type fact struct {
		name     string
		lwMin    func(m, n int) int // 0: no lwork argument
		workLen  func(m, n int) int // unblocked: required len(work)
		workPre  bool               // unblocked: len(work) is checked before the k == 0 quick return
		tauExact bool
	}
	facts := []fact{
		{name: "Dgeqrf", lwMin: func(m, n int) int { return max(1, n) }, tauExact: true},
		{name: "Dgelqf", lwMin: func(m, n int) int { return max(1, m) }},
		{name: "Dgerqf", lwMin: func(m, n int) int { return max(1, m) }, tauExact: true},
		{name: "Dgeqr2", workLen: func(m, n int) int { return n }, workPre: true, tauExact: true},
		{name: "Dgelq2", workLen: func(m, n int) int { return m }},
		{name: "Dgerq2", workLen: func(m, n int) int { return m }, workPre: true},
		{name: "Dgeql2", workLen: func(m, n int) int { return n }},
	}
	for _, f := range facts {
		f := f
		reg(f.name, 2, f.lwMin != nil, func(e *env) {
			m, n := e.d(0), e.d(1)
			k := min(m, n)
			lda := max(1, n) + e.pad(0)
			a := e.mat("a", m, n, lda)
			var tau *op[float64]
			if f.tauExact {
				tau = e.f64x("tau", k)
			} else {
				tau = e.f64("tau", k)
			}
			ftau := func(chk bool) []float64 {
				if f.tauExact {
					return fx(e, "Tau", tau, chk)
				}
				return fs(e, "shortTau", tau, chk)
			}
			if f.lwMin != nil {
				mn := f.lwMin(m, n)
				lw := e.lwv(mn)
				work := e.work(lw)
				chk := k > 0 && !e.query()
				e.run(func() {
					fm, fn, fa, flda, ft, fw, flw := e.fdim("m", m), e.fdim("n", n), fs(e, "shortA", a, chk), e.fld("lda", lda, max(1, n)), ftau(chk), e.fwork(work), e.flw(lw, mn)
					switch f.name {
					case "Dgeqrf":
						impl.Dgeqrf(fm, fn, fa, flda, ft, fw, flw)
					case "Dgelqf":
						impl.Dgelqf(fm, fn, fa, flda, ft, fw, flw)
					case "Dgerqf":
						impl.Dgerqf(fm, fn, fa, flda, ft, fw, flw)
					}
				})
				return
			}
			work := e.f64("work", f.workLen(m, n))
			chk := k > 0
			e.run(func() {
				fm, fn, fa, flda, ft, fw := e.fdim("m", m), e.fdim("n", n), fs(e, "shortA", a, chk), e.fld("lda", lda, max(1, n)), ftau(chk), fs(e, "shortWork", work, chk || f.workPre)
				switch f.name {
				case "Dgeqr2":
					impl.Dgeqr2(fm, fn, fa, flda, ft, fw)
				case "Dgelq2":
					impl.Dgelq2(fm, fn, fa, flda, ft, fw)
				case "Dgerq2":
					impl.Dgerq2(fm, fn, fa, flda, ft, fw)
				case "Dgeql2":
					impl.Dgeql2(fm, fn, fa, flda, ft, fw)
				}
			})
		})
	}

	reg("Dgeqp3", 2, true, func(e *env) {
		m, n := e.d(0), e.d(1)
		k := min(m, n)
		lda := max(1, n) + e.pad(0)
		a := e.mat("a", m, n, lda)
		jpvt := e.ints("jpvt", n, true, func(i int) int { return e.g.Intn(n+1) - 1 })
		// The doc comment used to say "[tau] must have length min(m,n), otherwise
		// Dgeqp3 will panic" while the code accepts a longer tau: as long as the
		// comment says so, tau is an exact-length operand.
		tauExact := docSays("Dgeqp3", "It must have length min(m,n), otherwise")
		var tau *op[float64]
		if tauExact {
			tau = e.f64x("tau", k)
		} else {
			tau = e.f64("tau", k)
		}
		mn := 3*n + 1
		if k == 0 {
			mn = 1
		}
		lw := e.lwv(mn)
		work := e.work(lw)
		chk := k > 0 && !e.query()
		if e.at("jpvtElement", chk) {
			jpvt.s[e.g.Intn(n)] = []int{-2, n}[e.c.Bad]
		}
		ftau := func() []float64 {
			if tauExact {
				return fx(e, "Tau", tau, chk)
			}
			return fs(e, "shortTau", tau, chk)
		}
		e.run(func() {
			impl.Dgeqp3(e.fdim("m", m), e.fdim("n", n), fs(e, "shortA", a, chk), e.fld("lda", lda, max(1, n)), fx(e, "Jpvt", jpvt, chk), ftau(), e.fwork(work), e.flw(lw, mn))
		})
	})

	// ---- generate Q: m, n, k, a, lda, tau, work[, lwork] --------------------
	type gen struct {
		name     string
		rowwise  bool // LQ: 0 <= k <= m <= n; otherwise 0 <= k <= n <= m
		blocked  bool
		tauExact bool
	}
	gens := []gen{
		{name: "Dorgqr", blocked: true, tauExact: true},
		{name: "Dorg2r", tauExact: true},
		{name: "Dorglq", rowwise: true, blocked: true},
		{name: "Dorgl2", rowwise: true},
		{name: "Dorgql", blocked: true},
		{name: "Dorg2l"},
	}
	for _, g := range gens {
		g := g
		reg(g.name, 3, g.blocked, func(e *env) {
			var m, n, k, q int // q: the dimension that bounds k and sizes work
			if g.rowwise {
				m = e.d(0)
				n = m + e.d(1)
				k = min(e.d(2), m)
				q = m
			} else {
				m = e.d(0)
				n = min(e.d(1), m)
				k = min(e.d(2), n)
				q = n
			}
			lda := max(1, n) + e.pad(0)
			a := e.mat("a", m, n, lda)
			var tau *op[float64]
			if g.tauExact {
				tau = e.f64x("tau", k)
			} else {
				tau = e.f64("tau", k)
			}
			ftau := func(chk bool) []float64 {
				if g.tauExact {
					return fx(e, "Tau", tau, chk)
				}
				return fs(e, "shortTau", tau, chk)
			}
			// shape faults: the dimension chain is violated by one
			dims := func() (int, int, int) {
				fm, fn, fk := e.fdim("m", m), e.fdim("n", n), e.fdim("k", k)
				if g.rowwise {
					fn = e.fint("nLTM", fn, m-1, true)
					fk = e.fint("kGTM", fk, m+1, true)
				} else {
					fn = e.fint("nGTM", fn, m+1, true)
					fk = e.fint("kGTN", fk, n+1, true)
				}
				return fm, fn, fk
			}
			if g.blocked {
				mn := max(1, q)
				lw := e.lwv(mn)
				work := e.work(lw)
				chk := q > 0 && !e.query()
				e.run(func() {
					fm, fn, fk := dims()
					flda := e.fld("lda", lda, max(1, n))
					if g.name == "Dorgqr" && e.query() && e.c.Loose != 0 {
						flda = 0 // documented: lda is not examined by a workspace query
					}
					fa, ft, fw, flw := fs(e, "shortA", a, chk), ftau(chk), e.fwork(work), e.flw(lw, mn)
					switch g.name {
					case "Dorgqr":
						impl.Dorgqr(fm, fn, fk, fa, flda, ft, fw, flw)
					case "Dorglq":
						impl.Dorglq(fm, fn, fk, fa, flda, ft, fw, flw)
					case "Dorgql":
						impl.Dorgql(fm, fn, fk, fa, flda, ft, fw, flw)
					}
				})
				return
			}
			work := e.f64("work", q)
			chk := q > 0
			e.run(func() {
				fm, fn, fk := dims()
				flda, fa, ft, fw := e.fld("lda", lda, max(1, n)), fs(e, "shortA", a, chk), ftau(chk), fs(e, "shortWork", work, chk)
				switch g.name {
				case "Dorg2r":
					impl.Dorg2r(fm, fn, fk, fa, flda, ft, fw)
				case "Dorgl2":
					impl.Dorgl2(fm, fn, fk, fa, flda, ft, fw)
				case "Dorg2l":
					impl.Dorg2l(fm, fn, fk, fa, flda, ft, fw)
				}
			})
		})
	}

	// ---- apply Q: side, trans, m, n, k, a, lda, tau, c, ldc, work[, lwork] --
	type app struct {
		name     string
		rowwise  bool // LQ: a is k×nq with lda >= max(1,nq); otherwise a is nq×k with lda >= max(1,k)
		blocked  bool
		tauExact bool
	}
	apps := []app{
		{name: "Dormqr", blocked: true, tauExact: true},
		{name: "Dorm2r", tauExact: true},
		{name: "Dormlq", rowwise: true, blocked: true},
		{name: "Dorml2", rowwise: true},
	}
	for _, p := range apps {
		p := p
		reg(p.name, 3, p.blocked, func(e *env) {
			side, fside := flag(e, "badSide", 0, blas.Left, blas.Right)
			_, ftrans := flag(e, "badTrans", 1, blas.NoTrans, blas.Trans)
			m, n := e.d(0), e.d(1)
			nq, nw := n, m
			if side == blas.Left {
				nq, nw = m, n
			}
			k := min(e.d(2), nq)
			var lda, ldaMin int
			var a *op[float64]
			if p.rowwise {
				ldaMin = max(1, nq)
				lda = ldaMin + e.pad(0)
				a = e.mat("a", k, nq, lda)
			} else {
				ldaMin = max(1, k)
				lda = ldaMin + e.pad(0)
				a = e.mat("a", nq, k, lda)
			}
			ldc := max(1, n) + e.pad(1)
			var tau *op[float64]
			if p.tauExact {
				tau = e.f64x("tau", k)
			} else {
				tau = e.f64("tau", k)
			}
			c := e.mat("c", m, n, ldc)
			ftau := func(chk bool) []float64 {
				if p.tauExact {
					return fx(e, "Tau", tau, chk)
				}
				return fs(e, "shortTau", tau, chk)
			}
			nz := m > 0 && n > 0 && k > 0
			if p.blocked {
				mn := max(1, nw)
				lw := e.lwv(mn)
				// Dormlq's doc comment states the minimum the other way round ("lwork >=
				// m if side == blas.Left and lwork >= n if side == blas.Right"); the code
				// (and reference DORMLQ) want n for Left, m for Right. A third of the
				// minimal-lwork cases follow the doc comment, under their own key.
				if p.name == "Dormlq" && docSays("Dormlq", "lwork >= m if side == blas.Left") && e.c.Fault == "" && !e.discover && !e.query() && e.c.LW == 0 && e.c.Fl[3]%3 == 0 && max(1, nq) < mn {
					lw = max(1, nq)
					e.tag = "/documented-min-lwork"
				}
				work := e.work(lw)
				chk := nz && !e.query()
				e.run(func() {
					fm, fn, fk := e.fdim("m", m), e.fdim("n", n), e.fint("kGTNQ", e.fdim("k", k), nq+1, true)
					fa, flda, ft, fc, fldc, fw, flw := fs(e, "shortA", a, chk), e.fld("lda", lda, ldaMin), ftau(chk), fs(e, "shortC", c, chk), e.fld("ldc", ldc, max(1, n)), e.fwork(work), e.flw(lw, mn)
					if p.name == "Dormqr" {
						impl.Dormqr(fside, ftrans, fm, fn, fk, fa, flda, ft, fc, fldc, fw, flw)
					} else {
						impl.Dormlq(fside, ftrans, fm, fn, fk, fa, flda, ft, fc, fldc, fw, flw)
					}
				})
				return
			}
			work := e.f64("work", nw)
			e.run(func() {
				fm, fn, fk := e.fdim("m", m), e.fdim("n", n), e.fint("kGTNQ", e.fdim("k", k), nq+1, true)
				fa, flda, ft, fc, fldc, fw := fs(e, "shortA", a, nz), e.fld("lda", lda, ldaMin), ftau(nz), fs(e, "shortC", c, nz), e.fld("ldc", ldc, max(1, n)), fs(e, "shortWork", work, nz)
				if p.name == "Dorm2r" {
					impl.Dorm2r(fside, ftrans, fm, fn, fk, fa, flda, ft, fc, fldc, fw)
				} else {
					impl.Dorml2(fside, ftrans, fm, fn, fk, fa, flda, ft, fc, fldc, fw)
				}
			})
		})
	}

	reg("Dlarf", 2, false, func(e *env) {
		side, fside := flag(e, "badSide", 0, blas.Left, blas.Right)
		m, n := e.d(0), e.d(1)
		lenV, lenW := n, m
		if side == blas.Left {
			lenV, lenW = m, n
		}
		incv := []int{1, -1, 2, -3, 1, 2}[e.c.Fl[1]]
		ldc := max(1, n) + e.pad(0)
		v := e.f64("v", 1+(lenV-1)*abs(incv))
		c := e.mat("c", m, n, ldc)
		// the code (and reference DLARF) want len(work) >= n for Left, m for Right;
		// the doc comment has them swapped. A third of the exactly-minimal cases
		// follow the doc comment, under their own key.
		if docSays("Dlarf", "at least m if side == blas.Left") && e.c.Fault == "" && !e.discover && e.c.X == 0 && e.c.Fl[3]%3 == 0 && lenV < lenW {
			lenW = lenV
			e.tag = "/documented-work-length"
		}
		work := e.f64("work", lenW)
		chk := m > 0 && n > 0
		e.run(func() {
			impl.Dlarf(fside, e.fdim("m", m), e.fdim("n", n), fs(e, "shortV", v, chk), e.fint("incv", incv, 0, true), 0.75, fs(e, "shortC", c, chk), e.fld("ldc", ldc, max(1, n)), fs(e, "shortWork", work, chk))
		})
	})

	reg("Dlarfb", 3, false, func(e *env) {
		side, fside := flag(e, "badSide", 0, blas.Left, blas.Right)
		_, ftrans := flag(e, "badTrans", 1, blas.NoTrans, blas.Trans)
		_, fdirect := flag(e, "badDirect", 2, lapack.Forward, lapack.Backward)
		store, fstore := flag(e, "badStoreV", 3, lapack.ColumnWise, lapack.RowWise)
		m, n := e.d(0), e.d(1)
		nv, nw := m, n
		if side == blas.Right {
			nv, nw = n, m
		}
		k := min(e.d(2), nv)
		var ldv, ldvMin int
		var v *op[float64]
		if store == lapack.ColumnWise {
			ldvMin = max(1, k)
			ldv = ldvMin + e.pad(0)
			v = e.mat("v", nv, k, ldv)
		} else {
			ldvMin = max(1, nv)
			ldv = ldvMin + e.pad(0)
			v = e.mat("v", k, nv, ldv)
		}
		ldt, ldc, ldw := max(1, k)+e.pad(1), max(1, n)+e.pad(2), max(1, k)+e.pad(3)
		t := e.mat("t", k, k, ldt)
		c := e.mat("c", m, n, ldc)
		work := e.f64("work", mneed(nw, k, ldw))
		chk := m > 0 && n > 0
		if k == 0 {
			e.tag = "/k=0"
		}
		e.run(func() {
			impl.Dlarfb(fside, ftrans, fdirect, fstore, e.fdim("m", m), e.fdim("n", n), e.fdim("k", k), fs(e, "shortV", v, chk), e.fld("ldv", ldv, ldvMin), fs(e, "shortT", t, chk), e.fld("ldt", ldt, max(1, k)), fs(e, "shortC", c, chk), e.fld("ldc", ldc, max(1, n)), fs(e, "shortWork", work, chk), e.fld("ldwork", ldw, max(1, k)))
		})
	})

	reg("Dlarft", 2, false, func(e *env) {
		_, fdirect := flag(e, "badDirect", 0, lapack.Forward, lapack.Backward)
		store, fstore := flag(e, "badStoreV", 1, lapack.ColumnWise, lapack.RowWise)
		n := e.d(0)
		k := 1 + min(e.d(1), max(n-1, 0)) // 1 <= k, and k <= n when n > 0
		mv, nv := n, k
		if store == lapack.RowWise {
			mv, nv = k, n
		}
		ldv, ldt := max(1, nv)+e.pad(0), max(1, k)+e.pad(1)
		v := e.mat("v", mv, nv, ldv)
		tau := e.f64("tau", k)
		t := e.mat("t", k, k, ldt)
		chk := n > 0
		if fdirect == lapack.Forward && store == lapack.ColumnWise && k == n {
			e.tag = "/forward-columnwise-k=n"
		}
		e.run(func() {
			impl.Dlarft(fdirect, fstore, e.fdim("n", n), e.fint("k", k, 0, true), fs(e, "shortV", v, chk), e.fld("ldv", ldv, max(1, nv)), fs(e, "shortTau", tau, true), fs(e, "shortT", t, chk), e.fld("ldt", ldt, max(1, k)))
		})
	})

	reg("Dlarfg", 1, false, func(e *env) {
		n := e.d(0)
		incx := 1 + e.c.Fl[0]%3
		x := e.f64("x", 1+(n-2)*incx)
		chk := n > 1
		e.run(func() {
			impl.Dlarfg(e.fdim("n", n), 0.5, fs(e, "shortX", x, chk), e.fint("incx", incx, []int{0, -1}[e.c.Bad], true))
		})
	})

	reg("Dgels", 3, true, func(e *env) {
		_, ftrans := flag(e, "badTrans", 0, blas.NoTrans, blas.Trans, blas.ConjTrans)
		m, n, nrhs := e.d(0), e.d(1), e.d(2)
		mn := min(m, n)
		lda, ldb := max(1, n)+e.pad(0), max(1, nrhs)+e.pad(1)
		a := e.mat("a", m, n, lda)
		b := e.mat("b", max(m, n), nrhs, ldb)
		minwrk := max(1, mn+max(mn, nrhs))
		lw := e.lwv(minwrk)
		work := e.work(lw)
		quick := mn == 0 || nrhs == 0
		// The zero-size quick return precedes the workspace query and zero-fills
		// the max(m,n)×nrhs matrix B through Dlaset, which validates len(b).
		chkA := !quick && !e.query()
		chkB := chkA || (quick && max(m, n) > 0 && nrhs > 0)
		if quick {
			e.queryMayWrite = true
		}
		e.run(func() {
			impl.Dgels(ftrans, e.fdim("m", m), e.fdim("n", n), e.fdim("nrhs", nrhs), fs(e, "shortA", a, chkA), e.fld("lda", lda, max(1, n)), fs(e, "shortB", b, chkB), e.fld("ldb", ldb, max(1, nrhs)), e.fwork(work), e.flw(lw, minwrk))
		})
	})
}

func abs(a int) int {
	if a < 0 {
		return -a
	}
	return a
}
