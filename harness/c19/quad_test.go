package c19

import (
	"errors"
	"fmt"
	"math"
	"testing"

	"gonum.org/v1/gonum/optimize"
	"pgregory.net/rapid"
	"verifharness/vk"
)

// Convergence of the gradient-based methods on strictly convex quadratics
// f(x) = 1/2 (x-x*)ᵀA(x-x*), eigenvalues of A in [1/kappa, 1].
//
// Mode 0: default settings (nil Settings for the fast methods, the zero
// Settings plus a large evaluation cap for GradientDescent and CG). The run
// ends by the method's GradStopThreshold (1e-12) or by the default
// FunctionConverge; a GradientThreshold stop implies ‖x-x*‖₂ <= κ√n·1e-12.
// Mode 1: Converger = NeverTerminate (the documented way of switching function
// convergence off): the only way to stop below the evaluation cap is the
// method's gradient threshold, and every method must get there.
type quadCase struct {
	Method   int // 0..4 (gradient based)
	Variant  int
	Store    int
	LS       int
	LSParam  int
	Step     int // 0 default 1 Constant{1} 2 Quadratic 3 FirstOrder
	Dim      int
	KappaExp int
	Far      bool
	Seed     uint64
	Mode     int
}

const quadCap = 400000

func checkQuad(c quadCase) *vk.Failure {
	vk.Sample("quad-converge", c)
	name := methodNames[c.Method]
	start := 0
	if c.Far {
		start = 2
	}
	mc := minCase{Method: c.Method, Variant: c.Variant, Store: c.Store, LS: c.LS, LSParam: c.LSParam, Step: c.Step, StepExp: 0,
		Dim: c.Dim, KappaExp: c.KappaExp, Seed: c.Seed, Start: start}
	o := mc.objective()
	tp := newTape()
	f, g, h := instrument(o, 0, 0, tp)
	prob := optimize.Problem{Func: f, Grad: g, Hess: h}
	var s *optimize.Settings
	switch {
	case c.Mode == 1:
		s = &optimize.Settings{Converger: optimize.NeverTerminate{}, FuncEvaluations: quadCap}
	case c.Method == mGD || c.Method == mCG:
		s = &optimize.Settings{FuncEvaluations: quadCap}
	}
	gm := &guardMethod{inner: mc.method(o)}
	var res *optimize.Result
	var err error
	r := vk.Call(func() { res, err = optimize.Minimize(prob, append([]float64{}, o.x0...), s, gm) })
	kappa := math.Pow(10, float64(c.KappaExp)/2)
	desc := func() string {
		if res == nil {
			return fmt.Sprintf("%s ls=%d dim=%d kappa=%g: nil result err=%v", name, c.LS, c.Dim, kappa, err)
		}
		gr := make([]float64, o.dim)
		o.g(gr, res.X)
		d := 0.0
		for i := range res.X {
			d += (res.X[i] - o.xstar[i]) * (res.X[i] - o.xstar[i])
		}
		return fmt.Sprintf("%s ls=%d dim=%d kappa=%g mode=%d: status=%v err=%v F=%v ‖∇f(X)‖∞=%g ‖X-x*‖₂=%g stats=%+v", name, c.LS, c.Dim, kappa, c.Mode, res.Status, err, res.F, infNorm(gr), math.Sqrt(d), res.Stats)
	}
	if r.Outcome != vk.Returned {
		return vk.Failf("quad-panics/"+name, "%s: %s", desc(), r.Text)
	}
	if p := gm.panicked.Load(); p != nil {
		return vk.Failf("quad-method-panics/"+name, "%s: %s", desc(), *p)
	}
	if res == nil {
		return vk.Failf("quad-nil-result", "%s", desc())
	}
	vk.Class(fmt.Sprintf("quad/%s/mode%d/%v", name, c.Mode, res.Status))
	if res.Stats.MajorIterations >= 2 {
		vk.NonTrivial("quad", c)
	}
	if int64(res.Stats.FuncEvaluations) != tp.fc.Load() || int64(res.Stats.GradEvaluations) != tp.gc.Load() || int64(res.Stats.HessEvaluations) != tp.hc.Load() {
		return vk.Failf("quad-stats-differ-from-callbacks", "%s callbacks %d/%d/%d", desc(), tp.fc.Load(), tp.gc.Load(), tp.hc.Load())
	}
	lsErr := errors.Is(err, optimize.ErrLinesearcherFailure) || errors.Is(err, optimize.ErrNonDescentDirection) ||
		errors.Is(err, optimize.ErrNoProgress) || errors.Is(err, optimize.ErrLinesearcherBound)
	switch res.Status {
	case optimize.GradientThreshold:
		gr := make([]float64, o.dim)
		o.g(gr, res.X)
		if !(infNorm(gr) < 1e-12) {
			return vk.Failf("quad-gradient-not-below-threshold", "%s", desc())
		}
		d := 0.0
		for i := range res.X {
			d += (res.X[i] - o.xstar[i]) * (res.X[i] - o.xstar[i])
		}
		// x - x* = A⁻¹∇f, ‖A⁻¹‖₂ = κ, ‖∇f‖₂ <= √n‖∇f‖∞ < √n·1e-12; factor 2 for the
		// rounding of A = QDQᵀ and of the gradient
		if !(math.Sqrt(d) <= 2*kappa*math.Sqrt(float64(o.dim))*1e-12) {
			return vk.Failf("quad-minimizer-not-reached", "%s", desc())
		}
	case optimize.FunctionConvergence:
		if c.Mode == 1 {
			return vk.Failf("quad-function-convergence-with-never-terminate", "%s", desc())
		}
		if !(res.F <= o.f(o.x0)) {
			return vk.Failf("quad-worse-than-start", "%s", desc())
		}
	case optimize.FunctionEvaluationLimit:
		if c.Mode == 1 || s == nil || res.Stats.FuncEvaluations < quadCap {
			return vk.Failf("quad-no-convergence", "the evaluation cap %d was reached: %s", quadCap, desc())
		}
		vk.Inconclusive("quad-default-settings-hit-the-evaluation-cap")
	case optimize.Failure:
		if lsErr {
			// a line search giving up is a documented outcome; with exact data and
			// eigenvalues <= 1 it is not expected before the gradient threshold
			return vk.Failf("quad-linesearch-failure", "%s", desc())
		}
		return vk.Failf("quad-failure", "%s", desc())
	default:
		return vk.Failf("quad-unexpected-status", "%s", desc())
	}
	if c.Mode == 1 && res.Status != optimize.GradientThreshold {
		return vk.Failf("quad-no-convergence", "%s", desc())
	}
	if c.Method == mNewton && c.LS != 1 {
		// a full Newton step is exact on a quadratic and satisfies every Wolfe condition
		if res.Status != optimize.GradientThreshold || res.Stats.MajorIterations > 3 {
			return vk.Failf("quad-newton-more-than-3-iterations", "%s", desc())
		}
	}
	return nil
}

func TestQuadConverge(t *testing.T) {
	vk.Run(t, "quad-converge", vk.Opts{Quick: 1600, Thorough: 30000}, func(t *rapid.T) quadCase {
		c := quadCase{Method: rapid.IntRange(0, 4).Draw(t, "method")}
		c.Variant = rapid.IntRange(0, 5).Draw(t, "variant")
		c.Store = rapid.IntRange(0, 10).Draw(t, "store")
		c.LSParam = rapid.IntRange(0, 24).Draw(t, "lsparam")
		c.Dim = vk.Dim(t, "dim", 1, 10)
		c.Seed = rapid.Uint64().Draw(t, "seed")
		c.Far = rapid.IntRange(0, 4).Draw(t, "far") == 0
		c.Mode = rapid.IntRange(0, 1).Draw(t, "mode")
		maxK := 8
		switch c.Method {
		case mGD:
			c.LS = rapid.IntRange(0, 3).Draw(t, "ls")
			c.Step = rapid.IntRange(0, 3).Draw(t, "step")
			maxK = 4
		case mCG:
			c.LS = rapid.SampledFrom([]int{0, 0, 2, 3, 1}).Draw(t, "ls")
			c.Step = rapid.IntRange(0, 3).Draw(t, "step")
			if c.LS == 1 {
				maxK = 4
			}
		case mNewton:
			c.LS = rapid.IntRange(0, 3).Draw(t, "ls")
		default:
			// BFGS and LBFGS document that the line search has to satisfy the Wolfe conditions
			c.LS = rapid.SampledFrom([]int{0, 2, 3}).Draw(t, "ls")
		}
		c.KappaExp = rapid.IntRange(0, maxK).Draw(t, "kappa")
		return c
	}, checkQuad)
}
