package c19

import (
	"hash/fnv"
	"math"
	"sync"
	"sync/atomic"

	"gonum.org/v1/gonum/mat"
	"gonum.org/v1/gonum/optimize/functions"
	"verifharness/vk"
)

// ---- objectives ------------------------------------------------------------------------

// objective is a smooth test function with exact derivatives.
type objective struct {
	name string
	dim  int
	f    func(x []float64) float64
	g    func(grad, x []float64)
	h    func(h *mat.SymDense, x []float64) // nil when the catalogue has no Hessian
	x0   []float64
	// quadratic only
	quad  bool
	xstar []float64
	a     *mat.SymDense
	lmin  float64 // nominal smallest / largest eigenvalue of a
	lmax  float64
}

// newQuadratic builds f(x) = 1/2 (x-x*)ᵀ A (x-x*) with A = Q D Qᵀ, Q a product of
// Givens rotations and D log-spaced in [1/kappa, 1]; everything is a pure
// function of (dim, kappaExp, seed, start). f(x*) = 0 and ∇f(x*) = 0 exactly.
// start: 0 random offset from x*, 1 x0 == x* (stationary start), 2 far start.
func newQuadratic(dim, kappaExp int, seed uint64, start int) *objective {
	r := vk.NewSplitMix(seed)
	kappa := math.Pow(10, float64(kappaExp)/2) // 1 .. 1e4
	d := make([]float64, dim)
	for i := range d {
		t := 0.0
		if dim > 1 {
			t = float64(i) / float64(dim-1)
		}
		d[i] = math.Pow(kappa, t-1) // eigenvalues in [1/kappa, 1]
	}
	if dim == 1 {
		d[0] = 1 + 3*r.Float()
	}
	q := mat.NewDense(dim, dim, nil)
	for i := 0; i < dim; i++ {
		q.Set(i, i, 1)
	}
	for k := 0; k < 2*dim; k++ {
		if dim < 2 {
			break
		}
		i := r.Intn(dim)
		j := r.Intn(dim - 1)
		if j >= i {
			j++
		}
		th := 2 * math.Pi * r.Float()
		c, s := math.Cos(th), math.Sin(th)
		for col := 0; col < dim; col++ {
			a, b := q.At(i, col), q.At(j, col)
			q.Set(i, col, c*a-s*b)
			q.Set(j, col, s*a+c*b)
		}
	}
	a := mat.NewSymDense(dim, nil)
	for i := 0; i < dim; i++ {
		for j := i; j < dim; j++ {
			s := 0.0
			for k := 0; k < dim; k++ {
				s += q.At(k, i) * d[k] * q.At(k, j)
			}
			a.SetSym(i, j, s)
		}
	}
	xs := make([]float64, dim)
	x0 := make([]float64, dim)
	for i := range xs {
		xs[i] = float64(r.Intn(17)-8) / 4
		switch start {
		case 1:
			x0[i] = xs[i]
		case 2:
			x0[i] = xs[i] + 50*r.Norm()
		default:
			x0[i] = xs[i] + r.Finite()
			if x0[i] == xs[i] {
				x0[i] += 0.5
			}
		}
	}
	o := &objective{name: "quad", dim: dim, quad: true, xstar: xs, a: a, x0: x0, lmin: d[0], lmax: d[dim-1]}
	if dim == 1 {
		o.lmax = d[0]
	}
	o.g = func(grad, x []float64) {
		for i := 0; i < dim; i++ {
			s := 0.0
			for j := 0; j < dim; j++ {
				s += a.At(i, j) * (x[j] - xs[j])
			}
			grad[i] = s
		}
	}
	o.f = func(x []float64) float64 {
		s := 0.0
		for i := 0; i < dim; i++ {
			t := 0.0
			for j := 0; j < dim; j++ {
				t += a.At(i, j) * (x[j] - xs[j])
			}
			s += (x[i] - xs[i]) * t
		}
		return s / 2
	}
	o.h = func(h *mat.SymDense, x []float64) {
		for i := 0; i < dim; i++ {
			for j := i; j < dim; j++ {
				h.SetSym(i, j, a.At(i, j))
			}
		}
	}
	return o
}

// newRestricted builds a separable strictly convex function whose domain is a
// proper subset of Rⁿ, started inside the domain (often close to its boundary,
// so that first trial steps leave it).
func newRestricted(kind, dim int, seed uint64) *objective {
	r := vk.NewSplitMix(seed)
	var starts []float64
	var name string
	var f1, g1, h1 func(v float64) float64
	switch kind {
	case 1: // minimizer 1/2
		name, starts = "LogBarrier", []float64{0.01, 0.05, 0.3, 0.7, 0.95, 0.99, 0.001}
		f1 = func(v float64) float64 { return -math.Log(v) - math.Log(1-v) }
		g1 = func(v float64) float64 { return -1/v + 1/(1-v) }
		h1 = func(v float64) float64 { return 1/(v*v) + 1/((1-v)*(1-v)) }
	case 2: // minimizer 1/4
		name, starts = "XMinusSqrt", []float64{0.01, 0.04, 0.5, 1, 4, 0.001, 9}
		f1 = func(v float64) float64 { return v - math.Sqrt(v) }
		g1 = func(v float64) float64 { return 1 - 0.5/math.Sqrt(v) }
		h1 = func(v float64) float64 { return 0.25 / (v * math.Sqrt(v)) }
	default: // minimizer 1
		name, starts = "InversePlusX", []float64{0.01, 0.1, 0.5, 3, 10, 0.001, 0.3}
		f1 = func(v float64) float64 {
			if v <= 0 {
				return math.Inf(1)
			}
			return 1/v + v
		}
		g1 = func(v float64) float64 { return -1/(v*v) + 1 }
		h1 = func(v float64) float64 { return 2 / (v * v * v) }
	}
	x0 := make([]float64, dim)
	for i := range x0 {
		x0[i] = starts[r.Intn(len(starts))]
	}
	o := &objective{name: name, dim: dim, x0: x0}
	o.f = func(x []float64) float64 {
		s := 0.0
		for _, v := range x {
			s += f1(v)
		}
		return s
	}
	o.g = func(grad, x []float64) {
		for i, v := range x {
			grad[i] = g1(v)
		}
	}
	o.h = func(h *mat.SymDense, x []float64) {
		for i := range x {
			for j := i + 1; j < len(x); j++ {
				h.SetSym(i, j, 0)
			}
			h.SetSym(i, i, h1(x[i]))
		}
	}
	return o
}

// catalogue is a subset of optimize/functions at the documented standard starts.
// The first nHessCat entries provide a Hessian (usable with Newton).
const nHessCat = 5

func catalogue(i int) *objective {
	switch i {
	case 0:
		f := functions.Beale{}
		return &objective{name: "Beale", dim: 2, f: f.Func, g: f.Grad, h: f.Hess, x0: []float64{1, 1}}
	case 1:
		f := functions.BrownBadlyScaled{}
		return &objective{name: "BrownBadlyScaled", dim: 2, f: f.Func, g: f.Grad, h: f.Hess, x0: []float64{1, 1}}
	case 2:
		f := functions.BrownAndDennis{}
		return &objective{name: "BrownAndDennis", dim: 4, f: f.Func, g: f.Grad, h: f.Hess, x0: []float64{25, 5, -5, -1}}
	case 3:
		f := functions.PowellBadlyScaled{}
		return &objective{name: "PowellBadlyScaled", dim: 2, f: f.Func, g: f.Grad, h: f.Hess, x0: []float64{0, 1}}
	case 4:
		f := functions.Wood{}
		return &objective{name: "Wood", dim: 4, f: f.Func, g: f.Grad, h: f.Hess, x0: []float64{-3, -1, -3, -1}}
	case 5:
		f := functions.ExtendedRosenbrock{}
		return &objective{name: "ExtendedRosenbrock2", dim: 2, f: f.Func, g: f.Grad, x0: []float64{-1.2, 1}}
	case 6:
		f := functions.ExtendedRosenbrock{}
		return &objective{name: "ExtendedRosenbrock4", dim: 4, f: f.Func, g: f.Grad, x0: []float64{-1.2, 1, -1.2, 1}}
	case 7:
		f := functions.ExtendedPowellSingular{}
		return &objective{name: "ExtendedPowellSingular", dim: 4, f: f.Func, g: f.Grad, x0: []float64{3, -1, 0, 3}}
	case 8:
		// (HelicalValley is documented as undefined at x[0] = 0 and panics there)
		f := functions.Trigonometric{}
		return &objective{name: "Trigonometric", dim: 3, f: f.Func, g: f.Grad, x0: []float64{1.0 / 3, 1.0 / 3, 1.0 / 3}}
	case 9:
		f := functions.BiggsEXP2{}
		return &objective{name: "BiggsEXP2", dim: 2, f: f.Func, g: f.Grad, x0: []float64{1, 2}}
	case 10:
		f := functions.PenaltyI{}
		return &objective{name: "PenaltyI", dim: 4, f: f.Func, g: f.Grad, x0: []float64{1, 2, 3, 4}}
	case 11:
		f := functions.VariablyDimensioned{}
		return &objective{name: "VariablyDimensioned", dim: 3, f: f.Func, g: f.Grad, x0: []float64{2.0 / 3, 1.0 / 3, 0}}
	default:
		f := functions.Box3D{}
		return &objective{name: "Box3D", dim: 3, f: f.Func, g: f.Grad, x0: []float64{0, 10, 20}}
	}
}

const nCatalogue = 13

// ---- instrumentation -------------------------------------------------------------------

func hashX(x []float64) uint64 {
	h := fnv.New64a()
	var b [8]byte
	for _, v := range x {
		u := math.Float64bits(v)
		for i := 0; i < 8; i++ {
			b[i] = byte(u >> (8 * i))
		}
		h.Write(b[:])
	}
	return h.Sum64()
}

// tape counts the callbacks and remembers every point they were given together
// with what they returned there.
type tape struct {
	fc, gc, hc atomic.Int64
	mu         sync.Mutex
	fAt        map[uint64][]uint64 // hash(x) -> bit patterns of the values returned by Func
	gAt        map[uint64][]uint64 // hash(x) -> hashes of the gradients returned by Grad
	minF       float64             // smallest non-NaN value returned by Func
	anyBad     bool                // a callback returned NaN or ±Inf
	firstF     float64
	firstFSet  bool
	firstG     []float64
}

func newTape() *tape {
	return &tape{fAt: map[uint64][]uint64{}, gAt: map[uint64][]uint64{}, minF: math.Inf(1)}
}

func (t *tape) noteF(x []float64, v float64) {
	h := hashX(x)
	t.mu.Lock()
	t.fAt[h] = append(t.fAt[h], math.Float64bits(v))
	if v < t.minF {
		t.minF = v
	}
	if math.IsNaN(v) || math.IsInf(v, 0) {
		t.anyBad = true
	}
	if !t.firstFSet {
		t.firstF, t.firstFSet = v, true
	}
	t.mu.Unlock()
}

func (t *tape) noteG(x, g []float64) {
	h := hashX(x)
	gh := hashX(g)
	t.mu.Lock()
	t.gAt[h] = append(t.gAt[h], gh)
	for _, v := range g {
		if math.IsNaN(v) || math.IsInf(v, 0) {
			t.anyBad = true
		}
	}
	if t.firstG == nil {
		t.firstG = append([]float64{}, g...)
	}
	t.mu.Unlock()
}

func (t *tape) hasF(x []float64, v float64) (evaluated, valueMatches bool) {
	t.mu.Lock()
	defer t.mu.Unlock()
	l, ok := t.fAt[hashX(x)]
	if !ok {
		return false, false
	}
	for _, b := range l {
		if b == math.Float64bits(v) || (math.IsNaN(v) && math.IsNaN(math.Float64frombits(b))) {
			return true, true
		}
	}
	return true, false
}

func (t *tape) hasG(x, g []float64) (evaluated, valueMatches bool) {
	t.mu.Lock()
	defer t.mu.Unlock()
	l, ok := t.gAt[hashX(x)]
	if !ok {
		return false, false
	}
	gh := hashX(g)
	for _, b := range l {
		if b == gh {
			return true, true
		}
	}
	return true, false
}

// bad describes how the wrapped objective misbehaves.
//
//	0 never
//	1 Func returns NaN from its After-th call on     2 +Inf from its After-th call on
//	3 Func returns -Inf at its After-th call on      4 Func returns NaN where x[0] > x0[0]+1/4
//	5 Func returns +Inf where x[0] > x0[0]+1/4       6 Grad stores NaN in the last component from its After-th call on
//	7 Grad stores +Inf in component 0 from its After-th call on
const nBad = 8

// instrument wraps o with counting, recording and the requested misbehaviour.
func instrument(o *objective, bad, after int, t *tape) (f func([]float64) float64, g func(grad, x []float64), h func(*mat.SymDense, []float64)) {
	edge := o.x0[0] + 0.25
	f = func(x []float64) float64 {
		n := t.fc.Add(1)
		v := o.f(x)
		switch bad {
		case 1:
			if n >= int64(after) {
				v = math.NaN()
			}
		case 2:
			if n >= int64(after) {
				v = math.Inf(1)
			}
		case 3:
			if n >= int64(after) {
				v = math.Inf(-1)
			}
		case 4:
			if x[0] > edge {
				v = math.NaN()
			}
		case 5:
			if x[0] > edge {
				v = math.Inf(1)
			}
		}
		t.noteF(x, v)
		return v
	}
	g = func(grad, x []float64) {
		n := t.gc.Add(1)
		o.g(grad, x)
		switch bad {
		case 6:
			if n >= int64(after) {
				grad[len(grad)-1] = math.NaN()
			}
		case 7:
			if n >= int64(after) {
				grad[0] = math.Inf(1)
			}
		}
		t.noteG(x, grad)
	}
	if o.h != nil {
		h = func(m *mat.SymDense, x []float64) {
			t.hc.Add(1)
			o.h(m, x)
		}
	}
	return f, g, h
}

func infNorm(x []float64) float64 {
	m := 0.0
	for _, v := range x {
		if a := math.Abs(v); a > m || math.IsNaN(a) {
			m = a
		}
	}
	return m
}

func sameBitsVec(a, b []float64) bool {
	if len(a) != len(b) {
		return false
	}
	for i := range a {
		if !vk.SameBits(a[i], b[i]) {
			return false
		}
	}
	return true
}
