package c19

import (
	"errors"
	"fmt"
	"math"
	"testing"

	"gonum.org/v1/gonum/optimize"
	"pgregory.net/rapid"
	"verifharness/vk"
)

// ---- line searchers in isolation, driven through the Linesearcher interface -------------------

type lsCase struct {
	LS      int // 1 Backtracking 2 Bisection 3 MoreThuente
	Dec     int // index of the decrease factor
	Curv    int // index of the curvature factor
	Contr   int // index of the contraction factor
	Fam     int // family of φ
	P, Q    int // shape parameters
	StepExp int // first trial step 2^StepExp
	// Cut != 0: the section leaves the domain of the objective beyond the
	// step Cut/4: φ and φ' are NaN there (Cut > 0), or φ = +Inf with the
	// derivative of the formula (Cut < 0, beyond |Cut|/4).
	Cut int `json:",omitempty"`
}

var (
	lsDecrease    = []float64{0, 1e-4, 0.01, 0.1, 0.3}
	lsCurvature   = []float64{0, 0.9, 0.5, 0.4, 0.1, 0.01}
	lsContraction = []float64{0, 0.5, 0.1, 0.9, 0.3}
)

// phi returns φ and φ' of the drawn one-dimensional section; φ'(0) < 0.
// easy reports whether a satisfactory step certainly exists and the search is
// well conditioned (convex quadratic with moderate curvature).
func (c lsCase) phi() (f, g func(s float64) float64, easy, bounded bool) {
	p := float64(c.P) // 1..20
	q := float64(c.Q) // 1..20
	switch c.Fam {
	case 0: // convex quadratic, minimizer at q/p·(1/2)... φ = p/4 s² - q/4 s
		return func(s float64) float64 { return p/4*s*s - q/4*s }, func(s float64) float64 { return p/2*s - q/4 }, true, true
	case 1: // quartic with a flat bottom
		return func(s float64) float64 { d := s - q/4; return d*d*d*d/p + 1 }, func(s float64) float64 { d := s - q/4; return 4 * d * d * d / p }, false, true
	case 2: // Moré-Thuente function 1: -s/(s²+β)
		b := p / 4
		return func(s float64) float64 { return -s / (s*s + b) }, func(s float64) float64 { return (s*s - b) / ((s*s + b) * (s*s + b)) }, false, true
	case 3: // exp(s/p) - q s/p (convex, minimizer p ln q)
		p *= 8 // no overflow for the steps that can be reached
		return func(s float64) float64 { return math.Exp(s/p) - (q+1)*s/p }, func(s float64) float64 { return math.Exp(s/p)/p - (q+1)/p }, false, true
	case 4: // non-convex with several local minima
		return func(s float64) float64 { return math.Cos(q*s/4) + s*s/p - s }, func(s float64) float64 { return -q/4*math.Sin(q*s/4) + 2*s/p - 1 }, false, true
	case 5: // linear: unbounded below
		return func(s float64) float64 { return -q * s / 4 }, func(s float64) float64 { return -q / 4 }, false, false
	default: // concave: unbounded below
		return func(s float64) float64 { return -s*s/p - q*s/4 }, func(s float64) float64 { return -2*s/p - q/4 }, false, false
	}
}

// ---- the exported condition predicates with non-finite values ---------------------------------

// predCase: f0, g0 < 0, step > 0, constants, and a finite value / derivative
// at the step, all small dyadic numbers.
type predCase struct {
	F0, G0, Step, Dec, Curv, F, G int
}

// checkPredicates: a NaN (or +Inf) value satisfies no decrease condition and a
// NaN derivative no curvature condition: the predicates "return true if the
// ... condition(s) have been met".
func checkPredicates(c predCase) *vk.Failure {
	vk.Sample("ls-predicates", c)
	f0, g0, step := float64(c.F0)/4, -float64(c.G0)/4, float64(c.Step)/4
	dec, curv := lsDecrease[c.Dec], lsCurvature[c.Curv]
	fs, gs := float64(c.F)/4, float64(c.G)/4
	nan, inf := math.NaN(), math.Inf(1)
	vk.NonTrivial("pred", c)
	// finite arguments: the documented formulas
	rhs := f0 + dec*step*g0
	if got, want := optimize.ArmijoConditionMet(fs, f0, g0, step, dec), fs <= rhs; got != want {
		return vk.Failf("armijo-predicate", "ArmijoConditionMet(%v, %v, %v, %v, %v) = %v", fs, f0, g0, step, dec, got)
	}
	if got, want := optimize.StrongWolfeConditionsMet(fs, gs, f0, g0, step, dec, curv), fs <= rhs && math.Abs(gs) < curv*math.Abs(g0); got != want {
		return vk.Failf("strong-wolfe-predicate", "StrongWolfeConditionsMet(%v, %v, %v, %v, %v, %v, %v) = %v", fs, gs, f0, g0, step, dec, curv, got)
	}
	if got, want := optimize.WeakWolfeConditionsMet(fs, gs, f0, g0, step, dec, curv), fs <= rhs && gs >= curv*g0; got != want {
		return vk.Failf("weak-wolfe-predicate", "WeakWolfeConditionsMet(%v, %v, %v, %v, %v, %v, %v) = %v", fs, gs, f0, g0, step, dec, curv, got)
	}
	for _, bad := range []float64{nan, inf} {
		if optimize.ArmijoConditionMet(bad, f0, g0, step, dec) {
			return vk.Failf("armijo-predicate-true-for-nan-or-inf-value", "ArmijoConditionMet(%v, %v, %v, %v, %v) = true", bad, f0, g0, step, dec)
		}
		if optimize.StrongWolfeConditionsMet(bad, gs, f0, g0, step, dec, curv) || optimize.WeakWolfeConditionsMet(bad, gs, f0, g0, step, dec, curv) {
			return vk.Failf("wolfe-predicates-true-for-nan-or-inf-value", "StrongWolfeConditionsMet / WeakWolfeConditionsMet(currObj=%v, currGrad=%v, initObj=%v, initGrad=%v, step=%v, decrease=%v, curvature=%v) = %v / %v",
				bad, gs, f0, g0, step, dec, curv, optimize.StrongWolfeConditionsMet(bad, gs, f0, g0, step, dec, curv), optimize.WeakWolfeConditionsMet(bad, gs, f0, g0, step, dec, curv))
		}
	}
	if optimize.StrongWolfeConditionsMet(fs, nan, f0, g0, step, dec, curv) || optimize.WeakWolfeConditionsMet(fs, nan, f0, g0, step, dec, curv) {
		return vk.Failf("wolfe-predicates-true-for-nan-derivative", "currObj=%v currGrad=NaN initObj=%v initGrad=%v step=%v decrease=%v curvature=%v", fs, f0, g0, step, dec, curv)
	}
	return nil
}

func TestLinesearchPredicates(t *testing.T) {
	vk.Run(t, "ls-predicates", vk.Opts{Quick: 2000, Thorough: 40000, NoCrumb: true}, func(t *rapid.T) predCase {
		return predCase{
			F0: rapid.IntRange(-20, 20).Draw(t, "f0"), G0: rapid.IntRange(1, 20).Draw(t, "g0"), Step: rapid.IntRange(1, 40).Draw(t, "step"),
			Dec: rapid.IntRange(0, len(lsDecrease)-1).Draw(t, "dec"), Curv: rapid.IntRange(0, len(lsCurvature)-1).Draw(t, "curv"),
			F: rapid.IntRange(-60, 40).Draw(t, "f"), G: rapid.IntRange(-20, 20).Draw(t, "g"),
		}
	}, checkPredicates)
}

func checkLS(c lsCase) *vk.Failure {
	vk.Sample("linesearch", c)
	phi, dphi, easy, bounded := c.phi()
	if c.Cut != 0 {
		inner, dinner := phi, dphi
		cut := math.Abs(float64(c.Cut)) / 4
		easy = false
		phi = func(s float64) float64 {
			switch {
			case !(s > cut):
				return inner(s)
			case c.Cut > 0:
				return math.NaN()
			}
			return math.Inf(1)
		}
		dphi = func(s float64) float64 {
			if s > cut && c.Cut > 0 {
				return math.NaN()
			}
			return dinner(s)
		}
	}
	dec, curv := lsDecrease[c.Dec], lsCurvature[c.Curv]
	var ls optimize.Linesearcher
	var name string
	switch c.LS {
	case 1:
		name = "Backtracking"
		ls = &optimize.Backtracking{DecreaseFactor: dec, ContractionFactor: lsContraction[c.Contr]}
		if dec == 0 {
			dec = 1e-4 // documented default
		}
	case 2:
		name = "Bisection"
		ls = &optimize.Bisection{CurvatureFactor: curv}
		dec = 0 // documented: decrease factor of zero
		if curv == 0 {
			curv = 0.9
		}
	default:
		name = "MoreThuente"
		ls = &optimize.MoreThuente{DecreaseFactor: dec, CurvatureFactor: curv}
		if curv == 0 {
			curv = 0.9
		}
	}
	f0, g0 := phi(0), dphi(0)
	step := math.Ldexp(1, c.StepExp)
	desc := func(extra string) string {
		return fmt.Sprintf("%s dec=%g curv=%g family=%d p=%d q=%d first step %g: %s", name, dec, curv, c.Fam, c.P, c.Q, math.Ldexp(1, c.StepExp), extra)
	}
	if !(g0 < 0) {
		panic("c19: φ'(0) must be negative")
	}
	var op optimize.Operation
	r := vk.Call(func() { op = ls.Init(f0, g0, step) })
	if r.Outcome != vk.Returned {
		return vk.Failf("ls-init-panics/"+name, "%s", desc(r.Text))
	}
	valid := optimize.NoOperation // what is known at the current step
	const maxIter = 100000
	for it := 0; ; it++ {
		if it >= maxIter && c.Cut != 0 {
			// nothing is documented about how a search copes with NaN/+Inf
			// values; only an accepted step is judged
			vk.Class("ls/" + name + "/restricted-domain/no-termination-in-100000-iterations")
			return nil
		}
		if it >= maxIter {
			return vk.Failf("ls-does-not-terminate/"+name, "%s", desc(fmt.Sprintf("%d iterations without MajorIteration or error, step %g", maxIter, step)))
		}
		switch op {
		case optimize.FuncEvaluation, optimize.GradEvaluation, optimize.FuncEvaluation | optimize.GradEvaluation:
		default:
			return vk.Failf("ls-invalid-operation/"+name, "%s", desc(fmt.Sprintf("operation %v", op)))
		}
		valid |= op
		fv, gv := math.NaN(), math.NaN()
		if valid&optimize.FuncEvaluation != 0 {
			fv = phi(step)
		}
		if valid&optimize.GradEvaluation != 0 {
			gv = dphi(step)
		}
		if c.Cut == 0 && (math.IsInf(fv, 0) || math.IsInf(gv, 0)) {
			// φ overflowed: nothing is documented for non-finite values
			vk.Class("ls/" + name + "/phi-overflow")
			return nil
		}
		var next float64
		var err error
		r := vk.Call(func() { op, next, err = ls.Iterate(fv, gv) })
		if r.Outcome != vk.Returned {
			return vk.Failf("ls-iterate-panics/"+name, "%s", desc(r.Text))
		}
		if err != nil {
			documented := errors.Is(err, optimize.ErrLinesearcherFailure) || (c.LS == 3 && errors.Is(err, optimize.ErrLinesearcherBound))
			if !documented {
				return vk.Failf("ls-undocumented-error/"+name, "%s", desc(err.Error()))
			}
			vk.Class(fmt.Sprintf("ls/%s/family%d/%v", name, c.Fam, err))
			if easy && c.StepExp >= -7 && c.StepExp <= 7 {
				return vk.Failf("ls-gives-up-on-convex-quadratic/"+name, "%s", desc(fmt.Sprintf("after %d iterations at step %g: %v", it+1, step, err)))
			}
			if !bounded || c.LS != 1 {
				vk.NonTrivial("ls", c)
			}
			return nil
		}
		if op == optimize.MajorIteration {
			// the conditions hold at the step evaluated last
			fs, gs := phi(step), dphi(step)
			vk.Class(fmt.Sprintf("ls/%s/family%d/accepted", name, c.Fam))
			if c.Cut != 0 {
				vk.Class("ls/" + name + "/restricted-domain/accepted")
				if math.IsNaN(fs) || math.IsInf(fs, 1) {
					return vk.Failf("ls-accepts-step-outside-the-domain/"+name, "%s", desc(fmt.Sprintf("accepted step %g where φ = %v (φ(0) = %v is finite)", step, fs, f0)))
				}
			}
			if it >= 1 {
				vk.NonTrivial("ls", c)
			}
			if !(step > 0) || math.IsInf(step, 0) {
				return vk.Failf("ls-accepted-step-not-positive-finite/"+name, "%s", desc(fmt.Sprintf("step %g", step)))
			}
			rhs := f0 + dec*step*g0
			slack := 4 * vk.Eps * (math.Abs(f0) + math.Abs(dec*step*g0))
			armijo := fs <= rhs+slack
			if !armijo {
				return vk.Failf("ls-sufficient-decrease-violated/"+name, "%s", desc(fmt.Sprintf("accepted step %g: φ=%v > φ(0)+c·s·φ'(0)=%v (φ(0)=%v φ'(0)=%v)", step, fs, rhs, f0, g0)))
			}
			if c.LS != 1 {
				if !(math.Abs(gs) <= curv*math.Abs(g0)*(1+4*vk.Eps)) {
					return vk.Failf("ls-curvature-violated/"+name, "%s", desc(fmt.Sprintf("accepted step %g: |φ'|=%v > %g·|φ'(0)|=%v", step, math.Abs(gs), curv, curv*math.Abs(g0))))
				}
				// cross-check with the exported predicates (strict curvature there)
				if !optimize.WeakWolfeConditionsMet(fs, gs, f0, g0, step, dec, curv*(1+8*vk.Eps)) && armijo && slack == 0 {
					return vk.Failf("ls-weak-wolfe-predicate-disagrees/"+name, "%s", desc(fmt.Sprintf("step %g", step)))
				}
			} else if slack == 0 && !optimize.ArmijoConditionMet(fs, f0, g0, step, dec) {
				return vk.Failf("ls-armijo-predicate-disagrees/"+name, "%s", desc(fmt.Sprintf("step %g", step)))
			}
			if next != step {
				vk.Class("ls/" + name + "/returned-step-differs-from-evaluated-step")
			}
			return nil
		}
		if next != step {
			// (MoreThuente falls back to its best step so far, possibly 0, right
			// before giving up; trial steps are not documented to be positive)
			step = next
			valid = optimize.NoOperation
		}
	}
}

func TestLinesearch(t *testing.T) {
	vk.Run(t, "linesearch", vk.Opts{Quick: 8000, Thorough: 150000, NoCrumb: true}, func(t *rapid.T) lsCase {
		c := lsCase{LS: rapid.IntRange(1, 3).Draw(t, "ls")}
		c.Dec = rapid.IntRange(0, len(lsDecrease)-1).Draw(t, "dec")
		c.Curv = rapid.IntRange(0, len(lsCurvature)-1).Draw(t, "curv")
		if c.LS == 3 {
			// decrease < curvature, the regime in which Wolfe points exist
			for c.Curv != 0 && lsCurvature[c.Curv] <= lsDecrease[c.Dec] {
				c.Dec--
			}
		}
		c.Contr = rapid.IntRange(0, len(lsContraction)-1).Draw(t, "contr")
		c.Fam = rapid.IntRange(0, 6).Draw(t, "fam")
		c.P = rapid.IntRange(1, 20).Draw(t, "p")
		c.Q = rapid.IntRange(1, 20).Draw(t, "q")
		c.StepExp = rapid.IntRange(-12, 12).Draw(t, "stepexp")
		if rapid.IntRange(0, 3).Draw(t, "cutcls") == 0 {
			c.Cut = rapid.IntRange(1, 40).Draw(t, "cut")
			if rapid.Bool().Draw(t, "cutinf") {
				c.Cut = -c.Cut
			}
		}
		return c
	}, checkLS)
}

// ---- LinesearchMethod: the state machine between a NextDirectioner and a Linesearcher ---------

type lsmCase struct {
	LS       int
	LSParam  int
	Dim      int
	KappaExp int
	Seed     uint64
	StepExp  int
	Obj      int // 0 quadratic, 1+i catalogue
	Iters    int
}

// steepest is a NextDirectioner: negative gradient with a fixed first trial step.
type steepest struct {
	step float64
	dirs [][]float64
}

func (s *steepest) InitDirection(loc *optimize.Location, dir []float64) float64 {
	return s.NextDirection(loc, dir)
}
func (s *steepest) NextDirection(loc *optimize.Location, dir []float64) float64 {
	for i, v := range loc.Gradient {
		dir[i] = -v
	}
	s.dirs = append(s.dirs, append([]float64{}, dir...))
	return s.step
}

func checkLSM(c lsmCase) *vk.Failure {
	vk.Sample("linesearch-method", c)
	mc := minCase{LS: c.LS, LSParam: c.LSParam, Obj: c.Obj, Dim: c.Dim, KappaExp: c.KappaExp, Seed: c.Seed}
	o := mc.objective()
	lsr := mc.linesearcher()
	var dec, curv float64
	var name string
	p := c.LSParam % 5
	switch c.LS {
	case 1:
		name, dec = "Backtracking", btDecrease[p]
		if dec == 0 {
			dec = 1e-4
		}
	case 2:
		name, curv = "Bisection", biCurvature[p]
		if curv == 0 {
			curv = 0.9
		}
	default:
		name, dec, curv = "MoreThuente", mtDecrease[p], mtCurvature[p]
		if curv == 0 {
			curv = 0.9
		}
	}
	nd := &steepest{step: math.Ldexp(1, c.StepExp)}
	m := &optimize.LinesearchMethod{NextDirectioner: nd, Linesearcher: lsr}
	dim := o.dim
	loc := &optimize.Location{X: append([]float64{}, o.x0...), Gradient: make([]float64, dim)}
	loc.F = o.f(loc.X)
	o.g(loc.Gradient, loc.X)
	prevX := append([]float64{}, loc.X...)
	prevF := loc.F
	prevG := append([]float64{}, loc.Gradient...)
	if infNorm(prevG) == 0 {
		return nil
	}
	desc := func(extra string) string {
		return fmt.Sprintf("LinesearchMethod{%s dec=%g curv=%g} on %s dim=%d first step %g: %s", name, dec, curv, o.name, dim, nd.step, extra)
	}
	var op optimize.Operation
	var err error
	r := vk.Call(func() { op, err = m.Init(loc) })
	if r.Outcome != vk.Returned {
		return vk.Failf("lsm-panics", "%s", desc(r.Text))
	}
	majors := 0
	scratch := make([]float64, dim)
	for it := 0; it < 20000 && majors < c.Iters; it++ {
		if err != nil {
			documented := errors.Is(err, optimize.ErrLinesearcherFailure) || errors.Is(err, optimize.ErrLinesearcherBound) ||
				errors.Is(err, optimize.ErrNoProgress) || errors.Is(err, optimize.ErrNonDescentDirection)
			if !documented {
				return vk.Failf("lsm-undocumented-error", "%s", desc(err.Error()))
			}
			vk.Class("lsm/" + name + "/" + err.Error())
			return nil
		}
		switch {
		case op == optimize.MajorIteration:
			majors++
			// "In a MajorIteration, the fields of Location must be valid and consistent."
			copy(scratch, loc.X)
			if fv := o.f(scratch); !vk.SameBits(fv, loc.F) {
				return vk.Failf("lsm-major-f-stale", "%s", desc(fmt.Sprintf("major iteration %d at X=%v: loc.F=%v but f(X)=%v", majors, loc.X, loc.F, fv)))
			}
			gv := make([]float64, dim)
			o.g(gv, scratch)
			if !sameBitsVec(gv, loc.Gradient) {
				return vk.Failf("lsm-major-gradient-stale", "%s", desc(fmt.Sprintf("major iteration %d at X=%v: loc.Gradient=%v but ∇f(X)=%v", majors, loc.X, loc.Gradient, gv)))
			}
			// conditions along d = -∇f(prev): X = prev + s d
			d := nd.dirs[len(nd.dirs)-1]
			dd, xd, g0d, g1d := 0.0, 0.0, 0.0, 0.0
			for i := range d {
				dd += d[i] * d[i]
				xd += (loc.X[i] - prevX[i]) * d[i]
				g0d += prevG[i] * d[i]
				g1d += loc.Gradient[i] * d[i]
			}
			s := xd / dd
			// X is the rounded prev + s d: allow a relative 1e-9 on every quantity
			tol := 1e-9 * (math.Abs(prevF) + math.Abs(loc.F) + math.Abs(s*g0d))
			if !(s > 0) {
				return vk.Failf("lsm-step-not-positive", "%s", desc(fmt.Sprintf("major iteration %d: step %g", majors, s)))
			}
			if !(loc.F <= prevF+dec*s*g0d+tol) {
				return vk.Failf("lsm-sufficient-decrease-violated", "%s", desc(fmt.Sprintf("major iteration %d step %g: F=%v > %v + %g·%g·%v", majors, s, loc.F, prevF, dec, s, g0d)))
			}
			if c.LS != 1 && !(math.Abs(g1d) <= curv*math.Abs(g0d)*(1+1e-9)+1e-9*math.Abs(g0d)) {
				return vk.Failf("lsm-curvature-violated", "%s", desc(fmt.Sprintf("major iteration %d step %g: |∇f·d|=%v > %g·%v", majors, s, math.Abs(g1d), curv, math.Abs(g0d))))
			}
			copy(prevX, loc.X)
			prevF = loc.F
			copy(prevG, loc.Gradient)
			if infNorm(prevG) < 1e-10 {
				vk.Class("lsm/" + name + "/converged")
				vk.NonTrivial("lsm", c)
				return nil
			}
		case op&^(optimize.FuncEvaluation|optimize.GradEvaluation) == 0 && op != optimize.NoOperation:
			copy(scratch, loc.X)
			if op&optimize.FuncEvaluation != 0 {
				loc.F = o.f(scratch)
			}
			if op&optimize.GradEvaluation != 0 {
				o.g(loc.Gradient, scratch)
			}
		default:
			return vk.Failf("lsm-invalid-operation", "%s", desc(fmt.Sprintf("operation %v", op)))
		}
		r := vk.Call(func() { op, err = m.Iterate(loc) })
		if r.Outcome != vk.Returned {
			return vk.Failf("lsm-panics", "%s", desc(r.Text))
		}
	}
	vk.Class("lsm/" + name + "/ran")
	if majors >= 2 {
		vk.NonTrivial("lsm", c)
	}
	return nil
}

func TestLinesearchMethod(t *testing.T) {
	vk.Run(t, "linesearch-method", vk.Opts{Quick: 3000, Thorough: 50000}, func(t *rapid.T) lsmCase {
		c := lsmCase{LS: rapid.IntRange(1, 3).Draw(t, "ls"), LSParam: rapid.IntRange(0, 24).Draw(t, "lsparam")}
		if rapid.Bool().Draw(t, "quad") {
			c.Dim = vk.Dim(t, "dim", 1, 10)
			c.KappaExp = rapid.IntRange(0, 6).Draw(t, "kappa")
		} else {
			c.Obj = 1 + rapid.IntRange(0, nCatalogue-1).Draw(t, "obj")
		}
		c.Seed = rapid.Uint64().Draw(t, "seed")
		c.StepExp = rapid.IntRange(-8, 4).Draw(t, "stepexp")
		c.Iters = rapid.IntRange(1, 12).Draw(t, "iters")
		return c
	}, checkLSM)
}
