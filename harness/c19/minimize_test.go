package c19

import (
	"errors"
	"fmt"
	"math"
	"math/rand/v2"
	"sync"
	"sync/atomic"
	"testing"

	"gonum.org/v1/gonum/mat"
	"gonum.org/v1/gonum/optimize"
	"gonum.org/v1/gonum/stat/distmv"
	"pgregory.net/rapid"
	"verifharness/vk"
)

// ---- the case --------------------------------------------------------------------------

const (
	mGD = iota
	mCG
	mBFGS
	mLBFGS
	mNewton
	mNelderMead
	mCmaEs
	mGuess
	mList
	nMethods
)

var methodNames = []string{"GradientDescent", "CG", "BFGS", "LBFGS", "Newton", "NelderMead", "CmaEsChol", "GuessAndCheck", "ListSearch"}

type minCase struct {
	Method  int
	Variant int // CG: 0 default(nil) 1 FletcherReeves 2 PolakRibierePolyak 3 HestenesStiefel 4 DaiYuan 5 HagerZhang
	Store   int // LBFGS.Store (0 default)
	LS      int // 0 default(nil) 1 Backtracking 2 Bisection 3 MoreThuente
	LSParam int // index into the constant tables of the line searcher
	Step    int // GD/CG step sizer: 0 default(nil) 1 Constant 2 Quadratic 3 FirstOrder
	StepExp int // ConstantStepSize{2^StepExp}
	GStop   int // method GradStopThreshold: 0 default 1 NaN (off) 2 1e-4 3 1e-8
	Pop     int // CmaEsChol.Population (0 default)
	Forget  bool
	Rows    int // ListSearch rows

	Obj      int // 0 quadratic, 1+i catalogue(i)
	Dim      int
	KappaExp int // kappa = 10^(KappaExp/2)
	Start    int // quadratic start: 0 near, 1 at the minimizer, 2 far
	Seed     uint64
	NoGrad   bool // gradient-free methods only: Problem.Grad == nil
	Bad      int
	BadAfter int

	FuncLim, GradLim, HessLim, IterLim int // 0 = off
	GThresh                            int // Settings.GradientThreshold: 0 off, 1 1e-3, 2 1e-7, 3 1e3
	Conv                               int // 0 default(nil) 1 NeverTerminate 2 tight FunctionConverge
	ConvIter                           int
	ConvAbs                            int // Absolute = 10^-ConvAbs
	Init                               int // 0 nil 1 F 2 F+Grad 3 F+Grad+Hess
	Concurrent                         int
	Rec                                int // 0 no recorder, -1 Init fails, -2 never fails, k>0 the k-th Record call (only) fails
	StatAt                             int // 0 no Problem.Status, k>0 terminal from the k-th call on
	StatKind                           int // 0 (NotTerminated, err) 1 (custom, nil) 2 (custom, err)

	// NMSimplex != 0: NelderMead is given InitialVertices/InitialValues (values
	// of the well behaved objective): 1 x0 and x0 + e_i/2, 2 seeded vertices
	// within distance 4 of x0 (x0 itself is then not a vertex).
	NMSimplex int `json:",omitempty"`

	// Dom != 0 replaces the objective by a strictly convex function with a
	// restricted domain, started inside it (Dim 1..4, start drawn from Seed):
	// 1 log barrier of the unit cube (NaN outside), 2 Σ x-√x (NaN for x < 0),
	// 3 Σ 1/x+x on x > 0 (+Inf returned outside).
	Dom int `json:",omitempty"`

	// Prev are earlier Minimize calls made with the same method value before
	// the run described above (method reuse history). Only the objective and
	// Settings fields of the entries are used; see history.
	Prev []minCase `json:",omitempty"`
}

// history returns the runs of the case in execution order, the last one being
// the case itself. All runs share the method configuration; GuessAndCheck and
// ListSearch are bound to a dimension and a start (Rander mean, Locs), so their
// earlier runs use the objective of the case with other Settings.
func (c minCase) history() []minCase {
	runs := make([]minCase, 0, len(c.Prev)+1)
	for _, p := range c.Prev {
		q := c
		q.Prev = nil
		if c.Method != mGuess && c.Method != mList && !(c.Method == mNelderMead && c.NMSimplex != 0) {
			q.Obj, q.Dim, q.KappaExp, q.Start, q.Seed, q.Dom = p.Obj, p.Dim, p.KappaExp, p.Start, p.Seed, p.Dom
			if q.Obj == 0 && q.Dim < 1 {
				q.Dim = 1
			}
		}
		q.NoGrad, q.Bad, q.BadAfter = p.NoGrad, p.Bad, p.BadAfter
		q.FuncLim, q.GradLim, q.HessLim, q.IterLim = p.FuncLim, p.GradLim, p.HessLim, p.IterLim
		q.GThresh, q.Conv, q.ConvIter, q.ConvAbs, q.Init, q.Concurrent = p.GThresh, p.Conv, p.ConvIter, p.ConvAbs, p.Init, p.Concurrent
		q.Rec, q.StatAt, q.StatKind = p.Rec, p.StatAt, p.StatKind
		runs = append(runs, q)
	}
	last := c
	last.Prev = nil
	return append(runs, last)
}

var (
	errRecorder  = errors.New("c19: recorder failure")
	errStatus    = errors.New("c19: status failure")
	statusCustom = optimize.NewStatus("c19-custom", true, errors.New("c19: custom status"))
)

func (c minCase) local() bool     { return c.Method <= mNelderMead }
func (c minCase) gradBased() bool { return c.Method <= mNewton }

func (c minCase) objective() *objective {
	if c.Dom != 0 {
		return newRestricted(c.Dom, min(max(c.Dim, 1), 4), c.Seed)
	}
	if c.Obj == 0 {
		return newQuadratic(c.Dim, c.KappaExp, c.Seed, c.Start)
	}
	i := (c.Obj - 1) % nCatalogue
	if c.Method == mNewton {
		i %= nHessCat
	}
	return catalogue(i)
}

func (c minCase) popSize(dim int) int {
	if c.Pop != 0 {
		return c.Pop
	}
	return 4 + int(3*math.Log(float64(dim)))
}

// tasks is the number of concurrent tasks the run uses (Method.Init's result).
func (c minCase) tasks(dim int) int {
	t := max(1, c.Concurrent)
	switch c.Method {
	case mCmaEs:
		pop := c.Pop
		if pop == 0 {
			pop = 4 + int(3*math.Log(float64(dim)))
		}
		return min(t, pop)
	case mGuess:
		return t
	case mList:
		return min(t, c.Rows)
	}
	return 1
}

const safetyCap = 5000

func (c minCase) funcLimit() int {
	if c.FuncLim > 0 {
		return c.FuncLim
	}
	return safetyCap
}

func (c minCase) gradStop() float64 {
	switch c.GStop {
	case 1:
		return math.NaN()
	case 2:
		return 1e-4
	case 3:
		return 1e-8
	}
	return 0
}

func (c minCase) gradThreshold() float64 {
	switch c.GThresh {
	case 1:
		return 1e-3
	case 2:
		return 1e-7
	case 3:
		return 1e3
	}
	return 0
}

var (
	btDecrease    = []float64{0, 1e-4, 0.1, 0.5, 0.9}
	btContraction = []float64{0, 0.5, 0.1, 0.9, 0.3}
	biCurvature   = []float64{0, 0.9, 0.1, 0.5, 0.01}
	mtDecrease    = []float64{0, 1e-4, 0.1, 0.3, 1e-4}
	mtCurvature   = []float64{0, 0.9, 0.5, 0.4, 0.1}
)

func (c minCase) linesearcher() optimize.Linesearcher {
	p := c.LSParam % 5
	switch c.LS {
	case 1:
		return &optimize.Backtracking{DecreaseFactor: btDecrease[p], ContractionFactor: btContraction[(p+c.LSParam/5)%5]}
	case 2:
		return &optimize.Bisection{CurvatureFactor: biCurvature[p]}
	case 3:
		return &optimize.MoreThuente{DecreaseFactor: mtDecrease[p], CurvatureFactor: mtCurvature[p]}
	}
	return nil
}

// wolfeConstants returns the documented constants of the line searcher in use:
// the sufficient decrease factor, the curvature factor and whether a
// curvature condition is promised at all.
func (c minCase) wolfeConstants() (dec, curv float64, wolfe bool) {
	ls, p := c.LS, c.LSParam%5
	if ls == 0 {
		switch c.Method {
		case mGD:
			return 1e-4, 0, false // Backtracking{}
		case mCG:
			return 0, 0.1, true // MoreThuente{CurvatureFactor: 0.1}
		default:
			return 0, 0.9, true // Bisection{}
		}
	}
	switch ls {
	case 1:
		dec = btDecrease[p]
		if dec == 0 {
			dec = 1e-4
		}
		return dec, 0, false
	case 2:
		curv = biCurvature[p]
		if curv == 0 {
			curv = 0.9
		}
		return 0, curv, true
	}
	curv = mtCurvature[p]
	if curv == 0 {
		curv = 0.9
	}
	return mtDecrease[p], curv, true
}

func (c minCase) stepSizer() optimize.StepSizer {
	switch c.Step {
	case 1:
		return optimize.ConstantStepSize{Size: math.Ldexp(1, c.StepExp)}
	case 2:
		return &optimize.QuadraticStepSize{}
	case 3:
		return &optimize.FirstOrderStepSize{}
	}
	return nil
}

// guardMethod forwards to the wrapped Method and turns a panic inside Run (which
// executes on a goroutine started by Minimize and would otherwise kill the
// process) into a Failure status with an error, completing the channel protocol.
type guardMethod struct {
	inner    optimize.Method
	panicked atomic.Pointer[string]
}

var errMethodPanic = errors.New("c19: method panicked")

func (g *guardMethod) Init(dim, tasks int) int { return g.inner.Init(dim, tasks) }
func (g *guardMethod) Uses(has optimize.Available) (optimize.Available, error) {
	return g.inner.Uses(has)
}
func (g *guardMethod) Status() (optimize.Status, error) {
	if g.panicked.Load() != nil {
		return optimize.Failure, errMethodPanic
	}
	if s, ok := g.inner.(optimize.Statuser); ok {
		return s.Status()
	}
	return optimize.NotTerminated, nil
}
func (g *guardMethod) Run(operation chan<- optimize.Task, result <-chan optimize.Task, tasks []optimize.Task) {
	defer func() {
		if r := recover(); r != nil {
			s := fmt.Sprint(r)
			g.panicked.Store(&s)
			// Stop the run, wait for result to be closed, then close operation.
			// (If operation was already closed by the method the send panics
			// again; that cannot happen before the method's own close.)
			func() {
				defer func() { _ = recover() }()
				operation <- optimize.Task{Op: optimize.MethodDone, Location: tasks[0].Location}
				for range result {
				}
				close(operation)
			}()
		}
	}()
	g.inner.Run(operation, result, tasks)
}

// builtMethod is a method value together with the random source it draws
// from; the source is a parameter of the user, not state of the method, and is
// put back to its seed before every run so that a reused method value and a
// fresh one see the same random numbers.
type builtMethod struct {
	m      optimize.Method
	pcg    *rand.PCG
	stream uint64
	// copies of the data handed to the method value, for the check that
	// Minimize leaves its arguments alone
	nmVerts [][]float64
	nmVals  []float64
	locs    []float64
}

// callerDataModified compares the slices and matrices owned by the caller with
// the copies taken when the method value was built.
func (b *builtMethod) callerDataModified() string {
	switch m := b.m.(type) {
	case *optimize.NelderMead:
		if b.nmVerts == nil {
			return ""
		}
		if len(m.InitialVertices) != len(b.nmVerts) || !sameBitsVec(m.InitialValues, b.nmVals) {
			return fmt.Sprintf("NelderMead.InitialValues is now %v, was %v", m.InitialValues, b.nmVals)
		}
		for i := range b.nmVerts {
			if !sameBitsVec(m.InitialVertices[i], b.nmVerts[i]) {
				return fmt.Sprintf("NelderMead.InitialVertices[%d] is now %v, was %v", i, m.InitialVertices[i], b.nmVerts[i])
			}
		}
	case *optimize.ListSearch:
		d := m.Locs.(*mat.Dense)
		if !sameBitsVec(d.RawMatrix().Data, b.locs) {
			return "ListSearch.Locs was modified"
		}
	}
	return ""
}

func (b *builtMethod) reseed(seed uint64) {
	if b.pcg != nil {
		b.pcg.Seed(seed, b.stream)
	}
}

func (c minCase) method(o *objective) optimize.Method { return c.build(o).m }

func (c minCase) build(o *objective) *builtMethod {
	m, pcg, stream := c.buildParts(o)
	b := &builtMethod{m: m, pcg: pcg, stream: stream}
	switch m := m.(type) {
	case *optimize.NelderMead:
		if c.NMSimplex != 0 {
			r := vk.NewSplitMix(c.Seed ^ 0x5117)
			for i := 0; i <= o.dim; i++ {
				v := append([]float64{}, o.x0...)
				switch {
				case c.NMSimplex == 1 && i > 0:
					v[i-1] += 0.5
				case c.NMSimplex != 1:
					for j := range v {
						v[j] += float64(r.Intn(33)-16) / 4
					}
					v[i%o.dim] += 0.125 * float64(i+1) // keeps the vertices distinct
				}
				m.InitialVertices = append(m.InitialVertices, v)
				m.InitialValues = append(m.InitialValues, o.f(v))
				b.nmVerts = append(b.nmVerts, append([]float64{}, v...))
			}
			b.nmVals = append([]float64{}, m.InitialValues...)
			for _, v := range b.nmVals {
				if math.IsNaN(v) || math.IsInf(v, 0) {
					// a vertex outside the domain of the objective: no supplied simplex
					m.InitialVertices, m.InitialValues, b.nmVerts, b.nmVals = nil, nil, nil, nil
					break
				}
			}
		}
	case *optimize.ListSearch:
		b.locs = append([]float64{}, m.Locs.(*mat.Dense).RawMatrix().Data...)
	}
	return b
}

func (c minCase) buildParts(o *objective) (optimize.Method, *rand.PCG, uint64) {
	gs := c.gradStop()
	switch c.Method {
	case mGD:
		return &optimize.GradientDescent{Linesearcher: c.linesearcher(), StepSizer: c.stepSizer(), GradStopThreshold: gs}, nil, 0
	case mCG:
		var v optimize.CGVariant
		switch c.Variant {
		case 1:
			v = &optimize.FletcherReeves{}
		case 2:
			v = &optimize.PolakRibierePolyak{}
		case 3:
			v = &optimize.HestenesStiefel{}
		case 4:
			v = &optimize.DaiYuan{}
		case 5:
			v = &optimize.HagerZhang{}
		}
		return &optimize.CG{Linesearcher: c.linesearcher(), Variant: v, InitialStep: c.stepSizer(), GradStopThreshold: gs}, nil, 0
	case mBFGS:
		return &optimize.BFGS{Linesearcher: c.linesearcher(), GradStopThreshold: gs}, nil, 0
	case mLBFGS:
		return &optimize.LBFGS{Linesearcher: c.linesearcher(), Store: c.Store, GradStopThreshold: gs}, nil, 0
	case mNewton:
		return &optimize.Newton{Linesearcher: c.linesearcher(), GradStopThreshold: gs}, nil, 0
	case mNelderMead:
		return &optimize.NelderMead{}, nil, 0
	case mCmaEs:
		pcg := rand.NewPCG(c.Seed, 17)
		return &optimize.CmaEsChol{Population: c.Pop, ForgetBest: c.Forget, Src: pcg}, pcg, 17
	case mGuess:
		sigma := mat.NewSymDense(o.dim, nil)
		for i := 0; i < o.dim; i++ {
			sigma.SetSym(i, i, 4)
		}
		pcg := rand.NewPCG(c.Seed, 29)
		nrm, ok := distmv.NewNormal(o.x0, sigma, pcg)
		if !ok {
			panic("c19: NewNormal failed")
		}
		return &optimize.GuessAndCheck{Rander: nrm}, pcg, 29
	default:
		r := vk.NewSplitMix(c.Seed ^ 0xabcdef)
		locs := mat.NewDense(c.Rows, o.dim, nil)
		for i := 0; i < c.Rows; i++ {
			for j := 0; j < o.dim; j++ {
				locs.Set(i, j, o.x0[j]+float64(r.Intn(9)-4)/2)
			}
			if i > 0 && r.Intn(4) == 0 { // duplicate rows: ties
				for j := 0; j < o.dim; j++ {
					locs.Set(i, j, locs.At(i-1, j))
				}
			}
		}
		return &optimize.ListSearch{Locs: locs}, nil, 0
	}
}

// ---- recorder ----------------------------------------------------------------------------

type opRec struct {
	op         optimize.Operation
	f          float64
	x, g       []float64
	stats      optimize.Stats
	fc, gc, hc int64
}

type recorder struct {
	failAt int
	tp     *tape
	mu     sync.Mutex
	n      int
	failed bool
	recs   []opRec
}

func (r *recorder) Init() error {
	if r.failAt == -1 {
		r.failed = true
		return errRecorder
	}
	return nil
}

func (r *recorder) Record(l *optimize.Location, op optimize.Operation, s *optimize.Stats) error {
	r.mu.Lock()
	defer r.mu.Unlock()
	r.n++
	rec := opRec{op: op, f: l.F, stats: *s, fc: r.tp.fc.Load(), gc: r.tp.gc.Load(), hc: r.tp.hc.Load()}
	if op == optimize.MajorIteration || op == optimize.PostIteration || op == optimize.InitIteration {
		rec.x = append([]float64{}, l.X...)
		if l.Gradient != nil {
			rec.g = append([]float64{}, l.Gradient...)
		}
	}
	r.recs = append(r.recs, rec)
	if r.failAt > 0 && r.n == r.failAt { // exactly once: a dropped error is not repeated by the PostIteration record
		r.failed = true
		return errRecorder
	}
	return nil
}

// ---- running one case ----------------------------------------------------------------------

type outcome struct {
	res       *optimize.Result
	err       error
	tp        *tape
	rec       *recorder
	statCalls int64
	obj       *objective
	f0, g0    any // values supplied through InitValues (float64 / []float64) or nil
	panicText string
	mpanic    string
	bm        *builtMethod
	modified  string // caller-owned data changed by Minimize
}

func runMin(c minCase) outcome { return runMinOn(c, nil) }

// runMinOn runs the case with the given (already used) method value, or with a
// fresh one when bm is nil.
func runMinOn(c minCase, bm *builtMethod) outcome {
	o := c.objective()
	tp := newTape()
	f, g, h := instrument(o, c.Bad, c.BadAfter, tp)
	out := outcome{tp: tp, obj: o}
	prob := optimize.Problem{Func: f, Grad: g, Hess: h}
	if c.NoGrad && !c.gradBased() {
		prob.Grad, prob.Hess = nil, nil
	}
	var sc atomic.Int64
	if c.StatAt > 0 {
		prob.Status = func() (optimize.Status, error) {
			if sc.Add(1) >= int64(c.StatAt) {
				switch c.StatKind {
				case 0:
					return optimize.NotTerminated, errStatus
				case 1:
					return statusCustom, nil
				default:
					return statusCustom, errStatus
				}
			}
			return optimize.NotTerminated, nil
		}
	}
	s := &optimize.Settings{
		FuncEvaluations:   c.funcLimit(),
		GradEvaluations:   c.GradLim,
		HessEvaluations:   c.HessLim,
		MajorIterations:   c.IterLim,
		GradientThreshold: c.gradThreshold(),
		Concurrent:        c.Concurrent,
	}
	switch c.Conv {
	case 1:
		s.Converger = optimize.NeverTerminate{}
	case 2:
		s.Converger = &optimize.FunctionConverge{Absolute: math.Pow(10, -float64(c.ConvAbs)), Iterations: c.ConvIter}
	}
	if c.Init >= 1 {
		// consistent with the (well behaved) objective at x0
		iv := &optimize.Location{F: o.f(o.x0)}
		out.f0 = iv.F
		if c.Init >= 2 {
			iv.Gradient = make([]float64, o.dim)
			o.g(iv.Gradient, o.x0)
			out.g0 = append([]float64{}, iv.Gradient...)
		}
		if c.Init >= 3 && o.h != nil {
			iv.Hessian = mat.NewSymDense(o.dim, nil)
			o.h(iv.Hessian, o.x0)
		}
		s.InitValues = iv
	}
	if c.Rec != 0 {
		out.rec = &recorder{failAt: c.Rec, tp: tp}
		s.Recorder = out.rec
	}
	if bm == nil {
		bm = c.build(o)
	}
	bm.reseed(c.Seed)
	gm := &guardMethod{inner: bm.m}
	x0 := append([]float64{}, o.x0...)
	sBefore := *s
	r := vk.Call(func() { out.res, out.err = optimize.Minimize(prob, x0, s, gm) })
	if r.Outcome != vk.Returned {
		out.panicText = r.Text
	}
	out.bm = bm
	switch {
	case !sameBitsVec(x0, o.x0):
		out.modified = fmt.Sprintf("initX is now %v, was %v", x0, o.x0)
	case s.FuncEvaluations != sBefore.FuncEvaluations || s.GradEvaluations != sBefore.GradEvaluations || s.HessEvaluations != sBefore.HessEvaluations ||
		s.MajorIterations != sBefore.MajorIterations || s.Concurrent != sBefore.Concurrent || s.Runtime != sBefore.Runtime ||
		!vk.SameBits(s.GradientThreshold, sBefore.GradientThreshold) || s.InitValues != sBefore.InitValues || s.Recorder != sBefore.Recorder || s.Converger != sBefore.Converger:
		out.modified = fmt.Sprintf("Settings is now %+v, was %+v", *s, sBefore)
	default:
		out.modified = bm.callerDataModified()
	}
	if p := gm.panicked.Load(); p != nil {
		out.mpanic = *p
	}
	out.statCalls = sc.Load()
	return out
}

func isLimit(s optimize.Status) bool {
	switch s {
	case optimize.FunctionEvaluationLimit, optimize.GradientEvaluationLimit, optimize.HessianEvaluationLimit, optimize.IterationLimit, optimize.RuntimeLimit:
		return true
	}
	return false
}

// simFC is an independent reading of the FunctionConverge documentation.
type simFC struct {
	abs, rel float64
	iters    int
	first    bool
	best     float64
	stall    int
}

func (s *simFC) step(f float64) bool {
	if s.first {
		s.first = false
		s.best = f
		return false
	}
	if s.iters == 0 {
		return false
	}
	if f < s.best && s.best-f > s.rel*math.Max(math.Abs(f), math.Abs(s.best))+s.abs {
		s.best = f
		s.stall = 0
		return false
	}
	s.stall++
	return s.stall >= s.iters
}

const keyStoppedBeforeMajor = "stopped-before-first-major-iteration-x-never-evaluated"

// checkMin executes the history of the case on one method value and judges
// every run of it.
func checkMin(c minCase) *vk.Failure {
	vk.Sample("minimize", c)
	runs := c.history()
	if len(runs) == 1 {
		return judgeMin(runs[0], runMin(runs[0]), false)
	}
	vk.Class(fmt.Sprintf("min-reuse/%s/%d-runs", methodNames[c.Method], len(runs)))
	bm := runs[0].build(runs[0].objective())
	var deferred *vk.Failure
	for i, r := range runs {
		f := judgeMin(r, runMinOn(r, bm), i > 0)
		if f == nil {
			continue
		}
		f.Msg = fmt.Sprintf("run %d of %d on the same method value: %s", i+1, len(runs), f.Msg)
		if f.Key == keyStoppedBeforeMajor && i < len(runs)-1 {
			// the open finding about runs stopped before their first major
			// iteration: the later runs of the history are still of interest
			if deferred == nil {
				deferred = f
			}
			continue
		}
		return f
	}
	return deferred
}

// judgeMin applies the oracles to one run. reused tells that the method value
// had been used for earlier runs.
func judgeMin(c minCase, out outcome, reused bool) *vk.Failure {
	name := methodNames[c.Method]
	o := out.obj
	desc := func() string {
		var st optimize.Stats
		var status optimize.Status
		var x []float64
		f := math.NaN()
		if out.res != nil {
			st, status, x, f = out.res.Stats, out.res.Status, out.res.X, out.res.F
		}
		return fmt.Sprintf("%s on %s dim=%d x0=%v: status=%v err=%v X=%v F=%v stats{major=%d f=%d g=%d h=%d} callbacks{f=%d g=%d h=%d}",
			name, o.name, o.dim, o.x0, status, out.err, x, f, st.MajorIterations, st.FuncEvaluations, st.GradEvaluations, st.HessEvaluations,
			out.tp.fc.Load(), out.tp.gc.Load(), out.tp.hc.Load())
	}
	if out.panicText != "" {
		return vk.Failf("minimize-panics/"+name, "%s: %s", desc(), out.panicText)
	}
	if out.mpanic != "" {
		kind := "finite-objective"
		if out.tp.anyBad {
			kind = "nan-or-inf-objective"
		}
		return vk.Failf("method-panics/"+name+"/"+kind, "%s: Method.Run panicked: %s", desc(), out.mpanic)
	}
	if out.modified != "" {
		// only InitValues is documented as "may be modified during the call"
		return vk.Failf("caller-data-modified", "%s: %s", out.modified, desc())
	}
	nT := c.tasks(o.dim)
	serial := nT == 1
	// Failures of benign known classes are reported only when nothing else is
	// wrong with the run, so that the remaining oracles still see these cases.
	var deferred *vk.Failure
	deferf := func(key, format string, args ...any) {
		if deferred == nil {
			deferred = vk.Failf(key, format, args...)
		}
	}
	res := out.res
	if res == nil {
		// documented early returns: Problem.Status or Recorder.Init failing before the run
		switch {
		case out.err == nil:
			return vk.Failf("nil-result-nil-error", "%s", desc())
		case errors.Is(out.err, errStatus) && c.StatAt == 1 && c.StatKind != 1:
			vk.Class("min/" + name + "/early-status-error")
		case errors.Is(out.err, errRecorder) && (c.Rec == -1 || c.Rec == 1):
			vk.Class("min/" + name + "/early-recorder-error")
		default:
			return vk.Failf("nil-result-unexplained", "%s", desc())
		}
		if out.tp.fc.Load() != 0 || out.tp.gc.Load() != 0 {
			return vk.Failf("evaluations-before-early-error", "%s", desc())
		}
		return nil
	}
	st := res.Stats
	fc, gc, hc := out.tp.fc.Load(), out.tp.gc.Load(), out.tp.hc.Load()
	cause := res.Status.String()
	if out.err != nil {
		cause += "+err"
	}
	vk.Class("min/" + name + "/" + cause)
	if c.Bad != 0 {
		vk.Class(fmt.Sprintf("min-bad/%d/%s", c.Bad, cause))
	}
	if st.MajorIterations >= 2 || (res.Status != optimize.GradientThreshold && res.Status != optimize.FunctionConvergence && res.Status != optimize.MethodConverge) {
		vk.NonTrivial("min", c)
	}

	// ---- counters
	if int64(st.FuncEvaluations) != fc || int64(st.GradEvaluations) != gc || int64(st.HessEvaluations) != hc {
		return vk.Failf("stats-differ-from-callbacks", "%s", desc())
	}
	slack := 0
	if !serial {
		slack = c.Concurrent
	}
	if L := c.funcLimit(); st.FuncEvaluations > L+slack {
		return vk.Failf("func-limit-exceeded", "limit %d slack %d: %s", L, slack, desc())
	}
	if L := c.GradLim; L > 0 && st.GradEvaluations > L+slack {
		return vk.Failf("grad-limit-exceeded", "limit %d slack %d: %s", L, slack, desc())
	}
	if L := c.HessLim; L > 0 && st.HessEvaluations > L+slack {
		return vk.Failf("hess-limit-exceeded", "limit %d slack %d: %s", L, slack, desc())
	}
	if L := c.IterLim; L > 0 && st.MajorIterations > L+slack {
		return vk.Failf("iteration-limit-exceeded", "limit %d slack %d: %s", L, slack, desc())
	}
	if st.MajorIterations < 0 || len(res.X) != o.dim {
		return vk.Failf("result-shape", "%s", desc())
	}

	// ---- recorder / status errors are returned
	// The first call of Problem.Status is made before the run starts and only
	// its error is looked at; every later call follows an evaluation.
	statusFired := c.StatAt > 0 && out.statCalls >= int64(c.StatAt)
	if c.StatKind == 1 && c.StatAt == 1 {
		statusFired = out.statCalls >= 2
	}
	recFailed := out.rec != nil && out.rec.failed
	if errors.Is(out.err, errRecorder) && !recFailed {
		return vk.Failf("recorder-error-invented", "%s", desc())
	}
	if errors.Is(out.err, errStatus) && !(statusFired && c.StatKind != 1) {
		return vk.Failf("status-error-invented", "%s", desc())
	}
	if serial {
		if recFailed && !errors.Is(out.err, errRecorder) {
			// The global methods declare one more major iteration after the run has
			// been stopped by an evaluation (limit, Problem.Status); an error of the
			// Recorder at that point comes after the first termination cause and is
			// not reported (nothing is documented for it).
			last := out.rec.recs[len(out.rec.recs)-1]
			if n := len(out.rec.recs); n >= 2 && last.op == optimize.PostIteration {
				last = out.rec.recs[n-2]
			}
			afterStop := !c.local() && last.op == optimize.MajorIteration && (isLimit(res.Status) && res.Status != optimize.IterationLimit || res.Status == statusCustom || errors.Is(out.err, errStatus))
			if !afterStop {
				return vk.Failf("recorder-error-lost", "the Recorder returned an error at its call %d but %s", c.Rec, desc())
			}
			vk.Class("min-recorder-error-after-stop")
		}
		if statusFired && !recFailed {
			switch c.StatKind {
			case 0:
				if !errors.Is(out.err, errStatus) {
					return vk.Failf("status-error-lost", "Problem.Status returned an error at its call %d but %s", c.StatAt, desc())
				}
			case 1:
				if res.Status != statusCustom || out.err != nil {
					return vk.Failf("status-termination-lost", "Problem.Status returned a terminal status at its call %d but %s", c.StatAt, desc())
				}
			default:
				if res.Status != statusCustom || !errors.Is(out.err, errStatus) {
					return vk.Failf("status-termination-lost", "Problem.Status returned a terminal status and an error at its call %d but %s", c.StatAt, desc())
				}
			}
		}
	}

	// ---- the status names the cause
	thr := 0.0 // largest active gradient threshold
	if c.gradBased() {
		switch gs := c.gradStop(); {
		case math.IsNaN(gs):
		case gs == 0:
			thr = 1e-12
		default:
			thr = gs
		}
	}
	if t := c.gradThreshold(); t > thr {
		thr = t
	}
	switch res.Status {
	case optimize.FunctionEvaluationLimit:
		if st.FuncEvaluations < c.funcLimit() {
			return vk.Failf("status-limit-not-reached", "FuncEvaluations limit %d: %s", c.funcLimit(), desc())
		}
	case optimize.GradientEvaluationLimit:
		if c.GradLim == 0 || st.GradEvaluations < c.GradLim {
			return vk.Failf("status-limit-not-reached", "GradEvaluations limit %d: %s", c.GradLim, desc())
		}
	case optimize.HessianEvaluationLimit:
		if c.HessLim == 0 || st.HessEvaluations < c.HessLim {
			return vk.Failf("status-limit-not-reached", "HessEvaluations limit %d: %s", c.HessLim, desc())
		}
	case optimize.IterationLimit:
		if c.IterLim == 0 || st.MajorIterations < c.IterLim {
			return vk.Failf("status-limit-not-reached", "MajorIterations limit %d: %s", c.IterLim, desc())
		}
	case optimize.GradientThreshold:
		if !c.gradBased() && c.Init >= 2 {
			// "This setting has no effect if the gradient is not used by the Method"
			deferf("gradient-free-method-reports-stale-init-gradient", "GradientThreshold status from a method that does not use gradients (InitValues.Gradient was supplied): %s", desc())
		} else if res.Gradient == nil || !(infNorm(res.Gradient) < thr) {
			return vk.Failf("status-gradient-threshold-unjustified", "threshold %g, reported gradient %v: %s", thr, res.Gradient, desc())
		}
	case optimize.FunctionConvergence:
		it := 100
		if c.Conv == 2 {
			it = c.ConvIter
		}
		if c.Conv == 1 || it == 0 || st.MajorIterations < it+1 {
			return vk.Failf("status-function-convergence-unjustified", "converger %d iterations %d: %s", c.Conv, it, desc())
		}
	case optimize.FunctionNegativeInfinity:
		if !math.IsInf(res.F, -1) {
			return vk.Failf("status-neginf-unjustified", "%s", desc())
		}
	case optimize.MethodConverge:
		switch c.Method {
		case mList:
			if fc != int64(c.Rows) {
				return vk.Failf("status-listsearch-converge-unjustified", "%d rows: %s", c.Rows, desc())
			}
		case mCmaEs:
		default:
			return vk.Failf("status-method-converge-unexpected", "%s", desc())
		}
	case optimize.Failure:
		if out.err == nil {
			return vk.Failf("status-failure-without-error", "%s", desc())
		}
	case statusCustom:
		if !(statusFired && c.StatKind != 0) {
			return vk.Failf("status-custom-invented", "%s", desc())
		}
	case optimize.NotTerminated:
		if !(errors.Is(out.err, errStatus) && c.StatKind == 0) && !errors.Is(out.err, errRecorder) {
			return vk.Failf("status-not-terminated", "%s", desc())
		}
	default:
		return vk.Failf("status-unexpected", "%s", desc())
	}
	// method errors come with Failure
	var ef optimize.ErrFunc
	var eg optimize.ErrGrad
	isEF, isEG := errors.As(out.err, &ef), errors.As(out.err, &eg)
	lsErr := errors.Is(out.err, optimize.ErrLinesearcherFailure) || errors.Is(out.err, optimize.ErrNonDescentDirection) ||
		errors.Is(out.err, optimize.ErrNoProgress) || errors.Is(out.err, optimize.ErrLinesearcherBound)
	if (isEF || isEG || lsErr) && res.Status != optimize.Failure {
		return vk.Failf("method-error-without-failure", "%s", desc())
	}
	if lsErr && !c.gradBased() {
		return vk.Failf("linesearch-error-from-other-method", "%s", desc())
	}
	if out.err != nil && !isEF && !isEG && !lsErr && !errors.Is(out.err, errRecorder) && !errors.Is(out.err, errStatus) {
		vk.Class(fmt.Sprintf("min-other-error/%s/%v", name, out.err))
	}

	// ---- NaN/Inf at the start (documented ErrFunc / ErrGrad of the local methods)
	if c.local() {
		// the values the method saw at x0
		var fSeen float64
		var gSeen []float64
		fKnown, gKnown := false, false
		if c.Init >= 1 {
			fSeen, fKnown = out.f0.(float64), true
		} else if out.tp.firstFSet {
			fSeen, fKnown = out.tp.firstF, true
		}
		if c.Init >= 2 {
			gSeen, gKnown = out.g0.([]float64), true
		} else if c.gradBased() && out.tp.firstG != nil {
			gSeen, gKnown = out.tp.firstG, true
		}
		wantEF := fKnown && (math.IsNaN(fSeen) || math.IsInf(fSeen, 1))
		wantEG := -1
		if gKnown {
			for i, v := range gSeen {
				if math.IsNaN(v) || math.IsInf(v, 0) {
					wantEG = i
					break
				}
			}
		}
		if isEF && !(wantEF && vk.SameBits(float64(ef), fSeen)) {
			return vk.Failf("errfunc-unjustified", "first value seen %v: %s", fSeen, desc())
		}
		if isEG && !(wantEG == eg.Index && !wantEF && vk.SameBits(eg.Grad, gSeen[wantEG])) {
			return vk.Failf("errgrad-unjustified", "first gradient seen %v: %s", gSeen, desc())
		}
		// nothing else can stop the run during the initial evaluation
		quietStart := c.FuncLim != 1 && c.GradLim != 1 && c.HessLim != 1 && (c.StatAt == 0 || c.StatAt > 2) && (c.Rec == 0 || c.Rec == -2 || c.Rec > 3)
		if quietStart && (wantEF || wantEG >= 0) {
			if res.Status != optimize.Failure || (wantEF && !isEF) || (!wantEF && !isEG) {
				return vk.Failf("bad-start-not-reported", "value %v gradient %v seen at the start: %s", fSeen, gSeen, desc())
			}
		}
		// documented GradStopThreshold: a start with a gradient below it is a
		// gradient-threshold stop, not a failure of the line search
		if quietStart && gKnown && !wantEF && wantEG < 0 && c.gradBased() && !math.IsNaN(c.gradStop()) {
			mthr := c.gradStop()
			if mthr == 0 {
				mthr = 1e-12
			}
			if infNorm(gSeen) < mthr && st.MajorIterations <= 1 && res.Status == optimize.Failure && lsErr {
				deferf("stationary-start-reported-as-failure", "gradient at x0 %v is below GradStopThreshold %g: %s", gSeen, mthr, desc())
			}
		}
	}

	// ---- coherence of the reported location
	x0seen := c.Init >= 1
	evaluated, valueOK := out.tp.hasF(res.X, res.F)
	if x0seen && sameBitsVec(res.X, o.x0) && (!evaluated || !valueOK) {
		// the value at x0 was supplied through InitValues
		evaluated, valueOK = true, vk.SameBits(res.F, out.f0.(float64))
	}
	for i, v := range out.bm.nmVerts {
		if sameBitsVec(res.X, v) && (!evaluated || !valueOK) {
			// a vertex of the supplied initial simplex with its supplied value
			evaluated, valueOK = true, vk.SameBits(res.F, out.bm.nmVals[i])
		}
	}
	badF := math.IsNaN(res.F) || math.IsInf(res.F, 1)
	if st.MajorIterations == 0 {
		placeholder := math.IsInf(res.F, 1) && infNorm(res.X) == 0 && res.Gradient == nil
		switch {
		case !placeholder:
			return vk.Failf("no-major-iteration-but-result-set", "%s", desc())
		case out.err != nil:
			vk.Class("min-major0/error")
		case out.tp.anyBad:
			vk.Class("min-major0/bad-objective")
		case evaluated && valueOK:
			vk.Class("min-major0/coherent") // x0 == 0 and f(0) == +Inf cannot happen with a finite objective
		default:
			// The run was stopped (evaluation limit, Problem.Status) before the
			// first major iteration: X = 0, F = +Inf is reported although the
			// objective was never evaluated there.
			return vk.Failf(keyStoppedBeforeMajor, "%s", desc())
		}
		return deferred
	}
	// (a local method starts from a finite value and only declares accepted,
	// decreasing locations; a global method that never saw a value below +Inf
	// still has to report one of its samples)
	{
		if (!evaluated || !valueOK) && out.tp.anyBad && badF && (c.Method == mGuess || c.Method == mCmaEs) && !(out.tp.minF < math.Inf(1)) {
			// no value below +Inf was ever returned: the best-location buffer
			// (zeros, or the best point of the previous run of a reused method
			// value) is declared although it was never written in this run
			return vk.Failf("global-method-without-value-below-inf-reports-unevaluated-x", "%s", desc())
		}
		if !evaluated {
			if c.Method == mCmaEs && int(fc) < c.popSize(o.dim) {
				// stopped inside the first generation: the zero-initialised slots of
				// the samples that were never evaluated take part in the final
				// "best of this generation" search
				return vk.Failf("cmaes-stopped-in-first-generation-reports-unevaluated-sample", "population %d: %s", c.popSize(o.dim), desc())
			}
			return vk.Failf("x-never-evaluated", "%s", desc())
		}
		if !valueOK {
			return vk.Failf("f-is-not-the-value-at-x", "%s", desc())
		}
		if res.Gradient != nil {
			gEval, gOK := out.tp.hasG(res.X, res.Gradient)
			if (!gEval || !gOK) && c.Init >= 2 && sameBitsVec(res.X, o.x0) {
				gEval, gOK = true, sameBitsVec(res.Gradient, out.g0.([]float64))
			}
			if !gEval || !gOK {
				if !c.gradBased() && c.Init >= 2 {
					deferf("gradient-free-method-reports-stale-init-gradient", "Gradient %v: %s", res.Gradient, desc())
				} else {
					return vk.Failf("gradient-is-not-the-gradient-at-x", "Gradient %v (evaluated there: %v): %s", res.Gradient, gEval, desc())
				}
			}
		}
	}
	clean := !out.tp.anyBad
	if c.local() {
		// also when the objective returns NaN/Inf elsewhere: a NaN or +Inf value
		// is not a decrease
		var f0 float64
		known := false
		if c.Init >= 1 {
			f0, known = out.f0.(float64), true
		} else if out.tp.firstFSet {
			f0, known = out.tp.firstF, true
		}
		if len(out.bm.nmVals) > 0 {
			// "If an initial simplex is provided, it is used and initLoc is
			// ignored": the reference is the best supplied vertex, not x0
			// (the first major iteration is still x0: a run stopped there reports it)
			if st.MajorIterations >= 2 {
				f0, known = out.bm.nmVals[0], true
				for _, v := range out.bm.nmVals {
					f0 = math.Min(f0, v)
				}
			}
		}
		if known && !math.IsNaN(f0) && !math.IsInf(f0, 1) && !(res.F <= f0) {
			if c.Method == mNelderMead && out.tp.anyBad {
				// NaN values break the ordering of the simplex (sort and the
				// comparisons of iterateLocal): a NaN or worse vertex is declared best
				return vk.Failf("neldermead-nan-objective-worse-than-initial-point", "f(x0)=%v: %s", f0, desc())
			}
			return vk.Failf("worse-than-initial-point", "f(x0)=%v: %s", f0, desc())
		}
	}
	if (clean || out.tp.minF < math.Inf(1)) && !c.local() && !(c.Method == mCmaEs && c.Forget) {
		if !vk.SameBits(res.F, out.tp.minF) && c.Method == mCmaEs && (res.Status == optimize.MethodConverge || (res.Status == optimize.Failure && out.err != nil && !errors.Is(out.err, errRecorder) && !errors.Is(out.err, errStatus))) {
			// the generation whose update made the method stop is evaluated but its
			// best sample is never declared (MethodDone carries no location)
			return vk.Failf("cmaes-method-done-drops-last-generation", "smallest value returned by Func %v: %s", out.tp.minF, desc())
		}
		if !vk.SameBits(res.F, out.tp.minF) {
			return vk.Failf("global-not-best-evaluated", "smallest value returned by Func %v: %s", out.tp.minF, desc())
		}
	}

	// ---- what the Recorder saw
	if out.rec != nil && len(out.rec.recs) > 0 {
		recs := out.rec.recs
		if recs[0].op != optimize.InitIteration {
			return vk.Failf("recorder-first-op", "first op %v: %s", recs[0].op, desc())
		}
		nMajor := 0
		for i, r := range recs {
			if i > 0 && r.op == optimize.InitIteration {
				return vk.Failf("recorder-init-twice", "%s", desc())
			}
			if r.op == optimize.PostIteration && i != len(recs)-1 {
				return vk.Failf("recorder-post-not-last", "%s", desc())
			}
			if serial && (int64(r.stats.FuncEvaluations) != r.fc || int64(r.stats.GradEvaluations) != r.gc || int64(r.stats.HessEvaluations) != r.hc) {
				return vk.Failf("recorder-stats-differ-from-callbacks", "record %d (%v): stats %+v, callbacks %d/%d/%d: %s", i, r.op, r.stats, r.fc, r.gc, r.hc, desc())
			}
			if r.op == optimize.MajorIteration {
				nMajor++
				if r.stats.MajorIterations != nMajor && serial {
					return vk.Failf("recorder-major-count", "record %d: MajorIterations %d, %d-th major iteration: %s", i, r.stats.MajorIterations, nMajor, desc())
				}
				if (clean || c.local()) && !(c.Method == mCmaEs && c.Forget) && !(nMajor == 1 && len(out.bm.nmVals) > 0) && !(res.F <= r.f) {
					return vk.Failf("result-not-best-major-iteration", "major iteration %d had F=%v: %s", nMajor, r.f, desc())
				}
			}
		}
		// the line search conditions between consecutive major iterations of the
		// line-search based methods: x_{k+1} = x_k + s d, so s φ'(0) = ∇f_k·Δx
		if c.gradBased() {
			dec, curv, wolfe := c.wolfeConstants()
			finite := func(r *opRec) bool {
				ok := !math.IsNaN(r.f) && !math.IsInf(r.f, 0)
				for _, v := range r.g {
					ok = ok && !math.IsNaN(v) && !math.IsInf(v, 0)
				}
				return ok
			}
			var prev *opRec
			k := 0
			for i := range recs {
				r := &recs[i]
				if r.op != optimize.MajorIteration || r.g == nil {
					continue
				}
				k++
				if prev != nil && finite(prev) && finite(r) {
					g0d, g1d, scale := 0.0, 0.0, 0.0
					for j := range r.x {
						dx := r.x[j] - prev.x[j]
						g0d += prev.g[j] * dx
						g1d += r.g[j] * dx
						scale += (math.Abs(prev.g[j]) + math.Abs(r.g[j])) * (math.Abs(prev.x[j]) + math.Abs(r.x[j]))
					}
					// Δx carries the rounding of x_k + s d: absolute slack 8 n eps Σ|g||x|
					abs := 8 * float64(len(r.x)) * vk.Eps * scale
					if !(r.f <= prev.f+dec*g0d+abs+1e-12*(math.Abs(prev.f)+math.Abs(r.f))) {
						return vk.Failf("major-iterations-violate-sufficient-decrease", "major iterations %d -> %d: F %v -> %v, ∇f_k·Δx = %v, decrease factor %g: %s", k-1, k, prev.f, r.f, g0d, dec, desc())
					}
					if wolfe && !(math.Abs(g1d) <= curv*math.Abs(g0d)*(1+1e-9)+abs) {
						return vk.Failf("major-iterations-violate-curvature", "major iterations %d -> %d: |∇f_{k+1}·Δx| = %v > %g·|∇f_k·Δx| = %v: %s", k-1, k, math.Abs(g1d), curv, curv*math.Abs(g0d), desc())
					}
				}
				prev = r
			}
		}
		last := recs[len(recs)-1]
		if out.err == nil {
			if last.op != optimize.PostIteration || !vk.SameBits(last.f, res.F) || !sameBitsVec(last.x, res.X) {
				return vk.Failf("recorder-post-differs-from-result", "last record %v F=%v X=%v: %s", last.op, last.f, last.x, desc())
			}
		}
		// the converger's verdicts, replayed from the recorded major iterations
		if serial && out.err == nil && c.Conv != 1 && !recFailed {
			sim := &simFC{abs: 1e-10, iters: 100, first: true}
			if c.Conv == 2 {
				sim = &simFC{abs: math.Pow(10, -float64(c.ConvAbs)), iters: c.ConvIter, first: true}
			}
			var fs []float64
			for _, r := range recs {
				if r.op == optimize.MajorIteration {
					fs = append(fs, r.f)
				}
			}
			// Every major iteration that did not stop the run is recorded; in a
			// serial run at most the last one is missing. After a stop caused by an
			// evaluation the global methods still declare one (recorded or not)
			// major iteration, so the verdict at the last one is only known for
			// local methods and for statuses decided at major iterations.
			if len(fs) != st.MajorIterations && len(fs) != st.MajorIterations-1 {
				return vk.Failf("recorder-major-missing", "%d major iterations recorded: %s", len(fs), desc())
			}
			majorStatus := res.Status == optimize.FunctionConvergence || res.Status == optimize.IterationLimit || res.Status == optimize.FunctionNegativeInfinity
			atMajor := len(fs) == st.MajorIterations-1 && (c.local() || majorStatus)
			decided := c.local() || majorStatus
			for i, f := range fs {
				if sim.step(f) {
					return vk.Failf("function-convergence-missed", "FunctionConverge is satisfied at major iteration %d (F=%v) but the run went on: %s", i+1, fs[:i+1], desc())
				}
			}
			if atMajor {
				gradStop := res.Gradient != nil && c.gradThreshold() > 0 && infNorm(res.Gradient) < c.gradThreshold()
				conv := !math.IsInf(res.F, -1) && !gradStop && sim.step(res.F)
				if conv != (res.Status == optimize.FunctionConvergence) {
					return vk.Failf("function-convergence-verdict", "documented rule says converged=%v at the last major iteration (F history %v then %v): %s", conv, fs, res.F, desc())
				}
			} else if decided && res.Status == optimize.FunctionConvergence {
				return vk.Failf("function-convergence-verdict", "FunctionConvergence although the last operation was not a major iteration: %s", desc())
			}
		}
	}
	// ---- a serial run is reproducible, and a reused method value behaves like a fresh one
	if serial {
		o2 := runMin(c)
		// When the objective never returned a value below +Inf the global
		// methods report F = +Inf with whatever their best-location buffer holds
		// (zeros in a new method value, the best point of the previous run in a
		// reused one); nothing is documented for X in that situation.
		noValue := reused && !c.local() && out.tp.anyBad && badF
		if noValue && !sameBitsVec(o2.res.X, res.X) {
			vk.Class("min-reuse/stale-best-x-without-any-finite-value")
		}
		same := o2.res != nil && o2.panicText == "" && o2.mpanic == "" &&
			o2.res.Status == res.Status && vk.SameBits(o2.res.F, res.F) && (sameBitsVec(o2.res.X, res.X) || noValue) && sameBitsVec(o2.res.Gradient, res.Gradient) &&
			o2.res.Stats.MajorIterations == st.MajorIterations && o2.res.Stats.FuncEvaluations == st.FuncEvaluations &&
			o2.res.Stats.GradEvaluations == st.GradEvaluations && o2.res.Stats.HessEvaluations == st.HessEvaluations &&
			fmt.Sprint(o2.err) == fmt.Sprint(out.err)
		if !same {
			var r2 optimize.Result
			if o2.res != nil {
				r2 = *o2.res
			}
			if reused {
				// Method.Init "initializes the method for optimization": a used
				// method value must behave like a new one
				return vk.Failf("reused-method-differs-from-fresh-method/"+name, "the same run with a fresh method value: status=%v err=%v X=%v F=%v stats=%+v; with the reused one: %s", r2.Status, o2.err, r2.X, r2.F, r2.Stats, desc())
			}
			return vk.Failf("serial-run-not-reproducible", "second run: status=%v err=%v X=%v F=%v stats=%+v; first: %s", r2.Status, o2.err, r2.X, r2.F, r2.Stats, desc())
		}
	}
	if deferred != nil {
		return deferred
	}
	return nil
}

func drawMin(t *rapid.T) minCase {
	c := minCase{Method: rapid.IntRange(0, nMethods-1).Draw(t, "method")}
	lim := func(label string) int {
		if rapid.Bool().Draw(t, label+"_off") {
			return 0
		}
		return rapid.IntRange(1, 30).Draw(t, label)
	}
	c.Variant = rapid.IntRange(0, 5).Draw(t, "variant")
	c.Store = rapid.IntRange(0, 10).Draw(t, "store")
	c.LS = rapid.IntRange(0, 3).Draw(t, "ls")
	c.LSParam = rapid.IntRange(0, 24).Draw(t, "lsparam")
	c.Step = rapid.IntRange(0, 3).Draw(t, "step")
	c.StepExp = rapid.IntRange(-6, 2).Draw(t, "stepexp")
	c.GStop = rapid.IntRange(0, 3).Draw(t, "gstop")
	c.Pop = rapid.SampledFrom([]int{0, 0, 1, 2, 3, 4, 5, 8, 12}).Draw(t, "pop")
	c.Forget = rapid.IntRange(0, 4).Draw(t, "forget") == 0
	c.Rows = rapid.IntRange(1, 12).Draw(t, "rows")
	if rapid.IntRange(0, 9).Draw(t, "objcls") < 6 {
		c.Obj = 0
		c.Dim = vk.Dim(t, "dim", 1, 10)
		c.KappaExp = rapid.IntRange(0, 8).Draw(t, "kappa")
		c.Start = rapid.SampledFrom([]int{0, 0, 0, 0, 0, 0, 1, 2}).Draw(t, "start")
	} else {
		c.Obj = 1 + rapid.IntRange(0, nCatalogue-1).Draw(t, "obj")
	}
	if rapid.IntRange(0, 2).Draw(t, "nmsimplexcls") == 0 {
		c.NMSimplex = rapid.IntRange(1, 2).Draw(t, "nmsimplex")
	}
	if rapid.IntRange(0, 7).Draw(t, "domcls") == 0 {
		c.Dom = rapid.IntRange(1, 3).Draw(t, "dom")
		c.Dim = rapid.IntRange(1, 4).Draw(t, "domdim")
	}
	c.Seed = rapid.Uint64().Draw(t, "seed")
	c.NoGrad = rapid.Bool().Draw(t, "nograd")
	if rapid.IntRange(0, 3).Draw(t, "badcls") == 0 {
		c.Bad = rapid.IntRange(1, nBad-1).Draw(t, "bad")
		c.BadAfter = rapid.IntRange(1, 12).Draw(t, "badafter")
	}
	c.FuncLim, c.GradLim, c.HessLim, c.IterLim = lim("funclim"), lim("gradlim"), lim("hesslim"), lim("iterlim")
	c.GThresh = rapid.SampledFrom([]int{0, 0, 0, 1, 2, 3}).Draw(t, "gthresh")
	c.Conv = rapid.IntRange(0, 2).Draw(t, "conv")
	c.ConvIter = rapid.IntRange(0, 4).Draw(t, "conviter")
	c.ConvAbs = rapid.SampledFrom([]int{1, 3, 6, 10}).Draw(t, "convabs")
	c.Init = rapid.SampledFrom([]int{0, 0, 0, 1, 2, 3}).Draw(t, "init")
	c.Concurrent = rapid.IntRange(0, 8).Draw(t, "concurrent")
	switch rapid.IntRange(0, 9).Draw(t, "reccls") {
	case 0, 1:
		c.Rec = 0
	case 2:
		c.Rec = rapid.SampledFrom([]int{-1, 1, 2, 3}).Draw(t, "recearly")
	case 3, 4:
		c.Rec = rapid.IntRange(1, 40).Draw(t, "rec")
	default:
		c.Rec = -2
	}
	if rapid.IntRange(0, 4).Draw(t, "statcls") == 0 {
		c.StatAt = rapid.IntRange(1, 25).Draw(t, "statat")
		c.StatKind = rapid.IntRange(0, 2).Draw(t, "statkind")
	}
	return c
}

func drawMinHistory(t *rapid.T) minCase {
	c := drawMin(t)
	if rapid.IntRange(0, 9).Draw(t, "reuse") < 4 {
		n := rapid.IntRange(1, 2).Draw(t, "nprev")
		for i := 0; i < n; i++ {
			p := drawMin(t)
			p.Method = c.Method // for the objective chosen by objective()
			c.Prev = append(c.Prev, p)
		}
	}
	return c
}

func TestMinimize(t *testing.T) {
	vk.Run(t, "minimize", vk.Opts{Quick: 8000, Thorough: 150000}, drawMinHistory, checkMin)
}
