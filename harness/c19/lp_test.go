package c19

import (
	"errors"
	"fmt"
	"math"
	"math/big"
	"strings"
	"testing"
	"time"

	"gonum.org/v1/gonum/mat"
	"gonum.org/v1/gonum/optimize/convex/lp"
	"pgregory.net/rapid"
	"verifharness/vk"
)

// ---- exact oracle: enumeration of all bases in rational arithmetic -------------------------

type lpClass int

const (
	lpOptimal lpClass = iota
	lpInfeasible
	lpUnbounded
	lpStructural // zero row, zero column or rank(A) < m: Simplex documents "an error"
)

func (c lpClass) String() string {
	return [...]string{"optimal", "infeasible", "unbounded", "structural"}[c]
}

type lpOracle struct {
	class      lpClass
	opt        *big.Rat
	zeroRow    bool
	zeroCol    bool
	zeroColNeg bool // a zero column with negative cost
	rankDef    bool
	truth      lpClass // optimal / infeasible / unbounded, also for structurally odd programs
	feasible   bool    // some x >= 0 with A x = b exists (only computed for full row rank)
	feasBases  [][]int // primal feasible bases
	degenerate bool    // some feasible basis has a zero basic variable
	costs      int     // number of distinct costs over the feasible bases
	nonTrivial bool
}

func ratMat(m, n int, a []int) [][]*big.Rat {
	r := make([][]*big.Rat, m)
	for i := range r {
		r[i] = make([]*big.Rat, n)
		for j := range r[i] {
			r[i][j] = big.NewRat(int64(a[i*n+j]), 1)
		}
	}
	return r
}

// ratRank returns the rank of the m×n matrix a (destroyed).
func ratRank(a [][]*big.Rat) int {
	m := len(a)
	if m == 0 {
		return 0
	}
	n := len(a[0])
	rank := 0
	t := new(big.Rat)
	for col := 0; col < n && rank < m; col++ {
		p := -1
		for i := rank; i < m; i++ {
			if a[i][col].Sign() != 0 {
				p = i
				break
			}
		}
		if p < 0 {
			continue
		}
		a[rank], a[p] = a[p], a[rank]
		for i := rank + 1; i < m; i++ {
			if a[i][col].Sign() == 0 {
				continue
			}
			f := new(big.Rat).Quo(a[i][col], a[rank][col])
			for j := col; j < n; j++ {
				a[i][j] = new(big.Rat).Sub(a[i][j], t.Mul(f, a[rank][j]))
			}
		}
		rank++
	}
	return rank
}

// ratInverse returns the inverse of the square matrix b, or nil if singular.
func ratInverse(b [][]*big.Rat) [][]*big.Rat {
	m := len(b)
	if m == 0 {
		return [][]*big.Rat{}
	}
	w := make([][]*big.Rat, m)
	for i := range w {
		w[i] = make([]*big.Rat, 2*m)
		for j := 0; j < m; j++ {
			w[i][j] = new(big.Rat).Set(b[i][j])
			w[i][m+j] = new(big.Rat)
		}
		w[i][m+i].SetInt64(1)
	}
	for col := 0; col < m; col++ {
		p := -1
		for i := col; i < m; i++ {
			if w[i][col].Sign() != 0 {
				p = i
				break
			}
		}
		if p < 0 {
			return nil
		}
		w[col], w[p] = w[p], w[col]
		inv := new(big.Rat).Inv(w[col][col])
		for j := 0; j < 2*m; j++ {
			w[col][j] = new(big.Rat).Mul(w[col][j], inv)
		}
		for i := 0; i < m; i++ {
			if i == col || w[i][col].Sign() == 0 {
				continue
			}
			f := new(big.Rat).Set(w[i][col])
			for j := 0; j < 2*m; j++ {
				w[i][j] = new(big.Rat).Sub(w[i][j], new(big.Rat).Mul(f, w[col][j]))
			}
		}
	}
	out := make([][]*big.Rat, m)
	for i := range out {
		out[i] = w[i][m:]
	}
	return out
}

func combinations(n, k int, f func(idx []int)) {
	idx := make([]int, k)
	var rec func(start, d int)
	rec = func(start, d int) {
		if d == k {
			f(idx)
			return
		}
		for i := start; i <= n-(k-d); i++ {
			idx[d] = i
			rec(i+1, d+1)
		}
	}
	rec(0, 0)
}

// solveLPExact classifies min cᵀx s.t. A x = b, x >= 0 (A is m×n row major).
func solveLPExact(m, n int, a, b, c []int) lpOracle {
	var o lpOracle
	for i := 0; i < m; i++ {
		z := true
		for j := 0; j < n; j++ {
			if a[i*n+j] != 0 {
				z = false
			}
		}
		o.zeroRow = o.zeroRow || z
	}
	for j := 0; j < n; j++ {
		z := true
		for i := 0; i < m; i++ {
			if a[i*n+j] != 0 {
				z = false
			}
		}
		if z {
			o.zeroCol = true
			if c[j] < 0 {
				o.zeroColNeg = true
			}
		}
	}
	A := ratMat(m, n, a)
	o.rankDef = ratRank(ratMat(m, n, a)) < m
	bR := make([]*big.Rat, m)
	for i := range bR {
		bR[i] = big.NewRat(int64(b[i]), 1)
	}
	cR := make([]*big.Rat, n)
	for j := range cR {
		cR[j] = big.NewRat(int64(c[j]), 1)
	}
	if o.rankDef {
		// Simplex documents "an error" for such A, but the error has to be a true
		// statement about the program: reduce [A|b] to an equivalent system of
		// full row rank (or find it inconsistent) and classify that.
		A, bR, m = ratReduce(A, bR)
		if A == nil {
			o.class, o.truth, o.nonTrivial = lpStructural, lpInfeasible, true
			return o
		}
	}
	var optimal *big.Rat
	costSet := map[string]bool{}
	combinations(n, m, func(idx []int) {
		B := make([][]*big.Rat, m)
		for i := 0; i < m; i++ {
			B[i] = make([]*big.Rat, m)
			for k, j := range idx {
				B[i][k] = A[i][j]
			}
		}
		inv := ratInverse(B)
		if inv == nil {
			return
		}
		xb := make([]*big.Rat, m)
		for k := 0; k < m; k++ {
			s := new(big.Rat)
			for i := 0; i < m; i++ {
				s.Add(s, new(big.Rat).Mul(inv[k][i], bR[i]))
			}
			if s.Sign() < 0 {
				return
			}
			xb[k] = s
		}
		// primal feasible basis
		o.feasBases = append(o.feasBases, append([]int{}, idx...))
		cost := new(big.Rat)
		for k, j := range idx {
			cost.Add(cost, new(big.Rat).Mul(cR[j], xb[k]))
			if xb[k].Sign() == 0 {
				o.degenerate = true
			}
		}
		costSet[cost.String()] = true
		// dual feasibility: r_j = c_j - c_Bᵀ B⁻¹ a_j >= 0 for all j
		y := make([]*big.Rat, m)
		for i := 0; i < m; i++ {
			s := new(big.Rat)
			for k, j := range idx {
				s.Add(s, new(big.Rat).Mul(cR[j], inv[k][i]))
			}
			y[i] = s
		}
		for j := 0; j < n; j++ {
			r := new(big.Rat).Set(cR[j])
			for i := 0; i < m; i++ {
				r.Sub(r, new(big.Rat).Mul(y[i], A[i][j]))
			}
			if r.Sign() < 0 {
				return
			}
		}
		if optimal == nil {
			optimal = cost
		} else if optimal.Cmp(cost) != 0 {
			panic("c19: two optimal bases with different costs")
		}
	})
	o.costs = len(costSet)
	o.feasible = len(o.feasBases) > 0
	switch {
	case !o.feasible:
		o.truth = lpInfeasible
	case optimal == nil:
		o.truth = lpUnbounded
	default:
		o.truth = lpOptimal
		o.opt = optimal
	}
	o.class = o.truth
	if o.zeroCol || o.zeroRow || o.rankDef {
		o.class = lpStructural
		o.feasBases = nil // bases of the reduced system
	}
	o.nonTrivial = o.class != lpOptimal || o.degenerate || o.costs >= 2
	return o
}

// ratReduce brings [A|b] to reduced row echelon form and returns the non-zero
// rows (a system of full row rank with the same solutions), or nil if the
// system is inconsistent.
func ratReduce(A [][]*big.Rat, b []*big.Rat) ([][]*big.Rat, []*big.Rat, int) {
	m := len(A)
	n := len(A[0])
	w := make([][]*big.Rat, m)
	for i := range w {
		w[i] = make([]*big.Rat, n+1)
		for j := 0; j < n; j++ {
			w[i][j] = new(big.Rat).Set(A[i][j])
		}
		w[i][n] = new(big.Rat).Set(b[i])
	}
	rank := 0
	for col := 0; col < n && rank < m; col++ {
		p := -1
		for i := rank; i < m; i++ {
			if w[i][col].Sign() != 0 {
				p = i
				break
			}
		}
		if p < 0 {
			continue
		}
		w[rank], w[p] = w[p], w[rank]
		inv := new(big.Rat).Inv(w[rank][col])
		for j := 0; j <= n; j++ {
			w[rank][j] = new(big.Rat).Mul(w[rank][j], inv)
		}
		for i := 0; i < m; i++ {
			if i == rank || w[i][col].Sign() == 0 {
				continue
			}
			f := new(big.Rat).Set(w[i][col])
			for j := 0; j <= n; j++ {
				w[i][j] = new(big.Rat).Sub(w[i][j], new(big.Rat).Mul(f, w[rank][j]))
			}
		}
		rank++
	}
	for i := rank; i < m; i++ {
		if w[i][n].Sign() != 0 {
			return nil, nil, 0
		}
	}
	outA := make([][]*big.Rat, rank)
	outB := make([]*big.Rat, rank)
	for i := 0; i < rank; i++ {
		outA[i], outB[i] = w[i][:n], w[i][n]
	}
	return outA, outB, rank
}

// ---- Simplex on standard-form programs ------------------------------------------------------

type lpCase struct {
	M, N      int
	A         []int // row major, M×N
	B         []int
	C         []int
	UseBasis  bool
	BasisPick int
}

func toF(a []int) []float64 {
	out := make([]float64, len(a))
	for i, v := range a {
		out[i] = float64(v)
	}
	return out
}

func numericGiveUp(err error) (string, bool) {
	switch {
	case errors.Is(err, lp.ErrBland):
		return "ErrBland", true
	case errors.Is(err, lp.ErrLinSolve):
		return "ErrLinSolve", true
	}
	s := err.Error()
	if strings.HasPrefix(s, "lp: error finding feasible basis") {
		return "phase-one: " + s, true
	}
	var ce mat.Condition
	if errors.As(err, &ce) || strings.Contains(s, "matrix singular or near-singular") {
		return "mat-condition", true
	}
	return "", false
}

// judgeSimplex compares a Simplex outcome with the oracle. sub is used in messages only.
func judgeSimplex(o lpOracle, m, n int, a, b, c []int, optF float64, optX []float64, err error, what string) *vk.Failure {
	show := func() string {
		return fmt.Sprintf("%s m=%d n=%d A=%v b=%v c=%v: oracle %v/%v (opt %v, %d feasible bases) got optF=%v optX=%v err=%v", what, m, n, a, b, c, o.class, o.truth, ratStr(o.opt), len(o.feasBases), optF, optX, err)
	}
	if err != nil {
		if why, ok := numericGiveUp(err); ok && o.class != lpStructural {
			vk.Inconclusive("simplex-numeric-give-up/" + strings.SplitN(why, ":", 2)[0])
			return nil
		}
	}
	switch o.class {
	case lpStructural:
		if err == nil {
			return vk.Failf("structural-defect-no-error", "%s", show())
		}
		// "A must also have full row rank and may not contain any columns with all
		// zeros, or Simplex will return an error": which one is not said, but it
		// has to be a true statement about the program.
		ok := (o.zeroRow && errors.Is(err, lp.ErrZeroRow)) || (o.zeroCol && errors.Is(err, lp.ErrZeroColumn)) ||
			(o.rankDef && errors.Is(err, lp.ErrSingular)) || (o.truth == lpUnbounded && errors.Is(err, lp.ErrUnbounded)) ||
			(o.truth == lpInfeasible && errors.Is(err, lp.ErrInfeasible))
		if !ok && o.zeroColNeg && o.truth == lpInfeasible && errors.Is(err, lp.ErrUnbounded) {
			// verifyInputs answers ErrUnbounded for a zero column with negative
			// cost without looking at feasibility
			return vk.Failf("zero-column-negative-cost-infeasible-program-reported-unbounded", "%s", show())
		}
		if !ok {
			if _, give := numericGiveUp(err); give {
				vk.Inconclusive("simplex-numeric-give-up/structural")
				return nil
			}
			return vk.Failf("structural-defect-wrong-error", "%s", show())
		}
	case lpInfeasible:
		if !errors.Is(err, lp.ErrInfeasible) {
			return vk.Failf("infeasible-not-reported", "%s", show())
		}
	case lpUnbounded:
		if !errors.Is(err, lp.ErrUnbounded) {
			return vk.Failf("unbounded-not-reported", "%s", show())
		}
	case lpOptimal:
		if err != nil && m == n && o.degenerate && errors.Is(err, lp.ErrInfeasible) {
			// the exactly constrained branch tests the computed solution with
			// "v < 0" (no tolerance): a component that is exactly 0 comes out of
			// the LU solve as -1e-17 and the program is called infeasible
			return vk.Failf("square-system-zero-component-reported-infeasible", "%s", show())
		}
		if err != nil {
			return vk.Failf("optimal-program-gets-error", "%s", show())
		}
		if len(optX) != n {
			return vk.Failf("optimal-x-length", "%s", show())
		}
		opt, _ := o.opt.Float64()
		tol := 1e-8 * math.Max(1, math.Abs(opt))
		cx := 0.0
		for j := 0; j < n; j++ {
			if !(optX[j] >= -1e-8) {
				return vk.Failf("optimal-x-negative", "x[%d]=%v: %s", j, optX[j], show())
			}
			cx += float64(c[j]) * optX[j]
		}
		for i := 0; i < m; i++ {
			s := 0.0
			for j := 0; j < n; j++ {
				s += float64(a[i*n+j]) * optX[j]
			}
			if !(math.Abs(s-float64(b[i])) <= 1e-8) {
				return vk.Failf("optimal-x-infeasible", "row %d: A x = %v: %s", i, s, show())
			}
		}
		if !(math.Abs(optF-opt) <= tol) {
			return vk.Failf("optimal-value-wrong", "%s", show())
		}
		if !(math.Abs(cx-opt) <= tol) {
			return vk.Failf("optimal-x-not-optimal", "cᵀx = %v: %s", cx, show())
		}
	}
	return nil
}

func errLabel(err error) string {
	for _, e := range []error{lp.ErrBland, lp.ErrInfeasible, lp.ErrLinSolve, lp.ErrUnbounded, lp.ErrSingular, lp.ErrZeroColumn, lp.ErrZeroRow} {
		if errors.Is(err, e) {
			return e.Error()
		}
	}
	if strings.HasPrefix(err.Error(), "lp: error finding feasible basis") {
		return "phase-one failure"
	}
	return "other"
}

func ratStr(r *big.Rat) string {
	if r == nil {
		return "-"
	}
	return r.RatString()
}

// simplexDeadline bounds the wait for lp.Simplex. A program of this size needs
// microseconds; Simplex has no iteration limit, and a call that cycles would
// otherwise only be seen by the hang watchdog of the kit (which cannot tell
// one known cycling defect from a new one). The goroutine of a call that does
// not return is abandoned.
const simplexDeadline = 10 * time.Second

func callSimplex(c []float64, A mat.Matrix, b []float64, basis []int) (optF float64, optX []float64, err error, panicText string, returned bool) {
	type res struct {
		f   float64
		x   []float64
		err error
		p   string
	}
	ch := make(chan res, 1)
	go func() {
		var r res
		cr := vk.Call(func() { r.f, r.x, r.err = lp.Simplex(c, A, b, 1e-10, basis) })
		if cr.Outcome != vk.Returned {
			r.p = cr.Text
			if r.p == "" {
				r.p = "panic"
			}
		}
		ch <- r
	}()
	select {
	case r := <-ch:
		return r.f, r.x, r.err, r.p, true
	case <-time.After(simplexDeadline):
		return 0, nil, nil, "", false
	}
}

func checkLP(c lpCase) *vk.Failure {
	vk.Sample("lp-simplex", c)
	m, n := c.M, c.N
	o := solveLPExact(m, n, c.A, c.B, c.C)
	cls := "lp/" + o.class.String()
	if m == n {
		cls += "/square"
	}
	if o.degenerate {
		cls += "/degenerate"
	}
	vk.Class(cls)
	if o.nonTrivial {
		vk.NonTrivial("lp", c.M, c.N, c.A, c.B, c.C, c.UseBasis)
	}
	A := mat.NewDense(m, n, toF(c.A))
	var basis []int
	what := "Simplex(nil basis)"
	if c.UseBasis && len(o.feasBases) > 0 && o.class != lpStructural && m < n {
		basis = append([]int{}, o.feasBases[c.BasisPick%len(o.feasBases)]...)
		what = fmt.Sprintf("Simplex(initialBasic=%v)", basis)
		vk.Class("lp/with-initial-basis")
	}
	cF, bF := toF(c.C), toF(c.B)
	optF, optX, err, ptxt, returned := callSimplex(cF, A, bF, basis)
	if !returned {
		return vk.Failf("simplex-does-not-return", "%s m=%d n=%d A=%v b=%v c=%v (oracle %v, %d feasible bases, degenerate=%v): no answer after %v", what, m, n, c.A, c.B, c.C, o.class, len(o.feasBases), o.degenerate, simplexDeadline)
	}
	if ptxt != "" {
		return vk.Failf("simplex-panics", "%s m=%d n=%d A=%v b=%v c=%v (oracle %v): %s", what, m, n, c.A, c.B, c.C, o.class, ptxt)
	}
	for i, v := range cF {
		if v != float64(c.C[i]) {
			return vk.Failf("simplex-modifies-c", "c=%v", cF)
		}
	}
	for i, v := range bF {
		if v != float64(c.B[i]) {
			return vk.Failf("simplex-modifies-b", "b=%v", bF)
		}
	}
	if err != nil {
		vk.Class("lp-err/" + errLabel(err))
	}
	return judgeSimplex(o, m, n, c.A, c.B, c.C, optF, optX, err, what)
}

// cyclingCorpus: completely degenerate programs (b = 0) on which a pivoting
// rule that is not Bland's rule by variable index can cycle.
var cyclingCorpus = []lpCase{
	{M: 3, N: 7, C: []int{2, -1, -2, -1, 1, 1, 0}, B: []int{0, 0, 0},
		A: []int{2, -1, 0, 0, 1, -2, 0, 1, 0, -2, -2, -2, 1, 1, 1, 1, 0, -2, 0, -2, -1}},
	{M: 4, N: 8, C: []int{-2, -2, 4, -1, 1, 4, 0, 3}, B: []int{0, 0, 0, 0},
		A: []int{0, 2, 2, -2, 0, 2, 0, 0, -2, 0, 2, 2, -1, 0, -1, 2, 1, -2, -2, -2, -2, 2, 0, 1, 0, -1, 2, -1, 1, 0, 0, 0}},
	{M: 4, N: 8, C: []int{4, 1, -2, 3, 4, 1, -1, -2}, B: []int{0, 0, 0, 0},
		A: []int{2, 0, 0, 0, 2, -1, -2, 0, -2, 0, -2, 0, 1, 0, 0, 1, -2, 0, 1, 0, -1, 2, 0, 0, 0, 1, 2, 1, 0, -2, -1, 0}},
	{M: 4, N: 8, C: []int{0, 3, 0, 0, 4, -2, 3, 0}, B: []int{0, 0, 0, 0},
		A: []int{1, -2, -2, 1, 0, 2, -2, -2, -2, 0, -2, 2, -1, 0, 1, 2, -1, 1, 0, 1, 0, 0, -2, 0, 0, -2, 0, -1, 0, 2, -1, -1}},
}

// corpusCase returns instance k, with its columns permuted and rows negated
// according to seed (0: unchanged).
func corpusCase(k int, seed uint64) lpCase {
	src := cyclingCorpus[k%len(cyclingCorpus)]
	c := lpCase{M: src.M, N: src.N, A: append([]int{}, src.A...), B: append([]int{}, src.B...), C: append([]int{}, src.C...)}
	if seed == 0 {
		return c
	}
	r := vk.NewSplitMix(seed)
	perm := r.Perm(c.N)
	for i := 0; i < c.M; i++ {
		sign := 1
		if r.Intn(2) == 0 {
			sign = -1
		}
		for j := 0; j < c.N; j++ {
			c.A[i*c.N+j] = sign * src.A[i*c.N+perm[j]]
		}
	}
	for j := 0; j < c.N; j++ {
		c.C[j] = src.C[perm[j]]
	}
	return c
}

func drawLP(t *rapid.T) lpCase {
	// (hashed: rapid's integer generators favour small values, and every corpus
	// instance that cycles costs the full deadline)
	if vk.NewSplitMix(rapid.Uint64().Draw(t, "corpus")).Intn(3000) == 0 {
		k := rapid.IntRange(0, len(cyclingCorpus)-1).Draw(t, "instance")
		seed := uint64(0)
		if rapid.Bool().Draw(t, "variant") {
			seed = rapid.Uint64Range(1, 1<<20).Draw(t, "variantseed")
		}
		return corpusCase(k, seed)
	}
	m := rapid.IntRange(1, 4).Draw(t, "m")
	n := rapid.IntRange(m, 7).Draw(t, "n")
	if rapid.IntRange(0, 7).Draw(t, "square") == 0 {
		n = m
	}
	ent := rapid.SampledFrom([]int{0, 0, 0, 1, -1, 1, -1, 2, -2, 3, -3, 4, -4, 5, -5})
	c := lpCase{M: m, N: n, A: make([]int, m*n), B: make([]int, m), C: make([]int, n)}
	for i := range c.A {
		c.A[i] = ent.Draw(t, "a")
	}
	for j := range c.C {
		c.C[j] = rapid.IntRange(-5, 5).Draw(t, "c")
	}
	kind := rapid.IntRange(0, 10).Draw(t, "kind")
	clamp := func(v int) int { return max(-5, min(5, v)) }
	switch {
	case kind <= 3:
		// feasible by construction: b = A x̄ with a sparse x̄ >= 0 (degenerate
		// vertices when x̄ has fewer than m positive entries); entries are kept
		// in -5..5 by clamping, which may lose feasibility (the oracle decides)
		for i := 0; i < m; i++ {
			c.B[i] = 0
		}
		for j := 0; j < n; j++ {
			xj := rapid.SampledFrom([]int{0, 0, 0, 1, 1, 2}).Draw(t, "xbar")
			for i := 0; i < m; i++ {
				c.B[i] += c.A[i*n+j] * xj
			}
		}
		for i := range c.B {
			c.B[i] = clamp(c.B[i])
		}
		if kind >= 2 {
			// bounded by construction: c = Aᵀy + r, r >= 0
			for j := 0; j < n; j++ {
				c.C[j] = rapid.IntRange(0, 2).Draw(t, "r")
			}
			for i := 0; i < m; i++ {
				yi := rapid.IntRange(-1, 1).Draw(t, "y")
				for j := 0; j < n; j++ {
					c.C[j] += yi * c.A[i*n+j]
				}
			}
			for j := range c.C {
				c.C[j] = clamp(c.C[j])
			}
		}
	case kind == 4:
		// infeasible by construction: a non-negative row with a negative right-hand side
		for i := range c.B {
			c.B[i] = rapid.IntRange(-5, 5).Draw(t, "b")
		}
		i := rapid.IntRange(0, m-1).Draw(t, "row")
		for j := 0; j < n; j++ {
			if c.A[i*n+j] < 0 {
				c.A[i*n+j] = -c.A[i*n+j]
			}
		}
		c.B[i] = -rapid.IntRange(1, 5).Draw(t, "neg")
	case kind == 5 && n >= 2:
		// unbounded by construction when feasible: columns j and k opposite, c_j + c_k < 0
		for i := range c.B {
			c.B[i] = rapid.IntRange(0, 5).Draw(t, "b")
		}
		j := rapid.IntRange(0, n-1).Draw(t, "colj")
		k := rapid.IntRange(0, n-2).Draw(t, "colk")
		if k >= j {
			k++
		}
		for i := 0; i < m; i++ {
			c.A[i*n+k] = -c.A[i*n+j]
		}
		c.C[j] = rapid.IntRange(-5, 2).Draw(t, "cj")
		c.C[k] = -c.C[j] - rapid.IntRange(1, 3).Draw(t, "gap")
		c.C[k] = clamp(c.C[k])
	case kind == 7:
		// a completely degenerate vertex: b = 0, dense small entries, many ties
		// among the reduced costs and ratios
		for i := range c.A {
			c.A[i] = rapid.IntRange(-2, 2).Draw(t, "a0")
		}
		for j := range c.C {
			c.C[j] = rapid.IntRange(-2, 4).Draw(t, "c0")
		}
	case kind == 6:
		// structural oddities: duplicate / zero rows and columns, with a right-hand
		// side that is consistent (b = A x̄, x̄ >= 0) half of the time, so that
		// redundant rows of feasible programs occur as well as contradictory ones
		xbar := make([]int, n)
		for j := range xbar {
			xbar[j] = rapid.SampledFrom([]int{0, 0, 1, 1, 2}).Draw(t, "xbar6")
		}
		consistent := rapid.Bool().Draw(t, "consistent")
		for i := range c.B {
			c.B[i] = rapid.IntRange(-3, 5).Draw(t, "b")
		}
		switch rapid.IntRange(0, 3).Draw(t, "odd") {
		case 0: // zero column
			j := rapid.IntRange(0, n-1).Draw(t, "zc")
			for i := 0; i < m; i++ {
				c.A[i*n+j] = 0
			}
		case 1: // zero row
			i := rapid.IntRange(0, m-1).Draw(t, "zr")
			for j := 0; j < n; j++ {
				c.A[i*n+j] = 0
			}
			if rapid.Bool().Draw(t, "zrb") {
				c.B[i] = 0
			} else if c.B[i] == 0 {
				c.B[i] = 3
			}
			consistent = consistent && c.B[i] == 0
		case 2: // duplicate row
			if m >= 2 {
				i := rapid.IntRange(1, m-1).Draw(t, "dr")
				for j := 0; j < n; j++ {
					c.A[i*n+j] = c.A[(i-1)*n+j]
				}
				if rapid.Bool().Draw(t, "drb") {
					c.B[i] = c.B[i-1]
				}
			}
		default: // duplicate column
			if n >= 2 {
				j := rapid.IntRange(1, n-1).Draw(t, "dc")
				for i := 0; i < m; i++ {
					c.A[i*n+j] = c.A[i*n+j-1]
				}
			}
		}
		if consistent {
			for i := 0; i < m; i++ {
				c.B[i] = 0
				for j := 0; j < n; j++ {
					c.B[i] += c.A[i*n+j] * xbar[j]
				}
			}
		}
	default:
		for i := range c.B {
			c.B[i] = rapid.IntRange(-2, 5).Draw(t, "b")
		}
	}
	if kind != 6 {
		// keep accidental zero rows and columns rare (they have their own class)
		for j := 0; j < n; j++ {
			z := true
			for i := 0; i < m; i++ {
				z = z && c.A[i*n+j] == 0
			}
			if z && rapid.IntRange(0, 9).Draw(t, "keepzc") != 0 {
				c.A[(j%m)*n+j] = 1
			}
		}
		for i := 0; i < m; i++ {
			z := true
			for j := 0; j < n; j++ {
				z = z && c.A[i*n+j] == 0
			}
			if z && rapid.IntRange(0, 9).Draw(t, "keepzr") != 0 {
				c.A[i*n+i%n] = 1
			}
		}
	}
	c.UseBasis = rapid.Bool().Draw(t, "usebasis")
	c.BasisPick = rapid.IntRange(0, 34).Draw(t, "basispick")
	return c
}

func TestLPSimplex(t *testing.T) {
	vk.Run(t, "lp-simplex", vk.Opts{Quick: 24000, Thorough: 600000}, drawLP, checkLP)
}

// ---- Convert ---------------------------------------------------------------------------------

type convCase struct {
	NVar, NIneq, NEq int
	C                []int
	G, H             []int // NIneq×NVar, NIneq
	A, B             []int // NEq×NVar, NEq
}

func checkConvert(c convCase) *vk.Failure {
	vk.Sample("lp-convert", c)
	nv, ni, ne := c.NVar, c.NIneq, c.NEq
	var g, a mat.Matrix
	var h, b []float64
	if ni > 0 {
		g = mat.NewDense(ni, nv, toF(c.G))
		h = toF(c.H)
	}
	if ne > 0 {
		a = mat.NewDense(ne, nv, toF(c.A))
		b = toF(c.B)
	}
	cF := toF(c.C)
	var cNew, bNew []float64
	var aNew *mat.Dense
	r := vk.Call(func() { cNew, aNew, bNew = lp.Convert(cF, g, h, a, b) })
	desc := fmt.Sprintf("c=%v G=%v h=%v A=%v b=%v", c.C, c.G, c.H, c.A, c.B)
	if r.Outcome != vk.Returned {
		return vk.Failf("convert-panics", "%s: %s", desc, r.Text)
	}
	// the documented standard form: [c; -c; 0], [G -G I; A -A 0], [h; b]
	m, n := ni+ne, 2*nv+ni
	wantA := make([]int, m*n)
	wantB := make([]int, m)
	wantC := make([]int, n)
	for j := 0; j < nv; j++ {
		wantC[j], wantC[nv+j] = c.C[j], -c.C[j]
	}
	for i := 0; i < ni; i++ {
		for j := 0; j < nv; j++ {
			wantA[i*n+j], wantA[i*n+nv+j] = c.G[i*nv+j], -c.G[i*nv+j]
		}
		wantA[i*n+2*nv+i] = 1
		wantB[i] = c.H[i]
	}
	for i := 0; i < ne; i++ {
		for j := 0; j < nv; j++ {
			wantA[(ni+i)*n+j], wantA[(ni+i)*n+nv+j] = c.A[i*nv+j], -c.A[i*nv+j]
		}
		wantB[ni+i] = c.B[i]
	}
	ar, ac := aNew.Dims()
	if ar != m || ac != n || len(cNew) != n || len(bNew) != m {
		return vk.Failf("convert-shape", "%s: aNew %dx%d, len(cNew)=%d, len(bNew)=%d; want %dx%d", desc, ar, ac, len(cNew), len(bNew), m, n)
	}
	for i := 0; i < m; i++ {
		for j := 0; j < n; j++ {
			if aNew.At(i, j) != float64(wantA[i*n+j]) {
				return vk.Failf("convert-anew", "%s: aNew[%d,%d]=%v want %d", desc, i, j, aNew.At(i, j), wantA[i*n+j])
			}
		}
		if bNew[i] != float64(wantB[i]) {
			return vk.Failf("convert-bnew", "%s: bNew=%v want %v", desc, bNew, wantB)
		}
	}
	for j := 0; j < n; j++ {
		if cNew[j] != float64(wantC[j]) {
			return vk.Failf("convert-cnew", "%s: cNew=%v want %v", desc, cNew, wantC)
		}
	}
	// exact optimum of the general form (through the textbook equivalence with
	// the standard form built above by the harness) against Simplex on Convert's output
	o := solveLPExact(m, n, wantA, wantB, wantC)
	vk.Class("convert/" + o.class.String())
	if o.nonTrivial {
		vk.NonTrivial("convert", c)
	}
	optF, optX, err, ptxt, returned := callSimplex(cNew, aNew, bNew, nil)
	if !returned {
		return vk.Failf("simplex-does-not-return", "Simplex(Convert(%s)): no answer after %v", desc, simplexDeadline)
	}
	if ptxt != "" {
		return vk.Failf("convert-simplex-panics", "%s: %s", desc, ptxt)
	}
	if f := judgeSimplex(o, m, n, wantA, wantB, wantC, optF, optX, err, "Simplex(Convert("+desc+"))"); f != nil {
		return f
	}
	if o.class == lpOptimal && err == nil {
		// map back: x = xp - xn is feasible for the general form with the same cost
		x := make([]float64, nv)
		cx := 0.0
		for j := range x {
			x[j] = optX[j] - optX[nv+j]
			cx += float64(c.C[j]) * x[j]
		}
		for i := 0; i < ni; i++ {
			s := 0.0
			for j := 0; j < nv; j++ {
				s += float64(c.G[i*nv+j]) * x[j]
			}
			if !(s <= float64(c.H[i])+1e-8) {
				return vk.Failf("convert-solution-violates-inequality", "%s: x=%v row %d: %v > %d", desc, x, i, s, c.H[i])
			}
		}
		for i := 0; i < ne; i++ {
			s := 0.0
			for j := 0; j < nv; j++ {
				s += float64(c.A[i*nv+j]) * x[j]
			}
			if !(math.Abs(s-float64(c.B[i])) <= 1e-8) {
				return vk.Failf("convert-solution-violates-equality", "%s: x=%v row %d: %v != %d", desc, x, i, s, c.B[i])
			}
		}
		opt, _ := o.opt.Float64()
		if !(math.Abs(cx-opt) <= 1e-8*math.Max(1, math.Abs(opt))) {
			return vk.Failf("convert-solution-cost", "%s: x=%v cost %v, optimum %v", desc, x, cx, opt)
		}
	}
	return nil
}

func drawConvert(t *rapid.T) convCase {
	nv := rapid.IntRange(1, 3).Draw(t, "nvar")
	ni := rapid.IntRange(0, 3).Draw(t, "nineq")
	ne := rapid.IntRange(0, 2).Draw(t, "neq")
	if ni+ne == 0 {
		ni = 1
	}
	// the standard form has 2*nvar+nineq columns and nineq+neq rows; keep the
	// enumeration small
	for ne > 0 && ne > nv {
		ne--
	}
	if ni+ne == 0 {
		ni = 1
	}
	ent := rapid.SampledFrom([]int{0, 0, 1, -1, 1, -1, 2, -2, 3, -3, 5, -5})
	c := convCase{NVar: nv, NIneq: ni, NEq: ne, C: make([]int, nv), G: make([]int, ni*nv), H: make([]int, ni), A: make([]int, ne*nv), B: make([]int, ne)}
	for i := range c.G {
		c.G[i] = ent.Draw(t, "g")
	}
	for i := range c.A {
		c.A[i] = ent.Draw(t, "a")
	}
	xbar := make([]int, nv)
	for j := range xbar {
		xbar[j] = rapid.IntRange(-2, 2).Draw(t, "xbar")
	}
	kind := rapid.IntRange(0, 5).Draw(t, "kind")
	for i := 0; i < ni; i++ {
		s := 0
		for j := 0; j < nv; j++ {
			s += c.G[i*nv+j] * xbar[j]
		}
		if kind <= 3 {
			c.H[i] = s + rapid.SampledFrom([]int{0, 0, 1, 3}).Draw(t, "slack")
		} else {
			c.H[i] = rapid.IntRange(-5, 5).Draw(t, "h")
		}
	}
	for i := 0; i < ne; i++ {
		s := 0
		for j := 0; j < nv; j++ {
			s += c.A[i*nv+j] * xbar[j]
		}
		if kind <= 4 {
			c.B[i] = s
		} else {
			c.B[i] = rapid.IntRange(-5, 5).Draw(t, "b")
		}
	}
	if kind <= 2 {
		// bounded by construction: c = -Gᵀλ - Aᵀμ with λ >= 0
		for i := 0; i < ni; i++ {
			l := rapid.IntRange(0, 2).Draw(t, "lambda")
			for j := 0; j < nv; j++ {
				c.C[j] -= l * c.G[i*nv+j]
			}
		}
		for i := 0; i < ne; i++ {
			mu := rapid.IntRange(-1, 1).Draw(t, "mu")
			for j := 0; j < nv; j++ {
				c.C[j] -= mu * c.A[i*nv+j]
			}
		}
	} else {
		for j := range c.C {
			c.C[j] = rapid.IntRange(-3, 3).Draw(t, "c")
		}
	}
	return c
}

func TestLPConvert(t *testing.T) {
	vk.Run(t, "lp-convert", vk.Opts{Quick: 6000, Thorough: 100000}, drawConvert, checkConvert)
}
