// Package c19 checks property C19: Minimize always terminates with a coherent
// result; LP answers are truly optimal.
package c19

import (
	"testing"

	"verifharness/vk"
)

func TestMain(m *testing.M) { vk.Main(m, "C19") }
