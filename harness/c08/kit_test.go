package c08

// Shared machinery of the C08 checks for the public packages: the case
// description, operand placement (64-byte aligned heap buffers with sentinel
// padding, or memory ending/starting at an inaccessible guard page), data
// classes and numeric helpers.

import (
	"fmt"
	"math"
	"math/big"
	"sync"
	"unsafe"

	"pgregory.net/rapid"
	"verifharness/vk"
)

// Data classes.
const (
	clsFinite  = 0 // moderate values, many small integers and dyadic fractions (ties, exact cancellation)
	clsExtreme = 1 // ±0, subnormals, 1e±150, 1e±300, MaxFloat64 mixed with finite values
	clsSpecial = 2 // NaN, ±Inf mixed with finite and extreme values
)

var clsName = [...]string{"finite", "extreme", "special"}

// Alias patterns.
const (
	aliasNone = 0
	aliasDst1 = 1 // dst is the first input slice
	aliasDst2 = 2 // dst is the second input slice
)

// Operand placements.
const (
	placeHeap     = 0 // 64-byte aligned heap array, operand at element offset Off, sentinels around
	placeGuardEnd = 1 // operand ends exactly at an inaccessible page
	placeGuardBeg = 2 // operand starts exactly at an inaccessible page boundary
)

// vcase describes one call of a slice function.
type vcase struct {
	Fn    string
	N     int
	Off   int // start offset 0..7 (elements) into the aligned array
	Place int
	Trim  bool // cap(operand) == len(operand)
	Cls   int
	Alias int
	Bad   int    // 0: valid call; >0: which documented length mismatch to provoke
	A, B  vk.F   // scalars (alpha, c, L, v, tol, real/imag parts ...)
	V, W  vk.F   // further scalars (query value, second complex bound)
	K     int    // small integer parameter (k of Find, prec ...)
	Seed  uint64 // bulk data is expanded from Seed when X/Y are absent
	X, Y  []vk.F // explicit data (small n, drawn by rapid so that it shrinks)
}

func (c vcase) String() string {
	return fmt.Sprintf("%s n=%d off=%d place=%d trim=%v cls=%s alias=%d bad=%d A=%v B=%v V=%v W=%v K=%d seed=%d X=%v Y=%v",
		c.Fn, c.N, c.Off, c.Place, c.Trim, clsName[c.Cls], c.Alias, c.Bad, float64(c.A), float64(c.B), float64(c.V), float64(c.W), c.K, c.Seed, c.X, c.Y)
}

func nClass(n int) string {
	switch {
	case n <= 8:
		return "n<=8"
	case n <= 70:
		return "n<=70"
	case n <= 1000:
		return "n<=1000"
	}
	return "n>1000"
}

// record writes the evidence for a case.
func record(sub string, c vcase, hasOdd bool) {
	vk.Class(c.Fn + "/" + clsName[c.Cls])
	if c.Alias != 0 {
		vk.Class(c.Fn + "/alias")
	}
	if c.Bad != 0 {
		vk.Class(c.Fn + "/bad-args")
	}
	if c.N >= 2 && (c.N%8 != 0 || c.Off != 0 || c.Cls != clsFinite || hasOdd || c.Alias != 0) {
		vk.NonTrivial(c.Fn, c.N%16, nClass(c.N), c.Off, c.Cls, c.Alias, c.Place)
	}
	vk.Sample(sub+":"+c.Fn, c)
}

// ---- data ------------------------------------------------------------------

var extremes = vk.Extremes
var specials = vk.Specials

// elem returns one value of the class.
func elem(r *vk.SplitMix, cls int) float64 {
	switch cls {
	case clsExtreme:
		if r.Intn(2) == 0 {
			return extremes[r.Intn(len(extremes))]
		}
	case clsSpecial:
		switch k := r.Intn(10); {
		case k < 3:
			return specials[r.Intn(len(specials))]
		case k < 4:
			return extremes[r.Intn(len(extremes))]
		}
	}
	return r.Finite()
}

// expand returns n values of the class; for n >= 1 and a non-finite class at
// least one element is an extreme/special value.
func expand(r *vk.SplitMix, cls, n int) []float64 {
	x := make([]float64, n)
	for i := range x {
		x[i] = elem(r, cls)
	}
	if n > 0 {
		switch cls {
		case clsExtreme:
			x[r.Intn(n)] = extremes[r.Intn(len(extremes))]
		case clsSpecial:
			x[r.Intn(n)] = specials[r.Intn(len(specials))]
		}
	}
	return x
}

// operand returns the data of operand slot (0 = X, 1 = Y, 2.. = derived from
// the seed only): the explicit values when present, otherwise the expansion of
// the seed.
func (c vcase) operand(slot int) []float64 {
	switch {
	case slot == 0 && len(c.X) == c.N && c.N > 0:
		return vk.Fs(c.X)
	case slot == 1 && len(c.Y) == c.N && c.N > 0:
		return vk.Fs(c.Y)
	}
	return expand(vk.NewSplitMix(c.Seed+uint64(slot)*0x9e3779b97f4a7c15+1), c.Cls, c.N)
}

func elemGen(cls int) *rapid.Generator[float64] {
	switch cls {
	case clsExtreme:
		return rapid.OneOf(vk.FiniteGen(), rapid.SampledFrom(extremes))
	case clsSpecial:
		return rapid.OneOf(vk.FiniteGen(), vk.FiniteGen(), rapid.SampledFrom(specials), rapid.SampledFrom(specials), rapid.SampledFrom(extremes))
	}
	return vk.FiniteGen()
}

// drawScalar draws a scalar of the class.
func drawScalar(t *rapid.T, label string, cls int) float64 {
	if cls != clsFinite && rapid.IntRange(0, 2).Draw(t, label+"_x") == 0 {
		if cls == clsSpecial && rapid.Bool().Draw(t, label+"_sp") {
			return rapid.SampledFrom(specials).Draw(t, label+"_spv")
		}
		return rapid.SampledFrom(extremes).Draw(t, label+"_exv")
	}
	if rapid.Bool().Draw(t, label+"_simple") {
		return vk.Scalar(t, label)
	}
	return vk.FiniteGen().Draw(t, label+"_f")
}

// drawShape fills the shape fields common to all slice cases.
func drawShape(t *rapid.T, c *vcase, classes, aliases []int, maxN int) {
	c.N = vk.Dim(t, "n", 0, maxN, 2, 4, 8, 16, 32, 64)
	c.Off = rapid.IntRange(0, 7).Draw(t, "off")
	c.Place = rapid.SampledFrom([]int{placeHeap, placeHeap, placeGuardEnd, placeGuardBeg}).Draw(t, "place")
	c.Trim = rapid.Bool().Draw(t, "trim")
	c.Cls = rapid.SampledFrom(classes).Draw(t, "cls")
	c.Alias = rapid.SampledFrom(aliases).Draw(t, "alias")
	c.Seed = vk.SeedGen(t, "seed")
	if c.N > 0 && c.N <= 6 {
		c.X = vk.ToF(rapid.SliceOfN(elemGen(c.Cls), c.N, c.N).Draw(t, "x"))
		c.Y = vk.ToF(rapid.SliceOfN(elemGen(c.Cls), c.N, c.N).Draw(t, "y"))
	}
}

// mixHash derives per-case pseudo-random fields of enumerated cases.
func mixHash(parts ...int) uint64 {
	h := uint64(0x9e3779b97f4a7c15)
	for _, p := range parts {
		h ^= uint64(int64(p)) + 0x9e3779b97f4a7c15 + (h << 6) + (h >> 2)
		h *= 0xbf58476d1ce4e5b9
		h ^= h >> 29
	}
	return h
}

// gridLens is the exhaustive length range of the tier.
func gridLens() int { return vk.Pick(34, 71) }

// ---- operand placement -----------------------------------------------------

const (
	padElems  = 8       // sentinel elements on each side of a heap operand
	maxBytes  = 1 << 18 // size of a pooled guarded region (16 Ki complex128)
	poolSlots = 4
)

var (
	poolMu sync.Mutex
	pool   [poolSlots][2][]byte
)

// guarded returns nbytes of pooled memory that ends (atEnd) or starts at a
// guard page. The regions are allocated once per process and reused.
func guardedRegion(slot int, atEnd bool) []byte {
	poolMu.Lock()
	defer poolMu.Unlock()
	k := 0
	if atEnd {
		k = 1
	}
	if pool[slot][k] == nil {
		b, _ := vk.GuardedBytes(maxBytes, atEnd)
		pool[slot][k] = b
	}
	return pool[slot][k]
}

// buf is an operand of element type T together with its surroundings.
type buf[T any] struct {
	s      []T    // the operand handed to the code under test
	around []T    // sentinel elements before and after the operand (copies of the slices below)
	pre    []T    // live view of the sentinels before the operand
	post   []T    // live view of the sentinels after the operand
	orig   []byte // bytes of the operand at placement time
}

func bytesOf[T any](s []T) []byte {
	if len(s) == 0 {
		return nil
	}
	var z T
	return unsafe.Slice((*byte)(unsafe.Pointer(&s[0])), len(s)*int(unsafe.Sizeof(z)))
}

func sameBytes(a, b []byte) bool { return string(a) == string(b) }

// sentinelBits is the NaN payload pattern used for padding.
func sentinel(i int) float64 {
	return math.Float64frombits(0x7ff8dead00000000 | uint64(i&0xffff))
}

func fillSentinel[T any](s []T) {
	if len(s) == 0 {
		return
	}
	var z T
	w := int(unsafe.Sizeof(z)) / 8
	f := unsafe.Slice((*float64)(unsafe.Pointer(&s[0])), len(s)*w)
	for i := range f {
		f[i] = sentinel(i)
	}
}

// place puts data into a fresh operand according to the case's placement.
// slot distinguishes the operands of one call (they use different pooled
// regions).
func place[T any](c vcase, slot int, data []T) *buf[T] {
	var z T
	size := int(unsafe.Sizeof(z))
	n := len(data)
	b := &buf[T]{}
	pl := c.Place
	if (n+padElems)*size > maxBytes || slot >= poolSlots {
		pl = placeHeap
	}
	switch pl {
	case placeHeap:
		total := padElems + c.Off + n + padElems
		raw := make([]T, total+64/size)
		shift := 0
		if a := uintptr(unsafe.Pointer(&raw[0])) % 64; a != 0 {
			shift = int(64-a) / size
		}
		all := raw[shift : shift+total]
		fillSentinel(all)
		lo := padElems + c.Off
		b.pre, b.post = all[:lo], all[lo+n:]
		if c.Trim {
			b.s = all[lo : lo+n : lo+n]
		} else {
			b.s = all[lo : lo+n]
		}
	case placeGuardEnd:
		reg := guardedRegion(slot, true)
		all := unsafe.Slice((*T)(unsafe.Pointer(&reg[len(reg)-(n+padElems)*size])), n+padElems)
		fillSentinel(all[:padElems])
		b.pre = all[:padElems]
		b.s = all[padElems : padElems+n : padElems+n]
	default:
		reg := guardedRegion(slot, false)
		all := unsafe.Slice((*T)(unsafe.Pointer(&reg[0])), n+padElems)
		fillSentinel(all[n:])
		b.post = all[n:]
		if c.Trim {
			b.s = all[:n:n]
		} else {
			b.s = all[:n]
		}
	}
	copy(b.s, data)
	b.around = append(append([]T(nil), b.pre...), b.post...)
	b.orig = append([]byte(nil), bytesOf(b.s)...)
	return b
}

// intact reports whether the padding around the operand is unchanged.
func (b *buf[T]) intact() bool {
	now := append(append([]T(nil), b.pre...), b.post...)
	return sameBytes(bytesOf(now), bytesOf(b.around))
}

// unchanged reports whether the operand itself is bit-identical to its
// contents at placement time.
func (b *buf[T]) unchanged() bool { return sameBytes(bytesOf(b.s), b.orig) }

// checkBufs verifies the padding of all operands and the read-only operands.
func checkBufs[T any](what string, all []*buf[T], readOnly []*buf[T]) *vk.Failure {
	for i, b := range all {
		if b != nil && !b.intact() {
			return vk.Failf("padding-modified", "%s: padding around operand %d was modified", what, i)
		}
	}
	for i, b := range readOnly {
		if b != nil && !b.unchanged() {
			return vk.Failf("input-modified", "%s: read-only operand %d was modified", what, i)
		}
	}
	return nil
}

// ---- numeric helpers ---------------------------------------------------------

func isFinite(x float64) bool { return !math.IsNaN(x) && !math.IsInf(x, 0) }

func allFinite(x []float64) bool {
	for _, v := range x {
		if !isFinite(v) {
			return false
		}
	}
	return true
}

func hasNaN(x []float64) bool {
	for _, v := range x {
		if math.IsNaN(v) {
			return true
		}
	}
	return false
}

func hasInf(x []float64) bool {
	for _, v := range x {
		if math.IsInf(v, 0) {
			return true
		}
	}
	return false
}

// hasOdd reports whether x holds a zero, subnormal, huge, tiny or non-finite
// value (part of the non-triviality rule).
func hasOdd(xs ...[]float64) bool {
	for _, x := range xs {
		for _, v := range x {
			a := math.Abs(v)
			if !(a >= 1e-100 && a <= 1e100) && v != 0 || (v == 0 && math.Signbit(v)) {
				return true
			}
		}
	}
	return false
}

func sameSlice(a, b []float64) (int, bool) {
	if len(a) != len(b) {
		return -1, false
	}
	for i := range a {
		if !vk.SameBits(a[i], b[i]) {
			return i, false
		}
	}
	return 0, true
}

func sameC(a, b complex128) bool {
	return vk.SameBits(real(a), real(b)) && vk.SameBits(imag(a), imag(b))
}

// numEqC is numeric equality per component with NaN equal to NaN (+0 == -0).
func numEqC(a, b complex128) bool {
	eq := func(x, y float64) bool { return x == y || (math.IsNaN(x) && math.IsNaN(y)) }
	return eq(real(a), real(b)) && eq(imag(a), imag(b))
}

// sumRef returns the double-double sum of the terms and the sum of their
// absolute values.
func sumRef(terms []float64) (sum, abs float64) {
	var d, a vk.DD
	for _, t := range terms {
		d.Add(t)
		a.Add(math.Abs(t))
	}
	return d.Float(), a.Float()
}

// scaledNorm returns the Euclidean norm of x as mant*2^exp with mant in
// [0.5, sqrt(n)] computed by exponent-scaled double-double accumulation, so
// that neither overflow nor underflow occurs. x must be finite. For the zero
// vector mant == 0.
func scaledNorm(x []float64) (mant float64, exp int) {
	m := 0.0
	for _, v := range x {
		if a := math.Abs(v); a > m {
			m = a
		}
	}
	if m == 0 {
		return 0, 0
	}
	_, e := math.Frexp(m)
	var d vk.DD
	for _, v := range x {
		s := math.Ldexp(v, -e) // exact unless the result is below 2^-1022, where it is negligible
		d.AddProd(s, s)
	}
	return math.Sqrt(d.Hi) * (1 + d.Lo/(2*d.Hi)), e
}

// checkL2 compares got with the Euclidean norm of x (finite data) by the rules
// of the property: relative error at most 2(n+6)u (plus one subnormal ulp),
// finite when the exact norm is representable, non-zero when it is at least
// the smallest normal.
func checkL2(key string, got float64, x []float64) *vk.Failure {
	n := len(x)
	mant, e := scaledNorm(x)
	if mant == 0 {
		if got != 0 || math.Signbit(got) {
			return vk.Failf(key, "norm of a zero vector is %v", got)
		}
		return nil
	}
	rel := 2 * float64(n+6) * vk.Eps
	// exact norm r = mant*2^e (reference error ~2u).
	over := e > 1024 || (e == 1024 && mant*(1-rel) >= 1) // r > MaxFloat64 for certain
	mayOver := e > 1024 || (e == 1024 && mant*(1+2*rel) >= 1-vk.Eps)
	if over {
		if !math.IsInf(got, 1) {
			return vk.Failf(key, "exact norm exceeds MaxFloat64 but got %v", got)
		}
		return nil
	}
	if mayOver {
		if math.IsNaN(got) || got < 0 {
			return vk.Failf(key, "got %v near the overflow threshold", got)
		}
		vk.Class("l2:near-overflow-threshold")
		return nil
	}
	if !isFinite(got) {
		return vk.Failf(key+"-overflow", "exact norm %v*2^%d is representable but got %v", mant, e, got)
	}
	r := math.Ldexp(mant, e)
	if r >= 0x1p-1022 && got == 0 {
		return vk.Failf(key+"-underflow", "exact norm %v is normal but got 0", r)
	}
	tol := rel*r + 5e-324
	if math.Abs(got-r) > tol {
		return vk.Failf(key, "n=%d got %v want %v (diff %g tol %g)", n, got, r, math.Abs(got-r), tol)
	}
	return nil
}

// bigOf converts to a big.Float with enough precision for exact small
// computations.
func bigOf(x float64) *big.Float { return new(big.Float).SetPrec(400).SetFloat64(x) }

func bigF64(x *big.Float) float64 { f, _ := x.Float64(); return f }
