package c08

// Fixed-size helpers of spatial/r2 and spatial/r3: vector operations against
// their component formulas, r3.Mat (twin implementations selected by the safe
// build tag) against a 3×3 reference, rotations.

import (
	"math"
	"testing"

	"gonum.org/v1/gonum/mat"
	"gonum.org/v1/gonum/spatial/r2"
	"gonum.org/v1/gonum/spatial/r3"
	"pgregory.net/rapid"
	"verifharness/vk"
)

type rcase struct {
	Fn      string
	Cls     int
	P, Q, R [3]vk.F
	A, B    [9]vk.F
	Alpha   vk.F
	I, J, K int
	KindA   int // representation of operand a: 0 *r3.Mat, 1 *mat.Dense, 2 transposed *r3.Mat, 3 transposed *mat.Dense
	KindB   int
	Recv    int // receiver: 0 NewMat(nil), 1 zero value (nil data), 2 NewMat(garbage), 3 the operand a itself, 4 the operand b itself, 5/6 operand a/b is the transposed view m.T() of the receiver
}

var r3Fns = []string{
	"r2.Add", "r2.Sub", "r2.Scale", "r2.Dot", "r2.Cross", "r2.Norm", "r2.Norm2", "r2.Unit", "r2.Cos", "r2.Rotate",
	"r3.Add", "r3.Sub", "r3.Scale", "r3.Dot", "r3.Cross", "r3.Norm", "r3.Norm2", "r3.Unit", "r3.Cos", "r3.Rotate",
	"r3.Divergence", "r3.Gradient",
	"r3.NewMat", "r3.Mat.AtSet", "r3.Mat.T", "r3.Mat.Scale", "r3.Mat.Mul", "r3.Mat.MulGeneral", "r3.Mat.Add", "r3.Mat.Sub",
	"r3.Mat.MulVec", "r3.Mat.MulVecTrans", "r3.Mat.CloneFrom", "r3.Mat.VecRowCol", "r3.Mat.Outer", "r3.Mat.Det",
	"r3.Mat.Skew", "r3.Eye", "r3.Mat.Hessian", "r3.Mat.Jacobian", "r3.Mat.ShapePanics",
}

func v3(a [3]vk.F) r3.Vec { return r3.Vec{X: float64(a[0]), Y: float64(a[1]), Z: float64(a[2])} }
func v2(a [3]vk.F) r2.Vec { return r2.Vec{X: float64(a[0]), Y: float64(a[1])} }
func f3(v r3.Vec) []float64 { return []float64{v.X, v.Y, v.Z} }
func f2(v r2.Vec) []float64 { return []float64{v.X, v.Y} }
func m9(a [9]vk.F) [9]float64 {
	var o [9]float64
	for i, v := range a {
		o[i] = float64(v)
	}
	return o
}

// sumProd checks got against the double-double value of sum x[i]*y[i] within
// 2(k+4)u*sum|x[i]y[i]|; it reports false when a product leaves the range.
func sumProdOK(got float64, x, y []float64) (float64, float64, bool) {
	terms, ok := dotTerms(x, y)
	if !ok {
		return 0, 0, true
	}
	want, S := sumRef(terms)
	if !(S < math.MaxFloat64/4) {
		return 0, 0, true
	}
	tol := vk.SumBound(len(x), vk.Eps, S) + float64(len(x)+1)*5e-324
	return want, tol, math.Abs(got-want) <= tol
}

func vecSame(key string, got, want []float64) *vk.Failure {
	for i := range want {
		if !vk.SameBits(got[i], want[i]) {
			return vk.Failf(key, "component %d: got %v want %v (got %v want %v)", i, got[i], want[i], got, want)
		}
	}
	return nil
}

func vecClose(key string, got, want []float64, tol float64) *vk.Failure {
	for i := range want {
		if !(math.Abs(got[i]-want[i]) <= tol) {
			return vk.Failf(key, "component %d: got %v want %v tol %g (got %v want %v)", i, got[i], want[i], tol, got, want)
		}
	}
	return nil
}

func norm(x []float64) float64 {
	m, e := scaledNorm(x)
	return math.Ldexp(m, e)
}

func moderate(xs ...[]float64) bool {
	for _, x := range xs {
		for _, v := range x {
			if !isFinite(v) || (v != 0 && (math.Abs(v) < 1e-100 || math.Abs(v) > 1e100)) {
				return false
			}
		}
	}
	return true
}

// matOperand builds a mat.Matrix holding the row-major values v in the given
// representation.
func matOperand(v [9]float64, kind int) mat.Matrix {
	tr := [9]float64{v[0], v[3], v[6], v[1], v[4], v[7], v[2], v[5], v[8]}
	switch kind % 4 {
	case 0:
		return r3.NewMat(append([]float64(nil), v[:]...))
	case 1:
		return mat.NewDense(3, 3, append([]float64(nil), v[:]...))
	case 2:
		return r3.NewMat(append([]float64(nil), tr[:]...)).T()
	default:
		return mat.NewDense(3, 3, append([]float64(nil), tr[:]...)).T()
	}
}

func readMat(m *r3.Mat) [9]float64 {
	var o [9]float64
	for i := 0; i < 3; i++ {
		for j := 0; j < 3; j++ {
			o[3*i+j] = m.At(i, j)
		}
	}
	return o
}

// consistent checks that At, RawMatrix, T, VecRow and VecCol show the same
// nine values.
func consistent(key string, m *r3.Mat) *vk.Failure {
	v := readMat(m)
	raw := m.RawMatrix()
	if raw.Rows != 3 || raw.Cols != 3 || raw.Stride != 3 || len(raw.Data) != 9 {
		return vk.Failf(key+"/rawmatrix-shape", "RawMatrix: %d×%d stride %d len %d", raw.Rows, raw.Cols, raw.Stride, len(raw.Data))
	}
	t := m.T()
	for i := 0; i < 3; i++ {
		row, col := f3(m.VecRow(i)), f3(m.VecCol(i))
		for j := 0; j < 3; j++ {
			if !vk.SameBits(raw.Data[3*i+j], v[3*i+j]) {
				return vk.Failf(key+"/rawmatrix", "RawMatrix.Data[%d] = %v but At(%d,%d) = %v", 3*i+j, raw.Data[3*i+j], i, j, v[3*i+j])
			}
			if !vk.SameBits(t.At(j, i), v[3*i+j]) {
				return vk.Failf(key+"/transpose", "T().At(%d,%d) = %v but At(%d,%d) = %v", j, i, t.At(j, i), i, j, v[3*i+j])
			}
			if !vk.SameBits(row[j], v[3*i+j]) {
				return vk.Failf(key+"/vecrow", "VecRow(%d)[%d] = %v but At = %v", i, j, row[j], v[3*i+j])
			}
			if !vk.SameBits(col[j], v[3*j+i]) {
				return vk.Failf(key+"/veccol", "VecCol(%d)[%d] = %v but At = %v", i, j, col[j], v[3*j+i])
			}
		}
	}
	if r, c := m.Dims(); r != 3 || c != 3 {
		return vk.Failf(key+"/dims", "Dims = %d,%d", r, c)
	}
	return nil
}

func matSame(key string, m *r3.Mat, want [9]float64) *vk.Failure {
	if f := consistent(key, m); f != nil {
		return f
	}
	got := readMat(m)
	return vecSame(key+"/value", got[:], want[:])
}

// quad is the scalar field sum a_ij v_i v_j + b.v + c with the coefficients
// taken from A (a), P (b) and Alpha (c).
func quad(a [9]float64, b r3.Vec, c float64) func(r3.Vec) float64 {
	return func(v r3.Vec) float64 {
		x := [3]float64{v.X, v.Y, v.Z}
		s := c + b.X*v.X + b.Y*v.Y + b.Z*v.Z
		for i := 0; i < 3; i++ {
			for j := 0; j < 3; j++ {
				s += a[3*i+j] * x[i] * x[j]
			}
		}
		return s
	}
}

func linear(a [9]float64, b r3.Vec) func(r3.Vec) r3.Vec {
	return func(v r3.Vec) r3.Vec {
		return r3.Vec{
			X: a[0]*v.X + a[1]*v.Y + a[2]*v.Z + b.X,
			Y: a[3]*v.X + a[4]*v.Y + a[5]*v.Z + b.Y,
			Z: a[6]*v.X + a[7]*v.Y + a[8]*v.Z + b.Z,
		}
	}
}

func ints(a [9]vk.F) [9]float64 {
	var o [9]float64
	for i, v := range a {
		o[i] = math.Round(math.Max(-8, math.Min(8, float64(v)))) + 0 // +0 normalises -0
		if math.IsNaN(o[i]) {
			o[i] = 1
		}
	}
	return o
}

func intVec(a [3]vk.F) r3.Vec {
	f := func(v vk.F) float64 {
		x := math.Round(math.Max(-8, math.Min(8, float64(v)))) + 0
		if math.IsNaN(x) {
			return 1
		}
		return x
	}
	return r3.Vec{X: f(a[0]), Y: f(a[1]), Z: f(a[2])}
}

func receiver(c rcase, a, b mat.Matrix) *r3.Mat {
	switch c.Recv {
	case 1:
		return &r3.Mat{}
	case 2:
		return r3.NewMat([]float64{9, 8, 7, 6, 5, 4, 3, 2, 1})
	case 3:
		if m, ok := a.(*r3.Mat); ok {
			return m
		}
	case 4:
		if m, ok := b.(*r3.Mat); ok {
			return m
		}
	}
	return r3.NewMat(nil)
}

func checkR3(c rcase) *vk.Failure {
	vk.Class(c.Fn + "/" + clsName[c.Cls])
	vk.NonTrivial(c.Fn, c.Cls, c.KindA, c.KindB, c.Recv, c.I, c.J, c.K)
	vk.Sample("spatial:"+c.Fn, c)
	key := c.Fn
	p3, q3 := v3(c.P), v3(c.Q)
	p2, q2 := v2(c.P), v2(c.Q)
	alpha := float64(c.Alpha)
	A, B := m9(c.A), m9(c.B)
	three := c.Fn[:3] == "r3."
	pv, qv := f2(p2), f2(q2)
	if three {
		pv, qv = f3(p3), f3(q3)
	}
	d := len(pv)
	switch c.Fn {
	case "r2.Add", "r3.Add", "r2.Sub", "r3.Sub", "r2.Scale", "r3.Scale":
		var got []float64
		want := make([]float64, d)
		for i := range want {
			switch c.Fn[3:] {
			case "Add":
				want[i] = pv[i] + qv[i]
			case "Sub":
				want[i] = pv[i] - qv[i]
			default:
				want[i] = alpha * pv[i]
			}
		}
		switch c.Fn {
		case "r2.Add":
			got = f2(r2.Add(p2, q2))
		case "r3.Add":
			got = f3(r3.Add(p3, q3))
		case "r2.Sub":
			got = f2(r2.Sub(p2, q2))
		case "r3.Sub":
			got = f3(r3.Sub(p3, q3))
		case "r2.Scale":
			got = f2(r2.Scale(alpha, p2))
		default:
			got = f3(r3.Scale(alpha, p3))
		}
		return vecSame(key+"/value", got, want)

	case "r2.Dot", "r3.Dot", "r2.Norm2", "r3.Norm2":
		var got float64
		x, y := pv, qv
		switch c.Fn {
		case "r2.Dot":
			got = r2.Dot(p2, q2)
		case "r3.Dot":
			got = r3.Dot(p3, q3)
		case "r2.Norm2":
			got, y = r2.Norm2(p2), pv
		default:
			got, y = r3.Norm2(p3), pv
		}
		if want, tol, ok := sumProdOK(got, x, y); !ok {
			return vk.Failf(key+"/value", "p=%v q=%v got %v want %v tol %g", pv, qv, got, want, tol)
		}
		return nil

	case "r2.Cross":
		got := r2.Cross(p2, q2)
		if want, tol, ok := sumProdOK(got, []float64{p2.X, -p2.Y}, []float64{q2.Y, q2.X}); !ok {
			return vk.Failf(key+"/value", "p=%v q=%v got %v want %v tol %g", pv, qv, got, want, tol)
		}
		return nil

	case "r3.Cross":
		got := f3(r3.Cross(p3, q3))
		xs := [][2][]float64{
			{{p3.Y, -p3.Z}, {q3.Z, q3.Y}},
			{{p3.Z, -p3.X}, {q3.X, q3.Z}},
			{{p3.X, -p3.Y}, {q3.Y, q3.X}},
		}
		for i, t := range xs {
			if want, tol, ok := sumProdOK(got[i], t[0], t[1]); !ok {
				return vk.Failf(key+"/value", "p=%v q=%v component %d got %v want %v tol %g", pv, qv, i, got[i], want, tol)
			}
		}
		return nil

	case "r2.Norm", "r3.Norm":
		if !allFinite(pv) {
			return nil
		}
		got := r2.Norm(p2)
		if three {
			got = r3.Norm(p3)
		}
		return checkL2(key, got, pv)

	case "r2.Unit", "r3.Unit":
		var got []float64
		if three {
			got = f3(r3.Unit(p3))
		} else {
			got = f2(r2.Unit(p2))
		}
		zero := true
		for _, v := range pv {
			zero = zero && v == 0
		}
		if zero {
			for _, g := range got {
				if !math.IsNaN(g) {
					return vk.Failf(key+"/zero", "Unit(0) = %v, documented NaN", got)
				}
			}
			return nil
		}
		if !moderate(pv) {
			return nil
		}
		r := norm(pv)
		want := mapF(d, func(i int) float64 { return pv[i] / r })
		if f := vecClose(key+"/value", got, want, 12*vk.Eps); f != nil {
			return f
		}
		if n := norm(got); math.Abs(n-1) > 12*vk.Eps {
			return vk.Failf(key+"/unit-norm", "|Unit(%v)| = %v", pv, n)
		}
		return nil

	case "r2.Cos", "r3.Cos":
		if !moderate(pv, qv) {
			return nil
		}
		rp, rq := norm(pv), norm(qv)
		if rp == 0 || rq == 0 {
			return nil
		}
		got := r2.Cos(p2, q2)
		if three {
			got = r3.Cos(p3, q3)
		}
		terms, _ := dotTerms(pv, qv)
		dd, S := sumRef(terms)
		want := dd / (rp * rq)
		tol := vk.SumBound(d, vk.Eps, S)/(rp*rq) + 16*vk.Eps*math.Abs(want) + 16*vk.Eps
		if !(math.Abs(got-want) <= tol) {
			return vk.Failf(key+"/value", "Cos(%v, %v) = %v want %v tol %g", pv, qv, got, want, tol)
		}
		return nil

	case "r2.Rotate":
		if !moderate(pv, qv) || !isFinite(alpha) || math.Abs(alpha) > 1e6 {
			return nil
		}
		got := f2(r2.Rotate(p2, alpha, q2))
		got2 := f2(r2.NewRotation(alpha, q2).Rotate(p2))
		if f := vecSame(key+"/newrotation", got2, got); f != nil {
			return f
		}
		if alpha == 0 {
			return vecSame(key+"/identity", got, pv)
		}
		sin, cos := math.Sincos(alpha)
		ox, oy := p2.X-q2.X, p2.Y-q2.Y
		want := []float64{ox*cos - oy*sin + q2.X, ox*sin + oy*cos + q2.Y}
		tol := 8 * vk.Eps * (math.Abs(ox) + math.Abs(oy) + math.Abs(q2.X) + math.Abs(q2.Y) + 1e-300)
		return vecClose(key+"/value", got, want, tol)

	case "r3.Rotate":
		axis := v3(c.R)
		av := f3(axis)
		if !moderate(pv, av) || !isFinite(alpha) || math.Abs(alpha) > 1e6 || norm(av) < 1e-3 {
			return nil
		}
		rot := r3.NewRotation(alpha, axis)
		got := f3(r3.Rotate(p3, alpha, axis))
		if f := vecSame(key+"/newrotation", f3(rot.Rotate(p3)), got); f != nil {
			return f
		}
		if alpha == 0 {
			return vecSame(key+"/identity", got, pv)
		}
		na := norm(av)
		k := r3.Vec{X: axis.X / na, Y: axis.Y / na, Z: axis.Z / na}
		sin, cos := math.Sincos(alpha)
		kxp := r3.Vec{X: k.Y*p3.Z - k.Z*p3.Y, Y: k.Z*p3.X - k.X*p3.Z, Z: k.X*p3.Y - k.Y*p3.X}
		kp := k.X*p3.X + k.Y*p3.Y + k.Z*p3.Z
		want := []float64{
			p3.X*cos + kxp.X*sin + k.X*kp*(1-cos),
			p3.Y*cos + kxp.Y*sin + k.Y*kp*(1-cos),
			p3.Z*cos + kxp.Z*sin + k.Z*kp*(1-cos),
		}
		np := norm(pv)
		tol := 64*vk.Eps*np + 1e-300
		if f := vecClose(key+"/value", got, want, tol); f != nil {
			return f
		}
		if math.Abs(norm(got)-np) > tol {
			return vk.Failf(key+"/norm-preserved", "|Rotate(p)| = %v, |p| = %v", norm(got), np)
		}
		// composition with Rotation.Mat
		m := rot.Mat()
		if f := consistent(key+"/mat", m); f != nil {
			return f
		}
		if f := vecClose(key+"/mat-mulvec", f3(m.MulVec(p3)), got, tol); f != nil {
			return f
		}
		mv := readMat(m)
		for i := 0; i < 3; i++ {
			for j := 0; j < 3; j++ {
				s := 0.0
				for l := 0; l < 3; l++ {
					s += mv[3*l+i] * mv[3*l+j]
				}
				w := 0.0
				if i == j {
					w = 1
				}
				if math.Abs(s-w) > 32*vk.Eps {
					return vk.Failf(key+"/mat-orthogonal", "(MᵀM)[%d][%d] = %v", i, j, s)
				}
			}
		}
		return nil

	case "r3.Divergence", "r3.Gradient", "r3.Mat.Hessian", "r3.Mat.Jacobian":
		// Integer coefficients, integer point, power-of-two steps: every
		// intermediate value is an exactly representable dyadic number and finite
		// differences of linear/quadratic fields are exact.
		a := ints(c.A)
		b := intVec(c.Q)
		p := intVec(c.P)
		step := r3.Vec{X: math.Ldexp(1, -(abs(c.I) % 7)), Y: math.Ldexp(1, -(abs(c.J) % 7)), Z: math.Ldexp(1, -(abs(c.K) % 7))}
		cst := math.Round(math.Max(-8, math.Min(8, alpha))) + 0
		if math.IsNaN(cst) {
			cst = 0
		}
		switch c.Fn {
		case "r3.Divergence":
			got := r3.Divergence(p, step, linear(a, b))
			if want := a[0] + a[4] + a[8]; got != want {
				return vk.Failf(key+"/value", "divergence of a linear field: got %v want trace %v", got, want)
			}
		case "r3.Gradient":
			got := f3(r3.Gradient(p, step, quad(a, b, cst)))
			x := f3(p)
			want := make([]float64, 3)
			for i := 0; i < 3; i++ {
				want[i] = f3(b)[i]
				for j := 0; j < 3; j++ {
					want[i] += (a[3*i+j] + a[3*j+i]) * x[j]
				}
			}
			return vecSame(key+"/value", got, want)
		case "r3.Mat.Hessian":
			m := receiver(c, nil, nil)
			m.Hessian(p, step, quad(a, b, cst))
			var want [9]float64
			for i := 0; i < 3; i++ {
				for j := 0; j < 3; j++ {
					want[3*i+j] = a[3*i+j] + a[3*j+i]
				}
			}
			return matSame(key, m, want)
		default:
			m := receiver(c, nil, nil)
			m.Jacobian(p, step, linear(a, b))
			return matSame(key, m, a)
		}
		return nil

	case "r3.NewMat":
		if f := matSame(key+"/nil", r3.NewMat(nil), [9]float64{}); f != nil {
			return f
		}
		if f := matSame(key+"/values", r3.NewMat(append([]float64(nil), A[:]...)), A); f != nil {
			return f
		}
		var z r3.Mat
		if f := matSame(key+"/zero-value", &z, [9]float64{}); f != nil {
			return f
		}
		l := abs(c.I) % 12
		if l != 9 {
			return vk.MustPanic(key+"/shape-panic", func() { r3.NewMat(make([]float64, l)) })
		}
		return nil

	case "r3.Mat.AtSet":
		m := receiver(c, nil, nil)
		want := readMat(m)
		i, j := abs(c.I)%3, abs(c.J)%3
		m.Set(i, j, alpha)
		want[3*i+j] = alpha
		if f := matSame(key+"/set", m, want); f != nil {
			return f
		}
		// RawMatrix shares the backing data.
		k := abs(c.K) % 9
		raw := m.RawMatrix()
		raw.Data[k] = float64(c.P[0])
		want[k] = float64(c.P[0])
		if f := matSame(key+"/rawmatrix-write", m, want); f != nil {
			return f
		}
		// T reflects later changes of the receiver.
		t := m.T()
		m.Set(j, i, float64(c.P[1]))
		if !vk.SameBits(t.At(i, j), float64(c.P[1])) {
			return vk.Failf(key+"/transpose-live", "T() does not reflect Set")
		}
		// "It will panic if i or j are out of bounds for the matrix": a
		// deliberate panic (mat.ErrRowAccess / mat.ErrColAccess, as the safe
		// build raises), the same in both builds, and no element is written.
		want = readMat(m)
		for _, bad := range [][2]int{{3, 0}, {0, 3}, {-1, 0}, {0, -1}, {3 + abs(c.K), 1}, {1, -1 - abs(c.K)}} {
			switch r := vk.Call(func() { m.At(bad[0], bad[1]) }); r.Outcome {
			case vk.Returned:
				return vk.Failf(key+"/at-out-of-range", "At(%d,%d) returned, documented to panic", bad[0], bad[1])
			case vk.RuntimeFault:
				return vk.Failf(key+"/out-of-range-runtime-panic", "At(%d,%d) ends in a runtime error instead of mat.ErrRowAccess/ErrColAccess (the safe build's panic): %s", bad[0], bad[1], r.Text)
			}
			switch r := vk.Call(func() { m.Set(bad[0], bad[1], 1) }); r.Outcome {
			case vk.Returned:
				return vk.Failf(key+"/set-out-of-range", "Set(%d,%d) returned", bad[0], bad[1])
			case vk.RuntimeFault:
				return vk.Failf(key+"/out-of-range-runtime-panic", "Set(%d,%d) ends in a runtime error instead of mat.ErrRowAccess/ErrColAccess (the safe build's panic): %s", bad[0], bad[1], r.Text)
			}
		}
		return matSame(key+"/out-of-range-unchanged", m, want)

	case "r3.Mat.T":
		a := matOperand(A, c.KindA)
		m := r3.NewMat(nil)
		m.CloneFrom(a)
		return matSame(key, m, A)

	case "r3.Mat.Scale", "r3.Mat.Add", "r3.Mat.Sub", "r3.Mat.CloneFrom":
		a, b := matOperand(A, c.KindA), matOperand(B, c.KindB)
		m := receiver(c, a, b)
		view := false
		tr := func(v [9]float64) []float64 { return []float64{v[0], v[3], v[6], v[1], v[4], v[7], v[2], v[5], v[8]} }
		switch c.Recv {
		case 5: // a is the transposed view of the receiver
			m = r3.NewMat(tr(A))
			a, view = m.T(), true
		case 6: // b is the transposed view of the receiver
			if c.Fn == "r3.Mat.Add" || c.Fn == "r3.Mat.Sub" {
				m = r3.NewMat(tr(B))
				b, view = m.T(), true
			}
		}
		var want [9]float64
		for i := range want {
			switch c.Fn {
			case "r3.Mat.Scale":
				want[i] = alpha * A[i]
			case "r3.Mat.Add":
				want[i] = A[i] + B[i]
			case "r3.Mat.Sub":
				want[i] = A[i] - B[i]
			default:
				want[i] = A[i]
			}
		}
		if f := vk.MustReturn(key+"/returns", func() {
			switch c.Fn {
			case "r3.Mat.Scale":
				m.Scale(alpha, a)
			case "r3.Mat.Add":
				m.Add(a, b)
			case "r3.Mat.Sub":
				m.Sub(a, b)
			default:
				m.CloneFrom(a)
			}
		}); f != nil {
			return f
		}
		if view {
			// The operand reads the receiver's storage transposed; the documented
			// result is that of the operand values at the time of the call.
			if got := readMat(m); !sameBits9(got, want) {
				return vk.Failf(key+"/transposed-view-of-receiver", "an operand is m.T(): result %v, want %v", got, want)
			}
			return consistent(key, m)
		}
		if f := matSame(key, m, want); f != nil {
			return f
		}
		// The result is a value of its own: writing to it leaves the
		// operands alone and writing to an operand leaves it alone
		// (unless the receiver is that operand).
		readAny := func(x mat.Matrix) [9]float64 {
			var o [9]float64
			for i := 0; i < 3; i++ {
				for j := 0; j < 3; j++ {
					o[3*i+j] = x.At(i, j)
				}
			}
			return o
		}
		i, j := abs(c.I)%3, abs(c.J)%3
		marker := math.Float64frombits(0x7ff8_0000_0000_c08a)
		for n, op := range []mat.Matrix{a, b} {
			orig := [][9]float64{A, B}[n]
			if om, ok := op.(*r3.Mat); ok && om == m {
				continue
			}
			keep := m.At(i, j)
			m.Set(i, j, marker)
			if got := readAny(op); !sameBits9(got, orig) {
				return vk.Failf(key+"/result-shares-storage-with-operand", "writing element (%d,%d) of the result changed operand %d: %v, was %v", i, j, n, got, orig)
			}
			m.Set(i, j, keep)
			if om, ok := op.(*r3.Mat); ok {
				k := abs(c.K) % 9
				before := readMat(m)
				raw := om.RawMatrix()
				old := raw.Data[k]
				raw.Data[k] = marker
				if got := readMat(m); !sameBits9(got, before) {
					return vk.Failf(key+"/result-shares-storage-with-operand", "writing to operand %d after the call changed the result: %v, was %v", n, got, before)
				}
				raw.Data[k] = old
			}
		}
		return nil

	case "r3.Mat.Mul":
		a, b := matOperand(A, c.KindA), matOperand(B, c.KindB)
		m := receiver(c, a, b)
		if f := vk.MustReturn(key+"/returns", func() { m.Mul(a, b) }); f != nil {
			return f
		}
		if f := consistent(key, m); f != nil {
			return f
		}
		got := readMat(m)
		for i := 0; i < 3; i++ {
			for j := 0; j < 3; j++ {
				x := []float64{A[3*i], A[3*i+1], A[3*i+2]}
				y := []float64{B[j], B[3+j], B[6+j]}
				if want, tol, ok := sumProdOK(got[3*i+j], x, y); !ok {
					return vk.Failf(key+"/value", "(A*B)[%d][%d] = %v want %v tol %g", i, j, got[3*i+j], want, tol)
				}
			}
		}
		return nil

	case "r3.Mat.MulGeneral":
		// inner dimension k != 3: a is 3×k, b is k×3
		k := []int{1, 2, 4, 5}[abs(c.K)%4]
		r := vk.NewSplitMix(uint64(abs(c.I))*977 + uint64(abs(c.J)) + 1)
		ad, bd := make([]float64, 3*k), make([]float64, 3*k)
		r.FillFinite(ad)
		r.FillFinite(bd)
		a, b := mat.NewDense(3, k, ad), mat.NewDense(k, 3, bd)
		m := receiver(c, nil, nil)
		// documented: "Mul will panic if a does not have 3 rows, b does not have
		// 3 columns, or the number of columns in a does not equal the number of
		// rows in b"; a 3×k by k×3 product is therefore computed.
		if f := vk.MustReturn(key+"/returns", func() { m.Mul(a, b) }); f != nil {
			return f
		}
		if f := consistent(key, m); f != nil {
			return f
		}
		got := readMat(m)
		for i := 0; i < 3; i++ {
			for j := 0; j < 3; j++ {
				x, y := make([]float64, k), make([]float64, k)
				for l := 0; l < k; l++ {
					x[l], y[l] = ad[i*k+l], bd[l*3+j]
				}
				if want, tol, ok := sumProdOK(got[3*i+j], x, y); !ok {
					return vk.Failf(key+"/value", "(3×%d * %d×3)[%d][%d] = %v want %v tol %g", k, k, i, j, got[3*i+j], want, tol)
				}
			}
		}
		return nil

	case "r3.Mat.MulVec", "r3.Mat.MulVecTrans":
		trans := c.Fn == "r3.Mat.MulVecTrans"
		var m *r3.Mat
		M := A
		if c.Recv == 1 {
			m, M = &r3.Mat{}, [9]float64{}
		} else {
			m = r3.NewMat(append([]float64(nil), A[:]...))
		}
		var got []float64
		if trans {
			got = f3(m.MulVecTrans(p3))
		} else {
			got = f3(m.MulVec(p3))
		}
		for i := 0; i < 3; i++ {
			row := []float64{M[3*i], M[3*i+1], M[3*i+2]}
			if trans {
				row = []float64{M[i], M[3+i], M[6+i]}
			}
			if want, tol, ok := sumProdOK(got[i], row, pv); !ok {
				return vk.Failf(key+"/value", "component %d = %v want %v tol %g", i, got[i], want, tol)
			}
		}
		return nil

	case "r3.Mat.VecRowCol":
		m := r3.NewMat(append([]float64(nil), A[:]...))
		if f := consistent(key, m); f != nil {
			return f
		}
		var z r3.Mat
		if z.VecRow(abs(c.I)%3) != (r3.Vec{}) || z.VecCol(abs(c.J)%3) != (r3.Vec{}) {
			return vk.Failf(key+"/zero-value", "rows/columns of the zero value are not zero")
		}
		// "The zero value is usable as the 3×3 zero matrix": an index is
		// accepted or rejected by the zero value as by NewMat(nil).
		for _, idx := range []int{-1 - abs(c.K), 3 + abs(c.K)} {
			var z0 r3.Mat
			zm := r3.NewMat(nil)
			r0, r1 := vk.Call(func() { z0.VecRow(idx) }), vk.Call(func() { zm.VecRow(idx) })
			c0, c1 := vk.Call(func() { z0.VecCol(idx) }), vk.Call(func() { zm.VecCol(idx) })
			if (r0.Outcome == vk.Returned) != (r1.Outcome == vk.Returned) || (c0.Outcome == vk.Returned) != (c1.Outcome == vk.Returned) {
				return vk.Failf(key+"/zero-value-index", "index %d: VecRow %v / VecCol %v on the zero value but %v / %v on NewMat(nil)", idx, r0.Outcome, c0.Outcome, r1.Outcome, c1.Outcome)
			}
		}
		if f := vk.MustPanic(key+"/row-panic", func() { m.VecRow(3 + abs(c.I)%3) }); f != nil {
			return f
		}
		return vk.MustPanic(key+"/col-panic", func() { m.VecCol(3 + abs(c.J)%3) })

	case "r3.Mat.Outer":
		m := receiver(c, nil, nil)
		m.Outer(alpha, p3, q3)
		if f := consistent(key, m); f != nil {
			return f
		}
		got := readMat(m)
		if !moderate(pv, qv, []float64{alpha}) {
			return nil
		}
		for i := 0; i < 3; i++ {
			for j := 0; j < 3; j++ {
				want := alpha * pv[i] * qv[j]
				if !(math.Abs(got[3*i+j]-want) <= 4*vk.Eps*math.Abs(want)) {
					return vk.Failf(key+"/value", "Outer[%d][%d] = %v want %v", i, j, got[3*i+j], want)
				}
			}
		}
		return nil

	case "r3.Mat.Det":
		var m *r3.Mat
		M := A
		if c.Recv == 1 {
			m, M = &r3.Mat{}, [9]float64{}
		} else {
			m = r3.NewMat(append([]float64(nil), A[:]...))
		}
		got := m.Det()
		if !moderate(M[:]) {
			return nil
		}
		var dd, ab vk.DD
		tri := func(sign float64, i, j, k int) {
			p := M[i] * M[j]
			e := math.FMA(M[i], M[j], -p)
			dd.AddProd(sign*p, M[k])
			dd.AddProd(sign*e, M[k])
			ab.Add(math.Abs(p * M[k]))
		}
		tri(1, 0, 4, 8)
		tri(-1, 0, 5, 7)
		tri(-1, 1, 3, 8)
		tri(1, 1, 5, 6)
		tri(1, 2, 3, 7)
		tri(-1, 2, 4, 6)
		tol := 16*vk.Eps*ab.Float() + 1e-300
		if !(math.Abs(got-dd.Float()) <= tol) {
			return vk.Failf(key+"/value", "Det(%v) = %v want %v tol %g", M, got, dd.Float(), tol)
		}
		return nil

	case "r3.Mat.Skew":
		want := [9]float64{0, -p3.Z, p3.Y, p3.Z, 0, -p3.X, -p3.Y, p3.X, 0}
		m := receiver(c, nil, nil)
		m.Skew(p3)
		if f := matSame(key+"/method", m, want); f != nil {
			return f
		}
		return matSame(key+"/func", r3.Skew(p3), want)

	case "r3.Eye":
		return matSame(key, r3.Eye(), [9]float64{1, 0, 0, 0, 1, 0, 0, 0, 1})

	case "r3.Mat.ShapePanics":
		shapes := [][2]int{{2, 3}, {3, 2}, {4, 4}, {1, 1}, {3, 4}}
		sh := shapes[abs(c.I)%len(shapes)]
		bad := mat.NewDense(sh[0], sh[1], nil)
		good := matOperand(A, c.KindA)
		m := r3.NewMat(append([]float64(nil), B[:]...))
		calls := map[string]func(){
			"scale":     func() { m.Scale(alpha, bad) },
			"clonefrom": func() { m.CloneFrom(bad) },
			"add-a":     func() { m.Add(bad, good) },
			"add-b":     func() { m.Add(good, bad) },
			"sub-a":     func() { m.Sub(bad, good) },
			"sub-b":     func() { m.Sub(good, bad) },
		}
		// Mul panics when the shapes cannot give a 3×3 product.
		if sh[0] != 3 {
			calls["mul-a"] = func() { m.Mul(bad, good) }
		}
		if sh[1] != 3 {
			calls["mul-b"] = func() { m.Mul(good, bad) }
		}
		for _, name := range []string{"scale", "clonefrom", "add-a", "add-b", "sub-a", "sub-b", "mul-a", "mul-b"} {
			f, ok := calls[name]
			if !ok {
				continue
			}
			if fl := vk.MustPanic(key+"/"+name, f); fl != nil {
				return fl
			}
			if fl := matSame(key+"/"+name+"-unchanged", m, B); fl != nil {
				return fl
			}
		}
		return nil
	}
	return vk.Failf("bad-case", "unknown function %q", c.Fn)
}

func drawR3(t *rapid.T) rcase {
	c := rcase{Fn: rapid.SampledFrom(r3Fns).Draw(t, "fn")}
	c.Cls = rapid.SampledFrom([]int{clsFinite, clsFinite, clsFinite, clsExtreme}).Draw(t, "cls")
	g := elemGen(c.Cls)
	for i := 0; i < 3; i++ {
		c.P[i] = vk.F(g.Draw(t, "p"))
		c.Q[i] = vk.F(g.Draw(t, "q"))
		c.R[i] = vk.F(vk.FiniteGen().Draw(t, "r"))
	}
	for i := 0; i < 9; i++ {
		c.A[i] = vk.F(g.Draw(t, "a"))
		c.B[i] = vk.F(g.Draw(t, "b"))
	}
	c.Alpha = vk.F(drawScalar(t, "alpha", c.Cls))
	if c.Fn == "r2.Rotate" || c.Fn == "r3.Rotate" {
		c.Alpha = vk.F(rapid.OneOf(rapid.SampledFrom([]float64{0, math.Pi, math.Pi / 2, -math.Pi / 2, 2 * math.Pi, 1e-9}), rapid.Float64Range(-10, 10)).Draw(t, "angle"))
	}
	c.I = rapid.IntRange(0, 11).Draw(t, "i")
	c.J = rapid.IntRange(0, 11).Draw(t, "j")
	c.K = rapid.IntRange(0, 11).Draw(t, "k")
	c.KindA = rapid.IntRange(0, 3).Draw(t, "kindA")
	c.KindB = rapid.IntRange(0, 3).Draw(t, "kindB")
	c.Recv = rapid.IntRange(0, 6).Draw(t, "recv")
	return c
}

func TestR3(t *testing.T) {
	vk.Run(t, "spatial", vk.Opts{Quick: 30000, Thorough: 400000, NoCrumb: true}, drawR3, checkR3)
}

func sameBits9(a, b [9]float64) bool {
	for i := range a {
		if math.Float64bits(a[i]) != math.Float64bits(b[i]) {
			return false
		}
	}
	return true
}
