// Package c08 checks property C08 for the public packages floats,
// floats/scalar, cmplxs, cmplxs/cscalar, spatial/r2 and spatial/r3. The
// internal kernels are checked by the files in ../inrepo, injected into
// gonum's internal packages with go test -overlay.
package c08

import (
	"testing"

	"verifharness/vk"
)

func TestMain(m *testing.M) { vk.Main(m, "C08") }
