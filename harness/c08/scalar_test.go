package c08

// floats/scalar and cmplxs/cscalar against their documented definitions.

import (
	"math"
	"math/big"
	"math/cmplx"
	"strconv"
	"testing"

	"gonum.org/v1/gonum/cmplxs/cscalar"
	"gonum.org/v1/gonum/floats/scalar"
	"pgregory.net/rapid"
	"verifharness/vk"
)

type scase struct {
	Fn         string
	A, B       vk.F // operands (real parts)
	AI, BI     vk.F // imaginary parts (cscalar)
	Tol, Tol2  vk.F
	U          uint
	Payload    uint64
	Prec       int
	S, Missing string
}

const minNormal = 0x1p-1022

var scalarFns = []string{
	"scalar.EqualWithinAbs", "scalar.EqualWithinRel", "scalar.EqualWithinAbsOrRel", "scalar.EqualWithinULP",
	"scalar.NaNWith", "scalar.NaNPayload", "scalar.ParseWithNA", "scalar.Round", "scalar.RoundEven", "scalar.Same",
	"cscalar.EqualWithinAbs", "cscalar.EqualWithinRel", "cscalar.EqualWithinAbsOrRel", "cscalar.ParseWithNA",
	"cscalar.Round", "cscalar.RoundEven", "cscalar.Same",
}

// relRef evaluates the documented relation delta <= tol*max for the relative
// comparison. decided is false when the two float64 evaluations of the
// relation (delta/max <= tol and delta <= tol*max) disagree or when delta is
// not finite, i.e. when the outcome depends on rounding.
func relRef(delta, mx, tol float64) (want, decided bool) {
	if math.IsNaN(delta) || math.IsNaN(mx) {
		return false, true
	}
	if math.IsInf(delta, 0) {
		return false, false
	}
	r1 := delta/mx <= tol
	r2 := delta <= tol*mx
	return r1, r1 == r2
}

// ulpKey maps a float64 to an integer such that adjacent floats map to
// adjacent integers (both zeros map to 0).
func ulpKey(x float64) int64 {
	b := int64(math.Float64bits(math.Abs(x)))
	if math.Signbit(x) {
		return -b
	}
	return b
}

// roundRef returns the acceptable results of rounding x to prec decimal
// places (half away from zero, or half to even), and whether they must be
// matched bit-for-bit (otherwise within 2 ulp).
func roundRef(x float64, prec int, even bool) (cands []float64, exact bool) {
	switch {
	case math.IsNaN(x) || math.IsInf(x, 0):
		return []float64{x}, true
	case x == 0:
		return []float64{0}, true
	case prec >= 400:
		return []float64{x}, true // finer than any float64: unchanged
	case prec <= -400:
		return []float64{0}, true // |x| < 0.5e400
	}
	q := new(big.Rat).SetFloat64(x)
	p10 := new(big.Rat).SetInt(new(big.Int).Exp(big.NewInt(10), big.NewInt(int64(abs(prec))), nil))
	if prec >= 0 {
		q.Mul(q, p10)
	} else {
		q.Quo(q, p10)
	}
	qf, _ := q.Float64()
	if math.Abs(qf) >= 1<<52 {
		return nil, false // every float64 this large is already rounded: result must be x up to rounding
	}
	// floor
	kLo := new(big.Int).Div(q.Num(), q.Denom()) // Euclidean division: floor for positive denominators
	frac := new(big.Rat).Sub(q, new(big.Rat).SetInt(kLo))
	half := big.NewRat(1, 2)
	kHi := new(big.Int).Add(kLo, big.NewInt(1))
	dist := new(big.Rat).Sub(frac, half)
	df, _ := dist.Float64()
	exactPow := prec >= 0 && prec <= 22
	var ks []*big.Int
	switch {
	case dist.Sign() == 0 && exactPow:
		// exact tie, and x*10^prec is computed exactly
		if even {
			if kLo.Bit(0) == 0 {
				ks = []*big.Int{kLo}
			} else {
				ks = []*big.Int{kHi}
			}
		} else if q.Sign() > 0 {
			ks = []*big.Int{kHi}
		} else {
			ks = []*big.Int{kLo}
		}
	case math.Abs(df) <= 8*vk.Eps*math.Max(math.Abs(qf), 1):
		ks = []*big.Int{kLo, kHi} // too close to a tie for float64 arithmetic to tell
	case dist.Sign() < 0:
		ks = []*big.Int{kLo}
	default:
		ks = []*big.Int{kHi}
	}
	for _, k := range ks {
		r := new(big.Rat).SetInt(k)
		if prec >= 0 {
			r.Quo(r, p10)
		} else {
			r.Mul(r, p10)
		}
		f, _ := r.Float64()
		if f == 0 {
			f = 0 // +0
		}
		cands = append(cands, f)
	}
	return cands, exactPow
}

// sameParts reports whether the real parts and the imaginary parts are each
// equal or both NaN.
func sameParts(a, b complex128) bool {
	eq := func(x, y float64) bool { return x == y || (math.IsNaN(x) && math.IsNaN(y)) }
	return eq(real(a), real(b)) && eq(imag(a), imag(b))
}

func abs(i int) int {
	if i < 0 {
		return -i
	}
	return i
}

func checkRound(key string, got, x float64, prec int, even bool) *vk.Failure {
	cands, exact := roundRef(x, prec, even)
	if cands == nil {
		if !(math.Abs(got-x) <= 8*vk.Eps*math.Abs(x)) {
			return vk.Failf(key+"/large", "Round(%v, %d) = %v", x, prec, got)
		}
		return nil
	}
	if math.IsInf(x, 0) && math.IsNaN(got) && prec < -323 {
		return vk.Failf(key+"/inf-huge-negative-prec", "Round(%v, %d) = %v, documented Round(±Inf) = ±Inf (10^prec underflows to 0 and Inf*0 is NaN)", x, prec, got)
	}
	for _, w := range cands {
		if vk.SameBits(got, w) || (!exact && vk.Ulps(got, w) <= 2 && !(w == 0 && math.Signbit(got))) {
			return nil
		}
	}
	return vk.Failf(key+"/value", "Round(%v, %d) (even=%v) = %v, acceptable %v", x, prec, even, got, cands)
}

func checkScalar(c scase) *vk.Failure {
	a, b, tol, tol2 := float64(c.A), float64(c.B), float64(c.Tol), float64(c.Tol2)
	za, zb := complex(a, float64(c.AI)), complex(b, float64(c.BI))
	vk.Class(c.Fn)
	vk.NonTrivial(c.Fn, math.Float64bits(a)>>52, math.Float64bits(b)>>52, math.Float64bits(tol)>>52, c.Prec, c.U)
	vk.Sample("scalar:"+c.Fn, c)
	key := c.Fn
	absRef := func(eq bool, delta float64) bool { return eq || delta <= tol }
	switch c.Fn {
	case "scalar.EqualWithinAbs":
		if g, w := scalar.EqualWithinAbs(a, b, tol), absRef(a == b, math.Abs(a-b)); g != w {
			return vk.Failf(key+"/value", "EqualWithinAbs(%v, %v, %v) = %v", a, b, tol, g)
		}
	case "cscalar.EqualWithinAbs":
		if g, w := cscalar.EqualWithinAbs(za, zb, tol), absRef(za == zb, cmplx.Abs(za-zb)); g != w {
			return vk.Failf(key+"/value", "EqualWithinAbs(%v, %v, %v) = %v", za, zb, tol, g)
		}
	case "scalar.EqualWithinRel", "cscalar.EqualWithinRel":
		var g, eq bool
		var delta, mx float64
		if c.Fn == "scalar.EqualWithinRel" {
			g, eq, delta, mx = scalar.EqualWithinRel(a, b, tol), a == b, math.Abs(a-b), math.Max(math.Abs(a), math.Abs(b))
		} else {
			g, eq, delta, mx = cscalar.EqualWithinRel(za, zb, tol), za == zb, cmplx.Abs(za-zb), math.Max(cmplx.Abs(za), cmplx.Abs(zb))
		}
		if eq {
			if !g {
				return vk.Failf(key+"/equal", "equal operands %v %v reported different", za, zb)
			}
			return nil
		}
		w, decided := relRef(delta, mx, tol)
		if delta <= minNormal {
			// documented: "A difference not greater than the smallest normal
			// float64, 2^-1022, is compared with tol times that number instead"
			vk.Class(c.Fn + "/tiny-difference")
			w, decided = delta <= tol*minNormal, true
		}
		if !decided {
			vk.Class(c.Fn + "/rounding-boundary")
			return nil
		}
		if g != w {
			return vk.Failf(key+"/value", "EqualWithinRel(%v, %v, %v) = %v; |a-b| = %g, tol*max = %g", za, zb, tol, g, delta, tol*mx)
		}
	case "scalar.EqualWithinAbsOrRel":
		w := absRef(a == b, math.Abs(a-b)) || scalar.EqualWithinRel(a, b, tol2)
		if g := scalar.EqualWithinAbsOrRel(a, b, tol, tol2); g != w {
			return vk.Failf(key+"/value", "EqualWithinAbsOrRel(%v, %v, %v, %v) = %v", a, b, tol, tol2, g)
		}
	case "cscalar.EqualWithinAbsOrRel":
		w := absRef(za == zb, cmplx.Abs(za-zb)) || cscalar.EqualWithinRel(za, zb, tol2)
		if g := cscalar.EqualWithinAbsOrRel(za, zb, tol, tol2); g != w {
			return vk.Failf(key+"/value", "EqualWithinAbsOrRel(%v, %v, %v, %v) = %v", za, zb, tol, tol2, g)
		}
	case "scalar.EqualWithinULP":
		g := scalar.EqualWithinULP(a, b, c.U)
		var w bool
		switch {
		case a == b:
			w = true
		case math.IsNaN(a) || math.IsNaN(b):
			w = false
		default:
			ka, kb := ulpKey(a), ulpKey(b)
			d := new(big.Int).Sub(big.NewInt(ka), big.NewInt(kb))
			w = d.Abs(d).Cmp(new(big.Int).SetUint64(uint64(c.U))) <= 0
		}
		if g != w {
			return vk.Failf(key+"/value", "EqualWithinULP(%v, %v, %d) = %v", a, b, c.U, g)
		}
	case "scalar.NaNWith", "scalar.NaNPayload":
		f := scalar.NaNWith(c.Payload)
		bits := math.Float64bits(f)
		if !math.IsNaN(f) || bits&(1<<51) == 0 {
			return vk.Failf(key+"/quiet-nan", "NaNWith(%#x) = %#x is not a quiet NaN", c.Payload, bits)
		}
		if bits&(1<<51-1) != c.Payload&(1<<51-1) {
			return vk.Failf(key+"/payload-bits", "NaNWith(%#x) = %#x", c.Payload, bits)
		}
		if p, ok := scalar.NaNPayload(f); !ok || p != c.Payload&(1<<51-1) {
			return vk.Failf(key+"/round-trip", "NaNPayload(NaNWith(%#x)) = %#x, %v", c.Payload, p, ok)
		}
		if math.Float64bits(math.NaN()) != math.Float64bits(scalar.NaNWith(1)) {
			return vk.Failf(key+"/math-nan", "math.NaN() is not NaNWith(1)")
		}
		// arbitrary bit patterns: quiet NaN <=> exponent all ones and quiet bit set
		x := math.Float64frombits(c.Payload)
		p, ok := scalar.NaNPayload(x)
		quiet := c.Payload&0x7ff8000000000000 == 0x7ff8000000000000
		if ok != quiet || (ok && p != c.Payload&(1<<51-1)) || (!ok && p != 0) {
			return vk.Failf(key+"/payload", "NaNPayload(bits %#x) = %#x, %v", c.Payload, p, ok)
		}
		if p, ok := scalar.NaNPayload(a); !math.IsNaN(a) && (ok || p != 0) {
			return vk.Failf(key+"/non-nan", "NaNPayload(%v) = %#x, %v", a, p, ok)
		}
	case "scalar.ParseWithNA":
		v, wgt, err := scalar.ParseWithNA(c.S, c.Missing)
		if c.S == c.Missing {
			if v != 0 || wgt != 0 || err != nil {
				return vk.Failf(key+"/missing", "ParseWithNA(%q, %q) = %v, %v, %v", c.S, c.Missing, v, wgt, err)
			}
			return nil
		}
		wv, werr := strconv.ParseFloat(c.S, 64)
		ww := 1.0
		if werr != nil {
			ww = 0
		}
		if !vk.SameBits(v, wv) || wgt != ww || (err != nil) != (werr != nil) {
			return vk.Failf(key+"/value", "ParseWithNA(%q, %q) = %v, %v, %v; strconv gives %v, %v", c.S, c.Missing, v, wgt, err, wv, werr)
		}
	case "cscalar.ParseWithNA":
		return checkCParse(c)
	case "scalar.Round":
		return checkRound(key, scalar.Round(a, c.Prec), a, c.Prec, false)
	case "scalar.RoundEven":
		return checkRound(key, scalar.RoundEven(a, c.Prec), a, c.Prec, true)
	case "cscalar.Round", "cscalar.RoundEven":
		even := c.Fn == "cscalar.RoundEven"
		var g complex128
		if even {
			g = cscalar.RoundEven(za, c.Prec)
		} else {
			g = cscalar.Round(za, c.Prec)
		}
		if za == 0 {
			if g != 0 || math.Signbit(real(g)) || math.Signbit(imag(g)) {
				return vk.Failf(key+"/zero", "Round(%v) = %v, documented +0", za, g)
			}
			return nil
		}
		if f := checkRound(key, real(g), real(za), c.Prec, even); f != nil {
			return f
		}
		return checkRound(key, imag(g), imag(za), c.Prec, even)
	case "scalar.Same":
		if g, w := scalar.Same(a, b), a == b || (math.IsNaN(a) && math.IsNaN(b)); g != w {
			return vk.Failf(key+"/value", "Same(%v, %v) = %v", a, b, g)
		}
	case "cscalar.Same":
		w := za == zb || (cmplx.IsNaN(za) && cmplx.IsNaN(zb))
		g := cscalar.Same(za, zb)
		if !w && sameParts(za, zb) {
			// "the same value, allowing NaN equality": equal parts, NaN matching NaN
			// (cmplx.IsNaN is false for a value with an infinite and a NaN part).
			if !g {
				return vk.Failf(key+"/inf-nan-parts", "Same(%v, %v) = false although both parts are the same", za, zb)
			}
			return nil
		}
		if g != w {
			return vk.Failf(key+"/value", "Same(%v, %v) = %v", za, zb, g)
		}
	default:
		return vk.Failf("bad-case", "unknown function %q", c.Fn)
	}
	return nil
}

// checkCParse: S is built by drawScalarCase from (A, AI) in form Prec; the
// parsed value must be that number. Strings in form < 0 are malformed.
func checkCParse(c scase) *vk.Failure {
	key := c.Fn
	v, wgt, err := cscalar.ParseWithNA(c.S, c.Missing)
	if c.S == c.Missing {
		if v != 0 || wgt != 0 || err != nil {
			return vk.Failf(key+"/missing", "ParseWithNA(%q, %q) = %v, %v, %v", c.S, c.Missing, v, wgt, err)
		}
		return nil
	}
	if (err == nil) != (wgt == 1) || (err != nil && wgt != 0) {
		return vk.Failf(key+"/weight", "ParseWithNA(%q) = %v, weight %v, err %v", c.S, v, wgt, err)
	}
	if c.Prec < 0 {
		if err == nil {
			return vk.Failf(key+"/malformed-accepted", "ParseWithNA(%q) = %v without error", c.S, v)
		}
		return nil
	}
	want := complex(float64(c.A), float64(c.AI))
	if err != nil || v != want {
		return vk.Failf(key+"/value", "ParseWithNA(%q) = %v, %v; want %v", c.S, v, err, want)
	}
	return nil
}

// formatComplex renders re+im*i in one of the well-formed shapes.
func formatComplex(re, im float64, form int) (string, float64, float64) {
	f := func(x float64) string { return strconv.FormatFloat(x, 'g', -1, 64) }
	sgn := func(x float64) string {
		if math.Signbit(x) {
			return f(x)
		}
		return "+" + f(x)
	}
	switch form % 6 {
	case 0:
		return "(" + f(re) + sgn(im) + "i)", re, im
	case 1:
		return f(re) + sgn(im) + "i", re, im
	case 2:
		return f(re), re, 0
	case 3:
		return f(im) + "i", 0, im
	case 4:
		return "(" + f(re) + ")", re, 0
	default:
		e := func(x float64) string { return strconv.FormatFloat(x, 'e', -1, 64) }
		s := e(im)
		if !math.Signbit(im) {
			s = "+" + s
		}
		return e(re) + s + "i", re, im
	}
}

var malformed = []string{"", "abc", "(1+2i", "1+2i)", "1++2i", "1+2", "i1", "()", "1+2i+3", "1 + 2i", "0x", "--1"}

func relatedTo(t *rapid.T, a float64, tol float64) float64 {
	switch rapid.IntRange(0, 8).Draw(t, "rel") {
	case 0:
		return a
	case 1:
		k := rapid.IntRange(-6, 6).Draw(t, "ulps")
		b := a
		for i := 0; i < abs(k); i++ {
			b = math.Nextafter(b, math.Inf(k))
		}
		return b
	case 2:
		return a + tol
	case 3:
		return a * (1 + tol)
	case 4:
		return a * (1 - tol)
	case 5:
		return -a
	case 6:
		return math.Nextafter(a+tol, math.Inf(rapid.SampledFrom([]int{-1, 1}).Draw(t, "dir")))
	}
	return drawScalar(t, "b", clsSpecial)
}

var tols = []float64{0, 1e-16, 1e-12, 1e-9, 1e-3, 0.25, 0.6, 1, 2, 1e300, 5e-324, math.Inf(1), math.NaN(), -1}

var roundBases = []float64{0.5, 1.5, 2.5, -0.5, -2.5, 2.675, 1.005, 0.125, 0.375, 1234.5678, -98765.4321, 1e15 + 0.5, 4503599627370497.5, 1e22, 123456789012345678, 0.049999999999999996, 5e-324, 1e-300, 1e300, math.MaxFloat64}

func drawScalarCase(t *rapid.T) scase {
	c := scase{Fn: rapid.SampledFrom(scalarFns).Draw(t, "fn")}
	cls := rapid.SampledFrom([]int{clsFinite, clsFinite, clsExtreme, clsSpecial}).Draw(t, "cls")
	c.Tol = vk.F(rapid.SampledFrom(tols).Draw(t, "tol"))
	c.Tol2 = vk.F(rapid.SampledFrom(tols).Draw(t, "tol2"))
	a := drawScalar(t, "a", cls)
	if rapid.IntRange(0, 5).Draw(t, "tiny") == 0 {
		// subnormal / tiny-difference region
		a = float64(rapid.IntRange(-40, 40).Draw(t, "sub")) * rapid.SampledFrom([]float64{5e-324, 1e-320, 1e-310, 2.5e-308}).Draw(t, "unit")
	}
	c.A = vk.F(a)
	c.B = vk.F(relatedTo(t, a, math.Abs(float64(c.Tol))))
	c.AI = vk.F(drawScalar(t, "ai", cls))
	if rapid.Bool().Draw(t, "sameim") {
		c.BI = c.AI
	} else {
		c.BI = vk.F(relatedTo(t, float64(c.AI), math.Abs(float64(c.Tol))))
	}
	c.U = uint(rapid.SampledFrom([]uint64{0, 1, 2, 3, 5, 10, 1 << 52, math.MaxUint64}).Draw(t, "ulp"))
	c.Payload = rapid.Uint64().Draw(t, "payload")
	if rapid.IntRange(0, 3).Draw(t, "nanbits") == 0 {
		c.Payload |= 0x7ff0000000000000
	}
	switch c.Fn {
	case "scalar.Round", "scalar.RoundEven", "cscalar.Round", "cscalar.RoundEven":
		c.Prec = rapid.SampledFrom([]int{0, 0, 1, 2, 2, 3, 5, 8, 15, 17, 22, 23, 25, -1, -2, -3, -5, -25, 400, -400}).Draw(t, "prec")
		mk := func(label string) float64 {
			switch rapid.IntRange(0, 4).Draw(t, label+"_k") {
			case 0:
				return rapid.SampledFrom(roundBases).Draw(t, label+"_base")
			case 1:
				// k + 1/2 scaled to the precision, and its neighbours
				k := float64(rapid.IntRange(-2000, 2000).Draw(t, label+"_half")) + 0.5
				x := k / math.Pow10(c.Prec)
				d := rapid.IntRange(-2, 2).Draw(t, label+"_nudge")
				for i := 0; i < abs(d); i++ {
					x = math.Nextafter(x, math.Inf(d))
				}
				return x
			case 2:
				return float64(rapid.IntRange(-1000000, 1000000).Draw(t, label+"_dec")) / 1000
			}
			return drawScalar(t, label, cls)
		}
		c.A = vk.F(mk("x"))
		c.AI = vk.F(mk("y"))
	case "scalar.ParseWithNA":
		c.Missing = rapid.SampledFrom([]string{"NA", "", "-", "NaN"}).Draw(t, "missing")
		switch rapid.IntRange(0, 3).Draw(t, "sk") {
		case 0:
			c.S = c.Missing
		case 1:
			c.S = strconv.FormatFloat(a, rapid.SampledFrom([]byte{'g', 'e', 'f', 'x'}).Draw(t, "fmt"), -1, 64)
		case 2:
			c.S = rapid.SampledFrom([]string{"", "abc", "1e400", "-1e400", " 1", "1 ", "0x1p-2", "1_000", "Inf", "-inf", "nan", "+5", ".5", "5.", "1e", "--1"}).Draw(t, "lit")
		default:
			c.S = rapid.StringMatching(`[-+]?[0-9]{0,4}(\.[0-9]{0,4})?(e[-+]?[0-9]{1,3})?`).Draw(t, "re")
		}
	case "cscalar.ParseWithNA":
		c.Missing = rapid.SampledFrom([]string{"NA", "", "-"}).Draw(t, "missing")
		re, im := vk.FiniteGen().Draw(t, "re"), vk.FiniteGen().Draw(t, "im")
		if cls == clsExtreme {
			re = rapid.SampledFrom(extremes).Draw(t, "rex")
		}
		switch rapid.IntRange(0, 5).Draw(t, "sk") {
		case 0:
			c.S = c.Missing
		case 1:
			c.Prec = -1
			c.S = rapid.SampledFrom(malformed).Draw(t, "bad")
			if c.S == c.Missing {
				c.S = "abc"
			}
		default:
			c.Prec = rapid.IntRange(0, 5).Draw(t, "form")
			var wr, wi float64
			c.S, wr, wi = formatComplex(re, im, c.Prec)
			c.A, c.AI = vk.F(wr), vk.F(wi)
		}
	}
	return c
}

func scalarGrid() []scase {
	// all pairs over a fixed set of interesting values and tolerances for the comparison functions
	vals := []float64{0, math.Copysign(0, -1), 1, -1, 1 + 0x1p-52, 1 - 0x1p-53, 1.25, 2, 1e-320, 2e-320, 1e-310, 2.9e-308, 3e-308, 2.2250738585072014e-308,
		5e-324, -5e-324, 1e300, -1e300, math.MaxFloat64, -math.MaxFloat64, math.Inf(1), math.Inf(-1), math.NaN(), 100, 100.00000001}
	ts := []float64{0, 1e-9, 0.04, 0.6, 1, math.Inf(1), math.NaN(), 5e-324, 1e-3}
	var out []scase
	for _, fn := range []string{"scalar.EqualWithinAbs", "scalar.EqualWithinRel", "scalar.EqualWithinAbsOrRel", "scalar.EqualWithinULP", "scalar.Same",
		"cscalar.EqualWithinAbs", "cscalar.EqualWithinRel", "cscalar.EqualWithinAbsOrRel", "cscalar.Same"} {
		for i, a := range vals {
			for j, b := range vals {
				for k, tol := range ts {
					c := scase{Fn: fn, A: vk.F(a), B: vk.F(b), Tol: vk.F(tol), Tol2: vk.F(ts[(k+i+j)%len(ts)]), U: uint((i*j + k) % 5)}
					if fn[0] == 'c' {
						c.AI, c.BI = vk.F(vals[(i+k)%len(vals)]), vk.F(vals[(j+2*k)%len(vals)])
					}
					out = append(out, c)
				}
			}
		}
	}
	sp := []float64{1, math.Inf(1), math.Inf(-1), math.NaN()}
	for _, ar := range sp {
		for _, ai := range sp {
			for _, br := range sp {
				for _, bi := range sp {
					out = append(out, scase{Fn: "cscalar.Same", A: vk.F(ar), AI: vk.F(ai), B: vk.F(br), BI: vk.F(bi)})
				}
			}
		}
	}
	for _, fn := range []string{"scalar.Round", "scalar.RoundEven", "cscalar.Round", "cscalar.RoundEven"} {
		for i, x := range append(append([]float64{}, roundBases...), vals...) {
			for _, prec := range []int{0, 1, 2, 3, 8, 22, 23, -1, -2, -3, 400, -400} {
				out = append(out, scase{Fn: fn, A: vk.F(x), AI: vk.F(roundBases[(i+abs(prec))%len(roundBases)]), Prec: prec},
					scase{Fn: fn, A: vk.F(-x), AI: vk.F(x), Prec: prec})
			}
		}
	}
	return out
}

func TestScalar(t *testing.T) {
	grid := scalarGrid()
	vk.Enumerate(t, "scalar-fns", len(grid), func(i int) scase { return grid[i] }, checkScalar)
	vk.Run(t, "scalar-fns", vk.Opts{Quick: 30000, Thorough: 400000, NoCrumb: true}, drawScalarCase, checkScalar)
}
